import ObiVerif.Model.Iter
import ObiVerif.Lemmas.Reseq
import ObiVerif.Lemmas.Iter
/-!
# C03 — no record is lost, duplicated or reordered between reader and writer (property theorems)

Input streams are given as `ks.map fun k => (k, v k)` with `ks.Perm (List.range n)`: the batches
numbered `0..n-1` (contents `v k`, possibly empty) arriving in the arbitrary order `ks`.  Every theorem
quantifies over all `n`, all contents, all arrival orders.
-/
namespace ObiVerif.Props.C03
open ObiVerif.Reseq ObiVerif.Iter

/-- batches pushed with numbers 0,1,2,… in that order -/
def Numbered (bs : List Batch) : Prop := bs.map (·.1) = List.range bs.length

/-- the records of the numbered input, in batch order -/
def inFlat (v : Nat → List Rec) (n : Nat) : List Rec := (List.range n).flatMap v

theorem foldl_snoc_batches (l acc : List Batch) :
    l.foldl (fun (l : List Batch) (b : Batch) => l ++ [b]) acc = acc ++ l := by
  induction l generalizing acc with
  | nil => simp
  | cons a t ih => simp [ih]

/-- `SortBatches` delivers batch 0, 1, …, n-1 whatever the arrival order -/
theorem sort_perm (v : Nat → List Rec) (n : Nat) (ks : List Nat) (hp : ks.Perm (List.range n)) :
    sortBatches (ks.map fun k => (k, v k)) = (List.range n).map fun k => (k, v k) := by
  unfold sortBatches
  have h := (run_perm (fun (l : List Batch) (b : Batch) => l ++ [b]) []
    (fun k => ((k, v k) : Batch)) n ks hp).1
  simp only [List.map_map] at h ⊢
  have e : ((fun b : Batch => (b.1, b)) ∘ fun k => (k, v k)) = fun k => (k, ((k, v k) : Batch)) := rfl
  rw [e, h, foldl_snoc_batches]; simp

theorem sort_numbered_flatten (v : Nat → List Rec) (n : Nat) (ks : List Nat) (hp : ks.Perm (List.range n)) :
    Numbered (sortBatches (ks.map fun k => (k, v k))) ∧
    flatten (sortBatches (ks.map fun k => (k, v k))) = inFlat v n := by
  rw [sort_perm v n ks hp]
  constructor
  · simp only [Numbered, List.map_map, List.length_map, List.length_range]
    exact List.map_id' _
  · simp [flatten, inFlat, List.flatMap_map]

theorem inFlat_flatMap (v : Nat → List Rec) (n : Nat) (f : Rec → List Rec) :
    inFlat (fun k => (v k).flatMap f) n = (inFlat v n).flatMap f := by
  simp [inFlat, List.flatMap_assoc]

theorem inFlat_filter (v : Nat → List Rec) (n : Nat) (p : Rec → Bool) :
    inFlat (fun k => (v k).filter p) n = (inFlat v n).filter p := by
  simp [inFlat, List.filter_flatMap]

/-- the input of every theorem below is an `IsStream` -/
theorem input_isStream (v : Nat → List Rec) (n : Nat) (ks : List Nat) (hp : ks.Perm (List.range n)) :
    IsStream (ks.map fun k => (k, v k)) n (inFlat v n) := isStream_keyed v n ks hp

/-- contents used by the non-vacuity examples: batch 0 = [10,11,12], batch 1 empty, batch 2 = [13,14] -/
def exV : Nat → List Rec := fun k => if k = 0 then [10, 11, 12] else if k = 1 then [] else [13, 14]

/-! ## 8. Pool -/

/-- `Pool`: whatever the interleaving `arr` of the pooled iterators, the batches are renumbered
0,1,2,… and the records are exactly those pushed, in push order -/
theorem pool_spec (arr : List Batch) :
    Numbered (pool arr) ∧ flatten (pool arr) = arr.flatMap (·.2) := pool_keys_flat arr

/-! ## 9. IBatchOver -/

theorem batchOver_spec (size : Nat) (hsize : 0 < size) (data : List Rec) :
    let out := batchOver size (data.length + 1) data 0
    Numbered out ∧ flatten out = data ∧ (∀ b ∈ out, 0 < b.2.length ∧ b.2.length ≤ size) ∧
    ∀ i (h : i + 1 < out.length), (out[i]).2.length = size := by
  intro out
  obtain ⟨h1, h2, h3, _⟩ := batchOver_aux size hsize (data.length + 1) data 0 (by omega)
  refine ⟨?_, h2, h3.1, h3.2⟩
  show out.map (·.1) = List.range out.length
  rw [List.range_eq_range']; exact h1

example : let out := batchOver 2 6 [1, 2, 3, 4, 5] 0
    Numbered out ∧ flatten out = [1, 2, 3, 4, 5] ∧ (∀ b ∈ out, 0 < b.2.length ∧ b.2.length ≤ 2) ∧
    ∀ i (h : i + 1 < out.length), (out[i]).2.length = 2 :=
  batchOver_spec 2 (by decide) [1, 2, 3, 4, 5]

/-! ## 4. MakeISliceWorker -/

/-- batch numbers are kept, emptied batches included -/
theorem workerStage_keyed (f : Rec → List Rec) (v : Nat → List Rec) (ks : List Nat) :
    workerStage f (ks.map fun k => (k, v k)) = ks.map fun k => (k, (v k).flatMap f) := by
  simp [workerStage]

/-- for every arrival order `ks'` of the worker stage's output, sorting restores the input order -/
theorem worker_spec (f : Rec → List Rec) (v : Nat → List Rec) (n : Nat) (ks ks' : List Nat)
    (hp : ks.Perm (List.range n)) (hp' : ks'.Perm ks) :
    workerStage f (ks.map fun k => (k, v k)) = (ks.map fun k => (k, (v k).flatMap f)) ∧
    Numbered (sortBatches (ks'.map fun k => (k, (v k).flatMap f))) ∧
    flatten (sortBatches (ks'.map fun k => (k, (v k).flatMap f))) = (inFlat v n).flatMap f := by
  refine ⟨workerStage_keyed f v ks, ?_⟩
  have := sort_numbered_flatten (fun k => (v k).flatMap f) n ks' (hp'.trans hp)
  rwa [inFlat_flatMap] at this

/-- same, the arrival order being any permutation of the list of batches the workers push -/
theorem worker_spec_perm (f : Rec → List Rec) (v : Nat → List Rec) (n : Nat) (ks : List Nat)
    (hp : ks.Perm (List.range n)) (arr' : List Batch)
    (hperm : arr'.Perm (workerStage f (ks.map fun k => (k, v k)))) :
    Numbered (sortBatches arr') ∧ flatten (sortBatches arr') = (inFlat v n).flatMap f := by
  rw [workerStage_keyed] at hperm
  have h := isStream_of_perm_keyed (fun k => (v k).flatMap f) n ks hp arr' hperm
  have e : (List.range n).flatMap (fun k => (v k).flatMap f) = (inFlat v n).flatMap f :=
    inFlat_flatMap v n f
  rw [e] at h
  exact ⟨h.sort.1, h.sort.2.2⟩

example : workerStage (fun r => [r, r + 100]) ([1, 0, 2].map fun k => (k, exV k)) =
      ([1, 0, 2].map fun k => (k, (exV k).flatMap fun r => [r, r + 100])) ∧
    Numbered (sortBatches ([2, 1, 0].map fun k => (k, (exV k).flatMap fun r => [r, r + 100]))) ∧
    flatten (sortBatches ([2, 1, 0].map fun k => (k, (exV k).flatMap fun r => [r, r + 100]))) =
      (inFlat exV 3).flatMap fun r => [r, r + 100] :=
  worker_spec _ exV 3 [1, 0, 2] [2, 1, 0] (by decide) (by decide)

/-! ## 2. FilterEmpty -/

theorem filterEmpty_spec (v : Nat → List Rec) (n : Nat) (ks : List Nat) (hp : ks.Perm (List.range n)) :
    let out := filterEmpty (ks.map fun k => (k, v k))
    Numbered out ∧ flatten out = inFlat v n ∧ ∀ b ∈ out, b.2 ≠ [] := by
  intro out
  obtain ⟨h1, h2, h3⟩ := filterEmpty_keys_flat (ks.map fun k => (k, v k))
  rw [(sort_numbered_flatten v n ks hp).2] at h2
  exact ⟨h1, h2, h3⟩

example : let out := filterEmpty ([1, 0, 2].map fun k => (k, exV k))
    Numbered out ∧ flatten out = inFlat exV 3 ∧ ∀ b ∈ out, b.2 ≠ [] :=
  filterEmpty_spec exV 3 [1, 0, 2] (by decide)

/-! ## 1. Rebatch -/

theorem rebatch_spec (size : Nat) (hsize : 0 < size) (v : Nat → List Rec) (n : Nat) (ks : List Nat)
    (hp : ks.Perm (List.range n)) :
    let out := rebatch size (ks.map fun k => (k, v k))
    Numbered out ∧ flatten out = inFlat v n ∧ (∀ b ∈ out, 0 < b.2.length ∧ b.2.length ≤ size) ∧
    ∀ i (h : i + 1 < out.length), (out[i]).2.length = size := by
  intro out
  have h := (input_isStream v n ks hp).rebatch size hsize
  exact ⟨h.1, h.2.1, h.2.2.1, h.2.2.2⟩

example : let out := rebatch 2 ([1, 0, 2].map fun k => (k, exV k))
    Numbered out ∧ flatten out = inFlat exV 3 ∧ (∀ b ∈ out, 0 < b.2.length ∧ b.2.length ≤ 2) ∧
    ∀ i (h : i + 1 < out.length), (out[i]).2.length = 2 :=
  rebatch_spec 2 (by decide) exV 3 [1, 0, 2] (by decide)

/-- `Rebatch` fed with any arrival permutation `arr` of a stream `src` that was pushed with numbers
0,1,2,… (the output of every combinator of this file) -/
theorem rebatch_after (size : Nat) (hsize : 0 < size) (src arr : List Batch) (hsrc : Numbered src)
    (hperm : arr.Perm src) :
    let out := rebatch size arr
    Numbered out ∧ flatten out = flatten src ∧ (∀ b ∈ out, 0 < b.2.length ∧ b.2.length ≤ size) ∧
    ∀ i (h : i + 1 < out.length), (out[i]).2.length = size := by
  intro out
  have h := (isStream_of_perm_numbered src arr hsrc hperm).rebatch size hsize
  exact ⟨h.1, h.2.1, h.2.2.1, h.2.2.2⟩

/-! ## 5. FilterOn -/

theorem filterOn_spec (p : Rec → Bool) (size : Nat) (hsize : 0 < size) (v : Nat → List Rec) (n : Nat)
    (ks : List Nat) (hp : ks.Perm (List.range n)) :
    let out := filterOn p size (ks.map fun k => (k, v k))
    Numbered out ∧ flatten out = (inFlat v n).filter p ∧
    (∀ b ∈ out, 0 < b.2.length ∧ b.2.length ≤ size) ∧
    ∀ i (h : i + 1 < out.length), (out[i]).2.length = size := by
  intro out
  have h := (input_isStream v n ks hp).filterOn p size hsize
  exact ⟨h.1, h.2.1, h.2.2.1, h.2.2.2⟩

example : let out := filterOn (fun r => r % 2 == 0) 2 ([1, 0, 2].map fun k => (k, exV k))
    Numbered out ∧ flatten out = (inFlat exV 3).filter (fun r => r % 2 == 0) ∧
    (∀ b ∈ out, 0 < b.2.length ∧ b.2.length ≤ 2) ∧
    ∀ i (h : i + 1 < out.length), (out[i]).2.length = 2 :=
  filterOn_spec _ 2 (by decide) exV 3 [1, 0, 2] (by decide)

/-! ## 3. DivideOn -/

theorem divideOn_spec (p : Rec → Bool) (size : Nat) (hsize : 0 < size) (v : Nat → List Rec) (n : Nat)
    (ks : List Nat) (hp : ks.Perm (List.range n)) :
    let t := (divideOn p size (ks.map fun k => (k, v k))).1
    let f := (divideOn p size (ks.map fun k => (k, v k))).2
    Numbered t ∧ Numbered f ∧
    flatten t = (inFlat v n).filter p ∧ flatten f = (inFlat v n).filter (fun r => !p r) ∧
    (∀ b ∈ t, 0 < b.2.length ∧ b.2.length ≤ size) ∧
    (∀ i (h : i + 1 < t.length), (t[i]).2.length = size) ∧
    (∀ b ∈ f, 0 < b.2.length ∧ b.2.length ≤ size) ∧
    (∀ i (h : i + 1 < f.length), (f[i]).2.length = size) := by
  intro t f
  obtain ⟨ht, hf⟩ := divideOn_chunked p size hsize (ks.map fun k => (k, v k))
  rw [(sort_numbered_flatten v n ks hp).2] at ht hf
  exact ⟨ht.1, hf.1, ht.2.1, hf.2.1, ht.2.2.1, ht.2.2.2, hf.2.2.1, hf.2.2.2⟩

example : let t := (divideOn (fun r => r % 2 == 0) 2 ([1, 0, 2].map fun k => (k, exV k))).1
    let f := (divideOn (fun r => r % 2 == 0) 2 ([1, 0, 2].map fun k => (k, exV k))).2
    Numbered t ∧ Numbered f ∧
    flatten t = (inFlat exV 3).filter (fun r => r % 2 == 0) ∧
    flatten f = (inFlat exV 3).filter (fun r => !(r % 2 == 0)) ∧
    (∀ b ∈ t, 0 < b.2.length ∧ b.2.length ≤ 2) ∧
    (∀ i (h : i + 1 < t.length), (t[i]).2.length = 2) ∧
    (∀ b ∈ f, 0 < b.2.length ∧ b.2.length ≤ 2) ∧
    (∀ i (h : i + 1 < f.length), (f[i]).2.length = 2) :=
  divideOn_spec _ 2 (by decide) exV 3 [1, 0, 2] (by decide)

/-! ## 6. Distribute -/

theorem distribute_spec (cls : Rec → Nat) (size : Nat) (hsize : 0 < size) (v : Nat → List Rec) (n : Nat)
    (ks : List Nat) (hp : ks.Perm (List.range n)) (key : Nat) :
    let out := distributeKey cls size key (ks.map fun k => (k, v k))
    Numbered out ∧ flatten out = (inFlat v n).filter (fun r => cls r == key) ∧
    (∀ b ∈ out, 0 < b.2.length ∧ b.2.length ≤ size) ∧
    ∀ i (h : i + 1 < out.length), (out[i]).2.length = size := by
  intro out
  have h := distributeKey_chunked cls size hsize key (ks.map fun k => (k, v k))
  rw [(sort_numbered_flatten v n ks hp).2] at h
  exact ⟨h.1, h.2.1, h.2.2.1, h.2.2.2⟩

/-- every record is routed to exactly one class stream — the one of its class — as many times as it
occurs in the input -/
theorem distribute_routing (cls : Rec → Nat) (size : Nat) (hsize : 0 < size) (v : Nat → List Rec)
    (n : Nat) (ks : List Nat) (hp : ks.Perm (List.range n)) (key : Nat) (r : Rec) :
    (flatten (distributeKey cls size key (ks.map fun k => (k, v k)))).count r =
      if cls r = key then (inFlat v n).count r else 0 := by
  rw [(distribute_spec cls size hsize v n ks hp key).2.1]
  split
  · rename_i h
    exact List.count_filter (by simpa using h)
  · rename_i h
    apply List.count_eq_zero.mpr
    intro hm
    have := (List.mem_filter.mp hm).2
    exact h (by simpa using this)

example : let out := distributeKey (fun r => r % 3) 2 1 ([1, 0, 2].map fun k => (k, exV k))
    Numbered out ∧ flatten out = (inFlat exV 3).filter (fun r => r % 3 == 1) ∧
    (∀ b ∈ out, 0 < b.2.length ∧ b.2.length ≤ 2) ∧
    ∀ i (h : i + 1 < out.length), (out[i]).2.length = 2 :=
  distribute_spec _ 2 (by decide) exV 3 [1, 0, 2] (by decide) 1

/-! ## 7. Concat -/

/-- a further stream of `Concat`: (number of batches, contents, arrival order) -/
abbrev StreamDesc := Nat × (Nat → List Rec) × List Nat

/-- the arrival list described by a `StreamDesc` -/
def StreamDesc.arr (s : StreamDesc) : List Batch := s.2.2.map fun k => (k, s.2.1 k)

theorem concat2_spec (n0 : Nat) (v0 : Nat → List Rec) (ks0 : List Nat) (hp0 : ks0.Perm (List.range n0))
    (n1 : Nat) (v1 : Nat → List Rec) (ks1 : List Nat) (hp1 : ks1.Perm (List.range n1)) :
    let out := concat (ks0.map fun k => (k, v0 k)) [ks1.map fun k => (k, v1 k)]
    (out.map (·.1)).Perm (List.range (n0 + n1)) ∧ Numbered (sortBatches out) ∧
    (sortBatches out).length = n0 + n1 ∧
    flatten (sortBatches out) = inFlat v0 n0 ++ inFlat v1 n1 := by
  intro out
  have h := concat_isStream n0 v0 ks0 hp0 [(n1, v1, ks1)] (by simpa using hp1)
  simp only [List.map_cons, List.map_nil, List.sum_cons, List.sum_nil, Nat.add_zero,
    List.flatMap_cons, List.flatMap_nil, List.append_nil] at h
  exact ⟨h.keys_perm, h.sort.1, h.sort.2.1, h.sort.2.2⟩

/-- `Concat` of a first stream and any list of further streams (any of them possibly empty): the
numbers pushed are a permutation of `0..n0+n1+…-1`, and once sorted the records are those of the first
stream, then of the second, … each in its own order -/
theorem concat_spec (n0 : Nat) (v0 : Nat → List Rec) (ks0 : List Nat) (hp0 : ks0.Perm (List.range n0))
    (others : List StreamDesc) (hps : ∀ s ∈ others, s.2.2.Perm (List.range s.1)) :
    let out := concat (ks0.map fun k => (k, v0 k)) (others.map StreamDesc.arr)
    (out.map (·.1)).Perm (List.range (n0 + (others.map (·.1)).sum)) ∧ Numbered (sortBatches out) ∧
    (sortBatches out).length = n0 + (others.map (·.1)).sum ∧
    flatten (sortBatches out) = inFlat v0 n0 ++ others.flatMap fun s => inFlat s.2.1 s.1 := by
  intro out
  have h := concat_isStream n0 v0 ks0 hp0 others hps
  exact ⟨h.keys_perm, h.sort.1, h.sort.2.1, h.sort.2.2⟩

example : let out := concat ([1, 0, 2].map fun k => (k, exV k)) [[].map fun k => (k, exV k), [1, 0].map fun k => (k, exV k)]
    (out.map (·.1)).Perm (List.range (3 + (0 + (2 + 0)))) ∧ Numbered (sortBatches out) ∧
    (sortBatches out).length = 3 + (0 + (2 + 0)) ∧
    flatten (sortBatches out) = inFlat exV 3 ++ (inFlat exV 0 ++ (inFlat exV 2 ++ [])) :=
  concat_spec 3 exV [1, 0, 2] (by decide) [(0, exV, []), (2, exV, [1, 0])] (by decide)

example : let out := concat ([].map fun k => (k, exV k)) [[1, 0, 2].map fun k => (k, exV k)]
    (out.map (·.1)).Perm (List.range (0 + 3)) ∧ Numbered (sortBatches out) ∧
    (sortBatches out).length = 0 + 3 ∧
    flatten (sortBatches out) = inFlat exV 0 ++ inFlat exV 3 :=
  concat2_spec 0 exV [] (by decide) 3 exV [1, 0, 2] (by decide)

/-! ## 10. PairTo -/

theorem pairTo_spec (size : Nat) (hsize : 0 < size)
    (va : Nat → List Rec) (na : Nat) (ka : List Nat) (hpa : ka.Perm (List.range na))
    (vb : Nat → List Rec) (nb : Nat) (kb : List Nat) (hpb : kb.Perm (List.range nb))
    (hlen : (inFlat va na).length = (inFlat vb nb).length) :
    let out := pairTo size (ka.map fun k => (k, va k)) (kb.map fun k => (k, vb k))
    out.map (·.1) = List.range out.length ∧
    out.flatMap (·.2) = (inFlat va na).zip (inFlat vb nb) := by
  intro out
  have ha : Chunked size (rebatch size (sortBatches (ka.map fun k => (k, va k)))) (inFlat va na) := by
    rw [sort_perm va na ka hpa]
    exact (input_isStream va na (List.range na) (List.Perm.refl _)).rebatch size hsize
  have hb : Chunked size (rebatch size (sortBatches (kb.map fun k => (k, vb k)))) (inFlat vb nb) := by
    rw [sort_perm vb nb kb hpb]
    exact (input_isStream vb nb (List.range nb) (List.Perm.refl _)).rebatch size hsize
  exact pair_chunked size _ _ _ _ ha hb hlen

/-- second side of the `PairTo` example: 5 records cut differently (4 + 1) -/
def exW : Nat → List Rec := fun k => if k = 0 then [20, 21, 22, 23] else [24]

example : let out := pairTo 2 ([1, 0, 2].map fun k => (k, exV k)) ([0, 1].map fun k => (k, exW k))
    out.map (·.1) = List.range out.length ∧
    out.flatMap (·.2) = (inFlat exV 3).zip (inFlat exW 2) :=
  pairTo_spec 2 (by decide) exV 3 [1, 0, 2] (by decide) exW 2 [0, 1] (by decide) (by decide)

/-! ## 11. A composed pipeline -/

/-- reader → `MakeISliceWorker f` → `FilterOn p size` → `Rebatch size'`, the batches being delivered
in an arbitrary order between any two stages: no record lost, duplicated or reordered -/
theorem pipeline_ok (f : Rec → List Rec) (p : Rec → Bool) (size size' : Nat) (hsize : 0 < size)
    (hsize' : 0 < size') (v : Nat → List Rec) (n : Nat) (ks : List Nat) (hp : ks.Perm (List.range n))
    (arr1 : List Batch) (h1 : arr1.Perm (workerStage f (ks.map fun k => (k, v k))))
    (arr2 : List Batch) (h2 : arr2.Perm (filterOn p size arr1)) :
    let out := rebatch size' arr2
    Numbered out ∧ flatten out = ((inFlat v n).flatMap f).filter p ∧
    (∀ b ∈ out, 0 < b.2.length ∧ b.2.length ≤ size') ∧
    ∀ i (h : i + 1 < out.length), (out[i]).2.length = size' := by
  intro out
  rw [workerStage_keyed] at h1
  have s1 := isStream_of_perm_keyed (fun k => (v k).flatMap f) n ks hp arr1 h1
  have e : (List.range n).flatMap (fun k => (v k).flatMap f) = (inFlat v n).flatMap f :=
    inFlat_flatMap v n f
  rw [e] at s1
  have c2 := s1.filterOn p size hsize
  have s2 := c2.isStream_of_perm h2
  have c3 := s2.rebatch size' hsize'
  exact ⟨c3.1, c3.2.1, c3.2.2.1, c3.2.2.2⟩

example : let out := rebatch 3 (filterOn (fun r => r % 2 == 0) 2
      (workerStage (fun r => [r, r + 100]) ([1, 0, 2].map fun k => (k, exV k)))).reverse
    Numbered out ∧
    flatten out = ((inFlat exV 3).flatMap fun r => [r, r + 100]).filter (fun r => r % 2 == 0) ∧
    (∀ b ∈ out, 0 < b.2.length ∧ b.2.length ≤ 3) ∧
    ∀ i (h : i + 1 < out.length), (out[i]).2.length = 3 :=
  pipeline_ok _ _ 2 3 (by decide) (by decide) exV 3 [1, 0, 2] (by decide)
    _ (List.Perm.refl _) _ (List.reverse_perm _)

end ObiVerif.Props.C03
