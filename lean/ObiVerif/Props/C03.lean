import ObiVerif.Model.Iter
import ObiVerif.Lemmas.Reseq
import ObiVerif.Lemmas.Iter
import ObiVerif.Lemmas.IterWorker
import ObiVerif.Lemmas.ReseqSteps
import ObiVerif.Lemmas.IterMore
/-!
# C03 — no record is lost, duplicated or reordered between reader and writer (property theorems)

Input streams are given as `ks.map fun k => (k, v k)` with `ks.Perm (List.range n)`: the batches
numbered `0..n-1` (contents `v k`, possibly empty) arriving in the arbitrary order `ks`.  Every theorem
quantifies over all `n`, all contents, all arrival orders.
-/
namespace ObiVerif.Props.C03
open ObiVerif.Reseq ObiVerif.Iter

/-- batches pushed with numbers 0,1,2,… in that order -/
def Numbered (bs : List Batch) : Prop := bs.map (·.1) = List.range bs.length

/-- the records of the numbered input, in batch order -/
def inFlat (v : Nat → List Rec) (n : Nat) : List Rec := (List.range n).flatMap v

theorem foldl_snoc_batches (l acc : List Batch) :
    l.foldl (fun (l : List Batch) (b : Batch) => l ++ [b]) acc = acc ++ l := by
  induction l generalizing acc with
  | nil => simp
  | cons a t ih => simp [ih]

/-- `SortBatches` delivers batch 0, 1, …, n-1 whatever the arrival order -/
theorem sort_perm (v : Nat → List Rec) (n : Nat) (ks : List Nat) (hp : ks.Perm (List.range n)) :
    sortBatches (ks.map fun k => (k, v k)) = (List.range n).map fun k => (k, v k) := by
  unfold sortBatches
  have h := (run_perm (fun (l : List Batch) (b : Batch) => l ++ [b]) []
    (fun k => ((k, v k) : Batch)) n ks hp).1
  simp only [List.map_map] at h ⊢
  have e : ((fun b : Batch => (b.1, b)) ∘ fun k => (k, v k)) = fun k => (k, ((k, v k) : Batch)) := rfl
  rw [e, h, foldl_snoc_batches]; simp

theorem sort_numbered_flatten (v : Nat → List Rec) (n : Nat) (ks : List Nat) (hp : ks.Perm (List.range n)) :
    Numbered (sortBatches (ks.map fun k => (k, v k))) ∧
    flatten (sortBatches (ks.map fun k => (k, v k))) = inFlat v n := by
  rw [sort_perm v n ks hp]
  constructor
  · simp only [Numbered, List.map_map, List.length_map, List.length_range]
    exact List.map_id' _
  · simp [flatten, inFlat, List.flatMap_map]

theorem inFlat_flatMap (v : Nat → List Rec) (n : Nat) (f : Rec → List Rec) :
    inFlat (fun k => (v k).flatMap f) n = (inFlat v n).flatMap f := by
  simp [inFlat, List.flatMap_assoc]

theorem inFlat_filter (v : Nat → List Rec) (n : Nat) (p : Rec → Bool) :
    inFlat (fun k => (v k).filter p) n = (inFlat v n).filter p := by
  simp [inFlat, List.filter_flatMap]

/-- the input of every theorem below is an `IsStream` -/
theorem input_isStream (v : Nat → List Rec) (n : Nat) (ks : List Nat) (hp : ks.Perm (List.range n)) :
    IsStream (ks.map fun k => (k, v k)) n (inFlat v n) := isStream_keyed v n ks hp

/-- contents used by the non-vacuity examples: batch 0 = [10,11,12], batch 1 empty, batch 2 = [13,14] -/
def exV : Nat → List Rec := fun k => if k = 0 then [10, 11, 12] else if k = 1 then [] else [13, 14]

/-! ## 8. Pool -/

/-- `Pool`: whatever the interleaving `arr` of the pooled iterators, the batches are renumbered
0,1,2,… and the records are exactly those pushed, in push order -/
theorem pool_spec (arr : List Batch) :
    Numbered (pool arr) ∧ flatten (pool arr) = arr.flatMap (·.2) := pool_keys_flat arr

/-! ## 9. IBatchOver -/

theorem batchOver_spec (size : Nat) (hsize : 0 < size) (data : List Rec) :
    let out := batchOver size (data.length + 1) data 0
    Numbered out ∧ flatten out = data ∧ (∀ b ∈ out, 0 < b.2.length ∧ b.2.length ≤ size) ∧
    ∀ i (h : i + 1 < out.length), (out[i]).2.length = size := by
  intro out
  obtain ⟨h1, h2, h3, _⟩ := batchOver_aux size hsize (data.length + 1) data 0 (by omega)
  refine ⟨?_, h2, h3.1, h3.2⟩
  show out.map (·.1) = List.range out.length
  rw [List.range_eq_range']; exact h1

example : let out := batchOver 2 6 [1, 2, 3, 4, 5] 0
    Numbered out ∧ flatten out = [1, 2, 3, 4, 5] ∧ (∀ b ∈ out, 0 < b.2.length ∧ b.2.length ≤ 2) ∧
    ∀ i (h : i + 1 < out.length), (out[i]).2.length = 2 :=
  batchOver_spec 2 (by decide) [1, 2, 3, 4, 5]

/-! ## 4. MakeISliceWorker -/

/-- batch numbers are kept, emptied batches included -/
theorem workerStage_keyed (f : Rec → List Rec) (v : Nat → List Rec) (ks : List Nat) :
    workerStage f (ks.map fun k => (k, v k)) = ks.map fun k => (k, (v k).flatMap f) := by
  simp [workerStage]

/-- for every arrival order `ks'` of the worker stage's output, sorting restores the input order -/
theorem worker_spec (f : Rec → List Rec) (v : Nat → List Rec) (n : Nat) (ks ks' : List Nat)
    (hp : ks.Perm (List.range n)) (hp' : ks'.Perm ks) :
    workerStage f (ks.map fun k => (k, v k)) = (ks.map fun k => (k, (v k).flatMap f)) ∧
    Numbered (sortBatches (ks'.map fun k => (k, (v k).flatMap f))) ∧
    flatten (sortBatches (ks'.map fun k => (k, (v k).flatMap f))) = (inFlat v n).flatMap f := by
  refine ⟨workerStage_keyed f v ks, ?_⟩
  have := sort_numbered_flatten (fun k => (v k).flatMap f) n ks' (hp'.trans hp)
  rwa [inFlat_flatMap] at this

/-- same, the arrival order being any permutation of the list of batches the workers push -/
theorem worker_spec_perm (f : Rec → List Rec) (v : Nat → List Rec) (n : Nat) (ks : List Nat)
    (hp : ks.Perm (List.range n)) (arr' : List Batch)
    (hperm : arr'.Perm (workerStage f (ks.map fun k => (k, v k)))) :
    Numbered (sortBatches arr') ∧ flatten (sortBatches arr') = (inFlat v n).flatMap f := by
  rw [workerStage_keyed] at hperm
  have h := isStream_of_perm_keyed (fun k => (v k).flatMap f) n ks hp arr' hperm
  have e : (List.range n).flatMap (fun k => (v k).flatMap f) = (inFlat v n).flatMap f :=
    inFlat_flatMap v n f
  rw [e] at h
  exact ⟨h.sort.1, h.sort.2.2⟩

example : workerStage (fun r => [r, r + 100]) ([1, 0, 2].map fun k => (k, exV k)) =
      ([1, 0, 2].map fun k => (k, (exV k).flatMap fun r => [r, r + 100])) ∧
    Numbered (sortBatches ([2, 1, 0].map fun k => (k, (exV k).flatMap fun r => [r, r + 100]))) ∧
    flatten (sortBatches ([2, 1, 0].map fun k => (k, (exV k).flatMap fun r => [r, r + 100]))) =
      (inFlat exV 3).flatMap fun r => [r, r + 100] :=
  worker_spec _ exV 3 [1, 0, 2] [2, 1, 0] (by decide) (by decide)

/-! ## 2. FilterEmpty -/

theorem filterEmpty_spec (v : Nat → List Rec) (n : Nat) (ks : List Nat) (hp : ks.Perm (List.range n)) :
    let out := filterEmpty (ks.map fun k => (k, v k))
    Numbered out ∧ flatten out = inFlat v n ∧ ∀ b ∈ out, b.2 ≠ [] := by
  intro out
  obtain ⟨h1, h2, h3⟩ := filterEmpty_keys_flat (ks.map fun k => (k, v k))
  rw [(sort_numbered_flatten v n ks hp).2] at h2
  exact ⟨h1, h2, h3⟩

example : let out := filterEmpty ([1, 0, 2].map fun k => (k, exV k))
    Numbered out ∧ flatten out = inFlat exV 3 ∧ ∀ b ∈ out, b.2 ≠ [] :=
  filterEmpty_spec exV 3 [1, 0, 2] (by decide)

/-! ## 1. Rebatch -/

theorem rebatch_spec (size : Nat) (hsize : 0 < size) (v : Nat → List Rec) (n : Nat) (ks : List Nat)
    (hp : ks.Perm (List.range n)) :
    let out := rebatch size (ks.map fun k => (k, v k))
    Numbered out ∧ flatten out = inFlat v n ∧ (∀ b ∈ out, 0 < b.2.length ∧ b.2.length ≤ size) ∧
    ∀ i (h : i + 1 < out.length), (out[i]).2.length = size := by
  intro out
  have h := (input_isStream v n ks hp).rebatch size hsize
  exact ⟨h.1, h.2.1, h.2.2.1, h.2.2.2⟩

example : let out := rebatch 2 ([1, 0, 2].map fun k => (k, exV k))
    Numbered out ∧ flatten out = inFlat exV 3 ∧ (∀ b ∈ out, 0 < b.2.length ∧ b.2.length ≤ 2) ∧
    ∀ i (h : i + 1 < out.length), (out[i]).2.length = 2 :=
  rebatch_spec 2 (by decide) exV 3 [1, 0, 2] (by decide)

/-- `Rebatch` fed with any arrival permutation `arr` of a stream `src` that was pushed with numbers
0,1,2,… (the output of every combinator of this file) -/
theorem rebatch_after (size : Nat) (hsize : 0 < size) (src arr : List Batch) (hsrc : Numbered src)
    (hperm : arr.Perm src) :
    let out := rebatch size arr
    Numbered out ∧ flatten out = flatten src ∧ (∀ b ∈ out, 0 < b.2.length ∧ b.2.length ≤ size) ∧
    ∀ i (h : i + 1 < out.length), (out[i]).2.length = size := by
  intro out
  have h := (isStream_of_perm_numbered src arr hsrc hperm).rebatch size hsize
  exact ⟨h.1, h.2.1, h.2.2.1, h.2.2.2⟩

/-! ## 5. FilterOn -/

theorem filterOn_spec (p : Rec → Bool) (size : Nat) (hsize : 0 < size) (v : Nat → List Rec) (n : Nat)
    (ks : List Nat) (hp : ks.Perm (List.range n)) :
    let out := filterOn p size (ks.map fun k => (k, v k))
    Numbered out ∧ flatten out = (inFlat v n).filter p ∧
    (∀ b ∈ out, 0 < b.2.length ∧ b.2.length ≤ size) ∧
    ∀ i (h : i + 1 < out.length), (out[i]).2.length = size := by
  intro out
  have h := (input_isStream v n ks hp).filterOn p size hsize
  exact ⟨h.1, h.2.1, h.2.2.1, h.2.2.2⟩

example : let out := filterOn (fun r => r % 2 == 0) 2 ([1, 0, 2].map fun k => (k, exV k))
    Numbered out ∧ flatten out = (inFlat exV 3).filter (fun r => r % 2 == 0) ∧
    (∀ b ∈ out, 0 < b.2.length ∧ b.2.length ≤ 2) ∧
    ∀ i (h : i + 1 < out.length), (out[i]).2.length = 2 :=
  filterOn_spec _ 2 (by decide) exV 3 [1, 0, 2] (by decide)

/-! ## 3. DivideOn -/

theorem divideOn_spec (p : Rec → Bool) (size : Nat) (hsize : 0 < size) (v : Nat → List Rec) (n : Nat)
    (ks : List Nat) (hp : ks.Perm (List.range n)) :
    let t := (divideOn p size (ks.map fun k => (k, v k))).1
    let f := (divideOn p size (ks.map fun k => (k, v k))).2
    Numbered t ∧ Numbered f ∧
    flatten t = (inFlat v n).filter p ∧ flatten f = (inFlat v n).filter (fun r => !p r) ∧
    (∀ b ∈ t, 0 < b.2.length ∧ b.2.length ≤ size) ∧
    (∀ i (h : i + 1 < t.length), (t[i]).2.length = size) ∧
    (∀ b ∈ f, 0 < b.2.length ∧ b.2.length ≤ size) ∧
    (∀ i (h : i + 1 < f.length), (f[i]).2.length = size) := by
  intro t f
  obtain ⟨ht, hf⟩ := divideOn_chunked p size hsize (ks.map fun k => (k, v k))
  rw [(sort_numbered_flatten v n ks hp).2] at ht hf
  exact ⟨ht.1, hf.1, ht.2.1, hf.2.1, ht.2.2.1, ht.2.2.2, hf.2.2.1, hf.2.2.2⟩

example : let t := (divideOn (fun r => r % 2 == 0) 2 ([1, 0, 2].map fun k => (k, exV k))).1
    let f := (divideOn (fun r => r % 2 == 0) 2 ([1, 0, 2].map fun k => (k, exV k))).2
    Numbered t ∧ Numbered f ∧
    flatten t = (inFlat exV 3).filter (fun r => r % 2 == 0) ∧
    flatten f = (inFlat exV 3).filter (fun r => !(r % 2 == 0)) ∧
    (∀ b ∈ t, 0 < b.2.length ∧ b.2.length ≤ 2) ∧
    (∀ i (h : i + 1 < t.length), (t[i]).2.length = 2) ∧
    (∀ b ∈ f, 0 < b.2.length ∧ b.2.length ≤ 2) ∧
    (∀ i (h : i + 1 < f.length), (f[i]).2.length = 2) :=
  divideOn_spec _ 2 (by decide) exV 3 [1, 0, 2] (by decide)

/-! ## 6. Distribute -/

theorem distribute_spec (cls : Rec → Nat) (size : Nat) (hsize : 0 < size) (v : Nat → List Rec) (n : Nat)
    (ks : List Nat) (hp : ks.Perm (List.range n)) (key : Nat) :
    let out := distributeKey cls size key (ks.map fun k => (k, v k))
    Numbered out ∧ flatten out = (inFlat v n).filter (fun r => cls r == key) ∧
    (∀ b ∈ out, 0 < b.2.length ∧ b.2.length ≤ size) ∧
    ∀ i (h : i + 1 < out.length), (out[i]).2.length = size := by
  intro out
  have h := distributeKey_chunked cls size hsize key (ks.map fun k => (k, v k))
  rw [(sort_numbered_flatten v n ks hp).2] at h
  exact ⟨h.1, h.2.1, h.2.2.1, h.2.2.2⟩

/-- every record is routed to exactly one class stream — the one of its class — as many times as it
occurs in the input -/
theorem distribute_routing (cls : Rec → Nat) (size : Nat) (hsize : 0 < size) (v : Nat → List Rec)
    (n : Nat) (ks : List Nat) (hp : ks.Perm (List.range n)) (key : Nat) (r : Rec) :
    (flatten (distributeKey cls size key (ks.map fun k => (k, v k)))).count r =
      if cls r = key then (inFlat v n).count r else 0 := by
  rw [(distribute_spec cls size hsize v n ks hp key).2.1]
  split
  · rename_i h
    exact List.count_filter (by simpa using h)
  · rename_i h
    apply List.count_eq_zero.mpr
    intro hm
    have := (List.mem_filter.mp hm).2
    exact h (by simpa using this)

example : let out := distributeKey (fun r => r % 3) 2 1 ([1, 0, 2].map fun k => (k, exV k))
    Numbered out ∧ flatten out = (inFlat exV 3).filter (fun r => r % 3 == 1) ∧
    (∀ b ∈ out, 0 < b.2.length ∧ b.2.length ≤ 2) ∧
    ∀ i (h : i + 1 < out.length), (out[i]).2.length = 2 :=
  distribute_spec _ 2 (by decide) exV 3 [1, 0, 2] (by decide) 1

/-! ## 7. Concat -/

/-- a further stream of `Concat`: (number of batches, contents, arrival order) -/
abbrev StreamDesc := Nat × (Nat → List Rec) × List Nat

/-- the arrival list described by a `StreamDesc` -/
def StreamDesc.arr (s : StreamDesc) : List Batch := s.2.2.map fun k => (k, s.2.1 k)

theorem concat2_spec (n0 : Nat) (v0 : Nat → List Rec) (ks0 : List Nat) (hp0 : ks0.Perm (List.range n0))
    (n1 : Nat) (v1 : Nat → List Rec) (ks1 : List Nat) (hp1 : ks1.Perm (List.range n1)) :
    let out := concat (ks0.map fun k => (k, v0 k)) [ks1.map fun k => (k, v1 k)]
    (out.map (·.1)).Perm (List.range (n0 + n1)) ∧ Numbered (sortBatches out) ∧
    (sortBatches out).length = n0 + n1 ∧
    flatten (sortBatches out) = inFlat v0 n0 ++ inFlat v1 n1 := by
  intro out
  have h := concat_isStream n0 v0 ks0 hp0 [(n1, v1, ks1)] (by simpa using hp1)
  simp only [List.map_cons, List.map_nil, List.sum_cons, List.sum_nil, Nat.add_zero,
    List.flatMap_cons, List.flatMap_nil, List.append_nil] at h
  exact ⟨h.keys_perm, h.sort.1, h.sort.2.1, h.sort.2.2⟩

/-- `Concat` of a first stream and any list of further streams (any of them possibly empty): the
numbers pushed are a permutation of `0..n0+n1+…-1`, and once sorted the records are those of the first
stream, then of the second, … each in its own order -/
theorem concat_spec (n0 : Nat) (v0 : Nat → List Rec) (ks0 : List Nat) (hp0 : ks0.Perm (List.range n0))
    (others : List StreamDesc) (hps : ∀ s ∈ others, s.2.2.Perm (List.range s.1)) :
    let out := concat (ks0.map fun k => (k, v0 k)) (others.map StreamDesc.arr)
    (out.map (·.1)).Perm (List.range (n0 + (others.map (·.1)).sum)) ∧ Numbered (sortBatches out) ∧
    (sortBatches out).length = n0 + (others.map (·.1)).sum ∧
    flatten (sortBatches out) = inFlat v0 n0 ++ others.flatMap fun s => inFlat s.2.1 s.1 := by
  intro out
  have h := concat_isStream n0 v0 ks0 hp0 others hps
  exact ⟨h.keys_perm, h.sort.1, h.sort.2.1, h.sort.2.2⟩

example : let out := concat ([1, 0, 2].map fun k => (k, exV k)) [[].map fun k => (k, exV k), [1, 0].map fun k => (k, exV k)]
    (out.map (·.1)).Perm (List.range (3 + (0 + (2 + 0)))) ∧ Numbered (sortBatches out) ∧
    (sortBatches out).length = 3 + (0 + (2 + 0)) ∧
    flatten (sortBatches out) = inFlat exV 3 ++ (inFlat exV 0 ++ (inFlat exV 2 ++ [])) :=
  concat_spec 3 exV [1, 0, 2] (by decide) [(0, exV, []), (2, exV, [1, 0])] (by decide)

example : let out := concat ([].map fun k => (k, exV k)) [[1, 0, 2].map fun k => (k, exV k)]
    (out.map (·.1)).Perm (List.range (0 + 3)) ∧ Numbered (sortBatches out) ∧
    (sortBatches out).length = 0 + 3 ∧
    flatten (sortBatches out) = inFlat exV 0 ++ inFlat exV 3 :=
  concat2_spec 0 exV [] (by decide) 3 exV [1, 0, 2] (by decide)

/-! ## 10. PairTo -/

theorem pairTo_spec (size : Nat) (hsize : 0 < size)
    (va : Nat → List Rec) (na : Nat) (ka : List Nat) (hpa : ka.Perm (List.range na))
    (vb : Nat → List Rec) (nb : Nat) (kb : List Nat) (hpb : kb.Perm (List.range nb))
    (hlen : (inFlat va na).length = (inFlat vb nb).length) :
    let out := pairTo size (ka.map fun k => (k, va k)) (kb.map fun k => (k, vb k))
    out.map (·.1) = List.range out.length ∧
    out.flatMap (·.2) = (inFlat va na).zip (inFlat vb nb) := by
  intro out
  have ha : Chunked size (rebatch size (sortBatches (ka.map fun k => (k, va k)))) (inFlat va na) := by
    rw [sort_perm va na ka hpa]
    exact (input_isStream va na (List.range na) (List.Perm.refl _)).rebatch size hsize
  have hb : Chunked size (rebatch size (sortBatches (kb.map fun k => (k, vb k)))) (inFlat vb nb) := by
    rw [sort_perm vb nb kb hpb]
    exact (input_isStream vb nb (List.range nb) (List.Perm.refl _)).rebatch size hsize
  exact pair_chunked size _ _ _ _ ha hb hlen

/-- second side of the `PairTo` example: 5 records cut differently (4 + 1) -/
def exW : Nat → List Rec := fun k => if k = 0 then [20, 21, 22, 23] else [24]

example : let out := pairTo 2 ([1, 0, 2].map fun k => (k, exV k)) ([0, 1].map fun k => (k, exW k))
    out.map (·.1) = List.range out.length ∧
    out.flatMap (·.2) = (inFlat exV 3).zip (inFlat exW 2) :=
  pairTo_spec 2 (by decide) exV 3 [1, 0, 2] (by decide) exW 2 [0, 1] (by decide) (by decide)

/-! ## 11. A composed pipeline -/

/-- reader → `MakeISliceWorker f` → `FilterOn p size` → `Rebatch size'`, the batches being delivered
in an arbitrary order between any two stages: no record lost, duplicated or reordered -/
theorem pipeline_ok (f : Rec → List Rec) (p : Rec → Bool) (size size' : Nat) (hsize : 0 < size)
    (hsize' : 0 < size') (v : Nat → List Rec) (n : Nat) (ks : List Nat) (hp : ks.Perm (List.range n))
    (arr1 : List Batch) (h1 : arr1.Perm (workerStage f (ks.map fun k => (k, v k))))
    (arr2 : List Batch) (h2 : arr2.Perm (filterOn p size arr1)) :
    let out := rebatch size' arr2
    Numbered out ∧ flatten out = ((inFlat v n).flatMap f).filter p ∧
    (∀ b ∈ out, 0 < b.2.length ∧ b.2.length ≤ size') ∧
    ∀ i (h : i + 1 < out.length), (out[i]).2.length = size' := by
  intro out
  rw [workerStage_keyed] at h1
  have s1 := isStream_of_perm_keyed (fun k => (v k).flatMap f) n ks hp arr1 h1
  have e : (List.range n).flatMap (fun k => (v k).flatMap f) = (inFlat v n).flatMap f :=
    inFlat_flatMap v n f
  rw [e] at s1
  have c2 := s1.filterOn p size hsize
  have s2 := c2.isStream_of_perm h2
  have c3 := s2.rebatch size' hsize'
  exact ⟨c3.1, c3.2.1, c3.2.2.1, c3.2.2.2⟩

example : let out := rebatch 3 (filterOn (fun r => r % 2 == 0) 2
      (workerStage (fun r => [r, r + 100]) ([1, 0, 2].map fun k => (k, exV k)))).reverse
    Numbered out ∧
    flatten out = ((inFlat exV 3).flatMap fun r => [r, r + 100]).filter (fun r => r % 2 == 0) ∧
    (∀ b ∈ out, 0 < b.2.length ∧ b.2.length ≤ 3) ∧
    ∀ i (h : i + 1 < out.length), (out[i]).2.length = 3 :=
  pipeline_ok _ _ 2 3 (by decide) (by decide) exV 3 [1, 0, 2] (by decide)
    _ (List.Perm.refl _) _ (List.reverse_perm _)

/-! ## 12. Record-to-slice adapters (`SeqToSliceWorker`, `SeqToSliceConditionalWorker`, `ChainWorkers`)
and the worker stages built on them (`MakeIWorker`, `MakeIConditionalWorker`)

`g` is the capacity the runtime gives when the output slice is grown; the only thing assumed of it is
`Grows g` (a full non-empty slice gets strictly more room — `slices.Grow(s, cap(s))` guarantees twice).
The theorems hold for every such `g`, every fan-out (0 included) of every record and every batch size. -/

/-- `SeqToSliceWorker(worker, false)`: every record produced by the per-record worker is kept, in
order; a failing record only loses its own results; no panic, no nil record -/
theorem seqToSlice_keeps_all (g : Nat → Nat) (hg : Grows g) (worker : SeqWorker) (input : List Rec) :
    seqToSlice g worker false input = .ok (input.flatMap fun s => (worker s).getD []) := by
  rw [seqToSlice_eq_spec g hg]; simp [sliceSpec, keepOk, filter_true']

/-- a worker that never fails (fan-out `(f s).length`, any value ≥ 0, per record): the adapter is `flatMap` -/
theorem seqToSlice_flatMap (g : Nat → Nat) (hg : Grows g) (f : Rec → List Rec) (boe : Bool)
    (input : List Rec) :
    seqToSlice g (fun s => some (f s)) boe input = .ok (input.flatMap f) := by
  rw [seqToSlice_eq_spec g hg]
  simp [sliceSpec, keepOk, filter_true']

/-- `breakOnError`: the batch is refused (`BioSequenceSlice{}, err`) iff one of its records fails -/
theorem seqToSlice_breakOnError (g : Nat → Nat) (hg : Grows g) (worker : SeqWorker) (input : List Rec) :
    seqToSlice g worker true input =
      if input.any (fun s => (worker s).isNone) then .error
      else .ok (input.flatMap fun s => (worker s).getD []) := by
  rw [seqToSlice_eq_spec g hg]; simp [sliceSpec, keepOk, filter_true']

/-- `SeqToSliceConditionalWorker` (code as it is): the results of the records satisfying the condition,
in order; the other records are not delivered -/
theorem seqToSliceCond_spec (g : Nat → Nat) (hg : Grows g) (cond : Rec → Bool) (worker : SeqWorker)
    (boe : Bool) (input : List Rec) :
    seqToSliceCond g cond worker boe input =
      if boe && (input.filter cond).any (fun s => (worker s).isNone) then .error
      else .ok ((input.filter cond).flatMap fun s => (worker s).getD []) := by
  rw [seqToSliceCond_eq_spec g hg]; rfl

/-- `ChainWorkers` is composition: per record `next` is mapped over the results of `worker`
(failing intermediate records skipped), it never panics, and over a batch it is `flatMap ∘ flatMap` -/
theorem chainWorkers_spec (g : Nat → Nat) (hg : Grows g) (worker next : SeqWorker) :
    (∀ s, chainWorkers g worker next s =
        (worker s).map fun l => l.flatMap fun r => (next r).getD []) ∧
    (∀ s, chainPanics g worker next s = false) ∧
    ∀ input : List Rec, (input.flatMap fun s => (chainWorkers g worker next s).getD []) =
      (input.flatMap fun s => (worker s).getD []).flatMap fun r => (next r).getD [] :=
  ⟨fun s => chainWorkers_eq g hg worker next s, fun s => chainPanics_false g hg worker next s,
   fun input => keepOk_chain g hg worker next input⟩

/-- `MakeIWorker(worker, false, n)`: the stage is `workerStage` of the per-record worker — hence by
`worker_spec_perm`, whatever the order in which the goroutines push, a downstream `SortBatches` delivers
the batches numbered 0,1,2,… holding every produced record in input order -/
theorem iWorker_spec (g : Nat → Nat) (hg : Grows g) (worker : SeqWorker) (v : Nat → List Rec) (n : Nat)
    (ks : List Nat) (hp : ks.Perm (List.range n)) (arr' : List Batch)
    (hperm : arr'.Perm (workerStage (fun s => (worker s).getD []) (ks.map fun k => (k, v k)))) :
    iWorker g worker false (ks.map fun k => (k, v k)) =
      .ok (workerStage (fun s => (worker s).getD []) (ks.map fun k => (k, v k))) ∧
    Numbered (sortBatches arr') ∧
    flatten (sortBatches arr') = (inFlat v n).flatMap fun s => (worker s).getD [] := by
  refine ⟨?_, worker_spec_perm _ v n ks hp arr' hperm⟩
  unfold iWorker workerStage
  exact sliceWorkerStage_ok _ (fun l => l.flatMap fun s => (worker s).getD []) false _
    (fun b _ => seqToSlice_keeps_all g hg worker b.2)

/-- `MakeIWorker(worker, true, n)`: the command is stopped (`log.Fatalf`) iff some record fails; else as above -/
theorem iWorker_breakOnError (g : Nat → Nat) (hg : Grows g) (worker : SeqWorker) (arr : List Batch) :
    iWorker g worker true arr =
      if arr.any (fun b => b.2.any fun s => (worker s).isNone) then .fatal
      else .ok (workerStage (fun s => (worker s).getD []) arr) := by
  unfold iWorker
  split
  · rename_i h
    apply sliceWorkerStage_fatal
    · intro b _; rw [seqToSlice_breakOnError g hg]; split <;> simp
    · obtain ⟨b, hb, hf⟩ := List.any_eq_true.mp h
      exact ⟨b, hb, by rw [seqToSlice_breakOnError g hg, if_pos hf]⟩
  · rename_i h
    unfold workerStage
    apply sliceWorkerStage_ok _ (fun l => l.flatMap fun s => (worker s).getD [])
    intro b hb
    rw [seqToSlice_breakOnError g hg]
    have : (b.2.any fun s => (worker s).isNone) = false := by
      cases hx : (b.2.any fun s => (worker s).isNone) with
      | false => rfl
      | true => exact absurd (List.any_eq_true.mpr ⟨b, hb, hx⟩) h
    simp [this]

/-- `MakeIConditionalWorker(cond, worker, false, n)` -/
theorem iCondWorker_spec (g : Nat → Nat) (hg : Grows g) (cond : Rec → Bool) (worker : SeqWorker)
    (arr : List Batch) :
    iCondWorker g cond worker false arr =
      .ok (arr.map fun b => (b.1, (b.2.filter cond).flatMap fun s => (worker s).getD [])) := by
  unfold iCondWorker
  apply sliceWorkerStage_ok _ (fun l => (l.filter cond).flatMap fun s => (worker s).getD [])
  intro b _
  rw [seqToSliceCond_spec g hg]; simp

/-- non-vacuity / the shape of the seeded regression: one record of fan-out 7 in a batch of one record,
a fan-out 0 record, a failing record, batches arriving out of order (`growMin` doubles the capacity) -/
example : iWorker growMin (fun s => if s = 12 then none else some ((List.range (s - 6)).map (s * 100 + ·))) false
      [(1, [13]), (0, [6, 12, 9])] =
    .ok [(1, [1300, 1301, 1302, 1303, 1304, 1305, 1306]), (0, [900, 901, 902])] := by decide

example : Grows growMin := growMin_grows

/-- the one-shot growth of the seeded change loses records — `growIfFull` must be re-tested per cell:
with a single doubling a 1-record batch has room for 2 results only -/
example : storeAll growMin ([none], 0) [100, 101, 102] = some ([some 100, some 101, some 102, none], 3) := by
  decide

/-! ## 13. "Always terminates": the goroutines and channels of a worker stage followed by `SortBatches`

`Model/ReseqSteps.lean` is the transition system: a producer, `N` worker goroutines sharing the input
channel (`Split`), the `SortBatches` goroutine (`received` map, `next_to_send`), the three
`WaitAndClose` closers and the consumer; channels of capacity `cap` (0 = unbuffered, as in the code).
The theorems hold for every `N ≥ 1`, every `cap ≥ 0`, every order `src` in which the source pushes the
batches `0..n-1`, and every scheduling (they are about all reachable states / all executions). -/

open ObiVerif.ReseqSteps in
/-- (i) **safety**: in every reachable state each batch `0..n-1` is at exactly one place (source, a
channel, a worker, the `received` map, the sorter's hand, delivered) — none lost, none duplicated — and
what went downstream so far is `0,1,…,next-1` in that order -/
theorem reseqStage_safety (cap n N : Nat) (hN : 0 < N) (src : List Nat) (hp : src.Perm (List.range n))
    (s : St) (hr : Reach cap src N s) :
    (∀ k, cnt s k = if k < n then 1 else 0) ∧ s.delivered ++ s.cout = List.range s.next ∧
    (s.spc = .done → s.pending = []) :=
  let h := reach_inv hN hp hr
  ⟨by simpa using h.cons, by simpa using h.hist, h.pdone⟩

open ObiVerif.ReseqSteps in
/-- (ii) **progress**: a reachable state in which the consumer has not seen the end of the stream always
has an enabled step (no deadlock), and every step decreases the ranking function `rank` -/
theorem reseqStage_progress (cap : Nat) (s : St) (hnf : ¬ Final s) :
    (∃ s', Step cap s s') ∧ ∀ s', Step cap s s' → rank s' < rank s :=
  ⟨progress cap s hnf, fun _ st => step_rank st⟩

open ObiVerif.ReseqSteps in
/-- hence every execution from the initial state has at most `8n + N + 4` steps, an execution that cannot
be extended has ended (`Final`), some execution does end, and **every** ended execution has delivered the
batches `0,1,…,n-1` in order with nothing left anywhere.  The order `arrived` in which the sorter got the
batches is some permutation of `0..n-1`, and the delivery is what the big-step model
(`Iter.sortBatches` = `Reseq.run`) computes from that arrival order, for any contents `w`. -/
theorem reseqStage_terminates_delivers (cap n N : Nat) (hN : 0 < N) (src : List Nat)
    (hp : src.Perm (List.range n)) :
    (∀ s m, Run cap (init src N) s m → m ≤ 8 * n + N + 4) ∧
    (∀ s m, Run cap (init src N) s m → (¬ ∃ s', Step cap s s') → Final s) ∧
    (∃ s m, Run cap (init src N) s m ∧ Final s) ∧
    ∀ s m, Run cap (init src N) s m → Final s →
      s.delivered = List.range n ∧ s.arrived.Perm (List.range n) ∧
      s.todo = [] ∧ s.cin = [] ∧ s.cmid = [] ∧ s.pending = [] ∧ held s.ws = [] ∧
      ∀ w : Nat → List Rec,
        s.delivered.map (fun k => ((k, w k) : Batch)) = sortBatches (s.arrived.map fun k => (k, w k)) := by
  refine ⟨?_, ?_, ?_, ?_⟩
  · intro s m r
    have := run_bounded r
    rw [rank_init, hp.length_eq, List.length_range] at this
    omega
  · intro s m _ hns
    apply Classical.byContradiction
    intro hnf
    exact hns (progress cap s hnf)
  · exact exists_final_run cap _ _ (Nat.le_refl _)
  · intro s m r hf
    have hinv := reach_inv hN hp (run_reach Reach.init r)
    obtain ⟨h1, h2, h3, h4, h5, h6, h7⟩ := final_result hN s hinv hf
    refine ⟨h1, h2, h3, h4, h5, h6, h7, ?_⟩
    intro w
    rw [sort_perm w n s.arrived h2, h1]

open ObiVerif.ReseqSteps in
/-- non-vacuity: with unbuffered channels and 2 workers, source order 1,0 — a complete hand-scheduled run
(worker 0 takes batch 1, worker 1 takes batch 0, batch 1 reaches the sorter first and waits in the map) -/
example : ∃ s m, Run 0 (init [1, 0] 2) s m ∧ Final s ∧ s.delivered = [0, 1] ∧ s.arrived = [1, 0] :=
  ⟨_, _,
    Run.step (Step.prodHand _ 1 [0] 0 rfl rfl rfl) <|
    Run.step (Step.prodHand _ 0 [] 1 rfl rfl rfl) <|
    Run.step (Step.wHand _ 0 1 rfl rfl rfl) <|
    Run.step (Step.wHand _ 1 0 rfl rfl rfl) <|
    Run.step (Step.sHand _ 0 rfl rfl) <|
    Run.step (Step.sHand _ 1 rfl rfl) <|
    Run.step (Step.inClose _ rfl rfl rfl) <|
    Run.step (Step.wFinish _ 0 rfl rfl rfl) <|
    Run.step (Step.wFinish _ 1 rfl rfl rfl) <|
    Run.step (Step.midClose _ (by decide) rfl rfl) <|
    Run.step (Step.sFinish _ rfl rfl rfl) <|
    Run.step (Step.outClose _ rfl rfl rfl) <|
    Run.refl _,
    ⟨rfl, rfl⟩, rfl, rfl⟩

/-! ## 14. The remaining combinators: IFragments, IMergeSequenceBatch, pass-through stages, Load / Count /
CompleteFileIterator, CopyTee, PairedWith -/

/-- `IFragments`: whatever the order `arr1` in which the cutting goroutines push, the output is numbered
0,1,2,…, holds the fragments of every record in input order (`frag` = the per-record cut, whose geometry
is C11's subject) and obeys the batch size -/
theorem fragments_spec (frag : Rec → List Rec) (size : Nat) (hsize : 0 < size) (v : Nat → List Rec) (n : Nat)
    (ks : List Nat) (hp : ks.Perm (List.range n)) (arr1 : List Batch)
    (h1 : arr1.Perm (workerStage frag (sortBatches (ks.map fun k => (k, v k))))) :
    fragments frag size (ks.map fun k => (k, v k)) =
      rebatch size (workerStage frag (sortBatches (ks.map fun k => (k, v k)))) ∧
    let out := rebatch size arr1
    Numbered out ∧ flatten out = (inFlat v n).flatMap frag ∧
    (∀ b ∈ out, 0 < b.2.length ∧ b.2.length ≤ size) ∧
    ∀ i (h : i + 1 < out.length), (out[i]).2.length = size := by
  refine ⟨rfl, ?_⟩
  intro out
  rw [sort_perm v n ks hp] at h1
  have s0 := input_isStream v n (List.range n) (List.Perm.refl _)
  have c := ((s0.worker frag).perm h1).rebatch size hsize
  exact ⟨c.1, c.2.1, c.2.2.1, c.2.2.2⟩

/-- no record vanishes in the cut: every record gives at least one fragment (itself when short) -/
theorem fragRec_nonempty (len : Rec → Nat) (sub : Rec → Nat → Nat → Rec) (minsize length overlap : Nat)
    (r : Rec) : fragRec len sub minsize length overlap r ≠ [] := fragRec_ne_nil len sub minsize length overlap r

example : let out := rebatch 2 (workerStage (fun r => [r, r + 100]) (sortBatches ([1, 0, 2].map fun k => (k, exV k)))).reverse
    Numbered out ∧ flatten out = (inFlat exV 3).flatMap (fun r => [r, r + 100]) ∧
    (∀ b ∈ out, 0 < b.2.length ∧ b.2.length ≤ 2) ∧
    ∀ i (h : i + 1 < out.length), (out[i]).2.length = 2 :=
  (fragments_spec _ 2 (by decide) exV 3 [1, 0, 2] (by decide) _ (List.reverse_perm _)).2

/-- `IMergeSequenceBatch` on non-empty groups (full statement; an empty group is the explicit outcome
`none`: `Merge` indexes `sequences[0]`): one merged record per group, in arrival order, in batches of
`batchsize` numbered 0,1,2,… -/
theorem mergeBatches_spec (merge : List Rec → Rec) (batchsize : Nat) (hsize : 0 < batchsize)
    (arr : List Batch) (hne : ∀ b ∈ arr, b.2 ≠ []) :
    ∃ out, mergeBatches merge batchsize arr = some out ∧ Numbered out ∧
      flatten out = arr.map (fun b => merge b.2) ∧
      (∀ b ∈ out, 0 < b.2.length ∧ b.2.length ≤ batchsize) ∧
      ∀ i (h : i + 1 < out.length), (out[i]).2.length = batchsize := by
  have hany : arr.any (fun b => b.2.isEmpty) = false := by
    cases hx : arr.any (fun b => b.2.isEmpty) with
    | false => rfl
    | true =>
      obtain ⟨b, hb, he⟩ := List.any_eq_true.mp hx
      exact absurd (List.isEmpty_iff.mp he) (hne b hb)
  refine ⟨_, by simp only [mergeBatches, hany]; rfl, ?_⟩
  exact batchOver_spec batchsize hsize (arr.map fun b => merge b.2)

theorem mergeBatches_empty_group (merge : List Rec → Rec) (batchsize : Nat) (arr : List Batch)
    (h : ∃ b ∈ arr, b.2 = []) : mergeBatches merge batchsize arr = none := by
  obtain ⟨b, hb, he⟩ := h
  have : arr.any (fun b => b.2.isEmpty) = true := List.any_eq_true.mpr ⟨b, hb, by simp [he]⟩
  simp [mergeBatches, this]

example : ∃ out, mergeBatches (fun l => l.headD 0) 2 [(1, [4, 5]), (0, [7]), (2, [9, 9])] = some out ∧
    Numbered out ∧ flatten out = [4, 7, 9] ∧ (∀ b ∈ out, 0 < b.2.length ∧ b.2.length ≤ 2) ∧
    ∀ i (h : i + 1 < out.length), (out[i]).2.length = 2 :=
  mergeBatches_spec _ 2 (by decide) _ (by decide)

/-- `LimitMemory`, `Speed`, `CopyTee`: every batch once, same number, same records, same order -/
theorem passThrough_spec (arr : List Batch) :
    passThrough arr = arr ∧ copyTee arr = (arr, arr) := ⟨rfl, rfl⟩

/-- `Load`, `Count`, `CompleteFileIterator` behind a `SortBatches` (as the readers use them): all the
records, in input order, once; the single batch is numbered 0 and never empty -/
theorem load_spec (v : Nat → List Rec) (n : Nat) (ks : List Nat) (hp : ks.Perm (List.range n)) :
    let sorted := sortBatches (ks.map fun k => (k, v k))
    load sorted = inFlat v n ∧ countRecs sorted = (inFlat v n).length ∧
    Numbered (completeFile sorted) ∧ flatten (completeFile sorted) = inFlat v n ∧
    ∀ b ∈ completeFile sorted, b.2 ≠ [] := by
  intro sorted
  have hl : load sorted = inFlat v n := (sort_numbered_flatten v n ks hp).2
  refine ⟨hl, by simp [countRecs, ← hl, load], ?_⟩
  unfold completeFile
  rw [hl]
  cases hF : inFlat v n with
  | nil => simp [Numbered, flatten]
  | cons a t => simp [Numbered, flatten]

/-- `Load` without the upstream sort delivers the records of the batches in ARRIVAL order: same
multiset, order of the scheduler (the callers that need the order sort first) -/
theorem load_perm (v : Nat → List Rec) (n : Nat) (ks : List Nat) (hp : ks.Perm (List.range n)) :
    (load (ks.map fun k => (k, v k))).Perm (inFlat v n) := by
  simp only [load, flatten_keyed, inFlat]
  exact hp.flatMap_right v

/-- `PairTo` then `PairedWith`: the forward stream and the stream of mates carry the same batch numbers
0,1,2,…, batch by batch the same number of records, the i-th forward record's mate is the i-th reverse
record; forward = first input in order, mates = second input in order -/
theorem pairedWith_aligned (size : Nat) (hsize : 0 < size)
    (va : Nat → List Rec) (na : Nat) (ka : List Nat) (hpa : ka.Perm (List.range na))
    (vb : Nat → List Rec) (nb : Nat) (kb : List Nat) (hpb : kb.Perm (List.range nb))
    (hlen : (inFlat va na).length = (inFlat vb nb).length) :
    let out := pairTo size (ka.map fun k => (k, va k)) (kb.map fun k => (k, vb k))
    (forwardSide out).map (·.1) = List.range out.length ∧
    (pairedWith out).map (·.1) = (forwardSide out).map (·.1) ∧
    (pairedWith out).map (·.2.length) = (forwardSide out).map (·.2.length) ∧
    flatten (forwardSide out) = inFlat va na ∧ flatten (pairedWith out) = inFlat vb nb := by
  intro out
  obtain ⟨h1, h2⟩ := pairTo_spec size hsize va na ka hpa vb nb kb hpb hlen
  refine ⟨?_, ?_, ?_, ?_, ?_⟩
  · have e : (forwardSide out).map (·.1) = out.map (·.1) := by
      simp only [forwardSide, List.map_map]; rfl
    rw [e]; exact h1
  · simp [forwardSide, pairedWith, List.map_map]
  · simp [forwardSide, pairedWith, List.map_map]
  · have : flatten (forwardSide out) = (out.flatMap (·.2)).map (·.1) := by
      simp [flatten, forwardSide, List.flatMap_map, List.map_flatMap]
    rw [this]
    show (List.flatMap (fun x => x.2) (pairTo size _ _)).map (·.1) = _
    rw [h2, map_fst_zip' _ _ hlen]
  · have : flatten (pairedWith out) = (out.flatMap (·.2)).map (·.2) := by
      simp [flatten, pairedWith, List.flatMap_map, List.map_flatMap]
    rw [this]
    show (List.flatMap (fun x => x.2) (pairTo size _ _)).map (·.2) = _
    rw [h2, map_snd_zip' _ _ hlen]

example : let out := pairTo 2 ([1, 0, 2].map fun k => (k, exV k)) ([0, 1].map fun k => (k, exW k))
    (forwardSide out).map (·.1) = List.range out.length ∧
    (pairedWith out).map (·.1) = (forwardSide out).map (·.1) ∧
    (pairedWith out).map (·.2.length) = (forwardSide out).map (·.2.length) ∧
    flatten (forwardSide out) = inFlat exV 3 ∧ flatten (pairedWith out) = inFlat exW 2 :=
  pairedWith_aligned 2 (by decide) exV 3 [1, 0, 2] (by decide) exW 2 [0, 1] (by decide) (by decide)

end ObiVerif.Props.C03
