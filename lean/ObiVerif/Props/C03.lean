import ObiVerif.Model.Iter
import ObiVerif.Lemmas.Reseq
/-!
# C03 — no record is lost, duplicated or reordered between reader and writer (property theorems)

Input streams are given as `ks.map fun k => (k, v k)` with `ks.Perm (List.range n)`: the batches
numbered `0..n-1` (contents `v k`, possibly empty) arriving in the arbitrary order `ks`.  Every theorem
quantifies over all `n`, all contents, all arrival orders.
-/
namespace ObiVerif.Props.C03
open ObiVerif.Reseq ObiVerif.Iter

/-- batches pushed with numbers 0,1,2,… in that order -/
def Numbered (bs : List Batch) : Prop := bs.map (·.1) = List.range bs.length

/-- the records of the numbered input, in batch order -/
def inFlat (v : Nat → List Rec) (n : Nat) : List Rec := (List.range n).flatMap v

theorem foldl_snoc_batches (l acc : List Batch) :
    l.foldl (fun (l : List Batch) (b : Batch) => l ++ [b]) acc = acc ++ l := by
  induction l generalizing acc with
  | nil => simp
  | cons a t ih => simp [ih]

/-- `SortBatches` delivers batch 0, 1, …, n-1 whatever the arrival order -/
theorem sort_perm (v : Nat → List Rec) (n : Nat) (ks : List Nat) (hp : ks.Perm (List.range n)) :
    sortBatches (ks.map fun k => (k, v k)) = (List.range n).map fun k => (k, v k) := by
  unfold sortBatches
  have h := (run_perm (fun (l : List Batch) (b : Batch) => l ++ [b]) []
    (fun k => ((k, v k) : Batch)) n ks hp).1
  simp only [List.map_map] at h ⊢
  have e : ((fun b : Batch => (b.1, b)) ∘ fun k => (k, v k)) = fun k => (k, ((k, v k) : Batch)) := rfl
  rw [e, h, foldl_snoc_batches]; simp

theorem sort_numbered_flatten (v : Nat → List Rec) (n : Nat) (ks : List Nat) (hp : ks.Perm (List.range n)) :
    Numbered (sortBatches (ks.map fun k => (k, v k))) ∧
    flatten (sortBatches (ks.map fun k => (k, v k))) = inFlat v n := by
  rw [sort_perm v n ks hp]
  constructor
  · simp only [Numbered, List.map_map, List.length_map, List.length_range]
    exact List.map_id' _
  · simp [flatten, inFlat, List.flatMap_map]

end ObiVerif.Props.C03
