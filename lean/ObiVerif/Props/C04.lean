import ObiVerif.Model.Writer
import ObiVerif.Lemmas.Reseq
import ObiVerif.Lemmas.WriterFile
import ObiVerif.Lemmas.CsvRoundTrip
/-!
# C04 — writers emit every batch once, in order, as well-formed output (property theorems)

`v k` is the text of chunk number `k` (the formatter's output); `ks` is the order in which the chunk
numbers reach the writer goroutine.  Every theorem quantifies over **all** `n`, **all** arrival
orders `ks` (any permutation of `0..n-1`) and all texts (so every subset of empty chunks).
-/
namespace ObiVerif.Props.C04
open ObiVerif.Reseq ObiVerif.Writer

/-- join the non-empty texts with `sep` -/
def joinNE (sep : Bytes) : List Bytes → Bytes
  | [] => []
  | t :: ts => if t.isEmpty then joinNE sep ts
               else if (joinNE sep ts).isEmpty then t else t ++ sep ++ joinNE sep ts

theorem foldl_emitRaw (l : List Bytes) (acc : Bytes) : l.foldl emitRaw acc = acc ++ l.flatten := by
  induction l generalizing acc with
  | nil => simp
  | cons a t ih => simp [ih, emitRaw]

/-- FASTA / FASTQ / CSV: whatever the arrival order, the output is chunk 0, chunk 1, …, chunk n-1. -/
theorem raw_writer_perm (v : Nat → Bytes) (n : Nat) (ks : List Nat) (hp : ks.Perm (List.range n)) :
    writeRaw (ks.map fun k => (k, v k)) = ((List.range n).map v).flatten := by
  unfold writeRaw
  rw [(run_perm emitRaw [] v n ks hp).1, foldl_emitRaw]; simp

/-- nothing stays in the buffer and the counter ends at `n`: every chunk was written exactly once -/
theorem raw_writer_complete (v : Nat → Bytes) (n : Nat) (ks : List Nat) (hp : ks.Perm (List.range n)) :
    (run emitRaw emitRaw [] (ks.map fun k => (k, v k))).next = n ∧
    (run emitRaw emitRaw [] (ks.map fun k => (k, v k))).pending = [] :=
  (run_perm emitRaw [] v n ks hp).2

/-- CSV: the formatter puts the header in front of chunk 0 only; the document is the header followed
by the rows of every chunk in order (for a stream of at least one chunk). -/
theorem csv_writer_perm (header : Bytes) (rows : Nat → Bytes) (n : Nat) (hn : 0 < n) (ks : List Nat)
    (hp : ks.Perm (List.range n)) :
    writeRaw (ks.map fun k => (k, if k = 0 then header ++ rows k else rows k))
      = header ++ ((List.range n).map rows).flatten := by
  rw [raw_writer_perm (fun k => if k = 0 then header ++ rows k else rows k) n ks hp]
  obtain ⟨m, rfl⟩ : ∃ m, n = m + 1 := ⟨n - 1, by omega⟩
  rw [List.range_succ_eq_map]
  simp only [List.map_cons, List.map_map, List.flatten_cons, if_pos, List.append_assoc]
  congr 2

theorem foldl_emitJson (l : List Bytes) (s : JS) :
    (l.foldl emitJson s).out =
      s.out ++ (if s.some then (if (joinNE sepJson l).isEmpty then [] else sepJson ++ joinNE sepJson l)
                else joinNE sepJson l) ∧
    (l.foldl emitJson s).some = (s.some || !(joinNE sepJson l).isEmpty) := by
  induction l generalizing s with
  | nil => cases s with | mk o b => cases b <;> simp [joinNE]
  | cons t ts ih =>
    simp only [List.foldl_cons]
    obtain ⟨h1, h2⟩ := ih (emitJson s t)
    rw [h1, h2]
    cases s with | mk o b =>
    by_cases ht : t.isEmpty
    · simp [emitJson, ht, joinNE]
    · have ht' : t ≠ [] := by simpa using ht
      cases b
      · by_cases hj : (joinNE sepJson ts).isEmpty <;> simp [emitJson, ht, ht', joinNE, hj]
      · by_cases hj : (joinNE sepJson ts).isEmpty <;> simp [emitJson, ht, ht', joinNE, hj]

/-- JSON: whatever the arrival order and whichever chunks are empty, the output is
`[\n`, the non-empty chunks in order joined by `,\n`, `\n]\n`. -/
theorem json_writer_perm (v : Nat → Bytes) (n : Nat) (ks : List Nat) (hp : ks.Perm (List.range n)) :
    writeJson (ks.map fun k => (k, v k))
      = openJson ++ joinNE sepJson ((List.range n).map v) ++ closeJson := by
  unfold writeJson
  rw [(run_perm emitJson ⟨openJson, false⟩ v n ks hp).1, (foldl_emitJson _ _).1]
  simp

/-- joining the elements of a list of byte strings (the records of a chunk, as `FormatJSONBatch` does) -/
def joinAll (sep : Bytes) : List Bytes → Bytes
  | [] => []
  | [t] => t
  | t :: ts => t ++ sep ++ joinAll sep ts

theorem joinAll_isEmpty (sep : Bytes) (l : List Bytes) (h : ∀ t ∈ l, t ≠ []) :
    (joinAll sep l).isEmpty = l.isEmpty := by
  match l with
  | [] => simp [joinAll]
  | [t] => have := h t (by simp); cases t <;> simp_all [joinAll]
  | t :: u :: ts => have := h t (by simp); cases t <;> simp_all [joinAll]

theorem joinAll_append (sep : Bytes) (a b : List Bytes) (ha : a ≠ []) (hb : b ≠ []) :
    joinAll sep (a ++ b) = joinAll sep a ++ sep ++ joinAll sep b := by
  induction a with
  | nil => exact absurd rfl ha
  | cons t ts ih =>
    cases ts with
    | nil =>
      cases b with
      | nil => exact absurd rfl hb
      | cons u us => simp [joinAll]
    | cons u us =>
      have := ih (by simp)
      simp only [List.cons_append] at this ⊢
      simp [joinAll, this]

theorem joinNE_chunks (sep : Bytes) (chunks : List (List Bytes)) (h : ∀ c ∈ chunks, ∀ t ∈ c, t ≠ []) :
    joinNE sep (chunks.map (joinAll sep)) = joinAll sep chunks.flatten := by
  induction chunks with
  | nil => simp [joinNE, joinAll]
  | cons c cs ih =>
    have ihc := ih (fun c' hc' => h c' (List.mem_cons_of_mem _ hc'))
    have hc := h c (by simp)
    have hflat : ∀ t ∈ cs.flatten, t ≠ [] := by
      intro t ht
      obtain ⟨c', hc', htc⟩ := List.mem_flatten.mp ht
      exact h c' (List.mem_cons_of_mem _ hc') t htc
    simp only [List.map_cons, joinNE, List.flatten_cons]
    rw [joinAll_isEmpty sep c hc, ihc, joinAll_isEmpty sep _ hflat]
    by_cases h1 : c = []
    · simp [h1]
    · by_cases h2 : cs.flatten = []
      · simp [h1, h2]
      · simp only [List.isEmpty_iff, h1, h2, if_false]
        rw [joinAll_append sep c _ h1 h2]

/-- JSON validity: when every chunk is the `,\n`-join of its (non-empty) record objects — what
`FormatJSONBatch` produces — the file is `[\n obj₀ ,\n obj₁ … \n]\n`: one array whose elements are the
records of all batches in batch order, whatever the arrival order and the empty batches. -/
theorem json_is_array_of_records (objs : Nat → List Bytes) (hne : ∀ k, ∀ t ∈ objs k, t ≠ [])
    (n : Nat) (ks : List Nat) (hp : ks.Perm (List.range n)) :
    writeJson (ks.map fun k => (k, joinAll sepJson (objs k)))
      = openJson ++ joinAll sepJson ((List.range n).map objs).flatten ++ closeJson := by
  rw [json_writer_perm (fun k => joinAll sepJson (objs k)) n ks hp]
  have := joinNE_chunks sepJson ((List.range n).map objs) (by
    intro c hc t ht
    obtain ⟨k, _, rfl⟩ := List.mem_map.mp hc
    exact hne k t ht)
  rw [List.map_map] at this
  rw [← this]; rfl

/-- non-vacuity: the hypotheses are met by the arrival order 1,0,2 (the one that broke the unrepaired
writer) with an empty last chunk -/
example : writeJson ([1, 0, 2].map fun k => (k, if k = 2 then [] else [65 + k.toUInt8]))
    = openJson ++ [65] ++ sepJson ++ [66] ++ closeJson := by
  rw [json_writer_perm _ 3 [1, 0, 2] (by decide)]
  decide

/-! ## the formatters inside the model: well-formedness of the whole file

From here on the chunk texts are no longer data: they are produced by the model of the per-batch formatters
(`ObiVerif.WriterFmt`, compared byte for byte with `FormatFastaBatch` / `FormatFastqBatch` / `FormatJSONBatch` /
`FormatCVSBatch` by the harness).  `recs k` is the list of records of batch number `k`; every statement holds
for every `n`, every arrival order `ks` of the batch numbers and any set of empty batches (`recs k = []`). -/

open ObiVerif.WriterFmt ObiVerif.WriterFile

/-- **FASTA file.** Whatever the arrival order and the empty batches, the file written for batches of
well-formed records is read back by the chunk parser of `/repo` (the 7-state machine, model of C02) followed by
`ParseFastSeqJsonHeader` as exactly the records of all batches in batch order (FASTA carries no qualities). -/
theorem fasta_file_reads_back {α : Type} [DecidableEq α] (J : Header.JsonLib α) (se : Bool)
    (recs : Nat → List (Header.Record α))
    (hJ : ∀ k, ∀ x ∈ recs k, J.OKat (x.ann, x.defn)) (hWF : ∀ k, ∀ x ∈ recs k, Header.WF x)
    (n : Nat) (ks : List Nat) (hp : ks.Perm (List.range n)) (hne : ((List.range n).map recs).flatten ≠ []) :
    ∃ out, writeFile { kind := Kind.fasta, skipEmpty := se } (ks.map fun k => (k, (recs k).map (recOf J))) = some out ∧
      Header.readFasta J out
        = some ((((List.range n).map recs).flatten).map (fun x => { x with qual := none })) := by
  refine ⟨_, writeFile_raw _ (by intro h; cases h) (fun k => (recs k).map (recOf J))
    (fun k => ((recs k).map (Header.writeFasta J)).flatten) ?_ n ks hp, ?_⟩
  · intro k
    simpa [fmtBatch] using fmtFastaBatch_eq J se (recs k) (fun x hx => (hWF k x hx).seq_ne)
  · have e : ((List.range n).map fun k => ((recs k).map (Header.writeFasta J)).flatten).flatten
        = ((((List.range n).map recs).flatten).map (Header.writeFasta J)).flatten := by
      rw [← flatten_map_flatten, List.map_map]; rfl
    rw [e]
    have hmem : ∀ x ∈ ((List.range n).map recs).flatten, J.OKat (x.ann, x.defn) ∧ Header.WF x := by
      intro x hx
      obtain ⟨l, hl, hxl⟩ := List.mem_flatten.mp hx
      obtain ⟨k, _, rfl⟩ := List.mem_map.mp hl
      exact ⟨hJ k x hxl, hWF k x hxl⟩
    cases hall : ((List.range n).map recs).flatten with
    | nil => exact absurd hall hne
    | cons r rs =>
      rw [hall] at hmem
      exact Header.write_read_fasta_many_aux J r rs (fun x hx => (hmem x hx).1) (fun x hx => (hmem x hx).2)

/-- **FASTQ file.** Whatever the arrival order, the file is the four-line records (`_formatFastq`, model of C02)
of all batches in batch order, nothing before, between or after them.  (Each such record is read back by the
12-state chunk parser: `Props.C02.write_read_fastq`; the statement that the parser reads a *sequence* of them back
is not proved here — it is tied by the correspondence check of C02 and the decode-back oracle of the harness.) -/
theorem fastq_file_is_records_in_order {α : Type} [DecidableEq α] (J : Header.JsonLib α) (sh : UInt8) (se : Bool)
    (recs : Nat → List (Header.Record α)) (hseq : ∀ k, ∀ x ∈ recs k, x.seq ≠ [])
    (n : Nat) (ks : List Nat) (hp : ks.Perm (List.range n)) :
    writeFile { kind := Kind.fastq, shift := sh, skipEmpty := se } (ks.map fun k => (k, (recs k).map (recOf J)))
      = some ((((List.range n).map recs).flatten).map (Header.writeFastq J sh)).flatten := by
  rw [writeFile_raw _ (by intro h; cases h) (fun k => (recs k).map (recOf J))
    (fun k => ((recs k).map (Header.writeFastq J sh)).flatten)
    (fun k => by simpa [fmtBatch] using fmtFastqBatch_eq J sh se (recs k) (hseq k)) n ks hp]
  rw [← flatten_map_flatten, List.map_map]; rfl

/-- **CSV file.** For a stream of at least one batch, whatever the arrival order and whichever batches are empty
(also batch 0, also all of them), the file is the header line — exactly once, first — followed by one row per record
in batch order; and `encoding/csv`'s reader (model `CsvRead.parse`, compared with the real `csv.Reader` on every
output) reads it back as the header and the rows with every field unchanged up to the reader's own `\r\n` → `\n`,
for ARBITRARY field bytes (quotes, commas, CR, LF, leading blanks).  `hvis`: no row is the single empty field (such a
row is an empty line for every CSV reader). -/
theorem csv_file_reads_back (sh : UInt8) (o : CsvOpt) (recs : Nat → List Rec) (rows : Nat → List (List B))
    (hrows : ∀ k, (recs k).mapM (csvRecord sh o) = some (rows k))
    (hhdr : CsvRT.RowOK (csvHeader o)) (hvis : ∀ k, ∀ row ∈ rows k, row ≠ [[]])
    (n : Nat) (hn : 0 < n) (ks : List Nat) (hp : ks.Perm (List.range n)) :
    ∃ out, writeFile { kind := Kind.csv, shift := sh, csv := o } (ks.map fun k => (k, recs k)) = some out ∧
      out = csvRow (csvHeader o) ++ ((((List.range n).map rows).flatten).map csvRow).flatten ∧
      CsvRead.parse out
        = some ((csvHeader o :: ((List.range n).map rows).flatten).map (fun r => r.map CsvRT.collapse)) := by
  obtain ⟨m, rfl⟩ : ∃ m, n = m + 1 := ⟨n - 1, by omega⟩
  let txt : Nat → B := fun k => (if k = 0 then csvRow (csvHeader o) else []) ++ ((rows k).map csvRow).flatten
  have hfile := writeFile_raw { kind := Kind.csv, shift := sh, csv := o } (by intro h; cases h) recs txt
    (fun k => by simpa [fmtBatch] using fmtCsvBatch_rows sh o k (recs k) (rows k) (hrows k)) (m + 1) ks hp
  have hout : ((List.range (m + 1)).map txt).flatten
      = csvRow (csvHeader o) ++ ((((List.range (m + 1)).map rows).flatten).map csvRow).flatten := by
    have e2 : ((((List.range (m + 1)).map rows).flatten).map csvRow).flatten
        = ((List.range (m + 1)).map fun k => ((rows k).map csvRow).flatten).flatten := by
      rw [← flatten_map_flatten, List.map_map]; rfl
    rw [e2, List.range_succ_eq_map]
    simp [txt, List.map_map, Function.comp_def]
  refine ⟨_, hfile, hout, ?_⟩
  rw [hout]
  have hlenAll : ∀ r ∈ ((List.range (m + 1)).map rows).flatten, r.length = (csvHeader o).length := by
    intro r hr
    obtain ⟨l, hl, hrl⟩ := List.mem_flatten.mp hr
    obtain ⟨k, _, rfl⟩ := List.mem_map.mp hl
    exact mapM_csvRecord_length sh o (recs k) (rows k) (hrows k) r hrl
  have hvisAll : ∀ r ∈ ((List.range (m + 1)).map rows).flatten, r ≠ [[]] := by
    intro r hr
    obtain ⟨l, hl, hrl⟩ := List.mem_flatten.mp hr
    obtain ⟨k, _, rfl⟩ := List.mem_map.mp hl
    exact hvis k r hrl
  have := CsvRT.parse_csvRows (csvHeader o :: ((List.range (m + 1)).map rows).flatten)
    (by
      intro r hr
      rcases List.mem_cons.mp hr with rfl | hr
      · exact hhdr
      · refine ⟨?_, hvisAll r hr⟩
        intro e
        have := hlenAll r hr
        rw [e] at this
        exact hhdr.1 (List.length_eq_zero_iff.mp this.symm))
    (by
      intro r hr r' hr'
      have h1 : r.length = (csvHeader o).length := by
        rcases List.mem_cons.mp hr with rfl | hr
        · rfl
        · exact hlenAll r hr
      have h2 : r'.length = (csvHeader o).length := by
        rcases List.mem_cons.mp hr' with rfl | hr'
        · rfl
        · exact hlenAll r' hr'
      omega)
  simpa using this

/-- the element of the JSON array written for one record: `"  "` + `JSONRecord` -/
def jsonElem (sh : UInt8) (r : Rec) : Bytes := [32, 32] ++ jsonRecord sh r

theorem jsonBatch_join (sh : UInt8) (r : Rec) (rs : List Rec) :
    [32, 32] ++ jsonRecord sh r ++ jsonTail sh rs = joinAll sepJson ((r :: rs).map (jsonElem sh)) := by
  induction rs generalizing r with
  | nil => simp [jsonTail, joinAll, jsonElem]
  | cons r' rs ih =>
    have := ih r'
    simp only [List.map_cons, joinAll, jsonTail, jsonElem, sepJson] at this ⊢
    rw [← this]
    simp

theorem fmtJsonBatch_join (sh : UInt8) (rs : List Rec) :
    fmtJsonBatch sh rs = joinAll sepJson (rs.map (jsonElem sh)) := by
  cases rs with
  | nil => rfl
  | cons r rs => exact jsonBatch_join sh r rs

/-- **JSON file.** Whatever the arrival order and the empty batches, the file is `[\n`, the texts of the records of
all batches in batch order (`"  "` + `JSONRecord`) separated by `,\n`, `\n]\n`: one array with one element per
record, in order — now for the texts the formatter model produces, not for assumed chunk shapes. -/
theorem json_file_is_array_of_record_texts (sh : UInt8) (recs : Nat → List Rec)
    (n : Nat) (ks : List Nat) (hp : ks.Perm (List.range n)) :
    writeFile { kind := Kind.json, shift := sh } (ks.map fun k => (k, recs k))
      = some (openJson ++ joinAll sepJson ((((List.range n).map recs).flatten).map (jsonElem sh)) ++ closeJson) := by
  rw [writeFile_json _ rfl recs n ks]
  have e : (fun k => (k, fmtJsonBatch sh (recs k))) = (fun k => (k, joinAll sepJson ((fun k => (recs k).map (jsonElem sh)) k))) := by
    funext k; rw [fmtJsonBatch_join]
  show some (writeJson (ks.map fun k => (k, fmtJsonBatch sh (recs k)))) = _
  rw [e, json_is_array_of_records (fun k => (recs k).map (jsonElem sh)) ?_ n ks hp]
  · congr 3
    rw [List.map_flatten, List.map_map]; rfl
  · intro k t ht
    obtain ⟨r, _, rfl⟩ := List.mem_map.mp ht
    simp [jsonElem]

/-- **Empty input.** No batch at all, or only empty batches in any order: the JSON file is the empty array
`[\n\n]\n` -/
theorem json_empty_input (sh : UInt8) (recs : Nat → List Rec) (hempty : ∀ k, recs k = [])
    (n : Nat) (ks : List Nat) (hp : ks.Perm (List.range n)) :
    writeFile { kind := Kind.json, shift := sh } (ks.map fun k => (k, recs k)) = some [91, 10, 10, 93, 10] := by
  rw [json_file_is_array_of_record_texts sh recs n ks hp]
  have : ((List.range n).map recs).flatten = [] := by
    simp [hempty]
  rw [this]; rfl

/-- **JSON string literals.** For every byte string (identifier, sequence, attribute key or value) the text
between the quotes written by the encoder is a JSON string body — no raw control character, quote or backslash,
only the escapes of RFC 8259 — that denotes exactly this byte string. -/
theorem json_string_wellformed (s : B) : StrBody (s.flatMap escByte) s := escaped_denotes s

/-- non-vacuity of the hypotheses of the CSV round trip: a header and a row whose first field holds a quote, a comma
and CR LF (read back with the pair collapsed, as `encoding/csv` does) -/
example : CsvRead.parse (([[[105, 100], [115]], [[97, 34, 44, 13, 10], [32]]] : List (List B)).map csvRow).flatten
    = some [[[105, 100], [115]], [[97, 34, 44, 10], [32]]] :=
  CsvRT.parse_csvRows [[[105, 100], [115]], [[97, 34, 44, 13, 10], [32]]]
    (by intro r hr; simp only [List.mem_cons, List.not_mem_nil, or_false] at hr; rcases hr with rfl | rfl <;> exact ⟨by decide, by decide⟩)
    (by intro r hr r' hr'; simp only [List.mem_cons, List.not_mem_nil, or_false] at hr hr'; rcases hr with rfl | rfl <;> rcases hr' with rfl | rfl <;> rfl)

end ObiVerif.Props.C04
