import ObiVerif.Model.Writer
import ObiVerif.Lemmas.Reseq
/-!
# C04 — writers emit every batch once, in order, as well-formed output (property theorems)

`v k` is the text of chunk number `k` (the formatter's output); `ks` is the order in which the chunk
numbers reach the writer goroutine.  Every theorem quantifies over **all** `n`, **all** arrival
orders `ks` (any permutation of `0..n-1`) and all texts (so every subset of empty chunks).
-/
namespace ObiVerif.Props.C04
open ObiVerif.Reseq ObiVerif.Writer

/-- join the non-empty texts with `sep` -/
def joinNE (sep : Bytes) : List Bytes → Bytes
  | [] => []
  | t :: ts => if t.isEmpty then joinNE sep ts
               else if (joinNE sep ts).isEmpty then t else t ++ sep ++ joinNE sep ts

theorem foldl_emitRaw (l : List Bytes) (acc : Bytes) : l.foldl emitRaw acc = acc ++ l.flatten := by
  induction l generalizing acc with
  | nil => simp
  | cons a t ih => simp [ih, emitRaw]

/-- FASTA / FASTQ / CSV: whatever the arrival order, the output is chunk 0, chunk 1, …, chunk n-1. -/
theorem raw_writer_perm (v : Nat → Bytes) (n : Nat) (ks : List Nat) (hp : ks.Perm (List.range n)) :
    writeRaw (ks.map fun k => (k, v k)) = ((List.range n).map v).flatten := by
  unfold writeRaw
  rw [(run_perm emitRaw [] v n ks hp).1, foldl_emitRaw]; simp

/-- nothing stays in the buffer and the counter ends at `n`: every chunk was written exactly once -/
theorem raw_writer_complete (v : Nat → Bytes) (n : Nat) (ks : List Nat) (hp : ks.Perm (List.range n)) :
    (run emitRaw emitRaw [] (ks.map fun k => (k, v k))).next = n ∧
    (run emitRaw emitRaw [] (ks.map fun k => (k, v k))).pending = [] :=
  (run_perm emitRaw [] v n ks hp).2

/-- CSV: the formatter puts the header in front of chunk 0 only; the document is the header followed
by the rows of every chunk in order (for a stream of at least one chunk). -/
theorem csv_writer_perm (header : Bytes) (rows : Nat → Bytes) (n : Nat) (hn : 0 < n) (ks : List Nat)
    (hp : ks.Perm (List.range n)) :
    writeRaw (ks.map fun k => (k, if k = 0 then header ++ rows k else rows k))
      = header ++ ((List.range n).map rows).flatten := by
  rw [raw_writer_perm (fun k => if k = 0 then header ++ rows k else rows k) n ks hp]
  obtain ⟨m, rfl⟩ : ∃ m, n = m + 1 := ⟨n - 1, by omega⟩
  rw [List.range_succ_eq_map]
  simp only [List.map_cons, List.map_map, List.flatten_cons, if_pos, List.append_assoc]
  congr 2

theorem foldl_emitJson (l : List Bytes) (s : JS) :
    (l.foldl emitJson s).out =
      s.out ++ (if s.some then (if (joinNE sepJson l).isEmpty then [] else sepJson ++ joinNE sepJson l)
                else joinNE sepJson l) ∧
    (l.foldl emitJson s).some = (s.some || !(joinNE sepJson l).isEmpty) := by
  induction l generalizing s with
  | nil => cases s with | mk o b => cases b <;> simp [joinNE]
  | cons t ts ih =>
    simp only [List.foldl_cons]
    obtain ⟨h1, h2⟩ := ih (emitJson s t)
    rw [h1, h2]
    cases s with | mk o b =>
    by_cases ht : t.isEmpty
    · simp [emitJson, ht, joinNE]
    · have ht' : t ≠ [] := by simpa using ht
      cases b
      · by_cases hj : (joinNE sepJson ts).isEmpty <;> simp [emitJson, ht, ht', joinNE, hj]
      · by_cases hj : (joinNE sepJson ts).isEmpty <;> simp [emitJson, ht, ht', joinNE, hj]

/-- JSON: whatever the arrival order and whichever chunks are empty, the output is
`[\n`, the non-empty chunks in order joined by `,\n`, `\n]\n`. -/
theorem json_writer_perm (v : Nat → Bytes) (n : Nat) (ks : List Nat) (hp : ks.Perm (List.range n)) :
    writeJson (ks.map fun k => (k, v k))
      = openJson ++ joinNE sepJson ((List.range n).map v) ++ closeJson := by
  unfold writeJson
  rw [(run_perm emitJson ⟨openJson, false⟩ v n ks hp).1, (foldl_emitJson _ _).1]
  simp

/-- joining the elements of a list of byte strings (the records of a chunk, as `FormatJSONBatch` does) -/
def joinAll (sep : Bytes) : List Bytes → Bytes
  | [] => []
  | [t] => t
  | t :: ts => t ++ sep ++ joinAll sep ts

theorem joinAll_isEmpty (sep : Bytes) (l : List Bytes) (h : ∀ t ∈ l, t ≠ []) :
    (joinAll sep l).isEmpty = l.isEmpty := by
  match l with
  | [] => simp [joinAll]
  | [t] => have := h t (by simp); cases t <;> simp_all [joinAll]
  | t :: u :: ts => have := h t (by simp); cases t <;> simp_all [joinAll]

theorem joinAll_append (sep : Bytes) (a b : List Bytes) (ha : a ≠ []) (hb : b ≠ []) :
    joinAll sep (a ++ b) = joinAll sep a ++ sep ++ joinAll sep b := by
  induction a with
  | nil => exact absurd rfl ha
  | cons t ts ih =>
    cases ts with
    | nil =>
      cases b with
      | nil => exact absurd rfl hb
      | cons u us => simp [joinAll]
    | cons u us =>
      have := ih (by simp)
      simp only [List.cons_append] at this ⊢
      simp [joinAll, this]

theorem joinNE_chunks (sep : Bytes) (chunks : List (List Bytes)) (h : ∀ c ∈ chunks, ∀ t ∈ c, t ≠ []) :
    joinNE sep (chunks.map (joinAll sep)) = joinAll sep chunks.flatten := by
  induction chunks with
  | nil => simp [joinNE, joinAll]
  | cons c cs ih =>
    have ihc := ih (fun c' hc' => h c' (List.mem_cons_of_mem _ hc'))
    have hc := h c (by simp)
    have hflat : ∀ t ∈ cs.flatten, t ≠ [] := by
      intro t ht
      obtain ⟨c', hc', htc⟩ := List.mem_flatten.mp ht
      exact h c' (List.mem_cons_of_mem _ hc') t htc
    simp only [List.map_cons, joinNE, List.flatten_cons]
    rw [joinAll_isEmpty sep c hc, ihc, joinAll_isEmpty sep _ hflat]
    by_cases h1 : c = []
    · simp [h1]
    · by_cases h2 : cs.flatten = []
      · simp [h1, h2]
      · simp only [List.isEmpty_iff, h1, h2, if_false]
        rw [joinAll_append sep c _ h1 h2]

/-- JSON validity: when every chunk is the `,\n`-join of its (non-empty) record objects — what
`FormatJSONBatch` produces — the file is `[\n obj₀ ,\n obj₁ … \n]\n`: one array whose elements are the
records of all batches in batch order, whatever the arrival order and the empty batches. -/
theorem json_is_array_of_records (objs : Nat → List Bytes) (hne : ∀ k, ∀ t ∈ objs k, t ≠ [])
    (n : Nat) (ks : List Nat) (hp : ks.Perm (List.range n)) :
    writeJson (ks.map fun k => (k, joinAll sepJson (objs k)))
      = openJson ++ joinAll sepJson ((List.range n).map objs).flatten ++ closeJson := by
  rw [json_writer_perm (fun k => joinAll sepJson (objs k)) n ks hp]
  have := joinNE_chunks sepJson ((List.range n).map objs) (by
    intro c hc t ht
    obtain ⟨k, _, rfl⟩ := List.mem_map.mp hc
    exact hne k t ht)
  rw [List.map_map] at this
  rw [← this]; rfl

/-- non-vacuity: the hypotheses are met by the arrival order 1,0,2 (the one that broke the unrepaired
writer) with an empty last chunk -/
example : writeJson ([1, 0, 2].map fun k => (k, if k = 2 then [] else [65 + k.toUInt8]))
    = openJson ++ [65] ++ sepJson ++ [66] ++ closeJson := by
  rw [json_writer_perm _ 3 [1, 0, 2] (by decide)]
  decide

end ObiVerif.Props.C04
