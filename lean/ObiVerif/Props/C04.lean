import ObiVerif.Model.Writer
import ObiVerif.Lemmas.Reseq
import ObiVerif.Lemmas.WriterFile
import ObiVerif.Lemmas.CsvRoundTrip
import ObiVerif.Lemmas.WriterOutcome
import ObiVerif.Lemmas.FastqMany
import ObiVerif.Lemmas.CsvInj
import ObiVerif.Lemmas.WriterJson
/-!
# C04 — writers emit every batch once, in order, as well-formed output (property theorems)

`v k` is the text of chunk number `k` (the formatter's output); `ks` is the order in which the chunk
numbers reach the writer goroutine.  Every theorem quantifies over **all** `n`, **all** arrival
orders `ks` (any permutation of `0..n-1`) and all texts (so every subset of empty chunks).
-/
namespace ObiVerif.Props.C04
open ObiVerif.Reseq ObiVerif.Writer

/-- join the non-empty texts with `sep` -/
def joinNE (sep : Bytes) : List Bytes → Bytes
  | [] => []
  | t :: ts => if t.isEmpty then joinNE sep ts
               else if (joinNE sep ts).isEmpty then t else t ++ sep ++ joinNE sep ts

theorem foldl_emitRaw (l : List Bytes) (acc : Bytes) : l.foldl emitRaw acc = acc ++ l.flatten := by
  induction l generalizing acc with
  | nil => simp
  | cons a t ih => simp [ih, emitRaw]

/-- FASTA / FASTQ / CSV: whatever the arrival order, the output is chunk 0, chunk 1, …, chunk n-1. -/
theorem raw_writer_perm (v : Nat → Bytes) (n : Nat) (ks : List Nat) (hp : ks.Perm (List.range n)) :
    writeRaw (ks.map fun k => (k, v k)) = ((List.range n).map v).flatten := by
  unfold writeRaw
  rw [(run_perm emitRaw [] v n ks hp).1, foldl_emitRaw]; simp

/-- nothing stays in the buffer and the counter ends at `n`: every chunk was written exactly once -/
theorem raw_writer_complete (v : Nat → Bytes) (n : Nat) (ks : List Nat) (hp : ks.Perm (List.range n)) :
    (run emitRaw emitRaw [] (ks.map fun k => (k, v k))).next = n ∧
    (run emitRaw emitRaw [] (ks.map fun k => (k, v k))).pending = [] :=
  (run_perm emitRaw [] v n ks hp).2

/-- CSV: the formatter puts the header in front of chunk 0 only; the document is the header followed
by the rows of every chunk in order (for a stream of at least one chunk). -/
theorem csv_writer_perm (header : Bytes) (rows : Nat → Bytes) (n : Nat) (hn : 0 < n) (ks : List Nat)
    (hp : ks.Perm (List.range n)) :
    writeRaw (ks.map fun k => (k, if k = 0 then header ++ rows k else rows k))
      = header ++ ((List.range n).map rows).flatten := by
  rw [raw_writer_perm (fun k => if k = 0 then header ++ rows k else rows k) n ks hp]
  obtain ⟨m, rfl⟩ : ∃ m, n = m + 1 := ⟨n - 1, by omega⟩
  rw [List.range_succ_eq_map]
  simp only [List.map_cons, List.map_map, List.flatten_cons, if_pos, List.append_assoc]
  congr 2

theorem foldl_emitJson (l : List Bytes) (s : JS) :
    (l.foldl emitJson s).out =
      s.out ++ (if s.some then (if (joinNE sepJson l).isEmpty then [] else sepJson ++ joinNE sepJson l)
                else joinNE sepJson l) ∧
    (l.foldl emitJson s).some = (s.some || !(joinNE sepJson l).isEmpty) := by
  induction l generalizing s with
  | nil => cases s with | mk o b => cases b <;> simp [joinNE]
  | cons t ts ih =>
    simp only [List.foldl_cons]
    obtain ⟨h1, h2⟩ := ih (emitJson s t)
    rw [h1, h2]
    cases s with | mk o b =>
    by_cases ht : t.isEmpty
    · simp [emitJson, ht, joinNE]
    · have ht' : t ≠ [] := by simpa using ht
      cases b
      · by_cases hj : (joinNE sepJson ts).isEmpty <;> simp [emitJson, ht, ht', joinNE, hj]
      · by_cases hj : (joinNE sepJson ts).isEmpty <;> simp [emitJson, ht, ht', joinNE, hj]

/-- JSON: whatever the arrival order and whichever chunks are empty, the output is
`[\n`, the non-empty chunks in order joined by `,\n`, `\n]\n`. -/
theorem json_writer_perm (v : Nat → Bytes) (n : Nat) (ks : List Nat) (hp : ks.Perm (List.range n)) :
    writeJson (ks.map fun k => (k, v k))
      = openJson ++ joinNE sepJson ((List.range n).map v) ++ closeJson := by
  unfold writeJson
  rw [(run_perm emitJson ⟨openJson, false⟩ v n ks hp).1, (foldl_emitJson _ _).1]
  simp

/-- joining the elements of a list of byte strings (the records of a chunk, as `FormatJSONBatch` does) -/
def joinAll (sep : Bytes) : List Bytes → Bytes
  | [] => []
  | [t] => t
  | t :: ts => t ++ sep ++ joinAll sep ts

theorem joinAll_isEmpty (sep : Bytes) (l : List Bytes) (h : ∀ t ∈ l, t ≠ []) :
    (joinAll sep l).isEmpty = l.isEmpty := by
  match l with
  | [] => simp [joinAll]
  | [t] => have := h t (by simp); cases t <;> simp_all [joinAll]
  | t :: u :: ts => have := h t (by simp); cases t <;> simp_all [joinAll]

theorem joinAll_append (sep : Bytes) (a b : List Bytes) (ha : a ≠ []) (hb : b ≠ []) :
    joinAll sep (a ++ b) = joinAll sep a ++ sep ++ joinAll sep b := by
  induction a with
  | nil => exact absurd rfl ha
  | cons t ts ih =>
    cases ts with
    | nil =>
      cases b with
      | nil => exact absurd rfl hb
      | cons u us => simp [joinAll]
    | cons u us =>
      have := ih (by simp)
      simp only [List.cons_append] at this ⊢
      simp [joinAll, this]

theorem joinNE_chunks (sep : Bytes) (chunks : List (List Bytes)) (h : ∀ c ∈ chunks, ∀ t ∈ c, t ≠ []) :
    joinNE sep (chunks.map (joinAll sep)) = joinAll sep chunks.flatten := by
  induction chunks with
  | nil => simp [joinNE, joinAll]
  | cons c cs ih =>
    have ihc := ih (fun c' hc' => h c' (List.mem_cons_of_mem _ hc'))
    have hc := h c (by simp)
    have hflat : ∀ t ∈ cs.flatten, t ≠ [] := by
      intro t ht
      obtain ⟨c', hc', htc⟩ := List.mem_flatten.mp ht
      exact h c' (List.mem_cons_of_mem _ hc') t htc
    simp only [List.map_cons, joinNE, List.flatten_cons]
    rw [joinAll_isEmpty sep c hc, ihc, joinAll_isEmpty sep _ hflat]
    by_cases h1 : c = []
    · simp [h1]
    · by_cases h2 : cs.flatten = []
      · simp [h1, h2]
      · simp only [List.isEmpty_iff, h1, h2, if_false]
        rw [joinAll_append sep c _ h1 h2]

/-- JSON validity: when every chunk is the `,\n`-join of its (non-empty) record objects — what
`FormatJSONBatch` produces — the file is `[\n obj₀ ,\n obj₁ … \n]\n`: one array whose elements are the
records of all batches in batch order, whatever the arrival order and the empty batches. -/
theorem json_is_array_of_records (objs : Nat → List Bytes) (hne : ∀ k, ∀ t ∈ objs k, t ≠ [])
    (n : Nat) (ks : List Nat) (hp : ks.Perm (List.range n)) :
    writeJson (ks.map fun k => (k, joinAll sepJson (objs k)))
      = openJson ++ joinAll sepJson ((List.range n).map objs).flatten ++ closeJson := by
  rw [json_writer_perm (fun k => joinAll sepJson (objs k)) n ks hp]
  have := joinNE_chunks sepJson ((List.range n).map objs) (by
    intro c hc t ht
    obtain ⟨k, _, rfl⟩ := List.mem_map.mp hc
    exact hne k t ht)
  rw [List.map_map] at this
  rw [← this]; rfl

/-- non-vacuity: the hypotheses are met by the arrival order 1,0,2 (the one that broke the unrepaired
writer) with an empty last chunk -/
example : writeJson ([1, 0, 2].map fun k => (k, if k = 2 then [] else [65 + k.toUInt8]))
    = openJson ++ [65] ++ sepJson ++ [66] ++ closeJson := by
  rw [json_writer_perm _ 3 [1, 0, 2] (by decide)]
  decide

/-! ## the formatters inside the model: well-formedness of the whole file

From here on the chunk texts are no longer data: they are produced by the model of the per-batch formatters
(`ObiVerif.WriterFmt`, compared byte for byte with `FormatFastaBatch` / `FormatFastqBatch` / `FormatJSONBatch` /
`FormatCVSBatch` by the harness).  `recs k` is the list of records of batch number `k`; every statement holds
for every `n`, every arrival order `ks` of the batch numbers and any set of empty batches (`recs k = []`). -/

open ObiVerif.WriterFmt ObiVerif.WriterFile

/-- **FASTA file.** Whatever the arrival order and the empty batches, the file written for batches of
well-formed records is read back by the chunk parser of `/repo` (the 7-state machine, model of C02) followed by
`ParseFastSeqJsonHeader` as exactly the records of all batches in batch order (FASTA carries no qualities). -/
theorem fasta_file_reads_back {α : Type} [DecidableEq α] (J : Header.JsonLib α) (se : Bool)
    (recs : Nat → List (Header.Record α))
    (hJ : ∀ k, ∀ x ∈ recs k, J.OKat (x.ann, x.defn)) (hWF : ∀ k, ∀ x ∈ recs k, Header.WF x)
    (n : Nat) (ks : List Nat) (hp : ks.Perm (List.range n)) (hne : ((List.range n).map recs).flatten ≠ []) :
    ∃ out, writeFile { kind := Kind.fasta, skipEmpty := se } (ks.map fun k => (k, (recs k).map (recOf J))) = some out ∧
      Header.readFasta J out
        = some ((((List.range n).map recs).flatten).map (fun x => { x with qual := none })) := by
  refine ⟨_, writeFile_raw _ (by intro h; cases h) (fun k => (recs k).map (recOf J))
    (fun k => ((recs k).map (Header.writeFasta J)).flatten) ?_ n ks hp, ?_⟩
  · intro k
    simpa [fmtBatch] using fmtFastaBatch_eq J se (recs k) (fun x hx => (hWF k x hx).seq_ne)
  · have e : ((List.range n).map fun k => ((recs k).map (Header.writeFasta J)).flatten).flatten
        = ((((List.range n).map recs).flatten).map (Header.writeFasta J)).flatten := by
      rw [← flatten_map_flatten, List.map_map]; rfl
    rw [e]
    have hmem : ∀ x ∈ ((List.range n).map recs).flatten, J.OKat (x.ann, x.defn) ∧ Header.WF x := by
      intro x hx
      obtain ⟨l, hl, hxl⟩ := List.mem_flatten.mp hx
      obtain ⟨k, _, rfl⟩ := List.mem_map.mp hl
      exact ⟨hJ k x hxl, hWF k x hxl⟩
    cases hall : ((List.range n).map recs).flatten with
    | nil => exact absurd hall hne
    | cons r rs =>
      rw [hall] at hmem
      exact Header.write_read_fasta_many_aux J r rs (fun x hx => (hmem x hx).1) (fun x hx => (hmem x hx).2)

/-- **FASTQ file.** Whatever the arrival order, the file is the four-line records (`_formatFastq`, model of C02)
of all batches in batch order, nothing before, between or after them.  (Each such record is read back by the
12-state chunk parser: `Props.C02.write_read_fastq`; the statement that the parser reads a *sequence* of them back
is not proved here — it is tied by the correspondence check of C02 and the decode-back oracle of the harness.) -/
theorem fastq_file_is_records_in_order {α : Type} [DecidableEq α] (J : Header.JsonLib α) (sh : UInt8) (se : Bool)
    (recs : Nat → List (Header.Record α)) (hseq : ∀ k, ∀ x ∈ recs k, x.seq ≠ [])
    (n : Nat) (ks : List Nat) (hp : ks.Perm (List.range n)) :
    writeFile { kind := Kind.fastq, shift := sh, skipEmpty := se } (ks.map fun k => (k, (recs k).map (recOf J)))
      = some ((((List.range n).map recs).flatten).map (Header.writeFastq J sh)).flatten := by
  rw [writeFile_raw _ (by intro h; cases h) (fun k => (recs k).map (recOf J))
    (fun k => ((recs k).map (Header.writeFastq J sh)).flatten)
    (fun k => by simpa [fmtBatch] using fmtFastqBatch_eq J sh se (recs k) (hseq k)) n ks hp]
  rw [← flatten_map_flatten, List.map_map]; rfl

/-- **CSV file.** For a stream of at least one batch, whatever the arrival order and whichever batches are empty
(also batch 0, also all of them), the file is the header line — exactly once, first — followed by one row per record
in batch order; and `encoding/csv`'s reader (model `CsvRead.parse`, compared with the real `csv.Reader` on every
output) reads it back as the header and the rows with every field unchanged up to the reader's own `\r\n` → `\n`,
for ARBITRARY field bytes (quotes, commas, CR, LF, leading blanks).  `hvis`: no row is the single empty field (such a
row is an empty line for every CSV reader). -/
theorem csv_file_reads_back (sh : UInt8) (o : CsvOpt) (recs : Nat → List Rec) (rows : Nat → List (List B))
    (hrows : ∀ k, (recs k).mapM (csvRecord sh o) = some (rows k))
    (hhdr : CsvRT.RowOK (csvHeader o)) (hvis : ∀ k, ∀ row ∈ rows k, row ≠ [[]])
    (n : Nat) (hn : 0 < n) (ks : List Nat) (hp : ks.Perm (List.range n)) :
    ∃ out, writeFile { kind := Kind.csv, shift := sh, csv := o } (ks.map fun k => (k, recs k)) = some out ∧
      out = csvRow (csvHeader o) ++ ((((List.range n).map rows).flatten).map csvRow).flatten ∧
      CsvRead.parse out
        = some ((csvHeader o :: ((List.range n).map rows).flatten).map (fun r => r.map CsvRT.collapse)) := by
  obtain ⟨m, rfl⟩ : ∃ m, n = m + 1 := ⟨n - 1, by omega⟩
  let txt : Nat → B := fun k => (if k = 0 then csvRow (csvHeader o) else []) ++ ((rows k).map csvRow).flatten
  have hfile := writeFile_raw { kind := Kind.csv, shift := sh, csv := o } (by intro h; cases h) recs txt
    (fun k => by simpa [fmtBatch] using fmtCsvBatch_rows sh o k (recs k) (rows k) (hrows k)) (m + 1) ks hp
  have hout : ((List.range (m + 1)).map txt).flatten
      = csvRow (csvHeader o) ++ ((((List.range (m + 1)).map rows).flatten).map csvRow).flatten := by
    have e2 : ((((List.range (m + 1)).map rows).flatten).map csvRow).flatten
        = ((List.range (m + 1)).map fun k => ((rows k).map csvRow).flatten).flatten := by
      rw [← flatten_map_flatten, List.map_map]; rfl
    rw [e2, List.range_succ_eq_map]
    simp [txt, List.map_map, Function.comp_def]
  refine ⟨_, hfile, hout, ?_⟩
  rw [hout]
  have hlenAll : ∀ r ∈ ((List.range (m + 1)).map rows).flatten, r.length = (csvHeader o).length := by
    intro r hr
    obtain ⟨l, hl, hrl⟩ := List.mem_flatten.mp hr
    obtain ⟨k, _, rfl⟩ := List.mem_map.mp hl
    exact mapM_csvRecord_length sh o (recs k) (rows k) (hrows k) r hrl
  have hvisAll : ∀ r ∈ ((List.range (m + 1)).map rows).flatten, r ≠ [[]] := by
    intro r hr
    obtain ⟨l, hl, hrl⟩ := List.mem_flatten.mp hr
    obtain ⟨k, _, rfl⟩ := List.mem_map.mp hl
    exact hvis k r hrl
  have := CsvRT.parse_csvRows (csvHeader o :: ((List.range (m + 1)).map rows).flatten)
    (by
      intro r hr
      rcases List.mem_cons.mp hr with rfl | hr
      · exact hhdr
      · refine ⟨?_, hvisAll r hr⟩
        intro e
        have := hlenAll r hr
        rw [e] at this
        exact hhdr.1 (List.length_eq_zero_iff.mp this.symm))
    (by
      intro r hr r' hr'
      have h1 : r.length = (csvHeader o).length := by
        rcases List.mem_cons.mp hr with rfl | hr
        · rfl
        · exact hlenAll r hr
      have h2 : r'.length = (csvHeader o).length := by
        rcases List.mem_cons.mp hr' with rfl | hr'
        · rfl
        · exact hlenAll r' hr'
      omega)
  simpa using this

/-- the element of the JSON array written for one record: `"  "` + `JSONRecord` -/
def jsonElem (sh : UInt8) (r : Rec) : Bytes := [32, 32] ++ jsonRecord sh r

theorem jsonBatch_join (sh : UInt8) (r : Rec) (rs : List Rec) :
    [32, 32] ++ jsonRecord sh r ++ jsonTail sh rs = joinAll sepJson ((r :: rs).map (jsonElem sh)) := by
  induction rs generalizing r with
  | nil => simp [jsonTail, joinAll, jsonElem]
  | cons r' rs ih =>
    have := ih r'
    simp only [List.map_cons, joinAll, jsonTail, jsonElem, sepJson] at this ⊢
    rw [← this]
    simp

theorem fmtJsonBatch_join (sh : UInt8) (rs : List Rec) :
    fmtJsonBatch sh rs = joinAll sepJson (rs.map (jsonElem sh)) := by
  cases rs with
  | nil => rfl
  | cons r rs => exact jsonBatch_join sh r rs

/-- **JSON file.** Whatever the arrival order and the empty batches, the file is `[\n`, the texts of the records of
all batches in batch order (`"  "` + `JSONRecord`) separated by `,\n`, `\n]\n`: one array with one element per
record, in order — now for the texts the formatter model produces, not for assumed chunk shapes. -/
theorem json_file_is_array_of_record_texts (sh : UInt8) (recs : Nat → List Rec)
    (n : Nat) (ks : List Nat) (hp : ks.Perm (List.range n)) :
    writeFile { kind := Kind.json, shift := sh } (ks.map fun k => (k, recs k))
      = some (openJson ++ joinAll sepJson ((((List.range n).map recs).flatten).map (jsonElem sh)) ++ closeJson) := by
  rw [writeFile_json _ rfl recs n ks]
  have e : (fun k => (k, fmtJsonBatch sh (recs k))) = (fun k => (k, joinAll sepJson ((fun k => (recs k).map (jsonElem sh)) k))) := by
    funext k; rw [fmtJsonBatch_join]
  show some (writeJson (ks.map fun k => (k, fmtJsonBatch sh (recs k)))) = _
  rw [e, json_is_array_of_records (fun k => (recs k).map (jsonElem sh)) ?_ n ks hp]
  · congr 3
    rw [List.map_flatten, List.map_map]; rfl
  · intro k t ht
    obtain ⟨r, _, rfl⟩ := List.mem_map.mp ht
    simp [jsonElem]

/-- **Empty input.** No batch at all, or only empty batches in any order: the JSON file is the empty array
`[\n\n]\n` -/
theorem json_empty_input (sh : UInt8) (recs : Nat → List Rec) (hempty : ∀ k, recs k = [])
    (n : Nat) (ks : List Nat) (hp : ks.Perm (List.range n)) :
    writeFile { kind := Kind.json, shift := sh } (ks.map fun k => (k, recs k)) = some [91, 10, 10, 93, 10] := by
  rw [json_file_is_array_of_record_texts sh recs n ks hp]
  have : ((List.range n).map recs).flatten = [] := by
    simp [hempty]
  rw [this]; rfl

/-- **JSON string literals.** For every byte string (identifier, sequence, attribute key or value) the text
between the quotes written by the encoder is a JSON string body — no raw control character, quote or backslash,
only the escapes of RFC 8259 — that denotes exactly this byte string. -/
theorem json_string_wellformed (s : B) : StrBody (s.flatMap escByte) s := escaped_denotes s

/-- non-vacuity of the hypotheses of the CSV round trip: a header and a row whose first field holds a quote, a comma
and CR LF (read back with the pair collapsed, as `encoding/csv` does) -/
example : CsvRead.parse (([[[105, 100], [115]], [[97, 34, 44, 13, 10], [32]]] : List (List B)).map csvRow).flatten
    = some [[[105, 100], [115]], [[97, 34, 44, 10], [32]]] :=
  CsvRT.parse_csvRows [[[105, 100], [115]], [[97, 34, 44, 13, 10], [32]]]
    (by intro r hr; simp only [List.mem_cons, List.not_mem_nil, or_false] at hr; rcases hr with rfl | rfl <;> exact ⟨by decide, by decide⟩)
    (by intro r hr r' hr'; simp only [List.mem_cons, List.not_mem_nil, or_false] at hr hr'; rcases hr with rfl | rfl <;> rcases hr' with rfl | rfl <;> rfl)


/-! ## second deepening: FASTQ parse-back, both outcomes on empty sequences, order-free files, paired files,
injectivity of the CSV text -/

open ObiVerif.WriterOutcome

theorem all_flatten_mem {β : Type} {P : β → Prop} (f : Nat → List β) (n : Nat) (h : ∀ k, ∀ x ∈ f k, P x) :
    ∀ x ∈ ((List.range n).map f).flatten, P x := by
  intro x hx
  obtain ⟨l, hl, hxl⟩ := List.mem_flatten.mp hx
  obtain ⟨k, _, rfl⟩ := List.mem_map.mp hl
  exact h k x hxl

/-- **FASTQ file, parse-back.** Whatever the arrival order and the empty batches, the file written for batches of
well-formed records is read back by the 12-state chunk parser of `/repo` (model of C02, `FastqChunkParser(shift, true)`)
followed by `ParseFastSeqJsonHeader` as exactly the records of all batches in batch order, the qualities being those
the writer prints (40 everywhere when the record has none) clamped at 93.  `hq`: the qualities, when present, are as
long as the sequence (what `BioSequence` guarantees for a record read from a FASTQ file); `hsh`: no printed quality byte
is an end of line (`Header.ShiftOK`, true of the offsets 33 and 64 — `Header.shiftOK_33_64` — and of every offset 14..172). -/
theorem fastq_file_reads_back {α : Type} [DecidableEq α] (J : Header.JsonLib α) (sh : UInt8) (hsh : Header.ShiftOK sh)
    (se : Bool) (recs : Nat → List (Header.Record α))
    (hJ : ∀ k, ∀ x ∈ recs k, J.OKat (x.ann, x.defn)) (hWF : ∀ k, ∀ x ∈ recs k, Header.WF x)
    (hq : ∀ k, ∀ x ∈ recs k, (Header.qualities x.seq x.qual).length = x.seq.length)
    (n : Nat) (ks : List Nat) (hp : ks.Perm (List.range n)) :
    ∃ out, writeFile { kind := Kind.fastq, shift := sh, skipEmpty := se } (ks.map fun k => (k, (recs k).map (recOf J)))
        = some out ∧
      Header.readFastq J sh out
        = some ((((List.range n).map recs).flatten).map
            (fun x => { x with qual := some ((Header.qualities x.seq x.qual).map (fun q => min q 93)) })) :=
  ⟨_, fastq_file_is_records_in_order J sh se recs (fun k x hx => (hWF k x hx).seq_ne) n ks hp,
    Header.write_read_fastq_many_aux J sh hsh _ (all_flatten_mem recs n hJ) (all_flatten_mem recs n hWF)
      (all_flatten_mem recs n hq)⟩

/-- **Both outcomes of a FASTA / FASTQ file on empty sequences** (`FormatFastaBatch` / `FormatFastqBatch`,
`skipEmpty` = option `OptionsSkipEmptySequence`), for every `n`, every arrival order, ARBITRARY records:
* `skipEmpty` on, or no sequence of length zero: the file is the texts of the records whose sequence is not empty, in
  batch order (`keep` filters; `recText` is `FormatFasta`+`\n` or `_formatFastq`);
* otherwise the formatter that meets the empty sequence calls `log.Fatalf`: outcome `none`, nothing is promised of
  the file. -/
theorem seq_file_outcomes (c : Cfg) (hk : c.kind = Kind.fasta ∨ c.kind = Kind.fastq) (recs : Nat → List Rec)
    (n : Nat) (ks : List Nat) (hp : ks.Perm (List.range n)) :
    writeFile c (ks.map fun k => (k, recs k)) =
      if c.skipEmpty || (List.range n).all (fun k => noEmpty (recs k))
      then some ((keep ((List.range n).map recs).flatten).map (recText c)).flatten
      else none :=
  seqfile_outcome c hk recs n ks hp

/-- **Fatal exactly on an empty sequence**: without `skipEmpty` the writer dies iff some record of some batch has a
sequence of length zero (whatever the arrival order). -/
theorem seq_file_fatal_iff (c : Cfg) (hk : c.kind = Kind.fasta ∨ c.kind = Kind.fastq) (hse : c.skipEmpty = false)
    (recs : Nat → List Rec) (n : Nat) (ks : List Nat) (hp : ks.Perm (List.range n)) :
    writeFile c (ks.map fun k => (k, recs k)) = none ↔ ∃ k, k < n ∧ ∃ r ∈ recs k, r.seq = [] := by
  rw [seqfile_outcome c hk recs n ks hp, hse]
  simp only [Bool.false_or]
  constructor
  · intro h
    by_cases hall : (List.range n).all (fun k => noEmpty (recs k)) = true
    · rw [if_pos hall] at h; cases h
    · obtain ⟨k, hkn, hb⟩ := all_range_false (by simpa using hall)
      refine ⟨k, hkn, ?_⟩
      simp only [noEmpty, List.all_eq_false] at hb
      obtain ⟨r, hr, hr'⟩ := hb
      exact ⟨r, hr, by simpa using hr'⟩
  · rintro ⟨k, hkn, r, hr, hre⟩
    have : (List.range n).all (fun k => noEmpty (recs k)) = false := by
      apply List.all_eq_false.mpr
      refine ⟨k, List.mem_range.mpr hkn, ?_⟩
      simp only [noEmpty, Bool.not_eq_true]
      exact List.all_eq_false.mpr ⟨r, hr, by simp [hre]⟩
    rw [this]; rfl

/-- **Skipped records never reach the file**: with `skipEmpty` the file of a stream is the file of the same stream
without its empty-sequence records (never fatal). -/
theorem seq_file_skip_empty (c : Cfg) (hk : c.kind = Kind.fasta ∨ c.kind = Kind.fastq) (hse : c.skipEmpty = true)
    (recs : Nat → List Rec) (n : Nat) (ks : List Nat) (hp : ks.Perm (List.range n)) :
    writeFile c (ks.map fun k => (k, recs k)) = writeFile c (ks.map fun k => (k, keep (recs k))) ∧
    writeFile c (ks.map fun k => (k, recs k))
      = some ((keep ((List.range n).map recs).flatten).map (recText c)).flatten := by
  have h1 := seqfile_outcome c hk recs n ks hp
  have h2 := seqfile_outcome c hk (fun k => keep (recs k)) n ks hp
  rw [hse] at h1 h2
  simp only [Bool.true_or, if_true] at h1 h2
  refine ⟨?_, h1⟩
  rw [h1, h2]
  congr 3
  rw [keep_flatten, keep_flatten, List.map_map, List.map_map]
  congr 1
  apply List.map_congr_left
  intro k _
  simp [keep]

theorem keep_map_recOf {α : Type} [DecidableEq α] (J : Header.JsonLib α) (l : List (Header.Record α)) :
    keep (l.map (recOf J)) = (l.filter (fun x => decide (x.seq ≠ []))).map (recOf J) := by
  unfold keep
  rw [List.filter_map]
  rfl

/-- **FASTA file with skipped records, parse-back**: with `skipEmpty`, for records that are well formed whenever their
sequence is not empty, the file reads back as exactly the records with a non-empty sequence, in batch order. -/
theorem fasta_file_reads_back_skipping {α : Type} [DecidableEq α] (J : Header.JsonLib α)
    (recs : Nat → List (Header.Record α))
    (hJ : ∀ k, ∀ x ∈ recs k, J.OKat (x.ann, x.defn))
    (hWF : ∀ k, ∀ x ∈ recs k, x.seq ≠ [] → Header.WF x)
    (n : Nat) (ks : List Nat) (hp : ks.Perm (List.range n))
    (hne : (((List.range n).map recs).flatten).filter (fun x => decide (x.seq ≠ [])) ≠ []) :
    ∃ out, writeFile { kind := Kind.fasta, skipEmpty := true } (ks.map fun k => (k, (recs k).map (recOf J))) = some out ∧
      Header.readFasta J out
        = some (((((List.range n).map recs).flatten).filter (fun x => decide (x.seq ≠ []))).map
            (fun x => { x with qual := none })) := by
  have h := (seq_file_skip_empty { kind := Kind.fasta, skipEmpty := true } (Or.inl rfl) rfl
    (fun k => (recs k).map (recOf J)) n ks hp).2
  refine ⟨_, h, ?_⟩
  have e : ((List.range n).map fun k => (recs k).map (recOf J)).flatten
      = (((List.range n).map recs).flatten).map (recOf J) := by
    rw [List.map_flatten, List.map_map]; rfl
  rw [e, keep_map_recOf, List.map_map]
  have e2 : (recText { kind := Kind.fasta, skipEmpty := true } ∘ recOf J) = Header.writeFasta J := by
    funext x; simp [recText, fastaText, recOf, Header.writeFasta]
  rw [e2]
  have hmem : ∀ x ∈ (((List.range n).map recs).flatten).filter (fun x => decide (x.seq ≠ [])),
      J.OKat (x.ann, x.defn) ∧ Header.WF x := by
    intro x hx
    obtain ⟨hx1, hx2⟩ := List.mem_filter.mp hx
    exact ⟨all_flatten_mem recs n hJ x hx1,
      all_flatten_mem (P := fun x => x.seq ≠ [] → Header.WF x) recs n hWF x hx1 (by simpa using hx2)⟩
  cases hall : (((List.range n).map recs).flatten).filter (fun x => decide (x.seq ≠ [])) with
  | nil => exact absurd hall hne
  | cons r rs =>
    rw [hall] at hmem
    exact Header.write_read_fasta_many_aux J r rs (fun x hx => (hmem x hx).1) (fun x hx => (hmem x hx).2)

/-- non-vacuity and a test of both outcomes on a concrete stream (arrival order 1, 0; the second record of batch 0
has an empty sequence): skipped with `skipEmpty`, fatal without -/
example :
    let recs : Nat → List Rec := fun k =>
      if k = 0 then [⟨[65, 48], [97], none, [], []⟩, ⟨[65, 49], [], none, [], []⟩]
      else [⟨[66, 48], [97], none, [], []⟩, ⟨[66, 49], [97], none, [], []⟩]
    writeFile { kind := Kind.fasta, skipEmpty := true } ([1, 0].map fun k => (k, recs k))
        = some [62, 65, 48, 32, 10, 97, 10, 62, 66, 48, 32, 10, 97, 10, 62, 66, 49, 32, 10, 97, 10] ∧
    writeFile { kind := Kind.fasta, skipEmpty := false } ([1, 0].map fun k => (k, recs k)) = none := by
  intro recs
  constructor
  · rw [seqfile_outcome _ (Or.inl rfl) recs 2 [1, 0] (by decide)]; decide
  · rw [seqfile_outcome _ (Or.inl rfl) recs 2 [1, 0] (by decide)]; decide

/-- **The file does not depend on the arrival order** — most general form: for every writer, every option set,
arbitrary records (also those on which a formatter dies or that are outside the model), the outcome for an arrival
order `ks` is the outcome for the batches arriving in order `0, 1, …, n-1`. -/
theorem file_order_free (c : Cfg) (recs : Nat → List Rec) (n : Nat) (ks : List Nat) (hp : ks.Perm (List.range n)) :
    writeFile c (ks.map fun k => (k, recs k)) = writeFile c ((List.range n).map fun k => (k, recs k)) := by
  by_cases hall : ∀ k, k < n → (fmtBatch c k (recs k)).isSome = true
  · -- a total text function (batches beyond n replaced by a batch that is always formatted: the empty one)
    let recs' : Nat → List Rec := fun k => if k < n then recs k else []
    have harr : ∀ l : List Nat, (∀ k ∈ l, k < n) → (l.map fun k => (k, recs k)) = (l.map fun k => (k, recs' k)) := by
      intro l hl
      apply List.map_congr_left
      intro k hk
      simp [recs', hl k hk]
    have hsome : ∀ k, (fmtBatch c k (recs' k)).isSome = true := by
      intro k
      by_cases hkn : k < n
      · simpa [recs', hkn] using hall k hkn
      · simp only [recs', hkn, if_false]
        cases hc : c.kind <;> simp [fmtBatch, hc, fmtFastaBatch, fmtFastqBatch, fmtCsvBatch]
    have htxt : ∀ k, fmtBatch c k (recs' k) = some ((fmtBatch c k (recs' k)).getD []) := by
      intro k
      have := hsome k
      cases h : fmtBatch c k (recs' k) with
      | none => rw [h] at this; cases this
      | some t => rfl
    rw [harr ks (fun k hk => List.mem_range.mp (hp.mem_iff.mp hk)),
      harr (List.range n) (fun k hk => List.mem_range.mp hk)]
    by_cases hj : c.kind = Kind.json
    · rw [writeFile_json c hj recs' n ks, writeFile_json c hj recs' n (List.range n),
        json_writer_perm (fun k => fmtJsonBatch c.shift (recs' k)) n ks hp,
        json_writer_perm (fun k => fmtJsonBatch c.shift (recs' k)) n (List.range n) (List.Perm.refl _)]
    · rw [writeFile_raw c hj recs' _ htxt n ks hp, writeFile_raw c hj recs' _ htxt n (List.range n) (List.Perm.refl _)]
  · have : ∃ k, k < n ∧ fmtBatch c k (recs k) = none := by
      refine Classical.byContradiction fun hne => hall fun k hkn => ?_
      cases h : fmtBatch c k (recs k) with
      | none => exact absurd ⟨k, hkn, h⟩ hne
      | some t => rfl
    obtain ⟨k, hkn, hk⟩ := this
    rw [writeFile_none c _ (k, recs k) (List.mem_map.mpr ⟨k, hp.mem_iff.mpr (List.mem_range.mpr hkn), rfl⟩) hk,
      writeFile_none c _ (k, recs k) (List.mem_map.mpr ⟨k, List.mem_range.mpr hkn, rfl⟩) hk]

/-! ### paired output -/

/-- **Paired files, general form.** `Write…ToFile` on a paired stream writes the records through a first writer and
the mates (`iterator.PairedWith()`, same batch numbers) through a second one with the same options; the two writer
goroutines see the batches in two unrelated orders `ks1`, `ks2`.  Whatever these orders, the pair of files is the pair
written when both see the batches in order: file 1 is the file of the records, file 2 the file of their mates,
batch by batch at the same positions (so every single-file theorem above applies to both with the same indices). -/
theorem paired_files_order_free (c : Cfg) (pairs : Nat → PBatch) (n : Nat) (ks1 ks2 : List Nat)
    (hp1 : ks1.Perm (List.range n)) (hp2 : ks2.Perm (List.range n)) :
    writePaired c (ks1.map fun k => (k, pairs k)) (ks2.map fun k => (k, pairs k)) =
      (do let f1 ← writeFile c ((List.range n).map fun k => (k, (pairs k).map Prod.fst))
          let f2 ← writeFile c ((List.range n).map fun k => (k, (pairs k).map Prod.snd))
          pure (f1, f2)) := by
  rw [writePaired_eq, file_order_free c (fun k => (pairs k).map Prod.fst) n ks1 hp1,
    file_order_free c (fun k => (pairs k).map Prod.snd) n ks2 hp2]

theorem map_pair_fst {α : Type} [DecidableEq α] (J : Header.JsonLib α) (l : List (Header.Record α × Header.Record α)) :
    (l.map fun p => (recOf J p.1, recOf J p.2)).map Prod.fst = (l.map Prod.fst).map (recOf J) := by
  simp [List.map_map, Function.comp_def]

theorem map_pair_snd {α : Type} [DecidableEq α] (J : Header.JsonLib α) (l : List (Header.Record α × Header.Record α)) :
    (l.map fun p => (recOf J p.1, recOf J p.2)).map Prod.snd = (l.map Prod.snd).map (recOf J) := by
  simp [List.map_map, Function.comp_def]

theorem flatten_map_proj {β γ : Type} (f : β → γ) (g : Nat → List β) (n : Nat) :
    ((List.range n).map fun k => (g k).map f).flatten = (((List.range n).map g).flatten).map f := by
  rw [List.map_flatten, List.map_map]; rfl

/-- **Paired FASTA files stay in step.** For well-formed records and mates, whatever the two arrival orders and the
empty batches, both files are written and read back (chunk parser of `/repo`) as two lists of the same length in
which record `i` of the second file is the mate of record `i` of the first: they are the two projections of the ONE
list of pairs of all batches in batch order. -/
theorem paired_fasta_files_in_step {α : Type} [DecidableEq α] (J : Header.JsonLib α) (se : Bool)
    (pairs : Nat → List (Header.Record α × Header.Record α))
    (hJ : ∀ k, ∀ p ∈ pairs k, J.OKat (p.1.ann, p.1.defn) ∧ J.OKat (p.2.ann, p.2.defn))
    (hWF : ∀ k, ∀ p ∈ pairs k, Header.WF p.1 ∧ Header.WF p.2)
    (n : Nat) (ks1 ks2 : List Nat) (hp1 : ks1.Perm (List.range n)) (hp2 : ks2.Perm (List.range n))
    (hne : ((List.range n).map pairs).flatten ≠ []) :
    ∃ f1 f2, writePaired { kind := Kind.fasta, skipEmpty := se }
        (ks1.map fun k => (k, (pairs k).map fun p => (recOf J p.1, recOf J p.2)))
        (ks2.map fun k => (k, (pairs k).map fun p => (recOf J p.1, recOf J p.2))) = some (f1, f2) ∧
      Header.readFasta J f1 = some ((((List.range n).map pairs).flatten).map (fun p => { p.1 with qual := none })) ∧
      Header.readFasta J f2 = some ((((List.range n).map pairs).flatten).map (fun p => { p.2 with qual := none })) := by
  have hmemJ := all_flatten_mem pairs n hJ
  have hmemW := all_flatten_mem pairs n hWF
  obtain ⟨o1, w1, r1⟩ := fasta_file_reads_back J se (fun k => (pairs k).map Prod.fst)
    (fun k x hx => by obtain ⟨p, hp, rfl⟩ := List.mem_map.mp hx; exact (hJ k p hp).1)
    (fun k x hx => by obtain ⟨p, hp, rfl⟩ := List.mem_map.mp hx; exact (hWF k p hp).1) n ks1 hp1
    (by rw [flatten_map_proj]; simpa using hne)
  obtain ⟨o2, w2, r2⟩ := fasta_file_reads_back J se (fun k => (pairs k).map Prod.snd)
    (fun k x hx => by obtain ⟨p, hp, rfl⟩ := List.mem_map.mp hx; exact (hJ k p hp).2)
    (fun k x hx => by obtain ⟨p, hp, rfl⟩ := List.mem_map.mp hx; exact (hWF k p hp).2) n ks2 hp2
    (by rw [flatten_map_proj]; simpa using hne)
  refine ⟨o1, o2, ?_, ?_, ?_⟩
  · rw [writePaired_eq]
    simp only [map_pair_fst, map_pair_snd]
    rw [w1, w2]; rfl
  · rw [r1, flatten_map_proj, List.map_map]; rfl
  · rw [r2, flatten_map_proj, List.map_map]; rfl

/-- **Paired FASTQ files stay in step** (same statement through the 12-state FASTQ parser; qualities as printed). -/
theorem paired_fastq_files_in_step {α : Type} [DecidableEq α] (J : Header.JsonLib α) (sh : UInt8)
    (hsh : Header.ShiftOK sh) (se : Bool)
    (pairs : Nat → List (Header.Record α × Header.Record α))
    (hJ : ∀ k, ∀ p ∈ pairs k, J.OKat (p.1.ann, p.1.defn) ∧ J.OKat (p.2.ann, p.2.defn))
    (hWF : ∀ k, ∀ p ∈ pairs k, Header.WF p.1 ∧ Header.WF p.2)
    (hq : ∀ k, ∀ p ∈ pairs k, (Header.qualities p.1.seq p.1.qual).length = p.1.seq.length ∧
      (Header.qualities p.2.seq p.2.qual).length = p.2.seq.length)
    (n : Nat) (ks1 ks2 : List Nat) (hp1 : ks1.Perm (List.range n)) (hp2 : ks2.Perm (List.range n)) :
    ∃ f1 f2, writePaired { kind := Kind.fastq, shift := sh, skipEmpty := se }
        (ks1.map fun k => (k, (pairs k).map fun p => (recOf J p.1, recOf J p.2)))
        (ks2.map fun k => (k, (pairs k).map fun p => (recOf J p.1, recOf J p.2))) = some (f1, f2) ∧
      Header.readFastq J sh f1 = some ((((List.range n).map pairs).flatten).map
        (fun p => { p.1 with qual := some ((Header.qualities p.1.seq p.1.qual).map (fun q => min q 93)) })) ∧
      Header.readFastq J sh f2 = some ((((List.range n).map pairs).flatten).map
        (fun p => { p.2 with qual := some ((Header.qualities p.2.seq p.2.qual).map (fun q => min q 93)) })) := by
  obtain ⟨o1, w1, r1⟩ := fastq_file_reads_back J sh hsh se (fun k => (pairs k).map Prod.fst)
    (fun k x hx => by obtain ⟨p, hp, rfl⟩ := List.mem_map.mp hx; exact (hJ k p hp).1)
    (fun k x hx => by obtain ⟨p, hp, rfl⟩ := List.mem_map.mp hx; exact (hWF k p hp).1)
    (fun k x hx => by obtain ⟨p, hp, rfl⟩ := List.mem_map.mp hx; exact (hq k p hp).1) n ks1 hp1
  obtain ⟨o2, w2, r2⟩ := fastq_file_reads_back J sh hsh se (fun k => (pairs k).map Prod.snd)
    (fun k x hx => by obtain ⟨p, hp, rfl⟩ := List.mem_map.mp hx; exact (hJ k p hp).2)
    (fun k x hx => by obtain ⟨p, hp, rfl⟩ := List.mem_map.mp hx; exact (hWF k p hp).2)
    (fun k x hx => by obtain ⟨p, hp, rfl⟩ := List.mem_map.mp hx; exact (hq k p hp).2) n ks2 hp2
  refine ⟨o1, o2, ?_, ?_, ?_⟩
  · rw [writePaired_eq]
    simp only [map_pair_fst, map_pair_snd]
    rw [w1, w2]; rfl
  · rw [r1, flatten_map_proj, List.map_map]; rfl
  · rw [r2, flatten_map_proj, List.map_map]; rfl

/-- **With `skipEmpty` the two files of a pair can fall out of step** (what the in-step theorems exclude through
`WF`: a record with an empty sequence whose mate is not empty is left out of file 1 only).  Concrete stream: one batch
of two pairs, the first record of which is empty: file 1 holds one record, file 2 two. -/
theorem paired_skip_empty_out_of_step :
    let pairs : Nat → PBatch := fun _ =>
      [(⟨[65], [], none, [], []⟩, ⟨[65], [99], none, [], []⟩), (⟨[66], [97], none, [], []⟩, ⟨[66], [103], none, [], []⟩)]
    writePaired { kind := Kind.fasta, skipEmpty := true } ([0].map fun k => (k, pairs k)) ([0].map fun k => (k, pairs k))
      = some ([62, 66, 32, 10, 97, 10], [62, 65, 32, 10, 99, 10, 62, 66, 32, 10, 103, 10]) := by
  intro pairs
  rw [writePaired_eq, seqfile_outcome _ (Or.inl rfl) (fun k => (pairs k).map Prod.fst) 1 [0] (by decide),
    seqfile_outcome _ (Or.inl rfl) (fun k => (pairs k).map Prod.snd) 1 [0] (by decide)]
  decide

/-! ### CSV: the text determines the rows -/

/-- **Injectivity of the CSV text.** Two lists of rows (every row with at least one field: a header of at least one
column, data rows as long as the header) that `csv.Writer` renders as the same bytes are the same lists, field by
field, byte by byte — no quoting ambiguity, no field or row boundary can move, CR / LF / quotes / commas inside fields
included.  (`[]` and `[[]]` — no field / one empty field — are both written as an empty line: the only collision,
excluded by `hne`.)  This is the well-formedness content of the CSV output that does not depend on any reader. -/
theorem csv_text_injective (rs rs' : List (List B)) (hne : ∀ r ∈ rs, r ≠ []) (hne' : ∀ r ∈ rs', r ≠ [])
    (h : (rs.map csvRow).flatten = (rs'.map csvRow).flatten) : rs = rs' :=
  CsvInj.csvRows_inj rs rs' hne hne' h

/-- **Injectivity of the CSV file.** Two streams (any numbers of batches ≥ 1, any arrival orders, any empty batches,
possibly different column selections) whose CSV files are byte-identical have the same header and the same rows in
the same order. -/
theorem csv_file_injective (sh : UInt8) (o o' : CsvOpt) (recs recs' : Nat → List Rec) (rows rows' : Nat → List (List B))
    (hrows : ∀ k, (recs k).mapM (csvRecord sh o) = some (rows k))
    (hrows' : ∀ k, (recs' k).mapM (csvRecord sh o') = some (rows' k))
    (hhdr : csvHeader o ≠ []) (hhdr' : csvHeader o' ≠ [])
    (n n' : Nat) (hn : 0 < n) (hn' : 0 < n') (ks ks' : List Nat)
    (hp : ks.Perm (List.range n)) (hp' : ks'.Perm (List.range n'))
    (h : writeFile { kind := Kind.csv, shift := sh, csv := o } (ks.map fun k => (k, recs k))
       = writeFile { kind := Kind.csv, shift := sh, csv := o' } (ks'.map fun k => (k, recs' k))) :
    csvHeader o = csvHeader o' ∧ ((List.range n).map rows).flatten = ((List.range n').map rows').flatten := by
  have file : ∀ (o : CsvOpt) (recs : Nat → List Rec) (rows : Nat → List (List B))
      (_ : ∀ k, (recs k).mapM (csvRecord sh o) = some (rows k)) (n : Nat) (_ : 0 < n) (ks : List Nat)
      (_ : ks.Perm (List.range n)),
      writeFile { kind := Kind.csv, shift := sh, csv := o } (ks.map fun k => (k, recs k))
        = some (((csvHeader o :: ((List.range n).map rows).flatten).map csvRow).flatten) := by
    intro o recs rows hrows n hn ks hp
    obtain ⟨m, rfl⟩ : ∃ m, n = m + 1 := ⟨n - 1, by omega⟩
    let txt : Nat → B := fun k => (if k = 0 then csvRow (csvHeader o) else []) ++ ((rows k).map csvRow).flatten
    rw [writeFile_raw { kind := Kind.csv, shift := sh, csv := o } (by intro h; cases h) recs txt
      (fun k => by simpa [fmtBatch] using fmtCsvBatch_rows sh o k (recs k) (rows k) (hrows k)) (m + 1) ks hp]
    congr 1
    have e2 : ((((List.range (m + 1)).map rows).flatten).map csvRow).flatten
        = ((List.range (m + 1)).map fun k => ((rows k).map csvRow).flatten).flatten := by
      rw [← flatten_map_flatten, List.map_map]; rfl
    rw [List.map_cons, List.flatten_cons, e2, List.range_succ_eq_map]
    simp [txt, List.map_map, Function.comp_def]
  rw [file o recs rows hrows n hn ks hp, file o' recs' rows' hrows' n' hn' ks' hp'] at h
  have hlen : ∀ (o : CsvOpt) (recs : Nat → List Rec) (rows : Nat → List (List B))
      (_ : ∀ k, (recs k).mapM (csvRecord sh o) = some (rows k)) (_ : csvHeader o ≠ []) (n : Nat),
      ∀ r ∈ csvHeader o :: ((List.range n).map rows).flatten, r ≠ [] := by
    intro o recs rows hrows hhdr n r hr
    rcases List.mem_cons.mp hr with rfl | hr
    · exact hhdr
    · obtain ⟨l, hl, hrl⟩ := List.mem_flatten.mp hr
      obtain ⟨k, _, rfl⟩ := List.mem_map.mp hl
      have := mapM_csvRecord_length sh o (recs k) (rows k) (hrows k) r hrl
      intro e
      rw [e] at this
      exact hhdr (List.length_eq_zero_iff.mp this.symm)
  have := CsvInj.csvRows_inj _ _ (hlen o recs rows hrows hhdr n) (hlen o' recs' rows' hrows' hhdr' n')
    (Option.some.inj h)
  exact ⟨(List.cons.inj this).1, (List.cons.inj this).2⟩

/-- non-vacuity of `csv_text_injective` and a test: the classic ambiguity candidates are told apart -/
example : (([[[97, 44, 98]], [[97], [98]]] : List (List B)).map (fun r => csvRow r))
    = [[34, 97, 44, 98, 34, 10], [97, 44, 98, 10]] := by
  decide


/-! ### JSON: the whole file is ONE valid JSON array whose i-th element is the i-th record

The reader is `JsonRead.decodeText`: the token-level white-space stripper of RFC 8259 §2 (`JsonRead.strip`: copies
string literals, drops white space between tokens, rejects white space inside a number or a literal name) followed by
the strict decoder of property C02 (`Json.decVal`, `Model/Json.lean`, imported unchanged), the whole text having to be
consumed.  The nested values (objects, arrays, numbers, indentation of `jVal`) are covered — not only string literals
and the array framing. -/

open ObiVerif.JsonRead ObiVerif.WriterJson

/-- **JSON file, decode-back.** For every `n`, every arrival order, every set of empty batches and ARBITRARY records
(any identifier / sequence / key / string bytes, any ints, lists and maps nested without bound), the file is accepted
by the JSON reader as exactly one value: the array `fileJ` of the objects of the records of all batches in batch order. -/
theorem json_file_decodes (sh : UInt8) (recs : Nat → List Rec)
    (n : Nat) (ks : List Nat) (hp : ks.Perm (List.range n)) :
    ∃ out, writeFile { kind := Kind.json, shift := sh } (ks.map fun k => (k, recs k)) = some out ∧
      decodeText out = some (fileJ sh ((List.range n).map recs).flatten) := by
  refine ⟨_, json_file_is_array_of_record_texts sh recs n ks hp, ?_⟩
  rw [← fmtJsonBatch_join]
  exact decodeText_file sh _

/-- the `i`-th element of that array is the object of the `i`-th record written (none beyond the last record) -/
theorem json_file_element (sh : UInt8) (rs : List Rec) (i : Nat) :
    (match fileJ sh rs with | .arr l => JList.get? l i | _ => none) = (rs[i]?).map (recJ sh) :=
  fileJ_get sh rs i

theorem key_id : ofStr "id" = [105, 100] := by decide +kernel
theorem key_sequence : ofStr "sequence" = [115, 101, 113, 117, 101, 110, 99, 101] := by decide +kernel
theorem key_qualities : ofStr "qualities" = [113, 117, 97, 108, 105, 116, 105, 101, 115] := by decide +kernel
theorem key_annotations : ofStr "annotations" = [97, 110, 110, 111, 116, 97, 116, 105, 111, 110, 115] := by decide +kernel

/-- **What the object of a record holds**: member `id` is the identifier; `sequence` the sequence (absent when it is
empty: `HasSequence`); `qualities` the quality string `QualitiesString()` (absent without qualities); `annotations`
the annotation map, every map printed by sorted key (absent when the record has no annotation). -/
theorem json_record_fields (sh : UInt8) (r : Rec) :
    field (ofStr "id") (recJ sh r) = some (.str r.id) ∧
    field (ofStr "sequence") (recJ sh r) = (if r.seq = [] then none else some (.str r.seq)) ∧
    field (ofStr "qualities") (recJ sh r)
      = (match r.qual with | some q => (if q = [] then none else some (.str (qualStr sh q))) | none => none) ∧
    field (ofStr "annotations") (recJ sh r) = (if r.ann = [] then none else some (toJ (sortVal (.map r.ann)))) := by
  simp only [key_id, key_sequence, key_qualities, key_annotations, recJ, recordVal]
  by_cases ha : r.ann = [] <;> by_cases hs : r.seq = [] <;> cases hq : r.qual with
  | none => simp [ha, hs, toJ, toJMems, field, JMems.find]
  | some q => by_cases hq0 : q = [] <;> simp [ha, hs, hq0, toJ, toJMems, field, JMems.find]

/-- every value the writer can be asked to print denotes a well-formed JSON value (number literals obey the grammar
of RFC 8259 §6) and its indented text alone is read back as that value -/
theorem json_value_decodes (v : Val) : decodeText (jVal 0 v) = some (toJ v) ∧ (toJ v).WF = true :=
  ⟨decodeText_jVal v, toJ_WF v⟩

/-- **Paired JSON files stay in step**: both files decode, to two arrays of the same length whose `i`-th elements are
the objects of record `i` and of its mate. -/
theorem paired_json_files_in_step (sh : UInt8) (pairs : Nat → PBatch)
    (n : Nat) (ks1 ks2 : List Nat) (hp1 : ks1.Perm (List.range n)) (hp2 : ks2.Perm (List.range n)) :
    ∃ f1 f2, writePaired { kind := Kind.json, shift := sh } (ks1.map fun k => (k, pairs k)) (ks2.map fun k => (k, pairs k))
        = some (f1, f2) ∧
      decodeText f1 = some (fileJ sh ((((List.range n).map pairs).flatten).map Prod.fst)) ∧
      decodeText f2 = some (fileJ sh ((((List.range n).map pairs).flatten).map Prod.snd)) := by
  obtain ⟨o1, w1, d1⟩ := json_file_decodes sh (fun k => (pairs k).map Prod.fst) n ks1 hp1
  obtain ⟨o2, w2, d2⟩ := json_file_decodes sh (fun k => (pairs k).map Prod.snd) n ks2 hp2
  refine ⟨o1, o2, ?_, ?_, ?_⟩
  · rw [writePaired_eq, w1, w2]; rfl
  · rw [d1, flatten_map_proj]
  · rw [d2, flatten_map_proj]

/-- non-vacuity of the reader: a text with white space inside a number is rejected, the same text without it is read -/
example : decodeText [91, 10, 32, 32, 49, 32, 50, 10, 93, 10] = none ∧
    decodeText [91, 10, 32, 32, 49, 50, 10, 93, 10] = some (.arr (.cons (.num [49, 50]) .nil)) := by
  constructor <;> decide

end ObiVerif.Props.C04
