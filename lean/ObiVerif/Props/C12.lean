import ObiVerif.Lemmas.Demux
import ObiVerif.Lemmas.DemuxRead
import ObiVerif.Lemmas.DemuxEdit
import ObiVerif.Lemmas.DemuxDelim
import ObiVerif.Lemmas.NgsFilter
import ObiVerif.Lemmas.DemuxRescue
import ObiVerif.Lemmas.DemuxSym
import ObiVerif.Lemmas.DemuxAnnot
/-!
# C12 — Demultiplexing assigns the declared sample, the exact barcode, on either strand

Theorems on `Model/Demux.lean` (transcription of `pkg/obingslibrary/multimatch.go`, tied to the
real code by the correspondence check of `harness/c12.go`).
-/
namespace ObiVerif.Props.C12

open ObiVerif.SeqOps (Bytes rc subsequence nucComplement)
open ObiVerif.Demux

/-! ## distances -/

/-- `Hamming`: the number of differing positions for strings of the same length, the larger length
otherwise (that is what the code returns; it never compares strings of different lengths position
by position) -/
theorem hamming_spec (a b : Bytes) :
    hamming a b = if a.length = b.length then mismatches a b else max a.length b.length := by
  unfold hamming
  by_cases h : a.length = b.length
  · simp [h, hammingEq_eq_mismatches]
  · simp [h]

/-- test of the hypotheses on a concrete value -/
example : hamming [1, 2, 3, 4] [1, 9, 3, 7] = 2 ∧ hamming [1, 2] [1, 2, 3] = 3 := by decide

theorem hamming_eq_zero_iff (a b : Bytes) : hamming a b = 0 ↔ a = b := hamming_zero_iff a b

/-- `Levenshtein` (two-row dynamic programme over the prefixes of both strings) is the textbook
edit distance `editDist` (substitution, insertion, deletion of cost 1) of the two strings read from
their last character, i.e. the Wagner–Fischer matrix entry `D[|s1|][|s2|]`. -/
theorem levenshtein_is_edit_distance (s1 s2 : Bytes) :
    levenshtein s1 s2 = editDist s1.reverse s2.reverse := by
  unfold levenshtein
  by_cases h1 : s1.length = 0
  · have : s1 = [] := List.eq_nil_of_length_eq_zero h1
    subst this
    simp [editDist_nil_left]
  · by_cases h2 : s2.length = 0
    · have : s2 = [] := List.eq_nil_of_length_eq_zero h2
      subst this
      simp [h1, editDist_nil_right]
    · simp only [h1, h2, if_false]
      have hr : List.range (s2.length + 1) = rowOf [] [] s2 := by
        rw [rowOf_nil_eq_range', List.range_eq_range']
        simp
      rw [hr]
      have := levRows_rowOf s2 s1 []
      simp only [List.length_nil, Nat.zero_add, List.append_nil] at this
      rw [this, rowOf_getLastD]
      simp

/-- test on concrete values: "kitten"/"sitting" = 3, "flaw"/"lawn" = 2 -/
example : levenshtein [107, 105, 116, 116, 101, 110] [115, 105, 116, 116, 105, 110, 103] = 3 ∧
    levenshtein [102, 108, 97, 119] [108, 97, 119, 110] = 2 := by decide

/-- **The edit-distance specification on the strings as given.**  `editDist` is invariant under
reversal (`editDist_reverse`, proved through the characterisation below), so the two-row programme
computes the edit distance of `s1` and `s2` themselves, not only of the reversed strings. -/
theorem levenshtein_eq_editDist (s1 s2 : Bytes) : levenshtein s1 s2 = editDist s1 s2 := by
  rw [levenshtein_is_edit_distance, editDist_reverse]

/-- … and that number is the **cost of a cheapest edit script** (`Align s t n`: `s` is rewritten
into `t` by deletions, insertions, substitutions of cost 1 and matches of cost 0, total `n`): a
script of cost `levenshtein s1 s2` exists and no script is cheaper.  This is the specification of
the "indel" matching mode independent of any recurrence. -/
theorem levenshtein_min_script (s1 s2 : Bytes) :
    Align s1 s2 (levenshtein s1 s2) ∧ ∀ n, Align s1 s2 n → levenshtein s1 s2 ≤ n := by
  rw [levenshtein_eq_editDist]
  exact editDist_isLeast s1 s2

/-- `Levenshtein` is a metric on byte strings (the code calls `dist(declared, observed)`; the
order of the arguments is irrelevant) -/
theorem levenshtein_metric (s t u : Bytes) :
    (levenshtein s t = 0 ↔ s = t) ∧ levenshtein s t = levenshtein t s ∧
    levenshtein s u ≤ levenshtein s t + levenshtein t u ∧
    levenshtein s t ≤ max s.length t.length ∧ s.length - t.length ≤ levenshtein s t := by
  simp only [levenshtein_eq_editDist]
  exact ⟨editDist_eq_zero_iff s t, editDist_comm s t, editDist_triangle s t u,
    editDist_le_max_length s t, length_sub_le_editDist s t⟩

/-- non-vacuity: a concrete script of cost 3 for kitten → sitting (test) -/
example : Align [107, 105, 116, 116, 101, 110] [115, 105, 116, 116, 105, 110, 103] 3 :=
  (levenshtein_min_script _ _).1

/-! ## nearest unique tag -/

/-- `u` is the unique declared tag nearest to `tag` -/
def UniqueNearest (dist : Bytes → Bytes → Nat) (tags : List Bytes) (tag u : Bytes) : Prop :=
  u ∈ tags ∧ (∀ t ∈ tags, dist u tag ≤ dist t tag) ∧ (∀ t ∈ tags, dist t tag = dist u tag → t = u)

/-- `ClosestForwardTag` / `ClosestReverseTag` return a tag `u ≠ ""` only when `u` is the unique
minimiser of the distance over the declared tags, together with that minimal distance -/
theorem closest_unique (dist : Bytes → Bytes → Nat) (tags : List Bytes) (tag u : Bytes) (d : Option Nat)
    (h : closestUnique dist tags tag = (u, d)) (hu : u ≠ []) :
    UniqueNearest dist tags tag u ∧ d = some (dist u tag) := by
  have hne : tags ≠ [] := by
    intro h0; subst h0; simp [closestUnique] at h; exact hu h.1
  obtain ⟨m, hm, hle, _, hne', _⟩ := closestInv_closestUnique dist tag tags hne
  rw [h] at hm hne'
  simp only at hm hne'
  obtain ⟨h1, h2, h3⟩ := hne' hu
  refine ⟨⟨h1, ?_, ?_⟩, ?_⟩
  · intro t ht; rw [h2]; exact hle t ht
  · intro t ht htd; exact h3 t ht (htd.trans h2)
  · rw [hm, h2]

/-- conversely a non-empty unique nearest tag is always returned -/
theorem closest_unique_complete (dist : Bytes → Bytes → Nat) (tags : List Bytes) (tag x : Bytes)
    (hx : UniqueNearest dist tags tag x) (hxne : x ≠ []) :
    closestUnique dist tags tag = (x, some (dist x tag)) := by
  obtain ⟨hmem, hmin, huniq⟩ := hx
  have hne : tags ≠ [] := by intro h0; subst h0; simp at hmem
  obtain ⟨m, hm, hle, ⟨w, hw, hwd⟩, hne', hnil⟩ := closestInv_closestUnique dist tag tags hne
  have hmx : m = dist x tag := by
    have h1 := hle x hmem
    have h2 := hmin w hw
    omega
  generalize hres : closestUnique dist tags tag = res at *
  obtain ⟨u, d⟩ := res
  simp only at hm hne' hnil
  subst hm
  by_cases hu : u = []
  · obtain ⟨t, ht, htd, htx⟩ := hnil hu x hxne hmem hmx.symm
    exact absurd (huniq t ht (htd.trans hmx)) htx
  · obtain ⟨h1, h2, _⟩ := hne' hu
    have : u = x := huniq u h1 (h2.trans hmx)
    rw [this, hmx]

/-- the result does not depend on the order in which the Go map delivers the tags -/
theorem closest_unique_perm (dist : Bytes → Bytes → Nat) (tags tags' : List Bytes) (tag : Bytes)
    (hp : tags.Perm tags') : closestUnique dist tags' tag = closestUnique dist tags tag := by
  by_cases hne : tags = []
  · subst hne
    have : tags' = [] := List.Perm.eq_nil (List.Perm.symm hp)
    rw [this]
  · have hne' : tags' ≠ [] := fun h => hne (List.Perm.eq_nil (h ▸ hp))
    obtain ⟨m, hm, hle, ⟨w, hw, hwd⟩, hnz, hnil⟩ := closestInv_closestUnique dist tag tags hne
    obtain ⟨m', hm', hle', ⟨w', hw', hwd'⟩, hnz', hnil'⟩ := closestInv_closestUnique dist tag tags' hne'
    have mem : ∀ t, t ∈ tags ↔ t ∈ tags' := fun t => hp.mem_iff
    have hmm : m = m' := by
      have h1 := hle w' ((mem w').2 hw')
      have h2 := hle' w ((mem w).1 hw)
      omega
    subst hmm
    generalize closestUnique dist tags tag = r at *
    generalize closestUnique dist tags' tag = r' at *
    obtain ⟨u, d⟩ := r
    obtain ⟨u', d'⟩ := r'
    simp only at hm hm' hnz hnz' hnil hnil'
    subst hm hm'
    have : u' = u := by
      by_cases hu : u = []
      · by_cases hu' : u' = []
        · rw [hu, hu']
        · obtain ⟨h1, h2, h3⟩ := hnz' hu'
          obtain ⟨t, ht, htd, htx⟩ := hnil hu u' hu' ((mem u').2 h1) h2
          exact absurd (h3 t ((mem t).1 ht) htd) htx
      · obtain ⟨h1, h2, h3⟩ := hnz hu
        by_cases hu' : u' = []
        · obtain ⟨t, ht, htd, htx⟩ := hnil' hu' u hu ((mem u).1 h1) h2
          exact absurd (h3 t ((mem t).2 ht) htd) htx
        · obtain ⟨h1', h2', _⟩ := hnz' hu'
          exact h3 u' ((mem u').2 h1') h2'
    rw [this]

/-- test: a tie returns "", a unique nearest tag is returned, in any order -/
example : (closestUnique hamming [[1, 2, 3], [1, 2, 4], [9, 9, 9]] [1, 2, 5]).1 = [] ∧
    (closestUnique hamming [[9, 9, 9], [1, 2, 4], [1, 2, 3]] [1, 2, 4]).1 = [1, 2, 4] := by decide

/-! ## safety: never a wrong sample -/

/-- the extracted tag `obs` identifies the declared tag `p` under the matching mode -/
def Identifies (mode : Mode) (tags : List Bytes) (obs p : Bytes) : Prop :=
  match mode with
  | .strict => p = obs
  | .hamming => UniqueNearest hamming tags obs p
  | .indel => UniqueNearest levenshtein tags obs p

/-- `SampleIdentifier` returns a sample only if the pair of proposed tags is declared for that
sample in the marker and each proposed tag is identified from the extracted tag under the declared
mode (exact, or unique nearest tag), an absent extracted tag standing for an undeclared tag.
Hypotheses: on a side where a tag was extracted every sample of the marker declares a tag — this
is what `CheckTagLength` guarantees for a sheet accepted by `ReadNGSFilter` (`wf_tags_nonempty`
and `tagExtractor_untagged` below); without it the property is false
(`wrong_sample_without_taglength_check`). -/
theorem never_wrong_sample (m : Marker) (ft rt : Bytes) (s : Sample)
    (hf : ft ≠ [] → ∀ x ∈ m.samples, x.ftag ≠ [])
    (hr : rt ≠ [] → ∀ x ∈ m.samples, x.rtag ≠ [])
    (h : (identify m ft rt).pcr = some s) :
    s ∈ m.samples ∧
    (if ft = [] then s.ftag = [] ∧ (identify m ft rt).fprop = none
      else Identifies m.fmode (m.samples.map (·.ftag)) ft s.ftag ∧
        ∃ d, (identify m ft rt).fprop = some (s.ftag, d)) ∧
    (if rt = [] then s.rtag = [] ∧ (identify m ft rt).rprop = none
      else Identifies m.rmode (m.samples.map (·.rtag)) rt s.rtag ∧
        ∃ d, (identify m ft rt).rprop = some (s.rtag, d)) := by
  unfold identify at h ⊢
  simp only at h ⊢
  have hmem : s ∈ m.samples := List.mem_of_find?_eq_some h
  have hp := List.find?_some h
  simp only [Bool.and_eq_true, decide_eq_true_eq] at hp
  refine ⟨hmem, ?_, ?_⟩
  · by_cases hft : ft = []
    · simp only [hft, ne_eq, not_true_eq_false, if_false, if_true] at hp ⊢
      exact ⟨hp.1, trivial⟩
    · simp only [hft, ne_eq, not_false_eq_true, if_true, if_false] at hp ⊢
      have hs : s.ftag ≠ [] := hf hft s hmem
      generalize hpr : propose m.fmode (List.map (fun x => x.ftag) m.samples) ft = pr at hp ⊢
      obtain ⟨u, d⟩ := pr
      simp only at hp
      have hu : s.ftag = u := hp.1
      subst hu
      refine ⟨?_, d, rfl⟩
      unfold propose at hpr
      unfold Identifies
      cases hmode : m.fmode <;> simp only [hmode] at hpr ⊢
      · injection hpr with h1 _
        exact h1.symm
      · exact (closest_unique _ _ _ _ _ hpr hs).1
      · exact (closest_unique _ _ _ _ _ hpr hs).1
  · by_cases hrt : rt = []
    · simp only [hrt, ne_eq, not_true_eq_false, if_false, if_true] at hp ⊢
      exact ⟨hp.2, trivial⟩
    · simp only [hrt, ne_eq, not_false_eq_true, if_true, if_false] at hp ⊢
      have hs : s.rtag ≠ [] := hr hrt s hmem
      generalize hpr : propose m.rmode (List.map (fun x => x.rtag) m.samples) rt = pr at hp ⊢
      obtain ⟨u, d⟩ := pr
      simp only at hp
      have hu : s.rtag = u := hp.2
      subst hu
      refine ⟨?_, d, rfl⟩
      unfold propose at hpr
      unfold Identifies
      cases hmode : m.rmode <;> simp only [hmode] at hpr ⊢
      · injection hpr with h1 _
        exact h1.symm
      · exact (closest_unique _ _ _ _ _ hpr hs).1
      · exact (closest_unique _ _ _ _ _ hpr hs).1

/-- a marker whose samples do not all declare a forward tag (rejected by `CheckTagLength`, whose
error the unrepaired `ReadNGSFilter` dropped): the extracted tag `ccgc` is at distance 1 of the two
declared tags `ccgg` and `ccgt`; the tie is returned as "" and the read is given to the sample
declared without forward tag.  This is the failing input found on the real code. -/
def badMarker : Marker :=
  { fprimer := "f", rprimer := "r", ftaglen := -1, rtaglen := -1, fspacer := 3, rspacer := 7,
    fdelim := 97, rdelim := 97, findels := 0, rindels := 0, fmode := .hamming, rmode := .hamming,
    samples := [⟨[99, 99, 103, 103], [103, 103, 116, 116], "sA", "e", []⟩,
                ⟨[99, 99, 103, 116], [103, 103, 116, 116], "sB", "e", []⟩,
                ⟨[], [103, 103, 116, 116], "sNOTAG", "e", []⟩] }

theorem wrong_sample_without_taglength_check :
    checkTagLength badMarker.samples = none ∧
    ((identify badMarker [99, 99, 103, 99] [103, 103, 116, 116]).pcr.map (·.name)) = some "sNOTAG" := by
  decide

/-- hypotheses of `never_wrong_sample` are satisfiable on a non-trivial value (test) -/
example : (identify { badMarker with samples := badMarker.samples.take 2 }
    [99, 99, 103, 103] [103, 103, 116, 116]).pcr.map (·.name) = some "sA" := by decide

/-- a sheet accepted by `CheckTagLength` with tagged forward side: every sample declares a tag -/
theorem wf_tags_nonempty (samples : List Sample) (fl rl : Nat)
    (h : checkTagLength samples = some (fl, rl)) :
    (fl ≠ 0 → ∀ x ∈ samples, x.ftag ≠ []) ∧ (rl ≠ 0 → ∀ x ∈ samples, x.rtag ≠ []) ∧
    (∀ x ∈ samples, x.ftag.length = fl ∧ x.rtag.length = rl) := by
  unfold checkTagLength at h
  cases samples with
  | nil => simp at h
  | cons s t =>
    simp only at h
    split at h
    · rename_i hall
      injection h with h
      injection h with h1 h2
      have hall' : ∀ x ∈ s :: t, x.ftag.length = fl ∧ x.rtag.length = rl := by
        intro x hx
        have := List.all_eq_true.1 hall x hx
        simp only [Bool.and_eq_true, decide_eq_true_eq] at this
        omega
      refine ⟨?_, ?_, hall'⟩
      · intro hfl x hx hnil
        have := (hall' x hx).1
        rw [hnil] at this
        simp at this
        omega
      · intro hrl x hx hnil
        have := (hall' x hx).2
        rw [hnil] at this
        simp at this
        omega
    · simp at h

/-- on an untagged side (`tag length = 0`) no tag is ever extracted -/
theorem tagExtractor_untagged (m : Marker) (seq : Bytes) (b e : Int) (fwd : Bool) (ft rt : Bytes)
    (h : tagExtractor m seq b e fwd = .ok (ft, rt)) :
    (m.ftaglen = 0 → ft = []) ∧ (m.rtaglen = 0 → rt = []) := by
  have hb : ∀ sd x t, sd.taglen = 0 → beginTag seq sd x = .ok t → t = [] := by
    intro sd x t h0 ht
    simp [beginTag, h0] at ht
    cases ht; rfl
  have he : ∀ sd x t, sd.taglen = 0 → endTag seq sd x = .ok t → t = [] := by
    intro sd x t h0 ht
    simp [endTag, h0] at ht
    cases ht; rfl
  unfold tagExtractor at h
  cases fwd
  · simp only [Bool.false_eq_true, if_false] at h
    cases hx : beginTag seq m.rside b with
    | error e => simp [hx, bind, Except.bind] at h
    | ok x =>
      cases hy : endTag seq m.fside e with
      | error e => simp [hx, hy, bind, Except.bind] at h
      | ok y =>
        simp [hx, hy, bind, Except.bind, pure, Except.pure] at h
        obtain ⟨h1, h2⟩ := h
        subst h1 h2
        exact ⟨fun h0 => he _ _ _ (by simpa [Marker.fside] using h0) hy,
               fun h0 => hb _ _ _ (by simpa [Marker.rside] using h0) hx⟩
  · simp only [if_true] at h
    cases hx : beginTag seq m.fside b with
    | error e => simp [hx, bind, Except.bind] at h
    | ok x =>
      cases hy : endTag seq m.rside e with
      | error e => simp [hx, hy, bind, Except.bind] at h
      | ok y =>
        simp [hx, hy, bind, Except.bind, pure, Except.pure] at h
        obtain ⟨h1, h2⟩ := h
        subst h1 h2
        exact ⟨fun h0 => hb _ _ _ (by simpa [Marker.fside] using h0) hx,
               fun h0 => he _ _ _ (by simpa [Marker.rside] using h0) hy⟩

/-! ## the read built from a declared sample -/

/-- flank + tag + spacer + forward primer instance + barcode + rc(reverse primer instance) +
rc(spacer) + rc(tag) + flank -/
def builtRead (flankL tagF spF pf bc pr spR tagR flankR : Bytes) : Bytes :=
  flankL ++ tagF ++ spF ++ pf ++ bc ++ rc pr ++ rc spR ++ rc tagR ++ flankR

/-- the hits of the matcher when the primers hit at the built sites only: marker number `n+1`
has one forward hit and one complemented-reverse hit, nothing else anywhere -/
def builtHits (n n' : Nat) (b1 e1 b2 e2 k1 k2 : Int) : List Hits :=
  List.replicate n noHits ++ [⟨[(b1, e1, k1)], [(b2, e2, k2)], [], []⟩] ++ List.replicate n' noHits

/-- For a read built from the sample declared for the tag pair `(tagF, tagR)` of marker `n+1`
(fixed-length tags, the declared spacers, any flanks, primer instances `pf` / `pr` reported by the
matcher with `k1` / `k2` mismatches, **primer hits only at the built sites**), demultiplexing returns
exactly one amplicon: the barcode, direction forward, the two primer matches, the two tags and the
declared sample — under the three matching modes. -/
theorem constructed_read (ms : List Marker) (n n' : Nat) (mk : Marker) (s : Sample)
    (flankL tagF spF pf bc pr spR tagR flankR : Bytes) (k1 k2 : Int)
    (hms : ms[n]? = some mk)
    (hfd : mk.fdelim = 0) (hrd : mk.rdelim = 0)
    (hfl : mk.ftaglen = tagF.length) (hrl : mk.rtaglen = tagR.length)
    (hfs : mk.fspacer = spF.length) (hrs : mk.rspacer = spR.length)
    (hpf : 0 < pf.length) (hbc : 0 < bc.length) (hpr : 0 < pr.length)
    (halpha : ∀ b ∈ pr ++ tagR, b ∈ alphabet)
    (hdecl : lookupPair mk.samples tagF tagR = some s) :
    let b1 : Int := (flankL.length : Int) + tagF.length + spF.length
    let e1 : Int := b1 + pf.length
    let b2 : Int := e1 + bc.length
    let e2 : Int := b2 + pr.length
    amplicons ms (builtRead flankL tagF spF pf bc pr spR tagR flankR) (builtHits n n' b1 e1 b2 e2 k1 k2)
      = .ok [{ marker := n + 1, forward := true, subFrom := e1, subTo := b2, barcode := bc,
               fmatch := pf, rmatch := pr, ferr := k1, rerr := k2, ftag := tagF, rtag := tagR,
               ident := identify mk tagF tagR }] ∧
    (identify mk tagF tagR).pcr = some s := by
  intro b1 e1 b2 e2
  have hprA : ∀ b ∈ pr, b ∈ alphabet := fun b hb => halpha b (by simp [hb])
  have htrA : ∀ b ∈ tagR, b ∈ alphabet := fun b hb => halpha b (by simp [hb])
  constructor
  · -- the hits, sorted
    have hcol : collect (builtHits n n' b1 e1 b2 e2 k1 k2) 1 =
        [⟨b1, e1, k1, 1 + n, true⟩, ⟨b2, e2, k2, -(1 + n), true⟩] := by
      unfold builtHits
      rw [List.append_assoc, collect_noHits]
      simp [collect, collect_all_noHits, mkMatches]
    have hle : b1 ≤ b2 := by simp only [b2, e1]; omega
    have hsort : sortByBegin [⟨b1, e1, k1, 1 + n, true⟩, ⟨b2, e2, k2, -(1 + n), true⟩] =
        [(⟨b1, e1, k1, 1 + n, true⟩ : PrimerMatch), ⟨b2, e2, k2, -(1 + n), true⟩] := by
      simp [sortByBegin, insertByBegin, hle]
    -- windows of the read
    have hr1 : builtRead flankL tagF spF pf bc pr spR tagR flankR =
        (flankL ++ tagF ++ spF) ++ pf ++ (bc ++ rc pr ++ rc spR ++ rc tagR ++ flankR) := by
      simp [builtRead, List.append_assoc]
    have hr2 : builtRead flankL tagF spF pf bc pr spR tagR flankR =
        (flankL ++ tagF ++ spF ++ pf ++ bc) ++ rc pr ++ (rc spR ++ rc tagR ++ flankR) := by
      simp [builtRead, List.append_assoc]
    have hr3 : builtRead flankL tagF spF pf bc pr spR tagR flankR =
        (flankL ++ tagF ++ spF ++ pf) ++ bc ++ (rc pr ++ rc spR ++ rc tagR ++ flankR) := by
      simp [builtRead, List.append_assoc]
    have hr4 : builtRead flankL tagF spF pf bc pr spR tagR flankR =
        flankL ++ tagF ++ spF ++ (pf ++ bc ++ rc pr ++ rc spR ++ rc tagR ++ flankR) := by
      simp [builtRead, List.append_assoc]
    have hr5 : builtRead flankL tagF spF pf bc pr spR tagR flankR =
        (flankL ++ tagF ++ spF ++ pf ++ bc ++ rc pr) ++ rc spR ++ rc tagR ++ flankR := by
      simp [builtRead, List.append_assoc]
    have hlen : ((builtRead flankL tagF spF pf bc pr spR tagR flankR).length : Int) =
        (flankL.length : Int) + tagF.length + spF.length + pf.length + bc.length + pr.length +
          spR.length + tagR.length + flankR.length := by
      simp only [builtRead, List.length_append, rc_length, Int.natCast_add]
    have w1 : slice (builtRead flankL tagF spF pf bc pr spR tagR flankR) b1 e1 = .ok pf := by
      have := slice_window (flankL ++ tagF ++ spF) pf (bc ++ rc pr ++ rc spR ++ rc tagR ++ flankR)
      simp only [List.length_append, Int.natCast_add] at this
      rw [hr1]; exact this
    have w2 : subsequence (builtRead flankL tagF spF pf bc pr spR tagR flankR) b2 e2 false
        = .ok (rc pr, (flankL ++ tagF ++ spF ++ pf ++ bc).length) := by
      have := sub_window (flankL ++ tagF ++ spF ++ pf ++ bc) (rc pr) (rc spR ++ rc tagR ++ flankR)
        (by rw [rc_length]; exact hpr)
      simp only [List.length_append, Int.natCast_add, rc_length] at this
      rw [hr2]; simpa only [List.length_append] using this
    have w3 : subsequence (builtRead flankL tagF spF pf bc pr spR tagR flankR) e1 b2 false
        = .ok (bc, (flankL ++ tagF ++ spF ++ pf).length) := by
      have := sub_window (flankL ++ tagF ++ spF ++ pf) bc (rc pr ++ rc spR ++ rc tagR ++ flankR) hbc
      simp only [List.length_append, Int.natCast_add] at this
      rw [hr3]; simpa only [List.length_append] using this
    have w4 : beginTag (builtRead flankL tagF spF pf bc pr spR tagR flankR) mk.fside b1 = .ok tagF := by
      unfold beginTag
      by_cases h0 : tagF.length = 0
      · have : tagF = [] := List.eq_nil_of_length_eq_zero h0
        simp [Marker.fside, hfl, this]
      · have hne : ¬ (mk.fside.taglen = 0) := by
          show ¬ (mk.ftaglen = 0)
          rw [hfl]; omega
        rw [if_neg hne, if_pos (by simp [Marker.fside, hfd])]
        rw [hr4]
        exact beginFixed_window flankL tagF spF _ mk.fside (by simp [Marker.fside, hfl])
          (by simp [Marker.fside, hfs])
    have w5 : endTag (builtRead flankL tagF spF pf bc pr spR tagR flankR) mk.rside e2 = .ok tagR := by
      unfold endTag
      by_cases h0 : tagR.length = 0
      · have : tagR = [] := List.eq_nil_of_length_eq_zero h0
        simp [Marker.rside, hrl, this]
      · have hne : ¬ (mk.rside.taglen = 0) := by
          show ¬ (mk.rtaglen = 0)
          rw [hrl]; omega
        rw [if_neg hne, if_pos (by simp [Marker.rside, hrd])]
        have := endFixed_window (flankL ++ tagF ++ spF ++ pf ++ bc ++ rc pr) (rc spR) (rc tagR) flankR
          mk.rside (by simp [Marker.rside, hrl, rc_length]) (by simp [Marker.rside, hrs, rc_length])
          (by rw [rc_length]; omega)
        rw [rc_rc tagR htrA] at this
        simp only [List.length_append, Int.natCast_add, rc_length] at this
        rw [hr5]; exact this
    have w6 : tagExtractor mk (builtRead flankL tagF spF pf bc pr spR tagR flankR) b1 e2 true
        = .ok (tagF, tagR) := by
      simp [tagExtractor, w4, w5, bind, Except.bind, pure, Except.pure]
    have hpos : (1 + (n : Int)) > 0 := by omega
    have hem := emit_ok ms (builtRead flankL tagF spF pf bc pr spR tagR flankR)
      ⟨b1, e1, k1, 1 + n, true⟩ ⟨b2, e2, k2, -(1 + n), true⟩ mk pf (rc pr) tagF tagR bc _ _
      (by simpa [show (1 + (n : Int)).toNat - 1 = n by omega] using hms)
      (by simp only [hlen, b1, e1]; omega) w1 w2 w6 w3
    simp only [rc_rc pr hprA, if_true, Bool.not_true, Bool.false_eq_true, if_false] at hem
    unfold amplicons
    rw [hcol, hsort]
    simp only [machine, hpos, if_true, and_self, hem, bind, Except.bind, pure, Except.pure]
    simp
    omega
  · -- the declared sample is identified
    have hmem : s ∈ mk.samples := List.mem_of_find?_eq_some hdecl
    have hp := List.find?_some hdecl
    simp only [Bool.and_eq_true, decide_eq_true_eq] at hp
    have hF : tagF ∈ mk.samples.map (·.ftag) := List.mem_map.2 ⟨s, hmem, hp.1⟩
    have hR : tagR ∈ mk.samples.map (·.rtag) := List.mem_map.2 ⟨s, hmem, hp.2⟩
    unfold identify
    by_cases hf0 : tagF = [] <;> by_cases hr0 : tagR = []
    · simp [hf0, hr0] at hdecl ⊢; exact hdecl
    · simp only [hf0, ne_eq, not_true_eq_false, if_false, hr0, not_false_eq_true, if_true,
        propose_declared mk.rmode _ tagR hr0 hR]
      rw [← hf0]; exact hdecl
    · simp only [hr0, ne_eq, not_true_eq_false, if_false, hf0, not_false_eq_true, if_true,
        propose_declared mk.fmode _ tagF hf0 hF]
      rw [← hr0]; exact hdecl
    · simp only [hf0, hr0, ne_eq, not_false_eq_true, if_true,
        propose_declared mk.fmode _ tagF hf0 hF, propose_declared mk.rmode _ tagR hr0 hR]
      exact hdecl

/-- the hypotheses of `constructed_read` are satisfiable (a hamming/strict marker with two samples,
spacer 1 on the forward side, flanks on both sides) -/
def exMarker : Marker :=
  { fprimer := "acgt", rprimer := "ttga", ftaglen := 2, rtaglen := 2, fspacer := 1, rspacer := 0,
    fdelim := 0, rdelim := 0, findels := 0, rindels := 0, fmode := .hamming, rmode := .strict,
    samples := [⟨[97, 99], [103, 116], "s1", "e", []⟩, ⟨[97, 97], [103, 116], "s2", "e", []⟩] }

example := constructed_read [exMarker] 0 0 exMarker ⟨[97, 99], [103, 116], "s1", "e", []⟩
  [116, 116] [97, 99] [103] [97, 99, 103, 116] [99, 99, 99] [116, 116, 103, 97] [] [103, 116] [97] 0 1
  rfl rfl rfl rfl rfl rfl rfl (by decide) (by decide) (by decide) (by decide) (by decide)

/-- test: the same instance evaluated by the model -/
example : (amplicons [exMarker]
    (builtRead [116, 116] [97, 99] [103] [97, 99, 103, 116] [99, 99, 99] [116, 116, 103, 97] [] [103, 116] [97])
    (builtHits 0 0 5 9 12 16 0 1)).toOption.map (·.map (fun a => (a.barcode, a.forward, a.ident.pcr.map (·.name))))
    = some [([99, 99, 99], true, some "s1")] := by decide

/-! ## the reverse-complemented read -/

theorem rc_builtRead (flankL tagF spF pf bc pr spR tagR flankR : Bytes)
    (h : ∀ b ∈ pr ++ spR ++ tagR, b ∈ alphabet) :
    rc (builtRead flankL tagF spF pf bc pr spR tagR flankR) =
      builtRead (rc flankR) tagR spR pr (rc bc) pf spF tagF (rc flankL) := by
  have h1 : rc (rc pr) = pr := rc_rc pr (fun b hb => h b (by simp [hb]))
  have h2 : rc (rc spR) = spR := rc_rc spR (fun b hb => h b (by simp [hb]))
  have h3 : rc (rc tagR) = tagR := rc_rc tagR (fun b hb => h b (by simp [hb]))
  simp only [builtRead, rc_append, h1, h2, h3, List.append_assoc]

/-- the hits of the matcher on the reverse-complemented read, mirrored: one hit of the reverse
primer, one hit of the complemented forward primer -/
def builtHitsRc (n n' : Nat) (b1 e1 b2 e2 k1 k2 : Int) : List Hits :=
  List.replicate n noHits ++ [⟨[], [], [(b1, e1, k2)], [(b2, e2, k1)]⟩] ++ List.replicate n' noHits

/-- the reverse-complemented built read (written with its pieces) gives the same barcode, primer
matches, tags and sample, with the direction flipped -/
theorem constructed_read_rc (ms : List Marker) (n n' : Nat) (mk : Marker)
    (flankL tagF spF pf bc pr spR tagR flankR : Bytes) (k1 k2 : Int)
    (hms : ms[n]? = some mk)
    (hfd : mk.fdelim = 0) (hrd : mk.rdelim = 0)
    (hfl : mk.ftaglen = tagF.length) (hrl : mk.rtaglen = tagR.length)
    (hfs : mk.fspacer = spF.length) (hrs : mk.rspacer = spR.length)
    (hpf : 0 < pf.length) (hbc : 0 < bc.length) (hpr : 0 < pr.length)
    (halpha : ∀ b ∈ tagF ++ pf ++ bc, b ∈ alphabet) :
    let b1 : Int := (flankR.length : Int) + tagR.length + spR.length
    let e1 : Int := b1 + pr.length
    let b2 : Int := e1 + bc.length
    let e2 : Int := b2 + pf.length
    amplicons ms (builtRead (rc flankR) tagR spR pr (rc bc) pf spF tagF (rc flankL))
        (builtHitsRc n n' b1 e1 b2 e2 k1 k2)
      = .ok [{ marker := n + 1, forward := false, subFrom := e1, subTo := b2, barcode := bc,
               fmatch := pf, rmatch := pr, ferr := k1, rerr := k2, ftag := tagF, rtag := tagR,
               ident := identify mk tagF tagR }] := by
  intro b1 e1 b2 e2
  have hpfA : ∀ b ∈ pf, b ∈ alphabet := fun b hb => halpha b (by simp [hb])
  have htfA : ∀ b ∈ tagF, b ∈ alphabet := fun b hb => halpha b (by simp [hb])
  have hbcA : ∀ b ∈ bc, b ∈ alphabet := fun b hb => halpha b (by simp [hb])
  have hcol : collect (builtHitsRc n n' b1 e1 b2 e2 k1 k2) 1 =
      [⟨b1, e1, k2, 1 + n, false⟩, ⟨b2, e2, k1, -(1 + n), false⟩] := by
    unfold builtHitsRc
    rw [List.append_assoc, collect_noHits]
    simp [collect, collect_all_noHits, mkMatches]
  have hle : b1 ≤ b2 := by simp only [b2, e1]; omega
  have hsort : sortByBegin [⟨b1, e1, k2, 1 + n, false⟩, ⟨b2, e2, k1, -(1 + n), false⟩] =
      [(⟨b1, e1, k2, 1 + n, false⟩ : PrimerMatch), ⟨b2, e2, k1, -(1 + n), false⟩] := by
    simp [sortByBegin, insertByBegin, hle]
  have hbcl : 0 < (rc bc).length := by rw [rc_length]; exact hbc
  -- the read is a built read with the roles of the two primers exchanged
  generalize hfR : rc flankR = fR
  generalize hfL : rc flankL = fL
  generalize hcb : rc bc = cb at hbcl
  have hfRl : fR.length = flankR.length := by rw [← hfR, rc_length]
  have hcbl : cb.length = bc.length := by rw [← hcb, rc_length]
  have hr1 : builtRead fR tagR spR pr cb pf spF tagF fL =
      (fR ++ tagR ++ spR) ++ pr ++ (cb ++ rc pf ++ rc spF ++ rc tagF ++ fL) := by
    simp [builtRead, List.append_assoc]
  have hr2 : builtRead fR tagR spR pr cb pf spF tagF fL =
      (fR ++ tagR ++ spR ++ pr ++ cb) ++ rc pf ++ (rc spF ++ rc tagF ++ fL) := by
    simp [builtRead, List.append_assoc]
  have hr3 : builtRead fR tagR spR pr cb pf spF tagF fL =
      (fR ++ tagR ++ spR ++ pr) ++ cb ++ (rc pf ++ rc spF ++ rc tagF ++ fL) := by
    simp [builtRead, List.append_assoc]
  have hr4 : builtRead fR tagR spR pr cb pf spF tagF fL =
      fR ++ tagR ++ spR ++ (pr ++ cb ++ rc pf ++ rc spF ++ rc tagF ++ fL) := by
    simp [builtRead, List.append_assoc]
  have hr5 : builtRead fR tagR spR pr cb pf spF tagF fL =
      (fR ++ tagR ++ spR ++ pr ++ cb ++ rc pf) ++ rc spF ++ rc tagF ++ fL := by
    simp [builtRead, List.append_assoc]
  have hlen : ((builtRead fR tagR spR pr cb pf spF tagF fL).length : Int) =
      (flankR.length : Int) + tagR.length + spR.length + pr.length + bc.length + pf.length +
        spF.length + tagF.length + fL.length := by
    simp only [builtRead, List.length_append, rc_length, Int.natCast_add, hfRl, hcbl]
  have w1 : slice (builtRead fR tagR spR pr cb pf spF tagF fL) b1 e1 = .ok pr := by
    have := slice_window (fR ++ tagR ++ spR) pr (cb ++ rc pf ++ rc spF ++ rc tagF ++ fL)
    simp only [List.length_append, Int.natCast_add, hfRl] at this
    rw [hr1]; exact this
  have w2 : subsequence (builtRead fR tagR spR pr cb pf spF tagF fL) b2 e2 false
      = .ok (rc pf, flankR.length + tagR.length + spR.length + pr.length + bc.length) := by
    have := sub_window (fR ++ tagR ++ spR ++ pr ++ cb) (rc pf) (rc spF ++ rc tagF ++ fL)
      (by rw [rc_length]; exact hpf)
    simp only [List.length_append, Int.natCast_add, rc_length, hfRl, hcbl] at this
    rw [hr2]; exact this
  have w3 : subsequence (builtRead fR tagR spR pr cb pf spF tagF fL) e1 b2 false
      = .ok (cb, flankR.length + tagR.length + spR.length + pr.length) := by
    have := sub_window (fR ++ tagR ++ spR ++ pr) cb (rc pf ++ rc spF ++ rc tagF ++ fL) hbcl
    simp only [List.length_append, Int.natCast_add, hfRl, hcbl] at this
    rw [hr3]; exact this
  have w4 : beginTag (builtRead fR tagR spR pr cb pf spF tagF fL) mk.rside b1 = .ok tagR := by
    unfold beginTag
    by_cases h0 : tagR.length = 0
    · have : tagR = [] := List.eq_nil_of_length_eq_zero h0
      simp [Marker.rside, hrl, this]
    · have hne : ¬ (mk.rside.taglen = 0) := by
        show ¬ (mk.rtaglen = 0)
        rw [hrl]; omega
      rw [if_neg hne, if_pos (by simp [Marker.rside, hrd])]
      rw [hr4]
      have := beginFixed_window fR tagR spR (pr ++ cb ++ rc pf ++ rc spF ++ rc tagF ++ fL) mk.rside
        (by simp [Marker.rside, hrl]) (by simp [Marker.rside, hrs])
      simpa only [hfRl] using this
  have w5 : endTag (builtRead fR tagR spR pr cb pf spF tagF fL) mk.fside e2 = .ok tagF := by
    unfold endTag
    by_cases h0 : tagF.length = 0
    · have : tagF = [] := List.eq_nil_of_length_eq_zero h0
      simp [Marker.fside, hfl, this]
    · have hne : ¬ (mk.fside.taglen = 0) := by
        show ¬ (mk.ftaglen = 0)
        rw [hfl]; omega
      rw [if_neg hne, if_pos (by simp [Marker.fside, hfd])]
      have := endFixed_window (fR ++ tagR ++ spR ++ pr ++ cb ++ rc pf) (rc spF) (rc tagF) fL
        mk.fside (by simp [Marker.fside, hfl, rc_length]) (by simp [Marker.fside, hfs, rc_length])
        (by rw [rc_length]; omega)
      rw [rc_rc tagF htfA] at this
      simp only [List.length_append, Int.natCast_add, rc_length, hfRl, hcbl] at this
      rw [hr5]; exact this
  have w6 : tagExtractor mk (builtRead fR tagR spR pr cb pf spF tagF fL) b1 e2 false
      = .ok (tagF, tagR) := by
    simp [tagExtractor, w4, w5, bind, Except.bind, pure, Except.pure]
  have hpos : (1 + (n : Int)) > 0 := by omega
  have hem := emit_ok ms (builtRead fR tagR spR pr cb pf spF tagF fL)
    ⟨b1, e1, k2, 1 + n, false⟩ ⟨b2, e2, k1, -(1 + n), false⟩ mk pr (rc pf) tagF tagR cb _ _
    (by simpa [show (1 + (n : Int)).toNat - 1 = n by omega] using hms)
    (by simp only [hlen, b1, e1]; omega) w1 w2 w6 w3
  have hcb' : rc cb = bc := by rw [← hcb]; exact rc_rc bc hbcA
  simp only [rc_rc pf hpfA, Bool.not_false, if_true, Bool.false_eq_true, if_false, hcb'] at hem
  unfold amplicons
  rw [hcol, hsort]
  simp only [machine, hpos, if_true, and_self, hem, bind, Except.bind, pure, Except.pure]
  simp
  omega

/-- **Strand symmetry for built reads**: the read built from a declared sample and its reverse
complement (with the mirrored primer hits) give the same barcode oriented forward → reverse, the same
primer matches, error counts, tags and identification; only the direction is flipped (and the
coordinates of the barcode in the read are mirrored). -/
theorem strand_symmetry (ms : List Marker) (n n' : Nat) (mk : Marker) (s : Sample)
    (flankL tagF spF pf bc pr spR tagR flankR : Bytes) (k1 k2 : Int)
    (hms : ms[n]? = some mk)
    (hfd : mk.fdelim = 0) (hrd : mk.rdelim = 0)
    (hfl : mk.ftaglen = tagF.length) (hrl : mk.rtaglen = tagR.length)
    (hfs : mk.fspacer = spF.length) (hrs : mk.rspacer = spR.length)
    (hpf : 0 < pf.length) (hbc : 0 < bc.length) (hpr : 0 < pr.length)
    (halpha : ∀ b ∈ tagF ++ pf ++ bc ++ pr ++ spR ++ tagR, b ∈ alphabet)
    (hdecl : lookupPair mk.samples tagF tagR = some s) :
    let read := builtRead flankL tagF spF pf bc pr spR tagR flankR
    let L : Int := read.length
    let b1 : Int := (flankL.length : Int) + tagF.length + spF.length
    let e1 : Int := b1 + pf.length
    let b2 : Int := e1 + bc.length
    let e2 : Int := b2 + pr.length
    ∃ a : Amplicon,
      amplicons ms read (builtHits n n' b1 e1 b2 e2 k1 k2) = .ok [a] ∧
      amplicons ms (rc read) (builtHitsRc n n' (L - e2) (L - b2) (L - e1) (L - b1) k1 k2)
        = .ok [{ a with forward := false, subFrom := L - a.subTo, subTo := L - a.subFrom }] ∧
      a.forward = true ∧ a.barcode = bc ∧ a.ident.pcr = some s := by
  intro read L b1 e1 b2 e2
  have h1 := constructed_read ms n n' mk s flankL tagF spF pf bc pr spR tagR flankR k1 k2 hms hfd hrd
    hfl hrl hfs hrs hpf hbc hpr (fun b hb => halpha b (by
      simp only [List.mem_append] at hb ⊢; rcases hb with hb | hb <;> simp [hb])) hdecl
  have h2 := constructed_read_rc ms n n' mk flankL tagF spF pf bc pr spR tagR flankR k1 k2 hms hfd hrd
    hfl hrl hfs hrs hpf hbc hpr (fun b hb => halpha b (by
      simp only [List.mem_append] at hb ⊢; rcases hb with (hb | hb) | hb <;> simp [hb]))
  have hrc := rc_builtRead flankL tagF spF pf bc pr spR tagR flankR (fun b hb => halpha b (by
      simp only [List.mem_append] at hb ⊢; rcases hb with (hb | hb) | hb <;> simp [hb]))
  have hlen : L = (flankL.length : Int) + tagF.length + spF.length + pf.length + bc.length + pr.length +
        spR.length + tagR.length + flankR.length := by
    simp only [L, read, builtRead, List.length_append, rc_length, Int.natCast_add]
  refine ⟨_, h1.1, ?_, rfl, rfl, h1.2⟩
  simp only at h2 ⊢
  rw [hrc]
  have e1' : L - e2 = (flankR.length : Int) + tagR.length + spR.length := by
    simp only [hlen, e2, b2, e1, b1]; omega
  have e2' : L - b2 = (flankR.length : Int) + tagR.length + spR.length + pr.length := by
    simp only [hlen, b2, e1, b1]; omega
  have e3' : L - e1 = (flankR.length : Int) + tagR.length + spR.length + pr.length + bc.length := by
    simp only [hlen, e1, b1]; omega
  have e4' : L - b1 = (flankR.length : Int) + tagR.length + spR.length + pr.length + bc.length + pf.length := by
    simp only [hlen, b1]; omega
  rw [e1', e2', e3', e4']
  exact h2

/-! ## built reads with fixed-length **or delimited** tags -/

/-- `constructed_read` for any way of extracting the tags short of rescue: each side of the marker
is either fixed-length (any spacer) or delimited (`indels = 0`, spacer = non-empty run of the
delimiter, delimiter-free tag preceded by a delimiter in the outer flank) — `SideBuilt`.  The two
delimited extractors look for the tag in windows of different widths (`2·(2·spacer+tag)` before a
primer, `2·(spacer+tag)` after it): on a built read both windows contain the tag with its two
delimiters, so the difference is immaterial. -/
theorem constructed_read_any_tags (ms : List Marker) (n n' : Nat) (mk : Marker) (s : Sample)
    (flankL tagF spF pf bc pr spR tagR flankR : Bytes) (k1 k2 : Int)
    (hms : ms[n]? = some mk)
    (hF : SideBuilt mk.fside tagF spF flankL.getLast?)
    (hR : SideBuilt mk.rside tagR spR (flankR.head?.map nucComplement))
    (hpf : 0 < pf.length) (hbc : 0 < bc.length) (hpr : 0 < pr.length)
    (halpha : ∀ b ∈ pr ++ tagR, b ∈ alphabet)
    (hdecl : lookupPair mk.samples tagF tagR = some s) :
    let b1 : Int := (flankL.length : Int) + tagF.length + spF.length
    let e1 : Int := b1 + pf.length
    let b2 : Int := e1 + bc.length
    let e2 : Int := b2 + pr.length
    amplicons ms (builtRead flankL tagF spF pf bc pr spR tagR flankR) (builtHits n n' b1 e1 b2 e2 k1 k2)
      = .ok [{ marker := n + 1, forward := true, subFrom := e1, subTo := b2, barcode := bc,
               fmatch := pf, rmatch := pr, ferr := k1, rerr := k2, ftag := tagF, rtag := tagR,
               ident := identify mk tagF tagR }] ∧
    (identify mk tagF tagR).pcr = some s := by
  intro b1 e1 b2 e2
  have hprA : ∀ b ∈ pr, b ∈ alphabet := fun b hb => halpha b (by simp [hb])
  have htrA : ∀ b ∈ tagR, b ∈ alphabet := fun b hb => halpha b (by simp [hb])
  constructor
  · have hrd : builtRead flankL tagF spF pf bc pr spR tagR flankR =
        (flankL ++ tagF ++ spF) ++ pf ++ bc ++ rc pr ++ (rc spR ++ rc tagR ++ flankR) := by
      simp [builtRead, List.append_assoc]
    have hbt : beginTag ((flankL ++ tagF ++ spF) ++ pf ++ bc ++ rc pr ++ (rc spR ++ rc tagR ++ flankR))
        mk.fside ((flankL ++ tagF ++ spF).length : Int) = .ok tagF := by
      have := beginTag_built flankL tagF spF (pf ++ bc ++ rc pr ++ (rc spR ++ rc tagR ++ flankR))
        mk.fside hF
      simp only [List.length_append, Int.natCast_add]
      simpa only [List.append_assoc] using this
    have het : endTag ((flankL ++ tagF ++ spF) ++ pf ++ bc ++ rc pr ++ (rc spR ++ rc tagR ++ flankR))
        mk.rside (((flankL ++ tagF ++ spF).length : Int) + pf.length + bc.length + pr.length)
        = .ok tagR := by
      have := endTag_built ((flankL ++ tagF ++ spF) ++ pf ++ bc ++ rc pr) spR tagR flankR mk.rside
        htrA hR
      simp only [List.length_append, Int.natCast_add, rc_length] at this ⊢
      simpa only [List.append_assoc] using this
    have := built_core ms n n' mk (flankL ++ tagF ++ spF) pf bc pr (rc spR ++ rc tagR ++ flankR)
      tagF tagR k1 k2 hms hpf hbc hpr hprA hbt het
    rw [hrd]
    simp only [List.length_append, Int.natCast_add] at this
    exact this
  · exact (constructed_read_ident mk s tagF tagR hdecl)

/-- the hypotheses are satisfiable: a marker with a delimited forward side (delimiter `a`, spacer 2,
window widths 14 / 10) and a fixed-length reverse side; the tag `cgt` sits between `a` and `aa` -/
def exDelimMarker : Marker :=
  { fprimer := "acgt", rprimer := "ttga", ftaglen := 3, rtaglen := 2, fspacer := 2, rspacer := 0,
    fdelim := 97, rdelim := 0, findels := 0, rindels := 0, fmode := .indel, rmode := .strict,
    samples := [⟨[99, 103, 116], [103, 116], "s1", "e", []⟩, ⟨[99, 99, 116], [103, 116], "s2", "e", []⟩] }

example := constructed_read_any_tags [exDelimMarker] 0 0 exDelimMarker ⟨[99, 103, 116], [103, 116], "s1", "e", []⟩
  [116, 97] [99, 103, 116] [97, 97] [97, 99, 103, 116] [99, 99, 99] [116, 116, 103, 97] [] [103, 116] [97] 0 1
  rfl (by refine ⟨rfl, rfl, Or.inr ?_⟩; decide) (by refine ⟨rfl, rfl, Or.inl rfl⟩)
  (by decide) (by decide) (by decide) (by decide) (by decide)

/-- test: the same instance evaluated by the model, read and reverse-complemented read -/
example : ((amplicons [exDelimMarker]
    (builtRead [116, 97] [99, 103, 116] [97, 97] [97, 99, 103, 116] [99, 99, 99] [116, 116, 103, 97] [] [103, 116] [97])
    (builtHits 0 0 7 11 14 18 0 1)).toOption.map (·.map (fun a => (a.barcode, a.forward, a.ftag, a.ident.pcr.map (·.name))))
    = some [([99, 99, 99], true, [99, 103, 116], some "s1")]) := by decide

theorem constructed_read_rc_any_tags (ms : List Marker) (n n' : Nat) (mk : Marker)
    (flankL tagF spF pf bc pr spR tagR flankR : Bytes) (k1 k2 : Int)
    (hms : ms[n]? = some mk)
    (hF : SideBuilt mk.fside tagF spF flankL.getLast?)
    (hR : SideBuilt mk.rside tagR spR (flankR.head?.map nucComplement))
    (hpf : 0 < pf.length) (hbc : 0 < bc.length) (hpr : 0 < pr.length)
    (halpha : ∀ b ∈ tagF ++ pf ++ bc, b ∈ alphabet) :
    let b1 : Int := (flankR.length : Int) + tagR.length + spR.length
    let e1 : Int := b1 + pr.length
    let b2 : Int := e1 + bc.length
    let e2 : Int := b2 + pf.length
    amplicons ms (builtRead (rc flankR) tagR spR pr (rc bc) pf spF tagF (rc flankL))
        (builtHitsRc n n' b1 e1 b2 e2 k1 k2)
      = .ok [{ marker := n + 1, forward := false, subFrom := e1, subTo := b2, barcode := bc,
               fmatch := pf, rmatch := pr, ferr := k1, rerr := k2, ftag := tagF, rtag := tagR,
               ident := identify mk tagF tagR }] := by
  intro b1 e1 b2 e2
  have hpfA : ∀ b ∈ pf, b ∈ alphabet := fun b hb => halpha b (by simp [hb])
  have htfA : ∀ b ∈ tagF, b ∈ alphabet := fun b hb => halpha b (by simp [hb])
  have hbcA : ∀ b ∈ bc, b ∈ alphabet := fun b hb => halpha b (by simp [hb])
  -- the sides seen from the other strand
  have hR' : SideBuilt mk.rside tagR spR (rc flankR).getLast? := by
    rw [rc_getLast_eq]; exact hR
  have hF' : SideBuilt mk.fside tagF spF ((rc flankL).head?.map nucComplement) := by
    refine hF.mono ?_
    intro hacgt h
    rw [rc_head_eq, h]
    simp [(acgt_comp_comp _ hacgt).1]
  generalize hfR : rc flankR = fR at *
  generalize hfL : rc flankL = fL at *
  have hfRl : fR.length = flankR.length := by rw [← hfR, rc_length]
  have hrd : builtRead fR tagR spR pr (rc bc) pf spF tagF fL =
      (fR ++ tagR ++ spR) ++ pr ++ rc bc ++ rc pf ++ (rc spF ++ rc tagF ++ fL) := by
    simp [builtRead, List.append_assoc]
  have hbt : beginTag ((fR ++ tagR ++ spR) ++ pr ++ rc bc ++ rc pf ++ (rc spF ++ rc tagF ++ fL))
      mk.rside ((fR ++ tagR ++ spR).length : Int) = .ok tagR := by
    have := beginTag_built fR tagR spR (pr ++ rc bc ++ rc pf ++ (rc spF ++ rc tagF ++ fL))
      mk.rside hR'
    simp only [List.length_append, Int.natCast_add]
    simpa only [List.append_assoc] using this
  have het : endTag ((fR ++ tagR ++ spR) ++ pr ++ rc bc ++ rc pf ++ (rc spF ++ rc tagF ++ fL))
      mk.fside (((fR ++ tagR ++ spR).length : Int) + pr.length + (rc bc).length + pf.length)
      = .ok tagF := by
    have := endTag_built ((fR ++ tagR ++ spR) ++ pr ++ rc bc ++ rc pf) spF tagF fL mk.fside
      htfA hF'
    simp only [List.length_append, Int.natCast_add, rc_length] at this ⊢
    simpa only [List.append_assoc] using this
  have := built_core_rc ms n n' mk (fR ++ tagR ++ spR) pf (rc bc) pr (rc spF ++ rc tagF ++ fL)
    tagF tagR k1 k2 hms hpf (by rw [rc_length]; exact hbc) hpr hpfA hbt het
  rw [hrd]
  simp only [List.length_append, Int.natCast_add, rc_length, rc_rc bc hbcA, hfRl] at this
  exact this

/-- **Strand symmetry for built reads, fixed-length or delimited tags** (generalises
`strand_symmetry`) -/
theorem strand_symmetry_any_tags (ms : List Marker) (n n' : Nat) (mk : Marker) (s : Sample)
    (flankL tagF spF pf bc pr spR tagR flankR : Bytes) (k1 k2 : Int)
    (hms : ms[n]? = some mk)
    (hF : SideBuilt mk.fside tagF spF flankL.getLast?)
    (hR : SideBuilt mk.rside tagR spR (flankR.head?.map nucComplement))
    (hpf : 0 < pf.length) (hbc : 0 < bc.length) (hpr : 0 < pr.length)
    (halpha : ∀ b ∈ tagF ++ pf ++ bc ++ pr ++ spR ++ tagR, b ∈ alphabet)
    (hdecl : lookupPair mk.samples tagF tagR = some s) :
    let read := builtRead flankL tagF spF pf bc pr spR tagR flankR
    let L : Int := read.length
    let b1 : Int := (flankL.length : Int) + tagF.length + spF.length
    let e1 : Int := b1 + pf.length
    let b2 : Int := e1 + bc.length
    let e2 : Int := b2 + pr.length
    ∃ a : Amplicon,
      amplicons ms read (builtHits n n' b1 e1 b2 e2 k1 k2) = .ok [a] ∧
      amplicons ms (rc read) (builtHitsRc n n' (L - e2) (L - b2) (L - e1) (L - b1) k1 k2)
        = .ok [{ a with forward := false, subFrom := L - a.subTo, subTo := L - a.subFrom }] ∧
      a.forward = true ∧ a.barcode = bc ∧ a.ident.pcr = some s := by
  intro read L b1 e1 b2 e2
  have h1 := constructed_read_any_tags ms n n' mk s flankL tagF spF pf bc pr spR tagR flankR k1 k2 hms
    hF hR hpf hbc hpr (fun b hb => halpha b (by
      simp only [List.mem_append] at hb ⊢; rcases hb with hb | hb <;> simp [hb])) hdecl
  have h2 := constructed_read_rc_any_tags ms n n' mk flankL tagF spF pf bc pr spR tagR flankR k1 k2 hms
    hF hR hpf hbc hpr (fun b hb => halpha b (by
      simp only [List.mem_append] at hb ⊢; rcases hb with (hb | hb) | hb <;> simp [hb]))
  have hrc := rc_builtRead flankL tagF spF pf bc pr spR tagR flankR (fun b hb => halpha b (by
      simp only [List.mem_append] at hb ⊢; rcases hb with (hb | hb) | hb <;> simp [hb]))
  have hlen : L = (flankL.length : Int) + tagF.length + spF.length + pf.length + bc.length + pr.length +
        spR.length + tagR.length + flankR.length := by
    simp only [L, read, builtRead, List.length_append, rc_length, Int.natCast_add]
  refine ⟨_, h1.1, ?_, rfl, rfl, h1.2⟩
  simp only at h2 ⊢
  rw [hrc]
  have e1' : L - e2 = (flankR.length : Int) + tagR.length + spR.length := by
    simp only [hlen, e2, b2, e1, b1]; omega
  have e2' : L - b2 = (flankR.length : Int) + tagR.length + spR.length + pr.length := by
    simp only [hlen, b2, e1, b1]; omega
  have e3' : L - e1 = (flankR.length : Int) + tagR.length + spR.length + pr.length + bc.length := by
    simp only [hlen, e1, b1]; omega
  have e4' : L - b1 = (flankR.length : Int) + tagR.length + spR.length + pr.length + bc.length + pf.length := by
    simp only [hlen, b1]; omega
  rw [e1', e2', e3', e4']
  exact h2

/-- … and the precise limit of that symmetry outside built reads: the begin-side window is
`2·(2·spacer+tag)` wide, the end-side window `2·(spacer+tag)`.  With spacer 1 and tags of length 3
(widths 10 and 8), a tag `ccc` separated from the primer by the delimiter and four more bases
(`a ccc a gggg | primer`, 9 bases up to the delimiter before the tag) is found before the primer and
missed after it: the same molecule read on the other strand loses its tag (the read is then not
assigned — safety is not affected, symmetry is).  Not a built read: the declared spacer is not
respected. -/
theorem delimited_window_asymmetry :
    -- site = tt a ccc a gggg, primer = ctct, side = ⟨tag length 3, spacer 1, delimiter a, no rescue⟩
    (beginTag ([116, 116, 97, 99, 99, 99, 97, 103, 103, 103, 103] ++ [99, 116, 99, 116]) ⟨3, 1, 97, 0⟩ 11).toOption
      = some [99, 99, 99] ∧
    (endTag (rc [99, 116, 99, 116] ++ rc [116, 116, 97, 99, 99, 99, 97, 103, 103, 103, 103]) ⟨3, 1, 97, 0⟩ 4).toOption
      = some [] := by
  decide

/-! ## chimeric reads: which hits delimit a barcode, on either strand -/

/-- the forward → reverse state machine of `ExtractMultiBarcode` extracts exactly the pairs made of
a forward(+) hit **immediately followed**, in the list sorted by position, by the complementary hit
of the same marker with the same orientation flag — for any number of amplicons, partial sites and
hits of other markers in between -/
theorem machine_selects_adjacent_pairs (markers : List Marker) (seq : Bytes) (l : List PrimerMatch) :
    machine markers seq none l = runPairs markers seq (adjPairs l) :=
  machine_pairs markers seq l

/-- … and that selection is strand-symmetric: on the mirrored hit list (the hits of the
reverse-complemented read of length `L`, in the opposite order) the state machine processes the
mirrored pairs, last one first.  (What each pair yields — barcode, matches, tags — is proved
symmetric for built reads in `strand_symmetry`; for arbitrary chimeras it is checked by the
symmetry oracle of the harness.) -/
theorem pairing_strand_symmetric (markers : List Marker) (seq' : Bytes) (L : Int) (l : List PrimerMatch) :
    machine markers seq' none (mirrorList L l)
      = runPairs markers seq' (((adjPairs l).map (mirrorPair L)).reverse) := by
  rw [machine_pairs, adjPairs_mirror]

/-- test: F₁ F₂ CR₂ R₃ CF₃ CR₁ — only (F₂,CR₂) and (R₃,CF₃) are adjacent pairs -/
example : (adjPairs [⟨0, 5, 0, 1, true⟩, ⟨10, 15, 0, 2, true⟩, ⟨30, 35, 0, -2, true⟩,
    ⟨40, 45, 0, 3, false⟩, ⟨60, 65, 0, -3, false⟩, ⟨70, 75, 0, -1, true⟩]).map (fun p => (p.1.begin, p.2.begin))
    = [(10, 30), (40, 60)] := by decide

/-- … but the *collection* of the hits is not strand-symmetric in the code: the hits of the
complemented reverse primer are only collected when the forward primer hits somewhere (and after
its first hit).  Failing input found on the real code (one marker, three lone sites F@21 … R@85 …
CR@246 in a read of 288 bases): on the read the R hit separates F from CR and nothing is extracted;
on the reverse complement there is no forward hit, the mirrored R hit (a complemented-reverse hit at
181) is dropped, and the mirrored CR/F hits come out as a barcode.  Full statement wanted:
`sortByBegin (collect hits' 1) = mirrorList L (sortByBegin (collect hits 1))` for the hits of the
reverse-complemented read — false, recorded as an open finding (`symmetry-partial`). -/
theorem gating_breaks_symmetry :
    let h : Hits := ⟨[(21, 40, 0)], [(246, 268, 0)], [(85, 107, 0)], []⟩
    let h' : Hits := ⟨[], [(181, 203, 0)], [(20, 42, 0)], [(248, 267, 0)]⟩
    adjPairs (sortByBegin (collect [h] 1)) = [] ∧
    adjPairs (sortByBegin (collect [h'] 1)) = [(⟨20, 42, 0, 1, false⟩, ⟨248, 267, 0, -1, false⟩)] ∧
    sortByBegin (collect [h'] 1) ≠ mirrorList 288 (sortByBegin (collect [h] 1)) := by
  decide

/-! ## the sample sheet as read (model of `ReadNGSFilter`, `Model/NgsFilter.lean`) -/

/-- the `@param` lines of a CSV sheet — whatever their number, order, names, arities and values —
only write parameters: the primers of the markers and their tag pair → sample tables are those of
the rows -/
theorem params_touch_parameters_only (lib l : NgsFilter.Lib) (ps : List (List String))
    (h : NgsFilter.applyParams lib ps = .ok l) :
    l.map (fun m => (m.fp, m.rp, m.samples)) = lib.map (fun m => (m.fp, m.rp, m.samples)) :=
  NgsFilter.applyParams_key lib l ps h

/-- a sheet accepted by the reader, in either format: no primer is used twice (also after the
`@param` lines have been applied) and `CheckTagLength` holds for every marker -/
theorem accepted_sheet_wellformed (lib : NgsFilter.Lib)
    (h : (∃ recs, NgsFilter.readSheetCsv recs = .ok lib) ∨ (∃ lines, NgsFilter.readSheetOld lines = .ok lib)) :
    NgsFilter.unicity lib = true ∧ ∀ m ∈ lib, ∃ mk, NgsFilter.toMarker m = some mk := by
  have key : NgsFilter.unicity lib = true ∧ NgsFilter.tagLengthsOk lib = true := by
    rcases h with ⟨recs, h⟩ | ⟨lines, h⟩
    · exact NgsFilter.readSheetCsv_wf recs lib h
    · exact NgsFilter.readSheetOld_wf lines lib h
  refine ⟨key.1, ?_⟩
  intro m hm
  have := List.all_eq_true.1 key.2 m hm
  unfold NgsFilter.toMarker
  cases hc : checkTagLength m.samples with
  | none => simp [hc] at this
  | some p => exact ⟨_, rfl⟩

/-- **Safety for every accepted sheet**: the hypotheses of `never_wrong_sample` are discharged for
the markers of a sheet accepted by the reader — whatever the read, the primer hits and the way the
tags are extracted (fixed, delimited or rescue), a sample is returned only if the extracted tags
identify it under the declared mode -/
theorem accepted_sheet_never_wrong_sample (m : NgsFilter.LMarker) (mk : Marker)
    (hmk : NgsFilter.toMarker m = some mk)
    (seq : Bytes) (b e : Int) (fwd : Bool) (ft rt : Bytes)
    (hx : tagExtractor mk seq b e fwd = .ok (ft, rt)) (s : Sample)
    (h : (identify mk ft rt).pcr = some s) :
    s ∈ mk.samples ∧
    (if ft = [] then s.ftag = [] ∧ (identify mk ft rt).fprop = none
      else Identifies mk.fmode (mk.samples.map (·.ftag)) ft s.ftag ∧
        ∃ d, (identify mk ft rt).fprop = some (s.ftag, d)) ∧
    (if rt = [] then s.rtag = [] ∧ (identify mk ft rt).rprop = none
      else Identifies mk.rmode (mk.samples.map (·.rtag)) rt s.rtag ∧
        ∃ d, (identify mk ft rt).rprop = some (s.rtag, d)) := by
  unfold NgsFilter.toMarker at hmk
  cases hc : checkTagLength m.samples with
  | none => simp [hc] at hmk
  | some p =>
    simp only [hc, Option.map_some, Option.some.injEq] at hmk
    subst hmk
    obtain ⟨w1, w2, _⟩ := wf_tags_nonempty m.samples p.1 p.2 hc
    obtain ⟨u1, u2⟩ := tagExtractor_untagged _ seq b e fwd ft rt hx
    refine never_wrong_sample _ ft rt s ?_ ?_ h
    · intro hft
      apply w1
      intro h0
      exact hft (u1 (by simp [h0]))
    · intro hrt
      apply w2
      intro h0
      exact hrt (u2 (by simp [h0]))

/-- the hypothesis `toMarker m = some mk` is satisfiable (test) -/
def exLMarker : NgsFilter.LMarker :=
  { fp := "acgt", rp := "ttga"
    samples := [⟨[97, 99], [103, 116], "s1", "e", []⟩, ⟨[97, 97], [103, 116], "s2", "e", []⟩] }

example : (NgsFilter.toMarker exLMarker).isSome = true := by decide

/-! ## otherwise flagged with an error -/

theorem mem_set_self (an : Annots) (k v : String) : (k, v) ∈ an.set k v := by
  unfold Annots.set
  split
  · rename_i h
    obtain ⟨p, hp, hk⟩ := List.any_eq_true.1 h
    apply List.mem_map.2
    refine ⟨p, hp, ?_⟩
    simp only [beq_iff_eq] at hk
    simp [hk]
  · simp

/-- an amplicon whose tags identify no sample carries the annotation `obimultiplex_error`, and a
read without amplicon is returned flagged `No barcode identified` -/
theorem unassigned_is_flagged (mk : Marker) (a : Amplicon) (h : a.ident.pcr = none) :
    ∃ v, ("obimultiplex_error", v) ∈ annotsOf mk a := by
  unfold annotsOf
  simp only [h]
  exact ⟨_, mem_set_self _ _ _⟩

theorem no_amplicon_is_flagged (ms : List Marker) (id : String) (seq : Bytes) (hits : List Hits)
    (h : amplicons ms seq hits = .ok []) :
    extractMultiBarcode ms id seq hits = .ok [⟨id, seq, [("obimultiplex_error", "No barcode identified")]⟩] := by
  simp [extractMultiBarcode, h, bind, Except.bind, pure, Except.pure]

/-! ## rescue extraction (tag delimiter + tag indels) -/

/-- `lookForRescueTag` on the layout `… o d^sp T d^sp` (`o ≠ d`, the tag `T` free of the delimiter,
its length within `ind` of the declared length `tl`, `ind ≤ tl`): the observed tag is returned,
whatever precedes `o` -/
theorem rescue_scanner_layout (X T : Bytes) (o d : UInt8) (sp : Nat) (tl ind : Int)
    (hsp : 0 < sp) (hT : T ≠ []) (hd : d ∉ T) (ho : o ≠ d) (hind : 0 ≤ ind) (hit : ind ≤ tl)
    (ha : (T.length : Int) - tl ≤ ind) (hb : tl - (T.length : Int) ≤ ind) :
    lookForRescueTag (X ++ [o] ++ List.replicate sp d ++ T ++ List.replicate sp d) d tl (sp : Int) ind
      = .ok T :=
  lookForRescueTag_layout X T o d sp tl ind hsp hT hd ho hind hit ha hb

/-- **Built reads with rescue extraction** (generalises `constructed_read_any_tags`): each side of
the marker is fixed-length, delimited (`SideBuilt`) or **rescue** (`SideRescue`: `0 < indels <
tag length`, the observed tag — possibly with insertions / deletions, length within `indels` of the
declared one — sits between two borders of `spacer` delimiters, the outer border being preceded by
a base that is not the delimiter).  Exactly one amplicon comes out, with the barcode, the primer
matches and the OBSERVED tags; its identification is `identify mk tagF tagR` (nearest unique
declared tag under the declared mode: `never_wrong_sample` applies to it). -/
theorem constructed_read_rescue (ms : List Marker) (n n' : Nat) (mk : Marker)
    (flankL tagF spF pf bc pr spR tagR flankR : Bytes) (k1 k2 : Int)
    (hms : ms[n]? = some mk)
    (hF : SideBuilt mk.fside tagF spF flankL.getLast? ∨ SideRescue mk.fside tagF spF flankL)
    (hR : SideBuilt mk.rside tagR spR (rc flankR).getLast? ∨ SideRescue mk.rside tagR spR (rc flankR))
    (hpf : 0 < pf.length) (hbc : 0 < bc.length) (hpr : 0 < pr.length)
    (halpha : ∀ b ∈ pr ++ tagR, b ∈ alphabet) :
    let b1 : Int := (flankL.length : Int) + tagF.length + spF.length
    let e1 : Int := b1 + pf.length
    let b2 : Int := e1 + bc.length
    let e2 : Int := b2 + pr.length
    amplicons ms (builtRead flankL tagF spF pf bc pr spR tagR flankR) (builtHits n n' b1 e1 b2 e2 k1 k2)
      = .ok [{ marker := n + 1, forward := true, subFrom := e1, subTo := b2, barcode := bc,
               fmatch := pf, rmatch := pr, ferr := k1, rerr := k2, ftag := tagF, rtag := tagR,
               ident := identify mk tagF tagR }] := by
  intro b1 e1 b2 e2
  have := Demux.constructed_read_rescue ms n n' mk flankL tagF spF pf bc pr spR tagR flankR k1 k2 hms
    hF hR hpf hbc hpr halpha
  have hrd : builtRead flankL tagF spF pf bc pr spR tagR flankR =
      (flankL ++ tagF ++ spF) ++ pf ++ bc ++ rc pr ++ (rc spR ++ rc tagR ++ flankR) := by
    simp [builtRead, List.append_assoc]
  rw [hrd]
  exact this

/-- the reverse-complemented built read, rescue extraction allowed on either side -/
theorem constructed_read_rc_rescue (ms : List Marker) (n n' : Nat) (mk : Marker)
    (flankL tagF spF pf bc pr spR tagR flankR : Bytes) (k1 k2 : Int)
    (hms : ms[n]? = some mk)
    (hF : SideBuilt mk.fside tagF spF flankL.getLast? ∨ SideRescue mk.fside tagF spF flankL)
    (hR : SideBuilt mk.rside tagR spR (rc flankR).getLast? ∨ SideRescue mk.rside tagR spR (rc flankR))
    (hpf : 0 < pf.length) (hbc : 0 < bc.length) (hpr : 0 < pr.length)
    (halpha : ∀ b ∈ flankL ++ tagF ++ pf ++ bc, b ∈ alphabet) :
    let b1 : Int := (flankR.length : Int) + tagR.length + spR.length
    let e1 : Int := b1 + pr.length
    let b2 : Int := e1 + bc.length
    let e2 : Int := b2 + pf.length
    amplicons ms (builtRead (rc flankR) tagR spR pr (rc bc) pf spF tagF (rc flankL))
        (builtHitsRc n n' b1 e1 b2 e2 k1 k2)
      = .ok [{ marker := n + 1, forward := false, subFrom := e1, subTo := b2, barcode := bc,
               fmatch := pf, rmatch := pr, ferr := k1, rerr := k2, ftag := tagF, rtag := tagR,
               ident := identify mk tagF tagR }] := by
  intro b1 e1 b2 e2
  have := Demux.constructed_read_rc_rescue ms n n' mk flankL tagF spF pf bc pr spR tagR flankR k1 k2 hms
    hF hR hpf hbc hpr halpha
  have hrd : builtRead (rc flankR) tagR spR pr (rc bc) pf spF tagF (rc flankL) =
      (rc flankR ++ tagR ++ spR) ++ pr ++ rc bc ++ rc pf ++ (rc spF ++ rc tagF ++ rc flankL) := by
    simp [builtRead, List.append_assoc]
  rw [hrd]
  exact this

/-- **Strand symmetry with rescue extraction**: both rescue extractors look into windows of the same
width `2·(spacer + tag length)` on their side of the amplicon, so — unlike the plain delimited
extractors (`delimited_window_asymmetry`) — nothing distinguishes the two strands: the read and its
reverse complement (mirrored hits) yield the same amplicon, observed tags and identification
included, direction flipped.  In particular the sample, or the error flag, is the same. -/
theorem strand_symmetry_rescue (ms : List Marker) (n n' : Nat) (mk : Marker)
    (flankL tagF spF pf bc pr spR tagR flankR : Bytes) (k1 k2 : Int)
    (hms : ms[n]? = some mk)
    (hF : SideBuilt mk.fside tagF spF flankL.getLast? ∨ SideRescue mk.fside tagF spF flankL)
    (hR : SideBuilt mk.rside tagR spR (rc flankR).getLast? ∨ SideRescue mk.rside tagR spR (rc flankR))
    (hpf : 0 < pf.length) (hbc : 0 < bc.length) (hpr : 0 < pr.length)
    (halpha : ∀ b ∈ flankL ++ tagF ++ pf ++ bc ++ pr ++ spR ++ tagR, b ∈ alphabet) :
    let read := builtRead flankL tagF spF pf bc pr spR tagR flankR
    let L : Int := read.length
    let b1 : Int := (flankL.length : Int) + tagF.length + spF.length
    let e1 : Int := b1 + pf.length
    let b2 : Int := e1 + bc.length
    let e2 : Int := b2 + pr.length
    ∃ a : Amplicon,
      amplicons ms read (builtHits n n' b1 e1 b2 e2 k1 k2) = .ok [a] ∧
      amplicons ms (rc read) (builtHitsRc n n' (L - e2) (L - b2) (L - e1) (L - b1) k1 k2)
        = .ok [{ a with forward := false, subFrom := L - a.subTo, subTo := L - a.subFrom }] ∧
      a.forward = true ∧ a.barcode = bc ∧ a.ftag = tagF ∧ a.rtag = tagR ∧
      a.ident = identify mk tagF tagR := by
  intro read L b1 e1 b2 e2
  have h1 := constructed_read_rescue ms n n' mk flankL tagF spF pf bc pr spR tagR flankR k1 k2 hms
    hF hR hpf hbc hpr (fun b hb => halpha b (by
      simp only [List.mem_append] at hb ⊢; rcases hb with hb | hb <;> simp [hb]))
  have h2 := constructed_read_rc_rescue ms n n' mk flankL tagF spF pf bc pr spR tagR flankR k1 k2 hms
    hF hR hpf hbc hpr (fun b hb => halpha b (by
      simp only [List.mem_append] at hb ⊢; rcases hb with ((hb | hb) | hb) | hb <;> simp [hb]))
  have hrc := rc_builtRead flankL tagF spF pf bc pr spR tagR flankR (fun b hb => halpha b (by
      simp only [List.mem_append] at hb ⊢; rcases hb with (hb | hb) | hb <;> simp [hb]))
  have hlen : L = (flankL.length : Int) + tagF.length + spF.length + pf.length + bc.length + pr.length +
        spR.length + tagR.length + flankR.length := by
    simp only [L, read, builtRead, List.length_append, rc_length, Int.natCast_add]
  refine ⟨_, h1, ?_, rfl, rfl, rfl, rfl, rfl⟩
  simp only at h2 ⊢
  rw [hrc]
  have e1' : L - e2 = (flankR.length : Int) + tagR.length + spR.length := by
    simp only [hlen, e2, b2, e1, b1]; omega
  have e2' : L - b2 = (flankR.length : Int) + tagR.length + spR.length + pr.length := by
    simp only [hlen, b2, e1, b1]; omega
  have e3' : L - e1 = (flankR.length : Int) + tagR.length + spR.length + pr.length + bc.length := by
    simp only [hlen, e1, b1]; omega
  have e4' : L - b1 = (flankR.length : Int) + tagR.length + spR.length + pr.length + bc.length + pf.length := by
    simp only [hlen, b1]; omega
  rw [e1', e2', e3', e4']
  exact h2

/-- the hypotheses are satisfiable: both sides rescue (delimiter `a`, border 2, one indel), forward
tag read with an insertion (`cggt` for `cgt`), reverse tag with a deletion (`g` for `gt`) -/
example := strand_symmetry_rescue [exRescueMarker] 0 0 exRescueMarker
  [116, 97, 97] [99, 103, 103, 116] [97, 97] [97, 99, 103, 116] [99, 99, 99] [116, 116, 103, 97]
  [97, 97] [103] [116, 116, 103] 0 1
  rfl (Or.inr (by refine ⟨by decide, by decide, by decide, rfl, by decide, by decide, by decide,
    by decide, by decide, by decide, [], 116, rfl, by decide⟩))
  (Or.inr (by refine ⟨by decide, by decide, by decide, rfl, by decide, by decide, by decide,
    by decide, by decide, by decide, [], 99, by decide, by decide⟩))
  (by decide) (by decide) (by decide) (by decide)

/-- **Limits of the rescue (exact counterexamples, both strands alike).**  The scanner needs one
base before the outer border: when the read starts with the border (`a ccc a`, tag length 3,
border 1, one indel) the tag is lost, with one more base it is found; and an outer run of delimiters
longer than the border is counted as part of the tag (`t aa ccc a` gives `accc`). -/
theorem rescue_limits :
    (lookForRescueTag [97, 99, 99, 99, 97] 97 3 1 1 = .ok [] ∧
     lookForRescueTag [116, 97, 99, 99, 99, 97] 97 3 1 1 = .ok [99, 99, 99]) ∧
    lookForRescueTag [116, 97, 97, 99, 99, 99, 97] 97 3 1 1 = .ok [97, 99, 99, 99] :=
  ⟨rescue_needs_outer_base, rescue_long_border_joins_tag⟩

/-! ## strand symmetry beyond built reads: the class of hit lists on which it holds -/

/-- **The symmetric class.**  `hs` = ALL the hits of the four patterns of every marker on a read of
length `L` (`mirrorHits L` = the hits on its reverse complement).  If the gating of the two
complemented searches drops nothing on either strand (`Ungated`: every complemented-reverse hit
starts after the first forward hit, every complemented-forward hit after the first reverse hit —
on both strands) and the hits are `Separated` (no two hits start or end at the same position, none
is nested in another), then the sorted hit list of the reverse complement is the mirror image of the
sorted hit list of the read, and the state machine extracts the mirrored pairs in the opposite
order (what each pair yields is `pairing_strand_symmetric` / `emit`). -/
theorem symmetric_class (L : Int) (hs : List Hits) (markers : List Marker) (seq' : Bytes)
    (h1 : ∀ h ∈ hs, Ungated h) (h2 : ∀ h ∈ hs, Ungated (mirrorHits L h))
    (sep : Separated (collect hs 1)) :
    sortByBegin (collect (hs.map (mirrorHits L)) 1) = mirrorList L (sortByBegin (collect hs 1)) ∧
    machine markers seq' none (sortByBegin (collect (hs.map (mirrorHits L)) 1)) =
      runPairs markers seq' (((adjPairs (sortByBegin (collect hs 1))).map (mirrorPair L)).reverse) :=
  ⟨collect_symmetric L hs h1 h2 sep, machine_symmetric L hs markers seq' h1 h2 sep⟩

/-- **… and the known gating finding is exactly its complement**: for separated hits, the hit
lists collected by `ExtractMultiBarcode` on the two strands (`gate` = what the gated searches
return) are mirror images of each other **iff** the gating drops nothing on either strand.  A hit
dropped on one strand is always collected on the other one (the mirror image of a complemented hit
is a plain forward / reverse hit, never gated), hence the asymmetry of `gating_breaks_symmetry`. -/
theorem symmetric_iff_ungated (L : Int) (hs : List Hits)
    (sep : Separated (collect (hs.map gate) 1)) :
    sortByBegin (collect ((hs.map (mirrorHits L)).map gate) 1) =
        mirrorList L (sortByBegin (collect (hs.map gate) 1)) ↔
      (∀ h ∈ hs, Ungated h) ∧ (∀ h ∈ hs, Ungated (mirrorHits L h)) :=
  collect_symmetric_iff L hs sep

/-- without the separation hypothesis the "only if" part still holds, even as multisets -/
theorem gated_hits_break_mirror (L : Int) (hs : List Hits)
    (p : (collect ((hs.map (mirrorHits L)).map gate) 1).Perm
      ((collect (hs.map gate) 1).map (mirrorMatch L))) :
    (∀ h ∈ hs, Ungated h) ∧ (∀ h ∈ hs, Ungated (mirrorHits L h)) :=
  collect_asymmetric_of_gated L hs p

/-- the read of the known finding lies outside the class: its hits are ungated on the read, gated on
the reverse complement (no forward hit there: the complemented-reverse hit is dropped) -/
theorem known_finding_is_gated :
    let h : Hits := ⟨[(21, 40, 0)], [(246, 268, 0)], [(85, 107, 0)], []⟩
    Ungated h ∧ (gate (mirrorHits 288 h)).cr = [] ∧ (mirrorHits 288 h).cr ≠ [] ∧
      ¬ Ungated (mirrorHits 288 h) := by
  refine ⟨?_, ?_, ?_, ?_⟩
  · rw [ungated_iff]; decide
  · decide
  · decide
  · rw [ungated_iff]; decide

/-- non-vacuity of `symmetric_class` (test) -/
example : sortByBegin (collect ([(⟨[(5, 9, 0)], [(20, 24, 1)], [], []⟩ : Hits)].map (mirrorHits 30)) 1) =
    mirrorList 30 (sortByBegin (collect [⟨[(5, 9, 0)], [(20, 24, 1)], [], []⟩] 1)) := by decide

/-! ## the exact barcode and the full annotation set -/

/-- **Every amplicon returned is read off the read at an adjacent pair of hits**: for any read and
any hits, each amplicon comes from a forward(+) hit `f` immediately followed by its complementary
hit `m`; the barcode is exactly the sequence strictly between the two primer matches
(`Subsequence(f.End, m.Begin)`, reverse-complemented when the pair is in reverse orientation — the
primers and the tags are never part of it), the two matches are the read at the hits, the error
counts are those of the hits, the tags are what `TagExtractor` cuts at `f.Begin` / `m.End` and the
identification is `SampleIdentifier` on them. -/
theorem amplicon_is_exact (ms : List Marker) (seq : Bytes) (hits : List Hits) (as : List Amplicon)
    (h : amplicons ms seq hits = .ok as) (a : Amplicon) (ha : a ∈ as) :
    ∃ f m, (f, m) ∈ adjPairs (sortByBegin (collect hits 1)) ∧ isPair f m = true ∧
      EmitSpec ms seq f m a := by
  unfold amplicons at h
  rw [machine_pairs] at h
  obtain ⟨p, hp, he⟩ := runPairs_mem ms seq _ as h a ha
  exact ⟨p.1, p.2, hp, (adjPairs_isPair _ p hp).1, emit_spec ms seq p.1 p.2 a he⟩

/-- **The full annotation set** written on an amplicon, in blocks: the two primers, the two primer
matches and their error counts, the extracted tags (only those that are not empty), the direction,
per tagged side the matching mode / distance / proposed tag, then either `obimultiplex_error`
with its text, or `sample`, `experiment` and the annotation columns of the sheet.  (The rank
`obimultiplex_amplicon_rank = i/n` is added by `rankAll`.) -/
theorem annotation_set (mk : Marker) (a : Amplicon) :
    annotsOf mk a =
      match a.ident.pcr with
      | none => baseAnnots mk a ++ [("obimultiplex_error",
          "Cannot associate sample to the tag pair (" ++ str (proposedOf a.ident.fprop) ++ ":" ++
            str (proposedOf a.ident.rprop) ++ ")")]
      | some s => s.annots.foldl (fun acc kv => acc.set kv.1 kv.2)
          (baseAnnots mk a ++ [("sample", s.name), ("experiment", s.experiment)]) :=
  annotsOf_blocks mk a

/-- test: the annotation list of the amplicon of `exMarker`'s built read -/
example : annotsOf exMarker
    { marker := 1, forward := true, subFrom := 9, subTo := 12, barcode := [99, 99, 99],
      fmatch := [97, 99, 103, 116], rmatch := [116, 116, 103, 97], ferr := 0, rerr := 1, ftag := [97, 99],
      rtag := [103, 116], ident := identify exMarker [97, 99] [103, 116] } =
  [("obimultiplex_forward_primer", "acgt"), ("obimultiplex_reverse_primer", "ttga"),
   ("obimultiplex_forward_match", "acgt"), ("obimultiplex_reverse_match", "ttga"),
   ("obimultiplex_forward_error", "0"), ("obimultiplex_reverse_error", "1"),
   ("obimultiplex_forward_tag", "ac"), ("obimultiplex_reverse_tag", "gt"),
   ("obimultiplex_direction", "forward"),
   ("obimultiplex_forward_matching", "hamming"), ("obimultiplex_forward_tag_dist", "0"),
   ("obimultiplex_forward_proposed_tag", "ac"),
   ("obimultiplex_reverse_matching", "strict"), ("obimultiplex_reverse_tag_dist", "0"),
   ("obimultiplex_reverse_proposed_tag", "gt"), ("sample", "s1"), ("experiment", "e")] := by decide

/-! ## obimultiplex: what is written where (`--keep-errors`, `-u`) -/

/-- a record of the worker carries the attribute `obimultiplex_error` iff it is the read without
amplicon or an amplicon whose tags identify no sample (the sheet defining no annotation column of
that name) -/
theorem record_error_flag (ms : List Marker) (id : String) (seq : Bytes) (hits : List Hits)
    (rs : List Record) (h : extractMultiBarcode ms id seq hits = .ok rs) (r : Record) (hr : r ∈ rs) :
    (amplicons ms seq hits = .ok [] ∧ r.hasError = true ∧ r.seq = seq) ∨
    ∃ as a, amplicons ms seq hits = .ok as ∧ a ∈ as ∧ r.seq = a.barcode ∧
      (NoErrorKey a → r.hasError = a.ident.pcr.isNone) := by
  unfold extractMultiBarcode at h
  cases ha : amplicons ms seq hits with
  | error e => simp [ha, bind, Except.bind] at h
  | ok as =>
    simp only [ha, bind, Except.bind, pure, Except.pure] at h
    by_cases he : as.isEmpty
    · simp only [he, if_true] at h
      injection h with h
      subst h
      simp only [List.mem_singleton] at hr
      subst hr
      left
      exact ⟨by rw [List.isEmpty_iff.1 he], by simp [Record.hasError], rfl⟩
    · simp only [he] at h
      injection h with h
      subst h
      obtain ⟨a, haa, h1, h2⟩ := rankAll_mem id ms as.length 0 as r hr
      right
      refine ⟨as, a, rfl, haa, h1, ?_⟩
      intro hk
      have hx := ha
      unfold amplicons at hx
      rw [machine_pairs] at hx
      obtain ⟨p, _, hpe⟩ := runPairs_mem ms seq _ as hx a haa
      have sp := emit_spec ms seq p.1 p.2 a hpe
      obtain ⟨mk, hmk, _, _⟩ := sp.tags
      rw [← sp.marker] at hmk
      exact h2 mk hmk hk

/-- **Default output (neither `--keep-errors` nor `-u`) and main output with `-u`**: only records
without error flag, i.e. only amplicons to which `SampleIdentifier` gave a sample (the safety
theorems `never_wrong_sample` / `accepted_sheet_never_wrong_sample` say what that means), the
sequence written being exactly the barcode of `amplicon_is_exact`; reads without amplicon and
unassigned amplicons are not written there. -/
theorem main_output_is_assigned (ms : List Marker) (keep : Bool) (id : String) (seq : Bytes) (hits : List Hits)
    (rs : List Record) (h : extractMultiBarcode ms id seq hits = .ok rs) (r : Record)
    (hr : r ∈ (route keep true rs).out ∨ r ∈ (route false false rs).out) :
    ∃ as a, amplicons ms seq hits = .ok as ∧ a ∈ as ∧ r.seq = a.barcode ∧
      (NoErrorKey a → ∃ s, a.ident.pcr = some s) := by
  have hne := route_out_no_error keep rs r hr
  have hmem : r ∈ rs := by
    rcases hr with hr | hr <;> simp [route, List.mem_filter] at hr <;> exact hr.1
  rcases record_error_flag ms id seq hits rs h r hmem with ⟨_, he, _⟩ | ⟨as, a, h1, h2, h3, h4⟩
  · rw [hne] at he; cases he
  · refine ⟨as, a, h1, h2, h3, ?_⟩
    intro hk
    have := h4 hk
    rw [hne] at this
    cases hp : a.ident.pcr with
    | none => simp [hp] at this
    | some s => exact ⟨s, rfl⟩

/-- **Nothing is lost**: with `--keep-errors` alone every record of the worker is written to the main
output; with `-u` the records are split between the main output and the file of unidentified reads
(those, and only those, carrying `obimultiplex_error`) -/
theorem routing_is_a_partition (keep : Bool) (recs : List Record) :
    (route true false recs).out = recs ∧
    ∃ us, (route keep true recs).unidentified = some us ∧ (∀ r ∈ us, r.hasError = true) ∧
      ((route keep true recs).out ++ us).Perm recs :=
  ⟨by simp [route], route_partition keep recs⟩

end ObiVerif.Props.C12
