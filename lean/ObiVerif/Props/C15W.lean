import ObiVerif.Props.C15V
import ObiVerif.Model.TagTV
/-!
# C15 — third deepening round (property theorems, continued from `Props/C15V.lean`)
-/
namespace ObiVerif.Props.C15W
open ObiVerif.Tag ObiVerif.Tax ObiVerif.QGram ObiVerif.Kmer ObiVerif.Lcs ObiVerif.Props.C15V

/-! ## 14. round 3 — everything verbatim at once (kernels + text indices + selection loop), both stages of obitag2

`identifyTextV` / `identify2V` (`Model/TagTV.lean`) are what the `dv1|dv2` / `iv3` operations of the driver run: the
real code hands over NOTHING but the candidate orders of its unstable sort. -/

/-- **`Identify` with the verbatim kernels AND the text indices read back by the verbatim selection loop =
`identifyV`** (hence `identify` on `candOf`, `identify_verbatim_refines`); any names and ranks, any taxonomy -/
theorem identifyTextV_refines (t : Taxo) (fuel : Nat) (v : Variant) (nm rk : Nat → Text) (q : Bytes) (refs : Nat → Bytes)
    (taxids : List Nat) (o : List Nat) (ows : Nat → List Nat) (hq : IsACGT q)
    (hr : ∀ i ∈ o, IsACGT (refs i) ∧ q.length + (refs i).length + 1 ≤ 30000)
    (hrr : ∀ b, IsACGT (refs b) ∧ ∀ j ∈ ows b, IsACGT (refs j) ∧ (refs b).length + (refs j).length + 1 ≤ 30000) :
    identifyTextV t fuel v nm rk q refs taxids o ows = identifyV t fuel v q refs taxids o ows := by
  rw [identifyV_refines t fuel v q refs taxids o ows hq hr hrr]
  unfold identifyTextV
  rw [findClosestsV_refines v q refs o hq hr]
  simp only
  rw [← C15.identify_text_refines t fuel _ nm rk taxids (fun b => (refs b).length)
    (fun b j => candOf (refs b) (refs j)) ows]
  congr 1
  funext b
  rw [indexSequenceV_refines t fuel taxids b refs (ows b) (hrr b).1 (hrr b).2]

/-- **the consequence clause of C15 on the transcription closest to the code**: search and indexing with the
verbatim kernels, indices as text, verbatim selection loop — the assigned taxon is an ancestor-or-self of the taxon
of EVERY reference at minimal LCS distance from the query in the whole data base -/
theorem assigned_is_ancestor_of_every_best_text_verbatim {t : Taxo} {depth : Nat → Nat} {fuel : Nat}
    (wf : WF t 1 depth) (hf : FuelOK t fuel) (nm rk : Nat → Text)
    (taxids : List Nat) (htax : ∀ x ∈ taxids, ∃ n, t.node x = some n)
    (v : Variant) (q : Bytes) (refs : Nat → Bytes) (o : List Nat) (ows : Nat → List Nat)
    (hperm : ∀ j, j ∈ o ↔ j < taxids.length)
    (hq : IsACGT q)
    (hr : ∀ j, j < taxids.length → IsACGT (refs j) ∧ q.length + (refs j).length + 1 ≤ 30000)
    (hrr : ∀ b, IsACGT (refs b) ∧ ∀ j ∈ ows b, IsACGT (refs j) ∧ (refs b).length + (refs j).length + 1 ≤ 30000)
    (hs : SortedByCw (fun i => candOf q (refs i)) o) (z bm n : Nat)
    (h : identifyTextV t fuel v nm rk q refs taxids o ows = .ok z bm n) :
    ∀ i ∈ o, (∀ j ∈ o, (candOf q (refs i)).dist ≤ (candOf q (refs j)).dist) → Anc t z (taxids.getD i 0) := by
  rw [identifyTextV_refines t fuel v nm rk q refs taxids o ows hq (fun i hi => hr i ((hperm i).1 hi)) hrr] at h
  exact assigned_is_ancestor_of_every_best_verbatim wf hf taxids htax v q refs o ows hperm hq hr hrr hs z bm n h

/-- (test) `identifyTextV` evaluated: the query `acgtacgtaa` against `acgtacgtac` (taxon 4), `acgtacgtag` (taxon 5)
— both at distance 1 — and `acgtaggtaa` (taxon 3, distance 1 too: all three tied); taxonomy `4,5 → 2 → 1`, `3 → 1`:
the assigned taxon is the root, three best references -/
example : identifyTextV
    { ids := [1, 2, 3, 4, 5],
      node := fun k => match k with
        | 1 => some ⟨1, ""⟩ | 2 => some ⟨1, ""⟩ | 3 => some ⟨1, ""⟩ | 4 => some ⟨2, ""⟩ | 5 => some ⟨2, ""⟩ | _ => none,
      alias := fun _ => none } 6 .tag1 (fun _ => ['s', 'p', '@']) (fun _ => [])
    [97,99,103,116,97,99,103,116,97,97]
    (fun i => match i with
      | 0 => [97,99,103,116,97,99,103,116,97,99]
      | 1 => [97,99,103,116,97,99,103,116,97,103]
      | _ => [97,99,103,116,97,103,103,116,97,97]) [4, 5, 3] [0, 1, 2] (fun _ => [0, 1, 2]) = .ok 1 0 3 := by
  decide +kernel

/-- a reference at minimal distance in its list is one of those `FindClosests` returns -/
theorem best_mem_of_findClosests {v : Variant} {lq : Nat} {c : Nat → Cand} {o : List Nat}
    (hs : SortedByCw c o) (hq : QGramBound lq c o) {m : Nat} {bid : Nat × Nat} {bm : Nat} {idxs : List Nat}
    (h : findClosests v lq c o = .ok m bid bm idxs) {i : Nat} (hi : i ∈ o)
    (hmin : ∀ j ∈ o, (c i).dist ≤ (c j).dist) : i ∈ idxs := by
  have hne : o ≠ [] := by intro e; rw [e] at hi; cases hi
  obtain ⟨m', bid', bm', hfc, hall, j, hj, ej⟩ := findClosests_spec v lq c o hs hq hne
  rw [h] at hfc
  simp only [FCOut.ok.injEq] at hfc
  obtain ⟨em, _, _, eidx⟩ := hfc
  rw [eidx]
  have h1 := hall i hi
  have h2 := hmin j hj
  have hdi : (c i).dist = m' := by omega
  simp [List.mem_filter, hi, hdi]

/-- **both stages of `obitag2.Identify`, every best reference of the list searched last**: all the searches being
`FindClosests` on lists scanned by non-increasing shared 4-mers and satisfying the q-gram bound, the indices being
the text of what `IndexSequence` builds on each list — when the exact-match table has no entry for the query the
assigned taxon is, in the family stage, an ancestor-or-self of the taxon of EVERY member of the family at minimal
distance within the family, and in the cluster stage the root (identity < 0.5) or an ancestor-or-self of the taxon of
EVERY cluster head at minimal distance among the cluster heads.  (Not claimed: anything about references outside the
list searched last — `identify2_two_stage_is_heuristic`.) -/
theorem identify2_every_best_of_last_search {t : Taxo} {depth : Nat → Nat} {fuel : Nat}
    (wf : WF t 1 depth) (hf : FuelOK t fuel) (nm rk : Nat → Text) (lq : Nat)
    (cC : Nat → Cand) (oC : List Nat) (taxC : List Nat) (lensC : Nat → Nat) (csC : Nat → Nat → Cand)
    (owsC : Nat → List Nat)
    (present : Nat → Bool) (cF : Nat → Nat → Cand) (oF : Nat → List Nat)
    (taxF : Nat → List Nat) (lensF : Nat → Nat → Nat) (csF : Nat → Nat → Nat → Cand) (owsF : Nat → Nat → List Nat)
    (hsC : SortedByCw cC oC) (hqC : QGramBound lq cC oC)
    (hsF : ∀ f, SortedByCw (cF f) (oF f)) (hqF : ∀ f, QGramBound lq (cF f) (oF f))
    (z bm w : Nat) (stage : Id2Stage)
    (h : identify2 (selectText t) t fuel none (findClosests .tag2 lq cC oC)
      (fun b => (indexSequence t fuel taxC b (lensC b) (csC b) (owsC b)).map (textIndex nm rk))
      (fun f => if present f then some (findClosests .tag2 lq (cF f) (oF f), fun b =>
        (indexSequence t fuel (taxF f) b (lensF f b) (csF f b) (owsF f b)).map (textIndex nm rk)) else none)
        = .ok z bm w stage) :
    (∃ f, stage = .family f ∧ present f = true ∧
        ∀ i ∈ oF f, (∀ j ∈ oF f, (cF f i).dist ≤ (cF f j).dist) → Anc t z ((taxF f).getD i 0)) ∨
    (stage = .clusters ∧
        (z = 1 ∨ ∀ i ∈ oC, (∀ j ∈ oC, (cC i).dist ≤ (cC j).dist) → Anc t z (taxC.getD i 0))) := by
  have hfam : ∀ f fcF indexF,
      (if present f then some (findClosests .tag2 lq (cF f) (oF f), fun b =>
        (indexSequence t fuel (taxF f) b (lensF f b) (csF f b) (owsF f b)).map (textIndex nm rk)) else none)
        = some (fcF, indexF) →
      indexF = fun b => (indexSequence t fuel (taxF f) b (lensF f b) (csF f b) (owsF f b)).map (textIndex nm rk) := by
    intro f fcF indexF e
    by_cases hp : present f = true
    · rw [if_pos hp] at e
      have e' := Option.some.inj e
      exact (congrArg Prod.snd e').symm
    · rw [if_neg hp] at e; cases e
  rcases identify2_last_search_is_ancestor wf hf nm rk _ taxC lensC csC owsC _ taxF lensF csF owsF hfam z bm w stage h with
    ⟨f, hst, maxe2, bid2, idxs2, indexF, hff, hanc⟩ | ⟨hst, maxe, bid, idxs, hfc, _, hanc⟩
  · left
    by_cases hp : present f = true
    · refine ⟨f, hst, hp, ?_⟩
      rw [if_pos hp] at hff
      have e' := congrArg Prod.fst (Option.some.inj hff)
      simp only at e'
      intro i hi hmin
      exact hanc i (best_mem_of_findClosests (hsF f) (hqF f) e' hi hmin)
    · rw [if_neg hp] at hff; cases hff
  · right
    refine ⟨hst, ?_⟩
    rcases hanc with h1 | hanc
    · exact .inl h1
    · exact .inr fun i hi hmin => hanc i (best_mem_of_findClosests hsC hqC hfc hi hmin)

/-- `stageV` (verbatim kernels, text indices) is the abstract stage on `candOf` -/
theorem stageV_refines (t : Taxo) (fuel : Nat) (nm rk : Nat → Text) (q : Bytes) (refs : Nat → Bytes) (taxids : List Nat)
    (o : List Nat) (ows : Nat → List Nat) (hq : IsACGT q)
    (hr : ∀ i ∈ o, IsACGT (refs i) ∧ q.length + (refs i).length + 1 ≤ 30000)
    (hrr : ∀ b, IsACGT (refs b) ∧ ∀ j ∈ ows b, IsACGT (refs j) ∧ (refs b).length + (refs j).length + 1 ≤ 30000) :
    stageV t fuel nm rk q refs taxids o ows =
      (findClosests .tag2 q.length (fun i => candOf q (refs i)) o,
       fun b => (indexSequence t fuel taxids b (refs b).length (fun j => candOf (refs b) (refs j)) (ows b)).map
        (textIndex nm rk)) := by
  unfold stageV
  rw [findClosestsV_refines .tag2 q refs o hq hr]
  congr 1
  funext b
  rw [indexSequenceV_refines t fuel taxids b refs (ows b) (hrr b).1 (hrr b).2]

/-- **the two stages of `obitag2.Identify` with EVERYTHING verbatim** (`identify2V`: `FastLCSEGFScoreByte`, `D1Or0`,
byte comparison, `IndexSequence` on each list, text indices, selection loop), sequences over `a c g t`,
`|x| + |y| < 30000` for every pair compared, each list scanned by non-increasing shared 4-mers (any order inside
`IndexSequence`): when the exact-match table has no entry, the assigned taxon is an ancestor-or-self of the taxon of
EVERY member of the list searched LAST at minimal LCS distance from the query within that list (or the root when the
identity of the first search is below 0.5).  NO kernel hypothesis, NO q-gram hypothesis. -/
theorem identify2_every_best_verbatim {t : Taxo} {depth : Nat → Nat} {fuel : Nat}
    (wf : WF t 1 depth) (hf : FuelOK t fuel) (nm rk : Nat → Text) (q : Bytes)
    (refsC : Nat → Bytes) (taxC : List Nat) (oC : List Nat) (owsC : Nat → List Nat)
    (present : Nat → Bool) (refsF : Nat → Nat → Bytes) (taxF : Nat → List Nat) (oF : Nat → List Nat)
    (owsF : Nat → Nat → List Nat)
    (hq : IsACGT q) (hlq : q.length ≤ 29999)
    (hrC : ∀ i ∈ oC, IsACGT (refsC i) ∧ q.length + (refsC i).length + 1 ≤ 30000)
    (hrrC : ∀ b, IsACGT (refsC b) ∧ ∀ j ∈ owsC b, IsACGT (refsC j) ∧ (refsC b).length + (refsC j).length + 1 ≤ 30000)
    (hrF : ∀ f, ∀ i ∈ oF f, IsACGT (refsF f i) ∧ q.length + (refsF f i).length + 1 ≤ 30000)
    (hrrF : ∀ f b, IsACGT (refsF f b) ∧
      ∀ j ∈ owsF f b, IsACGT (refsF f j) ∧ (refsF f b).length + (refsF f j).length + 1 ≤ 30000)
    (hsC : SortedByCw (fun i => candOf q (refsC i)) oC)
    (hsF : ∀ f, SortedByCw (fun i => candOf q (refsF f i)) (oF f))
    (z bm w : Nat) (stage : Id2Stage)
    (h : identify2V t fuel nm rk none q refsC taxC oC owsC present refsF taxF oF owsF = .ok z bm w stage) :
    (∃ f, stage = .family f ∧ present f = true ∧
        ∀ i ∈ oF f, (∀ j ∈ oF f, (candOf q (refsF f i)).dist ≤ (candOf q (refsF f j)).dist) →
          Anc t z ((taxF f).getD i 0)) ∨
    (stage = .clusters ∧
        (z = 1 ∨ ∀ i ∈ oC, (∀ j ∈ oC, (candOf q (refsC i)).dist ≤ (candOf q (refsC j)).dist) →
          Anc t z (taxC.getD i 0))) := by
  unfold identify2V at h
  rw [stageV_refines t fuel nm rk q refsC taxC oC owsC hq hrC hrrC] at h
  have e : (fun f => if present f then some (stageV t fuel nm rk q (refsF f) (taxF f) (oF f) (owsF f)) else none) =
      fun f => if present f then some (findClosests .tag2 q.length (fun i => candOf q (refsF f i)) (oF f), fun b =>
        (indexSequence t fuel (taxF f) b (refsF f b).length (fun j => candOf (refsF f b) (refsF f j)) (owsF f b)).map
          (textIndex nm rk)) else none := by
    funext f
    rw [stageV_refines t fuel nm rk q (refsF f) (taxF f) (oF f) (owsF f) hq (hrF f) (hrrF f)]
  rw [e] at h
  exact identify2_every_best_of_last_search wf hf nm rk q.length
    (fun i => candOf q (refsC i)) oC taxC (fun b => (refsC b).length) (fun b j => candOf (refsC b) (refsC j)) owsC
    present (fun f i => candOf q (refsF f i)) oF taxF (fun f b => (refsF f b).length)
    (fun f b j => candOf (refsF f b) (refsF f j)) owsF hsC
    (qgramBound_acgt q refsC oC hq (by omega) (fun i hi => ⟨(hrC i hi).1, by have := (hrC i hi).2; omega⟩))
    hsF
    (fun f => qgramBound_acgt q (refsF f) (oF f) hq (by omega)
      (fun i hi => ⟨(hrF f i hi).1, by have := (hrF f i hi).2; omega⟩))
    z bm w stage h

end ObiVerif.Props.C15W
