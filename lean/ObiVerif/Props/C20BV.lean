import ObiVerif.Props.C20
import ObiVerif.Lemmas.FpBV
/-!
# C20 — the same exactness theorems stated against Lean's machine words `BitVec 64 / 128 / 256`

`toBV u = BitVec.ofNat w u.toNat`; `u*_toBV_limbs` shows it is the concatenation of the limbs as 64-bit words, and
`u*_toBV_inj` that it is faithful on well-formed values.  Every theorem says: the model operation (a transcription
of the Go method) is the `BitVec` operation of the same width, and it panics exactly when the `BitVec` unsigned
overflow predicate (`uaddOverflow` / `usubOverflow` / `umulOverflow`) holds.  So the "`Nat` modulo `2^w`" reading used
in `Props/C20.lean` coincides with fixed-width machine arithmetic.
-/
namespace ObiVerif.Props.C20BV
open ObiVerif.Fp ObiVerif.Props.C20

/-! ## representation -/

theorem u64_toBV_inj (u v : U64) (hu : u.WF) (hv : v.WF) : u.toBV = v.toBV ↔ u = v := by
  unfold U64.toBV
  rw [bv_inj (U64.toNat_lt' hu) (U64.toNat_lt' hv)]
  cases u; cases v; simp [U64.toNat]
theorem u128_toBV_inj (u v : U128) (hu : u.WF) (hv : v.WF) : u.toBV = v.toBV ↔ u = v := by
  unfold U128.toBV
  rw [bv_inj (U128.toNat_lt' hu) (U128.toNat_lt' hv)]
  constructor
  · intro h; rw [U128.eq_ofNat_toNat hu, U128.eq_ofNat_toNat hv, h]
  · intro h; rw [h]
theorem u256_toBV_inj (u v : U256) (hu : u.WF) (hv : v.WF) : u.toBV = v.toBV ↔ u = v := by
  unfold U256.toBV
  rw [bv_inj (U256.toNat_lt' hu) (U256.toNat_lt' hv)]
  constructor
  · intro h; rw [U256.eq_ofNat_toNat hu, U256.eq_ofNat_toNat hv, h]
  · intro h; rw [h]

/-- the value of a `Uint128` is its two limbs, as 64-bit machine words, concatenated -/
theorem u128_toBV_limbs (u : U128) (hu : u.WF) :
    u.toBV = (BitVec.ofNat 64 u.w1 ++ BitVec.ofNat 64 u.w0 : BitVec 128) := U128.toBV_eq_append u hu
theorem u256_toBV_limbs (u : U256) (hu : u.WF) :
    u.toBV = (BitVec.ofNat 64 u.w3 ++ BitVec.ofNat 64 u.w2 ++ BitVec.ofNat 64 u.w1 ++ BitVec.ofNat 64 u.w0 :
      BitVec 256) := U256.toBV_eq_append u hu

/-! ## 64 bits -/

theorem u64_add_bv (u v : U64) (hu : u.WF) (hv : v.WF) :
    (u.toBV.uaddOverflow v.toBV = true → U64.add u v = .error ()) ∧
    (u.toBV.uaddOverflow v.toBV = false → ∃ r, U64.add u v = .ok r ∧ r.WF ∧ r.toBV = u.toBV + v.toBV) := by
  have hu' := U64.toNat_lt' hu; have hv' := U64.toNat_lt' hv
  rw [u64_add_exact u v hu hv, W_eq_pow]
  unfold U64.toBV
  rw [bv_uaddOverflow hu' hv']
  refine ⟨fun ho => ?_, fun ho => ?_⟩
  · rw [if_neg (of_decide_eq_true ho)]
  · have h := Decidable.not_not.mp (of_decide_eq_false ho)
    rw [if_pos h]
    exact ⟨_, rfl, (show u.toNat + v.toNat < W by rw [W_eq_pow]; exact h), BitVec.ofNat_add _ _⟩
theorem u64_sub_bv (u v : U64) (hu : u.WF) (hv : v.WF) :
    (u.toBV.usubOverflow v.toBV = true → U64.sub u v = .error ()) ∧
    (u.toBV.usubOverflow v.toBV = false → ∃ r, U64.sub u v = .ok r ∧ r.WF ∧ r.toBV = u.toBV - v.toBV) := by
  have hu' := U64.toNat_lt' hu; have hv' := U64.toNat_lt' hv
  rw [u64_sub_exact u v]
  unfold U64.toBV
  rw [bv_usubOverflow hu' hv']
  refine ⟨fun ho => ?_, fun ho => ?_⟩
  · rw [if_neg (of_decide_eq_true ho)]
  · have h := Decidable.not_not.mp (of_decide_eq_false ho)
    rw [if_pos h]
    exact ⟨_, rfl, Nat.lt_of_le_of_lt (Nat.sub_le _ _) hu, bv_sub hu' h⟩
theorem u64_mul_bv (u v : U64) (hu : u.WF) (hv : v.WF) :
    (u.toBV.umulOverflow v.toBV = true → U64.mul u v = .error ()) ∧
    (u.toBV.umulOverflow v.toBV = false → ∃ r, U64.mul u v = .ok r ∧ r.WF ∧ r.toBV = u.toBV * v.toBV) := by
  have hu' := U64.toNat_lt' hu; have hv' := U64.toNat_lt' hv
  rw [u64_mul_exact u v, W_eq_pow]
  unfold U64.toBV
  rw [bv_umulOverflow hu' hv']
  refine ⟨fun ho => ?_, fun ho => ?_⟩
  · rw [if_neg (of_decide_eq_true ho)]
  · have h := Decidable.not_not.mp (of_decide_eq_false ho)
    rw [if_pos h]
    exact ⟨_, rfl, (show u.toNat * v.toNat < W by rw [W_eq_pow]; exact h), BitVec.ofNat_mul _ _⟩
theorem u64_shl_bv (u : U64) (n : Nat) (hu : u.WF) : (U64.leftShift u n).toBV = u.toBV <<< n := by
  unfold U64.toBV; rw [u64_shl_exact u n hu, W_eq_pow, bv_shl n (U64.toNat_lt' hu)]
theorem u64_shr_bv (u : U64) (n : Nat) (hu : u.WF) : (U64.rightShift u n).toBV = u.toBV >>> n := by
  unfold U64.toBV; rw [u64_shr_exact u n hu, bv_shr n (U64.toNat_lt' hu)]
theorem u64_and_bv (u v : U64) : (U64.and u v).toBV = u.toBV &&& v.toBV := bv_and
theorem u64_or_bv (u v : U64) (hu : u.WF) (hv : v.WF) : (U64.or u v).toBV = u.toBV ||| v.toBV :=
  bv_or (U64.toNat_lt' hu) (U64.toNat_lt' hv)
theorem u64_xor_bv (u v : U64) (hu : u.WF) (hv : v.WF) : (U64.xor u v).toBV = u.toBV ^^^ v.toBV :=
  bv_xor (U64.toNat_lt' hu) (U64.toNat_lt' hv)
theorem u64_not_bv (u : U64) (hu : u.WF) : (U64.not u).toBV = ~~~ u.toBV := by
  unfold U64.toBV; rw [(u64_not_exact u).2, W_eq_pow, bv_not (U64.toNat_lt' hu)]
theorem u64_lessThan_bv (u v : U64) (hu : u.WF) (hv : v.WF) : U64.lessThan u v = u.toBV.ult v.toBV := by
  unfold U64.toBV
  rw [bv_ult (U64.toNat_lt' hu) (U64.toNat_lt' hv), Bool.eq_iff_iff, u64_lessThan_exact, decide_eq_true_iff]
theorem u64_lessThanOrEqual_bv (u v : U64) (hu : u.WF) (hv : v.WF) :
    U64.lessThanOrEqual u v = u.toBV.ule v.toBV := by
  unfold U64.toBV
  rw [bv_ule (U64.toNat_lt' hu) (U64.toNat_lt' hv), Bool.eq_iff_iff, u64_lessThanOrEqual_exact, decide_eq_true_iff]
theorem u64_equals_bv (u v : U64) (hu : u.WF) (hv : v.WF) : U64.equals u v = true ↔ u.toBV = v.toBV := by
  unfold U64.toBV
  rw [bv_inj (U64.toNat_lt' hu) (U64.toNat_lt' hv), u64_equals_exact]

/-! ## 128 bits -/

theorem u128_add_bv (u v : U128) (hu : u.WF) (hv : v.WF) :
    (u.toBV.uaddOverflow v.toBV = true → U128.add u v = .error ()) ∧
    (u.toBV.uaddOverflow v.toBV = false → ∃ r, U128.add u v = .ok r ∧ r.WF ∧ r.toBV = u.toBV + v.toBV) := by
  have hu' := U128.toNat_lt' hu; have hv' := U128.toNat_lt' hv
  rw [u128_add_exact u v hu hv, WW_eq_pow]
  unfold U128.toBV
  rw [bv_uaddOverflow hu' hv']
  refine ⟨fun ho => ?_, fun ho => ?_⟩
  · rw [if_neg (of_decide_eq_true ho)]
  · have h := Decidable.not_not.mp (of_decide_eq_false ho)
    rw [if_pos h]
    exact ⟨_, rfl, U128.ofNat_WF _, by rw [U128.toNat_ofNat (by rw [WW_eq_pow]; exact h), BitVec.ofNat_add]⟩
theorem u128_sub_bv (u v : U128) (hu : u.WF) (hv : v.WF) :
    (u.toBV.usubOverflow v.toBV = true → U128.sub u v = .error ()) ∧
    (u.toBV.usubOverflow v.toBV = false → ∃ r, U128.sub u v = .ok r ∧ r.WF ∧ r.toBV = u.toBV - v.toBV) := by
  have hu' := U128.toNat_lt' hu; have hv' := U128.toNat_lt' hv
  rw [u128_sub_exact u v hu hv]
  unfold U128.toBV
  rw [bv_usubOverflow hu' hv']
  refine ⟨fun ho => ?_, fun ho => ?_⟩
  · rw [if_neg (of_decide_eq_true ho)]
  · have h := Decidable.not_not.mp (of_decide_eq_false ho)
    rw [if_pos h]
    have hlt : u.toNat - v.toNat < W * W := Nat.lt_of_le_of_lt (Nat.sub_le _ _) (U128.toNat_lt hu)
    exact ⟨_, rfl, U128.ofNat_WF _, by rw [U128.toNat_ofNat hlt, bv_sub hu' h]⟩
theorem u128_mul_partial_bv (u v : U128) (hu : u.WF) (hv : v.WF) (hz : u.w1 = 0 ∨ v.w1 = 0) :
    (u.toBV.umulOverflow v.toBV = true → U128.mul u v = .error ()) ∧
    (u.toBV.umulOverflow v.toBV = false → ∃ r, U128.mul u v = .ok r ∧ r.WF ∧ r.toBV = u.toBV * v.toBV) := by
  have hu' := U128.toNat_lt' hu; have hv' := U128.toNat_lt' hv
  rw [u128_mul_exact_partial u v hu hv hz, WW_eq_pow]
  unfold U128.toBV
  rw [bv_umulOverflow hu' hv']
  refine ⟨fun ho => ?_, fun ho => ?_⟩
  · rw [if_neg (of_decide_eq_true ho)]
  · have h := Decidable.not_not.mp (of_decide_eq_false ho)
    rw [if_pos h]
    exact ⟨_, rfl, U128.ofNat_WF _, by rw [U128.toNat_ofNat (by rw [WW_eq_pow]; exact h), BitVec.ofNat_mul]⟩
theorem u128_shl_bv (u : U128) (n : Nat) (hu : u.WF) : (U128.leftShift u n).toBV = u.toBV <<< n := by
  unfold U128.toBV; rw [u128_shl_exact u n hu, WW_eq_pow, bv_shl n (U128.toNat_lt' hu)]
theorem u128_shr_bv (u : U128) (n : Nat) (hu : u.WF) : (U128.rightShift u n).toBV = u.toBV >>> n := by
  unfold U128.toBV; rw [u128_shr_exact u n hu, bv_shr n (U128.toNat_lt' hu)]
theorem u128_and_bv (u v : U128) (hu : u.WF) (hv : v.WF) : (U128.and u v).toBV = u.toBV &&& v.toBV := by
  unfold U128.toBV; rw [(u128_and_exact u v hu hv).2, bv_and]
theorem u128_or_bv (u v : U128) (hu : u.WF) (hv : v.WF) : (U128.or u v).toBV = u.toBV ||| v.toBV := by
  unfold U128.toBV; rw [(u128_or_exact u v hu hv).2, bv_or (U128.toNat_lt' hu) (U128.toNat_lt' hv)]
theorem u128_xor_bv (u v : U128) (hu : u.WF) (hv : v.WF) : (U128.xor u v).toBV = u.toBV ^^^ v.toBV := by
  unfold U128.toBV; rw [(u128_xor_exact u v hu hv).2, bv_xor (U128.toNat_lt' hu) (U128.toNat_lt' hv)]
theorem u128_not_bv (u : U128) (hu : u.WF) : (U128.not u).toBV = ~~~ u.toBV := by
  unfold U128.toBV; rw [(u128_not_exact u hu).2, WW_eq_pow, bv_not (U128.toNat_lt' hu)]
theorem u128_lessThan_bv (u v : U128) (hu : u.WF) (hv : v.WF) : U128.lessThan u v = u.toBV.ult v.toBV := by
  unfold U128.toBV
  rw [bv_ult (U128.toNat_lt' hu) (U128.toNat_lt' hv), Bool.eq_iff_iff, u128_lessThan_exact u v hu hv,
    decide_eq_true_iff]
theorem u128_lessThanOrEqual_bv (u v : U128) (hu : u.WF) (hv : v.WF) :
    U128.lessThanOrEqual u v = u.toBV.ule v.toBV := by
  unfold U128.toBV
  rw [bv_ule (U128.toNat_lt' hu) (U128.toNat_lt' hv), Bool.eq_iff_iff, u128_lessThanOrEqual_exact u v hu hv,
    decide_eq_true_iff]
theorem u128_equals_bv (u v : U128) (hu : u.WF) (hv : v.WF) : U128.equals u v = true ↔ u.toBV = v.toBV := by
  unfold U128.toBV
  rw [bv_inj (U128.toNat_lt' hu) (U128.toNat_lt' hv), u128_equals_exact u v hu hv]

/-- `Div` / `Mod` are `BitVec` unsigned division and remainder (`v ≠ 0`; for `v = 0` the Go code panics whereas
`BitVec` division is totalised to `0`) -/
theorem u128_div_bv (u v : U128) (hu : u.WF) (hv : v.WF) (hv0 : v.toNat ≠ 0) :
    ∃ q, U128.div u v = .ok q ∧ q.WF ∧ q.toBV = u.toBV / v.toBV := by
  have hq : u.toNat / v.toNat < W * W := Nat.lt_of_le_of_lt (Nat.div_le_self _ _) (U128.toNat_lt hu)
  refine ⟨_, u128_div_exact u v hu hv hv0, U128.ofNat_WF _, ?_⟩
  unfold U128.toBV
  rw [U128.toNat_ofNat hq, bv_div (U128.toNat_lt' hu) (U128.toNat_lt' hv)]
theorem u128_mod_bv (u v : U128) (hu : u.WF) (hv : v.WF) (hv0 : v.toNat ≠ 0) :
    ∃ r, U128.mod u v = .ok r ∧ r.WF ∧ r.toBV = u.toBV % v.toBV := by
  have hr : u.toNat % v.toNat < W * W := Nat.lt_of_le_of_lt (Nat.mod_le _ _) (U128.toNat_lt hu)
  refine ⟨_, u128_mod_exact u v hu hv hv0, U128.ofNat_WF _, ?_⟩
  unfold U128.toBV
  rw [U128.toNat_ofNat hr, bv_mod (U128.toNat_lt' hu) (U128.toNat_lt' hv)]

/-! ## 256 bits -/

theorem u256_add_bv (u v : U256) (hu : u.WF) (hv : v.WF) :
    (u.toBV.uaddOverflow v.toBV = true → U256.add u v = .error ()) ∧
    (u.toBV.uaddOverflow v.toBV = false → ∃ r, U256.add u v = .ok r ∧ r.WF ∧ r.toBV = u.toBV + v.toBV) := by
  have hu' := U256.toNat_lt' hu; have hv' := U256.toNat_lt' hv
  rw [u256_add_exact u v hu hv, W4_eq_pow]
  unfold U256.toBV
  rw [bv_uaddOverflow hu' hv']
  refine ⟨fun ho => ?_, fun ho => ?_⟩
  · rw [if_neg (of_decide_eq_true ho)]
  · have h := Decidable.not_not.mp (of_decide_eq_false ho)
    rw [if_pos h]
    exact ⟨_, rfl, U256.ofNat_WF _, by rw [U256.toNat_ofNat (by rw [W4_eq_pow]; exact h), BitVec.ofNat_add]⟩
theorem u256_sub_bv (u v : U256) (hu : u.WF) (hv : v.WF) :
    (u.toBV.usubOverflow v.toBV = true → U256.sub u v = .error ()) ∧
    (u.toBV.usubOverflow v.toBV = false → ∃ r, U256.sub u v = .ok r ∧ r.WF ∧ r.toBV = u.toBV - v.toBV) := by
  have hu' := U256.toNat_lt' hu; have hv' := U256.toNat_lt' hv
  rw [u256_sub_exact u v hu hv]
  unfold U256.toBV
  rw [bv_usubOverflow hu' hv']
  refine ⟨fun ho => ?_, fun ho => ?_⟩
  · rw [if_neg (of_decide_eq_true ho)]
  · have h := Decidable.not_not.mp (of_decide_eq_false ho)
    rw [if_pos h]
    have hlt : u.toNat - v.toNat < W ^ 4 := Nat.lt_of_le_of_lt (Nat.sub_le _ _) (U256.toNat_lt hu)
    exact ⟨_, rfl, U256.ofNat_WF _, by rw [U256.toNat_ofNat hlt, bv_sub hu' h]⟩
theorem u256_mul_bv (u v : U256) (hu : u.WF) (hv : v.WF) :
    (u.toBV.umulOverflow v.toBV = true → U256.mul u v = .error ()) ∧
    (u.toBV.umulOverflow v.toBV = false → ∃ r, U256.mul u v = .ok r ∧ r.WF ∧ r.toBV = u.toBV * v.toBV) := by
  have hu' := U256.toNat_lt' hu; have hv' := U256.toNat_lt' hv
  rw [u256_mul_exact u v hu hv, W4_eq_pow]
  unfold U256.toBV
  rw [bv_umulOverflow hu' hv']
  refine ⟨fun ho => ?_, fun ho => ?_⟩
  · rw [if_neg (of_decide_eq_true ho)]
  · have h := Decidable.not_not.mp (of_decide_eq_false ho)
    rw [if_pos h]
    exact ⟨_, rfl, U256.ofNat_WF _, by rw [U256.toNat_ofNat (by rw [W4_eq_pow]; exact h), BitVec.ofNat_mul]⟩
theorem u256_shl_bv (u : U256) (n : Nat) (hu : u.WF) : (U256.leftShift u n).toBV = u.toBV <<< n := by
  unfold U256.toBV; rw [u256_shl_exact u n hu, W4_eq_pow, bv_shl n (U256.toNat_lt' hu)]
theorem u256_shr_bv (u : U256) (n : Nat) (hu : u.WF) : (U256.rightShift u n).toBV = u.toBV >>> n := by
  unfold U256.toBV; rw [u256_shr_exact u n hu, bv_shr n (U256.toNat_lt' hu)]
theorem u256_and_bv (u v : U256) (hu : u.WF) (hv : v.WF) : (U256.and u v).toBV = u.toBV &&& v.toBV := by
  unfold U256.toBV; rw [(u256_and_exact u v hu hv).2, bv_and]
theorem u256_or_bv (u v : U256) (hu : u.WF) (hv : v.WF) : (U256.or u v).toBV = u.toBV ||| v.toBV := by
  unfold U256.toBV; rw [(u256_or_exact u v hu hv).2, bv_or (U256.toNat_lt' hu) (U256.toNat_lt' hv)]
theorem u256_xor_bv (u v : U256) (hu : u.WF) (hv : v.WF) : (U256.xor u v).toBV = u.toBV ^^^ v.toBV := by
  unfold U256.toBV; rw [(u256_xor_exact u v hu hv).2, bv_xor (U256.toNat_lt' hu) (U256.toNat_lt' hv)]
theorem u256_not_bv (u : U256) (hu : u.WF) : (U256.not u).toBV = ~~~ u.toBV := by
  unfold U256.toBV; rw [(u256_not_exact u hu).2, W4_eq_pow, bv_not (U256.toNat_lt' hu)]
theorem u256_lessThan_bv (u v : U256) (hu : u.WF) (hv : v.WF) : U256.lessThan u v = u.toBV.ult v.toBV := by
  unfold U256.toBV
  rw [bv_ult (U256.toNat_lt' hu) (U256.toNat_lt' hv), Bool.eq_iff_iff, u256_lessThan_exact u v hu hv,
    decide_eq_true_iff]
theorem u256_lessThanOrEqual_bv (u v : U256) (hu : u.WF) (hv : v.WF) :
    U256.lessThanOrEqual u v = u.toBV.ule v.toBV := by
  unfold U256.toBV
  rw [bv_ule (U256.toNat_lt' hu) (U256.toNat_lt' hv), Bool.eq_iff_iff, u256_lessThanOrEqual_exact u v hu hv,
    decide_eq_true_iff]
theorem u256_equals_bv (u v : U256) (hu : u.WF) (hv : v.WF) : U256.equals u v = true ↔ u.toBV = v.toBV := by
  unfold U256.toBV
  rw [bv_inj (U256.toNat_lt' hu) (U256.toNat_lt' hv), u256_equals_exact u v hu hv]

theorem u256_div_bv (u v : U256) (hu : u.WF) (hv : v.WF) (hv0 : v.toNat ≠ 0) :
    ∃ q, U256.div u v = some (.ok q) ∧ q.WF ∧ q.toBV = u.toBV / v.toBV := by
  obtain ⟨q, h, hq, hval⟩ := u256_div_exact' u v hu hv hv0
  refine ⟨q, h, hq, ?_⟩
  unfold U256.toBV
  rw [hval, bv_div (U256.toNat_lt' hu) (U256.toNat_lt' hv)]

/-! ## casts: narrowing is `BitVec.setWidth` to the smaller width (truncation), widening is `setWidth` to the larger
width (zero extension) -/

theorem u128_toU64_bv (u : U128) (hu : u.WF) : (U128.toU64 u).toBV = u.toBV.setWidth 64 := by
  unfold U64.toBV U128.toBV
  rw [(u128_toU64_exact u hu).2.1, W_eq_pow, bv_setWidth 64 (U128.toNat_lt' hu)]
theorem u256_toU64_bv (u : U256) (hu : u.WF) : (U256.toU64 u).toBV = u.toBV.setWidth 64 := by
  unfold U64.toBV U256.toBV
  rw [(u256_toU64_exact u hu).2.1, W_eq_pow, bv_setWidth 64 (U256.toNat_lt' hu)]
theorem u256_toU128_bv (u : U256) (hu : u.WF) : (U256.toU128 u).toBV = u.toBV.setWidth 128 := by
  unfold U128.toBV U256.toBV
  rw [(u256_toU128_exact u hu).2.1, WW_eq_pow, bv_setWidth 128 (U256.toNat_lt' hu)]
theorem u64_toU128_bv (u : U64) (hu : u.WF) : (U64.toU128 u).toBV = u.toBV.setWidth 128 := by
  have h := U64.toNat_lt' hu
  unfold U64.toBV U128.toBV
  rw [(u64_toU128_exact u hu).2, ← bv_setWidth 128 h,
    Nat.mod_eq_of_lt (Nat.lt_of_lt_of_le h (Nat.pow_le_pow_right (by decide) (by decide)))]
theorem u64_toU256_bv (u : U64) (hu : u.WF) : (U64.toU256 u).toBV = u.toBV.setWidth 256 := by
  have h := U64.toNat_lt' hu
  unfold U64.toBV U256.toBV
  rw [(u64_toU256_exact u hu).2, ← bv_setWidth 256 h,
    Nat.mod_eq_of_lt (Nat.lt_of_lt_of_le h (Nat.pow_le_pow_right (by decide) (by decide)))]
theorem u128_toU256_bv (u : U128) (hu : u.WF) : (U128.toU256 u).toBV = u.toBV.setWidth 256 := by
  have h := U128.toNat_lt' hu
  unfold U128.toBV U256.toBV
  rw [(u128_toU256_exact u hu).2, ← bv_setWidth 256 h,
    Nat.mod_eq_of_lt (Nat.lt_of_lt_of_le h (Nat.pow_le_pow_right (by decide) (by decide)))]

/-! ## `Uint128.Add64` / `Mul64` (the 64-bit word is zero-extended) and the three-way `Cmp` -/

theorem u128_add64_bv (u : U128) (v : Nat) (hu : u.WF) (hv : v < W) :
    (u.toBV.uaddOverflow (BitVec.ofNat 128 v) = true → U128.add64 u v = .error ()) ∧
    (u.toBV.uaddOverflow (BitVec.ofNat 128 v) = false →
      ∃ r, U128.add64 u v = .ok r ∧ r.WF ∧ r.toBV = u.toBV + BitVec.ofNat 128 v) := by
  have hu' := U128.toNat_lt' hu
  have hv' : v < 2 ^ 128 := Nat.lt_of_lt_of_le (W_eq_pow ▸ hv) (Nat.pow_le_pow_right (by decide) (by decide))
  rw [u128_add64_exact u v hu, WW_eq_pow]
  unfold U128.toBV
  rw [bv_uaddOverflow hu' hv']
  refine ⟨fun ho => ?_, fun ho => ?_⟩
  · rw [if_neg (of_decide_eq_true ho)]
  · have h := Decidable.not_not.mp (of_decide_eq_false ho)
    rw [if_pos h]
    exact ⟨_, rfl, U128.ofNat_WF _, by rw [U128.toNat_ofNat (by rw [WW_eq_pow]; exact h), BitVec.ofNat_add]⟩

theorem u128_mul64_bv (u : U128) (v : Nat) (hu : u.WF) (hv : v < W) :
    (u.toBV.umulOverflow (BitVec.ofNat 128 v) = true → U128.mul64 u v = .error ()) ∧
    (u.toBV.umulOverflow (BitVec.ofNat 128 v) = false →
      ∃ r, U128.mul64 u v = .ok r ∧ r.WF ∧ r.toBV = u.toBV * BitVec.ofNat 128 v) := by
  have hu' := U128.toNat_lt' hu
  have hv' : v < 2 ^ 128 := Nat.lt_of_lt_of_le (W_eq_pow ▸ hv) (Nat.pow_le_pow_right (by decide) (by decide))
  rw [u128_mul64_exact u v hu hv, WW_eq_pow]
  unfold U128.toBV
  rw [bv_umulOverflow hu' hv']
  refine ⟨fun ho => ?_, fun ho => ?_⟩
  · rw [if_neg (of_decide_eq_true ho)]
  · have h := Decidable.not_not.mp (of_decide_eq_false ho)
    rw [if_pos h]
    exact ⟨_, rfl, U128.ofNat_WF _, by rw [U128.toNat_ofNat (by rw [WW_eq_pow]; exact h), BitVec.ofNat_mul]⟩

theorem u64_cmp_bv (u v : U64) (hu : u.WF) (hv : v.WF) :
    U64.cmp u v = if u.toBV < v.toBV then -1 else if u.toBV = v.toBV then 0 else 1 := by
  have hu' := U64.toNat_lt' hu; have hv' := U64.toNat_lt' hv
  rw [u64_cmp_exact]
  unfold U64.toBV
  simp only [BitVec.lt_def, bv_toNat hu', bv_toNat hv', bv_inj hu' hv']
theorem u128_cmp_bv (u v : U128) (hu : u.WF) (hv : v.WF) :
    U128.cmp u v = if u.toBV < v.toBV then -1 else if u.toBV = v.toBV then 0 else 1 := by
  have hu' := U128.toNat_lt' hu; have hv' := U128.toNat_lt' hv
  rw [u128_cmp_exact u v hu hv]
  unfold U128.toBV
  simp only [BitVec.lt_def, bv_toNat hu', bv_toNat hv', bv_inj hu' hv']
theorem u256_cmp_bv (u v : U256) (hu : u.WF) (hv : v.WF) :
    U256.cmp u v = if u.toBV < v.toBV then -1 else if u.toBV = v.toBV then 0 else 1 := by
  have hu' := U256.toNat_lt' hu; have hv' := U256.toNat_lt' hv
  rw [u256_cmp_exact u v hu hv]
  unfold U256.toBV
  simp only [BitVec.lt_def, bv_toNat hu', bv_toNat hv', bv_inj hu' hv']

/-- the hypotheses are satisfiable and the statements compute on machine words: `(2^128 - 1) + 1` overflows 128 bits,
`(2^64 + 2) <<< 64` drops the high limb -/
example : U128.WF ⟨18446744073709551615, 18446744073709551615⟩ ∧ U128.WF ⟨0, 1⟩ ∧
    (U128.toBV ⟨18446744073709551615, 18446744073709551615⟩).uaddOverflow (U128.toBV ⟨0, 1⟩) = true ∧
    U128.add ⟨18446744073709551615, 18446744073709551615⟩ ⟨0, 1⟩ = .error () ∧
    (U128.leftShift ⟨1, 2⟩ 64).toBV = (U128.toBV ⟨1, 2⟩) <<< 64 :=
  ⟨by decide, by decide, by decide, rfl, u128_shl_bv _ _ (by decide)⟩

end ObiVerif.Props.C20BV
