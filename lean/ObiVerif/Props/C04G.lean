import ObiVerif.Props.C04
import ObiVerif.Lemmas.WriterPeek
/-!
# C04 — the glue: every batch once, in order, at the level of the user of a command (property theorems)

`Props/C04.lean` starts at the writer goroutine: `ks` there is the order in which the batch numbers `0..n-1` reach it,
and "each batch number is delivered once to the writer" is an assumption.  Here the assumption is discharged for the
path every command takes by default — `obiconvert.CLIWriteBioSequences` → `obiformats.WriteSequencesToFile` /
`WriteSequencesToStdout` → `WriteSequence` (peek at the first batch, `PushBack`, choice of FASTA or FASTQ) →
`WriteFasta` / `WriteFastq` (N formatting workers: the iterator itself and N-1 `Split()`s) → writer goroutine — and for
the forced formats, on the models of `Model/WriterPeek.lean`.

`recs k` = the records of batch number `k` (`[]`: an empty batch — what a one-to-many worker such as the PCR, the
demultiplexer or a filtering annotation leaves of a batch none of whose records it keeps); `src` = the order in which
the batches come out of the iterator handed to the command's writer (any rearrangement of `0..n-1`: upstream workers
deliver in any order); `sched` = any schedule of the formatting workers after which all of them have ended.
-/
set_option Elab.async false
namespace ObiVerif.Props.C04
open ObiVerif.WriterPeek ObiVerif.WriterFmt ObiVerif.Reseq ObiVerif.WriterWfile

/-- the stream `k ↦ recs k` delivered in the order `src` -/
def stream (recs : Nat → List Rec) (src : List Nat) : List Batch := src.map fun k => (k, recs k)

/-- **the formatting workers + the writer goroutine**: a pool that holds exactly the batches `0..n-1` (one of them
possibly as a pushed-back batch) writes, for EVERY schedule of its workers, the file of the batches in order, and the
re-sequencing machine has released the numbers `0, 1, …, n-1` — each once, increasing, nothing left in its map. -/
theorem pool_writes_in_order (cfg : Cfg) (recs : Nat → List Rec) (n : Nat) (src : List Nat)
    (hsrc : src.Perm (List.range n)) (p : Pool) (hp : p.content = stream recs src)
    (sched : List Nat) (hd : (p.run sched).done = true) :
    writeFile cfg (p.run sched).sent = writeFile cfg (stream recs (List.range n)) ∧
    reseq ((p.run sched).sent.map fun a => (a.1, a.1)) = List.range n := by
  have hperm := pool_sent_perm p sched hd
  rw [hp] at hperm
  obtain ⟨h1, h2⟩ := perm_map_orders recs src _ hperm
  generalize hks : (p.run sched).sent.map Prod.fst = ks at h1 h2
  have hk : ks.Perm (List.range n) := h2.trans hsrc
  constructor
  · rw [h1]; exact file_order_free cfg recs n ks hk
  · rw [h1, List.map_map]
    have := reseq_perm (fun k => k) n ks hk
    simpa [Function.comp_def] using this

/-- **`WriteSequence` starts a writer iff the stream has a batch; the error branch is dead.**  A result without any
batch starts nothing: the output is neither written nor closed by a writer. -/
theorem write_sequence_starts_iff (arr : List Batch) :
    (writeSequence (It.ofArrival arr) = .nothing ↔ arr = []) ∧ writeSequence (It.ofArrival arr) ≠ .notReady := by
  cases arr with
  | nil => exact ⟨⟨fun _ => rfl, fun _ => rfl⟩, by rw [writeSequence_nil]; intro h; cases h⟩
  | cons b rest => rw [writeSequence_cons]; exact ⟨⟨(fun h => nomatch h), (fun h => nomatch h)⟩, (fun h => nomatch h)⟩

/-- **`write_sequence_every_batch_once`.**  For every number of batches `n ≥ 1`, every content of the batches (any
number of empty ones: leading, interleaved, trailing, all), every order `src` in which they come out of the iterator,
`WriteSequence` starts ONE writer, of the format read on the FIRST BATCH DELIVERED (FASTQ iff that batch is not empty
and its first record has qualities — FASTA when it is empty, whatever follows), on an iterator that still delivers
every batch: for every number of formatting workers and every schedule, every option set, the file is the file of the
batches `0, 1, …, n-1` in order, each released exactly once by the re-sequencing machine. -/
theorem write_sequence_every_batch_once (recs : Nat → List Rec) (n : Nat) (src : List Nat)
    (hsrc : src.Perm (List.range n)) (hn : 0 < n) :
    ∃ it, writeSequence (It.ofArrival (stream recs src)) = .start (pick ((stream recs src).head?)) it ∧
      ∀ (cfg : Cfg) (sched : List Nat), ((Pool.ofIt it).run sched).done = true →
        writeFile cfg ((Pool.ofIt it).run sched).sent = writeFile cfg (stream recs (List.range n)) ∧
        reseq (((Pool.ofIt it).run sched).sent.map fun a => (a.1, a.1)) = List.range n := by
  cases hs : src with
  | nil =>
    rw [hs] at hsrc
    have := hsrc.length_eq
    simp at this; omega
  | cons k rest =>
    refine ⟨{ chan := stream recs rest, current := some (k, recs k), pushBack := true, finished := false }, ?_, ?_⟩
    · simp only [stream, List.map_cons, List.head?_cons]; exact writeSequence_cons _ _
    · intro cfg sched hd
      refine pool_writes_in_order cfg recs n src hsrc _ ?_ sched hd
      rw [hs]; exact peek_content _ _

/-- the format is that of the first batch delivered: FASTQ iff it is not empty and its first record has qualities -/
theorem write_sequence_format (recs : Nat → List Rec) (k : Nat) (rest : List Nat) :
    pick ((stream recs (k :: rest)).head?) =
      (match recs k with
       | r :: _ => if hasQual r then Kind.fastq else Kind.fasta
       | [] => Kind.fasta) := by
  simp only [stream, List.map_cons, List.head?_cons, pick]
  cases recs k <;> rfl

/-- the schedule of one worker that takes and sends every batch ends the pool (the hypothesis `done` of the theorems
above is satisfiable; with one worker the writer goroutine receives the batches in the order of the iterator) -/
theorem solo_done (b : Batch) (rest : List Batch) :
    ((Pool.ofIt { chan := rest, current := some b, pushBack := true, finished := false }).run
      (soloSched (rest.length + 1))).sent = b :: rest ∧
    ((Pool.ofIt { chan := rest, current := some b, pushBack := true, finished := false }).run
      (soloSched (rest.length + 1))).done = true := by
  have key : ∀ (rest sent : List Batch),
      (Pool.run ⟨rest, none, [], sent⟩ (soloSched rest.length)) = ⟨[], none, [], sent ++ rest⟩ := by
    intro rest
    induction rest with
    | nil => intro sent; simp [soloSched, Pool.run]
    | cons c cs ih =>
      intro sent
      have h2 : soloSched (c :: cs).length = 0 :: 0 :: soloSched cs.length := by
        simp [soloSched, Nat.mul_add, List.replicate_succ]
      rw [h2]
      simp only [Pool.run, List.foldl_cons]
      have : (Pool.step (Pool.step ⟨c :: cs, none, [], sent⟩ 0) 0) = ⟨cs, none, [], sent ++ [c]⟩ := by
        simp [Pool.step, lookupK, eraseK]
      rw [this]
      have := ih (sent ++ [c])
      simp only [Pool.run] at this
      rw [this]; simp
  have h2 : soloSched (rest.length + 1) = 0 :: 0 :: soloSched rest.length := by
    simp [soloSched, Nat.mul_add, List.replicate_succ]
  have hstart : (Pool.step (Pool.step (Pool.ofIt { chan := rest, current := some b, pushBack := true, finished := false }) 0) 0)
      = ⟨rest, none, [], [b]⟩ := by
    simp [Pool.ofIt, Pool.step, lookupK, eraseK]
  rw [h2]
  simp only [Pool.run, List.foldl_cons]
  rw [hstart]
  have := key rest [b]
  simp only [Pool.run] at this
  rw [this]
  exact ⟨rfl, rfl⟩

/-! ## the command -/

/-- `CLIOutputFormat()`: `--fastq-output` wins over `--fasta-output`, which wins over `--json-output` -/
theorem output_format_priority :
    outputFormat true true true = some Kind.fastq ∧ outputFormat false true true = some Kind.fasta ∧
    outputFormat false false true = some Kind.json ∧ outputFormat false false false = none := by decide

/-- the format a stream is written in by the command: the forced one, else the one read on the first batch delivered -/
def cliKind (c : Cli) (first : Option Batch) : Kind := c.format.getD (pick first)

/-- **`cli_one_every_batch_once`: one output stream of `CLIWriteBioSequences`.**  For every option set (format forced
or guessed, file or standard output, `--skip-empty`, paired or not), every stream of `n ≥ 1` batches with any empty
ones, every delivery order `src` and every schedule of the formatting workers, the stream written is the one the
writer of `cliKind` writes for the batches `0..n-1` handed over in order with the options `Cli.cfg` — nothing dropped,
nothing written twice, the format and `--skip-empty` from the intended layer. -/
theorem cli_one_every_batch_once (c : Cli) (recs : Nat → List Rec) (n : Nat) (hn : 0 < n) (src : List Nat)
    (hsrc : src.Perm (List.range n)) :
    ∃ p : Pool, p.content = stream recs src ∧
      (∀ sched, cliOne c (stream recs src) sched =
        writeFile (c.cfg (cliKind c (stream recs src).head?)) (p.run sched).sent) ∧
      ∀ sched, (p.run sched).done = true →
        cliOne c (stream recs src) sched =
          writeFile (c.cfg (cliKind c (stream recs src).head?)) (stream recs (List.range n)) := by
  cases hf : c.format with
  | some k =>
    refine ⟨Pool.ofIt (It.ofArrival (stream recs src)), plain_content _, ?_, ?_⟩
    · intro sched; simp [cliOne, hf, cliKind]
    · intro sched hd
      simp only [cliOne, hf, cliKind, Option.getD_some]
      exact (pool_writes_in_order _ recs n src hsrc _ (plain_content _) sched hd).1
  | none =>
    obtain ⟨it, hw, hall⟩ := write_sequence_every_batch_once recs n src hsrc hn
    refine ⟨Pool.ofIt it, ?_, ?_, ?_⟩
    · cases hs : src with
      | nil => rw [hs] at hsrc; have := hsrc.length_eq; simp at this; omega
      | cons k rest =>
        rw [hs] at hw
        simp only [stream, List.map_cons] at hw
        rw [writeSequence_cons] at hw
        cases hw
        simp only [stream, List.map_cons]; exact peek_content _ _
    · intro sched; simp [cliOne, hf, hw, cliKind]
    · intro sched hd
      simp only [cliOne, hf, hw, cliKind, Option.getD_none]
      exact (hall _ sched hd).1

/-- a result without any batch: a forced format still writes its (empty) document — the empty JSON array — while the
guessed format leaves the file empty -/
theorem cli_one_no_batch (c : Cli) (sched : List Nat) :
    cliOne c [] sched = (match c.format with
      | some k => writeFile (c.cfg k) []
      | none => some []) := by
  cases hf : c.format with
  | some k =>
    have : ∀ sched : List Nat, ((Pool.ofIt (It.ofArrival [])).run sched).sent = [] := by
      intro sched
      have hc : ∀ (p : Pool), p.chan = [] → p.pb = none → p.hold = [] → p.sent = [] → (p.run sched).sent = [] := by
        induction sched with
        | nil => intro p _ _ _ h; exact h
        | cons w ws ih =>
          intro p h1 h2 h3 h4
          have : p.step w = p := by simp [Pool.step, h1, h2, h3, lookupK]
          simp only [Pool.run, List.foldl_cons, this]
          exact ih p h1 h2 h3 h4
      exact hc _ rfl rfl rfl rfl
    simp [cliOne, hf, this]
  | none => simp [cliOne, hf, writeSequence_nil]

/-- **`cli_write_every_batch_once`: the command, both files.**  `pairs k` = the records of batch `k` with their mates;
`src1` = the delivery order of the result, `src2` = the order in which the first writer hands the batches on to
`PairedWith()` (any rearrangement); `s1`, `s2` = complete schedules of the two pools of formatting workers.  The first
stream is the file of the records in batch order; for a paired iterator written to files the second one is the file of
the mates in batch order — same batch at the same position in both — each in the format `cliKind` reads on ITS first
batch delivered; `--skip-empty` reaches neither file of a pair (`Cli.cfg`, `cliSkipEmpty`). -/
theorem cli_write_every_batch_once (c : Cli) (pairs : Nat → PBatch) (n : Nat) (hn : 0 < n) (src1 src2 : List Nat)
    (h1 : src1.Perm (List.range n)) (h2 : src2.Perm (List.range n)) :
    ∃ p1 p2 : Pool,
      p1.content = stream (fun k => (pairs k).map Prod.fst) src1 ∧
      p2.content = stream (fun k => (pairs k).map Prod.snd) src2 ∧
      ∀ s1 s2, (p1.run s1).done = true → (p2.run s2).done = true →
        cliWrite c (src1.map fun k => (k, pairs k)) (src2.map fun k => (k, pairs k)) s1 s2 =
          (writeFile (c.cfg (cliKind c (stream (fun k => (pairs k).map Prod.fst) src1).head?))
             (stream (fun k => (pairs k).map Prod.fst) (List.range n)),
           if c.toFile && c.paired then
             some (writeFile (c.cfg (cliKind c (stream (fun k => (pairs k).map Prod.snd) src2).head?))
               (stream (fun k => (pairs k).map Prod.snd) (List.range n)))
           else none) := by
  obtain ⟨p1, hp1, he1, hd1⟩ := cli_one_every_batch_once c (fun k => (pairs k).map Prod.fst) n hn src1 h1
  obtain ⟨p2, hp2, he2, hd2⟩ := cli_one_every_batch_once c (fun k => (pairs k).map Prod.snd) n hn src2 h2
  refine ⟨p1, p2, hp1, hp2, ?_⟩
  intro s1 s2 d1 d2
  have e1 := hd1 s1 d1
  have e2 := hd2 s2 d2
  simp only [stream] at e1 e2 ⊢
  simp only [cliWrite, List.map_map, Function.comp_def]
  rw [e1, e2]

/-! ## observations (not violations of the statement: every batch is written once, in order, well formed) -/

/-- **the guessed format depends on the delivery order**: the same FASTQ stream — an empty batch 0 (e.g. no amplicon in
the first chunk) and a batch 1 of one read with qualities — is written as FASTA, qualities lost, when batch 0 is
delivered first, and as FASTQ when batch 1 is. -/
theorem write_sequence_format_depends_on_arrival :
    let recs : Nat → List Rec := fun k => if k = 0 then [] else [⟨[65], [97, 99], some [30, 31], [], []⟩]
    pick ((stream recs [0, 1]).head?) = Kind.fasta ∧ pick ((stream recs [1, 0]).head?) = Kind.fastq := by
  intro recs
  exact ⟨rfl, rfl⟩

/-- **what the seeded change does** (`writeSequenceSkipping`, NOT the code of /repo: the peek loops over the leading
empty batches and pushes back the last batch read).  On the stream "batch 0 empty, batch 1 one record", delivered in
order, the iterator handed to the writer no longer delivers batch 0; whatever the schedule, the re-sequencing
writer never sees number 0, releases nothing and the file is EMPTY although batch 1 holds a record — while
`WriteSequence` as it is writes the record (`write_sequence_every_batch_once`). -/
theorem skipping_peek_loses :
    let r : Rec := ⟨[65], [97, 99], none, [], []⟩
    let arr : List Batch := [(0, []), (1, [r])]
    ∃ it, writeSequenceSkipping (It.ofArrival arr) = .start Kind.fasta it ∧
      (Pool.ofIt it).content = [(1, [r])] ∧
      ∀ sched, ((Pool.ofIt it).run sched).done = true →
        writeFile { kind := Kind.fasta } ((Pool.ofIt it).run sched).sent = some [] ∧
        writeFile { kind := Kind.fasta } arr = some [62, 65, 32, 10, 97, 99, 10] := by
  intro r arr
  refine ⟨{ chan := [], current := some (1, [r]), pushBack := true, finished := false }, rfl, by simp [ofIt_content], ?_⟩
  intro sched hd
  have hperm := pool_sent_perm _ sched hd
  rw [show (Pool.ofIt { chan := [], current := some (1, [r]), pushBack := true, finished := false }).content = [(1, [r])]
    by simp [ofIt_content]] at hperm
  have hs := List.perm_singleton.mp hperm
  rw [hs]
  constructor
  · simp [writeFile, fmtBatch, fmtFastaBatch, Writer.writeRaw, run, step, r]
  · have := WriterOutcome.seqfile_outcome { kind := Kind.fasta } (Or.inl rfl) (fun k => if k = 0 then [] else [r]) 2 [0, 1]
      (by decide)
    have harr : arr = [0, 1].map (fun k => (k, if k = 0 then [] else [r])) := rfl
    rw [harr, this]
    decide

/-- non-vacuity of the theorems above on the stream that separates the code from the seeded change: three batches,
the first and the last empty, delivered in the order 0, 2, 1 to one worker: the file holds the record of batch 1 -/
example :
    let r : Rec := ⟨[65], [97, 99], none, [], []⟩
    let recs : Nat → List Rec := fun k => if k = 1 then [r] else []
    cliOne { format := none, toFile := true, paired := false, skipEmpty := false } (stream recs [0, 2, 1]) (soloSched 3)
      = writeFile { kind := Kind.fasta } (stream recs (List.range 3)) := by
  intro r recs
  obtain ⟨p, _, he, hd⟩ := cli_one_every_batch_once
    { format := none, toFile := true, paired := false, skipEmpty := false } recs 3 (by decide) [0, 2, 1] (by decide)
  have hp := he (soloSched 3)
  have hdone := (solo_done (0, recs 0) [(2, recs 2), (1, recs 1)]).2
  have hcli : cliOne { format := none, toFile := true, paired := false, skipEmpty := false } (stream recs [0, 2, 1]) (soloSched 3)
      = writeFile { kind := Kind.fasta }
          ((Pool.ofIt { chan := [(2, recs 2), (1, recs 1)], current := some (0, recs 0), pushBack := true, finished := false }).run
            (soloSched 3)).sent := rfl
  rw [hcli]
  exact (pool_writes_in_order _ recs 3 [0, 2, 1] (by decide) _ (by simp [ofIt_content, stream]) (soloSched 3) hdone).1

end ObiVerif.Props.C04
