import ObiVerif.Model.ReadGlueCli
import ObiVerif.Lemmas.ReadGlueRecords
import ObiVerif.Props.C17Glue
import ObiVerif.Props.C01
set_option Elab.async false
/-!
# C01 — glue pass: the records of SEVERAL input files (property theorems)

The kernels of C01 (chunk reader, splitters, chunk parsers, `SortBatches`) are proved in `Props/C01.lean` for ONE file.
Between the user's command line and those kernels stand `CLIReadBioSequences`
(pkg/obitools/obiconvert/sequence_reader.go) and, as soon as two files are given, `ReadSequencesBatchFromFiles`
(pkg/obiformats/batch_of_files_reader.go): `nreader` goroutines take the file names from a channel, re-sequence the batches
of their file and push them, renumbered with ONE shared counter, on a common iterator, which every command then feeds to
an ordering consumer (`SortBatches`, the writers).  The transition system of that plumbing is `Model/ReadGlue.lean` (property
C17, imported unchanged; C17 proves the ERROR outcome on it).  Here: the RECORDS.

For every list of complete files, every number of file readers ≥ 1, every interleaving of the readers (`Reach`) and every
arrival order of the pushed batches at the ordering consumer:
* the batches are numbered 0 … k-1, no number twice, none missing (`files_numbered`);
* the consumer releases exactly the pushed batches: every batch of every file once (`files_records_delivered`, `Perm`);
* the batches of each file come in the order of the file (`files_per_file_order`: a sub-list of what is released);
* with one reader - what the commands ask for unless `--no-order` is given (`cli_ordered_by_default`) - the files come in
  the order of the list;
* the same at the level of records (`files_records_flat`) and of the command (`cli_records`, `cli_command_records`), and end
  to end for FASTA texts (`cli_fasta_records`: the records delivered are those of the one-chunk parses of the files).
-/
namespace ObiVerif.Props.C01Glue
open ObiVerif.ReadErr ObiVerif.ReadGlue ObiVerif.ReadGlueCli ObiVerif.Reseq ObiVerif.Props.C17Glue

variable {β : Type}

/-! ## `ReadSequencesBatchFromFiles`: the batches -/

/-- an execution that ends with status 0 had only complete files -/
theorem ended_clean (files : List (FileRes β)) (nreader : Nat) (hn : 1 ≤ nreader) (s : St β)
    (hr : Reach (init files nreader) s) (hend : s.endedOk) : ∀ f ∈ files, f.faulted = false := by
  intro f hf
  cases h : f.faulted with
  | false => rfl
  | true => exact absurd hend (multi_input_error_rejected files nreader hn f hf h s hr)

/-- **numbering**: whatever the interleaving of the file readers, the batches pushed carry the numbers 0, 1, …, k-1: no
number twice, none missing (one shared counter; the seeded regression C01-m6 numbered by rank in the file + a running total,
which gives the same number to the batches of files read at the same moment) -/
theorem files_numbered (files : List (FileRes β)) (nreader : Nat) (hn : 1 ≤ nreader) (s : St β)
    (hr : Reach (init files nreader) s) (hend : s.endedOk) :
    s.out.map Prod.fst = List.range s.out.length ∧ (s.out.map Prod.fst).Nodup := by
  have h := (multi_input_clean_all_records files nreader hn s hr hend).2
  exact ⟨h, h ▸ List.nodup_range⟩

/-- **file order per file**: the batches of every file are pushed in the order of the file (the per-file `SortBatches`
before the renumbering), whatever the other readers do in between -/
theorem files_per_file_order (files : List (FileRes β)) (nreader : Nat) (hn : 1 ≤ nreader) (s : St β)
    (hr : Reach (init files nreader) s) (hend : s.endedOk) :
    ∀ f ∈ files, f.batches.Sublist (s.out.map Prod.snd) := by
  intro f hf
  obtain ⟨_, hdone⟩ := hend
  have hlen := reach_readers_length hr
  have hq : s.queue = [] := by
    apply reach_doneQueue hr
    cases hrs : s.readers with
    | nil => rw [hrs] at hlen; simp at hlen; omega
    | cons r rs => exact ⟨r, by simp, hdone r (by simp [hrs])⟩
  obtain ⟨pre, rest, hb, hsub, hcase⟩ := reach_fileOrd hr f hf
  rcases hcase with h | ⟨_, hfq⟩ | ⟨fin, hm⟩
  · rw [hb, h, List.append_nil]; exact hsub
  · rw [hq] at hfq; cases hfq
  · have := hdone _ hm
    cases this

/-- **every batch of every file exactly once, from every arrival order.**  `arr` is any order in which the pushed batches
reach an ordering consumer (`SortBatches`, `WriteSeqFileChunk`, … = `Model/Reseq.lean`): it releases exactly the pushed
batches, in the order of their numbers - a permutation of all the batches of all the files in which every file keeps its
own order, and the list order with one reader -/
theorem files_records_delivered (files : List (FileRes β)) (nreader : Nat) (hn : 1 ≤ nreader) (s : St β)
    (hr : Reach (init files nreader) s) (hend : s.endedOk) (arr : List (Nat × β)) (harr : arr.Perm s.out) :
    reseq arr = s.out.map Prod.snd ∧
    (reseq arr).Perm (files.map FileRes.batches).flatten ∧
    (∀ f ∈ files, f.batches.Sublist (reseq arr)) ∧
    (nreader = 1 → reseq arr = (files.map FileRes.batches).flatten) := by
  have hnum := (multi_input_clean_all_records files nreader hn s hr hend)
  have hre : reseq arr = s.out.map Prod.snd := reseq_of_numbered s.out arr hnum.2 harr
  refine ⟨hre, hre ▸ hnum.1, ?_, ?_⟩
  · rw [hre]; exact files_per_file_order files nreader hn s hr hend
  · intro h1
    subst h1
    rw [hre]
    exact single_reader_keeps_order files (ended_clean files 1 hn s hr hend) s hr hend

/-- what the regression C01-m6 does to an ordering consumer: two batches with the same number - one of them is never
released (test on sample values) -/
example : reseq [(0, 10), (0, 20), (1, 11), (1, 21)] = [10, 11] := by
  simp [reseq, Reseq.run, Reseq.step, List.foldl, drain, lookupK, eraseK]

/-! ## the records -/

theorem sublist_flatten {ρ : Type} {l₁ l₂ : List (List ρ)} (h : l₁.Sublist l₂) : l₁.flatten.Sublist l₂.flatten := by
  induction h with
  | slnil => exact List.Sublist.refl _
  | cons a _ ih => rw [List.flatten_cons]; exact ih.trans (List.sublist_append_right a _)
  | cons_cons a _ ih => rw [List.flatten_cons, List.flatten_cons]; exact List.Sublist.append (List.Sublist.refl a) ih

/-- the same at the level of records: a batch is a list of records -/
theorem files_records_flat {ρ : Type} (files : List (FileRes (List ρ))) (nreader : Nat) (hn : 1 ≤ nreader)
    (s : St (List ρ)) (hr : Reach (init files nreader) s) (hend : s.endedOk) (arr : List (Nat × List ρ))
    (harr : arr.Perm s.out) :
    (reseq arr).flatten.Perm (files.map fun f => f.batches.flatten).flatten ∧
    (∀ f ∈ files, f.batches.flatten.Sublist (reseq arr).flatten) ∧
    (nreader = 1 → (reseq arr).flatten = (files.map fun f => f.batches.flatten).flatten) := by
  obtain ⟨_, hperm, hsub, hone⟩ := files_records_delivered files nreader hn s hr hend arr harr
  have hff : (files.map fun f => f.batches.flatten).flatten = ((files.map FileRes.batches).flatten).flatten := by
    rw [List.flatten_flatten, List.map_map]; rfl
  refine ⟨?_, fun f hf => sublist_flatten (hsub f hf), ?_⟩
  · rw [hff]; exact hperm.flatten
  · intro h1; rw [hff, hone h1]

/-! ## `CLIReadBioSequences` -/

/-- one file: the iterator of the reader itself, untouched; with `--paired-with` the batches of the file paired with
those of the mate file -/
theorem cli_single_file (early : Bool) (sched : List Nat) (nreader : Nat) (bs bs' : List β) :
    cliRead early sched nreader (some [.stream bs .ok]) none = .ok bs ∧
    cliRead early sched nreader (some [.stream bs .ok]) (some (.stream bs' .ok)) = .ok bs := ⟨rfl, rfl⟩

/-- two files or more (`--paired-with` is then ignored): status 0, ALL the batches of ALL the files, each file in its own
order, the list order with one reader -/
theorem cli_records (early : Bool) (sched : List Nat) (nreader : Nat) (hn : 1 ≤ nreader)
    (f1 f2 : FileRes β) (fs : List (FileRes β)) (paired : Option (FileRes β))
    (hclean : ∀ f ∈ f1 :: f2 :: fs, f.faulted = false) :
    ∃ bs, cliRead early sched nreader (some (f1 :: f2 :: fs)) paired = .ok bs ∧
      bs.Perm (((f1 :: f2 :: fs).map FileRes.batches).flatten) ∧
      (∀ f ∈ f1 :: f2 :: fs, f.batches.Sublist bs) ∧
      (nreader = 1 → bs = ((f1 :: f2 :: fs).map FileRes.batches).flatten) := by
  obtain ⟨hr, he⟩ := run_is_execution early sched (f1 :: f2 :: fs) nreader
  have hd := multi_input_clean_never_dies _ nreader hclean _ hr
  have hend : (run early (measure (init (f1 :: f2 :: fs) nreader)) sched (init (f1 :: f2 :: fs) nreader)).endedOk := by
    refine ⟨hd, ?_⟩
    rcases he with h | h
    · rw [hd] at h; cases h
    · exact h
  refine ⟨_, by simp only [cliRead, hd]; rfl, (multi_input_clean_all_records _ nreader hn _ hr hend).1,
    files_per_file_order _ nreader hn _ hr hend, ?_⟩
  intro h1
  subst h1
  exact single_reader_keeps_order _ hclean _ hr hend

/-- without `--no-order` the command asks for ONE file reader, whatever `--max-cpu`, the number of read workers or of
files read in parallel set by the command: the inputs are read one after the other -/
theorem cli_ordered_by_default (o : Opts) (h : o.noOrder = false) : nReader o = 1 := by
  simp [nReader, h]

/-- the number of file readers is never 0 (with 0 the plumbing would end at once with nothing read: example in
`Props/C17Glue.lean`), and every file is parsed by at least two workers -/
theorem cli_nreader_pos (o : Opts) : 1 ≤ nReader o ∧ 2 ≤ nWorkers o := by
  have hrw : 1 ≤ readWorkers o := by
    unfold readWorkers
    split
    · split <;> omega
    · omega
  refine ⟨?_, ?_⟩
  · unfold nReader parallelFiles
    split
    · split <;> omega
    · omega
  · unfold nWorkers
    split <;> omega

/-- **the command**: for every option state, every list of two or more complete files, every schedule: all the batches of
all the files, each file in its own order; in the order of the list unless `--no-order` was given -/
theorem cli_command_records (o : Opts) (early : Bool) (sched : List Nat)
    (f1 f2 : FileRes β) (fs : List (FileRes β)) (paired : Option (FileRes β))
    (hclean : ∀ f ∈ f1 :: f2 :: fs, f.faulted = false) :
    ∃ bs, cliRead early sched (nReader o) (some (f1 :: f2 :: fs)) paired = .ok bs ∧
      bs.Perm (((f1 :: f2 :: fs).map FileRes.batches).flatten) ∧
      (∀ f ∈ f1 :: f2 :: fs, f.batches.Sublist bs) ∧
      (o.noOrder = false → bs = ((f1 :: f2 :: fs).map FileRes.batches).flatten) := by
  obtain ⟨bs, h1, h2, h3, h4⟩ := cli_records early sched (nReader o) (cli_nreader_pos o).1 f1 f2 fs paired hclean
  exact ⟨bs, h1, h2, h3, fun h => h4 (cli_ordered_by_default o h)⟩

/-- obiconvert (`SetStrictReadWorker(2)`) with `--no-order`: 2 file readers whatever `--max-cpu`; the other commands:
`max-cpu / 4`, at least 1; `--max-cpu 1` counts as 2 -/
example : nReader ⟨2, 0, 16, true⟩ = 2 ∧ nReader ⟨0, 0, 16, true⟩ = 4 ∧ nReader ⟨0, 0, 3, true⟩ = 1 ∧
    nReader ⟨0, 0, 1, true⟩ = 1 ∧ nReader ⟨0, 3, 16, true⟩ = 3 ∧ nReader ⟨0, 3, 16, false⟩ = 1 := by decide

/-! ## the replay of the driver -/

/-- an observation accepted by the driver (the file of the batch numbered 0, 1, 2, … in a run of the real code) is the end
of an execution of the transition system with the number of readers derived from the options: everything above applies -/
theorem replay_is_execution (ks : List Nat) (nreader : Nat) (trace : List Nat) (s : St (Nat × Nat))
    (h : replay ks nreader trace = some s) :
    Reach (init (tagged ks) nreader) s ∧ s.endedOk ∧ s.out.map (fun p => p.2.1) = trace := replay_reach h

example : (replay [2, 2, 1] 2 [0, 1, 1, 0, 2]).isSome = true := by decide
/-- file 2 cannot push before file 0 or file 1 has been read completely when there are two readers -/
example : (replay [2, 2, 1] 2 [0, 1, 2, 1, 0]).isSome = false := by decide
/-- … and with one reader the files come one after the other -/
example : (replay [2, 2] 1 [0, 1, 0, 1]).isSome = false := by decide
example : (replay [2, 0, 2] 1 [0, 0, 2, 2]).isSome = true := by decide

/-! ## end to end for FASTA texts -/

open ObiVerif.Chunk ObiVerif.Parse ObiVerif.Props.C01 in
/-- what the reader of ONE well-formed FASTA file hands over, for a read buffer of `b` bytes: the batches `bs` that
`SortBatches` releases from EVERY arrival order of the parsed chunks; their records are those of the one-chunk parse
(`reader_independent_wellFormed`) -/
def FastaReads (b : Nat) (d : Seq) (bs : List (List Rec)) : Prop :=
  ∃ cs, chunks splitFasta b d = some cs ∧
    (∀ ks : List Nat, ks.Perm (List.range cs.length) →
      reseq (ks.map fun k => (k, parseFasta (cs.getD k []))) = bs.map Except.ok) ∧
    parseFasta d = .ok bs.flatten

open ObiVerif.Chunk ObiVerif.Parse ObiVerif.Props.C01 in
/-- file by file: `bss[i]` is what the reader of `ds[i]` hands over -/
inductive AllFastaReads (b : Nat) : List Seq → List (List (List Rec)) → Prop where
  | nil : AllFastaReads b [] []
  | cons {d : Seq} {bs : List (List Rec)} {ds : List Seq} {bss : List (List (List Rec))} :
      FastaReads b d bs → AllFastaReads b ds bss → AllFastaReads b (d :: ds) (bs :: bss)

open ObiVerif.Chunk ObiVerif.Parse ObiVerif.Props.C01 in
theorem fasta_reads_exists (b : Nat) (hb : 2 ≤ b) (d : Seq) (hw : WellFormedFasta d) : ∃ bs, FastaReads b d bs := by
  obtain ⟨cs, hcs, h⟩ := reader_independent_wellFormed d hw b hb
  obtain ⟨rss, h1, h2⟩ := h (List.range cs.length) (List.Perm.refl _)
  refine ⟨rss, cs, hcs, ?_, h2⟩
  intro ks hp
  rw [← h1, reseq_perm (fun k => parseFasta (cs.getD k [])) cs.length ks hp,
    reseq_perm (fun k => parseFasta (cs.getD k [])) cs.length (List.range cs.length) (List.Perm.refl _)]

open ObiVerif.Chunk ObiVerif.Parse ObiVerif.Props.C01 in
/-- the records of the one-chunk parse of a text -/
def oneChunk (d : Seq) : List Rec :=
  match parseFasta d with
  | .ok l => l
  | .error _ => []

open ObiVerif.Chunk ObiVerif.Parse ObiVerif.Props.C01 in
/-- **end to end, several FASTA files.**  `ds`: any list of well-formed FASTA texts; each is read with its own buffer size
≥ 2 and any arrival order of its parsed chunks (`FastaReads`); `nreader ≥ 1` file readers in any interleaving; any arrival
order `arr` of the renumbered batches at the ordering consumer.  The records released are a permutation of the records of
the one-chunk parses of the files - nothing lost, nothing twice, nothing that depends on a chunk boundary -, the records of
every file in the order of the file, and the concatenation in list order with one reader -/
theorem cli_fasta_records (ds : List Seq) (bss : List (List (List Rec))) (b : Nat)
    (hfiles : AllFastaReads b ds bss) (nreader : Nat) (hn : 1 ≤ nreader)
    (s : St (List Rec)) (hr : Reach (init (bss.map fun bs => FileRes.stream bs .ok) nreader) s) (hend : s.endedOk)
    (arr : List (Nat × List Rec)) (harr : arr.Perm s.out) :
    (reseq arr).flatten.Perm (ds.map oneChunk).flatten ∧
    (∀ d ∈ ds, (oneChunk d).Sublist (reseq arr).flatten) ∧
    (nreader = 1 → (reseq arr).flatten = (ds.map oneChunk).flatten) := by
  have hmap : ∀ (ds : List Seq) (bss : List (List (List Rec))), AllFastaReads b ds bss →
      (bss.map fun bs => bs.flatten) = ds.map oneChunk := by
    intro ds bss h
    induction h with
    | nil => rfl
    | cons hab _ ih =>
      obtain ⟨cs, _, _, hp⟩ := hab
      simp only [List.map_cons, ih, oneChunk, hp]
  have hm := hmap ds bss hfiles
  obtain ⟨h1, h2, h3⟩ := files_records_flat (bss.map fun bs => FileRes.stream bs .ok) nreader hn s hr hend arr harr
  have hfl : ((bss.map fun bs => FileRes.stream bs Outcome.ok).map fun f => f.batches.flatten) = ds.map oneChunk := by
    rw [List.map_map, ← hm]; rfl
  rw [hfl] at h1 h3
  refine ⟨h1, ?_, h3⟩
  intro d hd
  have : oneChunk d ∈ bss.map fun bs => bs.flatten := by rw [hm]; exact List.mem_map_of_mem hd
  obtain ⟨bs, hbs, hbe⟩ := List.mem_map.mp this
  have := h2 (FileRes.stream bs .ok) (List.mem_map_of_mem hbs)
  simpa [FileRes.batches, hbe] using this

end ObiVerif.Props.C01Glue
