def hello := "world"
