/-!
# Specification vocabulary for pairwise alignment paths (C08)

A path is the run-length list the Go aligner returns: pairs `(indel, diag)`; `indel < 0` consumes
`-indel` bases of A alone (gap in B), `indel > 0` consumes `indel` bases of B alone (gap in A), then
`diag ≥ 0` columns consume one base of each read.

Scoring is parametric: `s i j` is the score of the column A[i]/B[j], `cA j` the cost of one base of A
alone when `j` bases of B are already consumed, `cB i` the cost of one base of B alone when `i` bases
of A are consumed.  The two end-gap-free schemes of `pairedendalign.go` are instances (`Model/PEAlign`).
-/
namespace ObiVerif.Align

abbrev Path := List Int

/-- pairs, every diagonal run non-negative -/
def wf : Path → Bool
  | [] => true
  | [_] => false
  | _ :: d :: rest => decide (0 ≤ d) && wf rest

/-- bases of A used by the path -/
def usedA : Path → Nat
  | ind :: d :: rest => (-ind).toNat + d.toNat + usedA rest
  | _ => 0

/-- bases of B used by the path -/
def usedB : Path → Nat
  | ind :: d :: rest => ind.toNat + d.toNat + usedB rest
  | _ => 0

/-- the path consumes both reads exactly -/
def consumes (p : Path) (la lb : Nat) : Prop := wf p = true ∧ usedA p = la ∧ usedB p = lb

instance (p : Path) (la lb : Nat) : Decidable (consumes p la lb) := by unfold consumes; infer_instance

/-- number of alignment columns -/
def ncols : Path → Nat
  | ind :: d :: rest => ind.natAbs + d.toNat + ncols rest
  | _ => 0

/-- score of `n` diagonal columns starting at (i, j) -/
def runD (s : Nat → Nat → Int) : Nat → Nat → Nat → Int
  | 0, _, _ => 0
  | n + 1, i, j => s i j + runD s n (i + 1) (j + 1)

/-- score of a path segment starting when `i` bases of A and `j` bases of B are consumed -/
def scoreFrom (s : Nat → Nat → Int) (cA cB : Nat → Int) : Nat → Nat → Path → Int
  | i, j, ind :: d :: rest =>
    (-ind).toNat * cA j + ind.toNat * cB i
      + runD s d.toNat (i + (-ind).toNat) (j + ind.toNat)
      + scoreFrom s cA cB (i + (-ind).toNat + d.toNat) (j + ind.toNat + d.toNat) rest
  | _, _, _ => 0

/-- score of a whole path -/
def scoreOf (s : Nat → Nat → Int) (cA cB : Nat → Int) (p : Path) : Int := scoreFrom s cA cB 0 0 p

end ObiVerif.Align
