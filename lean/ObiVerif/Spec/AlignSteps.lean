import ObiVerif.Spec.Align
/-!
# Alignment paths as lattice walks (C08, error-free reassembly)

A run-length path `(indel, diag) …` is a monotone walk in the DP lattice: step `A` consumes one base of A
alone (`i+1`), `B` one base of B alone (`j+1`), `D` one base of each.  Two run-length lists describe the
same alignment exactly when their walks are equal (`[0,0,-2,3]` and `[-2,3]`).

`strictAlong M … 0 0 steps` is the **decidable uniqueness hypothesis** used by the error-free reassembly
theorems: in every cell the walk enters, the candidate of the recurrence that comes from the walk's
predecessor is *strictly* better than the other candidates that exist in that cell.  It is the same
condition as "the independent DP counts exactly one optimal path" (oracle of `harness/c08.go`).
-/
namespace ObiVerif.Align

inductive Step where
  | A | B | D
  deriving DecidableEq, Repr

def Step.di : Step → Nat
  | .A => 1 | .B => 0 | .D => 1

def Step.dj : Step → Nat
  | .A => 0 | .B => 1 | .D => 1

/-- the lattice walk of a run-length path -/
def stepsOf : Path → List Step
  | ind :: d :: rest =>
    List.replicate (-ind).toNat Step.A ++ List.replicate ind.toNat Step.B ++ List.replicate d.toNat Step.D
      ++ stepsOf rest
  | _ => []

/-- where a walk started in (i, j) ends -/
def walk : Nat → Nat → List Step → Nat × Nat
  | i, j, [] => (i, j)
  | i, j, t :: ts => walk (i + t.di) (j + t.dj) ts

/-- score of one step taken from cell (i, j) -/
def stepScore (s : Nat → Nat → Int) (cA cB : Nat → Int) (i j : Nat) : Step → Int
  | .A => cA j
  | .B => cB i
  | .D => s i j

def walkScore (s : Nat → Nat → Int) (cA cB : Nat → Int) : Nat → Nat → List Step → Int
  | _, _, [] => 0
  | i, j, t :: ts => stepScore s cA cB i j t + walkScore s cA cB (i + t.di) (j + t.dj) ts

/-- the candidate value of the recurrence in cell (i, j) for an arrival by step `t`
(`none`: that predecessor does not exist) -/
def cand (M : Nat → Nat → Int) (s : Nat → Nat → Int) (cA cB : Nat → Int) (i j : Nat) : Step → Option Int
  | .A => if 0 < i then some (M (i - 1) j + cA j) else none
  | .B => if 0 < j then some (M i (j - 1) + cB i) else none
  | .D => if 0 < i ∧ 0 < j then some (M (i - 1) (j - 1) + s (i - 1) (j - 1)) else none

/-- arriving in cell (i, j) by `t` is the strict winner of the recurrence there -/
def strictAt (M : Nat → Nat → Int) (s : Nat → Nat → Int) (cA cB : Nat → Int) (i j : Nat) (t : Step) : Bool :=
  match cand M s cA cB i j t with
  | none => false
  | some v =>
    [Step.A, Step.B, Step.D].all fun u =>
      decide (u = t) || (match cand M s cA cB i j u with
        | none => true
        | some w => decide (w < v))

/-- `strictAt` in every cell entered by the walk started in (i, j) -/
def strictAlong (M : Nat → Nat → Int) (s : Nat → Nat → Int) (cA cB : Nat → Int) : Nat → Nat → List Step → Bool
  | _, _, [] => true
  | i, j, t :: ts =>
    strictAt M s cA cB (i + t.di) (j + t.dj) t && strictAlong M s cA cB (i + t.di) (j + t.dj) ts

end ObiVerif.Align
