/-!
# JSON text as the title-line scanner sees it (property C02)

The scanner of `_parse_json_header_` only distinguishes `{`, `}`, `"` and — inside a string — `\`.
A JSON text is therefore described as a list of tokens: string literals (whose body has every `"` and `\`
preceded by a backslash — what any JSON encoder emits), opening / closing braces, and any other byte.
Nesting is not bounded; the value grammar of JSON is deliberately not described (it is the business of the
JSON library, which is a parameter of the model).
-/
namespace ObiVerif.JsonTok

abbrev Bytes := List UInt8

/-- body of a string literal as an encoder emits it: `"` (34) and `\` (92) only occur escaped,
    i.e. a backslash is always followed by one more byte of the body -/
inductive EscOK : Bytes → Prop
  | nil : EscOK []
  | esc (c : UInt8) (t : Bytes) : EscOK t → EscOK (92 :: c :: t)
  | plain (c : UInt8) (t : Bytes) : c ≠ 92 → c ≠ 34 → EscOK t → EscOK (c :: t)

inductive Tok
  | str (body : Bytes)     -- "body"
  | opn                    -- {
  | cls                    -- }
  | other (c : UInt8)      -- any byte except { } "
deriving Repr

def Tok.flat : Tok → Bytes
  | .str b => 34 :: (b ++ [34])
  | .opn => [123]
  | .cls => [125]
  | .other c => [c]

def Tok.ok : Tok → Prop
  | .str b => EscOK b
  | .other c => c ≠ 34 ∧ c ≠ 123 ∧ c ≠ 125
  | _ => True

def flat (ts : List Tok) : Bytes := ts.flatMap Tok.flat

/-- from nesting level `n ≥ 1`, the tokens return to level 0 exactly at the last token -/
def ClosesAt : Nat → List Tok → Prop
  | _, [] => False
  | n, .cls :: ts => if n = 1 then ts = [] else ClosesAt (n - 1) ts
  | n, .opn :: ts => ClosesAt (n + 1) ts
  | n, _ :: ts => ClosesAt n ts

/-- a token list that forms one balanced object: `{`, then tokens that close it exactly at the end
    (no proper prefix is balanced), every string body properly escaped -/
def BalancedObj (ts : List Tok) : Prop :=
  ∃ body, ts = .opn :: body ∧ (∀ t ∈ body, t.ok) ∧ ClosesAt 1 body

end ObiVerif.JsonTok
