/-! line protocol for C17 (stub: no model yet) -/
namespace ObiVerif.Driver.C17

def run (_line : String) : String := "bad-op"

end ObiVerif.Driver.C17
