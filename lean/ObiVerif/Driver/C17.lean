import ObiVerif.Model.ReadErr
import ObiVerif.Driver.Util
/-! line protocol for C17 -/
namespace ObiVerif.Driver.C17
open ObiVerif.ReadErr ObiVerif.Driver

def parseErr : String → Option Err
  | "eof" => some .eof | "ueof" => some .ueof | "other" => some .other | _ => none

def kv (key : String) (s : String) : Option Nat :=
  if s.startsWith (key ++ "=") then (s.drop (key.length + 1)).toString.toNat? else none

def run (line : String) : String :=
  match words line with
  | ["chunk", b, _, d, e] =>
    match kv "b" b, unhex d, parseErr e with
    | some b, some d, some e =>
      if b < 2 then "bad-op" else
      let (cs, o) := readChunks endOfLastFastaEntry b ⟨d, e⟩
      let pre := match o with | .ok => "ok" | .fatal => "fatal"
      joinSp (pre :: cs.map hex)
    | _, _, _ => "bad-op"
  | ["guess", _, d, e] =>
    match unhex d, parseErr e with
    | some d, some e => (match guessPeek 1048576 ⟨d, e⟩ with | .ok => "ok" | .fatal => "fail")
    | _, _ => "bad-op"
  | ["file", _, _, _, n, e] =>
    -- the decompressor's behaviour on the damaged file is data: `n` bytes then error class `e`
    if e = "err=raw" then "raw" else
    match kv "n" n, (if e.startsWith "err=" then parseErr (e.drop 4).toString else none) with
    | some n, some e =>
      if n = 0 then (if e = .eof then "empty" else "fail")
      else (match guessPeek 1048576 ⟨List.replicate n 0, e⟩ with | .ok => "ok" | .fatal => "fail")
    | _, _ => "bad-op"
  | ["kseq", _, _, c, o] =>
    -- zlib reports every stream shorter than the whole file as truncated (data given by the harness);
    -- the reader's rule: any pending stream error is fatal, a clean end is ok
    match kv "cut" c, kv "of" o with
    | some c, some o => if c < o then "fail" else "ok"
    | _, _ => "bad-op"
  | "cmd" :: _ => "exit-nonzero"
  | _ => "bad-op"

end ObiVerif.Driver.C17
