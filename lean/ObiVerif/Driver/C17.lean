import ObiVerif.Model.ReadErr
import ObiVerif.Model.Kseq
import ObiVerif.Model.KseqIdx
import ObiVerif.Model.ReadMulti
import ObiVerif.Model.ReadGlue
import ObiVerif.Driver.Util
/-! line protocol for C17 -/
namespace ObiVerif.Driver.C17
open ObiVerif.ReadErr ObiVerif.Driver

def parseErr : String → Option Err
  | "eof" => some .eof | "ueof" => some .ueof | "other" => some .other | _ => none

def kv (key : String) (s : String) : Option Nat :=
  if s.startsWith (key ++ "=") then (s.drop (key.length + 1)).toString.toNat? else none

/-- the error classes of the decompression libraries (`harness/c17_multi.go`, `c17LibScan`) -/
def parseLibErr : String → Option LibErr
  | "eof" => some .eof | "ueof" => some .ueof | "header" => some .header | "checksum" => some .checksum
  | "corrupt" => some .corrupt | "other" => some .other | _ => none

/-- `ReadSequencesFromFile` on a file whose members decode to `sizes` bytes, the library delivering `n` bytes of the
whole file and ending with `e` (`sizes = []`: a single member of unknown size) -/
def runFile (sizes : List Nat) (n : Nat) (e : LibErr) : String :=
  match readMulti endOfLastFastaEntry 1048576 1048576 (membersOf 62 sizes n e) with
  | .empty => "empty"
  | .fail => "fail"
  | .read r => if r.2 == .ok then "ok" else "fail"

def parseFin : String → Option Kseq.Fin
  | "fin=clean" => some .clean | "fin=trunc" => some .trunc | "fin=hard" => some .hard | _ => none

def showRec (r : Kseq.Rec) : String :=
  let g := Kseq.goRec r
  hex g.1 ++ "/" ++ hex g.2.1 ++ "/" ++ hex g.2.2.1 ++ "/" ++ hex g.2.2.2

def sameRec (x y : Kseq.Rec) : Bool := x.name == y.name && x.comment == y.comment && x.seq == y.seq && x.qual == y.qual

def sameRecs : List Kseq.Rec → List Kseq.Rec → Bool
  | [], [] => true
  | x :: xs, y :: ys => sameRec x y && sameRecs xs ys
  | _, _ => false

def sameRun (x y : List Kseq.Rec × Kseq.Outcome) : Bool := x.2 == y.2 && sameRecs x.1 y.1

/-- the C reader on the bytes zlib delivers (`d`) and zlib's final status; kseq's buffer is 4096 bytes.
The index-level transcription (Model/KseqIdx.lean) is run side by side with the list model (they are proved equal:
`kseqIdx_refines`) on inputs of at most 16 buffers (the termination measure of both loops walks the reads to come at
every record); a difference is the result `layer-mismatch` -/
def runKseq (fin : Kseq.Fin) (d : List UInt8) : String :=
  let small := d.length ≤ 65536
  let a := Kseq.readAll 4096 fin false 0 d
  let okA := !small || sameRun a (KseqIdx.readAllI 4096 fin false (Array.replicate 4096 0) d)
  if !okA then "layer-mismatch" else
  match fin with
  | .clean =>
    -- (`kseq_clean_early_irrelevant`: the timing of gzerror does not matter on a clean stream)
    (match a.2 with
     | .ok => joinSp ("ok" :: toString a.1.length :: a.1.map showRec)
     | .fatal c => "fatal:" ++ toString c
     | .stuck => "stuck")
  | _ =>
    let b := Kseq.readAll 4096 fin true 255 d
    let okB := !small || sameRun b (KseqIdx.readAllI 4096 fin true (Array.replicate 4096 255) d)
    if !okB then "layer-mismatch" else
    (match a.2, b.2 with
     | .fatal _, .fatal _ => "fatal"
     | .stuck, _ | _, .stuck => "stuck"
     | _, _ => "accepted")

/-! ### `glue` cases: obiconvert on several inputs (`Model/ReadGlue.lean`) -/

open ObiVerif.ReadGlue in
/-- one input of a `glue` case -/
inductive GlueIn
  | bad                          -- a path that cannot be opened
  | lied                         -- the library hides the damage: no opinion
  | mismatch                     -- the closed form and the transcription differ (never: `openFile_cls`)
  | file (r : FileRes Nat)

/-- the batches of a file of `nrec` records (what a batch holds: its number of records) -/
def glueBatches (nrec : Nat) : List Nat :=
  List.replicate (nrec / 5000) 5000 ++ (if nrec % 5000 = 0 then [] else [nrec % 5000])

open ObiVerif.ReadGlue in
def glueInput (mode : Mode) (tok : String) : Option GlueIn :=
  match tok with
  | "empty" => some (.file (.stream [] .ok))
  | "missing" | "dangling" => some .bad
  | _ =>
    match tok.splitOn ":" with
    | [_, _, nrec, _, n, e, len] =>
      match nrec.toNat?, kv "n" n, kv "len" len, (if e.startsWith "e=" then some (e.drop 2).toString else none) with
      | some nrec, some n, some len, some e =>
        if e = "raw" || e = "altered" then some .lied else
        match parseLibErr e with
        | none => none
        | some le =>
          if le = .eof && n != len then some .lied else
          let cls := openClass mode 1048576 n (bufErr le)
          -- the transcription itself on the small streams (the closed form is proved equal for every stream)
          let same := n > 65536 ||
            (openFile mode endOfLastFastaEntry 1048576 1048576 ⟨List.replicate n 62, bufErr le⟩).cls == cls
          if !same then some .mismatch else
          some (.file (match cls with
            | .good => .stream (glueBatches nrec) .ok
            | .openErr => .openErr
            | .openFatal => .openFatal
            | .streamFatal => .stream (glueBatches (nrec * n / (len + 1))) .fatal))
      | _, _, _, _ => none
    | _ => none

open ObiVerif.ReadGlue in
def glueShow (o : CmdOut Nat) (extra : Nat) (files : List (FileRes Nat)) (ordered : Bool) : String :=
  match o with
  | .fatal => "exit-nonzero"
  | .ok bs =>
    "exit0 " ++ toString (bs.sum + extra) ++
      (if ordered && bs == (files.map FileRes.batches).flatten then " inorder" else "")

open ObiVerif.ReadGlue in
def runGlue (m r l : String) (toks : List String) : String :=
  let mode? : Option Mode := match m with
    | "m=guess" => some .guess | "m=fasta" | "m=fastq" => some .forced | _ => none
  let nr? : Option Nat := match r with | "r=1" => some 1 | "r=n" => some 4 | _ => none
  match mode?, nr?, toks.mapM (fun t => mode?.bind (fun md => glueInput md t)) with
  | some _, some nr, some ins =>
    if ins.any (fun i => match i with | .mismatch => true | _ => false) then "layer-mismatch" else
    if ins.any (fun i => match i with | .lied => true | _ => false) then "lib-clean" else
    let bad := ins.any (fun i => match i with | .bad => true | _ => false)
    let files := ins.filterMap (fun i => match i with | .file f => some f | _ => none)
    let paired := l == "l=paired"
    let (expanded, second, extra) : Option (List (FileRes Nat)) × Option (FileRes Nat) × Nat :=
      if bad then (none, none, 0)
      else if paired then
        (match files with
         | [a, b] => (some [a], some b, b.batches.sum)
         | _ => (none, none, 0))
      else (some files, none, 0)
    let shown := fun (early : Bool) (sched : List Nat) =>
      glueShow (cliRead early sched nr expanded second) extra files (nr == 1 && !paired)
    let a := shown false [0]
    -- the outcome does not depend on the interleaving (`cli_error_rejected`, `cli_clean_ok`): three other schedules
    let others := [shown true [0], shown false [3, 1, 2, 0], shown true [2, 0, 3, 1, 1]]
    let strip := fun (s : String) => if nr == 1 then s else (s.splitOn " inorder").headD s
    if others.all (fun o => strip o == strip a) then a else "sched-mismatch"
  | _, _, _ => "bad-op"

def run (line : String) : String :=
  match words line with
  | "glue" :: m :: r :: l :: toks => runGlue m r l toks
  | ["chunk", b, _, d, e] =>
    match kv "b" b, unhex d, parseErr e with
    | some b, some d, some e =>
      if b < 2 then "bad-op" else
      let (cs, o) := readChunks endOfLastFastaEntry b ⟨d, e⟩
      let pre := match o with | .ok => "ok" | .fatal => "fatal"
      joinSp (pre :: cs.map hex)
    | _, _, _ => "bad-op"
  | ["guess", _, d, e] =>
    match unhex d, parseErr e with
    | some d, some e => (match guessPeek 1048576 ⟨d, e⟩ with | .ok => "ok" | .fatal => "fail")
    | _, _ => "bad-op"
  | ["file", _, _, _, n, e] =>
    -- the decompressor's behaviour on the damaged file is data: `n` bytes then error class `e`
    if e = "err=raw" then "raw" else if e = "err=altered" then "altered" else
    match kv "n" n, (if e.startsWith "err=" then parseLibErr (e.drop 4).toString else none) with
    | some n, some e => runFile [] n e
    | _, _ => "bad-op"
  | ["file", _, _, _, n, e, ms] =>
    -- multi-member file: `ms=` the decoded sizes of the members
    if e = "err=raw" then "raw" else if e = "err=altered" then "altered" else
    match kv "n" n, (if e.startsWith "err=" then parseLibErr (e.drop 4).toString else none),
        (if ms.startsWith "ms=" then nats? ((ms.drop 3).toString.splitOn ",") else none) with
    | some n, some e, some sizes => runFile sizes n e
    | _, _, _ => "bad-op"
  | ["kseq", _, _, _, f, d] =>
    -- zlib's verdict on the (damaged) file is data: the bytes its gzread calls deliver and the final gzerror
    match parseFin f, (if d.startsWith "d=" then unhex (d.drop 2).toString else none) with
    | some f, some d => runKseq f d
    | _, _ => "bad-op"
  | "cmd" :: rest =>
    -- `zfin=clean`: the input goes through zlib (gzip on the standard input) and zlib itself delivers the damaged file with a
    -- clean end (verdict of the external library, data for the model: the toolkit reports every error zlib reports)
    if rest.getLast? = some "none" ∨ rest.getLast? = some "zfin=clean" then "exit0" else "exit-nonzero"
  | _ => "bad-op"

end ObiVerif.Driver.C17
