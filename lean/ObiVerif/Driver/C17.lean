import ObiVerif.Model.ReadErr
import ObiVerif.Model.Kseq
import ObiVerif.Model.KseqIdx
import ObiVerif.Model.ReadMulti
import ObiVerif.Driver.Util
/-! line protocol for C17 -/
namespace ObiVerif.Driver.C17
open ObiVerif.ReadErr ObiVerif.Driver

def parseErr : String → Option Err
  | "eof" => some .eof | "ueof" => some .ueof | "other" => some .other | _ => none

def kv (key : String) (s : String) : Option Nat :=
  if s.startsWith (key ++ "=") then (s.drop (key.length + 1)).toString.toNat? else none

/-- the error classes of the decompression libraries (`harness/c17_multi.go`, `c17LibScan`) -/
def parseLibErr : String → Option LibErr
  | "eof" => some .eof | "ueof" => some .ueof | "header" => some .header | "checksum" => some .checksum
  | "corrupt" => some .corrupt | "other" => some .other | _ => none

/-- `ReadSequencesFromFile` on a file whose members decode to `sizes` bytes, the library delivering `n` bytes of the
whole file and ending with `e` (`sizes = []`: a single member of unknown size) -/
def runFile (sizes : List Nat) (n : Nat) (e : LibErr) : String :=
  match readMulti endOfLastFastaEntry 1048576 1048576 (membersOf 62 sizes n e) with
  | .empty => "empty"
  | .fail => "fail"
  | .read r => if r.2 == .ok then "ok" else "fail"

def parseFin : String → Option Kseq.Fin
  | "fin=clean" => some .clean | "fin=trunc" => some .trunc | "fin=hard" => some .hard | _ => none

def showRec (r : Kseq.Rec) : String :=
  let g := Kseq.goRec r
  hex g.1 ++ "/" ++ hex g.2.1 ++ "/" ++ hex g.2.2.1 ++ "/" ++ hex g.2.2.2

def sameRec (x y : Kseq.Rec) : Bool := x.name == y.name && x.comment == y.comment && x.seq == y.seq && x.qual == y.qual

def sameRecs : List Kseq.Rec → List Kseq.Rec → Bool
  | [], [] => true
  | x :: xs, y :: ys => sameRec x y && sameRecs xs ys
  | _, _ => false

def sameRun (x y : List Kseq.Rec × Kseq.Outcome) : Bool := x.2 == y.2 && sameRecs x.1 y.1

/-- the C reader on the bytes zlib delivers (`d`) and zlib's final status; kseq's buffer is 4096 bytes.
The index-level transcription (Model/KseqIdx.lean) is run side by side with the list model (they are proved equal:
`kseqIdx_refines`) on inputs of at most 16 buffers (the termination measure of both loops walks the reads to come at
every record); a difference is the result `layer-mismatch` -/
def runKseq (fin : Kseq.Fin) (d : List UInt8) : String :=
  let small := d.length ≤ 65536
  let a := Kseq.readAll 4096 fin false 0 d
  let okA := !small || sameRun a (KseqIdx.readAllI 4096 fin false (Array.replicate 4096 0) d)
  if !okA then "layer-mismatch" else
  match fin with
  | .clean =>
    -- (`kseq_clean_early_irrelevant`: the timing of gzerror does not matter on a clean stream)
    (match a.2 with
     | .ok => joinSp ("ok" :: toString a.1.length :: a.1.map showRec)
     | .fatal c => "fatal:" ++ toString c
     | .stuck => "stuck")
  | _ =>
    let b := Kseq.readAll 4096 fin true 255 d
    let okB := !small || sameRun b (KseqIdx.readAllI 4096 fin true (Array.replicate 4096 255) d)
    if !okB then "layer-mismatch" else
    (match a.2, b.2 with
     | .fatal _, .fatal _ => "fatal"
     | .stuck, _ | _, .stuck => "stuck"
     | _, _ => "accepted")

def run (line : String) : String :=
  match words line with
  | ["chunk", b, _, d, e] =>
    match kv "b" b, unhex d, parseErr e with
    | some b, some d, some e =>
      if b < 2 then "bad-op" else
      let (cs, o) := readChunks endOfLastFastaEntry b ⟨d, e⟩
      let pre := match o with | .ok => "ok" | .fatal => "fatal"
      joinSp (pre :: cs.map hex)
    | _, _, _ => "bad-op"
  | ["guess", _, d, e] =>
    match unhex d, parseErr e with
    | some d, some e => (match guessPeek 1048576 ⟨d, e⟩ with | .ok => "ok" | .fatal => "fail")
    | _, _ => "bad-op"
  | ["file", _, _, _, n, e] =>
    -- the decompressor's behaviour on the damaged file is data: `n` bytes then error class `e`
    if e = "err=raw" then "raw" else if e = "err=altered" then "altered" else
    match kv "n" n, (if e.startsWith "err=" then parseLibErr (e.drop 4).toString else none) with
    | some n, some e => runFile [] n e
    | _, _ => "bad-op"
  | ["file", _, _, _, n, e, ms] =>
    -- multi-member file: `ms=` the decoded sizes of the members
    if e = "err=raw" then "raw" else if e = "err=altered" then "altered" else
    match kv "n" n, (if e.startsWith "err=" then parseLibErr (e.drop 4).toString else none),
        (if ms.startsWith "ms=" then nats? ((ms.drop 3).toString.splitOn ",") else none) with
    | some n, some e, some sizes => runFile sizes n e
    | _, _, _ => "bad-op"
  | ["kseq", _, _, _, f, d] =>
    -- zlib's verdict on the (damaged) file is data: the bytes its gzread calls deliver and the final gzerror
    match parseFin f, (if d.startsWith "d=" then unhex (d.drop 2).toString else none) with
    | some f, some d => runKseq f d
    | _, _ => "bad-op"
  | "cmd" :: rest => if rest.getLast? = some "none" then "exit0" else "exit-nonzero"
  | _ => "bad-op"

end ObiVerif.Driver.C17
