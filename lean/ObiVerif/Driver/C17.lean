import ObiVerif.Model.ReadErr
import ObiVerif.Model.Kseq
import ObiVerif.Driver.Util
/-! line protocol for C17 -/
namespace ObiVerif.Driver.C17
open ObiVerif.ReadErr ObiVerif.Driver

def parseErr : String → Option Err
  | "eof" => some .eof | "ueof" => some .ueof | "other" => some .other | _ => none

def kv (key : String) (s : String) : Option Nat :=
  if s.startsWith (key ++ "=") then (s.drop (key.length + 1)).toString.toNat? else none

def parseFin : String → Option Kseq.Fin
  | "fin=clean" => some .clean | "fin=trunc" => some .trunc | "fin=hard" => some .hard | _ => none

def showRec (r : Kseq.Rec) : String :=
  let g := Kseq.goRec r
  hex g.1 ++ "/" ++ hex g.2.1 ++ "/" ++ hex g.2.2.1 ++ "/" ++ hex g.2.2.2

/-- the C reader on the bytes zlib delivers (`d`) and zlib's final status; kseq's buffer is 4096 bytes -/
def runKseq (fin : Kseq.Fin) (d : List UInt8) : String :=
  let a := Kseq.readAll 4096 fin false 0 d
  let b := Kseq.readAll 4096 fin true 255 d
  match fin with
  | .clean =>
    (match a.2 with
     | .ok => joinSp ("ok" :: toString a.1.length :: a.1.map showRec)
     | .fatal c => "fatal:" ++ toString c
     | .stuck => "stuck")
  | _ =>
    (match a.2, b.2 with
     | .fatal _, .fatal _ => "fatal"
     | .stuck, _ | _, .stuck => "stuck"
     | _, _ => "accepted")

def run (line : String) : String :=
  match words line with
  | ["chunk", b, _, d, e] =>
    match kv "b" b, unhex d, parseErr e with
    | some b, some d, some e =>
      if b < 2 then "bad-op" else
      let (cs, o) := readChunks endOfLastFastaEntry b ⟨d, e⟩
      let pre := match o with | .ok => "ok" | .fatal => "fatal"
      joinSp (pre :: cs.map hex)
    | _, _, _ => "bad-op"
  | ["guess", _, d, e] =>
    match unhex d, parseErr e with
    | some d, some e => (match guessPeek 1048576 ⟨d, e⟩ with | .ok => "ok" | .fatal => "fail")
    | _, _ => "bad-op"
  | ["file", _, _, _, n, e] =>
    -- the decompressor's behaviour on the damaged file is data: `n` bytes then error class `e`
    if e = "err=raw" then "raw" else
    match kv "n" n, (if e.startsWith "err=" then parseErr (e.drop 4).toString else none) with
    | some n, some e =>
      -- `ReadSequencesFromFile` on a stream of `n` bytes ending with `e` (the verdict does not depend on the bytes)
      (match readFile endOfLastFastaEntry 1048576 1048576 ⟨List.replicate n 62, e⟩ with
       | .empty => "empty"
       | .fail => "fail"
       | .read r => if r.2 == .ok then "ok" else "fail")
    | _, _ => "bad-op"
  | ["kseq", _, _, _, f, d] =>
    -- zlib's verdict on the (damaged) file is data: the bytes its gzread calls deliver and the final gzerror
    match parseFin f, (if d.startsWith "d=" then unhex (d.drop 2).toString else none) with
    | some f, some d => runKseq f d
    | _, _ => "bad-op"
  | "cmd" :: _ => "exit-nonzero"
  | _ => "bad-op"

end ObiVerif.Driver.C17
