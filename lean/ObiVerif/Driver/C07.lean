import ObiVerif.Model.SeqOps
import ObiVerif.Model.SeqHeap
import ObiVerif.Model.SeqAnnot
import ObiVerif.Model.SeqHeapMut
import ObiVerif.Model.SeqAnnTree
import ObiVerif.Driver.Util
/-! line protocol for C07 -/
namespace ObiVerif.Driver.C07
open ObiVerif.SeqOps ObiVerif.Driver

/-- parse one operation of an object history -/
def parseOp (op : String) : Option Op :=
  match op.splitOn ":" with
  | ["new", a, s, q] => do
    let sb ← unhex s
    let qb ← if q = "-" then some none else (unhex q).map some
    pure (.new a sb qb)
  | ["copy", a, b] => some (.copy a b)
  | ["rc", a, b] => some (.rc a b)
  | ["rci", a] => some (.rci a)
  | ["sub", a, b, f, t, c] => do
    let f ← f.toInt?
    let t ← t.toInt?
    pure (.sub a b f t (c == "1"))
  | ["set", a, p, v] => do
    let p ← p.toNat?
    let v ← v.toNat?
    pure (.set a p (UInt8.ofNat v))
  | ["recycle", a] => some (.recycle a)
  | ["mapset", a, key, k, v] => do
    let v ← v.toInt?
    pure (.mapset a key k v)
  | _ => none

def histStep (st : Store) (op : String) : Except HErr Store :=
  match parseOp op with
  | some o => applyOp st o
  | none => .error .badOp

def insStr {β} (p : String × β) : List (String × β) → List (String × β)
  | [] => [p]
  | x :: xs => if p.1 ≤ x.1 then p :: x :: xs else x :: insStr p xs

def showAnn (a : Ann) : String :=
  ";".intercalate ((a.foldr insStr []).map fun (key, m) =>
    key ++ "{" ++ ",".intercalate ((m.foldr insStr []).map fun (k, v) => s!"{k}:{v}") ++ "}")

def showObj (p : String × Obj) : String :=
  s!"{p.1}={hex p.2.seq}/{match p.2.qual with | some q => hex q | none => "none"}/{showAnn p.2.ann}"

def insByName (p : String × Obj) : Store → Store
  | [] => [p]
  | x :: xs => if p.1 ≤ x.1 then p :: x :: xs else x :: insByName p xs


/-! ### whole objects (`Model/SeqAnnot.lean`) -/

open ObiVerif.SeqAnnot in
/-- `-` = attribute absent, `0` = empty map, otherwise `keyhex:pos,keyhex:pos,…` -/
def parseMm (w : String) : Option (Option Mm) :=
  if w = "-" then some none
  else if w = "0" then some (some [])
  else (w.splitOn ",").mapM (fun (e : String) => match e.splitOn ":" with
    | [k, p] => do
      let kb ← unhex k
      let pv ← p.toInt?
      pure (kb, pv)
    | _ => none) |>.map some

open ObiVerif.SeqAnnot in
def showMm : Option Mm → String
  | none => "-"
  | some [] => "0"
  | some m => ",".intercalate (((m.map fun kp => (hex kp.1, kp.2)).foldr insStr []).map fun kp => s!"{kp.1}:{kp.2}")

def hasDup : List Bytes → Bool
  | [] => false
  | k :: t => t.contains k || hasDup t

open ObiVerif.SeqAnnot in
def showW (o : WObj) : String :=
  s!"{hex o.seq} {if o.qual.isEmpty then "-" else hex o.qual} {showMm o.mm}"

open ObiVerif.SeqAnnot in
def parseW (s q mm : String) : Option WObj := do
  let sb ← unhex s
  let qb ← if q = "-" then some [] else unhex q
  let m ← parseMm mm
  pure ⟨sb.map lower, qb, m, []⟩

open ObiVerif.SeqAnnot in
/-- a Go map cannot hold two entries under one key: when two keys are rewritten to the same key the
outcome depends on the iteration order (`collision`) -/
def showRcW (o : WObj) : String :=
  match rcW o with
  | none => "panic"
  | some r => if hasDup ((r.mm.getD []).map (·.1)) then "collision" else showW r

/-! ### heap histories (`Model/SeqHeap.lean`) -/

open ObiVerif.SeqHeap in
def parseHOp (op : String) : Option HOp :=
  match op.splitOn ":" with
  | ["new", a, s, q] => do
    let sb ← unhex s
    let qb ← if q = "-" then some none else (unhex q).map some
    pure (.new a sb qb)
  | ["copy", a, b] => some (.copy a b)
  | ["rc", a, b] => some (.rc a b)
  | ["rci", a] => some (.rci a)
  | ["sub", a, b, f, t, c] => do
    let f ← f.toInt?
    let t ← t.toInt?
    pure (.sub a b f t (c == "1"))
  | ["set", a, p, v] => do
    let p ← p.toNat?
    let v ← v.toNat?
    pure (.set a p (UInt8.ofNat v))
  | ["recycle", a] => some (.recycle a)
  | ["mapset", a, key, k, v] => do
    let v ← v.toInt?
    pure (.mapset a key k v)
  | ["setqual", a, q] => do
    let q ← unhex q
    pure (.setqual a q)
  | ["setfeat", a, f, g] => do
    let f ← unhex f
    let g ← g.toNat?
    pure (.setfeat a f g)
  | ["scratch", n, v] => do
    let n ← n.toNat?
    let v ← v.toNat?
    pure (.scratch n (UInt8.ofNat v))
  | _ => none

def insName (n : String) : List String → List String
  | [] => [n]
  | x :: xs => if n == x then x :: xs else if n < x then n :: x :: xs else x :: insName n xs

open ObiVerif.SeqHeap in
def showViews (names : List String) (view : String → Option OV) : String :=
  joinSp ((names.foldr insName []).filterMap fun n =>
    (view n).map fun o => s!"{n}={hex o.seq}/{hex o.qual}/{hex o.feat}/{showAnn o.ann}")

open ObiVerif.SeqHeap in
/-- the heap model is run under three pool policies (most recent item; a pseudo-random item; never
reuse) and the value semantics `vrun`; all four must print the same thing (a theorem for the frame
part, executed here for the effect on the target) -/
def runHeap (ops : List String) : String :=
  match ops.mapM parseHOp with
  | none => "bad-op"
  | some hops =>
    let names := hops.filterMap HOp.target
    let out : Except HErr Heap → String := fun r => match r with
      | .ok h => showViews names h.view
      | .error .panic => "panic"
      | .error .badOp => "bad-op"
    let a := out (SeqHeap.run Heap.empty (fun _ _ => 0) 0 hops)
    let b := out (SeqHeap.run Heap.empty (fun i j => (i * 7 + j * 3) % 5) 0 hops)
    let c := out (SeqHeap.run Heap.empty (fun _ j => if j ≥ 8 then 0 else 1000000) 0 hops)
    let v : String := match vrun (fun _ => none) hops with
      | .ok v => showViews names v
      | .error .panic => "panic"
      | .error .badOp => "bad-op"
    if a == b && b == c && c == v then a else s!"MODEL-DIVERGES lifo[{a}] rnd[{b}] fresh[{c}] value[{v}]"


/-! ### mutator histories (`Model/SeqHeapMut.lean`) -/

open ObiVerif.SeqHeap in
/-- one textual operation of a `mut` history = the calls the harness makes, which depend on what the
object shows (`Write` is followed by `WriteQualities` when the object has qualities, …) -/
def expandMut (v : VStore) (op : String) : Option (List MOp) :=
  let f := op.splitOn ":"
  match f with
  | ["new", _, _, _] => (parseHOp op).map fun o => [.base o]
  | _ =>
    match f[1]? >>= v with
    | none => none
    | some oa =>
      let hasQ : Bool := !oa.qual.isEmpty
      match f with
      | ["copy", a, b] => some [.base (.copy a b)]
      | ["rc", a, b] => some [.rcm a b]
      | ["rci", a] => some [.rcim a]
      | ["sub", a, b, fr, t, c] => do
        let fr ← fr.toInt?
        let t ← t.toInt?
        pure [.subm a b fr t (c == "1")]
      | ["write", a, s, q] => do
        let sb ← unhex s
        let qb ← unhex q
        let hadQ := hasQ || (oa.seq.isEmpty && qb.length == sb.length && qb.length > 0)
        pure (if hadQ then [.write a sb, .writequal a (if qb.length == sb.length then qb else List.replicate sb.length 0)]
          else [.write a sb])
      | ["writestring", a, s, q] => do
        let sb ← unhex s
        let qb ← unhex q
        pure (if hasQ then [.write a sb, .writequal a (if qb.length == sb.length then qb else List.replicate sb.length 0)]
          else [.write a sb])
      | ["writebyte", a, b, q] => do
        let b ← b.toNat?
        let q ← q.toNat?
        pure (if hasQ then [.write a [UInt8.ofNat b], .writequal a [UInt8.ofNat q]] else [.write a [UInt8.ofNat b]])
      | ["clear", a] => some (if hasQ then [.clear a, .clearqual a] else [.clear a])
      | ["join", a, b] => if hasQ || (v b).isNone then none else some [.join a b]
      | ["setqual", a, q] => do
        let qb ← unhex q
        if qb.isEmpty || qb.length != oa.seq.length then none else pure [.base (.setqual a qb)]
      | ["setmm", a, p] => do
        let p ← p.toInt?
        pure [.setann a mmKey [("(a:30)->(c:20)", p)]]
      | ["setid", a, _] => some [.setid a]
      | ["setseq", a, s] => do
        let sb ← unhex s
        pure [.setseq a sb]
      | ["set", a, p, x] => do
        let p ← p.toNat?
        let x ← x.toNat?
        pure [.base (.set a p (UInt8.ofNat x))]
      | ["recycle", a] => some [.base (.recycle a)]
      | _ => none

open ObiVerif.SeqHeap in
/-- expansion of a whole history along the value semantics; `none` = bad-op -/
def expandAll : Nat → VStore → List String → List MOp → Option (List MOp)
  | _, _, [], acc => some acc
  | 0, _, _, _ => none
  | fuel + 1, v, op :: ops, acc =>
    match expandMut v op with
    | none => none
    | some ms =>
      match mvrun v ms with
      | .ok v1 => expandAll fuel v1 ops (acc ++ ms)
      | .error _ => some (acc ++ ms)

open ObiVerif.SeqHeap in
def runMut (ops : List String) : String :=
  match expandAll (ops.length + 1) (fun _ => none) ops [] with
  | none => "bad-op"
  | some ms =>
    let names := ops.flatMap fun op => ((op.splitOn ":").drop 1).take 2
    let out : Except HErr Heap → String := fun r => match r with
      | .ok h => showViews names h.view
      | .error .panic => "panic"
      | .error .badOp => "bad-op"
    let a := out (mrun Heap.empty (fun _ _ => 0) 0 ms)
    let b := out (mrun Heap.empty (fun i j => (i * 7 + j * 3) % 5) 0 ms)
    let c := out (mrun Heap.empty (fun _ j => if j ≥ 8 then 0 else 1000000) 0 ms)
    let v : String := match mvrun (fun _ => none) ms with
      | .ok v => showViews names v
      | .error .panic => "panic"
      | .error .badOp => "bad-op"
    if a == b && b == c && c == v then a else s!"MODEL-DIVERGES lifo[{a}] rnd[{b}] fresh[{c}] value[{v}]"

/-! ### annotation values with sharing (`Model/SeqAnnTree.lean`) -/

open ObiVerif.AnnTree in
def parseSc (w : String) : Option Sc :=
  let rest : String := String.ofList (w.toList.drop 1)
  if w.startsWith "i" then rest.toInt?.map .int
  else if w.startsWith "s" then some (.str rest)
  else if w.startsWith "A" then ((rest.splitOn ".").mapM String.toInt?).map .arr
  else none

open ObiVerif.AnnTree in
def forestOf : List (String × ATree) → AForest
  | [] => .nil
  | (k, t) :: r => .cons k t (forestOf r)

/-- split at top-level commas (parentheses nest) -/
def splitTop (cs : List Char) : List (List Char) :=
  let rec go (cs : List Char) (depth : Nat) (cur : List Char) (acc : List (List Char)) : List (List Char) :=
    match cs with
    | [] => (cur.reverse :: acc).reverse
    | c :: r =>
      if c == '(' then go r (depth + 1) (c :: cur) acc
      else if c == ')' then go r (depth - 1) (c :: cur) acc
      else if c == ',' && depth == 0 then go r depth [] (cur.reverse :: acc)
      else go r depth (c :: cur) acc
  go cs 0 [] []

open ObiVerif.AnnTree in
/-- `M(k=lit,…)`, `S(lit,…)`, scalars `i5`, `sab`, `A1.2.3` (ids are given by `relabel` later) -/
def parseLit : Nat → List Char → Option ATree
  | 0, _ => none
  | fuel + 1, cs =>
    match cs with
    | 'M' :: '(' :: r =>
      if r.getLast? != some ')' then none else
      let body := r.dropLast
      if body.isEmpty then some (.node 0 true .nil) else
      ((splitTop body).mapM fun e =>
        let k := e.takeWhile (· != '=')
        (parseLit fuel (e.drop (k.length + 1))).map fun t => (String.ofList k, t)).map fun es => .node 0 true (forestOf es)
    | 'S' :: '(' :: r =>
      if r.getLast? != some ')' then none else
      let body := r.dropLast
      if body.isEmpty then some (.node 0 false .nil) else
      ((splitTop body).mapM (parseLit fuel)).map fun ts =>
        .node 0 false (forestOf ((List.range ts.length).zip ts |>.map fun (i, t) => (toString i, t)))
    | _ => (parseSc (String.ofList cs)).map .leaf

open ObiVerif.AnnTree in
def parseAOp (op : String) : Option AOp :=
  match op.splitOn ":" with
  | ["new", a] => some (.new a)
  | ["set", a, key, lit] => (parseLit 64 lit.toList).map fun t => .setattr a key t
  | ["derive", a, b, _] => some (.derive a b)
  | ["edit", a, path, k, v] => (parseSc v).map fun sc => .edit a (if path == "-" then [] else path.splitOn "/") k sc
  | ["recycle", a] => some (.recycle a)
  | _ => none

def showSc : ObiVerif.AnnTree.Sc → String
  | .int v => s!"i{v}"
  | .str s => s!"s{s}"
  | .arr l => "A" ++ ".".intercalate (l.map toString)

open ObiVerif.AnnTree in
mutual
def showTree : ATree → String
  | .leaf v => showSc v
  | .node _ m ks =>
    if m then "M(" ++ ",".intercalate (((showForest ks).foldr insStr []).map fun kv => kv.1 ++ "=" ++ kv.2) ++ ")"
    else "S(" ++ ",".intercalate ((showForest ks).map (·.2)) ++ ")"
def showForest : AForest → List (String × String)
  | .nil => []
  | .cons k t r => (k, showTree t) :: showForest r
end

open ObiVerif.AnnTree in
def showAObj (o : AObj) : String × String :=
  (o.name, o.name ++ "{" ++ ";".intercalate (((showForest o.kids).foldr insStr []).map fun kv => kv.1 ++ "=" ++ kv.2) ++ "}")

open ObiVerif.AnnTree in
/-- two pool policies (most recently recycled map; never reuse) must print the same -/
def runAnn (ops : List String) : String :=
  match ops.mapM parseAOp with
  | none => "bad-op"
  | some aops =>
    let out : Except AErr State → String := fun r => match r with
      | .ok s => joinSp (((s.objs.map showAObj).foldr insStr []).map (·.2))
      | .error _ => "bad-op"
    let a := out (arun State.empty (fun _ => 0) 0 aops)
    let b := out (arun State.empty (fun _ => 1000000) 0 aops)
    if a == b then a else s!"MODEL-DIVERGES lifo[{a}] fresh[{b}]"

/-! ### concurrent use (`harness/c07_conc.go`): the answers of the sub-cases run ALONE -/

/-- `__make_default_qualities__` (biosequence.go): `Qualities()` of a sequence that has none shows
`length` times 40; printed as length + distinct values -/
def showDefaultQual (n : Nat) : String := if n == 0 then "dq 0 -" else s!"dq {n} 28"

open ObiVerif.SeqAnnot in
/-- one sub-case of `conc`: `<kind> <shared> <seq> <qual> <mm> <from> <to>`; `none` = malformed.
The answer does not depend on `shared` (one source object read by all goroutines, or one per call). -/
def concSub (kind sh s q mm f t : String) : Option String :=
  if sh != "0" && sh != "1" then none
  else if kind == "dq" then
    match f.toNat? with
    | some n => if s == "-" && q == "-" && mm == "-" && t == "0" && n ≤ 20000000 then some (showDefaultQual n) else none
    | none => none
  else
    match parseW s q mm, f.toInt?, t.toInt? with
    | some o, some f, some t =>
      if kind == "rc" || (kind == "rci" && sh == "0") then some (showRcW o)
      else if kind == "copy" then some (showW (copyW o))
      else if kind == "sub" || kind == "csub" then
        some (match subW o f t (kind == "csub") with
          | .ok r => "ok " ++ showW r
          | .error .panic => "panic"
          | .error _ => "err")
      else if kind == "subrc" then
        -- Subsequence, then ReverseComplement(true) of the piece (obimultiplex, obipcr)
        some (match subW o f t false with
          | .ok r => let x := showRcW r; if x == "panic" then "panic" else "ok " ++ x
          | .error .panic => "panic"
          | .error _ => "err")
      else none
    | _, _, _ => none

def concSubs : List String → Option (List String)
  | [] => some []
  | k :: sh :: s :: q :: mm :: f :: t :: rest =>
    match concSub k sh s q mm f t, concSubs rest with
    | some a, some r => some (a :: r)
    | _, _ => none
  | _ => none

/-- `conc <g> <r> <n> n × sub-case`: the harness demands these answers from every concurrent call too -/
def runConc (ws : List String) : String :=
  match ws with
  | g :: r :: n :: rest =>
    match g.toNat?, r.toNat?, n.toNat?, concSubs rest with
    | some g, some r, some n, some as =>
      if 1 ≤ g && g ≤ 64 && 1 ≤ r && r ≤ 5000 && 1 ≤ n && n ≤ 64 && as.length == n then " ; ".intercalate as else "bad-op"
    | _, _, _, _ => "bad-op"
  | _ => "bad-op"

def run (line : String) : String :=
  match words line with
  | "conc" :: "race" :: ws => runConc ws
  | "conc" :: ws => runConc ws
  | "heap" :: ops => runHeap ops
  | "mut" :: ops => runMut ops
  | "annh" :: ops => runAnn ops
  | "annkinds" :: _ => "ok"
  | ["rcw", s, q, mm] =>
    match parseW s q mm with
    | some o => showRcW o
    | none => "bad-op"
  | ["subw", s, q, mm, f, t, c] =>
    match parseW s q mm, f.toInt?, t.toInt? with
    | some o, some f, some t =>
      match SeqAnnot.subW o f t (c == "1") with
      | .ok r => "ok " ++ showW r
      | .error .panic => "panic"
      | .error _ => "err"
    | _, _, _ => "bad-op"
  | ["joinrc", s, q, s2] =>
    match parseW s q "-", unhex s2 with
    | some o, some s2 => showRcW (SeqAnnot.joinW o ⟨s2.map lower, [], none, []⟩)
    | _, _ => "bad-op"
  | ["comp", b] => match b.toNat? with
    | some b => toString (nucComplement (UInt8.ofNat b)).toNat
    | none => "bad-op"
  | ["rc", s, q] =>
    match unhex s, (if q = "-" then some [] else unhex q) with
    | some s, some qb =>
      let s := s.map lower
      s!"{hex (revcompInPlace s)} {if q = "-" then "-" else hex (reverseInPlace qb)}"
    | _, _ => "bad-op"
  | ["sub", s, f, t, c] =>
    match unhex s, f.toInt?, t.toInt? with
    | some s, some f, some t =>
      match subsequence (s.map lower) f t (c == "1") with
      | .ok (r, _) => s!"ok {hex r}"
      | .error .panic => "panic"
      | .error _ => "err"
    | _, _, _ => "bad-op"
  | ["rcmut", len, k, p] =>
    match len.toInt?, unhex k, p.toInt? with
    | some len, some k, some p =>
      match revcmpKey k with
      | some k' => s!"{hex k'} {revcmpPos len p}"
      | none => "panic"
    | _, _, _ => "bad-op"
  | ["submut", len, f, t, c, p] =>
    match len.toNat?, f.toInt?, t.toInt?, p.toInt? with
    | some len, some f, some t, some p =>
      match subsequence (List.replicate len 97) f t (c == "1") with
      | .ok (r, shift) =>
        match subseqPos shift len r.length p with
        | some np => s!"keep {np}"
        | none => "drop"
      | .error .panic => "panic"
      | .error _ => "err"
    | _, _, _, _ => "bad-op"
  | "hist" :: ops =>
    match ops.foldlM histStep ([] : Store) with
    | .ok st => joinSp ((st.foldr insByName []).map showObj)
    | .error .panic => "panic"
    | .error .badOp => "bad-op"
  | _ => "bad-op"

end ObiVerif.Driver.C07
