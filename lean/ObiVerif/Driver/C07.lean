import ObiVerif.Model.SeqOps
import ObiVerif.Model.SeqHeap
import ObiVerif.Model.SeqAnnot
import ObiVerif.Driver.Util
/-! line protocol for C07 -/
namespace ObiVerif.Driver.C07
open ObiVerif.SeqOps ObiVerif.Driver

/-- parse one operation of an object history -/
def parseOp (op : String) : Option Op :=
  match op.splitOn ":" with
  | ["new", a, s, q] => do
    let sb ← unhex s
    let qb ← if q = "-" then some none else (unhex q).map some
    pure (.new a sb qb)
  | ["copy", a, b] => some (.copy a b)
  | ["rc", a, b] => some (.rc a b)
  | ["rci", a] => some (.rci a)
  | ["sub", a, b, f, t, c] => do
    let f ← f.toInt?
    let t ← t.toInt?
    pure (.sub a b f t (c == "1"))
  | ["set", a, p, v] => do
    let p ← p.toNat?
    let v ← v.toNat?
    pure (.set a p (UInt8.ofNat v))
  | ["recycle", a] => some (.recycle a)
  | ["mapset", a, key, k, v] => do
    let v ← v.toInt?
    pure (.mapset a key k v)
  | _ => none

def histStep (st : Store) (op : String) : Except HErr Store :=
  match parseOp op with
  | some o => applyOp st o
  | none => .error .badOp

def insStr {β} (p : String × β) : List (String × β) → List (String × β)
  | [] => [p]
  | x :: xs => if p.1 ≤ x.1 then p :: x :: xs else x :: insStr p xs

def showAnn (a : Ann) : String :=
  ";".intercalate ((a.foldr insStr []).map fun (key, m) =>
    key ++ "{" ++ ",".intercalate ((m.foldr insStr []).map fun (k, v) => s!"{k}:{v}") ++ "}")

def showObj (p : String × Obj) : String :=
  s!"{p.1}={hex p.2.seq}/{match p.2.qual with | some q => hex q | none => "none"}/{showAnn p.2.ann}"

def insByName (p : String × Obj) : Store → Store
  | [] => [p]
  | x :: xs => if p.1 ≤ x.1 then p :: x :: xs else x :: insByName p xs


/-! ### whole objects (`Model/SeqAnnot.lean`) -/

open ObiVerif.SeqAnnot in
/-- `-` = attribute absent, `0` = empty map, otherwise `keyhex:pos,keyhex:pos,…` -/
def parseMm (w : String) : Option (Option Mm) :=
  if w = "-" then some none
  else if w = "0" then some (some [])
  else (w.splitOn ",").mapM (fun (e : String) => match e.splitOn ":" with
    | [k, p] => do
      let kb ← unhex k
      let pv ← p.toInt?
      pure (kb, pv)
    | _ => none) |>.map some

open ObiVerif.SeqAnnot in
def showMm : Option Mm → String
  | none => "-"
  | some [] => "0"
  | some m => ",".intercalate (((m.map fun kp => (hex kp.1, kp.2)).foldr insStr []).map fun kp => s!"{kp.1}:{kp.2}")

def hasDup : List Bytes → Bool
  | [] => false
  | k :: t => t.contains k || hasDup t

open ObiVerif.SeqAnnot in
def showW (o : WObj) : String :=
  s!"{hex o.seq} {if o.qual.isEmpty then "-" else hex o.qual} {showMm o.mm}"

open ObiVerif.SeqAnnot in
def parseW (s q mm : String) : Option WObj := do
  let sb ← unhex s
  let qb ← if q = "-" then some [] else unhex q
  let m ← parseMm mm
  pure ⟨sb.map lower, qb, m, []⟩

open ObiVerif.SeqAnnot in
/-- a Go map cannot hold two entries under one key: when two keys are rewritten to the same key the
outcome depends on the iteration order (`collision`) -/
def showRcW (o : WObj) : String :=
  match rcW o with
  | none => "panic"
  | some r => if hasDup ((r.mm.getD []).map (·.1)) then "collision" else showW r

/-! ### heap histories (`Model/SeqHeap.lean`) -/

open ObiVerif.SeqHeap in
def parseHOp (op : String) : Option HOp :=
  match op.splitOn ":" with
  | ["new", a, s, q] => do
    let sb ← unhex s
    let qb ← if q = "-" then some none else (unhex q).map some
    pure (.new a sb qb)
  | ["copy", a, b] => some (.copy a b)
  | ["rc", a, b] => some (.rc a b)
  | ["rci", a] => some (.rci a)
  | ["sub", a, b, f, t, c] => do
    let f ← f.toInt?
    let t ← t.toInt?
    pure (.sub a b f t (c == "1"))
  | ["set", a, p, v] => do
    let p ← p.toNat?
    let v ← v.toNat?
    pure (.set a p (UInt8.ofNat v))
  | ["recycle", a] => some (.recycle a)
  | ["mapset", a, key, k, v] => do
    let v ← v.toInt?
    pure (.mapset a key k v)
  | ["setqual", a, q] => do
    let q ← unhex q
    pure (.setqual a q)
  | ["setfeat", a, f, g] => do
    let f ← unhex f
    let g ← g.toNat?
    pure (.setfeat a f g)
  | ["scratch", n, v] => do
    let n ← n.toNat?
    let v ← v.toNat?
    pure (.scratch n (UInt8.ofNat v))
  | _ => none

def insName (n : String) : List String → List String
  | [] => [n]
  | x :: xs => if n == x then x :: xs else if n < x then n :: x :: xs else x :: insName n xs

open ObiVerif.SeqHeap in
def showViews (names : List String) (view : String → Option OV) : String :=
  joinSp ((names.foldr insName []).filterMap fun n =>
    (view n).map fun o => s!"{n}={hex o.seq}/{hex o.qual}/{hex o.feat}/{showAnn o.ann}")

open ObiVerif.SeqHeap in
/-- the heap model is run under three pool policies (most recent item; a pseudo-random item; never
reuse) and the value semantics `vrun`; all four must print the same thing (a theorem for the frame
part, executed here for the effect on the target) -/
def runHeap (ops : List String) : String :=
  match ops.mapM parseHOp with
  | none => "bad-op"
  | some hops =>
    let names := hops.filterMap HOp.target
    let out : Except HErr Heap → String := fun r => match r with
      | .ok h => showViews names h.view
      | .error .panic => "panic"
      | .error .badOp => "bad-op"
    let a := out (SeqHeap.run Heap.empty (fun _ _ => 0) 0 hops)
    let b := out (SeqHeap.run Heap.empty (fun i j => (i * 7 + j * 3) % 5) 0 hops)
    let c := out (SeqHeap.run Heap.empty (fun _ j => if j ≥ 8 then 0 else 1000000) 0 hops)
    let v : String := match vrun (fun _ => none) hops with
      | .ok v => showViews names v
      | .error .panic => "panic"
      | .error .badOp => "bad-op"
    if a == b && b == c && c == v then a else s!"MODEL-DIVERGES lifo[{a}] rnd[{b}] fresh[{c}] value[{v}]"

def run (line : String) : String :=
  match words line with
  | "heap" :: ops => runHeap ops
  | "mut" :: _ => "ok"
  | "annkinds" :: _ => "ok"
  | ["rcw", s, q, mm] =>
    match parseW s q mm with
    | some o => showRcW o
    | none => "bad-op"
  | ["subw", s, q, mm, f, t, c] =>
    match parseW s q mm, f.toInt?, t.toInt? with
    | some o, some f, some t =>
      match SeqAnnot.subW o f t (c == "1") with
      | .ok r => "ok " ++ showW r
      | .error .panic => "panic"
      | .error _ => "err"
    | _, _, _ => "bad-op"
  | ["joinrc", s, q, s2] =>
    match parseW s q "-", unhex s2 with
    | some o, some s2 => showRcW (SeqAnnot.joinW o ⟨s2.map lower, [], none, []⟩)
    | _, _ => "bad-op"
  | ["comp", b] => match b.toNat? with
    | some b => toString (nucComplement (UInt8.ofNat b)).toNat
    | none => "bad-op"
  | ["rc", s, q] =>
    match unhex s, (if q = "-" then some [] else unhex q) with
    | some s, some qb =>
      let s := s.map lower
      s!"{hex (revcompInPlace s)} {if q = "-" then "-" else hex (reverseInPlace qb)}"
    | _, _ => "bad-op"
  | ["sub", s, f, t, c] =>
    match unhex s, f.toInt?, t.toInt? with
    | some s, some f, some t =>
      match subsequence (s.map lower) f t (c == "1") with
      | .ok (r, _) => s!"ok {hex r}"
      | .error .panic => "panic"
      | .error _ => "err"
    | _, _, _ => "bad-op"
  | ["rcmut", len, k, p] =>
    match len.toInt?, unhex k, p.toInt? with
    | some len, some k, some p =>
      match revcmpKey k with
      | some k' => s!"{hex k'} {revcmpPos len p}"
      | none => "panic"
    | _, _, _ => "bad-op"
  | ["submut", len, f, t, c, p] =>
    match len.toNat?, f.toInt?, t.toInt?, p.toInt? with
    | some len, some f, some t, some p =>
      match subsequence (List.replicate len 97) f t (c == "1") with
      | .ok (r, shift) =>
        match subseqPos shift len r.length p with
        | some np => s!"keep {np}"
        | none => "drop"
      | .error .panic => "panic"
      | .error _ => "err"
    | _, _, _, _ => "bad-op"
  | "hist" :: ops =>
    match ops.foldlM histStep ([] : Store) with
    | .ok st => joinSp ((st.foldr insByName []).map showObj)
    | .error .panic => "panic"
    | .error .badOp => "bad-op"
  | _ => "bad-op"

end ObiVerif.Driver.C07
