import ObiVerif.Model.Iter
import ObiVerif.Model.IterWorker
import ObiVerif.Model.IterMore
import ObiVerif.Model.ReseqTrace
import ObiVerif.Model.LoopMachines
import ObiVerif.Model.PoolSteps
import ObiVerif.Driver.Util
/-! line protocol for C03: `<combinator> [params] | <stream> | <stream> …`, a stream being the
arrival-ordered list of `order:id,id,…` -/
namespace ObiVerif.Driver.C03
open ObiVerif.Iter ObiVerif.Driver

def parseBatch (s : String) : Option Batch :=
  match s.splitOn ":" with
  | [o, r] => do
    let k ← o.toNat?
    let ids ← if r = "" then some [] else (r.splitOn ",").mapM String.toNat?
    pure (k, ids)
  | _ => none

def parseStream (s : String) : Option (List Batch) := (words s).mapM parseBatch

def showBatch (b : Batch) : String := s!"{b.1}:{",".intercalate (b.2.map toString)}"
def showStream (bs : List Batch) : String := joinSp (bs.map showBatch)

def insertSorted (b : Batch) : List Batch → List Batch
  | [] => [b]
  | x :: xs => if b.1 ≤ x.1 then b :: x :: xs else x :: insertSorted b xs
def sortByOrder (bs : List Batch) : List Batch := bs.foldr insertSorted []

def insNat (a : Nat) : List Nat → List Nat
  | [] => [a]
  | x :: xs => if a ≤ x then a :: x :: xs else x :: insNat a xs
def sortNat (l : List Nat) : List Nat := l.foldr insNat []

def predP (r : Rec) : Bool := r % 3 == 0
def clsK (r : Rec) : Nat := r % 4
def workF (r : Rec) : List Rec := if r % 5 == 0 then [] else if r % 7 == 0 then [r, r + 1000] else [r]

/-- per-record worker described on the case line by `K,M,E`: record `id` fails when `E > 0` and
`id % E = E - 1`; else it yields `n` records `id*100 + j` (`j < n`), `n = K` (mode `c`) or
`(id*7 + K) % (K+1)` (mode `m`: fan-outs 0..K mixed within a batch) -/
structure WSpec where
  k : Nat
  varying : Bool
  e : Nat

def parseWSpec (s : String) : Option WSpec :=
  match s.splitOn "," with
  | [k, m, e] => do
    let k ← k.toNat?
    let e ← e.toNat?
    let v ← if m = "c" then some false else if m = "m" then some true else none
    pure ⟨k, v, e⟩
  | _ => none

def specWorker (w : WSpec) : SeqWorker := fun id =>
  if w.e > 0 && id % w.e == w.e - 1 then none else
  let n := if w.varying then (id * 7 + w.k) % (w.k + 1) else w.k
  some ((List.range n).map fun j => id * 100 + j)

/-- `w1.ChainWorkers(w2).ChainWorkers(w3)…` ; `true` in the second component = the adapter panicked -/
def chainAll : List WSpec → Option SeqWorker
  | [] => none
  | w :: rest => some (rest.foldl (fun acc n => chainWorkers growMin acc (specWorker n)) (specWorker w))

def flagArg (pre : String) (s : String) : Option Nat :=
  if s.startsWith pre then (s.drop pre.length).toString.toNat? else none

def showStage : StageRes → String
  | .ok out => showStream (sortByOrder out)
  | .fatal => "fatal"
  | .panic => "panic"

/-- worker-stage ops: `iworker w=N boe=B K,M,E`, `icond …`, `islice …`, `chain w=N boe=B spec spec …`,
`adapt boe=B cond=C K,M,E` (the adapter alone on batch 0) -/
def runWorkerOp (head : List String) (s : List Batch) : Option String :=
  match head with
  | "chain" :: w :: boe :: specs => do
    let _ ← flagArg "w=" w
    let b ← flagArg "boe=" boe
    let sps ← specs.mapM parseWSpec
    let wk ← chainAll sps
    some (showStage (iWorker growMin wk (b != 0) s))
  | [op, w, boe, spec] => do
    let _ ← flagArg "w=" w
    let b ← flagArg "boe=" boe
    let sp ← parseWSpec spec
    let boe := b != 0
    if op = "iworker" then some (showStage (iWorker growMin (specWorker sp) boe s))
    else if op = "icond" then some (showStage (iCondWorker growMin predP (specWorker sp) boe s))
    else if op = "islice" then
      some (showStage (sliceWorkerStage (fun l => sliceSpec (fun _ => true) (specWorker sp) boe l) boe s))
    else if op = "adapt" || op = "adaptcond" then
      match s with
      | [(_, l)] =>
        let r := if op = "adapt" then seqToSlice growMin (specWorker sp) boe l
                 else seqToSliceCond growMin predP (specWorker sp) boe l
        match r with
        | .ok out => some s!"ok {",".intercalate (out.map toString)}"
        | .error => some "err"
        | .panic => some "panic"
      | _ => none
    else none
  | _ => none

/-- record lengths and fragment identities used by the `frag` cases (the harness builds sequences of
that length and maps `<id>_sub[a+1..b]` to `id*10000 + a*100 + b`) -/
def fragLen (r : Rec) : Nat := 1 + (r * 7) % 40
def fragSub (r a b : Rec) : Rec := r * 10000 + a * 100 + b

/-- one stage of a `pipe` case -/
def pipeStage (tok : String) (arr : List Batch) : Option (List Batch) :=
  match tok.splitOn ":" with
  | ["sort"] => some (sortBatches arr)
  | ["filterempty"] => some (filterEmpty arr)
  | ["worker"] => some (workerStage workF arr)
  | ["limitmem"] => some (passThrough arr)
  | ["tee"] => some (copyTee arr).1
  | ["complete"] => some (completeFile (sortBatches arr))
  | ["divt", n] => do
    let n ← n.toNat?
    if n = 0 then none else some (divideOn predP n arr).1
  | ["rebatch", n] => do
    let n ← n.toNat?
    if n = 0 then none else some (rebatch n arr)
  | ["filteron", n] => do
    let n ← n.toNat?
    if n = 0 then none else some (filterOn predP n arr)
  | ["iworker", k, m] => do
    let sp ← parseWSpec s!"{k},{m},0"
    match iWorker growMin (specWorker sp) false arr with
    | .ok out => some out
    | _ => none
  | ["frag", m, l, o, sz] => do
    let m ← m.toNat?
    let l ← l.toNat?
    let o ← o.toNat?
    let sz ← sz.toNat?
    if l ≤ o || sz = 0 then none else some (fragments (fragRec fragLen fragSub m l o) sz arr)
  | _ => none

def runPipe (stages : List String) (arr : List Batch) : Option (List Batch) :=
  stages.foldlM (fun a tok => pipeStage tok a) arr

/-- what a stage does to the flat record list (its specification: `rebatch_spec`, `filterOn_spec`,
`worker_spec`, `iWorker_spec`, `divideOn_spec`, `load_spec`, `passThrough_spec`) — used by the `big` cases,
whose streams are too long for the quadratic list models -/
def flatStage (tok : String) (flat : List Rec) : Option (List Rec) :=
  match tok.splitOn ":" with
  | ["sort"] | ["filterempty"] | ["limitmem"] | ["tee"] | ["complete"] => some flat
  | ["worker"] => some (flat.flatMap workF)
  | ["rebatch", n] => do
    let n ← n.toNat?
    if n = 0 then none else some flat
  | ["filteron", n] | ["divt", n] => do
    let n ← n.toNat?
    if n = 0 then none else some (flat.filter predP)
  | ["iworker", k, m] => do
    let sp ← parseWSpec s!"{k},{m},0"
    some (flat.flatMap fun s => (specWorker sp s).getD [])
  | _ => none

def hashRecs (l : List Rec) : Nat := l.foldl (fun h r => (h * 31 + r) % 1000000007) 7

/-- `big w=N c=MODE n=NREC bs=B stages` (stages ending with `rebatch:S`): by `rebatch_spec` the output is the
flat result cut in batches of `S` numbered 0,1,2,… -/
def runBig (nrec : Nat) (stages : List String) : Option String := do
  let flat ← stages.foldlM (fun a tok => flatStage tok a) ((List.range nrec).map (· + 1))
  let last ← stages.getLast?
  match last.splitOn ":" with
  | ["rebatch", s] =>
    let s ← s.toNat?
    if s = 0 then none else
    let nb := (flat.length + s - 1) / s
    let lastLen := if flat.length = 0 then 0 else flat.length - (nb - 1) * s
    some s!"n={flat.length} nb={nb} last={lastLen} h={hashRecs flat}"
  | _ => none

/-- the pushes of the loop machines of `Model/LoopMachines.lean` (what the small-step theorems of
`Props/C03S.lean` say is delivered) recomputed next to the functional models: any difference is reported -/
def divideMachine (n : Nat) (s : List Batch) : List Batch × List Batch :=
  let tr := ObiVerif.LoopSteps.foldTrace (ObiVerif.LoopSteps.divideF predP n) ⟨[], [], 0, 0, [], []⟩ (sortBatches s)
  (ObiVerif.LoopSteps.proj 0 tr, ObiVerif.LoopSteps.proj 1 tr)

def distributeMachine (n k : Nat) (s : List Batch) : List Batch :=
  ObiVerif.LoopSteps.proj k
    (ObiVerif.LoopSteps.foldTrace (ObiVerif.LoopSteps.distributeF clsK n 4) [] (sortBatches s))

def parseEv (s : String) : Option ObiVerif.ReseqSteps.Ev :=
  if s = "q" then some .q else if s = "x" then some .x else
  match (s.drop 1).toString.toNat? with
  | some k =>
    if s.startsWith "b" then some (.b k) else if s.startsWith "e" then some (.e k)
    else if s.startsWith "d" then some (.d k) else none
  | none => none

/-- `trace w=N c=MODE ev=… | stream`: the log of the instrumented run must be an execution of the
transition system of `Model/ReseqSteps.lean`, and the delivery is then `sortBatches` of the stream -/
def runTrace (nw : Nat) (evs : String) (s : List Batch) : String :=
  match (evs.splitOn ",").mapM parseEv with
  | none => "bad-op"
  | some l =>
    match ObiVerif.ReseqSteps.check s.length nw l with
    | .ok () => s!"valid {showStream (sortBatches s)}"
    | .error i => s!"invalid@{i}"

def showSlice : SliceRes → String
  | .ok out => s!"ok {",".intercalate (out.map toString)}"
  | .error => "err"
  | .panic => "panic"

/-- `adaptnil VARIANT boe=B K,M,E | 0:ids` -/
def runAdaptNil (variant : String) (boe : Bool) (sp : WSpec) (l : List Rec) : Option String :=
  let w := specWorker sp
  match variant with
  | "w" => some (showSlice (seqToSliceOpt growMin none boe l))
  | "c" => some (showSlice (seqToSliceCondOpt growMin none (some w) boe l))
  | "cw" => some (showSlice (seqToSliceCondOpt growMin (some predP) none boe l))
  | "cwn" => some (showSlice (seqToSliceCondOpt growMin none none boe l))
  | "chainl" => (chainWorkersOpt growMin none (some w)).map fun wk => showSlice (seqToSlice growMin wk boe l)
  | "chainr" => (chainWorkersOpt growMin (some w) none).map fun wk => showSlice (seqToSlice growMin wk boe l)
  | "chainnn" => some (if (chainWorkersOpt growMin none none).isNone then "nil" else "worker")
  | _ => none

def showDivide (n : Nat) (s : List Batch) : String :=
  let (t, f) := divideOn predP n s
  if divideMachine n s != (t, f) then "machine-differs" else
  s!"T {showStream t} F {showStream f}"

def showDistribute (n : Nat) (s : List Batch) : String :=
  if (List.range 4).any (fun k => distributeMachine n k s != distributeKey clsK n k s) then "machine-differs" else
  joinSp ((List.range 4).filterMap fun k =>
    let st := distributeKey clsK n k s
    if st.isEmpty then none else some s!"K{k} {showStream st}")

/-- `keepiter COMB N p=P | stream` (third round): the combinators of /repo 01cfd50 called on an iterator the
caller keeps using: the result is the combinator's, the paired flag is carried, the caller's value is kept -/
def runKeepIter (comb : String) (n p : Nat) (s : List Batch) : String :=
  if n = 0 || p > 1 then "bad-op" else
  let body : Option String :=
    if comb = "rebatch" then some (showStream (rebatch n s))
    else if comb = "filterempty" then some (showStream (filterEmpty s))
    else if comb = "sort" then some (showStream (sortBatches s))
    else if comb = "divide" then some (showDivide n s)
    else if comb = "distribute" then some (showDistribute n s)
    else none
  match body with
  | some b => s!"paired={p} kept=1 {b}"
  | none => "bad-op"

/-- pool of several streams: the numbers 0..n-1 and the records, both sorted (the interleaving is the scheduler's);
`PoolSteps.poolRun` (the small-step machine run with the round-robin scheduler) must agree -/
def showPool (ss : List (List Batch)) : String :=
  let out := pool ss.flatten
  -- the small-step machine of `Model/PoolSteps.lean` run to its end under the round-robin scheduler, unbuffered
  -- and buffered: it must end, deliver `pool` of the order of numbering, and have numbered every input batch
  let bad := [0, 2].any fun cap =>
    let st := ObiVerif.PoolSteps.poolRun cap ss
    !(st.closed && st.cout.isEmpty && st.delivered == pool st.taken && st.taken.length == ss.flatten.length &&
      sortNat (flatten st.taken) == sortNat (flatten ss.flatten))
  if bad then "machine-differs" else
  s!"orders={",".intercalate ((sortNat (out.map (·.1))).map toString)} recs={",".intercalate ((sortNat (flatten out)).map toString)}"

def runBase (line : String) : String :=
  match line.splitOn " | " with
  | head :: streams =>
    match streams.mapM parseStream, words head with
    | some [s], ["sort"] => showStream (sortBatches s)
    | some [s], ["rebatch", n] =>
        match n.toNat? with
        | some n => if n = 0 then "bad-op" else showStream (rebatch n s)
        | none => "bad-op"
    | some [s], ["filterempty"] => showStream (filterEmpty s)
    | some (s :: rest), ["concat"] => showStream (concat s rest)
    | some [s], ["divide", n] =>
        match n.toNat? with
        | some n => if n = 0 then "bad-op" else showDivide n s
        | none => "bad-op"
    | some [s], ["filteron", n, _] =>
        match n.toNat? with
        | some n => if n = 0 then "bad-op" else showStream (filterOn predP n s)
        | none => "bad-op"
    | some [s], ["worker", _] => showStream (sortByOrder (workerStage workF s))
    | some [s], "iworker" :: _ | some [s], "icond" :: _ | some [s], "islice" :: _
    | some [s], "chain" :: _ | some [s], "adapt" :: _ | some [s], "adaptcond" :: _ =>
        (runWorkerOp (words head) s).getD "bad-op"
    | some [s], ["distribute", n] =>
        match n.toNat? with
        | some n => if n = 0 then "bad-op" else showDistribute n s
        | none => "bad-op"
    | some [a, b], ["pairto", n] =>
        match n.toNat? with
        | some n => if n = 0 then "bad-op" else
            joinSp ((pairTo n a b).map fun (k, ps) =>
              s!"{k}:{",".intercalate (ps.map fun (x, y) => s!"{x}-{y}")}")
        | none => "bad-op"
    | some [s], ["batchover", n] =>
        match n.toNat? with
        | some n => if n = 0 then "bad-op" else
            let data := flatten s
            showStream (batchOver n (data.length + 1) data 0)
        | none => "bad-op"
    | some _, ["wstress", _, _] =>
        -- n implicit one-record batches through N identity workers: by `worker_spec` / `workerStage_keyed`
        -- every batch comes out once, with its own number and record, whatever the schedule
        "ok"
    | some [s], ["frag", m, l, o, sz, _] =>
        match m.toNat?, l.toNat?, o.toNat?, sz.toNat? with
        | some m, some l, some o, some sz =>
          if l ≤ o || sz = 0 then "bad-op" else showStream (fragments (fragRec fragLen fragSub m l o) sz s)
        | _, _, _, _ => "bad-op"
    | some [s], ["merge", n] =>
        match n.toNat? with
        | some n => if n = 0 then "bad-op" else
            match mergeBatches (fun l => l.headD 0) n s with
            | some out => showStream out
            | none => "panic"
        | none => "bad-op"
    | some [s], ["load"] => ",".intercalate ((load s).map toString)
    | some [s], ["count"] => toString (countRecs s)
    | some [s], ["complete"] => showStream (completeFile (sortBatches s))
    | some [s], ["limitmem"] => showStream (passThrough s)
    | some [s], ["speed"] => showStream (passThrough s)
    | some [s], ["tee"] => s!"A {showStream (copyTee s).1} B {showStream (copyTee s).2}"
    | some [a, b], ["pairedwith", n] =>
        match n.toNat? with
        | some n => if n = 0 then "bad-op" else showStream (pairedWith (pairTo n a b))
        | none => "bad-op"
    | some [s], ["pipe", _, stages] =>
        match runPipe (stages.splitOn ",") s with
        | some out => showStream (sortByOrder out)
        | none => "bad-op"
    | some [s], ["pipec", _, _, stages] =>
        match runPipe (stages.splitOn ",") s with
        | some out => showStream (sortByOrder out)
        | none => "bad-op"
    | some _, ["big", _, _, n, _, stages] =>
        match flagArg "n=" n with
        | some n => (runBig n (stages.splitOn ",")).getD "bad-op"
        | none => "bad-op"
    | some [s], ["divideabs", n] =>
        match n.toNat? with
        | some n => if n = 0 then "bad-op" else
            let (t, f) := divideOn predP n s
            if f.isEmpty then s!"T {showStream t}" else "hang"
        | none => "bad-op"
    | some [s], ["divideslow", n] =>
        match n.toNat? with
        | some n => if n = 0 then "bad-op" else
            let (t, f) := divideOn predP n s
            s!"T {showStream t} F {showStream f}"
        | none => "bad-op"
    | some [[(_, l)]], ["adaptnil", variant, boe, spec] =>
        match flagArg "boe=" boe, parseWSpec spec with
        | some b, some sp => (runAdaptNil variant (b != 0) sp l).getD "bad-op"
        | _, _ => "bad-op"
    | some [s], ["trace", w, _, ev] =>
        match flagArg "w=" w with
        | some nw => if ev.startsWith "ev=" then runTrace nw (ev.drop 3).toString s else "bad-op"
        | none => "bad-op"
    | some [s], ["uniq"] =>
        let fl := flatten s
        joinSp ((List.range 3).filterMap fun c =>
          let k := (fl.filter fun r => r % 3 == c).length
          if k = 0 then none else some s!"c{c}={k}")
    | some ss, ["pool"] => showPool ss
    | some [], ["srccheck"] | some [[]], ["srccheck"] => "ok"
    | some [s], ["keepiter", comb, n, p] =>
        match n.toNat?, flagArg "p=" p with
        | some n, some p => runKeepIter comb n p s
        | _, _ => "bad-op"
    | some [s], ["uniqdisk"] =>
        let fl := flatten s
        joinSp ((List.range 3).filterMap fun c =>
          let k := (fl.filter fun r => r % 3 == c).length
          if k = 0 then none else some s!"c{c}={k}")
    | _, _ => "bad-op"
  | _ => "bad-op"

/-- `race <case>`: the same case replayed under the Go race detector (same result) -/
def stripRace (ws : List String) : Option (List String) :=
  match ws with
  | "race" :: inner => if inner.isEmpty || inner.head? == some "race" then none else some inner
  | _ => some ws

/-- `mslow c=MODE <case>`: the same case with slow / bursty / late consumers: the delivery does not depend on
the consumers' pace (every theorem of `Props/C03S.lean` is for all schedulings) -/
def stripSlow (ws : List String) : Option (List String) :=
  match ws with
  | "mslow" :: mode :: inner =>
    if (mode = "c=slow" || mode = "c=burst" || mode = "c=late") && !inner.isEmpty &&
        inner.head? != some "mslow" && inner.head? != some "race" then some inner else none
  | "mslow" :: _ => none
  | _ => some ws

def run (line : String) : String :=
  match line.splitOn " | " with
  | head :: streams =>
    match (stripRace (words head)).bind stripSlow with
    | some ws => if ws.isEmpty then "bad-op" else runBase (" | ".intercalate (joinSp ws :: streams))
    | none => "bad-op"
  | [] => "bad-op"

end ObiVerif.Driver.C03
