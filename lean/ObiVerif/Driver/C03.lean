import ObiVerif.Model.Iter
import ObiVerif.Driver.Util
/-! line protocol for C03: `<combinator> [params] | <stream> | <stream> …`, a stream being the
arrival-ordered list of `order:id,id,…` -/
namespace ObiVerif.Driver.C03
open ObiVerif.Iter ObiVerif.Driver

def parseBatch (s : String) : Option Batch :=
  match s.splitOn ":" with
  | [o, r] => do
    let k ← o.toNat?
    let ids ← if r = "" then some [] else (r.splitOn ",").mapM String.toNat?
    pure (k, ids)
  | _ => none

def parseStream (s : String) : Option (List Batch) := (words s).mapM parseBatch

def showBatch (b : Batch) : String := s!"{b.1}:{",".intercalate (b.2.map toString)}"
def showStream (bs : List Batch) : String := joinSp (bs.map showBatch)

def insertSorted (b : Batch) : List Batch → List Batch
  | [] => [b]
  | x :: xs => if b.1 ≤ x.1 then b :: x :: xs else x :: insertSorted b xs
def sortByOrder (bs : List Batch) : List Batch := bs.foldr insertSorted []

def insNat (a : Nat) : List Nat → List Nat
  | [] => [a]
  | x :: xs => if a ≤ x then a :: x :: xs else x :: insNat a xs
def sortNat (l : List Nat) : List Nat := l.foldr insNat []

def predP (r : Rec) : Bool := r % 3 == 0
def clsK (r : Rec) : Nat := r % 4
def workF (r : Rec) : List Rec := if r % 5 == 0 then [] else if r % 7 == 0 then [r, r + 1000] else [r]

def run (line : String) : String :=
  match line.splitOn " | " with
  | head :: streams =>
    match streams.mapM parseStream, words head with
    | some [s], ["sort"] => showStream (sortBatches s)
    | some [s], ["rebatch", n] =>
        match n.toNat? with
        | some n => if n = 0 then "bad-op" else showStream (rebatch n s)
        | none => "bad-op"
    | some [s], ["filterempty"] => showStream (filterEmpty s)
    | some (s :: rest), ["concat"] => showStream (concat s rest)
    | some [s], ["divide", n] =>
        match n.toNat? with
        | some n => if n = 0 then "bad-op" else
            let (t, f) := divideOn predP n s
            s!"T {showStream t} F {showStream f}"
        | none => "bad-op"
    | some [s], ["filteron", n, _] =>
        match n.toNat? with
        | some n => if n = 0 then "bad-op" else showStream (filterOn predP n s)
        | none => "bad-op"
    | some [s], ["worker", _] => showStream (sortByOrder (workerStage workF s))
    | some [s], ["distribute", n] =>
        match n.toNat? with
        | some n => if n = 0 then "bad-op" else
            joinSp ((List.range 4).filterMap fun k =>
              let st := distributeKey clsK n k s
              if st.isEmpty then none else some s!"K{k} {showStream st}")
        | none => "bad-op"
    | some [a, b], ["pairto", n] =>
        match n.toNat? with
        | some n => if n = 0 then "bad-op" else
            joinSp ((pairTo n a b).map fun (k, ps) =>
              s!"{k}:{",".intercalate (ps.map fun (x, y) => s!"{x}-{y}")}")
        | none => "bad-op"
    | some [s], ["batchover", n] =>
        match n.toNat? with
        | some n => if n = 0 then "bad-op" else
            let data := flatten s
            showStream (batchOver n (data.length + 1) data 0)
        | none => "bad-op"
    | some _, ["wstress", _, _] =>
        -- n implicit one-record batches through N identity workers: by `worker_spec` / `workerStage_keyed`
        -- every batch comes out once, with its own number and record, whatever the schedule
        "ok"
    | some ss, ["pool"] =>
        let out := pool ss.flatten
        s!"orders={",".intercalate ((sortNat (out.map (·.1))).map toString)} recs={",".intercalate ((sortNat (flatten out)).map toString)}"
    | _, _ => "bad-op"
  | _ => "bad-op"

end ObiVerif.Driver.C03
