import ObiVerif.Model.Command
import ObiVerif.Model.Summary
import ObiVerif.Driver.Util
import ObiVerif.Driver.C06
import ObiVerif.Driver.C13
/-! line protocol for C05:
`run|race <scenario> seed= nrec= cpu= batch= gmp= rep= [in=] [aff=] | <kind> <data of record 0 alone> … | <kind> …`
one section per output stream of the command; the result is `ok` followed by one token per stream.

Group-by commands (third pass): the section holds the INPUT records and the model of the command itself is run —
`| uniq <mem|disk> c= w= b= ns= na= cats= stats= dm=* <rec>…` is a case line of `Driver/C06.lean` (obiuniq: `Uniq.uniqCRC`,
the output as a sorted multiset of records), `| clean c <w> <d> <p> <q> <head> <item>…` one of `Driver/C13.lean`
(obiclean: `cleanDataset` + `cliOutput`, the records written in output order); the tokens of their result are joined by `;`. -/
namespace ObiVerif.Driver.C05
open ObiVerif.Command ObiVerif.Iter ObiVerif.Writer ObiVerif.Driver

def splitLines (b : List UInt8) : List (List UInt8) :=
  let (cur, acc) := b.foldl (fun (st : List UInt8 × List (List UInt8)) c =>
    if c == 10 then ([], st.2 ++ [st.1 ++ [10]]) else (st.1 ++ [c], st.2)) ([], [])
  if cur.isEmpty then acc else acc ++ [cur]

/-- the number after the first comma of a line `key,123\n` -/
def numAfterComma (l : List UInt8) : Nat :=
  ((l.dropWhile (· != 44)).drop 1).foldl (fun n c => if 48 ≤ c && c ≤ 57 then n * 10 + (c.toNat - 48) else n) 0

def showNat (n : Nat) : List UInt8 := (toString n).toUTF8.toList

/-- injective coding of a byte string as a natural number; the numeric order is (length, bytes) -/
def keyCode (k : List UInt8) : Nat := k.foldl (fun n c => n * 256 + c.toNat) 1

def keyBytes : Nat → Nat → List UInt8 → List UInt8
  | 0, _, acc => acc
  | fuel+1, n, acc => if n ≤ 1 then acc else keyBytes fuel (n / 256) (UInt8.ofNat (n % 256) :: acc)

def bytesOf (s : String) : List UInt8 := s.toUTF8.toList

/-- a canonical summary line `path value\n` → (coded path, value) -/
def summaryLine (l : List UInt8) : Nat × Nat :=
  let l := l.filter (· != 10)
  let k := l.takeWhile (· != 32)
  let v := (l.dropWhile (· != 32)).foldl (fun n c => if 48 ≤ c && c ≤ 57 then n * 10 + (c.toNat - 48) else n) 0
  (keyCode k, v)

/-- keys of the printed document that are not counters but sizes of the maps of counters -/
def derivedKeys : List (List UInt8) :=
  [bytesOf "annotations/scalar_attributes", bytesOf "annotations/map_attributes",
   bytesOf "annotations/vector_attributes", bytesOf "samples/sample_count"]

def isSuffix (s l : List UInt8) : Bool := s.reverse.isPrefixOf l.reverse

/-- what `ISummary` prints besides the counters themselves: the number of keys of each map -/
def addDerived (m : Counters) : Counters :=
  let keys := m.map fun kv => keyBytes (kv.1 + 1) kv.1 []
  let cnt (pre : String) := (keys.filter fun k => (bytesOf pre).isPrefixOf k).length
  let nsc := cnt "annotations/keys/scalar/"
  let nmp := cnt "annotations/keys/map/"
  let nvc := cnt "annotations/keys/vector/"
  let nsm := (keys.filter fun k => (bytesOf "samples/sample_stats/").isPrefixOf k && isSuffix (bytesOf "/reads") k).length
  let m := if nsc + nmp + nvc > 0 then
      addKey (keyCode (bytesOf "annotations/vector_attributes")) nvc
        (addKey (keyCode (bytesOf "annotations/map_attributes")) nmp
          (addKey (keyCode (bytesOf "annotations/scalar_attributes")) nsc m)) else m
  if nsm > 0 then addKey (keyCode (bytesOf "samples/sample_count")) nsm m else m

def showCounters (m : Counters) : List UInt8 :=
  (m.map fun kv => keyBytes (kv.1 + 1) kv.1 [] ++ [32] ++ showNat kv.2 ++ [10]).flatten


/-! ## obisummary field by field (glue pass): section `dsum <doc|fields> <assign> <rec>…`

`assign` gives, for every record, the worker that meets it (one base-36 digit per record, `-` = no record); the number
of workers is the token before it.  A record is `count/len/merged/status/sample/hasStatus/hasWeight/scalars/maps/vectors`
with `-` = absent, `+` = present and empty, maps as `hexkey=n,…`, key lists as `hexkey,…`. -/
open ObiVerif.Summary in
def parseKV (t : String) : Option (Option (List (Nat × Nat))) :=
  if t = "-" then some none else if t = "+" then some (some []) else
  ((t.splitOn ",").mapM fun (p : String) => match p.splitOn "=" with
    | [k, v] => match unhex k, v.toNat? with
      | some kb, some n => some (keyCode kb, n)
      | _, _ => none
    | _ => none).map some

def parseKeys (t : String) : Option (List Nat) :=
  if t = "-" then some [] else (t.splitOn ",").mapM fun (k : String) => (unhex k).map keyCode

def parseSRec (t : String) : Option ObiVerif.Summary.SRec :=
  match t.splitOn "/" with
  | [c, l, m, st, sa, hs, hw, a, b, v] =>
    match c.toNat?, l.toNat?, parseKV m, parseKV st, parseKeys a, parseKeys b, parseKeys v with
    | some c, some l, some m, some st, some a, some b, some v =>
      let sample : Option (Option Nat) := if sa = "-" then some none else if sa = "+" then some (some (keyCode []))
        else (unhex sa).map fun x => some (keyCode x)
      match sample with
      | some sample =>
        some { count := c, len := l, merged := m, status := st.map (fun l => l.map fun kv => (kv.1, kv.2 == 1)),
               sample := sample, hasStatus := hs == "1", hasWeight := hw == "1", scalars := a, maps := b, vectors := v }
      | none => none
    | _, _, _, _, _, _, _ => none
  | _ => none

def digit36 (c : Char) : Nat :=
  if '0' ≤ c && c ≤ '9' then c.toNat - 48 else if 'a' ≤ c && c ≤ 'z' then c.toNat - 87 else 0

def keyName (k : Nat) : List UInt8 := keyBytes (k + 1) k []

def pathBytes : ObiVerif.Summary.Path → List UInt8
  | .variants => bytesOf "count/variants"
  | .reads => bytesOf "count/reads"
  | .totalLength => bytesOf "count/total_length"
  | .scalarAttributes => bytesOf "annotations/scalar_attributes"
  | .mapAttributes => bytesOf "annotations/map_attributes"
  | .vectorAttributes => bytesOf "annotations/vector_attributes"
  | .keyScalar k => bytesOf "annotations/keys/scalar/" ++ keyName k
  | .keyMap k => bytesOf "annotations/keys/map/" ++ keyName k
  | .keyVector k => bytesOf "annotations/keys/vector/" ++ keyName k
  | .sampleCount => bytesOf "samples/sample_count"
  | .sampleReads k => bytesOf "samples/sample_stats/" ++ keyName k ++ bytesOf "/reads"
  | .sampleVariants k => bytesOf "samples/sample_stats/" ++ keyName k ++ bytesOf "/variants"
  | .sampleSingletons k => bytesOf "samples/sample_stats/" ++ keyName k ++ bytesOf "/singletons"
  | .sampleBad k => bytesOf "samples/sample_stats/" ++ keyName k ++ bytesOf "/obiclean_bad"

def showMap (name : String) (m : Counters) : String :=
  name ++ "=" ++ (if m.isEmpty then "-" else ",".intercalate (m.map fun kv => hex (keyName kv.1) ++ ":" ++ toString kv.2))

def showFields (d : ObiVerif.Summary.DataSummary) : String :=
  s!"rc={d.read_count} vc={d.variant_count} sc={d.symbole_count} hm={d.has_merged_sample} hs={d.has_obiclean_status} hw={d.has_obiclean_weight} " ++
  " ".intercalate [showMap "tags" d.tags, showMap "maps" d.map_tags, showMap "vecs" d.vector_tags, showMap "samples" d.samples,
    showMap "variants" d.sample_variants, showMap "singletons" d.sample_singletons, showMap "bad" d.sample_obiclean_bad]

/-- the model of `ISummary` on explicit shares: worker `w` meets the records assigned to it, in input order, one
record per batch (by `summary_merge_is_sum` any other sharing gives the same summary) -/
def dsum (toks : List String) : Option String :=
  match toks with
  | mode :: nw :: assign :: recs =>
    match nw.toNat?, recs.mapM parseSRec with
    | some nw, some rs =>
      let asg := if assign = "-" then [] else assign.toList.map digit36
      if asg.length ≠ rs.length then none else
      let shares : List (List (List ObiVerif.Summary.SRec)) := (List.range nw).map fun w =>
        ((rs.zip asg).filter fun p => p.2 == w).map fun p => [p.1]
      if mode = "fields" then
        match ObiVerif.Summary.mergeSummaries (shares.map ObiVerif.Summary.workerSummary) with
        | some d => some (showFields d)
        | none => some "panic"
      else
        match ObiVerif.Summary.iSummary shares with
        | some doc =>
          let m : Counters := doc.foldl (fun m pv => addKey (keyCode (pathBytes pv.1)) pv.2 m) []
          some (hex (showCounters m))
        | none => some "panic"
    | _, _ => none
  | _ => none

/-- one output stream: `none` = a per-record run failed -/
def stream (kind : String) (toks : List String) : Option String :=
  if toks.any (fun t => t.startsWith "21" || t.startsWith "!") then none else
  let n := toks.length
  -- one reader batch holding every record, one worker, one writer arrival: by `command_deterministic`
  -- (and its companions for the other kinds) every other partition / schedule gives the same bytes
  let arr : List Batch := [(0, List.range n)]
  if kind = "dispatch" then
    -- a token is `-` (no file) or `hex(name):hex(content)`
    let parsed := toks.map fun t => match t.splitOn ":" with
      | [a, b] => match unhex a, unhex b with
        | some x, some y => some (keyCode x, x, y)
        | _, _ => none
      | _ => none
    let cls (i : Rec) : Nat := match parsed.getD i none with | some (c, _, _) => c | none => 0
    let fmt (i : Rec) : Command.Bytes := match parsed.getD i none with | some (_, _, y) => y | none => []
    -- the classes met, in increasing order of their code
    let classes : Counters := parsed.foldl (fun m p => match p with | some (c, _, _) => addKey c 1 m | none => m) []
    if classes.isEmpty then some "-" else
    some (",".intercalate (classes.map fun kv =>
      hex (keyBytes (kv.1 + 1) kv.1 []) ++ ":" ++ hex (distributeFile cls 2 fmt kv.1 arr id)))
  else
  match toks.mapM unhex with
  | none => none
  | some singles =>
    let single (i : Rec) : Command.Bytes := singles.getD i []
    if kind = "records" then some (hex (commandOutput single arr))
    else if kind = "csv" then
      -- every single output is `header line` + `row`
      let header : Command.Bytes := match singles with
        | [] => []
        | s :: _ => (splitLines s).headD []
      let row (i : Rec) : Command.Bytes := ((splitLines (single i)).drop 1).flatten
      some (hex (commandCsv header row arr))
    else if kind = "json" then
      -- every single output is `[\n` object `\n]\n` (`[\n\n]\n` when the record is filtered out)
      let body (i : Rec) : Command.Bytes := ((single i).drop 2).take ((single i).length - 5)
      let kept := (List.range n).filter fun i => !(body i).isEmpty
      some (hex (commandJson body [(0, kept)]))
    else if kind = "count" then
      let cnt (i : Rec) : Nat × Nat × Nat :=
        match splitLines (single i) with
        | [_, a, b, c] => (numAfterComma a, numAfterComma b, numAfterComma c)
        | _ => (0, 0, 0)
      let (v, r, s) := countOutput cnt arr
      let txt : List UInt8 := "entites,n\n".toUTF8.toList ++ "variants,".toUTF8.toList ++ showNat v ++ [10]
        ++ "reads,".toUTF8.toList ++ showNat r ++ [10] ++ "symbols,".toUTF8.toList ++ showNat s ++ [10]
      some (hex txt)
    else if kind = "summary" then
      -- the counters of a record = the counters printed for that record alone, the map sizes excepted
      let cnt (i : Rec) : Counters :=
        ((splitLines (single i)).map summaryLine).filter fun kv => !(derivedKeys.map keyCode).contains kv.1
      let init : Counters := mergeCounters []
        [(keyCode (bytesOf "count/reads"), 0), (keyCode (bytesOf "count/variants"), 0), (keyCode (bytesOf "count/total_length"), 0)]
      -- two workers, the second one taking nothing: by `summary_deterministic` any other sharing gives the same
      some (hex (showCounters (addDerived (summaryOutput cnt init [[(0, List.range n)], []]))))
    else none

def run (line : String) : String :=
  match line.splitOn " | " with
  | [] => "bad-op"
  | [_] => "bad-op"
  | _ :: sections =>
    if sections = ["opaque"] then "ok" else
    let outs := sections.map fun sec => match words sec with
      | "uniq" :: _ => some ((ObiVerif.Driver.C06.run sec).replace " " ";")
      | "clean" :: rest => some ((ObiVerif.Driver.C13.run (" ".intercalate rest)).replace " " ";")
      | "dsum" :: toks => dsum toks
      | kind :: toks => stream kind toks
      | [] => none
    if outs.any Option.isNone then "bad-single"
    else s!"ok {" ".intercalate (outs.map fun o => o.getD "")}"

end ObiVerif.Driver.C05
