import ObiVerif.Model.Command
import ObiVerif.Driver.Util
import ObiVerif.Driver.C06
import ObiVerif.Driver.C13
/-! line protocol for C05:
`run|race <scenario> seed= nrec= cpu= batch= gmp= rep= [in=] [aff=] | <kind> <data of record 0 alone> … | <kind> …`
one section per output stream of the command; the result is `ok` followed by one token per stream.

Group-by commands (third pass): the section holds the INPUT records and the model of the command itself is run —
`| uniq <mem|disk> c= w= b= ns= na= cats= stats= dm=* <rec>…` is a case line of `Driver/C06.lean` (obiuniq: `Uniq.uniqCRC`,
the output as a sorted multiset of records), `| clean c <w> <d> <p> <q> <head> <item>…` one of `Driver/C13.lean`
(obiclean: `cleanDataset` + `cliOutput`, the records written in output order); the tokens of their result are joined by `;`. -/
namespace ObiVerif.Driver.C05
open ObiVerif.Command ObiVerif.Iter ObiVerif.Writer ObiVerif.Driver

def splitLines (b : List UInt8) : List (List UInt8) :=
  let (cur, acc) := b.foldl (fun (st : List UInt8 × List (List UInt8)) c =>
    if c == 10 then ([], st.2 ++ [st.1 ++ [10]]) else (st.1 ++ [c], st.2)) ([], [])
  if cur.isEmpty then acc else acc ++ [cur]

/-- the number after the first comma of a line `key,123\n` -/
def numAfterComma (l : List UInt8) : Nat :=
  ((l.dropWhile (· != 44)).drop 1).foldl (fun n c => if 48 ≤ c && c ≤ 57 then n * 10 + (c.toNat - 48) else n) 0

def showNat (n : Nat) : List UInt8 := (toString n).toUTF8.toList

/-- injective coding of a byte string as a natural number; the numeric order is (length, bytes) -/
def keyCode (k : List UInt8) : Nat := k.foldl (fun n c => n * 256 + c.toNat) 1

def keyBytes : Nat → Nat → List UInt8 → List UInt8
  | 0, _, acc => acc
  | fuel+1, n, acc => if n ≤ 1 then acc else keyBytes fuel (n / 256) (UInt8.ofNat (n % 256) :: acc)

def bytesOf (s : String) : List UInt8 := s.toUTF8.toList

/-- a canonical summary line `path value\n` → (coded path, value) -/
def summaryLine (l : List UInt8) : Nat × Nat :=
  let l := l.filter (· != 10)
  let k := l.takeWhile (· != 32)
  let v := (l.dropWhile (· != 32)).foldl (fun n c => if 48 ≤ c && c ≤ 57 then n * 10 + (c.toNat - 48) else n) 0
  (keyCode k, v)

/-- keys of the printed document that are not counters but sizes of the maps of counters -/
def derivedKeys : List (List UInt8) :=
  [bytesOf "annotations/scalar_attributes", bytesOf "annotations/map_attributes",
   bytesOf "annotations/vector_attributes", bytesOf "samples/sample_count"]

def isSuffix (s l : List UInt8) : Bool := s.reverse.isPrefixOf l.reverse

/-- what `ISummary` prints besides the counters themselves: the number of keys of each map -/
def addDerived (m : Counters) : Counters :=
  let keys := m.map fun kv => keyBytes (kv.1 + 1) kv.1 []
  let cnt (pre : String) := (keys.filter fun k => (bytesOf pre).isPrefixOf k).length
  let nsc := cnt "annotations/keys/scalar/"
  let nmp := cnt "annotations/keys/map/"
  let nvc := cnt "annotations/keys/vector/"
  let nsm := (keys.filter fun k => (bytesOf "samples/sample_stats/").isPrefixOf k && isSuffix (bytesOf "/reads") k).length
  let m := if nsc + nmp + nvc > 0 then
      addKey (keyCode (bytesOf "annotations/vector_attributes")) nvc
        (addKey (keyCode (bytesOf "annotations/map_attributes")) nmp
          (addKey (keyCode (bytesOf "annotations/scalar_attributes")) nsc m)) else m
  if nsm > 0 then addKey (keyCode (bytesOf "samples/sample_count")) nsm m else m

def showCounters (m : Counters) : List UInt8 :=
  (m.map fun kv => keyBytes (kv.1 + 1) kv.1 [] ++ [32] ++ showNat kv.2 ++ [10]).flatten

/-- one output stream: `none` = a per-record run failed -/
def stream (kind : String) (toks : List String) : Option String :=
  if toks.any (fun t => t.startsWith "21" || t.startsWith "!") then none else
  let n := toks.length
  -- one reader batch holding every record, one worker, one writer arrival: by `command_deterministic`
  -- (and its companions for the other kinds) every other partition / schedule gives the same bytes
  let arr : List Batch := [(0, List.range n)]
  if kind = "dispatch" then
    -- a token is `-` (no file) or `hex(name):hex(content)`
    let parsed := toks.map fun t => match t.splitOn ":" with
      | [a, b] => match unhex a, unhex b with
        | some x, some y => some (keyCode x, x, y)
        | _, _ => none
      | _ => none
    let cls (i : Rec) : Nat := match parsed.getD i none with | some (c, _, _) => c | none => 0
    let fmt (i : Rec) : Command.Bytes := match parsed.getD i none with | some (_, _, y) => y | none => []
    -- the classes met, in increasing order of their code
    let classes : Counters := parsed.foldl (fun m p => match p with | some (c, _, _) => addKey c 1 m | none => m) []
    if classes.isEmpty then some "-" else
    some (",".intercalate (classes.map fun kv =>
      hex (keyBytes (kv.1 + 1) kv.1 []) ++ ":" ++ hex (distributeFile cls 2 fmt kv.1 arr id)))
  else
  match toks.mapM unhex with
  | none => none
  | some singles =>
    let single (i : Rec) : Command.Bytes := singles.getD i []
    if kind = "records" then some (hex (commandOutput single arr))
    else if kind = "csv" then
      -- every single output is `header line` + `row`
      let header : Command.Bytes := match singles with
        | [] => []
        | s :: _ => (splitLines s).headD []
      let row (i : Rec) : Command.Bytes := ((splitLines (single i)).drop 1).flatten
      some (hex (commandCsv header row arr))
    else if kind = "json" then
      -- every single output is `[\n` object `\n]\n` (`[\n\n]\n` when the record is filtered out)
      let body (i : Rec) : Command.Bytes := ((single i).drop 2).take ((single i).length - 5)
      let kept := (List.range n).filter fun i => !(body i).isEmpty
      some (hex (commandJson body [(0, kept)]))
    else if kind = "count" then
      let cnt (i : Rec) : Nat × Nat × Nat :=
        match splitLines (single i) with
        | [_, a, b, c] => (numAfterComma a, numAfterComma b, numAfterComma c)
        | _ => (0, 0, 0)
      let (v, r, s) := countOutput cnt arr
      let txt : List UInt8 := "entites,n\n".toUTF8.toList ++ "variants,".toUTF8.toList ++ showNat v ++ [10]
        ++ "reads,".toUTF8.toList ++ showNat r ++ [10] ++ "symbols,".toUTF8.toList ++ showNat s ++ [10]
      some (hex txt)
    else if kind = "summary" then
      -- the counters of a record = the counters printed for that record alone, the map sizes excepted
      let cnt (i : Rec) : Counters :=
        ((splitLines (single i)).map summaryLine).filter fun kv => !(derivedKeys.map keyCode).contains kv.1
      let init : Counters := mergeCounters []
        [(keyCode (bytesOf "count/reads"), 0), (keyCode (bytesOf "count/variants"), 0), (keyCode (bytesOf "count/total_length"), 0)]
      -- two workers, the second one taking nothing: by `summary_deterministic` any other sharing gives the same
      some (hex (showCounters (addDerived (summaryOutput cnt init [[(0, List.range n)], []]))))
    else none

def run (line : String) : String :=
  match line.splitOn " | " with
  | [] => "bad-op"
  | [_] => "bad-op"
  | _ :: sections =>
    if sections = ["opaque"] then "ok" else
    let outs := sections.map fun sec => match words sec with
      | "uniq" :: _ => some ((ObiVerif.Driver.C06.run sec).replace " " ";")
      | "clean" :: rest => some ((ObiVerif.Driver.C13.run (" ".intercalate rest)).replace " " ";")
      | kind :: toks => stream kind toks
      | [] => none
    if outs.any Option.isNone then "bad-single"
    else s!"ok {" ".intercalate (outs.map fun o => o.getD "")}"

end ObiVerif.Driver.C05
