/-! line protocol for C05 (stub: no model yet) -/
namespace ObiVerif.Driver.C05

def run (_line : String) : String := "bad-op"

end ObiVerif.Driver.C05
