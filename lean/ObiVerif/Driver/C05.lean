import ObiVerif.Model.Command
import ObiVerif.Driver.Util
/-! line protocol for C05: `run <scenario> seed= nrec= cpu= batch= gmp= rep= | <kind> <hex output of record 0 alone> …` -/
namespace ObiVerif.Driver.C05
open ObiVerif.Command ObiVerif.Iter ObiVerif.Driver

def splitLines (b : List UInt8) : List (List UInt8) :=
  let (cur, acc) := b.foldl (fun (st : List UInt8 × List (List UInt8)) c =>
    if c == 10 then ([], st.2 ++ [st.1 ++ [10]]) else (st.1 ++ [c], st.2)) ([], [])
  if cur.isEmpty then acc else acc ++ [cur]

/-- the number after the first comma of a line `key,123\n` -/
def numAfterComma (l : List UInt8) : Nat :=
  ((l.dropWhile (· != 44)).drop 1).foldl (fun n c => if 48 ≤ c && c ≤ 57 then n * 10 + (c.toNat - 48) else n) 0

def showNat (n : Nat) : List UInt8 := (toString n).toUTF8.toList

def run (line : String) : String :=
  match line.splitOn " | " with
  | [_, data] =>
    match words data with
    | ["opaque"] => "ok"
    | kind :: hs =>
      match hs.mapM unhex with
      | none => "bad-op"
      | some singles =>
        if singles.any (fun s => s.head? == some 33) then "bad-single" else
        let n := singles.length
        let single (i : Rec) : Command.Bytes := singles.getD i []
        -- one reader batch holding every record, one worker, one writer arrival: by `command_deterministic`
        -- every other partition / schedule gives the same bytes
        let arr : List Batch := [(0, List.range n)]
        if kind = "records" then
          s!"ok {hex (commandOutput single arr)}"
        else if kind = "csv" then
          -- every single output is `header line` + `row`
          let header : Command.Bytes := match singles with
            | [] => []
            | s :: _ => (splitLines s).headD []
          let row (i : Rec) : Command.Bytes := ((splitLines (single i)).drop 1).flatten
          s!"ok {hex (header ++ commandOutput row arr)}"
        else if kind = "count" then
          let cnt (i : Rec) : Nat × Nat × Nat :=
            match splitLines (single i) with
            | [_, a, b, c] => (numAfterComma a, numAfterComma b, numAfterComma c)
            | _ => (0, 0, 0)
          let (v, r, s) := countOutput cnt arr
          let txt : List UInt8 := "entites,n\n".toUTF8.toList ++ "variants,".toUTF8.toList ++ showNat v ++ [10]
            ++ "reads,".toUTF8.toList ++ showNat r ++ [10] ++ "symbols,".toUTF8.toList ++ showNat s ++ [10]
          s!"ok {hex txt}"
        else "bad-op"
    | _ => "bad-op"
  | _ => "bad-op"

end ObiVerif.Driver.C05
