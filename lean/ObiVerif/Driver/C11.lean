/-! line protocol for C11 (stub: no model yet) -/
namespace ObiVerif.Driver.C11

def run (_line : String) : String := "bad-op"

end ObiVerif.Driver.C11
