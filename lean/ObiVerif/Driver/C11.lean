import ObiVerif.Model.Pcr
import ObiVerif.Driver.Util
/-! line protocol for C11

```
pcr  <fwd> <rev> <ef> <er> <min> <max> <ext> <full> <circ> <tpl>[,<tpl>...]
       -> fatal | panic | unmodelled | per template ("|") the amplicons in order ("," ; "-" = none), each
          d/from+1..to/amplicon/forward_match/forward_error/reverse_match/reverse_error
frag <fwd> <rev> <e> <min> <max> <ext> <full> <minsize> <length> <overlap> <tpl>
       -> <fragment coordinates a..b,… | whole> <amplicons per fragment as above>
cli  <fwd> <rev> <e> <min> <max> <delta> <full> [<circ> <frag>] <tpl>      (default: circ = 0, frag = 1)
       -> the amplicons d/fragment/from+1 (in the template)/amplicon/…, sorted (options of CLIPCR; with frag = 1 the
          fragments are cut with the parameters of CLIPCR)
```
byte strings in hex. -/
namespace ObiVerif.Driver.C11
open ObiVerif ObiVerif.Apat ObiVerif.Pcr ObiVerif.Driver

def bool? (s : String) : Option Bool := if s = "1" then some true else if s = "0" then some false else none

def showAmp (a : Amplicon) : String :=
  s!"{if a.isForward then "f" else "r"}/{a.idFrom}..{a.idTo}/{hex a.seq}/{hex a.fmatch}/{a.ferr}/{hex a.rmatch}/{a.rerr}"

def showList (l : List Amplicon) : String := if l.isEmpty then "-" else ",".intercalate (l.map showAmp)

def showBad : Bad → String
  | .fatal => "fatal"
  | .panic => "panic"

def splitTpls (s : String) : Option (List Bytes) := (s.splitOn ",").mapM unhex

/-- insertion sort of strings (canonical order of the `cli` result) -/
def insStr (x : String) : List String → List String
  | [] => [x]
  | y :: ys => if x ≤ y then x :: y :: ys else y :: insStr x ys
def sortStr (l : List String) : List String := l.foldr insStr []

/-- `obipcr.CLIPCR` on one template: the options of `cliOpts`; with `--fragmented` the template goes through `IFragments` with
the parameters of `cliFragParams` and every piece through `_PCRSlice` with the same options (`--circular` included) -/
def runCli (fw rv e mn mx delta full circ frag tpl : String) : String :=
  match unhex fw, unhex rv, e.toNat?, mn.toInt?, mx.toInt?, delta.toInt?, bool? full, bool? circ, bool? frag, unhex tpl with
  | some fw, some rv, some e, some mn, some mx, some delta, some full, some circ, some frag, some tpl =>
    if e > 63 || fw.length ≥ Gen.apatMaxPatLen || rv.length ≥ Gen.apatMaxPatLen || mx < 1 then "bad-op"
    else
      let o : Opts := cliOpts mn mx delta full circ
      let t := tpl.map lowerByte
      let (minsize, length, overlap) := cliFragParams mx fw.length rv.length delta
      match mkPrimers fw rv e e, (if frag then fragments minsize length overlap t.length else some none) with
      | some P, some frs =>
        let cuts : List (String × Nat × Nat) := match frs with
          | none => [("whole", 0, t.length)]
          | some l => l.map fun (ab : Nat × Nat) => (s!"{ab.1 + 1}..{ab.2}", ab.1, ab.2)
        if circ && cuts.any (fun c => c.2.2 - c.2.1 < Gen.apatMaxPatLen && max fw.length rv.length > c.2.2 - c.2.1) then "unmodelled"
        else
        match pcrSlice P o (cuts.map fun c => (t.drop c.2.1).take (c.2.2 - c.2.1)) with
        | .error b => showBad b
        | .ok per =>
          let all := (cuts.zip per).flatMap fun (cl : (String × Nat × Nat) × List Amplicon) =>
            cl.2.map fun x => s!"{if x.isForward then "f" else "r"}/{cl.1.1}/{x.idFrom + (cl.1.2.1 : Int)}/{hex x.seq}/{hex x.fmatch}/{x.ferr}/{hex x.rmatch}/{x.rerr}"
          let s := sortStr all
          if s.isEmpty then "-" else ",".intercalate s
      | none, _ => "fatal"
      | _, none => "bad-op"
  | _, _, _, _, _, _, _, _, _, _ => "bad-op"

def run (line : String) : String :=
  match words line with
  | ["pcr", fw, rv, ef, er, mn, mx, ext, full, circ, tpls] =>
    match unhex fw, unhex rv, ef.toNat?, er.toNat?, mn.toInt?, mx.toInt?, ext.toInt?, bool? full, bool? circ, splitTpls tpls with
    | some fw, some rv, some ef, some er, some mn, some mx, some ext, some full, some circ, some tpls =>
      if ef > 63 || er > 63 then "bad-op"
      else if fw.length ≥ Gen.apatMaxPatLen || rv.length ≥ Gen.apatMaxPatLen then "unmodelled"
      else
        let o : Opts := ⟨mn, mx, circ, ext, full⟩
        match mkPrimers fw rv ef er with
        | none => "fatal"
        | some P =>
          match pcrSlice P o (tpls.map fun t => t.map lowerByte) with
          | .error b => showBad b
          | .ok per =>
            if circ && tpls.any (fun t => t.length < Gen.apatMaxPatLen && max fw.length rv.length > t.length) then "unmodelled"
            else "|".intercalate (per.map showList)
    | _, _, _, _, _, _, _, _, _, _ => "bad-op"
  | ["frag", fw, rv, e, mn, mx, ext, full, minsize, length, overlap, tpl] =>
    match unhex fw, unhex rv, e.toNat?, mn.toInt?, mx.toInt?, ext.toInt?, bool? full, minsize.toInt?, length.toInt?, overlap.toInt?, unhex tpl with
    | some fw, some rv, some e, some mn, some mx, some ext, some full, some minsize, some length, some overlap, some tpl =>
      if e > 63 || fw.length ≥ Gen.apatMaxPatLen || rv.length ≥ Gen.apatMaxPatLen || length - overlap < 1 || minsize < 0 then "bad-op"
      else
        let o : Opts := ⟨mn, mx, false, ext, full⟩
        let t := tpl.map lowerByte
        match mkPrimers fw rv e e, fragments minsize length overlap t.length with
        | some P, some frs =>
          let pieces : List Bytes := match frs with
            | none => [t]
            | some l => l.map fun (ab : Nat × Nat) => (t.drop ab.1).take (ab.2 - ab.1)
          let names := match frs with
            | none => "whole"
            | some l => ",".intercalate (l.map fun (ab : Nat × Nat) => s!"{ab.1 + 1}..{ab.2}")
          match pcrSlice P o pieces with
          | .error b => showBad b
          | .ok per => s!"{names} {"|".intercalate (per.map showList)}"
        | _, _ => "bad-op"
    | _, _, _, _, _, _, _, _, _, _, _ => "bad-op"
  | ["cli", fw, rv, e, mn, mx, delta, full, tpl] => runCli fw rv e mn mx delta full "0" "1" tpl
  | ["cli", fw, rv, e, mn, mx, delta, full, circ, frag, tpl] => runCli fw rv e mn mx delta full circ frag tpl
  | _ => "bad-op"

end ObiVerif.Driver.C11
