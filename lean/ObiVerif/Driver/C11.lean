import ObiVerif.Model.Pcr
import ObiVerif.Model.PcrAnnot
import ObiVerif.Model.PcrSeqBuf
import ObiVerif.Model.PcrGlue
import ObiVerif.Driver.Util
/-! line protocol for C11

```
pcr  <fwd> <rev> <ef> <er> <min> <max> <ext> <full> <circ> <tpl>[,<tpl>...]
       -> fatal | panic | unmodelled | per template ("|") the amplicons in order ("," ; "-" = none), each
          d/from+1..to/amplicon/forward_match/forward_error/reverse_match/reverse_error/forward_primer/reverse_primer/others
          — every field but the coordinates and the nucleotides is READ FROM THE ANNOTATION MAP of the amplicon (`annotate`);
          `others` = the remaining keys, sorted, `hexname=i<int>` / `hexname=s<hex>` joined by ";" ("-" = none).
          Convention: template number k of a `pcr` line carries the annotations `tplAnnot k`, the template of a `cli` line
          `tplAnnot 1`, the template of a `frag` line `tplAnnot 1` (its pieces inherit them; the marks of `MarkFragmentEnds` are removed from the amplicons)
frag <fwd> <rev> <e> <min> <max> <ext> <full> <minsize> <length> <overlap> <tpl>
       -> <fragment coordinates a..b,… | whole> <amplicons per fragment as above>
cli  <fwd> <rev> <e> <min> <max> <delta> <full> [<circ> <frag>] <tpl>      (default: circ = 0, frag = 1)
       -> the amplicons d/fragment/from+1 (in the template)/amplicon/…, sorted (options of CLIPCR; with frag = 1 the
          fragments are cut with the parameters of CLIPCR)
```
byte strings in hex.

```
conc   [race] <g> <r> <fwd> <rev> <ef> <er> <min> <max> <ext> <full> <circ> <n> n × <tpl>[,<tpl>...]
       -> the results of the `pcr` cases of the n batches, joined by " ; " (each call of the worker closure alone; the harness
          repeats the calls from g goroutines sharing the closure, r rounds, and demands the same answers)
concli [race] <r> <fwd> <rev> <e> <min> <max> <delta> <full> <circ> <frag> <n> n × <tpl>
       -> the results of the `cli` cases of the n templates, joined by " ; " (each template alone through CLIPCR; the harness
          then sends the n templates through one CLIPCR, r rounds)
```

```
glue <bs> <nw> <argv> <tpl>[,<tpl>...]     (argv: the words of the command line, each in hex, "," separated)
       -> parse-error | fatal | panic | v=<forward>/<reverse>/<e>/<l>/<L>/<D>/<only-complete>/<circular>/<fragmented> (the option
          variables after the parser, `readArgv` + `parse`) then " " and per template ("|") the sorted records of a `cli` line
          (`cliCommand`: every template, template number k with the annotations `tplAnnot k`); bs (batch size) and nw (workers)
          do not change the answer
```

```
seqbuf <circ> <tpl>[,<tpl>...]
       -> per template ("|") seqlen/circular/datsiz/<the datsiz codes of the C data buffer, in hex ("-" = none)> after
          MakeApatSequence(template, circ, <the structure recycled from the previous template>) (`recycleChain`)
``` -/
namespace ObiVerif.Driver.C11
open ObiVerif ObiVerif.Apat ObiVerif.Pcr ObiVerif.Driver

def bool? (s : String) : Option Bool := if s = "1" then some true else if s = "0" then some false else none

/-- insertion sort of strings (canonical order of the `cli` result) -/
def insStr (x : String) : List String → List String
  | [] => [x]
  | y :: ys => if x ≤ y then x :: y :: ys else y :: insStr x ys
def sortStr (l : List String) : List String := l.foldr insStr []

def bytesOf (s : String) : Bytes := s.toUTF8.toList

/-- the annotations the harness gives template number `k`: none (k mod 3 = 2), a tag (k mod 3 = 0), or a tag, a note and
three annotations named like keys `_Pcr` writes (k mod 3 = 1) -/
def tplAnnot (k : Nat) : Annot :=
  if k % 3 == 2 then []
  else if k % 3 == 0 then [(.other (bytesOf "c11tag"), .int k)]
  else [(.other (bytesOf "c11tag"), .int k), (.pcr .direction, .str (bytesOf "template")), (.pcr .forwardError, .int (-7)),
        (.pcr .reversePrimer, .str (bytesOf "NNN")), (.other (bytesOf "zz_note"), .str (bytesOf s!"t{k}"))]

def showStrVal : Option AVal → String
  | some (.str s) => hex s
  | _ => "?"

def showIntVal : Option AVal → String
  | some (.int n) => s!"{n}"
  | _ => "?"

def showDir : Option AVal → String
  | some (.str s) => if s == dirBytes true then "f" else if s == dirBytes false then "r" else "?"
  | _ => "?"

/-- the `others` field: every key that is not one of the seven, sorted -/
def showOthers (a : Annot) : String :=
  let l := a.filterMap fun kv => match kv with
    | (.other n, .int v) => some s!"{hex n}=i{v}"
    | (.other n, .str v) => some s!"{hex n}=s{hex v}"
    | _ => none
  if l.isEmpty then "-" else ";".intercalate (sortStr l)

/-- fields 4.. of an amplicon, read from its annotation map -/
def showAnnot (m : Annot) : String :=
  s!"{showStrVal (m.get (.pcr .forwardMatch))}/{showIntVal (m.get (.pcr .forwardError))}/{showStrVal (m.get (.pcr .reverseMatch))}/{showIntVal (m.get (.pcr .reverseError))}/{showStrVal (m.get (.pcr .forwardPrimer))}/{showStrVal (m.get (.pcr .reversePrimer))}/{showOthers m}"

def showAmp (fw rv : Bytes) (tpl : Annot) (a : Amplicon) : String :=
  let m := annotate fw rv tpl a
  s!"{showDir (m.get (.pcr .direction))}/{a.idFrom}..{a.idTo}/{hex a.seq}/{showAnnot m}"

def showList (fw rv : Bytes) (tpl : Annot) (l : List Amplicon) : String :=
  if l.isEmpty then "-" else ",".intercalate (l.map (showAmp fw rv tpl))

/-- per template, numbered from `k0` -/
def showPer (fw rv : Bytes) (per : List (List Amplicon)) : String :=
  "|".intercalate ((List.range per.length).zip per |>.map fun (kl : Nat × List Amplicon) => showList fw rv (tplAnnot kl.1) kl.2)

def showBad : Bad → String
  | .fatal => "fatal"
  | .panic => "panic"

def splitTpls (s : String) : Option (List Bytes) := (s.splitOn ",").mapM unhex

/-- `obipcr.CLIPCR` on one template (`cliRun`): the options of `cliOpts`; with `--fragmented` and without `--circular` the
template goes through `IFragments` with the parameters of `cliFragParams` and every piece through `_PCRSlice` -/
def runCli (fw rv e mn mx delta full circ frag tpl : String) : String :=
  match unhex fw, unhex rv, e.toNat?, mn.toInt?, mx.toInt?, delta.toInt?, bool? full, bool? circ, bool? frag, unhex tpl with
  | some fw, some rv, some e, some mn, some mx, some delta, some full, some circ, some frag, some tpl =>
    if e > 63 || fw.length ≥ Gen.apatMaxPatLen || rv.length ≥ Gen.apatMaxPatLen || mx < 1 then "bad-op"
    else
      let t := tpl.map lowerByte
      match mkPrimers fw rv e e with
      | none => "fatal"
      | some P =>
        match cliRun P fw.length rv.length mn mx delta full circ frag t with
        | none => "bad-op"
        | some (.error b) => showBad b
        | some (.ok per) =>
          let whole := (cliPieces mx fw.length rv.length delta circ frag t.length) == some none
          let all := per.flatMap fun (cl : (Nat × Nat) × List Amplicon) =>
            let name := if whole then "whole" else s!"{cl.1.1 + 1}..{cl.1.2}"
            cl.2.map fun x =>
              let m := annotate fw rv (tplAnnot 1) x
              s!"{showDir (m.get (.pcr .direction))}/{name}/{x.idFrom + (cl.1.1 : Int)}/{hex x.seq}/{showAnnot m}"
          let s := sortStr all
          if s.isEmpty then "-" else ",".intercalate s
  | _, _, _, _, _, _, _, _, _, _ => "bad-op"

def b01 (b : Bool) : String := if b then "1" else "0"

def showVars (v : Vars) : String :=
  s!"v={hex v.forward}/{hex v.reverse}/{v.mismatch}/{v.minLength}/{v.maxLength}/{v.delta}/{b01 v.onlyFull}/{b01 v.circular}/{b01 v.fragmented}"

/-- `glue`: the command line through `readArgv` / `parse`, then `cliCommand` on all the templates -/
def runGlue (bs nw argv tpls : String) : String :=
  match bs.toNat?, nw.toNat?, (argv.splitOn ",").mapM unhex, splitTpls tpls with
  | some bs, some nw, some ws, some tpls =>
    if bs < 1 || bs > 1000 || nw < 1 || nw > 64 || ws.any (·.isEmpty) then "bad-op"
    else
      match readArgv (ws.map fun w => String.ofList (w.map fun b => Char.ofNat b.toNat)) with
      | .unsupported => "bad-op"
      | .refused => "parse-error"
      | .ok args =>
        match parse args with
        | none => "parse-error"
        | some v =>
          let p := cliFragParams v.maxLength v.forward.length v.reverse.length v.delta
          if v.forward.length ≥ Gen.apatMaxPatLen || v.reverse.length ≥ Gen.apatMaxPatLen || v.mismatch < 0 || v.mismatch > 63 then "bad-op"
          else if v.fragmented && !v.circular && (v.maxLength < 1 || p.2.1 - p.2.2 < 1) then "bad-op"
          else
            match cliCommand v (tpls.map fun t => t.map lowerByte) with
            | none => "fatal"
            | some per =>
              let shown := (List.range per.length).zip (per.zip tpls) |>.map fun (kr : Nat × (Option (Except Bad (List ((Nat × Nat) × List Amplicon))) × Bytes)) =>
                match kr.2.1 with
                | none => "bad-op"
                | some (.error b) => showBad b
                | some (.ok cuts) =>
                  let whole := (cliPieces v.maxLength v.forward.length v.reverse.length v.delta v.circular v.fragmented kr.2.2.length) == some none
                  let all := cuts.flatMap fun (cl : (Nat × Nat) × List Amplicon) =>
                    let name := if whole then "whole" else s!"{cl.1.1 + 1}..{cl.1.2}"
                    cl.2.map fun x =>
                      let m := annotate v.forward v.reverse (tplAnnot kr.1) x
                      s!"{showDir (m.get (.pcr .direction))}/{name}/{x.idFrom + (cl.1.1 : Int)}/{hex x.seq}/{showAnnot m}"
                  let s := sortStr all
                  if s.isEmpty then "-" else ",".intercalate s
              if shown.contains "bad-op" then "bad-op"
              else if shown.contains "panic" then "panic"
              else if shown.contains "fatal" then "fatal"
              else s!"{showVars v} {"|".intercalate shown}"
  | _, _, _, _ => "bad-op"

/-- one `pcr` case: `PCRSlice` on a batch of templates -/
def runPcr (fw rv ef er mn mx ext full circ tpls : String) : String :=
    match unhex fw, unhex rv, ef.toNat?, er.toNat?, mn.toInt?, mx.toInt?, ext.toInt?, bool? full, bool? circ, splitTpls tpls with
    | some fw, some rv, some ef, some er, some mn, some mx, some ext, some full, some circ, some tpls =>
      if ef > 63 || er > 63 then "bad-op"
      else if fw.length ≥ Gen.apatMaxPatLen || rv.length ≥ Gen.apatMaxPatLen then "unmodelled"
      else
        let o : Opts := ⟨mn, mx, circ, ext, full⟩
        match mkPrimers fw rv ef er with
        | none => "fatal"
        | some P =>
          match pcrSlice P o (tpls.map fun t => t.map lowerByte) with
          | .error b => showBad b
          | .ok per =>
            showPer fw rv per
    | _, _, _, _, _, _, _, _, _, _ => "bad-op"

/-- the sub-cases of a `conc` / `concli` line, each answered alone; `none`: a malformed sub-case -/
def concJoin (n : String) (subs : List String) (one : String → String) : String :=
  match n.toNat? with
  | some n =>
    let rs := subs.map one
    if rs.length = n ∧ n ≥ 1 ∧ ¬ rs.contains "bad-op" then " ; ".intercalate rs else "bad-op"
  | none => "bad-op"

def runConc : List String → String
  | _g :: _r :: fw :: rv :: ef :: er :: mn :: mx :: ext :: full :: circ :: n :: batches =>
    concJoin n batches (runPcr fw rv ef er mn mx ext full circ)
  | _ => "bad-op"

def runConcli : List String → String
  | _r :: fw :: rv :: e :: mn :: mx :: delta :: full :: circ :: frag :: n :: tpls =>
    concJoin n tpls (runCli fw rv e mn mx delta full circ frag)
  | _ => "bad-op"

def run (line : String) : String :=
  match words line with
  | "conc" :: "race" :: rest => runConc rest
  | "conc" :: rest => runConc rest
  | "concli" :: "race" :: rest => runConcli rest
  | "concli" :: rest => runConcli rest
  | ["pcr", fw, rv, ef, er, mn, mx, ext, full, circ, tpls] => runPcr fw rv ef er mn mx ext full circ tpls
  | ["frag", fw, rv, e, mn, mx, ext, full, minsize, length, overlap, tpl] =>
    match unhex fw, unhex rv, e.toNat?, mn.toInt?, mx.toInt?, ext.toInt?, bool? full, minsize.toInt?, length.toInt?, overlap.toInt?, unhex tpl with
    | some fw, some rv, some e, some mn, some mx, some ext, some full, some minsize, some length, some overlap, some tpl =>
      if e > 63 || fw.length ≥ Gen.apatMaxPatLen || rv.length ≥ Gen.apatMaxPatLen || length - overlap < 1 || minsize < 0 then "bad-op"
      else
        let o : Opts := ⟨mn, mx, false, ext, full⟩
        let t := tpl.map lowerByte
        match mkPrimers fw rv e e, fragments minsize length overlap t.length with
        | some P, some frs =>
          let names := match frs with
            | none => "whole"
            | some l => ",".intercalate (l.map fun (ab : Nat × Nat) => s!"{ab.1 + 1}..{ab.2}")
          match pcrCuts P o t (cutsOf t.length frs) with
          | .error b => showBad b
          | .ok per => s!"{names} {"|".intercalate (per.map fun cl => showList fw rv (tplAnnot 1) cl.2)}"
        | _, _ => "bad-op"
    | _, _, _, _, _, _, _, _, _, _, _ => "bad-op"
  | ["seqbuf", circ, tpls] =>
    match bool? circ, splitTpls tpls with
    | some circ, some tpls =>
      "|".intercalate ((recycleChain circ none (tpls.map fun t => t.map lowerByte)).map fun s =>
        s!"{s.seqlen}/{s.circular}/{s.data.length}/{hex (s.data.map fun c => c.toUInt8)}")
    | _, _ => "bad-op"
  | ["glue", bs, nw, argv, tpls] => runGlue bs nw argv tpls
  | ["cli", fw, rv, e, mn, mx, delta, full, tpl] => runCli fw rv e mn mx delta full "0" "1" tpl
  | ["cli", fw, rv, e, mn, mx, delta, full, circ, frag, tpl] => runCli fw rv e mn mx delta full circ frag tpl
  | _ => "bad-op"

end ObiVerif.Driver.C11
