import ObiVerif.Model.KmerSim
import ObiVerif.Model.Kmer
import ObiVerif.Model.DeBruijn
import ObiVerif.Model.DeBruijnCov
import ObiVerif.Model.KmerIndex
import ObiVerif.Model.DeBruijnHist
import ObiVerif.Model.Consensus
import ObiVerif.Driver.Util
/-! line protocol for C19 (see `harness/c19.go` for the case and result formats) -/
namespace ObiVerif.Driver.C19
open ObiVerif.Kmer ObiVerif.DeBruijn ObiVerif.Driver

def hexNat (n : Nat) : String := String.ofList (Nat.toDigits 16 n)

def joinC (l : List String) : String := if l.isEmpty then "-" else ",".intercalate l

def bytesStr (l : List UInt8) : String := String.ofList (l.map fun b => Char.ofNat b.toNat)

def hexCodes (l : List Nat) : String := hex (l.map UInt8.ofNat)

def repeatBytes (u : List UInt8) : Nat → List UInt8 → List UInt8
  | 0, acc => acc
  | n + 1, acc => repeatBytes u n (u ++ acc)

/-- fuel of the label-correcting loop of `HaviestPath` handed to the model by the driver -/
def hpFuel : Nat := 2000000

def insSorted (p : Nat × Nat) : List (Nat × Nat) → List (Nat × Nat)
  | [] => [p]
  | q :: t => if p.1 ≤ q.1 then p :: q :: t else q :: insSorted p t

def maskOf (l : List Nat) (f : Nat → Nat) : Nat := l.foldl (fun m x => m ||| (1 <<< f x)) 0

def parseRead (r : String) : Option (List UInt8 × Nat) :=
  match r.splitOn ":" with
  | [s, c] => do
    let s ← unhex s
    let c ← c.toNat?
    if c < 1 ∨ c > 9007199254741000 then none else pure (s.map lower, c)
  | _ => none

def consStr : ConsOut → String
  | .err => "err"
  | .panic => "panic"
  | .fuel => "fuel"
  | .seq s => hex s

/-- the result of the `g` and `gf` operations on a graph value (the queue of `HaviestPath` is the transcription
of `container/heap`: `heaviestPathH`) -/
def showGraph (k : Nat) (g : Graph) : String :=
  let sorted := g.nodes.foldr insSorted []
  let nodeStr := joinC (sorted.map fun (x, w) =>
    s!"{hexNat x}:{w}:{hexNat (maskOf (g.succ x) (· % 4))}:{hexNat (maskOf ((g.previouses x).getD []) (fun y => (y / 4 ^ (k - 1)) % 4))}")
  match g.hasCycle with
  | none => s!"n={nodeStr} cyc=fuel"
  | some cyc =>
    let pathStr := match g.heaviestPathH hpFuel with
      | .nil => "nil"
      | .panic => "panic"
      | .fuel => "fuel"
      | .path p => ",".intercalate (p.map hexNat)
    s!"n={nodeStr} cyc={if cyc then 1 else 0} path={pathStr} cons={consStr (g.longestConsensusH hpFuel)}"

def buildGraph (k : Nat) (reads : List (List UInt8 × Nat)) : Graph :=
  reads.foldl (fun g r => g.push r.1 r.2) (makeGraph k)

def runGraph (k : Nat) (reads : List (List UInt8 × Nat)) : String := showGraph k (buildGraph k reads)

/-- `gf`: `FilterMinWeight(min)` on the graph of the reads, then everything `g` shows, `MaxWeight` and `Len` -/
def runFilter (k : Nat) (min : Int) (reads : List (List UInt8 × Nat)) : String :=
  let g := (buildGraph k reads).filterMinWeight min
  s!"mw={g.maxWeight} len={g.len} {showGraph k g}"

def hexNat? (s : String) : Option Nat :=
  s.toList.foldlM (fun acc c => (hexVal c).map fun d => acc * 16 + d) 0

/-- the bits of a finite positive `float64` as `m × 2^e` -/
def floatOfBits (bits : Nat) : Option (Nat × Int) :=
  let sign : Nat := bits / 2 ^ 63
  let ex : Nat := bits / 2 ^ 52 % 2048
  let fr : Nat := bits % 2 ^ 52
  if sign ≠ 0 ∨ ex = 2047 ∨ bits = 0 ∨ bits ≥ 2 ^ 64 then none
  else if ex = 0 then some (fr, -1074) else some (2 ^ 52 + fr, (ex : Int) - 1075)

/-- `gc`: `LongestConsensus(id, min_cov)`, `min_cov > 0` given by its bits.  `obs` is what the real code returned:
it is only used when `obistats.Mode` has several possible answers leading to different outcomes — the model
then checks that `obs` is one of them. -/
def runCov (k : Nat) (bits : Nat) (obs : String) (reads : List (List UInt8 × Nat)) : String :=
  match floatOfBits bits with
  | none => "bad-op"
  | some (m, e) =>
    let g := buildGraph k reads
    let cands := (g.consensusCovCands hpFuel m e).map consStr
    let c := match cands with
      | [c] => c
      | _ => if cands.contains obs then obs else "!" ++ "|".intercalate cands
    s!"mw={g.maxWeight} len={g.len} cons={c}"

def showMatch (rep : List (Nat × Nat)) : String :=
  joinC ((rep.foldr insSorted []).map fun (i, c) => s!"{i}:{c}")

/-- `km`: `NewKmerMap(refs, k, sparse, maxocc)`, `Len`, `Query(last sequence)`, `FilterMinCount(mincount)`.
`self = true`: the query (the last sequence) is also the last reference.  `ord` = address rank of every sequence. -/
def runIndex (w k : Nat) (sparse : Bool) (maxocc mincount : Int) (self : Bool) (ord : List Nat)
    (seqs : List (List UInt8)) : String :=
  match newKmerMap w k sparse with
  | .error _ => "panic"
  | .ok m =>
    match seqs.reverse with
    | [] => "bad-op"
    | q :: rest =>
      let refs := if self then seqs else rest.reverse
      let idx := newIndex m maxocc refs
      let rank := fun i => ord.getD i i
      let rep := kmQuery m idx rank (seqs.length - 1) q
      s!"len={idx.len} m={showMatch rep} f={showMatch (filterMinCount rep mincount)}"

/-! ### histories on one object (`gh`, `kh`) -/

/-- a step of `gh`: `p:<hexread>:<count>` | `f:<min>` | `q` | `c:<float64 bits>:<obs>`; `obs` = what the real code
returned for the `c` step (used as in `gc`) -/
def parseStep (s : String) : Option (Step × String) :=
  match s.splitOn ":" with
  | ["q"] => some (.query, "")
  | ["f", mn] => mn.toInt?.map fun m => (.filter m, "")
  | ["p", r, c] => (parseRead (r ++ ":" ++ c)).map fun (s, c) => (.push s c, "")
  | ["c", bits, obs] => do
    let b ← hexNat? bits
    let (m, e) ← floatOfBits b
    pure (.cov m e, obs)
  | _ => none

/-- what a step prints, on the state AFTER the step -/
def showStep (k : Nat) (g : Graph) : Step × String → String
  | (.push _ _, _) => "p"
  | (.filter _, _) => "f"
  | (.query, _) => s!"mw={g.maxWeight} len={g.len} {showGraph k g}"
  | (.cov m e, obs) =>
    let cands := (g.consensusCovCands hpFuel m e).map consStr
    let c := match cands with
      | [c] => c
      | _ => if cands.contains obs then obs else "!" ++ "|".intercalate cands
    s!"cons={c}"

/-- `gh`: the functional model applied step by step (`Graph.apply`), every observation printed -/
def runHist (k : Nat) : Graph → List (Step × String) → List String
  | _, [] => []
  | g, s :: t => let g' := g.apply s.1; showStep k g' s :: runHist k g' t

/-- a step of `kh`: `p:<hexseq>:<maxocc>` | `q:<hexseq | @j>:<mincount>`; `nfresh` identifies a query that is not a
pushed sequence -/
def parseIStep (nfresh : Nat) (pushed : List (List UInt8)) (s : String) : Option IStep :=
  match s.splitOn ":" with
  | ["p", r, mo] => do
    let r ← unhex r
    let mo ← mo.toInt?
    if mo < -1 ∨ mo > 1000000 then none else pure (.push (r.map lower) mo)
  | ["q", q, mc] => do
    let mc ← mc.toInt?
    if mc < -1000000 ∨ mc > 1000000 then none else
    match q.toList with
    | '@' :: d =>
      let j ← (String.ofList d).toNat?
      if j < pushed.length ∧ toString j = String.ofList d then pure (.query j (pushed.getD j []) mc) else none
    | _ => (unhex q).map fun s => .query nfresh (s.map lower) mc
  | _ => none

/-- the steps of `kh`, `@j` referring to the j-th sequence pushed so far -/
def parseISteps (nfresh : Nat) : List (List UInt8) → List String → Option (List IStep)
  | _, [] => some []
  | pushed, s :: t => do
    let st ← parseIStep nfresh pushed s
    let pushed' := match st with | .push r _ => pushed ++ [r] | _ => pushed
    let rest ← parseISteps nfresh pushed' t
    pure (st :: rest)

def showIObs : IObs → String
  | .len n => s!"len={n}"
  | .matched n m f => s!"len={n} m={showMatch m} f={showMatch f}"

/-! ### glue pass: the commands obikmersimcount / obikmermatch (`ks`, Model/KmerSim.lean) -/

/-- an option value of a `ks` case: `d` = option absent (the default of the variable) -/
def optInt (s : String) (dflt : Int) (lo hi : Int) : Option Int :=
  if s = "d" then some dflt else
    match s.toInt? with
    | some v => if lo ≤ v ∧ v ≤ hi ∧ toString v = s then some v else none
    | none => none

def optNat (s : String) (lo hi : Nat) : Option Nat :=
  match s.toNat? with
  | some v => if lo ≤ v ∧ v ≤ hi ∧ toString v = s then some v else none
  | none => none

def isLetters (s : List UInt8) : Bool :=
  !s.isEmpty && s.length ≤ 2000 && s.all fun b => (97 ≤ b.toNat && b.toNat ≤ 122) || (65 ≤ b.toNat && b.toNat ≤ 90)

/-- `ks <count|match> <form> <k|d> <sparse> <min|d> <maxocc|d> <self> <ncpu> <batch> <obs> <nref> <refs> <reads>`:
the options as the parser leaves them, then `cliLookForSharedKmers` / `cliAlignCandidates`; the address ranks are the
identity (`cli_kmersim_exact` proves the answer independent of them); `obs` (match): which reads got a record -/
def runKs (cmd form k sp mn mo self ncpu batch obs nref : String) (seqs : List String) : String :=
  match optNat form 0 3, optInt k 30 0 90, optInt mn 1 (-3) 1000, optInt mo (-1) (-1) 1000, optNat ncpu 2 16,
      optNat batch 1 5000, optNat nref 0 200, seqs.mapM unhex with
  | some _, some k, some mn, some mo, some _, some _, some nref, some seqs =>
    if (cmd ≠ "count" ∧ cmd ≠ "match") ∨ (sp ≠ "0" ∧ sp ≠ "1") ∨ (self ≠ "0" ∧ self ≠ "1") ∨ seqs.length < nref
        ∨ !(seqs.all isLetters) then "bad-op" else
      let seqs := seqs.map fun s => s.map lower
      let o : KmerSim.Opts := ⟨k.toNat, sp == "1", mn, mo, self == "1"⟩
      let refs := seqs.take nref
      let reads := seqs.drop nref
      let cells := fun (l : List String) => if l.isEmpty then "-" else joinC l
      if cmd = "count" then
        match KmerSim.cliLookForSharedKmers o id refs reads with
        | .fatal => "fatal"
        | .panic => "panic"
        | .ok recs =>
          match recs with
          | [] => "k=- sp=- n=-"
          | r :: _ => s!"k={r.kmerSize} sp={if r.sparseKmer then 1 else 0} n={cells (recs.map fun r => toString r.matchCount)}"
      else
        match KmerSim.cliAlignCandidates o id refs reads with
        | .fatal => "fatal"
        | .panic => "panic"
        | .ok cands =>
          let mask := if obs = "-" then [] else obs.splitOn ","
          if mask.length ≠ cands.length ∨ mask.any (fun b => b ≠ "0" ∧ b ≠ "1") then "bad-op" else
            s!"n={cells ((cands.zip mask).map fun (c, b) => if b = "1" then toString c.length else "-")}"
  | _, _, _, _, _, _, _, _ => "bad-op"

/-- one sequential operation (the words of its case line) -/
def runWords (ws : List String) : String :=
  match ws with
  | "ks" :: cmd :: form :: k :: sp :: mn :: mo :: self :: ncpu :: batch :: obs :: nref :: seqs =>
    runKs cmd form k sp mn mo self ncpu batch obs nref seqs
  | ["e4", s] =>
    match unhex s with
    | some s => hexCodes (encode4mer (s.map lower))
    | none => "bad-op"
  | ["c4", u, reps] =>
    match unhex u, reps.toNat? with
    | some u, some reps =>
      if reps * u.length > 4194304 then "bad-op" else
        let tab := count4mer ((repeatBytes u reps []).map lower)
        joinC (((List.range 256).filter fun i => tab.getD i 0 ≠ 0).map fun i => s!"{i}:{tab.getD i 0}")
    | _, _ => "bad-op"
  | ["nk", w, k, sp, s] =>
    match w.toNat?, k.toNat?, unhex s with
    | some w, some k, some s =>
      if (w ≠ 64 ∧ w ≠ 128 ∧ w ≠ 256) ∨ k < 1 ∨ k > 200 ∨ (sp ≠ "0" ∧ sp ≠ "1") then "bad-op" else
        match newKmerMap w k (sp == "1") with
        | .error _ => "panic"
        | .ok m =>
          let ks := normalizedKmerSlice m (s.map lower)
          s!"k={m.kmersize} sp={m.sparseAt} {joinC (ks.map fun x => hexNat x ++ "/" ++ bytesStr (kmerAsString m x))}"
    | _, _, _ => "bad-op"
  | "km" :: w :: k :: sp :: mo :: mc :: self :: ord :: seqs =>
    match w.toNat?, k.toNat?, mo.toInt?, mc.toInt?, seqs.mapM unhex with
    | some w, some k, some mo, some mc, some seqs =>
      let ord? := if ord = "?" then some [] else (ord.splitOn ",").mapM String.toNat?
      match ord? with
      | none => "bad-op"
      | some ord =>
        if (w ≠ 64 ∧ w ≠ 128 ∧ w ≠ 256) ∨ k < 1 ∨ k > 200 ∨ (sp ≠ "0" ∧ sp ≠ "1") ∨ (self ≠ "0" ∧ self ≠ "1") ∨ seqs.isEmpty
        then "bad-op"
        else runIndex w k (sp == "1") mo mc (self == "1") ord (seqs.map fun s => s.map lower)
    | _, _, _, _, _ => "bad-op"
  | "gf" :: k :: mn :: reads =>
    match k.toNat?, mn.toInt?, reads.mapM parseRead with
    | some k, some mn, some reads => if k < 1 ∨ k > 32 then "bad-op" else runFilter k mn reads
    | _, _, _ => "bad-op"
  | "gc" :: k :: bits :: obs :: reads =>
    match k.toNat?, hexNat? bits, reads.mapM parseRead with
    | some k, some bits, some reads => if k < 1 ∨ k > 32 then "bad-op" else runCov k bits obs reads
    | _, _, _ => "bad-op"
  | "gh" :: k :: steps =>
    match k.toNat?, steps.mapM parseStep with
    | some k, some steps =>
      if k < 1 ∨ k > 32 ∨ steps.isEmpty then "bad-op" else " ; ".intercalate (runHist k (makeGraph k) steps)
    | _, _ => "bad-op"
  | "kh" :: w :: k :: sp :: steps =>
    match w.toNat?, k.toNat? with
    | some w, some k =>
      if (w ≠ 64 ∧ w ≠ 128 ∧ w ≠ 256) ∨ k < 1 ∨ k > 200 ∨ (sp ≠ "0" ∧ sp ≠ "1") ∨ steps.isEmpty then "bad-op" else
        match parseISteps steps.length [] steps with
        | none => "bad-op"
        | some st =>
          match newKmerMap w k (sp == "1") with
          | .error _ => "panic"
          | .ok m => " ; ".intercalate ((itrace m id ⟨[], 0⟩ st).map showIObs)
    | _, _ => "bad-op"
  | "g" :: k :: reads =>
    match k.toNat?, reads.mapM parseRead with
    | some k, some reads => if k < 1 ∨ k > 32 then "bad-op" else runGraph k reads
    | _, _ => "bad-op"
  | _ => "bad-op"

/-- the word list cut at the `|` words -/
def splitBar : List String → List String → List (List String)
  | [], cur => [cur.reverse]
  | w :: t, cur => if w = "|" then cur.reverse :: splitBar t [] else splitBar t (w :: cur)

/-- a query of a `kq` sub-case: `@j` = reference `j` itself (obikmersim --self), otherwise a fresh record -/
def kqQuery (refs : List (List UInt8)) (q : String) : Option (Nat × List UInt8) :=
  match q.toList with
  | '@' :: d =>
    match (String.ofList d).toNat? with
    | some j => if j < refs.length ∧ toString j = String.ofList d then some (j, refs.getD j []) else none
    | none => none
  | _ => (unhex q).map fun s => (refs.length, s.map lower)

/-- `kq`: ONE index (`NewKmerMap(refs, k, sparse, maxocc)`), `Len`, then `Query` + `FilterMinCount(mincount)` for every
query.  The address ranks are the identity: `query_any_exact` / `query_limited_exact` prove the answer independent of them. -/
def runKq (w k : Nat) (sparse : Bool) (maxocc mincount : Int) (refs : List (List UInt8))
    (qs : List (Nat × List UInt8)) : String :=
  match newKmerMap w k sparse with
  | .error _ => "panic"
  | .ok m =>
    let idx := newIndex m maxocc refs
    let one := fun (q : Nat × List UInt8) =>
      let rep := kmQuery m idx id q.1 q.2
      s!"m={showMatch rep} f={showMatch (filterMinCount rep mincount)}"
    s!"len={idx.len} " ++ " / ".intercalate (qs.map one)

/-- a sub-case of `conc`: the sequential operations whose answer does not depend on the run, and `kq` -/
def runSub (ws : List String) : String :=
  match ws with
  | "kq" :: w :: k :: sp :: mo :: mc :: nref :: rest =>
    match w.toNat?, k.toNat?, mo.toInt?, mc.toInt?, nref.toNat? with
    | some w, some k, some mo, some mc, some nref =>
      if (w ≠ 64 ∧ w ≠ 128 ∧ w ≠ 256) ∨ k < 1 ∨ k > 200 ∨ (sp ≠ "0" ∧ sp ≠ "1") ∨ mo < -1 ∨ mo > 1000000
          ∨ mc < -1000000 ∨ mc > 1000000 ∨ rest.length < nref + 1 then "bad-op" else
        match (rest.take nref).mapM unhex with
        | none => "bad-op"
        | some refs =>
          let refs := refs.map fun s => s.map lower
          match (rest.drop nref).mapM (kqQuery refs) with
          | none => "bad-op"
          | some qs => runKq w k (sp == "1") mo mc refs qs
    | _, _, _, _, _ => "bad-op"
  | op :: _ => if op = "e4" ∨ op = "c4" ∨ op = "nk" ∨ op = "g" ∨ op = "gf" then runWords ws else "bad-op"
  | [] => "bad-op"

def runLine (ws : List String) : String :=
  match ws with
  | "conc" :: g :: r :: "|" :: rest =>
    -- the answers of the sub-cases run one after the other (the sequential model); the harness demands the same answer
    -- from every call made by g goroutines at the same time
    match g.toNat?, r.toNat? with
    | some g, some r =>
      let rs := (splitBar rest []).map runSub
      if g < 1 ∨ g > 64 ∨ r < 1 ∨ r > 50 ∨ rs.length > 32 ∨ rs.contains "bad-op" then "bad-op"
      else " ; ".intercalate rs
    | _, _ => "bad-op"
  | ws => runWords ws

/-- `kmc <r> <rep> <fields of a ks match case, self = 0>`: obikmermatch under concurrent use (harness/c19_match.go).
The answer is the answer of the `ks match` case on the distinct reads run ALONE (the sequential model of the command,
`KmerSim.cliAlignCandidates`); the harness demands the same records from `rep` copies of every read handled by the
worker goroutines of the command at the same time, `r` rounds, and the shared references unchanged. -/
def runKmc (r rep : String) (rest : List String) : String :=
  match optNat r 1 50, optNat rep 1 64, rest with
  | some _, some _, form :: k :: sp :: mn :: mo :: self :: ncpu :: batch :: obs :: nref :: seqs =>
    if self ≠ "0" then "bad-op" else runKs "match" form k sp mn mo self ncpu batch obs nref seqs
  | _, _, _ => "bad-op"

/-- `cons <kopt> <read:count>…`: `obiconsensus.BuildConsensus(seqs, id, kopt, 0, false, "")` (harness/c19_cons.go) -/
def runCons (kopt : String) (reads : List String) : String :=
  match kopt.toInt?, reads.mapM parseRead with
  | some ko, some reads =>
    if ko < -1 ∨ ko = 0 ∨ ko > 64 ∨ toString ko ≠ kopt ∨ reads.length > 400 then "bad-op" else
      match buildConsensus hpFuel reads ko with
      | .noSeq => "noseq"
      | .single s w => s!"single {hex s} {w}"
      | .panic => "panic"
      | .fuel => "fuel"
      | .err _ => "err"
      | .cons s k w mo sz => s!"k={k} cons={hex s} w={w} mo={mo} fg={sz}"
  | _, _ => "bad-op"

/-- `race conc …`: the same case replayed by the harness through a `go build -race` build; same answer -/
def run (line : String) : String :=
  match words line with
  | "race" :: "conc" :: rest => runLine ("conc" :: rest)
  | "kmc" :: r :: rep :: rest => runKmc r rep rest
  | "cons" :: kopt :: reads => runCons kopt reads
  | ws => runLine ws

end ObiVerif.Driver.C19
