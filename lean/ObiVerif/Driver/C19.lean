/-! line protocol for C19 (stub: no model yet) -/
namespace ObiVerif.Driver.C19

def run (_line : String) : String := "bad-op"

end ObiVerif.Driver.C19
