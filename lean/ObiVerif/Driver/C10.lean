import ObiVerif.Model.Apat
import ObiVerif.Driver.Util
/-! line protocol for C10

```
pat    <pat> <emax> <indel>                                      -> err | ok <patlen> <cpat> <codes> <omask> <smat>
rcpat  <pat> <emax> <indel>                                      -> err0 | err | ub | ok <patlen> <lower cpat> <codes> <omask> <smat>
find|filter|all|best|is <pat> <emax> <indel> <rc> <seq> <circ> <begin> <length>
                                                                 -> err | rcerr | hits | panic
locate <pat> <seq>                                               -> panic | <from> <to> <score>
budget <pat> <emax> <indel> <seq>                                -> err | unmodelled | ok <hits>     (MakeApatPattern with its budget guard + FindAllIndex)
conc   <g> <r> <n> n × [<pat> <emax> <indel> <seq>]              -> hits ; hits ; ...   (each scan alone; the harness repeats them from g goroutines)
```
byte strings in hex; `rc` = 1: the search is done with `pattern.ReverseComplement()`. -/
namespace ObiVerif.Driver.C10
open ObiVerif.Apat ObiVerif.Driver

def hexW (w : W) : String := String.ofList (Nat.toDigits 16 w.toNat)

def showPat (P : Pattern) (name : Bytes) : String :=
  s!"ok {P.patlen} {hex name} {",".intercalate (P.codes.map toString)} {hexW (omaskWord P.codes)} {",".intercalate ((smat P.codes).map hexW)}"

def showHits (l : List Hit) : String :=
  if l.isEmpty then "-" else ",".intercalate (l.map fun (a, b, c) => s!"{a}:{b}:{c}")

def bool? (s : String) : Option Bool := if s = "1" then some true else if s = "0" then some false else none

/-- one sub-case of `conc`: `FindAllIndex` of the pattern on the (linear) sequence, scanned alone -/
def concSub (p e i s : String) : String :=
  match unhex p, e.toNat?, bool? i, unhex s with
  | some p, some e, some i, some s =>
    match makeApatPattern p e i with
    | .error _ => "bad-op"
    | .ok P => if P.patlen ≥ 64 then "bad-op" else showHits (findAllIndex P (s.map lowerByte) false 0 (-1))
  | _, _, _, _ => "bad-op"

def concSubs : List String → Option (List String)
  | [] => some []
  | p :: e :: i :: s :: rest => (concSubs rest).map (concSub p e i s :: ·)
  | _ => none

def run (line : String) : String :=
  match words line with
  | "conc" :: _g :: _r :: n :: rest =>
    -- the answers of the n scans run one after the other; the harness demands the same from every concurrent scan
    match n.toNat?, concSubs rest with
    | some n, some rs => if rs.length = n ∧ ¬ rs.contains "bad-op" then " ; ".intercalate rs else "bad-op"
    | _, _ => "bad-op"
  | [op, p, e, i] =>
    match unhex p, e.toNat?, bool? i with
    | some p, some e, some i =>
      if op = "pat" then
        match makeApatPattern p e i with
        | .ok P => showPat P P.cpat
        | .error _ => "err"
      else if op = "rcpat" then
        match makeApatPattern p e i with
        | .error _ => "err0"
        | .ok P =>
          match reverseComplement P with
          | .ok R => showPat R (lowerStr R.cpat)
          | .error .ub => "ub"
          | .error .tooLong => "ub"
          | .error _ => "err"
      else "bad-op"
    | _, _, _ => "bad-op"
  | ["locate", p, s] =>
    match unhex p, unhex s with
    | some p, some s =>
      match locatePattern p s with
      | some (a, b, c) => s!"{a} {b} {c}"
      | none => "panic"
    | _, _ => "bad-op"
  | ["budget", p, e, i, s] =>
    match unhex p, e.toNat?, bool? i, unhex s with
    | some p, some e, some i, some s =>
      match makeApatPattern p e i with
      | .error _ => "err"
      | .ok P => if P.patlen ≥ 64 then "unmodelled" else "ok " ++ showHits (findAllIndex P (s.map lowerByte) false 0 (-1))
    | _, _, _, _ => "bad-op"
  | [op, p, e, i, rc, s, circ, b, l] =>
    match unhex p, e.toNat?, bool? i, bool? rc, unhex s, bool? circ, b.toInt?, l.toInt? with
    | some p, some e, some i, some rc, some s, some circ, some b, some l =>
      match makeApatPattern p e i with
      | .error _ => "err"
      | .ok P0 =>
        match (if rc then reverseComplement P0 else .ok P0) with
        | .error .ub => "ub"
        | .error .tooLong => "ub"
        | .error _ => "rcerr"
        | .ok P =>
          if P.patlen ≥ 64 then "unmodelled" else
          let s := s.map lowerByte
          if op = "find" then showHits (findAllIndex P s circ b l)
          else if op = "filter" then showHits (filterBestMatch P s circ b l)
          else if op = "is" then (if isMatching P s circ b l then "1" else "0")
          else if op = "all" then
            match allMatches P s circ b l with
            | .ok h => showHits h
            | .panic => "panic"
          else if op = "best" then
            match bestMatch P s circ b l with
            | .ok (a, b, c, m) => s!"{a} {b} {c} {if m then 1 else 0}"
            | .panic => "panic"
          else "bad-op"
    | _, _, _, _, _, _, _, _ => "bad-op"
  | _ => "bad-op"

end ObiVerif.Driver.C10
