/-! line protocol for C10 (stub: no model yet) -/
namespace ObiVerif.Driver.C10

def run (_line : String) : String := "bad-op"

end ObiVerif.Driver.C10
