import ObiVerif.Model.Lcs
import ObiVerif.Model.LcsBuf
import ObiVerif.Model.LcsEgf
import ObiVerif.Driver.Util
/-! line protocol for C09 (see harness/c09.go for the ops) -/
namespace ObiVerif.Driver.C09
open ObiVerif.Lcs ObiVerif.Driver

def showLcs : Except Err (Int × Int × Int) → String
  | .ok (s, l, e) => s!"{s} {l} {e}"
  | .error .panic => "panic"
  | .error .fuel => "layer-mismatch"

/-- both layers (verbatim two-row buffer; banded matrix by rows: `bandLCS` for endgapfree = false, `bandEGF` for
endgapfree = true) must agree on (score, length); with endgapfree = true, `end` must lie in `0..max(|a|,|b|)` -/
def layersAgree (a b : Seq) (e : Int) (egf : Bool) (s l en : Int) : Bool :=
  let st := if egf then bandEGF a b e else bandLCS a b e
  let okEnd := if egf then decide (0 ≤ en ∧ en ≤ (max a.length b.length : Nat)) else true
  match st with
  | some (s', l') => decide (s = s' ∧ l = l') && okEnd
  | none => decide (s = -1 ∧ l = -1) && okEnd

def runLcs (a b : Seq) (e : Int) (egf : Bool) (fill : Option UInt64) : Except Err (Int × Int × Int) :=
  match fastLCSEGFScoreByte a b e egf fill with
  | .ok (s, l, en) => if layersAgree a b e egf s l en then .ok (s, l, en) else .error .fuel
  | .error e => .error e

/-- `lcsseq` : groups of four words `A B e egf` -/
def parseCalls : List String → Option (List (Seq × Seq × Int × Bool))
  | [] => some []
  | a :: b :: e :: egf :: rest =>
    match unhex a, unhex b, e.toInt?, parseCalls rest with
    | some a, some b, some e, some r =>
      if e < -1 ∨ (egf ≠ "0" ∧ egf ≠ "1") then none else some ((a, b, e, egf == "1") :: r)
    | _, _, _, _ => none
  | _ => none

/-- one result of a history; it must also agree with the structural layer of its mode -/
def showSeqItem (c : Seq × Seq × Int × Bool) (r : Except Err (Int × Int × Int)) : String :=
  match r with
  | .ok (s, l, en) =>
    if layersAgree c.1 c.2.1 c.2.2.1 c.2.2.2 s l en then s!"{s},{l},{en}" else "layer-mismatch"
  | .error .panic => "panic"
  | .error .fuel => "layer-mismatch"

def zipShow : List (Seq × Seq × Int × Bool) → List (Except Err (Int × Int × Int)) → List String
  | c :: cs, r :: rs => showSeqItem c r :: zipShow cs rs
  | _, _ => []

def showD1 (d : D1) : String := s!"{d.verdict} {d.pos} {d.a1.toNat} {d.a2.toNat}"

/-- both layers of `D1Or0` (verbatim loops, structural stripping) must agree: the structural layer is the one
the theorems talk about -/
def runD1 (a b : Seq) : Except Err D1 :=
  match d1or0 a b with
  | .ok d => if d1F a b = d then .ok d else .error .fuel
  | .error e => .error e

def showD1E : Except Err D1 → String
  | .ok d => showD1 d
  | .error .panic => "panic"
  | .error .fuel => "layer-mismatch"

/-- all words over {a,c,g,t} of length exactly `n`, in the order of the harness (first symbol slowest) -/
def wordsN : Nat → List Seq
  | 0 => [[]]
  | n + 1 => [97, 99, 103, 116].flatMap (fun c => (wordsN n).map (fun w => c :: w))

def wordsUpTo (n : Nat) : List Seq := (List.range (n + 1)).flatMap wordsN

def pmod : UInt64 := 2305843009213693951

def u64OfInt1 (x : Int) : UInt64 := UInt64.ofNat (x + 1).toNat

/-! `conc` (harness/c09_conc.go): the result line is what the sub-cases answer one after the other on fresh buffers —
the sequential model, no new obligation: `fastLCS_anymode_history_independent` says that a worker's own buffer
gives the same answers. The concurrent runs are the harness's business. -/

def noUpper (s : Seq) : Bool := s.all (fun c => !(65 ≤ c && c ≤ 90))

/-- one sub-case `kind buf e A B` -/
def concSub (kind buf e a b : String) : Option String :=
  match e.toInt?, unhex a, unhex b with
  | some e, some a, some b =>
    if !(noUpper a && noUpper b) || a.length > 40000 || b.length > 40000 then none
    else if kind = "d1" then
      if buf ≠ "-" ∨ e ≠ 0 then none else some (showD1E (runD1 a b))
    else if kind = "lcs" ∨ kind = "egf" then
      if (buf ≠ "w" ∧ buf ≠ "n") ∨ e < -1 ∨ e > 100000 then none else
      let egf : Bool := kind = "egf"
      -- the structural layer computes whole rows: only when one of the sequences is short (as lcslong does)
      let r := if min a.length b.length ≤ 64 then runLcs a b e egf none else fastLCSEGFScoreByte a b e egf none
      some (match r with
        | .ok (s, l, en) => if egf then s!"{s} {l} {en}" else s!"{s} {l}"
        | .error .panic => "panic"
        | .error .fuel => "layer-mismatch")
    else none
  | _, _, _ => none

def concSubs : List String → Option (List String)
  | [] => some []
  | k :: bf :: e :: a :: b :: rest =>
    match concSub k bf e a b, concSubs rest with
    | some x, some r => some (x :: r)
    | _, _ => none
  | _ => none

def runConc (g r n : String) (rest : List String) : String :=
  match g.toNat?, r.toNat?, n.toNat? with
  | some g, some r, some n =>
    if g < 1 ∨ g > 64 ∨ r < 1 ∨ r > 2000 ∨ n < 1 ∨ n > 32 ∨ rest.length ≠ 5 * n then "bad-op" else
    match concSubs rest with
    | some xs => " ; ".intercalate xs
    | none => "bad-op"
  | _, _, _ => "bad-op"

def run (line : String) : String :=
  match words line with
  | "conc" :: g :: r :: n :: rest => runConc g r n rest
  | "race" :: "conc" :: g :: r :: n :: rest => runConc g r n rest
  | ["samerow", x] =>
    match x.toNat? with
    | some x =>
      if x > 255 then "bad-op" else
      String.ofList ((List.range 256).map (fun y => if samenuc (UInt8.ofNat x) (UInt8.ofNat y) then '1' else '0'))
    | none => "bad-op"
  | ["lcs", a, b, e, egf, fill] =>
    match unhex a, unhex b, e.toInt?, (if fill = "n" then some none else fill.toNat?.map (fun w => some (UInt64.ofNat w))) with
    | some a, some b, some e, some fill =>
      if e < -1 ∨ (egf ≠ "0" ∧ egf ≠ "1") then "bad-op" else
      showLcs (runLcs a b e (egf == "1") fill)
    | _, _, _, _ => "bad-op"
  | "lcsseq" :: rest =>
    match parseCalls rest with
    | some calls => if calls.isEmpty then "bad-op" else joinSp (zipShow calls (lcsHistory calls #[]))
    | none => "bad-op"
  | ["lcslong", x, n, ta, y, m, tb, e, egf] =>
    -- A = x^n ++ ta, B = y^m ++ tb (long sequences given in compact form)
    match unhex x, n.toNat?, unhex ta, unhex y, m.toNat?, unhex tb, e.toInt? with
    | some [x], some n, some ta, some [y], some m, some tb, some e =>
      if e < -1 ∨ (egf ≠ "0" ∧ egf ≠ "1") ∨ n > 70000 ∨ m > 70000 then "bad-op" else
      let a := List.replicate n x ++ ta
      let b := List.replicate m y ++ tb
      -- the structural layer computes whole rows: only when one of the sequences is short
      if min a.length b.length ≤ 64 then showLcs (runLcs a b e (egf == "1") none)
      else showLcs (fastLCSEGFScoreByte a b e (egf == "1") none)
    | _, _, _, _, _, _, _ => "bad-op"
  | ["d1", a, b] =>
    match unhex a, unhex b with
    | some a, some b => showD1E (runD1 a b)
    | _, _ => "bad-op"
  | ["lcsall", a, ml, e, egf] =>
    match unhex a, ml.toNat?, e.toInt? with
    | some a, some ml, some e =>
      if ml > 7 ∨ e < -1 ∨ (egf ≠ "0" ∧ egf ≠ "1") then "bad-op" else
      let ws := wordsUpTo ml
      let r := ws.foldl (fun (acc : Option UInt64) b =>
        match acc, runLcs a b e (egf == "1") none with
        | some sum, .ok (s, l, en) =>
          some ((sum * 1000003 + u64OfInt1 s * 10007 + u64OfInt1 l * 101 + u64OfInt1 en) % pmod)
        | _, _ => none) (some 0)
      match r with
      | some sum => s!"{ws.length} {sum.toNat}"
      | none => "panic"
    | _, _, _ => "bad-op"
  | ["d1all", a, ml] =>
    match unhex a, ml.toNat? with
    | some a, some ml =>
      if ml > 7 then "bad-op" else
      let ws := wordsUpTo ml
      let r := ws.foldl (fun (acc : Option UInt64) b =>
        match acc, runD1 a b with
        | some sum, .ok d =>
          some ((sum * 1000003 + u64OfInt1 d.verdict * 10007 + u64OfInt1 d.pos * 65536 + d.a1.toUInt64 * 256 + d.a2.toUInt64) % pmod)
        | _, _ => none) (some 0)
      match r with
      | some sum => s!"{ws.length} {sum.toNat}"
      | none => "panic"
    | _, _ => "bad-op"
  | _ => "bad-op"

end ObiVerif.Driver.C09
