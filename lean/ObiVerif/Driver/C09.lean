/-! line protocol for C09 (stub: no model yet) -/
namespace ObiVerif.Driver.C09

def run (_line : String) : String := "bad-op"

end ObiVerif.Driver.C09
