/-! line protocol for C18 (stub: no model yet) -/
namespace ObiVerif.Driver.C18

def run (_line : String) : String := "bad-op"

end ObiVerif.Driver.C18
