import ObiVerif.Model.WriteErr
import ObiVerif.Driver.Util
/-! line protocol for C18: `<writer> gz=<0|1> k=<limit> cf=<0|1> zlen=<n> own=<0|1> <order>:<nseq>:<hex text> …` -/
namespace ObiVerif.Driver.C18
open ObiVerif.WriteErr ObiVerif.Driver

def parseChunk (s : String) : Option (Nat × Bytes) :=
  match s.splitOn ":" with
  | [o, _, h] => do
    let k ← o.toNat?
    let b ← unhex h
    pure (k, b)
  | _ => none

def kv (key : String) (s : String) : Option Nat :=
  if s.startsWith (key ++ "=") then (s.drop (key.length + 1)).toString.toNat? else none

def showOut (r : Outcome × Bytes) : String :=
  match r.1 with
  | .ok => s!"ok got={r.2.length}"
  | .fatal => s!"fatal got={r.2.length}"

def run (line : String) : String :=
  match words line with
  | "cmd" :: _ => "exit-nonzero"   -- a command whose output cannot be written must fail
  | w :: gz :: k :: cf :: zl :: own :: rest =>
    match kv "gz" gz, kv "k" k, kv "cf" cf, kv "zlen" zl, kv "own" own, rest.mapM parseChunk with
    | some gz, some k, some cf0, some zlen, some own, some arr =>
      -- a writer that does not own its output (OptionDontCloseFile: stdout) never calls Close on it,
      -- so a failing Close of the sink cannot be met; the final flush still is
      let cf := if own = 0 then 0 else cf0
      if gz = 1 then
        -- compressed output: the codec is not modelled; the result fits the output iff the limit
        -- is at least the compressed size measured on a non failing run
        if k ≥ zlen && cf = 0 then "ok" else "fatal"
      else if w = "fasta" || w = "fastq" || w = "csv" then showOut (writeRaw 4096 k (cf = 1) arr)
      else if w = "json" then showOut (writeJson 4096 k (cf = 1) arr)
      else "bad-op"
    | _, _, _, _, _, _ => "bad-op"
  | _ => "bad-op"

end ObiVerif.Driver.C18
