import ObiVerif.Model.WriteErr
import ObiVerif.Model.WriteDev
import ObiVerif.Model.WriteProc
import ObiVerif.Driver.Util
/-! line protocol for C18

* `<writer> gz=<0|1> k=<limit> cf=<0|1> zlen=<n> own=<0|1> <order>:<nseq>:<hex text> …` one writer over the
  sink failing after `k` bytes; result `ok|fatal got=<bytes the sink holds>`; compressed: the model runs
  `bufio` over the abstract pgzip writer with a codec of the measured stream length `zlen`
* `dev <writer> beh=<short:m|temp:i|partial:i:n|errfull:i> cf=<0|1> own=<0|1> chunks…` one writer over a scripted
  `io.Writer` (short writes with nil error, temporary errors)
* `multi <writer> gz=<0|1> own=<0|1> / k=<limit> cf=<0|1> zlen=<n> chunks… / k=… …` several writers in one
  process; result `exit0|exit1` from the process model
* `disp <writer> gz=<0|1> own=1 / k=… cf=… zlen=… 0:<nseq>:<text of the file> / …` the files written by the real
  `WriterDispatcher`; same model as `multi`
* `cmd <command> <scenario> …` a real command in a subprocess; `nofault…` scenarios must exit 0, all the others
  non-zero (process model with one failing writer)
-/
namespace ObiVerif.Driver.C18
open ObiVerif.WriteErr ObiVerif.WriteProc ObiVerif.Driver

def parseChunk (s : String) : Option (Nat × Bytes) :=
  match s.splitOn ":" with
  | [o, _, h] => do
    let k ← o.toNat?
    let b ← unhex h
    pure (k, b)
  | _ => none

def kv (key : String) (s : String) : Option Nat :=
  if s.startsWith (key ++ "=") then (s.drop (key.length + 1)).toString.toNat? else none

def showOut (r : Outcome × Bytes) : String :=
  match r.1 with
  | .ok => s!"ok got={r.2.length}"
  | .fatal => s!"fatal got={r.2.length}"

def isRaw (w : String) : Bool := w = "fasta" || w = "fastq" || w = "csv"

/-- one writer over the failing sink -/
def one (w : String) (gz k cf zlen own : Nat) (arr : List (Nat × Bytes)) : Option (Outcome × Bytes) :=
  if gz = 1 then
    -- error visibility schedule: every other check sees a pushed error (any schedule gives the same result)
    let rep : Nat → Bool := fun i => i % 2 = 1
    if isRaw w then some (writeRawZ (lenCodec zlen) rep 4096 k (cf = 1) (own = 1) arr)
    else if w = "json" then some (writeJsonZ (lenCodec zlen) rep 4096 k (cf = 1) (own = 1) arr)
    else none
  else if isRaw w then some (writeRawO 4096 k (cf = 1) (own = 1) arr)
  else if w = "json" then some (writeJsonO 4096 k (cf = 1) (own = 1) arr)
  else none

def parseBeh (s : String) : Option (Nat → Nat → Nat → Nat × Bool) :=
  match s.splitOn ":" with
  | ["beh=short", m] => do
    let m ← m.toNat?
    pure fun _ _ l => (min l m, false)
  | ["beh=temp", i] => do
    let i ← i.toNat?
    pure fun c _ l => if c = i then (0, true) else (l, false)
  | ["beh=partial", i, n] => do
    let i ← i.toNat?
    let n ← n.toNat?
    pure fun c _ l => if c = i then (min l n, true) else (l, false)
  | ["beh=errfull", i] => do
    let i ← i.toNat?
    pure fun c _ l => if c = i then (l, true) else (l, false)
  | _ => none

/-- split the fields of a `multi` line at the `/` separators -/
def splitSlash (l : List String) : List (List String) :=
  l.foldr (fun x acc => if x = "/" then [] :: acc else match acc with
    | [] => [[x]]
    | h :: t => (x :: h) :: t) [[]]

def runMulti (w : String) (gz own : Nat) (files : List (List String)) : String :=
  let rs := files.mapM fun f =>
    match f with
    | k :: cf :: zl :: rest =>
      match kv "k" k, kv "cf" cf, kv "zlen" zl, rest.mapM parseChunk with
      | some k, some cf, some zlen, some arr => one w gz k cf zlen own arr
      | _, _, _, _ => none
    | _ => none
  match rs with
  | none => "bad-op"
  | some rs =>
    match exitOf (rs.map fun r => r.1 == .fatal) (canon rs.length) with
    | some 0 => "exit0"
    | some _ => "exit1"
    | none => "no-exit"

def run (line : String) : String :=
  match words line with
  | "cmd" :: _ :: sc :: _ =>
    -- a command one of whose outputs cannot be written completely must fail
    let fails := [!(sc.startsWith "nofault")]
    match exitOf fails (canon 1) with
    | some 0 => "exit0"
    | some _ => "exit-nonzero"
    | none => "no-exit"
  | "dev" :: w :: beh :: cf :: own :: rest =>
    match parseBeh beh, kv "cf" cf, kv "own" own, rest.mapM parseChunk with
    | some beh, some cf, some own, some arr =>
      if isRaw w then showOut (writeRawDev 4096 beh (cf = 1) (own = 1) arr)
      else if w = "json" then showOut (writeJsonDev 4096 beh (cf = 1) (own = 1) arr)
      else "bad-op"
    | _, _, _, _ => "bad-op"
  | "disp" :: w :: gz :: own :: "/" :: rest =>
    -- the files of `WriterDispatcher`: same process model, one writer per file
    match kv "gz" gz, kv "own" own with
    | some gz, some own => runMulti w gz own (splitSlash rest)
    | _, _ => "bad-op"
  | "multi" :: w :: gz :: own :: "/" :: rest =>
    match kv "gz" gz, kv "own" own with
    | some gz, some own => runMulti w gz own (splitSlash rest)
    | _, _ => "bad-op"
  | w :: gz :: k :: cf :: zl :: own :: rest =>
    match kv "gz" gz, kv "k" k, kv "cf" cf, kv "zlen" zl, kv "own" own, rest.mapM parseChunk with
    | some gz, some k, some cf, some zlen, some own, some arr =>
      match one w gz k cf zlen own arr with
      | some r => showOut r
      | none => "bad-op"
    | _, _, _, _, _, _ => "bad-op"
  | _ => "bad-op"

end ObiVerif.Driver.C18
