import ObiVerif.Model.WriteErr
import ObiVerif.Model.WriteDev
import ObiVerif.Model.WriteProc
import ObiVerif.Model.WriteKind
import ObiVerif.Model.WritePgzip
import ObiVerif.Model.WriteReg
import ObiVerif.Model.WriteOpen
import ObiVerif.Model.WriteGlue
import ObiVerif.Model.WriteSide
import ObiVerif.Driver.Util
/-! line protocol for C18

* `<writer> gz=<0|1> k=<limit> cf=<0|1> zlen=<n> own=<0|1> <order>:<nseq>:<hex text> …` one writer over the
  sink failing after `k` bytes; result `ok|fatal got=<bytes the sink holds>`; compressed: the model runs
  `bufio` over the abstract pgzip writer with a codec of the measured stream length `zlen`
* `dev <writer> beh=<short:m|temp:i|partial:i:n|errfull:i> cf=<0|1> own=<0|1> chunks…` one writer over a scripted
  `io.Writer` (short writes with nil error, temporary errors)
* `multi <writer> gz=<0|1> own=<0|1> / k=<limit> cf=<0|1> zlen=<n> chunks… / k=… …` several writers in one
  process; result `exit0|exit1` from the process model
* `disp <writer> gz=<0|1> own=1 / k=… cf=… zlen=… 0:<nseq>:<text of the file> / …` the files written by the real
  `WriterDispatcher`; same model as `multi`
* an optional `ek=<kind>` field before the chunks of any of the above: the kind of error injected (not read by the model)
* `wf gz=<0|1> own=<0|1> cf=<0|1> ek=<kind> ks=<k,k,…> zlen=<n> <chunk>…` `obiutils.Wfile` driven directly, one run per
  fault offset `k`; result: numbers of fatal / ok runs, sum of the bytes held by the sink, first offset that is ok, and
  (uncompressed) the sum of the indexes of the first call returning the error
* `glue ws fo=<auto|fasta|fastq|json> gz= k= cf= zlen= own= ek= <order>:<nseq>:<q>:<fasta>:<fastq>:<json> …` the real
  `WriteSequence` (fo=auto) / `WriteFasta` / `WriteFastq` / `WriteJSON` over a failing sink, results with no batch
  included: `Model/WriteGlue.lean` `cliOne`; result `ok got=<n> cl=<Close calls>` | `fatal got=<n>`
* `glue cli fo= gz= k= zlen= zlen2= to=<file|stdout> paired= chunks… [/ chunks of the mates…]` the real
  `CLIWriteBioSequences`, every regular file limited to `k` bytes: `cliOne` per stream of `Cli.streams`, exit by the
  process model
* `cmd <command> empty-<scenario> <n> <N> <format>`: a command whose result is empty; `N` = size of the output of the
  same command on a regular file (used as the length of the gzip stream of the empty input); the glue model says
  whether anything has to be written
* `cmd obiclean <side-scenario> <n> <N> fasta`: the side files of obiclean (`--save-ratio`, `--save-graph`), `N` = size
  of the side file at fault on a run without fault: `Model/WriteSide.lean` `exitSide` (the side files are written by
  `main` before the writer of the sequences starts; the ratio table through a `bufio.Writer` in calls of about 50 bytes,
  a graph file in one `WriteString`); scenario `both<S>-<g>-<r>`: both options, `S` graph files one of which may be at
  fault (`full<X>` / `isdir<X>`), then the table (`ok` / `full` / `nodir`): status 0 iff every side file is fine
* `cmd <command> <scenario> …` a real command in a subprocess; `nofault…` scenarios must exit 0, all the others
  non-zero (process model with one failing writer); scenarios containing `dyn-`: the failing output is written by a
  goroutine that registers its pipe itself under a cover taken by `main` (`Model/WriteReg.lean`): the dynamic model is
  run under two schedules (launcher after `main` started waiting / after the static writer has finished)
-/
namespace ObiVerif.Driver.C18
open ObiVerif.WriteErr ObiVerif.WriteProc ObiVerif.Driver

def parseChunk (s : String) : Option (Nat × Bytes) :=
  match s.splitOn ":" with
  | [o, _, h] => do
    let k ← o.toNat?
    let b ← unhex h
    pure (k, b)
  | _ => none

def kv (key : String) (s : String) : Option Nat :=
  if s.startsWith (key ++ "=") then (s.drop (key.length + 1)).toString.toNat? else none

def showOut (r : Outcome × Bytes) : String :=
  match r.1 with
  | .ok => s!"ok got={r.2.length}"
  | .fatal => s!"fatal got={r.2.length}"

def isRaw (w : String) : Bool := w = "fasta" || w = "fastq" || w = "csv"

/-- one writer over the failing sink -/
def one (w : String) (gz k cf zlen own : Nat) (arr : List (Nat × Bytes)) : Option (Outcome × Bytes) :=
  if gz = 1 then
    -- error visibility schedule: every other check sees a pushed error (any schedule gives the same result)
    let rep : Nat → Bool := fun i => i % 2 = 1
    -- the transcribed pgzip writer (`Model/WritePgzip.lean`) under some schedule of its listener goroutine: equal to
    -- the abstract one (`Props/C18P.lean`, `pz_refines_gz_raw` / `pz_refines_gz_json`); both are run and compared
    let sch : Sched := ⟨fun i => (i + k) % 3, fun i => i % 2 = 0⟩
    let same (r r' : Outcome × Bytes) : Option (Outcome × Bytes) :=
      if r.1 == r'.1 && r.2.length == r'.2.length then some r else none
    if isRaw w then
      same (writeRawZ (lenCodec zlen) rep 4096 k (cf = 1) (own = 1) arr)
        (writeRawP (lenPCodec zlen) sch 4096 k (cf = 1) (own = 1) arr)
    else if w = "json" then
      same (writeJsonZ (lenCodec zlen) rep 4096 k (cf = 1) (own = 1) arr)
        (writeJsonP (lenPCodec zlen) sch 4096 k (cf = 1) (own = 1) arr)
    else none
  else if isRaw w then some (writeRawO 4096 k (cf = 1) (own = 1) arr)
  else if w = "json" then some (writeJsonO 4096 k (cf = 1) (own = 1) arr)
  else none

/-- an optional `ek=<kind>` field (the KIND of error injected: plain, EPIPE, ENOSPC, …) in front of the chunks.  The
model does not read it: `Props/C18K.lean` proves that outcome and sink do not depend on the error value. -/
def takeEk (l : List String) : Nat :=
  match l with
  | x :: _ => (kv "ek" x).getD 0
  | [] => 0

/-- the uncompressed writer in the model that carries the error VALUE (`Model/WriteKind.lean`): the sink returns the
error `ek` on every failing `Write` and at `Close`, the writer applies the code's test `err != nil`.  Equal to
`writeRawO` / `writeJsonO` for every `ek` (`Props/C18K.lean`, `rawE_eq_rawO_all`); both are run and compared. -/
def oneE (w : String) (k cf own ek : Nat) (arr : List (Nat × Bytes)) : Option (Outcome × Bytes) :=
  let cerr : Option Nat := if cf = 1 then some ek else none
  if isRaw w then
    let r := writeRawE (fun _ => true) 4096 k (fun _ => ek) cerr (own = 1) arr
    let r' := writeRawO 4096 k (cf = 1) (own = 1) arr
    if r.1 == r'.1 && r.2.length == r'.2.length then some r else none
  else if w = "json" then
    let r := writeJsonE (fun _ => true) 4096 k (fun _ => ek) cerr (own = 1) arr
    let r' := writeJsonO 4096 k (cf = 1) (own = 1) arr
    if r.1 == r'.1 && r.2.length == r'.2.length then some r else none
  else none

def dropEk (l : List String) : List String :=
  match l with
  | x :: t => if x.startsWith "ek=" then t else l
  | [] => []

/-- the bytes of a `wf` chunk: hex, or `g<seed>x<len>` (a linear congruential generator shared with the harness) -/
def genBytes (seed len : Nat) : Bytes :=
  let rec go : Nat → Nat → List UInt8 → List UInt8
    | 0, _, acc => acc.reverse
    | n+1, x, acc =>
      let x' := (x * 1103515245 + 12345) % 2147483648
      go n x' ((match (x' / 65536) % 4 with | 0 => 97 | 1 => 99 | 2 => 103 | _ => 116) :: acc)
  go len seed []

def parseWfChunk (s : String) : Option Bytes :=
  if s.startsWith "g" then
    match (s.drop 1).toString.splitOn "x" with
    | [a, b] => do
      let a ← a.toNat?
      let b ← b.toNat?
      pure (genBytes a b)
    | _ => none
  else unhex s

/-- index of the first call of `Wfile` returning an error (uncompressed; `chunks.length` = `Close`, `+1` = none) -/
def firstErrIdx (b : BW) (closeErr : Bool) : Nat → List Bytes → Nat
  | i, [] => if b.flush.err || closeErr then i else i + 1
  | i, c :: cs => if (b.write c).err then i else firstErrIdx (b.write c) closeErr (i + 1) cs

structure WfAcc where
  nfatal : Nat := 0
  nok : Nat := 0
  sumgot : Nat := 0
  firstok : Option Nat := none
  sumfirst : Nat := 0

/-- `wf`: `obiutils.Wfile` driven directly (`Write` of every chunk, `Close`), one run per fault offset -/
def runWf (gz own cf zlen : Nat) (ks : List Nat) (chunks : List Bytes) : String :=
  let arr := (List.range chunks.length).zip chunks
  let acc := ks.foldl (fun (a : WfAcc) k =>
    let r : Outcome × Bytes :=
      if gz = 1 then
        let r := writeRawZ (lenCodec zlen) (fun i => i % 3 = 0) 4096 k (cf = 1) (own = 1) arr
        let r' := writeRawP (lenPCodec zlen) ⟨fun i => (i * 7 + k) % 4, fun i => (i + k) % 2 = 0⟩ 4096 k (cf = 1) (own = 1) arr
        if r.1 == r'.1 && r.2.length == r'.2.length then r else (if r.1 == .ok then .fatal else .ok, r.2)
      else writeRawO 4096 k (cf = 1) (own = 1) arr
    let fe := if gz = 1 then 0 else firstErrIdx ⟨4096, [], false, ⟨k, [], cf = 1⟩⟩ (cf = 1 && own = 1) 0 chunks
    match r.1 with
    | .ok => { a with nok := a.nok + 1, sumgot := a.sumgot + r.2.length, sumfirst := a.sumfirst + fe,
                      firstok := match a.firstok with | none => some k | some x => some x }
    | .fatal => { a with nfatal := a.nfatal + 1, sumgot := a.sumgot + r.2.length, sumfirst := a.sumfirst + fe }) {}
  let fo := match acc.firstok with | none => "-1" | some k => toString k
  let base := s!"n={ks.length} fatal={acc.nfatal} ok={acc.nok} sumgot={acc.sumgot} firstok={fo}"
  if gz = 1 then base else base ++ s!" sumfirst={acc.sumfirst}"

def parseBeh (s : String) : Option (Nat → Nat → Nat → Nat × Bool) :=
  match s.splitOn ":" with
  | ["beh=short", m] => do
    let m ← m.toNat?
    pure fun _ _ l => (min l m, false)
  | ["beh=temp", i] => do
    let i ← i.toNat?
    pure fun c _ l => if c = i then (0, true) else (l, false)
  | ["beh=partial", i, n] => do
    let i ← i.toNat?
    let n ← n.toNat?
    pure fun c _ l => if c = i then (min l n, true) else (l, false)
  | ["beh=errfull", i] => do
    let i ← i.toNat?
    pure fun c _ l => if c = i then (l, true) else (l, false)
  | _ => none

/-- split the fields of a `multi` line at the `/` separators -/
def splitSlash (l : List String) : List (List String) :=
  l.foldr (fun x acc => if x = "/" then [] :: acc else match acc with
    | [] => [[x]]
    | h :: t => (x :: h) :: t) [[]]

def runMulti (w : String) (gz own : Nat) (files : List (List String)) : String :=
  let rs := files.mapM fun f =>
    match f with
    | k :: cf :: zl :: rest =>
      match kv "k" k, kv "cf" cf, kv "zlen" zl, (dropEk rest).mapM parseChunk with
      | some k, some cf, some zlen, some arr => one w gz k cf zlen own arr
      | _, _, _, _ => none
    | _ => none
  match rs with
  | none => "bad-op"
  | some rs =>
    match exitOf (rs.map fun r => r.1 == .fatal) (canon rs.length) with
    | some 0 => "exit0"
    | some _ => "exit1"
    | none => "no-exit"

open ObiVerif.WriteGlue in
def parseGB (s : String) : Option GB :=
  match s.splitOn ":" with
  | [o, n, q, fa, fq, js] => do
    let o ← o.toNat?
    let n ← n.toNat?
    let q ← q.toNat?
    let fa ← unhex fa
    let fq ← unhex fq
    let js ← unhex js
    -- what the glue sees: an empty slice, or `HasQualities` of the first record
    pure ⟨o, if n = 0 then none else some (q == 1), fa, fq, js⟩
  | _ => none

open ObiVerif.WriteGlue in
def parseFo : String → Option (Option Fmt)
  | "fo=auto" => some none
  | "fo=fasta" => some (some .fasta)
  | "fo=fastq" => some (some .fastq)
  | "fo=json" => some (some .json)
  | _ => none

open ObiVerif.WriteGlue in
def showRes (r : Res) : String :=
  match r.out with
  | .ok => s!"ok got={r.got.length} cl={r.closes}"
  | .fatal => s!"fatal got={r.got.length}"

open ObiVerif.WriteGlue in
def glueEnv (zlen : Nat) : Env := ⟨lenCodec zlen, fun i => i % 2 = 1, 4096⟩

/-- the format options of a `cmd` line: `fasta` = none given (guessed), `xfasta` = `--fasta-output` -/
def cmdFormat (fm : String) : Option WriteGlue.Fmt × Bool :=
  let ps := fm.splitOn "-"
  (if ps.contains "fastq" then some .fastq else if ps.contains "xfasta" then some .fasta
   else if ps.contains "json" then some .json else none, ps.contains "gz")

open ObiVerif.WriteGlue in
def runGlue : List String → String
  | "ws" :: fo :: gz :: k :: cf :: zl :: own :: _ek :: rest =>
    match parseFo fo, kv "gz" gz, kv "k" k, kv "cf" cf, kv "zlen" zl, kv "own" own, rest.mapM parseGB with
    | some fo, some gz, some k, some cf, some zlen, some own, some arr =>
      showRes (cliOne (glueEnv zlen) ⟨fo, true, gz = 1, false, false⟩ (own = 1) ⟨true, k, cf = 1⟩ arr)
    | _, _, _, _, _, _, _ => "bad-op"
  | "cli" :: fo :: gz :: k :: zl :: zl2 :: to :: pd :: rest =>
    let parts := splitSlash rest
    match parseFo fo, kv "gz" gz, kv "k" k, kv "zlen" zl, kv "zlen2" zl2, kv "paired" pd,
        (parts.headD []).mapM parseGB, ((parts.drop 1).headD []).mapM parseGB with
    | some fo, some gz, some k, some zlen, some zlen2, some pd, some fwd, some rev =>
      if to != "to=file" && to != "to=stdout" then "bad-op" else
      let c : Cli := ⟨fo, to == "to=file", gz = 1, pd = 1, false⟩
      -- one codec per file: the length of its compressed stream measured on the run without fault
      let rs := c.streams.map fun s =>
        cliOne (glueEnv (if s.1 then zlen2 else zlen)) c s.2 ⟨true, k, false⟩ (if s.1 then rev else fwd)
      let g1 := (rs.headD ⟨.ok, [], 0⟩).got.length
      match exitOf (rs.map fun r => r.out == .fatal) (canon rs.length) with
      | some 0 =>
        match rs with
        | [_, r2] => s!"ok got={g1} got2={r2.got.length}"
        | _ => s!"ok got={g1}"
      | some _ => s!"fatal got={g1}"
      | none => "no-exit"
    | _, _, _, _, _, _, _, _ => "bad-op"
  | _ => "bad-op"

/-- the side files of `obiclean`: which files the scenario asks for and what the file system does to them -/
def runSide (sc : String) (n : Nat) : String :=
  let table : List Bytes := List.replicate (n / 50) (List.replicate 50 0) ++ [List.replicate (n % 50) 0]
  let graph : List Bytes := [List.replicate n 0]
  let good : Slot := ⟨true, none, 1000000000, false⟩
  let full : Slot := ⟨true, none, 0, false⟩          -- /dev/full: opened, takes no byte
  let closed : Slot := ⟨false, none, 1000000000, false⟩   -- missing directory, a directory in the way
  let sides : Option (List WriteSide.Side) :=
    match sc with
    | "side-ratio-devfull" => some [⟨true, full, table⟩]
    | "side-ratio-nodir" => some [⟨true, closed, table⟩]
    | "side-ratio-isdir" => some [⟨true, closed, table⟩]
    | "side-graph-devfull" => some [⟨false, full, graph⟩, ⟨false, good, graph⟩]
    | "side-graph-isdir" => some [⟨false, good, graph⟩, ⟨false, closed, graph⟩]
    | "side-graph-mkdir" => some [⟨false, closed, graph⟩, ⟨false, closed, graph⟩]
    | "nofault-side-ratio" => some [⟨true, good, table⟩]
    | "nofault-side-graph" => some [⟨false, good, graph⟩, ⟨false, good, graph⟩]
    | "nofault-side-both" => some [⟨false, good, graph⟩, ⟨false, good, graph⟩, ⟨true, good, table⟩]
    | _ =>
      -- `both<S>-<g>-<r>`: S graph files (one of them at fault unless <g> = ok), then the ratio table
      match sc.splitOn "-" with
      | [b, g, r] =>
        let ns : Option Nat := if b == "both2" then some 2 else if b == "both3" then some 3 else none
        let rs : Option Slot :=
          if r == "ok" then some good else if r == "full" then some full else if r == "nodir" then some closed else none
        let gs : Option (Slot × Nat) :=          -- the slot of the faulted graph and the index of its sample
          let idx (x : String) : Nat := if x == "A" then 0 else if x == "B" then 1 else if x == "C" then 2 else 9
          if g == "ok" then some (good, 0)
          else if g.startsWith "full" then some (full, idx (g.drop 4).toString)
          else if g.startsWith "isdir" then some (closed, idx (g.drop 5).toString)
          else none
        match ns, rs, gs with
        | some ns, some rs, some (gslot, gi) =>
          if gi < ns then
            some ((List.range ns).map (fun i => (⟨false, if i == gi then gslot else good, graph⟩ : WriteSide.Side))
              ++ [⟨true, rs, table⟩])
          else none
        | _, _, _ => none
      | _ => none
  match sides with
  | none => "bad-op"
  | some sides =>
    match WriteSide.exitSide sides [false] (canon 1) with
    | some 0 => "exit0"
    | some _ => "exit-nonzero"
    | none => "no-exit"

def run (line : String) : String :=
  match words line with
  | "glue" :: rest => runGlue rest
  | "cmd" :: "obiclean" :: sc :: n :: nn :: "fasta" :: _ =>
    match n.toNat?, nn.toNat? with
    | some _, some nn => if nn = 0 then "bad-op" else runSide sc nn
    | _, _ => "bad-op"
  | "cmd" :: _ :: sc :: _ :: nn :: fm :: _ =>
    -- the verdict of the failing output: `Model/WriteOpen.lean` (it cannot be opened: missing / read-only directory, a
    -- directory or a file in the way; or it is opened, in append mode or not, and the device takes no byte)
    let empty := sc.startsWith "empty-"
    let sc := if empty then (sc.drop 6).toString else sc
    -- the verdict of the failing output: `Model/WriteOpen.lean` (it cannot be opened: missing / read-only directory, a
    -- directory or a file in the way; or it is opened, in append mode or not, and the device takes no byte)
    let openFails := ["nodir", "notdir", "sysdir", "rodir", "isdir", "distribute-nodir", "distribute-isdir", "dyn-nodir"].contains sc
    let nofault := sc.startsWith "nofault"
    let slot : Slot := ⟨!openFails, none, if nofault then 1000000000 else 0, false⟩
    -- a command whose result is empty: `CLIWriteBioSequences` over a result with no batch (`Model/WriteGlue.lean`)
    let (fo, gz) := cmdFormat fm
    let emptyRun : Nat → Bool → Outcome × Bytes := fun room cf =>
      let r := WriteGlue.cliOne (glueEnv (nn.toNat?.getD 0)) ⟨fo, sc != "stdoutfull", gz, false, false⟩
        (!(sc == "stdoutfull" && fo == some .json)) ⟨true, room, cf⟩ []
      (r.out, r.got)
    let bad := (withOpen (sc.endsWith "append") slot
      (if empty then emptyRun else fun room _ => if room = 0 then (.fatal, []) else (.ok, []))).1 == .fatal
    if (sc.splitOn "dyn-").length > 1 then
      -- first output static and complete, second output covered, registered by its launcher goroutine
      let ks : List (Kind × Bool) := [(.static, false), (.covered, bad)]
      match exitD ks (canonD 2), exitD ks (lateD 2) with
      | some 0, some 0 => "exit0"
      | some 1, some 1 => "exit-nonzero"
      | _, _ => "no-exit"
    else
    -- a command one of whose outputs cannot be written completely must fail
    match exitOf [bad] (canon 1) with
    | some 0 => "exit0"
    | some _ => "exit-nonzero"
    | none => "no-exit"
  | "wf" :: gz :: own :: cf :: ek :: ks :: zl :: rest =>
    match kv "gz" gz, kv "own" own, kv "cf" cf, kv "ek" ek, kv "zlen" zl, rest.mapM parseWfChunk with
    | some gz, some own, some cf, some _, some zlen, some chunks =>
      if ks.startsWith "ks=" then
        match ((ks.drop 3).toString.splitOn ",").mapM String.toNat? with
        | some ks => runWf gz own cf zlen ks chunks
        | none => "bad-op"
      else "bad-op"
    | _, _, _, _, _, _ => "bad-op"
  | "dev" :: w :: beh :: cf :: own :: rest =>
    match parseBeh beh, kv "cf" cf, kv "own" own, (dropEk rest).mapM parseChunk with
    | some beh, some cf, some own, some arr =>
      if isRaw w then showOut (writeRawDev 4096 beh (cf = 1) (own = 1) arr)
      else if w = "json" then showOut (writeJsonDev 4096 beh (cf = 1) (own = 1) arr)
      else "bad-op"
    | _, _, _, _ => "bad-op"
  | "disp" :: w :: gz :: own :: "/" :: rest =>
    -- the files of `WriterDispatcher`: same process model, one writer per file
    match kv "gz" gz, kv "own" own with
    | some gz, some own => runMulti w gz own (splitSlash rest)
    | _, _ => "bad-op"
  | "multi" :: w :: gz :: own :: "/" :: rest =>
    match kv "gz" gz, kv "own" own with
    | some gz, some own => runMulti w gz own (splitSlash rest)
    | _, _ => "bad-op"
  | w :: gz :: k :: cf :: zl :: own :: rest =>
    match kv "gz" gz, kv "k" k, kv "cf" cf, kv "zlen" zl, kv "own" own, (dropEk rest).mapM parseChunk with
    | some gz, some k, some cf, some zlen, some own, some arr =>
      match (if gz = 1 then one w gz k cf zlen own arr else oneE w k cf own (takeEk rest) arr) with
      | some r => showOut r
      | none => "bad-op"
    | _, _, _, _, _, _ => "bad-op"
  | _ => "bad-op"

end ObiVerif.Driver.C18
