import ObiVerif.Model.Uniq
import ObiVerif.Model.UniqLoop
import ObiVerif.Model.UniqChunk
import ObiVerif.Model.UniqSteps
import ObiVerif.Model.UniqGlue
import ObiVerif.Driver.Util
/-!
line protocol for C06

`uniq <mem|disk> c=<chunks> w=<workers> b=<batch size> ns=<0|1> na=<hex> cats=<hex,…|-> stats=<hex,…|-> dm=<hex|*> <rec> …`

`<rec>` = `<id hex>:<seq hex>:<count|->:<attrs>:<merged>`,
`<attrs>` = `-` or `khex=s<hex>` / `khex=i<decimal>` joined by `,`,
`<merged>` = `-` or `khex~vhex=w~vhex=w…` joined by `,` (a key without entries is an empty map).

result: `U <n> <out rec>…` and, when `dm` names a key, ` D <n> <rec>… R <n> <rec>…` (the records obidemerge
makes of the output, and what obiuniq makes of those).  `<out rec>` = `<seq hex>:<count>:<attrs>:<merged>` with
the attributes sorted, only the requested `merged_` maps, entries sorted; records sorted.
The model ignores mode, workers and batch size (the theorems say the result does not depend on them).

`dispatch c=<chunks> b=<batch size> <rec> …` → `disp <code>:<n> …`: the chunk files of the on-disk mode (hash code,
number of records), by increasing code.

`dist c=<chunks> b=<input batch size> s=<batch size of Distribute> <rec> …` → `T <n> <code>:<ids>|<ids>… …`: the batches
every output of `Distribute(HashClassifier(chunks), s)` delivers, by increasing code (loop-level model `distribute`).

`chunk <mem|disk> c=<chunks> b=<input batch size> s=<CLIBatchSize> <rec> …` → `K <n> <code>:<ids> …`: the chunks
`ISequenceChunk` (by increasing code: the code pushes them in map order) / `ISequenceChunkOnDisk` (in the order they
are pushed = lexical order of the file names; the ids of a chunk sorted: `Load` leaves them in arrival order of the
reader's batches) deliver.  `chunk diskfail …` → `err` (no temporary directory).

`pipe c=<chunks> w=<workers> sched=<n,n,…|-> ns= na= cats= stats= <rec> …` → `U …`: the small-step model of the
goroutines of `IUniqueSequence` (`Model/UniqSteps.lean`) run under the schedule `sched` (which worker / pusher moves
next; exhausted schedule: round robin), result of the merge stage.

`idem s=<k> <mem|disk> c= w= b= ns=0 na= cats= stats= dm=* <rec> …` → `U …` of `uniq (uniq xs ++ ys)` where `xs` = the first
`k` records (an already dereplicated data set merged again with new records), ` NOT-IDEMPOTENT` appended when it differs
from `uniq (xs ++ ys)`.

`glue <mem|disk> cc=<chunk count|*> w=<workers> b=<batch size> ns=<0|1> na=<hex|*> m=<hex,…|-> c=<hex,…|-> p=<1|2> s=<k> <rec> …`
→ `U …`: the command line of obiuniq (`-m` descriptors in command-line order, duplicates and the weighted form
`KEY:WEIGHTATTR` allowed; `-c` categories; `*` = option not given) through `Model/UniqGlue.lean` `cliUnique`
(option variables → `CLIUnique` setters → `MakeOptions` → `OptionStatOn` → kernel with descriptors); `p=2`: two passes,
`cliUnique (cliUnique (first k records) ++ cliUnique (the others))`, ` REDEREP-DIFFERS` appended when (ns=0) it differs
from the one-pass result.  The requested maps shown are those of the descriptor NAMES.

`gattr <value>` → `count=<n> w=<n>,<0|1> after=<value>`: `Count()` of a record whose `count` attribute is the typed value,
`GetIntAttribute` of it and the attribute afterwards; `<value>` = `-` (absent) | `i<n>` | `f<n>` (float64 = n) | `h<n>` (float64 = n + 0.5)
| `s<hex>` | `bT` | `bF` | `m` (a map).  `gattr M<kind>`: a record whose `merged_x` attribute has an unexpected Go type, through
`BioSequenceSlice.Merge` (`mss` map[string]string, `mfs` map[string]float64, `str` a string: the attribute is overwritten
by fresh statistics; `mis` map[string]interface{} holding a string: `log.Panicf`).

`big …`: large generated inputs, see `bigRun`.
-/
namespace ObiVerif.Driver.C06
open ObiVerif.Uniq ObiVerif.Driver

/-- bytes ↔ `String`, one `Char` per byte (equality and order of Go strings are bytewise) -/
def bstr (b : List UInt8) : String := String.ofList (b.map fun x => Char.ofNat x.toNat)
def strb (s : String) : List UInt8 := s.toList.map fun c => UInt8.ofNat c.toNat

def unhexS (s : String) : Option String := (unhex s).map bstr
def hexS (s : String) : String := hex (strb s)

def listOf (s : String) : Option (List String) :=
  if s = "-" then some [] else (s.splitOn ",").mapM unhexS

def parseAttr (s : String) : Option (String × String) :=
  match s.splitOn "=" with
  | [k, v] => do
    let k ← unhexS k
    match v.toList with
    | 's' :: t => do let x ← unhexS (String.ofList t); pure (k, x)
    | 'i' :: t => do let n ← (String.ofList t).toInt?; pure (k, toString n)
    | _ => none
  | _ => none

def parseEntry (s : String) : Option (String × Nat) :=
  match s.splitOn "=" with
  | [v, w] => do pure (← unhexS v, ← w.toNat?)
  | _ => none

def parseMerged (s : String) : Option (String × Stats) :=
  match s.splitOn "~" with
  | k :: es => do pure (← unhexS k, ← es.mapM parseEntry)
  | [] => none

def parseRec (s : String) : Option Rec :=
  match s.splitOn ":" with
  | [i, sq, c, a, m] => do
    let i ← unhexS i
    let sq ← unhex sq
    let c ← if c = "-" then some none else c.toNat?.map some
    let a ← if a = "-" then some [] else (a.splitOn ",").mapM parseAttr
    let m ← if m = "-" then some [] else (m.splitOn ",").mapM parseMerged
    pure { id := i, seq := sq, cnt := c, attrs := a, merged := m }
  | _ => none

def sortS (l : List String) : List String := l.mergeSort (fun a b => decide (a ≤ b))

def showList (l : List String) : String := if l.isEmpty then "-" else ",".intercalate l

def showRec (stats : List String) (r : Rec) : String :=
  let attrs := sortS (r.attrs.map fun kv => s!"{hexS kv.1}={hexS kv.2}")
  let merged := sortS (stats.filterMap fun k =>
    (r.merged.lookup k).map fun m =>
      "~".intercalate (hexS k :: sortS (m.map fun e => s!"{hexS e.1}={e.2}")))
  s!"{hex r.seq}:{r.count}:{showList attrs}:{showList merged}"

def showRecs (tag : String) (stats : List String) (l : List Rec) : String :=
  joinSp (tag :: toString l.length :: sortS (l.map (showRec stats)))

def field (pre : String) (s : String) : Option String :=
  if s.startsWith pre then some (s.drop pre.length).toString else none

/-- the loop-level model (`Model/UniqLoop.lean`) on the chunks of the input, dealt to `workers` chains -/
def loopRun (srt : Sorter) (o : Opts) (chunks workers : Nat) (rev : Bool) (input : List Rec) : List Rec :=
  let cs := group (hashC (hashCode chunks)) input
  let cs := if rev then cs.reverse else cs
  uniqL srt o (dealTo (max workers 1) cs)

def splitSlash (ws : List String) : List (List String) :=
  (ws.foldr (fun w (acc : List String × List (List String)) =>
    if w = "/" then ([], acc.1 :: acc.2) else (w :: acc.1, acc.2)) ([], [])) |> fun p => p.1 :: p.2

def showCode : Code → String
  | .h n => toString n
  | .s q => hex q
  | .v x => hexS x

/-- the input iterator of the harness: consecutive batches of `bs` records -/
def batchesOf (bs : Nat) (l : List Rec) : List (List Rec) :=
  if bs = 0 then [l] else
  (List.range ((l.length + bs - 1) / bs)).map fun i => (l.drop (i * bs)).take bs

def showIds (l : List Rec) : String := showList (l.map fun r => hexS r.id)

/-- `big kind=<few|distinct|skew> n=<N> k=<K>`: the harness generates N records from the spec (record i: sequence
number `bigClass kind K i`, count `1 + i % 3`), runs the real obiuniq on them and recounts with Go maps; the result
line is `big classes=<c> total=<t> max=<m>` (number of output records, total count, largest count).  At this size
the list model is not executed: the driver recomputes the three numbers from the spec with array counters (the
same class function), so these cases tie the *scale* behaviour of the code to the count-conservation statement,
not the whole model. -/
def bigClass (kind : String) (k i : Nat) : Nat :=
  if kind = "few" then i % k
  else if kind = "distinct" then i
  else -- skew: half of the records in class 0, a quarter in class 1, …, the tail spread over k classes
    let j := (i * 2654435761) % 4294967296
    if j % 2 = 0 then 0 else if j % 4 = 1 then 1 else if j % 8 = 3 then 2 else 3 + (j / 8) % k

def bigRun (ws : List String) : String :=
  let r : Option String := do
    match ws with
    | [_mode, _c, _w, _b, kind, n, k] =>
      let kind ← field "kind=" kind
      let n ← (← field "n=" n).toNat?
      let k ← (← field "k=" k).toNat?
      if k = 0 ∨ ¬ (kind = "few" ∨ kind = "distinct" ∨ kind = "skew") then none
      let size := if kind = "distinct" then n else k + 3
      let arr := (List.range n).foldl (fun (a : Array Nat) i =>
        let c := bigClass kind k i
        a.modify c (· + (1 + i % 3))) (Array.replicate size 0)
      let classes := arr.foldl (fun acc x => if x > 0 then acc + 1 else acc) 0
      let total := arr.foldl (· + ·) 0
      let mx := arr.foldl max 0
      pure s!"big classes={classes} total={total} max={mx}"
    | _ => none
  r.getD "bad-op"

/-- `*` = option not given -/
def optField (pre : String) (s : String) : Option (Option String) := do
  let v ← field pre s
  if v = "*" then pure none else pure (some v)

def showVal : Option Val → String
  | none => "-"
  | some (.int n) => s!"i{n}"
  | some (.flt _ _) => "f"
  | some (.str _) => "s"
  | some (.bool _) => "b"
  | some .other => "m"

def parseVal (s : String) : Option (Option Val) :=
  if s = "-" then some none
  else if s = "bT" then some (some (.bool true))
  else if s = "bF" then some (some (.bool false))
  else if s = "m" then some (some .other)
  else match s.toList with
    | 'i' :: t => (String.ofList t).toInt?.map fun n => some (.int n)
    | 'f' :: t => (String.ofList t).toInt?.map fun n => some (.flt n true)
    | 'h' :: t => (String.ofList t).toInt?.map fun n => some (.flt (if n ≥ 0 then n else n + 1) false)
    | 's' :: t => (unhexS (String.ofList t)).map fun x => some (.str x)
    | _ => none

def glueRun (ws : List String) : Option String := do
  match ws with
  | mode :: cc :: w :: b :: ns :: na :: m :: c :: p :: sp :: recs =>
    if mode ≠ "mem" ∧ mode ≠ "disk" then none
    let cc ← optField "cc=" cc
    let cc ← match cc with
      | none => some (100 : Int)
      | some x => x.toInt?
    let wk ← (← field "w=" w).toNat?
    let bs ← (← field "b=" b).toNat?
    let ns ← (← field "ns=" ns).toNat?
    let na ← optField "na=" na
    let na ← match na with
      | none => some "NA"
      | some x => unhexS x
    let merge ← listOf (← field "m=" m)
    let cats ← listOf (← field "c=" c)
    let p ← (← field "p=" p).toNat?
    let sp ← (← field "s=" sp).toNat?
    let input ← recs.mapM parseRec
    if p ≠ 1 ∧ p ≠ 2 then none
    let cli : Cli := { merge := merge, cats := cats, na := na, noSingleton := ns ≠ 0, inMemory := mode = "mem",
                       chunkCount := cc, workers := wk, batchSize := bs }
    let names := (cliOptions cli).statsOn.map (·.1)
    let one := showRecs "U" names (cliUnique cli input)
    if p = 1 then pure one
    else
      let two := showRecs "U" names
        (cliUnique cli (cliUnique cli (input.take sp) ++ cliUnique cli (input.drop sp)))
      pure (if ns ≠ 0 ∨ one = two then two else two ++ " REDEREP-DIFFERS")
  | _ => none

def gattrRun (ws : List String) : Option String := do
  match ws with
  | [v] =>
    if v = "Mmss" ∨ v = "Mmfs" ∨ v = "Mstr" then
      -- `StatsOn`, `default:` branch: the attribute is replaced by fresh statistics of the record itself
      let r : Rec := { id := "a", seq := [97], cnt := none, attrs := [("x", "v")], merged := [] }
      pure (showRecs "U" ["x"] ((mergeClassD "NA" (optionStatOn [] ["x"]) [r]).toList))
    else if v = "Mmis" then pure "panic"
    else
      let x ← parseVal v
      let g := getIntAttribute x
      pure s!"count={countOfVal x} w={g.1},{if g.2.1 then 1 else 0} after={showVal g.2.2}"
  | _ => none

def run (line : String) : String :=
  match words line with
  | "uniq" :: mode :: c :: w :: b :: ns :: na :: cats :: stats :: dm :: recs =>
    let r : Option String := do
      if mode ≠ "mem" ∧ mode ≠ "disk" then none
      let chunks ← (← field "c=" c).toNat?
      let _ ← (← field "w=" w).toNat?
      let _ ← (← field "b=" b).toNat?
      let ns ← (← field "ns=" ns).toNat?
      let na ← unhexS (← field "na=" na)
      let cats ← listOf (← field "cats=" cats)
      let stats ← listOf (← field "stats=" stats)
      let dm ← field "dm=" dm
      let input ← recs.mapM parseRec
      if chunks = 0 then none
      if ¬ stats.Nodup then none
      let o : Opts := { cats := cats, stats := stats, na := na, noSingleton := ns ≠ 0 }
      let u := uniqCRC chunks o input
      let s1 := showRecs "U" stats u
      -- the loop-level transcription, executed side by side (two sorts, two assignments of the chunks);
      -- `uniqL_refines` proves that it cannot differ
      let wk ← if mode = "disk" then some 1 else (← field "w=" w).toNat?
      let l1 := showRecs "U" stats (loopRun sortMerge o chunks wk false input)
      let l2 := if input.length > 300 then s1 else
        showRecs "U" stats (loopRun sortMergeAnti o chunks 1 true input)
      let s1 := if l1 = s1 ∧ l2 = s1 then s1 else s1 ++ " LAYERS-DIFFER"
      if dm = "*" then pure s1
      else
        let k ← unhexS dm
        let d := demerge k u
        let r := uniqCRC chunks o d
        pure (joinSp [s1, showRecs "D" stats d, showRecs "R" stats r])
    r.getD "bad-op"
  | "stage" :: k :: na :: rest =>
    -- one `ISequenceSubChunk` stage (one worker, one classifier) on a sequence of batches, loop level
    let r : Option String := do
      let kd ← field "k=" k
      let na ← unhexS (← field "na=" na)
      let lv : Level ← if kd = "s" then some (Kind.seq, seqC)
        else if kd.startsWith "a:" then (unhexS (kd.drop 2).toString).map fun key => (Kind.annot, catC na key)
        else none
      let batches ← (splitSlash rest).mapM (·.mapM parseRec)
      let acc := batches.foldl (fun (acc : ClsSt × List (List Rec) × List Rec) b =>
          let p := subChunkL lv.1 lv.2 sortMerge acc.1 b
          (p.1, acc.2.1 ++ p.2, if b.length > 1 then b else acc.2.2)) (ClsSt.init, [], [])
      let st := acc.1
      let codes := acc.2.2.map fun r => (st.code (lv.2 r)).2
      let vals := codes.eraseDups.map fun c => match st.value c with
        | .ok v => showCode v
        | .error e => e
      let bs := acc.2.1.map fun b => showList (sortS (b.map fun r => hexS r.id))
      pure (joinSp (["B", toString bs.length] ++ bs ++ ["C", showList (codes.map toString), "V", showList vals]))
    r.getD "bad-op"
  | "dispatch" :: c :: b :: recs =>
    -- the chunk files `ISequenceChunkOnDisk` finds: one per hash code, with the records of that code
    let r : Option String := do
      let chunks ← (← field "c=" c).toNat?
      let _ ← (← field "b=" b).toNat?
      let input ← recs.mapM parseRec
      if chunks = 0 then none
      let gs := group (hashC (hashCode chunks)) input
      let cs := gs.filterMap fun g => g.head?.map fun x => (hashCode chunks x.seq, g.length)
      let cs := cs.mergeSort (fun a b => decide (a.1 ≤ b.1))
      pure (joinSp ("disp" :: cs.map fun e => s!"{e.1}:{e.2}"))
    r.getD "bad-op"
  | "dist" :: c :: b :: sz :: recs =>
    let r : Option String := do
      let chunks ← (← field "c=" c).toNat?
      let bs ← (← field "b=" b).toNat?
      let size ← (← field "s=" sz).toNat?
      let input ← recs.mapM parseRec
      if chunks = 0 ∨ bs = 0 then none
      let d := distribute (hashRec chunks) size (batchesOf bs input)
      let d := d.mergeSort (fun a b => decide (a.1 ≤ b.1))
      pure (joinSp ("T" :: toString d.length :: d.map fun e =>
        s!"{e.1}:{"|".intercalate (e.2.map showIds)}"))
    r.getD "bad-op"
  | "chunk" :: mode :: c :: b :: sz :: recs =>
    let r : Option String := do
      let chunks ← (← field "c=" c).toNat?
      let bs ← (← field "b=" b).toNat?
      let size ← (← field "s=" sz).toNat?
      let input ← recs.mapM parseRec
      if chunks = 0 ∨ bs = 0 then none
      let batches := batchesOf bs input
      let showK (cs : List (Nat × List Rec)) : String :=
        joinSp ("K" :: toString cs.length :: cs.map fun e => s!"{e.1}:{showIds e.2}")
      if mode = "mem" then
        pure (showK ((chunkMem (hashRec chunks) size batches).mergeSort (fun a b => decide (a.1 ≤ b.1))))
      else if mode = "disk" ∨ mode = "diskfail" then
        match chunkDisk idLayer id (mode = "disk") (hashRec chunks) size batches with
        | .ok cs => pure (joinSp ("K" :: toString cs.length :: cs.map fun e =>
            s!"{e.1}:{showList (sortS (e.2.map fun r => hexS r.id))}"))
        | .error e => pure e
      else none
    r.getD "bad-op"
  | "pipe" :: c :: w :: sched :: ns :: na :: cats :: stats :: recs =>
    let r : Option String := do
      let chunks ← (← field "c=" c).toNat?
      let workers ← (← field "w=" w).toNat?
      let sch ← field "sched=" sched
      let sch ← if sch = "-" then some [] else (sch.splitOn ",").mapM (·.toNat?)
      let ns ← (← field "ns=" ns).toNat?
      let na ← unhexS (← field "na=" na)
      let cats ← listOf (← field "cats=" cats)
      let stats ← listOf (← field "stats=" stats)
      let input ← recs.mapM parseRec
      if chunks = 0 ∨ workers = 0 then none
      if ¬ stats.Nodup then none
      let o : Opts := { cats := cats, stats := stats, na := na, noSingleton := ns ≠ 0 }
      let cs := (chunkMem (hashRec chunks) 0 [input]).map (·.2)
      let fin := Pipe.runSched sortMerge o sch (sch.length + 4 * (input.length + workers) + 8) (Pipe.init cs workers)
      let s1 := showRecs "U" stats (uniqCRC chunks o input)
      let s2 := showRecs "U" stats (Pipe.result o fin)
      pure (if Pipe.final fin ∧ s1 = s2 then s2 else s2 ++ " PIPE-DIFFERS")
    r.getD "bad-op"
  | "idem" :: sp :: mode :: c :: w :: b :: ns :: na :: cats :: stats :: _dm :: recs =>
    -- already dereplicated input merged again: uniq (uniq xs ++ ys), xs = the first `sp` records; `NOT-IDEMPOTENT`
    -- when it differs (observably) from uniq (xs ++ ys)
    let r : Option String := do
      let sp ← (← field "s=" sp).toNat?
      if mode ≠ "mem" ∧ mode ≠ "disk" then none
      let chunks ← (← field "c=" c).toNat?
      let _ ← (← field "w=" w).toNat?
      let _ ← (← field "b=" b).toNat?
      let ns ← (← field "ns=" ns).toNat?
      let na ← unhexS (← field "na=" na)
      let cats ← listOf (← field "cats=" cats)
      let stats ← listOf (← field "stats=" stats)
      let input ← recs.mapM parseRec
      if chunks = 0 ∨ ns ≠ 0 then none
      if ¬ stats.Nodup then none
      let o : Opts := { cats := cats, stats := stats, na := na, noSingleton := false }
      let r2 := showRecs "U" stats (uniqCRC chunks o (uniqCRC chunks o (input.take sp) ++ input.drop sp))
      let r1 := showRecs "U" stats (uniqCRC chunks o input)
      pure (if r1 = r2 then r2 else r2 ++ " NOT-IDEMPOTENT")
    r.getD "bad-op"
  | "big" :: rest => bigRun rest
  | "glue" :: rest => (glueRun rest).getD "bad-op"
  | "gattr" :: rest => (gattrRun rest).getD "bad-op"
  | _ => "bad-op"

end ObiVerif.Driver.C06
