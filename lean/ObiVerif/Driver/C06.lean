/-! line protocol for C06 (stub: no model yet) -/
namespace ObiVerif.Driver.C06

def run (_line : String) : String := "bad-op"

end ObiVerif.Driver.C06
