import ObiVerif.Model.Tax
import ObiVerif.Model.TaxLoad
import ObiVerif.Model.TaxSeq
import ObiVerif.Model.TaxRender
import ObiVerif.Model.TaxIter
import ObiVerif.Driver.Util
/-!
line protocol for C14

`tax n<id>:<parent>:<rankhex>… a<old>:<new>… q<op>:<args>…`

the nodes (`AddNewTaxa` in that order, then `ReindexParent`), the aliases (`AddNewAlias(new, old)` in
that order), then the queries; the result is one word per query (or `reindex-err`).

queries: `path:x` `lca:x:y` `sub:x:y` `rank:x:r` `has:x:r` `res:x` `val:s` `rt:c,c:s` `ig:c,c:s`
`rr:r,r:s` `flt:r,r:c,c:i,i:s` `rs:c:s` `sr:r:s` `wl:k=w,k=w` `wls:s` (s = taxid attribute of the sequence or `-`; r = rank in hex)
`str:<hex>` (Taxon(string)) `rss:<hex>:s` (IsSubCladeOfSlot on a string attribute) `isub:c` `irank:r` `ibel:c,c`
(iterators drained, sorted) `tpath:s` (taxonomic_path, hex) `name:x` (scientific name, hex) `state` (nodes and aliases)

second pass (sequence level entry points of sequence_predicate.go / sequence_methods.go / sequence_workers.go, `Model/TaxSeq.lean`):
`vf:s` (IsAValidTaxon(true): answer `:` taxid attribute afterwards) `sp:c:s` (Taxonomy.IsSubCladeOf(c) closure) `hq:r:s`
(Taxonomy.HasRequiredRank(r) closure) `sw:k:s` (k = `sp` `ge` `fa`: MakeSetSpecies/Genus/FamilyWorker, `r<hex>`:
MakeSetTaxonAtRankWorker; answer `none`, `-1/<hex NA>` or `taxid/<hex name>`) `sn:s` (SetScientificName) `tr:s` (SetTaxonomicRank)

third pass (iterator protocol, `Model/TaxIter.lean`): `itx` (Taxonomy.Iterator() drained: count `/` sum of the taxids mod 1000003)
`isl:<ids>:<f>` (a TaxonSlice of the taxa `ids` — duplicates and merged ids allowed — filtered by `f` = `all` | `sub:c` |
`rank:r` | `bel:c,c` | `find:r:c,c` (obifind pipeline: rank filter then IFilterBelongingSubclades); answer: the TaxonSlice()
in order `/` the keys of TaxonSet() sorted) `isp:<ids>:<sched>` (slice.Iterator() and its Split(), `sched` a word over
a b: who calls Next; answer `a=…;b=…;r=…;f=…;ca=…;cb=…`: what each received, what is left, the finished flag, the
`current` of each) `ispp:<ids>` (the two handles drained in parallel: the sorted union) `ifind:r:c,c` (obifind ITaxonRestrictions on Taxonomy.Iterator(), drained, sorted)

`conc <g> <r> tax|taxd n… a… q…` (wave 3, `harness/c14_conc.go`): the queries of the `tax` / `taxd` case run alone (the result),
then from `g` goroutines sharing the taxonomy and the predicates / workers built once, `r` rounds; `race conc …`: the same
through a `go build -race` build of the harness

`dump N<hex nodes.dmp> M<hex names.dmp> G<hex merged.dmp> [n… a…] q…` : the three files are loaded by the model of
`ncbitaxdump.LoadNCBITaxDump` (`Model/TaxLoad.lean`); the `n`/`a` words (the tree the generator declared, used by the
oracle of the harness) are ignored here.
-/
namespace ObiVerif.Driver.C14
open ObiVerif.Tax ObiVerif.Driver

def rankOf (h : String) : Option String :=
  (unhex h).bind fun b => String.fromUTF8? (ByteArray.mk b.toArray)

def parseNode (w : String) : Option (Nat × Node) :=
  match (w.drop 1).toString.splitOn ":" with
  | [i, p, r] => do
    let i ← i.toNat?
    let p ← p.toNat?
    let r ← rankOf r
    pure (i, ⟨p, r⟩)
  | _ => none

def parseAlias (w : String) : Option (Nat × Nat) :=
  match (w.drop 1).toString.splitOn ":" with
  | [o, n] => do
    let o ← o.toNat?
    let n ← n.toNat?
    pure (o, n)
  | _ => none

def natList (s : String) : Option (List Nat) :=
  if s = "" then some [] else (s.splitOn ",").mapM String.toNat?

def rankListOf (s : String) : Option (List String) :=
  if s = "" then some [] else (s.splitOn ",").mapM rankOf

def kwList (s : String) : Option (List (Nat × Nat)) :=
  if s = "" then some [] else (s.splitOn ",").mapM fun kv =>
    match kv.splitOn "=" with
    | [k, w] => do
      let k ← k.toNat?
      let w ← w.toNat?
      pure (k, w)
    | _ => none

def seqAttr (s : String) : Option (Option Nat) :=
  if s = "-" then some none else s.toNat?.map some

def showBad : Bad → String
  | .err => "err" | .panic => "panic" | .hang => "hang" | .fatal => "fatal"

def showRes {α : Type} (f : α → String) : Res α → String
  | .ok a => f a
  | .error e => showBad e

def showBool (b : Bool) : String := if b then "T" else "F"
def showOpt : Option Nat → String
  | some x => toString x
  | none => "nil"

/-- what the extra queries need next to the `Taxo`: names and ranks as bytes, the sorted distinct taxids,
the keys of the alias map -/
structure Ctx where
  t : Taxo
  fuel : Nat
  name : Nat → TaxLoad.Bytes
  rankB : Nat → TaxLoad.Bytes
  sorted : List Nat
  aliasKeys : List Nat

def sortDedup (l : List Nat) : List Nat :=
  let s := l.mergeSort (fun a b => a ≤ b)
  (s.foldl (fun (acc : List Nat) x => match acc with
    | y :: _ => if x = y then acc else x :: acc
    | [] => [x]) []).reverse

def showIds (l : List Nat) : String := if l.isEmpty then "-" else ",".intercalate (l.map toString)

def resolveList (t : Taxo) (cs : List Nat) : Option (List Nat) := cs.mapM (resolve t)

def queryX (c : Ctx) (q : String) : Option String :=
  match (q.drop 1).toString.splitOn ":" with
  | ["str", h] => do
    let b ← unhex h
    pure (match TaxLoad.parseTaxidString b with
      | .noparse => "noparse"
      | .neg => "unk"
      | .id n => match resolve c.t n with | some z => toString z | none => "unk")
  | ["rss", h, s] => do
    let b ← unhex h
    let s ← seqAttr s
    pure (showRes showBool (TaxLoad.inCladeSlotStr c.t c.fuel b (seqTaxid s)))
  | ["isub", x] => do
    let x ← x.toNat?
    match resolve c.t x with
    | some x => pure (showRes showIds (TaxLoad.filterSubclade c.t c.fuel x c.sorted))
    | none => pure "unk"
  | ["irank", r] => do
    let r ← rankOf r
    pure (showIds (TaxLoad.filterRank c.t r c.sorted))
  | ["ibel", cs] => do
    let cs ← natList cs
    match resolveList c.t cs with
    | some rs => pure (showRes showIds (TaxLoad.filterBelonging c.t c.fuel (sortDedup rs) c.sorted))
    | none => pure "unk"
  | ["tpath", s] => do
    let s ← seqAttr s
    pure (showRes hex (TaxLoad.setPath c.t c.fuel c.name c.rankB (seqTaxid s)))
  | ["name", x] => do
    let x ← x.toNat?
    match resolve c.t x with
    | some x => pure (hex (c.name x))
    | none => pure "unk"
  | ["vf", s0] => do
    let s ← seqAttr s0
    let r := TaxSeq.isValidTaxonFix c.t true (seqTaxid s)
    pure (showBool r.1 ++ ":" ++ (match r.2 with | some v => toString v | none => s0))
  | ["sp", x, s] => do
    let x ← x.toNat?
    let s ← seqAttr s
    pure (showRes showBool (TaxSeq.isSubCladeOfPred c.t c.fuel x (seqTaxid s)))
  | ["hq", r, s] => do
    let r ← rankOf r
    let s ← seqAttr s
    pure (showRes showBool (TaxSeq.hasRequiredRankPred c.t c.fuel r (seqTaxid s)))
  | ["sw", k, s] => do
    let s ← seqAttr s
    let res ← (if k = "sp" then some (TaxSeq.setSpecies c.t c.fuel c.name (seqTaxid s))
      else if k = "ge" then some (TaxSeq.setGenus c.t c.fuel c.name (seqTaxid s))
      else if k = "fa" then some (TaxSeq.setFamily c.t c.fuel c.name (seqTaxid s))
      else if k.startsWith "r" then (rankOf (k.drop 1).toString).map fun r => TaxSeq.setTaxonAtRankWorker c.t c.fuel c.name r (seqTaxid s)
      else none)
    pure (showRes (fun
      | none => "none"
      | some (none, nm) => "-1/" ++ hex nm
      | some (some z, nm) => s!"{z}/{hex nm}") res)
  | ["sn", s] => do
    let s ← seqAttr s
    pure (showRes hex (TaxSeq.setScientificName c.t c.name (seqTaxid s)))
  | ["tr", s] => do
    let s ← seqAttr s
    pure (showRes hex (TaxSeq.setTaxonomicRank c.t c.rankB (seqTaxid s)))
  | ["state"] =>
    let ns := c.sorted.filterMap fun x => (c.t.node x).map fun n =>
      s!"{x}:{n.parent}:{hex (c.rankB x)}:{hex (c.name x)}"
    let as := c.aliasKeys.filterMap fun k => (c.t.alias k).map fun z => s!"{k}:{z}"
    pure (";".intercalate ns ++ "/" ++ ";".intercalate as)
  | _ => none

def query (t : Taxo) (fuel : Nat) (q : String) : Option String :=
  match (q.drop 1).toString.splitOn ":" with
  | ["path", x] => do
    let x ← x.toNat?
    pure (showRes (fun p => ",".intercalate (p.map toString)) (taxoPath t fuel x))
  | ["lca", x, y] => do
    let x ← x.toNat?
    let y ← y.toNat?
    match resolve t x, resolve t y with
    | some x, some y => pure (showRes toString (lca t fuel x y))
    | _, _ => pure "unk"
  | ["sub", x, y] => do
    let x ← x.toNat?
    let y ← y.toNat?
    match resolve t x, resolve t y with
    | some x, some y => pure (showRes showBool (isSubCladeOf t y fuel x))
    | _, _ => pure "unk"
  | ["rank", x, r] => do
    let x ← x.toNat?
    let r ← rankOf r
    match resolve t x with
    | some x => pure (showRes showOpt (taxonAtRank t r fuel x))
    | none => pure "unk"
  | ["has", x, r] => do
    let x ← x.toNat?
    let r ← rankOf r
    match resolve t x with
    | some x => pure (showRes showBool (hasRankDefined t r fuel x))
    | none => pure "unk"
  | ["res", x] => do
    let x ← x.toNat?
    pure (match resolve t x with | some z => toString z | none => "unk")
  | ["val", s] => do
    let s ← seqAttr s
    pure (showBool (isValidTaxon t (seqTaxid s)))
  | ["rt", cs, s] => do
    let cs ← natList cs
    let s ← seqAttr s
    if cs.isEmpty then none else
    pure (showRes showBool (restrictTo t fuel cs (seqTaxid s)))
  | ["ig", cs, s] => do
    let cs ← natList cs
    let s ← seqAttr s
    if cs.isEmpty then none else
    pure (showRes showBool (ignoreTaxon t fuel cs (seqTaxid s)))
  | ["rr", rs, s] => do
    let rs ← rankListOf rs
    let s ← seqAttr s
    if rs.isEmpty then none else
    pure (showRes showBool (requireRanks t fuel rs (seqTaxid s)))
  | ["sr", r, s] => do
    let r ← rankOf r
    let s ← seqAttr s
    pure (showRes (fun
      | none => "none"
      | some none => "-1"
      | some (some z) => toString z) (setTaxonAtRank t fuel r (seqTaxid s)))
  | ["flt", rs, cs, is, s] => do
    let rs ← rankListOf rs
    let cs ← natList cs
    let is ← natList is
    let s ← seqAttr s
    pure (showRes showBool (taxFilter t fuel rs cs is (seqTaxid s)))
  | ["rs", c, s] => do
    let c ← seqAttr c
    let s ← seqAttr s
    pure (showRes showBool (inCladeSlot t fuel c (seqTaxid s)))
  | ["wls", s] => do
    let s ← seqAttr s
    pure (showRes showOpt (weightedLca t fuel [(s.getD 0, 1)]))
  | ["wl", kws] => do
    let kws ← kwList kws
    pure (showRes showOpt (weightedLca t fuel kws))
  | _ => none

/-- every order in which Go's map iteration can yield the keys -/
def insertAll {α : Type} (a : α) : List α → List (List α)
  | [] => [[a]]
  | b :: r => (a :: b :: r) :: (insertAll a r).map (b :: ·)

def perms {α : Type} : List α → List (List α)
  | [] => [[]]
  | a :: r => (perms r).flatMap (insertAll a)

/-- `wlo`: the set of the answers of `Taxonomy.LCA(…, 1.0)` over the iteration orders of the `merged_taxid` map -/
def queryWlo (t : Taxo) (fuel : Nat) (q : String) : Option String :=
  match (q.drop 1).toString.splitOn ":" with
  | ["wlo", kws] => do
    let kws ← kwList kws
    if kws.isEmpty || kws.length > 4 then none else
    let rs := (perms kws).map (weightedLca t fuel)
    match rs.find? (fun r => match r with | .error _ => true | .ok _ => false) with
    | some (.error e) => pure (showBad e)
    | _ =>
      if rs.any (fun r => match r with | .ok none => true | _ => false) then pure "nil" else
      pure (showIds (sortDedup (rs.filterMap fun r => match r with | .ok (some z) => some z | _ => none)))
  | _ => none

def build (nodes : List (Nat × Node)) (aliases : List (Nat × Nat)) : Taxo :=
  let mx := nodes.foldl (fun m p => max m p.1) 0
  let arr : Array (Option Node) := nodes.foldl (fun a p => a.set! p.1 (some p.2)) (Array.replicate (mx + 1) none)
  addAliases { ids := nodes.map (·.1), node := fun k => (arr[k]?).join, alias := fun _ => none } aliases

/-- the third-pass iterator queries -/
def showCur : Option Nat → String
  | some x => toString x
  | none => "nil"

def applyFilter (c : Ctx) (src : List Nat) : List String → Option (Option (Res (List Nat)))
  | ["all"] => some (some (.ok src))
  | ["sub", x] => do
    let x ← x.toNat?
    match resolve c.t x with
    | some x => pure (some (TaxLoad.filterSubclade c.t c.fuel x src))
    | none => pure none
  | ["rank", r] => do
    let r ← rankOf r
    pure (some (.ok (TaxLoad.filterRank c.t r src)))
  | ["bel", cs] => do
    let cs ← natList cs
    match resolveList c.t cs with
    | some rs => pure (some (TaxLoad.filterBelonging c.t c.fuel (sortDedup rs) src))
    | none => pure none
  | ["find", r, cs] => do
    let r ← rankOf r
    let cs ← natList cs
    match resolveList c.t cs with
    | some rs => pure (some (TaxIter.findRestrict c.t c.fuel r (sortDedup rs) src))
    | none => pure none
  | _ => none

def queryIter (c : Ctx) (q : String) : Option String :=
  match (q.drop 1).toString.splitOn ":" with
  | ["itx"] =>
    match TaxIter.taxonSlice (TaxIter.Chan.ofList c.sorted) with
    | some (l, none, ⟨[], true⟩) => some s!"{l.length}/{l.foldl (fun acc x => (acc + x % 1000003) % 1000003) 0}"
    | _ => some "hang"
  | "isl" :: ids :: f => do
    let ids ← natList ids
    match resolveList c.t ids with
    | none => pure "unk"
    | some src =>
      match ← applyFilter c src f with
      | none => pure "unk"
      | some (.error e) => pure (showBad e)
      | some (.ok l) =>
        -- the filter goroutine feeds a channel; `TaxonSlice()` / `TaxonSet()` drain it
        match TaxIter.taxonSlice (TaxIter.Chan.ofList l) with
        | some (got, none, ⟨[], true⟩) => pure s!"{showIds got}/{showIds (sortDedup (TaxIter.dedup got))}"
        | _ => pure "hang"
  | ["isp", ids, sched] => do
    let ids ← natList ids
    if !(sched.toList.all fun ch => ch = 'a' || ch = 'b') then none else
    match resolveList c.t ids with
    | none => pure "unk"
    | some src =>
      let s := TaxIter.runSched (TaxIter.Two.start src) (sched.toList.map (· = 'b'))
      pure s!"a={showIds s.gotA.reverse};b={showIds s.gotB.reverse};r={showIds s.c.rest};f={if s.c.fin then 1 else 0};ca={showCur s.curA};cb={showCur s.curB}"
  | ["ispp", ids] => do
    -- two goroutines drain the iterator and its split: whatever the interleaving the shares are a partition of the
    -- source (`split_every_taxon_once`); printed: the sorted union
    let ids ← natList ids
    match resolveList c.t ids with
    | none => pure "unk"
    | some src => pure (showIds (src.mergeSort (fun a b => a ≤ b)))
  | ["ifind", r, cs] => do
    match ← applyFilter c c.sorted ["find", r, cs] with
    | none => pure "unk"
    | some r => pure (showRes showIds r)
  | _ => none

def queryAll (c : Ctx) (q : String) : Option String :=
  match queryX c q with
  | some r => some r
  | none => match queryIter c q with
   | some r => some r
   | none => match queryWlo c.t c.fuel q with
    | some r => some r
    | none => query c.t c.fuel q

def decName (x : Nat) : TaxLoad.Bytes := 110 :: TaxLoad.showNat x

/-- the queries on a loaded dump -/
def runLoaded (L : TaxLoad.Loaded) (qs : List String) : String :=
  let t := L.taxo
  if !reindexOk t then "reindex-err" else
  let c : Ctx := { t := t, fuel := L.nodes.length + 1, name := L.sciName,
                   rankB := fun x => ((TaxLoad.lookupNode L.nodes x).map (·.2)).getD [],
                   sorted := sortDedup t.ids, aliasKeys := sortDedup (L.aliases.map (·.1)) }
  match qs.mapM (queryAll c) with
  | some rs => if rs.isEmpty then "-" else joinSp rs
  | none => "bad-op"

/-- a declared node `n<id>:<parent>:<rankhex>` as a line of nodes.dmp in the NCBI layout (the two other columns the
harness writes: an empty one and `8`) -/
def nodeRowOf (w : String) : Option TaxLoad.NodeRow :=
  match (w.drop 1).toString.splitOn ":" with
  | [i, p, r] => do
    let i ← i.toNat?
    let p ← p.toNat?
    let r ← unhex r
    pure ⟨i, p, r, [[], [56]]⟩
  | _ => none

/-- the hypotheses of `loadDump_render` on the declared rows (decidable) -/
def cleanRows (rows : List TaxLoad.NodeRow) (aliases : List (Nat × Nat)) : Bool :=
  rows.all (fun r => decide (r.id < 2 ^ 63) && decide (r.parent < 2 ^ 63) && decide (TaxLoad.NoSep r.rank) &&
    decide (TaxLoad.trimSpace r.rank = r.rank)) &&
  aliases.all (fun a => decide (a.1 < 2 ^ 63) && decide (a.2 < 2 ^ 63))

def runDump (ws : List String) : String :=
  match ws with
  | nf :: mf :: gf :: rest =>
    if !(nf.startsWith "N" && mf.startsWith "M" && gf.startsWith "G") then "bad-op" else
    match unhex (nf.drop 1).toString, unhex (mf.drop 1).toString, unhex (gf.drop 1).toString with
    | some nb, some mb, some gb =>
      if !((nb ++ mb ++ gb).all fun c => c.toNat < 128) then "bad-op" else
      let qs := rest.filter (·.startsWith "q")
      if !(rest.all fun w => w.startsWith "q" || w.startsWith "n" || w.startsWith "a" || w = "L") then "bad-op" else
      -- `L`: the generator says nodes.dmp / merged.dmp are the declared tree in the NCBI layout: they must be, byte for
      -- byte, `renderNodes` / `renderMerged` of the declarations (then `loadDump_render` applies to these very files)
      let layoutOk : Bool :=
        if rest.contains "L" then
          match (rest.filter (·.startsWith "n")).mapM nodeRowOf, (rest.filter (·.startsWith "a")).mapM parseAlias with
          | some rows, some aliases =>
            cleanRows rows aliases && TaxLoad.renderNodes rows == nb && TaxLoad.renderMerged aliases == gb
          | _, _ => false
        else true
      if !layoutOk then "render-mismatch" else
      match TaxLoad.loadDump nb mb gb with
      | .error .panic => "panic"
      | .error .unmodelled => "unmodelled"
      | .ok L => runLoaded L qs
    | _, _, _ => "bad-op"
  | _ => "bad-op"

def parseNodeB (w : String) : Option (Nat × TaxLoad.Bytes) :=
  match (w.drop 1).toString.splitOn ":" with
  | [i, _, r] => do
    let i ← i.toNat?
    let r ← unhex r
    pure (i, r)
  | _ => none

def runTax (ws : List String) : String :=
    let ns := ws.filter (·.startsWith "n")
    let as := ws.filter (·.startsWith "a")
    let qs := ws.filter (·.startsWith "q")
    if ns.length + as.length + qs.length ≠ ws.length then "bad-op" else
    match ns.mapM parseNode, as.mapM parseAlias with
    | some nodes, some aliases =>
      if (nodes.map (·.1)).eraseDups.length ≠ nodes.length then "bad-op" else
      let t := build nodes aliases
      if !reindexOk t then "reindex-err" else
      let rb := (ns.filterMap parseNodeB)
      let mx := rb.foldl (fun m p => max m p.1) 0
      let rarr : Array TaxLoad.Bytes := rb.foldl (fun a p => a.set! p.1 p.2) (Array.replicate (mx + 1) [])
      let c : Ctx := { t := t, fuel := nodes.length + 1, name := decName,
                       rankB := fun x => rarr[x]?.getD [],
                       sorted := sortDedup t.ids, aliasKeys := sortDedup (aliases.map (·.1)) }
      match qs.mapM (queryAll c) with
      | some rs => if rs.isEmpty then "-" else joinSp rs
      | none => "bad-op"
    | _, _ => "bad-op"

/-- `taxd` : the harness writes the declared tree as a dump directory in the NCBI layout (names `n<id>` + a synonym
line per taxon) and loads it with `LoadNCBITaxDump`; the model renders the same declarations with `renderNodes` /
`renderNames` / `renderMerged` and loads the bytes with `loadDump` (up to 300 nodes: the byte level functions are
not tail recursive), which must agree with the API-built model `runTax` uses for larger trees -/
def runTaxd (ws : List String) : String :=
  let ns := ws.filter (·.startsWith "n")
  let as := ws.filter (·.startsWith "a")
  let qs := ws.filter (·.startsWith "q")
  if ns.length + as.length + qs.length ≠ ws.length then "bad-op" else
  if ns.length > 300 then runTax ws else
  match ns.mapM nodeRowOf, as.mapM parseAlias with
  | some rows, some aliases =>
    if (rows.map (·.id)).eraseDups.length ≠ rows.length then "bad-op" else
    if !cleanRows rows aliases then "bad-op" else
    let nrows : List TaxLoad.NameRow := rows.flatMap fun r =>
      [⟨r.id, decName r.id, [], TaxLoad.sciClass⟩,
       ⟨r.id, [115, 121, 110, 32] ++ TaxLoad.showNat r.id, [], [115, 121, 110, 111, 110, 121, 109]⟩]
    match TaxLoad.loadDump (TaxLoad.renderNodes rows) (TaxLoad.renderNames nrows) (TaxLoad.renderMerged aliases) with
    | .error .panic => "panic"
    | .error .unmodelled => "unmodelled"
    | .ok L => runLoaded L qs
  | _, _ => "bad-op"

/-- the query kinds of a `conc` case (the harness prepares each once and runs it from several goroutines) -/
def concOps : List String :=
  ["path", "lca", "sub", "rank", "has", "res", "str", "name", "val", "vf", "rt", "ig", "rr", "flt", "rs", "rss", "sr", "sp", "hq",
   "sw", "sn", "tr", "tpath", "wl", "wls", "isub", "irank", "ibel", "itx"]

/-- `conc <g> <r> tax|taxd …` : the answers of the queries run ALONE, one after the other, i.e. the sequential case; the
harness then runs the same queries from `g` goroutines sharing the taxonomy and the predicates / workers built once,
`r` rounds, and demands these very answers from every call (the model side needs no new function: a query is a function
of the taxonomy and of its arguments, whoever else is running) -/
def runConc (g r : String) (ws : List String) : String :=
  let count? (s : String) (hi : Nat) : Bool :=
    match s.toNat? with
    | some n => 1 ≤ n && n ≤ hi && toString n == s
    | none => false
  if !(count? g 64 && count? r 500) then "bad-op" else
  let qs := ws.drop 1 |>.filter (·.startsWith "q")
  if qs.isEmpty || !(qs.all fun q => concOps.contains (((q.drop 1).toString.splitOn ":").headD "")) then "bad-op" else
  match ws with
  | "tax" :: ws => runTax ws
  | "taxd" :: ws => runTaxd ws
  | _ => "bad-op"

/-- `tax` (API) and `taxd` (dump directory) load the same data -/
def run (line : String) : String :=
  match words line with
  | "tax" :: ws => runTax ws
  | "taxd" :: ws => runTaxd ws
  | "dump" :: ws => runDump ws
  | "conc" :: g :: r :: ws => runConc g r ws
  | "race" :: "conc" :: g :: r :: ws => runConc g r ws
  | _ => "bad-op"

end ObiVerif.Driver.C14
