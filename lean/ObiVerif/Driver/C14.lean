import ObiVerif.Model.Tax
import ObiVerif.Driver.Util
/-!
line protocol for C14

`tax n<id>:<parent>:<rankhex>… a<old>:<new>… q<op>:<args>…`

the nodes (`AddNewTaxa` in that order, then `ReindexParent`), the aliases (`AddNewAlias(new, old)` in
that order), then the queries; the result is one word per query (or `reindex-err`).

queries: `path:x` `lca:x:y` `sub:x:y` `rank:x:r` `has:x:r` `res:x` `val:s` `rt:c,c:s` `ig:c,c:s`
`rr:r,r:s` `flt:r,r:c,c:i,i:s` `rs:c:s` `sr:r:s` `wl:k=w,k=w` `wls:s` (s = taxid attribute of the sequence or `-`; r = rank in hex)
-/
namespace ObiVerif.Driver.C14
open ObiVerif.Tax ObiVerif.Driver

def rankOf (h : String) : Option String :=
  (unhex h).bind fun b => String.fromUTF8? (ByteArray.mk b.toArray)

def parseNode (w : String) : Option (Nat × Node) :=
  match (w.drop 1).toString.splitOn ":" with
  | [i, p, r] => do
    let i ← i.toNat?
    let p ← p.toNat?
    let r ← rankOf r
    pure (i, ⟨p, r⟩)
  | _ => none

def parseAlias (w : String) : Option (Nat × Nat) :=
  match (w.drop 1).toString.splitOn ":" with
  | [o, n] => do
    let o ← o.toNat?
    let n ← n.toNat?
    pure (o, n)
  | _ => none

def natList (s : String) : Option (List Nat) :=
  if s = "" then some [] else (s.splitOn ",").mapM String.toNat?

def rankListOf (s : String) : Option (List String) :=
  if s = "" then some [] else (s.splitOn ",").mapM rankOf

def kwList (s : String) : Option (List (Nat × Nat)) :=
  if s = "" then some [] else (s.splitOn ",").mapM fun kv =>
    match kv.splitOn "=" with
    | [k, w] => do
      let k ← k.toNat?
      let w ← w.toNat?
      pure (k, w)
    | _ => none

def seqAttr (s : String) : Option (Option Nat) :=
  if s = "-" then some none else s.toNat?.map some

def showBad : Bad → String
  | .err => "err" | .panic => "panic" | .hang => "hang" | .fatal => "fatal"

def showRes {α : Type} (f : α → String) : Res α → String
  | .ok a => f a
  | .error e => showBad e

def showBool (b : Bool) : String := if b then "T" else "F"
def showOpt : Option Nat → String
  | some x => toString x
  | none => "nil"

def query (t : Taxo) (fuel : Nat) (q : String) : Option String :=
  match (q.drop 1).toString.splitOn ":" with
  | ["path", x] => do
    let x ← x.toNat?
    pure (showRes (fun p => ",".intercalate (p.map toString)) (taxoPath t fuel x))
  | ["lca", x, y] => do
    let x ← x.toNat?
    let y ← y.toNat?
    match resolve t x, resolve t y with
    | some x, some y => pure (showRes toString (lca t fuel x y))
    | _, _ => pure "unk"
  | ["sub", x, y] => do
    let x ← x.toNat?
    let y ← y.toNat?
    match resolve t x, resolve t y with
    | some x, some y => pure (showRes showBool (isSubCladeOf t y fuel x))
    | _, _ => pure "unk"
  | ["rank", x, r] => do
    let x ← x.toNat?
    let r ← rankOf r
    match resolve t x with
    | some x => pure (showRes showOpt (taxonAtRank t r fuel x))
    | none => pure "unk"
  | ["has", x, r] => do
    let x ← x.toNat?
    let r ← rankOf r
    match resolve t x with
    | some x => pure (showRes showBool (hasRankDefined t r fuel x))
    | none => pure "unk"
  | ["res", x] => do
    let x ← x.toNat?
    pure (match resolve t x with | some z => toString z | none => "unk")
  | ["val", s] => do
    let s ← seqAttr s
    pure (showBool (isValidTaxon t (seqTaxid s)))
  | ["rt", cs, s] => do
    let cs ← natList cs
    let s ← seqAttr s
    if cs.isEmpty then none else
    pure (showRes showBool (restrictTo t fuel cs (seqTaxid s)))
  | ["ig", cs, s] => do
    let cs ← natList cs
    let s ← seqAttr s
    if cs.isEmpty then none else
    pure (showRes showBool (ignoreTaxon t fuel cs (seqTaxid s)))
  | ["rr", rs, s] => do
    let rs ← rankListOf rs
    let s ← seqAttr s
    if rs.isEmpty then none else
    pure (showRes showBool (requireRanks t fuel rs (seqTaxid s)))
  | ["sr", r, s] => do
    let r ← rankOf r
    let s ← seqAttr s
    pure (showRes (fun
      | none => "none"
      | some none => "-1"
      | some (some z) => toString z) (setTaxonAtRank t fuel r (seqTaxid s)))
  | ["flt", rs, cs, is, s] => do
    let rs ← rankListOf rs
    let cs ← natList cs
    let is ← natList is
    let s ← seqAttr s
    pure (showRes showBool (taxFilter t fuel rs cs is (seqTaxid s)))
  | ["rs", c, s] => do
    let c ← seqAttr c
    let s ← seqAttr s
    pure (showRes showBool (inCladeSlot t fuel c (seqTaxid s)))
  | ["wls", s] => do
    let s ← seqAttr s
    pure (showRes showOpt (weightedLca t fuel [(s.getD 0, 1)]))
  | ["wl", kws] => do
    let kws ← kwList kws
    pure (showRes showOpt (weightedLca t fuel kws))
  | _ => none

def build (nodes : List (Nat × Node)) (aliases : List (Nat × Nat)) : Taxo :=
  let mx := nodes.foldl (fun m p => max m p.1) 0
  let arr : Array (Option Node) := nodes.foldl (fun a p => a.set! p.1 (some p.2)) (Array.replicate (mx + 1) none)
  addAliases { ids := nodes.map (·.1), node := fun k => (arr[k]?).join, alias := fun _ => none } aliases

def runTax (ws : List String) : String :=
    let ns := ws.filter (·.startsWith "n")
    let as := ws.filter (·.startsWith "a")
    let qs := ws.filter (·.startsWith "q")
    if ns.length + as.length + qs.length ≠ ws.length then "bad-op" else
    match ns.mapM parseNode, as.mapM parseAlias with
    | some nodes, some aliases =>
      if (nodes.map (·.1)).eraseDups.length ≠ nodes.length then "bad-op" else
      let t := build nodes aliases
      if !reindexOk t then "reindex-err" else
      match qs.mapM (query t (nodes.length + 1)) with
      | some rs => if rs.isEmpty then "-" else joinSp rs
      | none => "bad-op"
    | _, _ => "bad-op"

/-- `tax` (API) and `taxd` (dump directory) load the same data: one model -/
def run (line : String) : String :=
  match words line with
  | "tax" :: ws => runTax ws
  | "taxd" :: ws => runTax ws
  | _ => "bad-op"

end ObiVerif.Driver.C14
