/-! line protocol for C14 (stub: no model yet) -/
namespace ObiVerif.Driver.C14

def run (_line : String) : String := "bad-op"

end ObiVerif.Driver.C14
