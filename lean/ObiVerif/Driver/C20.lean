import ObiVerif.Model.Fp
import ObiVerif.Driver.Util
/-! line protocol for C20: `<width> <op> <limbs…>` (limbs most significant first, decimal); result `ok …` / `i k` /
`b true|false` / `panic`, followed by ` warn=<k>` when `k > 0` logrus warnings were logged -/
namespace ObiVerif.Driver.C20
open ObiVerif.Fp ObiVerif.Driver

def showB (b : Bool) : String := if b then "b true" else "b false"
def show64 (u : U64) : String := s!"ok {u.w0}"
def show128 (u : U128) : String := s!"ok {u.w1} {u.w0}"
def show256 (u : U256) : String := s!"ok {u.w3} {u.w2} {u.w1} {u.w0}"
/-- `log.Warnf` calls are an outcome component: ` warn=<k>` is appended when the model counts `k > 0` warnings -/
def withWarn (s : String) (k : Nat) : String := if k = 0 then s else s!"{s} warn={k}"
def ex {α} (f : α → String) : Except Unit α → String
  | .ok a => f a
  | .error _ => "panic"

def run64 (op : String) (a : List Nat) : String :=
  match op, a with
  | "shl", [x, n] => withWarn (show64 ((U64.mk x).leftShift n)) (U64.leftShiftWarns ⟨x⟩ n)
  | "shr", [x, n] => withWarn (show64 ((U64.mk x).rightShift n)) (U64.rightShiftWarns ⟨x⟩ n)
  | "shl64", [x, n, c] => let r := leftShift64 x n c; withWarn s!"ok {r.1} {r.2}" (leftShift64Warns n)
  | "shr64", [x, n, c] => let r := rightShift64 x n c; withWarn s!"ok {r.1} {r.2}" (rightShift64Warns n)
  | "add", [x, y] => ex show64 (U64.add ⟨x⟩ ⟨y⟩)
  | "sub", [x, y] => ex show64 (U64.sub ⟨x⟩ ⟨y⟩)
  | "mul", [x, y] => ex show64 (U64.mul ⟨x⟩ ⟨y⟩)
  | "cmp", [x, y] => s!"i {U64.cmp ⟨x⟩ ⟨y⟩}"
  | "and", [x, y] => show64 (U64.and ⟨x⟩ ⟨y⟩)
  | "or", [x, y] => show64 (U64.or ⟨x⟩ ⟨y⟩)
  | "xor", [x, y] => show64 (U64.xor ⟨x⟩ ⟨y⟩)
  | "not", [x] => show64 (U64.not ⟨x⟩)
  | "to64", [x] => show64 (U64.toU64 ⟨x⟩)
  | "to128", [x] => show128 (U64.toU128 ⟨x⟩)
  | "to256", [x] => show256 (U64.toU256 ⟨x⟩)
  | "add64", [x, y, c] => let r := U64.add64 ⟨x⟩ ⟨y⟩ c; s!"ok {r.1} {r.2}"
  | "sub64", [x, y, c] => let r := U64.sub64 ⟨x⟩ ⟨y⟩ c; s!"ok {r.1} {r.2}"
  | "mul64", [x, y] => let r := U64.mul64 ⟨x⟩ ⟨y⟩; s!"ok {r.1} {r.2}"
  | "zero", [x] => show64 (U64.zero ⟨x⟩)
  | "max", [x] => show64 (U64.maxValue ⟨x⟩)
  | "iszero", [x] => showB (U64.isZero ⟨x⟩)
  | "set64", [x, v] => show64 (U64.set64 ⟨x⟩ v)
  | "asu64", [x] => s!"ok {U64.asUint64 ⟨x⟩}"
  | "eq", [x, y] => showB (U64.equals ⟨x⟩ ⟨y⟩)
  | "lt", [x, y] => showB (U64.lessThan ⟨x⟩ ⟨y⟩)
  | "gt", [x, y] => showB (U64.greaterThan ⟨x⟩ ⟨y⟩)
  | "le", [x, y] => showB (U64.lessThanOrEqual ⟨x⟩ ⟨y⟩)
  | "ge", [x, y] => showB (U64.greaterThanOrEqual ⟨x⟩ ⟨y⟩)
  | "zerouint", [] => show64 zeroUint64
  | "oneuint", [] => show64 oneUint64
  | "from64", [v] => show64 (from64_64 v)
  | _, _ => "bad-op"

def run128 (op : String) (a : List Nat) : String :=
  match op, a with
  | "shl", [x1, x0, n] => withWarn (show128 ((U128.mk x1 x0).leftShift n)) (U128.leftShiftWarns ⟨x1, x0⟩ n)
  | "shr", [x1, x0, n] => withWarn (show128 ((U128.mk x1 x0).rightShift n)) (U128.rightShiftWarns ⟨x1, x0⟩ n)
  | "add", [x1, x0, y1, y0] => ex show128 (U128.add ⟨x1, x0⟩ ⟨y1, y0⟩)
  | "add64", [x1, x0, y] => ex show128 (U128.add64 ⟨x1, x0⟩ y)
  | "sub", [x1, x0, y1, y0] => ex show128 (U128.sub ⟨x1, x0⟩ ⟨y1, y0⟩)
  | "mul", [x1, x0, y1, y0] => ex show128 (U128.mul ⟨x1, x0⟩ ⟨y1, y0⟩)
  | "mul64", [x1, x0, y] => ex show128 (U128.mul64 ⟨x1, x0⟩ y)
  | "quorem", [x1, x0, y1, y0] =>
      ex (fun (q, r) => s!"ok {q.w1} {q.w0} {r.w1} {r.w0}") (U128.quoRem ⟨x1, x0⟩ ⟨y1, y0⟩)
  | "quorem64", [x1, x0, y] =>
      ex (fun ((q : U128), (r : Nat)) => s!"ok {q.w1} {q.w0} {r}") (U128.quoRem64 ⟨x1, x0⟩ y)
  | "cmp", [x1, x0, y1, y0] => s!"i {U128.cmp ⟨x1, x0⟩ ⟨y1, y0⟩}"
  | "cmp64", [x1, x0, y] => s!"i {U128.cmp64 ⟨x1, x0⟩ y}"
  | "and", [x1, x0, y1, y0] => show128 (U128.and ⟨x1, x0⟩ ⟨y1, y0⟩)
  | "or", [x1, x0, y1, y0] => show128 (U128.or ⟨x1, x0⟩ ⟨y1, y0⟩)
  | "xor", [x1, x0, y1, y0] => show128 (U128.xor ⟨x1, x0⟩ ⟨y1, y0⟩)
  | "not", [x1, x0] => show128 (U128.not ⟨x1, x0⟩)
  | "to64", [x1, x0] => withWarn (show64 (U128.toU64 ⟨x1, x0⟩)) (U128.toU64Warns ⟨x1, x0⟩)
  | "to128", [x1, x0] => show128 (U128.toU128 ⟨x1, x0⟩)
  | "to256", [x1, x0] => show256 (U128.toU256 ⟨x1, x0⟩)
  | "div", [x1, x0, y1, y0] => ex show128 (U128.div ⟨x1, x0⟩ ⟨y1, y0⟩)
  | "mod", [x1, x0, y1, y0] => ex show128 (U128.mod ⟨x1, x0⟩ ⟨y1, y0⟩)
  | "div64", [x1, x0, y] => ex show128 (U128.div64 ⟨x1, x0⟩ y)
  | "mod64", [x1, x0, y] => ex (fun (r : Nat) => s!"ok {r}") (U128.mod64 ⟨x1, x0⟩ y)
  | "zero", [x1, x0] => show128 (U128.zero ⟨x1, x0⟩)
  | "max", [x1, x0] => show128 (U128.maxValue ⟨x1, x0⟩)
  | "iszero", [x1, x0] => showB (U128.isZero ⟨x1, x0⟩)
  | "set64", [x1, x0, v] => show128 (U128.set64 ⟨x1, x0⟩ v)
  | "asu64", [x1, x0] => s!"ok {U128.asUint64 ⟨x1, x0⟩}"
  | "eq", [x1, x0, y1, y0] => showB (U128.equals ⟨x1, x0⟩ ⟨y1, y0⟩)
  | "lt", [x1, x0, y1, y0] => showB (U128.lessThan ⟨x1, x0⟩ ⟨y1, y0⟩)
  | "gt", [x1, x0, y1, y0] => showB (U128.greaterThan ⟨x1, x0⟩ ⟨y1, y0⟩)
  | "le", [x1, x0, y1, y0] => showB (U128.lessThanOrEqual ⟨x1, x0⟩ ⟨y1, y0⟩)
  | "ge", [x1, x0, y1, y0] => showB (U128.greaterThanOrEqual ⟨x1, x0⟩ ⟨y1, y0⟩)
  | "zerouint", [] => show128 zeroUint128
  | "oneuint", [] => show128 oneUint128
  | "from64", [v] => show128 (from64_128 v)
  | _, _ => "bad-op"

def run256 (op : String) (a : List Nat) : String :=
  match op, a with
  | "shl", [x3, x2, x1, x0, n] =>
      withWarn (show256 ((U256.mk x3 x2 x1 x0).leftShift n)) (U256.leftShiftWarns ⟨x3, x2, x1, x0⟩ n)
  | "shr", [x3, x2, x1, x0, n] =>
      withWarn (show256 ((U256.mk x3 x2 x1 x0).rightShift n)) (U256.rightShiftWarns ⟨x3, x2, x1, x0⟩ n)
  | "add", [x3, x2, x1, x0, y3, y2, y1, y0] => ex show256 (U256.add ⟨x3, x2, x1, x0⟩ ⟨y3, y2, y1, y0⟩)
  | "sub", [x3, x2, x1, x0, y3, y2, y1, y0] => ex show256 (U256.sub ⟨x3, x2, x1, x0⟩ ⟨y3, y2, y1, y0⟩)
  | "mul", [x3, x2, x1, x0, y3, y2, y1, y0] => ex show256 (U256.mul ⟨x3, x2, x1, x0⟩ ⟨y3, y2, y1, y0⟩)
  | "div", [x3, x2, x1, x0, y3, y2, y1, y0] =>
      match U256.div ⟨x3, x2, x1, x0⟩ ⟨y3, y2, y1, y0⟩ with
      | none => "hang"
      | some r => ex show256 r
  | "cmp", [x3, x2, x1, x0, y3, y2, y1, y0] => s!"i {U256.cmp ⟨x3, x2, x1, x0⟩ ⟨y3, y2, y1, y0⟩}"
  | "and", [x3, x2, x1, x0, y3, y2, y1, y0] => show256 (U256.and ⟨x3, x2, x1, x0⟩ ⟨y3, y2, y1, y0⟩)
  | "or", [x3, x2, x1, x0, y3, y2, y1, y0] => show256 (U256.or ⟨x3, x2, x1, x0⟩ ⟨y3, y2, y1, y0⟩)
  | "xor", [x3, x2, x1, x0, y3, y2, y1, y0] => show256 (U256.xor ⟨x3, x2, x1, x0⟩ ⟨y3, y2, y1, y0⟩)
  | "not", [x3, x2, x1, x0] => show256 (U256.not ⟨x3, x2, x1, x0⟩)
  | "to64", [x3, x2, x1, x0] => withWarn (show64 (U256.toU64 ⟨x3, x2, x1, x0⟩)) (U256.toU64Warns ⟨x3, x2, x1, x0⟩)
  | "to128", [x3, x2, x1, x0] => withWarn (show128 (U256.toU128 ⟨x3, x2, x1, x0⟩)) (U256.toU128Warns ⟨x3, x2, x1, x0⟩)
  | "to256", [x3, x2, x1, x0] => show256 (U256.toU256 ⟨x3, x2, x1, x0⟩)
  | "zero", [x3, x2, x1, x0] => show256 (U256.zero ⟨x3, x2, x1, x0⟩)
  | "max", [x3, x2, x1, x0] => show256 (U256.maxValue ⟨x3, x2, x1, x0⟩)
  | "iszero", [x3, x2, x1, x0] => showB (U256.isZero ⟨x3, x2, x1, x0⟩)
  | "set64", [x3, x2, x1, x0, v] => show256 (U256.set64 ⟨x3, x2, x1, x0⟩ v)
  | "asu64", [x3, x2, x1, x0] => s!"ok {U256.asUint64 ⟨x3, x2, x1, x0⟩}"
  | "eq", [x3, x2, x1, x0, y3, y2, y1, y0] => showB (U256.equals ⟨x3, x2, x1, x0⟩ ⟨y3, y2, y1, y0⟩)
  | "lt", [x3, x2, x1, x0, y3, y2, y1, y0] => showB (U256.lessThan ⟨x3, x2, x1, x0⟩ ⟨y3, y2, y1, y0⟩)
  | "gt", [x3, x2, x1, x0, y3, y2, y1, y0] => showB (U256.greaterThan ⟨x3, x2, x1, x0⟩ ⟨y3, y2, y1, y0⟩)
  | "le", [x3, x2, x1, x0, y3, y2, y1, y0] => showB (U256.lessThanOrEqual ⟨x3, x2, x1, x0⟩ ⟨y3, y2, y1, y0⟩)
  | "ge", [x3, x2, x1, x0, y3, y2, y1, y0] => showB (U256.greaterThanOrEqual ⟨x3, x2, x1, x0⟩ ⟨y3, y2, y1, y0⟩)
  | "zerouint", [] => show256 zeroUint256
  | "oneuint", [] => show256 oneUint256
  | "from64", [v] => show256 (from64_256 v)
  | _, _ => "bad-op"

def run (line : String) : String :=
  match words line with
  | w :: op :: rest =>
    match nats? rest with
    | none => "bad-op"
    | some a =>
      if w = "u64" then run64 op a else if w = "u128" then run128 op a
      else if w = "u256" then run256 op a else "bad-op"
  | _ => "bad-op"

end ObiVerif.Driver.C20
