/-! shared helpers of the line-protocol driver (core Lean only) -/
namespace ObiVerif.Driver

def words (s : String) : List String := (s.splitOn " ").filter (· ≠ "")

def nats? (ws : List String) : Option (List Nat) := ws.mapM String.toNat?

def ints? (ws : List String) : Option (List Int) := ws.mapM String.toInt?

def joinSp (l : List String) : String := " ".intercalate l

def hexVal (c : Char) : Option Nat :=
  if '0' ≤ c ∧ c ≤ '9' then some (c.toNat - '0'.toNat)
  else if 'a' ≤ c ∧ c ≤ 'f' then some (c.toNat - 'a'.toNat + 10)
  else none

def unhexAux : List Char → List UInt8 → Option (List UInt8)
  | [], acc => some acc.reverse
  | [_], _ => none
  | a :: b :: t, acc => do
    let x ← hexVal a
    let y ← hexVal b
    unhexAux t (UInt8.ofNat (x * 16 + y) :: acc)

/-- decode a lowercase hex string into bytes; "-" is the empty byte string -/
def unhex (s : String) : Option (List UInt8) :=
  if s = "-" then some [] else unhexAux s.toList []

def hexDigit (n : Nat) : Char := if n < 10 then Char.ofNat (48 + n) else Char.ofNat (87 + n)

def hex (l : List UInt8) : String :=
  if l.isEmpty then "-" else
  String.ofList (l.foldr (fun b acc => hexDigit (b.toNat / 16) :: hexDigit (b.toNat % 16) :: acc) [])

end ObiVerif.Driver
