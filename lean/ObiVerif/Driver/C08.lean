import ObiVerif.Model.PEAlign
import ObiVerif.Model.PEFillV
import ObiVerif.Model.PEArena
import ObiVerif.Model.PEFastArena
import ObiVerif.Model.PECli
import ObiVerif.Model.PEAnnot
import ObiVerif.Driver.Util
import ObiVerif.Spec.AlignSteps
/-! line protocol for C08 (see `harness/c08.go` for the case-line grammar) -/
namespace ObiVerif.Driver.C08
open ObiVerif.PEAlign ObiVerif.Driver

def pathStr (p : Path) : String :=
  if p.isEmpty then "-" else ",".intercalate (p.map toString)

def parsePath (w : String) : Option Path :=
  if w = "-" then some [] else (w.splitOn ",").mapM String.toInt?

def adjFn (t : List UInt8) (q : UInt8) : UInt8 := t.getD q.toNat 0

/-- the quality-adjustment table handed over by the harness must be the literal the table theorems are about -/
def adjOK (t : List UInt8) : Bool := t == adjAmd64

def consStr : Option Cons → String
  | some c => s!"c={hex c.seq} q={hex c.qual} m={c.nmatch}"
  | none => "panic"

def optInt : Option Int → String
  | some v => toString v
  | none => "-"

def asmStr (a : Assembled) : String :=
  let md := if a.alignment then "alignment" else "join"
  let dir := match a.dirLeft with
    | some true => "left"
    | some false => "right"
    | none => "-"
  s!"{md} s={hex a.seq} q={hex a.qual} dir={dir} as={optInt a.aSingle} bs={optInt a.bSingle} al={a.aliLength} ma={a.nmatch} sc={a.score}"

/-- score of a path whose diagonal column scores are listed in `ps` (replay of a real path, op `pl`) -/
def scorePs (cA cB : Nat → Int) : Nat → Nat → Path → List Int → Int
  | i, j, ind :: d :: rest, ps =>
    let n := (-ind).toNat
    let m := ind.toNat
    let k := d.toNat
    (n : Int) * cA j + (m : Int) * cB i + (ps.take k).foldl (· + ·) 0
      + scorePs cA cB (i + n + k) (j + m + k) rest (ps.drop k)
  | _, _, _, _ => 0

structure Settings where
  fast : Bool
  rel : Bool
  delta : Nat
  minov : Nat
  idn : Nat
  idd : Nat
  a : Bytes
  qa : Bytes
  b : Bytes
  qb : Bytes

def parseSettings (ws : List String) : Option Settings :=
  match ws with
  | f :: r :: d :: _gi :: _si :: mo :: idn :: idd :: a :: qa :: b :: qb :: _ => do
    let f ← f.toNat?
    let r ← r.toNat?
    let d ← d.toNat?
    let mo ← mo.toNat?
    let idn ← idn.toNat?
    let idd ← idd.toNat?
    let a ← unhex a
    let qa ← unhex qa
    let b ← unhex b
    let qb ← unhex qb
    if a.length ≠ qa.length ∨ b.length ≠ qb.length ∨ a.isEmpty ∨ b.isEmpty ∨ idd = 0 then none
    else pure ⟨f = 1, r = 1, d, mo, idn, idd, a, qa, b, qb⟩
  | _ => none

/-- everything after the PEAlign result: consensus, assembled record and all its annotations -/
def tailStr (st : Settings) (adj : UInt8 → UInt8) (v : Vote) (r : PERes) : String :=
  let c := consensus adj st.a st.qa st.b st.qb r.path
  match c with
  | some cc =>
    let asm := assemble st.a st.qa st.b st.qb st.minov st.idn st.idd r cc
    let ann := annotations st.fast v (over st.a.length st.b.length v.shift) asm
      (mismatchStats st.a st.qa st.b st.qb r.path)
    s!"{consStr c} | {asmStr asm} ann={ann}"
  | none => "panic | panic"

def voteStr (st : Settings) : Vote × String :=
  if st.fast then
    let v := fastShift st.rel st.a st.b
    let fs := if v.num < 0 then "-1" else s!"{v.count}/{v.den}"
    (v, s!"fc={v.count} ov={over st.a.length st.b.length v.shift} fs={fs}")
  else (⟨0, 0, -1, 1⟩, "fc=-1 ov=0 fs=-1")

/-- an arena as a previous pair may have left it: wrong sizes, stale values -/
def junkArena (la lb : Nat) : Mats :=
  ⟨Array.replicate 7 7777, Array.replicate ((la + 1) * (lb + 1) + 5) (-7777)⟩

/-- the whole arena as a previous pair may have left it; the path buffer is too small (regrown) for even
`la + lb`, larger than needed and full of stale values otherwise -/
def junkArenaB (la lb : Nat) : Arena :=
  ⟨junkArena la lb, if (la + lb) % 2 = 0 then Array.replicate 3 4242 else Array.replicate ((la + lb) * 2 + 7) (-4242)⟩

def csv (a : Array Int) : String := ",".intercalate (a.toList.map toString)

/-- op `fm`: one verbatim fill + backtracking; prints the score, the path and both flat matrices -/
def runFm (ws extra : List String) : String :=
  match ws, extra with
  | [side, _gi, _si, a, qa, b, qb], g :: sc =>
    match side.toNat?, unhex a, unhex qa, unhex b, unhex qb, g.toInt?, ints? sc with
    | some side, some a, some qa, some b, some qb, some g, some scl =>
      let la := a.length
      let lb := b.length
      if la = 0 ∨ lb = 0 ∨ qa.length ≠ la ∨ qb.length ≠ lb ∨ scl.length ≠ la * lb ∨ side > 1 then "bad-op" else
      let arr := scl.toArray
      let s := fun i j => arr.getD (i * lb + j) 0
      -- flat matrices and the path buffer written from its end (`arena_refines`)
      let r := if side = 1 then fillLeftB s g la lb (junkArenaB la lb) else fillRightB s g la lb (junkArenaB la lb)
      match r with
      | some (fr, ar) => s!"sc={fr.score} p={pathStr fr.path} M={csv ar.m.sm} P={csv ar.m.pm}"
      | none => "panic"
    | _, _, _, _, _, _, _ => "bad-op"
  | _, _ => "bad-op"

/-- the true path of reads cut from one fragment at offsets `a0`, `b0` (as the harness builds it) -/
def truePath (a0 b0 la lb : Nat) : Option Path :=
  let ov : Int := (min (a0 + la) (b0 + lb) : Nat) - (max a0 b0 : Nat)
  if ov < 1 then none
  else
    let first : Path := if a0 < b0 then [-((b0 - a0 : Nat) : Int), ov] else [((a0 - b0 : Nat) : Int), ov]
    let ea := a0 + la
    let eb := b0 + lb
    some (first ++ (if ea < eb then [((eb - ea : Nat) : Int), 0] else if ea > eb then [-((ea - eb : Nat) : Int), 0] else []))

/-- `strictAlong` of the true path in the matrix of one scheme (the table of `fill`, = `Mf` by `table_getD`):
the decidable uniqueness hypothesis of the error-free reassembly theorems, printed per case next to the
harness's formulation "the independent DP counts one optimal path and the true path reaches the optimum" -/
def strictTrue (s : Nat → Nat → Int) (cA cB : Nat → Int) (la lb : Nat) (tp : Path) : Bool :=
  let t := (table s cA cB la lb).toArray.map (·.toArray)
  let M := fun i j => ((t.getD j #[]).getD i ((0, 0) : Cell)).1
  Align.strictAlong M s cA cB 0 0 (Align.stepsOf tp)

/-- ` sa=<left><right>` for an exact-mode case that carries its fragment (`F=frag:a0:b0`) and whose reads are
error-free copies with an overlap ≥ 1; empty otherwise -/
def strictStr (ws : List String) (st : Settings) (s : Nat → Nat → Int) (g : Int) : String :=
  match ws.drop 12 with
  | [f] =>
    if ¬ f.startsWith "F=" then "" else
    match ((f.drop 2).toString).splitOn ":" with
    | [fh, a0, b0] =>
      match unhex fh, a0.toNat?, b0.toNat? with
      | some fr, some a0, some b0 =>
        let la := st.a.length
        let lb := st.b.length
        if a0 + la ≤ fr.length ∧ b0 + lb ≤ fr.length ∧ (fr.drop a0).take la = st.a ∧ (fr.drop b0).take lb = st.b then
          match truePath a0 b0 la lb with
          | some tp =>
            let l := strictTrue s (cALeft g) (cBLeft g la) la lb tp
            let r := strictTrue s (cARight g lb) (cBRight g) la lb tp
            s!" sa={if l then 1 else 0}{if r then 1 else 0}"
          | none => ""
        else ""
      | _, _, _ => ""
    | _ => ""
  | _ => ""

def runPe (ws extra : List String) : String :=
  match parseSettings ws, extra with
  | some st, g :: adjh :: sc =>
    match g.toInt?, unhex adjh, ints? sc with
    | some g, some adjt, some scl =>
      let la := st.a.length
      let lb := st.b.length
      if ¬ adjOK adjt then "adj-table-differs" else
      if scl.length ≠ la * lb then "bad-op" else
      let arr := scl.toArray
      let s := fun i j => arr.getD (i * lb + j) 0
      let (v, vs) := voteStr st
      -- exact mode runs the verbatim loop nests over a flat arena holding stale values of the wrong size
      -- (`fills_verbatim_refine`: same result as `peAlignExact` for every arena content)
      -- fast mode too: the local fill is the verbatim loop nest over the junk arena, `_Backtracking` writes
      -- the path buffer of the arena from its end (`arena_refines`: same result as `peAlignExact` /
      -- `peAlignFastFrom` for every arena content)
      let r := if st.fast then (peAlignFastFromB s g la lb st.delta v.shift v.count (junkArenaB la lb)).map (·.1)
               else (peAlignExactB s g la lb (junkArenaB la lb)).map (·.1)
      match r with
      | some r => s!"L={if r.isLeft then 1 else 0} sc={r.score} p={pathStr r.path} {vs} | {tailStr st (adjFn adjt) v r}{if st.fast then "" else strictStr ws st s g}"
      | none => "panic | panic"
    | _, _, _ => "bad-op"
  | _, _ => "bad-op"

def runPl (ws extra : List String) : String :=
  match parseSettings ws, extra with
  | some st, [g, adjh, il, p, ps] =>
    match g.toInt?, unhex adjh, il.toNat?, parsePath p, parsePath ps with
    | some g, some adjt, some il, some p, some ps =>
      let la := st.a.length
      let lb := st.b.length
      if ¬ adjOK adjt then "adj-table-differs" else
      let isLeft := il = 1
      let sc := if isLeft then scorePs (cALeft g) (cBLeft g la) 0 0 p ps
                else scorePs (cARight g lb) (cBRight g) 0 0 p ps
      let (v, vs) := voteStr st
      let r : PERes := ⟨isLeft, sc, p⟩
      s!"L={il} sc={sc} p={pathStr p} {vs} | {tailStr st (adjFn adjt) v r}"
    | _, _, _, _, _ => "bad-op"
  | _, _ => "bad-op"

/-- op `bt`: `_Backtracking` alone, reading the flat path matrix through `_GetMatrix`, writing the path
buffer (capacity `cap`, stale content) from its end -/
def runBt (ws : List String) : String :=
  match ws with
  | [la, lb, cp, pm] =>
    match la.toNat?, lb.toNat?, cp.toNat?, parsePath pm with
    | some la, some lb, some cp, some pm =>
      if la = 0 ∨ lb = 0 ∨ pm.length ≠ (la + 1) * (lb + 1) then "bad-op" else
      let arr := pm.toArray
      match backtrackBuf (pathAt arr la) la lb (Array.replicate cp 4242) with
      | some (p, _) => s!"p={pathStr p}"
      | none => "panic"
    | _, _, _, _ => "bad-op"
  | _ => "bad-op"

/-- op `fa`: `PEAlign` in fast mode on an arena with a history: the 4-mer index as the previous forward read
`a0` left it, junk matrices, a path buffer of capacity `cap` full of stale values; prints the result, the
vote and the path buffer as the call leaves it (`peAlignFastC`; `peAlignFastC_eq`: the result does not
depend on any of it) -/
def runFa (ws extra : List String) : String :=
  match ws, extra with
  | [rel, delta, _gi, _si, cp, a, qa, b, qb, a0], g :: sc =>
    match rel.toNat?, delta.toNat?, cp.toNat?, unhex a, unhex qa, unhex b, unhex qb, unhex a0, g.toInt?, ints? sc with
    | some rel, some delta, some cp, some a, some qa, some b, some qb, some a0, some g, some scl =>
      let la := a.length
      let lb := b.length
      if la = 0 ∨ lb = 0 ∨ qa.length ≠ la ∨ qb.length ≠ lb ∨ scl.length ≠ la * lb ∨ rel > 1 then "bad-op" else
      let arr := scl.toArray
      let s := fun i j => arr.getD (i * lb + j) 0
      let fa0 : FastArena := ⟨⟨junkArena la lb, Array.replicate cp 4242⟩, index4mer #[] (encode4mer a0), []⟩
      match peAlignFastC s g (rel = 1) a b delta fa0 with
      | some o =>
        let v := o.vote
        let fs := if v.num < 0 then "-1" else s!"{v.count}/{v.den}"
        let bufS := if o.pathBuf.length = cp then (if cp = 0 then "-" else ",".intercalate (o.pathBuf.map toString)) else "grown"
        s!"L={if o.res.isLeft then 1 else 0} sc={o.res.score} p={pathStr o.res.path} fc={v.count} ov={over la lb v.shift} fs={fs} left={o.shifts.length} buf={bufS}"
      | none => "panic"
    | _, _, _, _, _, _, _, _, _, _ => "bad-op"
  | _, _ => "bad-op"

/-- op `cl`: one pair through the `obipairing` command: `cl <argv tokens joined by ','> A QA B QB` -/
def runCl (ws extra : List String) : String :=
  match ws, extra with
  | [toks, a, qa, b, qb], g :: adjh :: sc =>
    match unhex a, unhex qa, unhex b, unhex qb, g.toInt?, unhex adjh, ints? sc with
    | some a, some qa, some b, some qb, some g, some adjt, some scl =>
      let la := a.length
      let lb := b.length
      if la = 0 ∨ lb = 0 ∨ qa.length ≠ la ∨ qb.length ≠ lb ∨ scl.length ≠ la * lb then "bad-op" else
      if ¬ adjOK adjt then "adj-table-differs" else
      match cliParse (if toks = "-" then [] else toks.splitOn ",") {} with
      | none => "bad-op"
      | some o =>
        if o.idd = 0 then "bad-op" else
        let arr := scl.toArray
        let s := fun i j => arr.getD (i * lb + j) 0
        match cliAssemble o s g (adjFn adjt) a qa b qb (junkArenaB la lb) with
        | some (asm, ann) =>
          let annS := ";".intercalate (ann.map fun e => e.1 ++ "=" ++ e.2)
          s!"{if asm.alignment then "alignment" else "join"} s={hex asm.seq} q={hex asm.qual} ann={annS}"
        | none => "panic"
    | _, _, _, _, _, _, _ => "bad-op"
  | _, _ => "bad-op"

/-- groups of `k` words -/
def chunks (k : Nat) : Nat → List String → List (List String)
  | 0, _ => []
  | fuel + 1, ws => if ws.isEmpty ∨ k = 0 then [] else ws.take k :: chunks k fuel (ws.drop k)

/-- op `conc` (concurrent use, `harness/c08_conc.go`):
`conc <g> <r> <race> <fast> <rel> <delta> <gi> <si> <minov> <idn> <idd> <n> n × [A QA B QB] | <gap> <adj> n × [isLeft path scores]`.
The result is what the `n` pairs answer one after the other: each is the sequential `pl` clause (`runPl`: vote, score
along the path, consensus, assembled record and all annotations); the harness demands the same answers from `g`
concurrent workers. No state is shared between two calls of the model (pure functions), which is the claim under test. -/
def runConc (ws extra : List String) : String :=
  match ws, extra with
  | g :: r :: race :: f :: rl :: d :: gi :: si :: mo :: idn :: idd :: n :: pairs, gp :: adjh :: datas =>
    match g.toNat?, r.toNat?, race.toNat?, n.toNat? with
    | some g, some r, some race, some n =>
      if g = 0 ∨ g > 64 ∨ r = 0 ∨ r > 200 ∨ race > 1 ∨ n = 0 ∨ n > 32 ∨ pairs.length ≠ 4 * n ∨ datas.length ≠ 3 * n then "bad-op" else
      let ps := chunks 4 n pairs
      let ds := chunks 3 n datas
      " ;; ".intercalate ((ps.zip ds).map fun (p, dt) => runPl ([f, rl, d, gi, si, mo, idn, idd] ++ p) ([gp, adjh] ++ dt))
    | _, _, _, _ => "bad-op"
  | _, _ => "bad-op"

def run (line : String) : String :=
  match line.splitOn " | " with
  | [main] =>
    match words main with
    | "bt" :: ws => runBt ws
    | _ => "bad-op"
  | [main, extra] =>
    match words main with
    | "pe" :: ws => runPe ws (words extra)
    | "pl" :: ws => runPl ws (words extra)
    | "fm" :: ws => runFm ws (words extra)
    | "fa" :: ws => runFa ws (words extra)
    | "cl" :: ws => runCl ws (words extra)
    | "conc" :: ws => runConc ws (words extra)
    | ["cons", a, qa, b, qb, p] =>
      match unhex a, unhex qa, unhex b, unhex qb, parsePath p, unhex extra.trimAscii.toString with
      | some a, some qa, some b, some qb, some p, some adjt =>
        if a.length ≠ qa.length ∨ b.length ≠ qb.length then "bad-op"
        else if ¬ adjOK adjt then "adj-table-differs"
        else consStr (consensus (adjFn adjt) a qa b qb p)
      | _, _, _, _, _, _ => "bad-op"
    | _ => "bad-op"
  | _ => "bad-op"

end ObiVerif.Driver.C08
