/-! line protocol for C08 (stub: no model yet) -/
namespace ObiVerif.Driver.C08

def run (_line : String) : String := "bad-op"

end ObiVerif.Driver.C08
