import ObiVerif.Model.PEAlign
import ObiVerif.Model.PEFillV
import ObiVerif.Model.PEArena
import ObiVerif.Model.PEAnnot
import ObiVerif.Driver.Util
/-! line protocol for C08 (see `harness/c08.go` for the case-line grammar) -/
namespace ObiVerif.Driver.C08
open ObiVerif.PEAlign ObiVerif.Driver

def pathStr (p : Path) : String :=
  if p.isEmpty then "-" else ",".intercalate (p.map toString)

def parsePath (w : String) : Option Path :=
  if w = "-" then some [] else (w.splitOn ",").mapM String.toInt?

def adjFn (t : List UInt8) (q : UInt8) : UInt8 := t.getD q.toNat 0

/-- the quality-adjustment table handed over by the harness must be the literal the table theorems are about -/
def adjOK (t : List UInt8) : Bool := t == adjAmd64

def consStr : Option Cons → String
  | some c => s!"c={hex c.seq} q={hex c.qual} m={c.nmatch}"
  | none => "panic"

def optInt : Option Int → String
  | some v => toString v
  | none => "-"

def asmStr (a : Assembled) : String :=
  let md := if a.alignment then "alignment" else "join"
  let dir := match a.dirLeft with
    | some true => "left"
    | some false => "right"
    | none => "-"
  s!"{md} s={hex a.seq} q={hex a.qual} dir={dir} as={optInt a.aSingle} bs={optInt a.bSingle} al={a.aliLength} ma={a.nmatch} sc={a.score}"

/-- score of a path whose diagonal column scores are listed in `ps` (replay of a real path, op `pl`) -/
def scorePs (cA cB : Nat → Int) : Nat → Nat → Path → List Int → Int
  | i, j, ind :: d :: rest, ps =>
    let n := (-ind).toNat
    let m := ind.toNat
    let k := d.toNat
    (n : Int) * cA j + (m : Int) * cB i + (ps.take k).foldl (· + ·) 0
      + scorePs cA cB (i + n + k) (j + m + k) rest (ps.drop k)
  | _, _, _, _ => 0

structure Settings where
  fast : Bool
  rel : Bool
  delta : Nat
  minov : Nat
  idn : Nat
  idd : Nat
  a : Bytes
  qa : Bytes
  b : Bytes
  qb : Bytes

def parseSettings (ws : List String) : Option Settings :=
  match ws with
  | f :: r :: d :: _gi :: _si :: mo :: idn :: idd :: a :: qa :: b :: qb :: _ => do
    let f ← f.toNat?
    let r ← r.toNat?
    let d ← d.toNat?
    let mo ← mo.toNat?
    let idn ← idn.toNat?
    let idd ← idd.toNat?
    let a ← unhex a
    let qa ← unhex qa
    let b ← unhex b
    let qb ← unhex qb
    if a.length ≠ qa.length ∨ b.length ≠ qb.length ∨ a.isEmpty ∨ b.isEmpty ∨ idd = 0 then none
    else pure ⟨f = 1, r = 1, d, mo, idn, idd, a, qa, b, qb⟩
  | _ => none

/-- everything after the PEAlign result: consensus, assembled record and all its annotations -/
def tailStr (st : Settings) (adj : UInt8 → UInt8) (v : Vote) (r : PERes) : String :=
  let c := consensus adj st.a st.qa st.b st.qb r.path
  match c with
  | some cc =>
    let asm := assemble st.a st.qa st.b st.qb st.minov st.idn st.idd r cc
    let ann := annotations st.fast v (over st.a.length st.b.length v.shift) asm
      (mismatchStats st.a st.qa st.b st.qb r.path)
    s!"{consStr c} | {asmStr asm} ann={ann}"
  | none => "panic | panic"

def voteStr (st : Settings) : Vote × String :=
  if st.fast then
    let v := fastShift st.rel st.a st.b
    let fs := if v.num < 0 then "-1" else s!"{v.count}/{v.den}"
    (v, s!"fc={v.count} ov={over st.a.length st.b.length v.shift} fs={fs}")
  else (⟨0, 0, -1, 1⟩, "fc=-1 ov=0 fs=-1")

/-- an arena as a previous pair may have left it: wrong sizes, stale values -/
def junkArena (la lb : Nat) : Mats :=
  ⟨Array.replicate 7 7777, Array.replicate ((la + 1) * (lb + 1) + 5) (-7777)⟩

/-- the whole arena as a previous pair may have left it; the path buffer is too small (regrown) for even
`la + lb`, larger than needed and full of stale values otherwise -/
def junkArenaB (la lb : Nat) : Arena :=
  ⟨junkArena la lb, if (la + lb) % 2 = 0 then Array.replicate 3 4242 else Array.replicate ((la + lb) * 2 + 7) (-4242)⟩

def csv (a : Array Int) : String := ",".intercalate (a.toList.map toString)

/-- op `fm`: one verbatim fill + backtracking; prints the score, the path and both flat matrices -/
def runFm (ws extra : List String) : String :=
  match ws, extra with
  | [side, _gi, _si, a, qa, b, qb], g :: sc =>
    match side.toNat?, unhex a, unhex qa, unhex b, unhex qb, g.toInt?, ints? sc with
    | some side, some a, some qa, some b, some qb, some g, some scl =>
      let la := a.length
      let lb := b.length
      if la = 0 ∨ lb = 0 ∨ qa.length ≠ la ∨ qb.length ≠ lb ∨ scl.length ≠ la * lb ∨ side > 1 then "bad-op" else
      let arr := scl.toArray
      let s := fun i j => arr.getD (i * lb + j) 0
      -- flat matrices and the path buffer written from its end (`arena_refines`)
      let r := if side = 1 then fillLeftB s g la lb (junkArenaB la lb) else fillRightB s g la lb (junkArenaB la lb)
      match r with
      | some (fr, ar) => s!"sc={fr.score} p={pathStr fr.path} M={csv ar.m.sm} P={csv ar.m.pm}"
      | none => "panic"
    | _, _, _, _, _, _, _ => "bad-op"
  | _, _ => "bad-op"

def runPe (ws extra : List String) : String :=
  match parseSettings ws, extra with
  | some st, g :: adjh :: sc =>
    match g.toInt?, unhex adjh, ints? sc with
    | some g, some adjt, some scl =>
      let la := st.a.length
      let lb := st.b.length
      if ¬ adjOK adjt then "adj-table-differs" else
      if scl.length ≠ la * lb then "bad-op" else
      let arr := scl.toArray
      let s := fun i j => arr.getD (i * lb + j) 0
      let (v, vs) := voteStr st
      -- exact mode runs the verbatim loop nests over a flat arena holding stale values of the wrong size
      -- (`fills_verbatim_refine`: same result as `peAlignExact` for every arena content)
      -- fast mode too: the local fill is the verbatim loop nest over the junk arena, `_Backtracking` writes
      -- the path buffer of the arena from its end (`arena_refines`: same result as `peAlignExact` /
      -- `peAlignFastFrom` for every arena content)
      let r := if st.fast then (peAlignFastFromB s g la lb st.delta v.shift v.count (junkArenaB la lb)).map (·.1)
               else (peAlignExactB s g la lb (junkArenaB la lb)).map (·.1)
      match r with
      | some r => s!"L={if r.isLeft then 1 else 0} sc={r.score} p={pathStr r.path} {vs} | {tailStr st (adjFn adjt) v r}"
      | none => "panic | panic"
    | _, _, _ => "bad-op"
  | _, _ => "bad-op"

def runPl (ws extra : List String) : String :=
  match parseSettings ws, extra with
  | some st, [g, adjh, il, p, ps] =>
    match g.toInt?, unhex adjh, il.toNat?, parsePath p, parsePath ps with
    | some g, some adjt, some il, some p, some ps =>
      let la := st.a.length
      let lb := st.b.length
      if ¬ adjOK adjt then "adj-table-differs" else
      let isLeft := il = 1
      let sc := if isLeft then scorePs (cALeft g) (cBLeft g la) 0 0 p ps
                else scorePs (cARight g lb) (cBRight g) 0 0 p ps
      let (v, vs) := voteStr st
      let r : PERes := ⟨isLeft, sc, p⟩
      s!"L={il} sc={sc} p={pathStr p} {vs} | {tailStr st (adjFn adjt) v r}"
    | _, _, _, _, _ => "bad-op"
  | _, _ => "bad-op"

/-- op `bt`: `_Backtracking` alone, reading the flat path matrix through `_GetMatrix`, writing the path
buffer (capacity `cap`, stale content) from its end -/
def runBt (ws : List String) : String :=
  match ws with
  | [la, lb, cp, pm] =>
    match la.toNat?, lb.toNat?, cp.toNat?, parsePath pm with
    | some la, some lb, some cp, some pm =>
      if la = 0 ∨ lb = 0 ∨ pm.length ≠ (la + 1) * (lb + 1) then "bad-op" else
      let arr := pm.toArray
      match backtrackBuf (pathAt arr la) la lb (Array.replicate cp 4242) with
      | some (p, _) => s!"p={pathStr p}"
      | none => "panic"
    | _, _, _, _ => "bad-op"
  | _ => "bad-op"

def run (line : String) : String :=
  match line.splitOn " | " with
  | [main] =>
    match words main with
    | "bt" :: ws => runBt ws
    | _ => "bad-op"
  | [main, extra] =>
    match words main with
    | "pe" :: ws => runPe ws (words extra)
    | "pl" :: ws => runPl ws (words extra)
    | "fm" :: ws => runFm ws (words extra)
    | ["cons", a, qa, b, qb, p] =>
      match unhex a, unhex qa, unhex b, unhex qb, parsePath p, unhex extra.trimAscii.toString with
      | some a, some qa, some b, some qb, some p, some adjt =>
        if a.length ≠ qa.length ∨ b.length ≠ qb.length then "bad-op"
        else if ¬ adjOK adjt then "adj-table-differs"
        else consStr (consensus (adjFn adjt) a qa b qb p)
      | _, _, _, _, _, _ => "bad-op"
    | _ => "bad-op"
  | _ => "bad-op"

end ObiVerif.Driver.C08
