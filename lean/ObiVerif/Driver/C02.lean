/-! line protocol for C02 (stub: no model yet) -/
namespace ObiVerif.Driver.C02

def run (_line : String) : String := "bad-op"

end ObiVerif.Driver.C02
