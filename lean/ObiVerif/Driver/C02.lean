import ObiVerif.Model.Header
import ObiVerif.Driver.Util
/-! line protocol for C02 (see the header comment of `harness/c02.go` for the case-line grammar) -/
namespace ObiVerif.Driver.C02
open ObiVerif.Header ObiVerif.Driver

/-- digest of the empty annotation map (FNV-1a of the canonical dump `M{}` printed by the harness) -/
def emptyDig : String := "3b71c82c"

structure LibEnt where
  s : Nat
  e : Nat
  val : Option (String × Option Bytes)

def parseDefFlag (w : String) : Option (Option Bytes) :=
  if w = "-" then some none
  else if w.startsWith "d" then
    let h := (w.drop 1).toString
    if h = "" then some (some []) else (unhex h).map some
  else none

def parseLibEnt (w : String) : Option LibEnt :=
  match w.splitOn ":" with
  | [s, e, "x"] => do pure ⟨← s.toNat?, ← e.toNat?, none⟩
  | [s, e, dig, d] => do pure ⟨← s.toNat?, ← e.toNat?, some (dig, ← parseDefFlag d)⟩
  | _ => none

def parseLib (w : String) : Option (List LibEnt) :=
  if w = "-" then some [] else (w.splitOn ",").mapM parseLibEnt

def libFind (es : List LibEnt) (s e : Nat) : Option LibEnt := es.find? (fun x => x.s == s && x.e == e)

def mkLib (es : List LibEnt) : Lib String := fun s e =>
  match libFind es s e with
  | some x => x.val
  | none => none

/-- the model asks the library about exactly one span: it must be one the harness has asked go-json about -/
def libCovers (es : List LibEnt) (h : Bytes) : Bool :=
  match scanJson h with
  | none => true
  | some (s, e) => (libFind es s e).isSome

def showDef : Option Bytes → String
  | none => "-"
  | some [] => "d"
  | some b => "d" ++ hex b

def hdrRun (es : List LibEnt) (h : Bytes) : String :=
  if !libCovers es h then "bad-lib" else
  match parseJsonHeader (mkLib es) h with
  | .unparsed => "none"
  | .fatal => "fatal"
  | .ok a d rest => s!"ok {a} {showDef d} {hex rest}"

def showErr : Err → String
  | .fatal => "fatal"
  | .panic => "panic"

def showTitleRec (r : Rec) : String :=
  s!"id={hex r.id} seq={hex r.seq} def={showDef (if r.defn = [] then none else some r.defn)}"

def parseText (fm : String) (shift : UInt8) (text : Bytes) : Except Err (List Rec) :=
  if fm = "fastq" then parseFastq shift true text else parseFasta text

/-- both layers must agree on a text that holds exactly one record -/
def layerCheck (fm : String) (shift : UInt8) (text : Bytes) (rs : List Rec) : String :=
  match rs with
  | [r] =>
    let s := if fm = "fastq" then readFastqS shift text else readFastaS text
    if s = some r then "" else " LAYER-MISMATCH"
  | _ => ""

/-- header parser selection: `j` = ParseFastSeqJsonHeader, `g` = ParseGuessedFastSeqHeader -/
def headerParse (hp : String) (es : List LibEnt) (defn : Bytes) : Except String (Parsed String) :=
  if hp = "g" ∧ defn.head? ≠ some 123 then
    -- ParseFastSeqOBIHeader: only the empty definition is in the model
    if defn = [] then .ok ⟨emptyDig, none⟩ else .error "obi-header"
  else if !libCovers es defn then .error "bad-lib"
  else match parseFastSeqJsonHeader emptyDig (mkLib es) defn with
    | some p => .ok p
    | none => .error "fatal"

def showRec (r : Rec) (p : Parsed String) : String :=
  let q := match r.qual with
    | some q => if q = [] then "none" else hex q
    | none => "none"
  s!"id={hex r.id} seq={hex r.seq} q={q} ann={p.ann} def={showDef p.defn}"

structure InRec where
  id : Bytes
  seq : Bytes
  qual : Option Bytes

def parseInRecs : Nat → List String → Option (List InRec × List String)
  | 0, rest => some ([], rest)
  | n + 1, id :: sq :: q :: _ann :: rest => do
    let id ← unhex id
    let sq ← unhex sq
    let q ← if q = "-" then some none else (unhex q).map some
    let (rs, rest) ← parseInRecs n rest
    pure (⟨id, sq, q⟩ :: rs, rest)
  | _, _ => none

def parseAug : Nat → List String → Option (List (Bytes × List LibEnt))
  | 0, [] => some []
  | n + 1, info :: lib :: rest => do
    let info ← unhex info
    let lib ← parseLib lib
    let t ← parseAug n rest
    pure ((info, lib) :: t)
  | _, _ => none

def zipParse (hp : String) : List Rec → List (List LibEnt) → Except String (List String)
  | [], _ => .ok []
  | r :: rs, libs => do
    let p ← headerParse hp (libs.headD []) r.defn
    let t ← zipParse hp rs libs.tail
    pure (showRec r p :: t)

def rtRun (fm hp : String) (so si : UInt8) (recs : List InRec) (aug : List (Bytes × List LibEnt)) : String :=
  let texts := (recs.zip aug).map (fun (r, a) =>
    if fm = "fastq" then formatFastq so r.id a.1 r.seq r.qual else formatFasta r.id a.1 r.seq ++ [10])
  let text := texts.flatten
  let w := "w=" ++ hex text ++ " r="
  match parseText fm si text with
  | .error e => w ++ showErr e
  | .ok rs =>
    match zipParse hp rs (aug.map (·.2)) with
    | .error e => w ++ e
    | .ok parts => (w ++ toString rs.length ++ " " ++ " | ".intercalate parts).trimAsciiEnd.toString ++ layerCheck fm si text rs

def byte? (w : String) : Option UInt8 := do
  let n ← w.toNat?
  if n < 256 then some (UInt8.ofNat n) else none

def run (line : String) : String :=
  let (main, aug) := match line.splitOn " + " with
    | [m, a] => (words m, words a)
    | _ => (words line, [])
  match main with
  | ["hdr", _] | ["hdrj", _, _] =>
    let hl : Option (Bytes × List LibEnt) := match main, aug with
      | ["hdr", h], [lib] => do pure (← unhex h, ← parseLib lib)
      | ["hdrj", _, _], [h, lib] => do pure (← unhex h, ← parseLib lib)
      | _, _ => none
    match hl with
    | some (h, es) => hdrRun es h
    | none => "bad-op"
  | ["title", fm, t] =>
    if fm ≠ "fasta" ∧ fm ≠ "fastq" then "bad-op" else
    match unhex t with
    | some t =>
      let text : Bytes := if fm = "fastq" then 64 :: t ++ [10, 97, 99, 103, 116, 10, 43, 10, 73, 73, 73, 73, 10]
                          else 62 :: t ++ [10, 97, 99, 103, 116]
      match parseText fm 33 text with
      | .error e => showErr e
      | .ok rs => (toString rs.length ++ " " ++ " | ".intercalate (rs.map showTitleRec)).trimAsciiEnd.toString
                    ++ (if fm = "fasta" then layerCheck fm 33 text rs else "")
    | none => "bad-op"
  | ["q", so, si, q] =>
    match byte? so, byte? si, byte? q with
    | some so, some si, some q =>
      let text := formatFastq so [120] [] [97] (some [q])
      match parseFastq si true text with
      | .error e => showErr e
      | .ok [r] =>
        match r.qual with
        | some [v] => if v = readQ si (writeQ so q) then toString v.toNat else "LAYER-MISMATCH"
        | _ => "none"
      | .ok rs => s!"nrec={rs.length}"
    | _, _, _ => "bad-op"
  | "rt" :: fm :: hp :: so :: si :: n :: rest =>
    if (fm ≠ "fasta" ∧ fm ≠ "fastq") ∨ (hp ≠ "j" ∧ hp ≠ "g") then "bad-op" else
    match byte? so, byte? si, n.toNat? with
    | some so, some si, some n =>
      match parseInRecs n rest, parseAug n aug with
      | some (recs, []), some aug => rtRun fm hp so si recs aug
      | _, _ => "bad-op"
    | _, _, _ => "bad-op"
  | _ => "bad-op"

end ObiVerif.Driver.C02
