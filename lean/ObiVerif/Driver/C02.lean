import ObiVerif.Model.Header
import ObiVerif.Model.Json
import ObiVerif.Model.JsonNum
import ObiVerif.Model.ObiHeader
import ObiVerif.Model.HeaderFast
import ObiVerif.Driver.Util
/-! line protocol for C02 (see the header comment of `harness/c02.go` for the case-line grammar) -/
namespace ObiVerif.Driver.C02
open ObiVerif.Header ObiVerif.Driver
open ObiVerif.Json (JVal JList JMems goJson)

/-! ## annotation specs → model values -/

/-- the table `bits:hex(strconv.FormatFloat(x, 'e', -1, 64))` of the floats of a case (data: Go's `strconv`) -/
abbrev Floats := List (String × Bytes)

def parseFloats (w : String) : Option Floats :=
  if !w.startsWith "F=" then none else
  let b := (w.drop 2).toString
  if b = "-" then some [] else
  (b.splitOn ",").mapM (fun it => match it.splitOn ":" with
    | [bits, lit] => do pure (bits, ← unhex lit)
    | _ => none)

/-- the literal of a float: `floatLit` on the `%e` text given as data; the typed model (`Model/JsonNum.lean`: digits
    and exponent read from that text, `fmtFloat` printing both formats itself, `eFmt` included) must print the same
    bytes and the digits must be in normal form (hypothesis `GVal.WF` of the number theorems) — otherwise the case is
    refused (`bad-op`, a mismatch) -/
def floatNum (fl : Floats) (bits : String) : Option JVal :=
  (fl.lookup bits).bind (fun e =>
    let d := ObiVerif.JsonNum.Dec.ofLit e
    let lit := ObiVerif.Json.floatLit e
    if d.norm && ObiVerif.JsonNum.fmtFloat d == lit && ObiVerif.JsonNum.Dec.ofLit lit == d then some (.num lit) else none)

def unhexE (h : String) : Option Bytes := if h = "" then some [] else unhex h

def isHexC (c : Char) : Bool := ('0' ≤ c && c ≤ '9') || ('a' ≤ c && c ≤ 'f')

/-- replace the value of key `k` or append the member (a Go map assignment) -/
def JMems.set (k : Bytes) (v : JVal) : JMems → JMems
  | .nil => .cons k v .nil
  | .cons k' v' t => if k' = k then .cons k v t else .cons k' v' (JMems.set k v t)

def JMems.ofList (l : List (Bytes × JVal)) : JMems :=
  ObiVerif.Json.sortMems (l.foldl (fun m kv => JMems.set kv.1 kv.2 m) .nil)

def JList.ofList : List JVal → JList
  | [] => .nil
  | v :: t => .cons v (JList.ofList t)

/-- nested value terms: `S<hex>` `I<int>` `F<bits>` `T` `U` `Z` `L[t,…]` `M[<hexkey>:t,…]` -/
def pTerm (fl : Floats) : Nat → List Char → Option (JVal × List Char)
  | 0, _ => none
  | _ + 1, [] => none
  | n + 1, c :: r =>
    if c = 'S' then do
      let h := r.takeWhile isHexC
      pure (.str (← unhexE (String.ofList h)), r.dropWhile isHexC)
    else if c = 'I' then do
      let h := r.takeWhile (fun c => c.isDigit || c = '-')
      pure (.num (ObiVerif.Json.intLit (← (String.ofList h).toInt?)), r.dropWhile (fun c => c.isDigit || c = '-'))
    else if c = 'F' then do
      let h := r.takeWhile isHexC
      pure (← floatNum fl (String.ofList h), r.dropWhile isHexC)
    else if c = 'T' then some (.bool true, r)
    else if c = 'U' then some (.bool false, r)
    else if c = 'Z' then some (.null, r)
    else if c = 'L' then
      match r with
      | '[' :: ']' :: r' => some (.arr .nil, r')
      | '[' :: r' =>
        let rec elems (k : Nat) (acc : List JVal) (s : List Char) : Option (List JVal × List Char) :=
          match k with
          | 0 => none
          | k + 1 =>
            match pTerm fl n s with
            | none => none
            | some (v, s') =>
              match s' with
              | ',' :: s'' => elems k (v :: acc) s''
              | ']' :: s'' => some ((v :: acc).reverse, s'')
              | _ => none
        (elems r'.length [] r').map (fun p => (.arr (JList.ofList p.1), p.2))
      | _ => none
    else if c = 'M' then
      match r with
      | '[' :: ']' :: r' => some (.obj .nil, r')
      | '[' :: r' =>
        let rec mems (k : Nat) (acc : List (Bytes × JVal)) (s : List Char) : Option (List (Bytes × JVal) × List Char) :=
          match k with
          | 0 => none
          | k + 1 =>
            match unhexE (String.ofList (s.takeWhile isHexC)), s.dropWhile isHexC with
            | some key, ':' :: s1 =>
              match pTerm fl n s1 with
              | none => none
              | some (v, s') =>
                match s' with
                | ',' :: s'' => mems k ((key, v) :: acc) s''
                | ']' :: s'' => some (((key, v) :: acc).reverse, s'')
                | _ => none
            | _, _ => none
        (mems r'.length [] r').map (fun p => (.obj (JMems.ofList p.1), p.2))
      | _ => none
    else none

def parseKV (w : String) (f : String → Option JVal) : Option (List (Bytes × JVal)) :=
  if w = "" then some [] else
  (w.splitOn ",").mapM (fun kv => match kv.splitOn "=" with
    | [k, v] => do pure (← unhexE k, ← f v)
    | _ => none)

/-- one annotation entry `<type>.<key-hex>.<value>` (same grammar as `c02ParseAnn` of the harness) -/
def parseEntry (fl : Floats) (e : String) : Option (Bytes × JVal) :=
  match e.splitOn "." with
  | [ty, k, v] => do
    let key ← unhex k
    let intV (x : String) : Option JVal := x.toInt?.map (fun i => .num (ObiVerif.Json.intLit i))
    let val ← match ty with
      | "s" => (unhexE v).map JVal.str
      | "i" => intV v
      | "f" => floatNum fl v
      | "b" => some (.bool (v = "1"))
      | "mi" => (parseKV v intV).map (fun l => .obj (JMems.ofList l))
      | "ms" => (parseKV v (fun x => (unhexE x).map JVal.str)).map (fun l => .obj (JMems.ofList l))
      | "li" => if v = "" then some (.arr .nil) else ((v.splitOn ",").mapM intV).map (fun l => .arr (JList.ofList l))
      | "v" => match pTerm fl (v.length + 1) v.toList with
        | some (t, []) => some t
        | _ => none
      | _ => none
    pure (key, val)
  | _ => none

/-- annotation spec → (members without `definition`, in the encoder's order; the `definition` entry) -/
def parseAnn (fl : Floats) (spec : String) : Option (JMems × Option Bytes) :=
  if spec = "-" then some (.nil, none) else do
  let es ← (spec.splitOn ";").mapM (parseEntry fl)
  let m := JMems.ofList es
  pure (m.dropDef, m.getDef)

/-! ## canonical by-value dump of a decoded value (the harness prints the same for the real reader's value) -/

def b2s (b : Bytes) : String := String.ofList (b.map (fun c => Char.ofNat c.toNat))

mutual
  def dumpVal : JVal → String
    | .null => "Z"
    | .bool b => if b then "B1" else "B0"
    | .num lit => "N" ++ b2s (ObiVerif.Json.canonNum lit)
    | .str s => "S" ++ hex s
    | .arr l => "L[" ++ ",".intercalate (dumpElems l) ++ "]"
    | .obj m => dumpObj (dumpMems m)
  def dumpElems : JList → List String
    | .nil => []
    | .cons v t => dumpVal v :: dumpElems t
  /-- members in reverse order (so that "first occurrence" below = last in the text: a later duplicate wins) -/
  def dumpMems : JMems → List (String × String)
    | .nil => []
    | .cons k v t => dumpMems t ++ [(hex k, dumpVal v)]
  def dumpObj (ps : List (String × String)) : String :=
    let uniq := ps.foldl (fun acc p => if acc.any (fun q => q.1 == p.1) then acc else acc ++ [p]) []
    let parts := (uniq.map (fun p => p.1 ++ "=" ++ p.2)).toArray.qsort (· < ·)
    "M{" ++ ",".intercalate parts.toList ++ "}"
end

def fnv1a (s : String) : String :=
  let h : UInt32 := s.toUTF8.foldl (fun h b => (h ^^^ b.toUInt32) * 16777619) 2166136261
  let n := h.toNat
  String.ofList ((List.range 8).map (fun i => hexDigit ((n >>> (4 * (7 - i))) % 16)))

mutual
  /-- the dump that keeps Go's number kinds apart: the reader gives `float64` to every number (`F…`) -/
  def dumpValK : JVal → String
    | .null => "Z"
    | .bool b => if b then "B1" else "B0"
    | .num lit => "F" ++ b2s (ObiVerif.Json.canonNum lit)
    | .str s => "S" ++ hex s
    | .arr l => "L[" ++ ",".intercalate (dumpElemsK l) ++ "]"
    | .obj m => dumpObj (dumpMemsK m)
  def dumpElemsK : JList → List String
    | .nil => []
    | .cons v t => dumpValK v :: dumpElemsK t
  def dumpMemsK : JMems → List (String × String)
    | .nil => []
    | .cons k v t => dumpMemsK t ++ [(hex k, dumpValK v)]
end

/-- by-value digest `/` kind-aware digest of what the reader stored -/
def digest (m : JMems) : String := fnv1a (dumpVal (.obj m)) ++ "/" ++ fnv1a (dumpValK (.obj m))

mutual
  def dupKeysV : JVal → Bool
    | .arr l => dupKeysL l
    | .obj m => dupKeysM m
    | _ => false
  def dupKeysL : JList → Bool
    | .nil => false
    | .cons v t => dupKeysV v || dupKeysL t
  def dupKeysM : JMems → Bool
    | .nil => false
    | .cons k v t => t.hasKey k || dupKeysV v || dupKeysM t
end

/-- every member `definition` is a string (otherwise `Definition()` formats a number: outside the model) -/
def defsAreStr : JMems → Bool
  | .nil => true
  | .cons k v t => (if k = ObiVerif.Json.defKey then (match v with | .str _ => true | _ => false) else true) && defsAreStr t

/-- digest of the empty annotation map (FNV-1a of the canonical dump `M{}` printed by the harness) -/
def emptyDig : String := "3b71c82c/3b71c82c"

structure LibEnt where
  s : Nat
  e : Nat
  val : Option (String × Option Bytes)

def parseDefFlag (w : String) : Option (Option Bytes) :=
  if w = "-" then some none
  else if w.startsWith "d" then
    let h := (w.drop 1).toString
    if h = "" then some (some []) else (unhex h).map some
  else none

def parseLibEnt (w : String) : Option LibEnt :=
  match w.splitOn ":" with
  | [s, e, "x"] => do pure ⟨← s.toNat?, ← e.toNat?, none⟩
  | [s, e, dig, d] => do pure ⟨← s.toNat?, ← e.toNat?, some (dig, ← parseDefFlag d)⟩
  | _ => none

def parseLib (w : String) : Option (List LibEnt) :=
  if w = "-" then some [] else (w.splitOn ",").mapM parseLibEnt

def libFind (es : List LibEnt) (s e : Nat) : Option LibEnt := es.find? (fun x => x.s == s && x.e == e)

/-- the span is in the model (decoded by `Model/Json.lean`) -/
def modelDecodes (h : Bytes) (s e : Nat) : Bool :=
  match ObiVerif.Json.decodeObj ((h.drop s).take (e - s)) with
  | some full => defsAreStr full && !dupKeysM full
  | none => false

/-- the model asks about exactly one span: it must be one the model decodes or one the harness has asked go-json about -/
def libCovers (es : List LibEnt) (h : Bytes) : Bool :=
  match scanJson h with
  | none => true
  | some (s, e) => modelDecodes h s e || (libFind es s e).isSome

def tableLib (es : List LibEnt) : Lib String := fun s e =>
  match libFind es s e with
  | some x => x.val
  | none => none

/-- the JSON decoder of the model on the span; where the model does not apply (text it rejects: white space,
    surrogate escapes, raw control characters, duplicate keys, non-string `definition` …) go-json's answer as data -/
def mkLibH (es : List LibEnt) (h : Bytes) : Lib String := fun s e =>
  match goJson.lib h s e with
  | some (m, d) => if modelDecodes h s e then some (digest m, d) else tableLib es s e
  | none => tableLib es s e

def showDef : Option Bytes → String
  | none => "-"
  | some [] => "d"
  | some b => "d" ++ hex b

def hdrRun (es : List LibEnt) (h : Bytes) : String :=
  if !libCovers es h then "bad-lib" else
  match parseJsonHeader (mkLibH es h) h with
  | .unparsed => "none"
  | .fatal => "fatal"
  | .ok a d rest => s!"ok {a} {showDef d} {hex rest}"

def showErr : Err → String
  | .fatal => "fatal"
  | .panic => "panic"

def showTitleRec (r : Rec) : String :=
  s!"id={hex r.id} seq={hex r.seq} def={showDef (if r.defn = [] then none else some r.defn)}"

def showTxtRec (r : Rec) : String :=
  s!"id={hex r.id} seq={hex r.seq} q={match r.qual with | some q => hex q | none => "none"} def={showDef (if r.defn = [] then none else some r.defn)}"

def parseText (fm : String) (shift : UInt8) (text : Bytes) : Except Err (List Rec) :=
  if fm = "fastq" then parseFastq shift true text else parseFasta text

/-- both layers must agree on a text that holds exactly one record -/
def layerCheck (fm : String) (shift : UInt8) (text : Bytes) (rs : List Rec) : String :=
  match rs with
  | [r] =>
    let s := if fm = "fastq" then readFastqS shift text else readFastaS text
    if s = some r then "" else " LAYER-MISMATCH"
  | _ => ""

/-- header parser selection: `j` = ParseFastSeqJsonHeader, `g` = ParseGuessedFastSeqHeader -/
def headerParse (hp : String) (es : List LibEnt) (defn : Bytes) : Except String (Parsed String) :=
  if hp = "g" ∧ defn.head? ≠ some 123 ∧ (ObiVerif.ObiHeader.matchKey defn).isSome then .error "obi-header"   -- key=value: outside the model
  else if !libCovers es defn then .error "bad-lib"
  else
    -- ParseFastSeqOBIHeader: without a `key=` pattern it only trims (`Model/ObiHeader.lean`)
    let obi : Bytes → Option (Parsed String) := ObiVerif.ObiHeader.parseFastSeqOBIHeader emptyDig (fun _ => none)
    let r := if hp = "g" then parseGuessed obi emptyDig (mkLibH es defn) defn
             else parseFastSeqJsonHeader emptyDig (mkLibH es defn) defn
    match r with
    | some p => .ok p
    | none => .error "fatal"

def showRec (r : Rec) (p : Parsed String) : String :=
  let q := match r.qual with
    | some q => if q = [] then "none" else hex q
    | none => "none"
  s!"id={hex r.id} seq={hex r.seq} q={q} ann={p.ann} def={showDef p.defn}"

structure InRec where
  id : Bytes
  seq : Bytes
  qual : Option Bytes
  ann : JMems
  defn : Option Bytes

def parseInRecs (fl : Floats) : Nat → List String → Option (List InRec × List String)
  | 0, rest => some ([], rest)
  | n + 1, id :: sq :: q :: ann :: rest => do
    let id ← unhex id
    let sq ← unhex sq
    let q ← if q = "-" then some none else (unhex q).map some
    let (a, d) ← parseAnn fl ann
    let (rs, rest) ← parseInRecs fl n rest
    pure (⟨id, sq, q, a, d⟩ :: rs, rest)
  | _, _ => none

/-- the hypothesis `AnnOK` of the unconditional theorems, checked on every case -/
def annOK (a : JMems) : Bool := a.WF && !a.hasKey ObiVerif.Json.defKey

def parseAug : Nat → List String → Option (List (Bytes × List LibEnt))
  | 0, [] => some []
  | n + 1, info :: lib :: rest => do
    let info ← unhex info
    let lib ← parseLib lib
    let t ← parseAug n rest
    pure ((info, lib) :: t)
  | _, _ => none

def zipParse (hp : String) : List Rec → List (List LibEnt) → Except String (List String)
  | [], _ => .ok []
  | r :: rs, libs => do
    let p ← headerParse hp (libs.headD []) r.defn
    let t ← zipParse hp rs libs.tail
    pure (showRec r p :: t)

open ObiVerif.HeaderFast in
/-- the fast functions against the functions of the theorems, on the data of a small case (`rt`, `conc`) -/
def fastAgrees (fm : String) (si : UInt8) (recs : List InRec) (text : Bytes) : Bool :=
  (if fm = "fastq" then
     (match parseFastqF si true text, parseFastq si true text with
      | .ok a, .ok b => a == b
      | .error a, .error b => a == b
      | _, _ => false)
   else
     (match parseFastaF text, parseFasta text with
      | .ok a, .ok b => a == b
      | .error a, .error b => a == b
      | _, _ => false))
  && recs.all (fun r =>
      let i := info goJson r.ann r.defn
      infoF r.ann r.defn == i && fold60F r.seq == fold60 r.seq
        && (match decodeObjF i, ObiVerif.Json.decodeObj i with
            | some a, some b => encodeObjF a == ObiVerif.Json.encodeObj b
            | none, none => true
            | _, _ => false))

def rtRun (fm hp : String) (so si : UInt8) (recs : List InRec) (aug : List (Bytes × List LibEnt)) : String :=
  if recs.any (fun r => !annOK r.ann) then "NOT-ANNOK" else
  -- the header is printed by the model's encoder (`info goJson`), not taken from the harness
  let texts := recs.map (fun r =>
    if fm = "fastq" then formatFastq so r.id (info goJson r.ann r.defn) r.seq r.qual
    else formatFasta r.id (info goJson r.ann r.defn) r.seq ++ [10])
  let text := texts.flatten
  let w := (if fastAgrees fm si recs text then "" else "FAST-MISMATCH ") ++ "w=" ++ hex text ++ " r="
  match parseText fm si text with
  | .error e => w ++ showErr e
  | .ok rs =>
    match zipParse hp rs (aug.map (·.2)) with
    | .error e => w ++ e
    | .ok parts => (w ++ toString rs.length ++ " " ++ " | ".intercalate parts).trimAsciiEnd.toString ++ layerCheck fm si text rs

/-- `cli`: the file the writers print, what `obiconvert` prints for it (chunk parser with the input offset, guessed
    header parser, writer with offset 33), and — theorem `write_read_write_fixed_*` — a second pass changes nothing -/
def cliRun (fm : String) (so : UInt8) (recs : List InRec) : String :=
  if recs.any (fun r => !annOK r.ann) then "NOT-ANNOK" else
  let rs : List (Record JMems) := recs.map (fun r => ⟨r.id, r.seq, r.qual, r.ann, r.defn⟩)
  let obi : Bytes → Option (Parsed JMems) := ObiVerif.ObiHeader.parseFastSeqOBIHeader .nil (fun _ => none)
  let t0 := if fm = "fastq" then (rs.map (writeFastq goJson so)).flatten else (rs.map (writeFasta goJson)).flatten
  let back := if fm = "fastq" then readFastqG goJson obi so t0 else readFastaG goJson obi t0
  match back with
  | none => "w=" ++ hex t0 ++ " t1=fatal"
  | some bs =>
    let t1 := if fm = "fastq" then (bs.map (writeFastq goJson 33)).flatten else (bs.map (writeFasta goJson)).flatten
    "w=" ++ hex t0 ++ " t1=" ++ hex t1 ++ " t2=eq"

def byte? (w : String) : Option UInt8 := do
  let n ← w.toNat?
  if n < 256 then some (UInt8.ofNat n) else none

/-- `conc`: the sub-cases one after the other. Sub-case = `fm hp nr (id seq qual annspec)*nr` on the case side and
    `<floats> (<info-hex> <lib>)*nr` on the data side: exactly the case `rt fm hp so si nr …`, answered by `rtRun`
    (the existing sequential model; the harness demands the same answers from g goroutines running together) -/
def concSubs (so si : UInt8) : Nat → List String → List String → Option (List String)
  | 0, [], [] => some []
  | k + 1, fm :: hp :: nr :: rest, flw :: aug => do
    if (fm ≠ "fasta" ∧ fm ≠ "fastq") ∨ (hp ≠ "j" ∧ hp ≠ "g") then none
    let nr ← nr.toNat?
    let fl ← parseFloats flw
    let (recs, rest') ← parseInRecs fl nr rest
    if aug.length < 2 * nr then none
    let a ← parseAug nr (aug.take (2 * nr))
    let res := if recs.any (fun r => r.seq = []) then "w=fatal" else rtRun fm hp so si recs a
    let t ← concSubs so si k rest' (aug.drop (2 * nr))
    pure (res :: t)
  | _, _, _ => none

def concRun (main aug : List String) : String :=
  match main with
  | _g :: _r :: so :: si :: n :: rest =>
    match byte? so, byte? si, n.toNat? with
    | some so, some si, some n =>
      match concSubs so si n rest aug with
      | some rs => " ; ".intercalate rs
      | none => "bad-op"
    | _, _, _ => "bad-op"
  | _ => "bad-op"


/-! ## fourth pass: `big` — records given by SIZES (title line, identifier, definition, string value, map, sequence and
quality lines at and above 4096 / 8192 / 65536 / 1 MiB), expanded by the same rules as `c02BigExpand` of the harness and
run through the linear functions of `Model/HeaderFast.lean` (proved equal to the functions of the theorems in
`Lemmas/HeaderFast.lean`); results are lengths and FNV-1a digests instead of the bytes -/

def alphaOf (a : Char) : Array UInt8 :=
  if a = 'h' then "a\"\\{}[];=>@:,' b".toUTF8.data
  else if a = 'g' then "a\"\\{}[];=>@:,'|#".toUTF8.data
  else "abcdefghijklmnopqrstuvwxyz0123456789_".toUTF8.data

/-- `n` bytes over the alphabet `a`, starting at `seed` (`u`: `é` repeated, an `x` first when `n` is odd) -/
def pat (a : Char) (seed n : Nat) : Bytes :=
  if a = 'u' then
    let odd := n % 2
    (List.range n).map (fun i => if i < odd then 120 else if (i - odd) % 2 = 0 then 0xC3 else 0xA9)
  else
    let al := alphaOf a
    (List.range n).map (fun i => al[(i + seed) % al.size]!)

def seqPat (seed n : Nat) : Bytes :=
  let al := "acgtrymkswbdn".toUTF8.data
  (List.range n).map (fun i => al[(i + seed) % al.size]!)

def qualPat (seed n : Nat) : Bytes := (List.range n).map (fun i => UInt8.ofNat ((i * 7 + seed) % 94))

/-- key number `j` of length `klen`: a prefix over `p` and the decimal digits of `j` (7 at most) -/
def bigKey (j klen : Nat) : Bytes :=
  let w := min klen 7
  let ds := (Nat.toDigits 10 (j % 10 ^ w)).map (fun c => UInt8.ofNat c.toNat)
  pat 'p' 0 (klen - w) ++ List.replicate (w - ds.length) 48 ++ ds

def alphaLen (w : String) : Option (Char × Nat) :=
  match w.toList with
  | a :: r => (String.ofList r).toNat?.map (fun n => (a, n))
  | [] => none

def JMems.ofListU (l : List (Bytes × JVal)) : JMems :=
  ObiVerif.Json.sortMems (l.foldr (fun kv m => .cons kv.1 kv.2 m) .nil)

def bigEntry (e : Nat) (w : String) : Option (Bytes × JVal) :=
  match w.splitOn "." with
  | ["s", kl, v] => do
    let (a, n) ← alphaLen v
    pure (bigKey e (← kl.toNat?), .str (pat a e n))
  | ["i", kl, v] => do pure (bigKey e (← kl.toNat?), .num (ObiVerif.Json.intLit (← v.toInt?)))
  | ["mi", kl, nk, mkl] => do
    let nk ← nk.toNat?
    let mkl ← mkl.toNat?
    pure (bigKey e (← kl.toNat?), .obj (JMems.ofListU ((List.range nk).map (fun j =>
      (bigKey j mkl, .num (ObiVerif.Json.intLit (Int.ofNat (j * 37 % 1000 + 1))))))))
  | ["ms", kl, nk, mkl, v] => do
    let nk ← nk.toNat?
    let mkl ← mkl.toNat?
    let (a, n) ← alphaLen v
    pure (bigKey e (← kl.toNat?), .obj (JMems.ofListU ((List.range nk).map (fun j => (bigKey j mkl, .str (pat a j n))))))
  | ["d", v] => do
    let (a, n) ← alphaLen v
    pure (ObiVerif.Json.defKey, .str (pat a e n))
  | _ => none

def bigAnn (spec : String) : Option (JMems × Option Bytes) :=
  if spec = "-" then some (.nil, none) else do
  let ws := spec.splitOn ";"
  let es ← (ws.zip (List.range ws.length)).mapM (fun p => bigEntry p.2 p.1)
  let m := JMems.ofListU es
  pure (m.dropDef, m.getDef)

def bigRecs : Nat → Nat → List String → Option (List InRec × List String)
  | 0, _, rest => some ([], rest)
  | n + 1, k, id :: sq :: q :: ann :: rest => do
    let (a, il) ← alphaLen id
    let sl ← sq.toNat?
    let (an, d) ← bigAnn ann
    let (rs, rest) ← bigRecs n (k + 1) rest
    pure (⟨pat a k il, seqPat k sl, (if q = "q" then some (qualPat k sl) else none), an, d⟩ :: rs, rest)
  | _, _, _ => none

def fnv64 (b : Bytes) : UInt64 := b.foldl (fun h c => (h ^^^ c.toUInt64) * 1099511628211) 14695981039346656037

def dg (b : Bytes) : String := toString b.length ++ ":" ++ String.ofList (Nat.toDigits 16 (fnv64 b).toNat)

open ObiVerif.HeaderFast in
def bigText (fm : String) (so : UInt8) (recs : List (Record JMems)) : Bytes :=
  (recs.map (fun r =>
    if fm = "fastq" then formatFastq so r.id (infoF r.ann r.defn) r.seq r.qual
    else formatFastaF r.id (infoF r.ann r.defn) r.seq ++ [10])).flatten

open ObiVerif.HeaderFast in
/-- header parser on a record of the chunk parser, annotations as values (fast decoder; `none` = fatal) -/
def bigHeader (hp : String) (defn : Bytes) : Option (Parsed JMems) :=
  let lib : Lib JMems := fun s e => (decodeObjF ((defn.drop s).take (e - s))).bind (fun full =>
    if defsAreStr full && !dupKeysM full then some (full.dropDef, full.getDef) else none)
  let obi : Bytes → Option (Parsed JMems) := ObiVerif.ObiHeader.parseFastSeqOBIHeader .nil (fun _ => none)
  if hp = "g" then parseGuessed obi .nil lib defn else parseFastSeqJsonHeader .nil lib defn

open ObiVerif.HeaderFast in
def bigRead (fm hp : String) (si : UInt8) (text : Bytes) : Except String (List (Record JMems)) :=
  match (if fm = "fastq" then parseFastqF si true text else parseFastaF text) with
  | .error e => .error (showErr e)
  | .ok rs => rs.mapM (fun rc => match bigHeader hp rc.defn with
      | some p => .ok ⟨rc.id, rc.seq, rc.qual, p.ann, p.defn⟩
      | none => .error "fatal")

def showDefBig : Option Bytes → String
  | none => "-"
  | some [] => "d"
  | some b => "d" ++ dg b

def showRecBig (r : Record JMems) : String :=
  let q := match r.qual with
    | some q => if q = [] then "none" else dg q
    | none => "none"
  s!"id={dg r.id} seq={dg r.seq} q={q} ann={digest r.ann} def={showDefBig r.defn}"

def bigRun (ws : List String) : String :=
  match ws with
  | mode :: fm :: hp :: so :: si :: n :: rest =>
    if (fm ≠ "fasta" ∧ fm ≠ "fastq") ∨ (hp ≠ "j" ∧ hp ≠ "g") then "bad-op" else
    match byte? so, byte? si, n.toNat? with
    | some so, some si, some n =>
      match bigRecs n 0 rest with
      | some (recs, []) =>
        if recs.any (fun r => !annOK r.ann) then "NOT-ANNOK" else
        if recs.any (fun r => r.seq = [] ∨ r.id = []) then "bad-op" else
        let rs : List (Record JMems) := recs.map (fun r => ⟨r.id, r.seq, r.qual, r.ann, r.defn⟩)
        let t0 := bigText fm so rs
        if mode = "rt" ∨ mode = "file" then
          match bigRead fm hp si t0 with
          | .error e => "w=" ++ dg t0 ++ " r=" ++ e
          | .ok bs => ("w=" ++ dg t0 ++ " r=" ++ toString bs.length ++ " " ++ " | ".intercalate (bs.map showRecBig)).trimAsciiEnd.toString
        else if mode.startsWith "cli" then
          -- obiconvert: chunk parser with the input offset, guessed header parser, writer with offset 33; a second pass
          -- changes nothing (theorems write_read_write_fixed_*)
          match bigRead fm "g" so t0 with
          | .error _ => "w=" ++ dg t0 ++ " t1=fatal"
          | .ok bs => "w=" ++ dg t0 ++ " t1=" ++ dg (bigText fm 33 bs) ++ " t2=eq"
        else "bad-op"
      | _ => "bad-op"
    | _, _, _ => "bad-op"
  | _ => "bad-op"

def run (line : String) : String :=
  let (main, aug) := match line.splitOn " + " with
    | [m, a] => (words m, words a)
    | _ => (words line, [])
  match main with
  | "big" :: rest => bigRun rest
  | "conc" :: rest => concRun rest aug
  | "race" :: "conc" :: rest => concRun rest aug     -- the same case replayed under the race detector
  | ["hdr", h] =>
    match aug with
    | [lib] =>
      match unhex h, parseLib lib with
      | some h, some es => hdrRun es h
      | _, _ => "bad-op"
    | _ => "bad-op"
  | ["hdrj", spec, trail] =>
    -- header = (model encoder of the annotations) ++ trail
    match aug with
    | [fl, _h, lib] =>
      match parseFloats fl, unhex trail, parseLib lib with
      | some fl, some trail, some es =>
        match parseAnn fl spec with
        | some (a, d) =>
          if !annOK a then "NOT-ANNOK" else
          let i := info goJson a d
          hdrRun es (i ++ trail) ++ " i=" ++ hex i
        | none => "bad-op"
      | _, _, _ => "bad-op"
    | _ => "bad-op"
  | ["title", fm, t] =>
    if fm ≠ "fasta" ∧ fm ≠ "fastq" then "bad-op" else
    match unhex t with
    | some t =>
      let text : Bytes := if fm = "fastq" then 64 :: t ++ [10, 97, 99, 103, 116, 10, 43, 10, 73, 73, 73, 73, 10]
                          else 62 :: t ++ [10, 97, 99, 103, 116]
      match parseText fm 33 text with
      | .error e => showErr e
      | .ok rs => (toString rs.length ++ " " ++ " | ".intercalate (rs.map showTitleRec)).trimAsciiEnd.toString
                    ++ (if fm = "fasta" then layerCheck fm 33 text rs else "")
    | none => "bad-op"
  | ["obirt", cl] =>
    -- observed only (OBI-format title annotations, outside the property): the harness records statistics, no result
    if cl.isEmpty then "bad-op" else "obs"
  | ["txt", fm, si, t] =>
    -- any text through the chunk parser (third pass); the machine = the structural reading (theorems
    -- `fasta_machine_is_structural`, `fastq_machine_is_structural`)
    if fm ≠ "fasta" ∧ fm ≠ "fastq" then "bad-op" else
    match byte? si, unhex t with
    | some si, some text =>
      match parseText fm si text with
      | .error e => showErr e
      | .ok rs => (toString rs.length ++ " " ++ " | ".intercalate (rs.map showTxtRec)).trimAsciiEnd.toString
    | _, _ => "bad-op"
  | ["q", so, si, q] =>
    match byte? so, byte? si, byte? q with
    | some so, some si, some q =>
      let text := formatFastq so [120] [] [97] (some [q])
      match parseFastq si true text with
      | .error e => showErr e
      | .ok [r] =>
        match r.qual with
        | some [v] => if v = readQ si (writeQ so q) then toString v.toNat else "LAYER-MISMATCH"
        | _ => "none"
      | .ok rs => s!"nrec={rs.length}"
    | _, _, _ => "bad-op"
  | ["obik", h] =>
    match unhex h with
    | some b =>
      match ObiVerif.ObiHeader.matchKey b with
      | some (s, e) => s!"key {s} {e}"
      | none =>
        match ObiVerif.ObiHeader.parseFastSeqOBIHeader emptyDig (fun _ => none) b with
        | some p => "nokey def=" ++ showDef p.defn
        | none => "nokey fatal"
    | none => "bad-op"
  | "cli" :: fm :: flags :: n :: rest =>
    if (fm ≠ "fasta" ∧ fm ≠ "fastq") ∨ flags.toList.any (fun c => !"zsxg-".toList.contains c) then "bad-op" else
    match n.toNat?, aug with
    | some n, [flw] =>
      match parseFloats flw with
      | some fl =>
        match parseInRecs fl n rest with
        | some (recs, []) =>
          if recs.any (fun r => r.seq = [] ∨ r.id = []) then "bad-op" else
          cliRun fm (if flags.toList.contains 'x' then 64 else 33) recs
        | _ => "bad-op"
      | none => "bad-op"
    | _, _ => "bad-op"
  | "rt" :: fm :: hp :: so :: si :: n :: rest =>
    if (fm ≠ "fasta" ∧ fm ≠ "fastq") ∨ (hp ≠ "j" ∧ hp ≠ "g") then "bad-op" else
    match byte? so, byte? si, n.toNat?, aug with
    | some so, some si, some n, flw :: aug =>
      match parseFloats flw with
      | some fl =>
        match parseInRecs fl n rest with
        | some (recs, []) =>
          -- Format*Batch(…, skipEmpty = false): `log.Fatalf("Sequence %s is empty", seq.Id())`
          if recs.any (fun r => r.seq = []) then "w=fatal" else
          match parseAug n aug with
          | some aug => rtRun fm hp so si recs aug
          | none => "bad-op"
        | _ => "bad-op"
      | none => "bad-op"
    | _, _, _, _ => "bad-op"
  | _ => "bad-op"

end ObiVerif.Driver.C02
