import ObiVerif.Model.Writer
import ObiVerif.Model.WriterFmt
import ObiVerif.Model.CsvRead
import ObiVerif.Model.JsonRead
import ObiVerif.Model.WriterWfile
import ObiVerif.Model.WriterPeek
import ObiVerif.Driver.Util
/-! line protocol for C04 (see `harness/c04.go`):

`<writer> <generator tokens…> | sh=<shift> se=<0|1> csv=<6 bits id,count,taxon,def,seq,qual> na=<hex> keys=<hex>/<hex>…|~ C <chunk>…`
with `<chunk> = <order>:<rec>;<rec>…` (arrival order), `<rec> = <id>,<seq>,<qual|~>,<info>,<ann>` (hex fields)
and `<ann>` the prefix encoding of the annotation map: `s<hex>.` string, `i[n]<digits>.` int, `t`/`f` bool,
`l<n>.` + n values, `m<n>.` + n × (`<hex key>.` value).
Paired output: ` P <chunk>…` after the chunks = the batches of the mates (same batch numbers, arrival order of the second
writer); the result then ends with ` out2=<hex of the second file>`.  JSON: the result carries ` dec=<hex>`, the compact
canonical text (`Json.encVal`) of the value the reader model `JsonRead.decodeText` decodes from the whole file
(`dec=error` when it rejects it) — the harness prints the same from what `encoding/json` decodes.

Generator tokens read by the model: `z=1` / `p=1` / `ap=<n>` / `cmd=1` (no `wr=` section then), `au=1` (CSV column
detection `obicsv --auto`: the columns are detected on the first chunk listed = the first batch delivered), `cmd=1` (paired
output through `obiconvert.CLIWriteBioSequences`: `--skip-empty` is not handed to a paired writer, `cliSkipEmpty`).
For a plain, unpaired output written to the in-memory sink the result ends with ` wr=<n>,<n>,…`: the sizes of the `Write`
calls the output received; the model runs the writers at the level of `Wfile` (`WriterWfile.fileCalls`: formatters →
re-sequencing → `bufio.Writer` of 4096 bytes → recording file), `out=` is the concatenation of these calls
(= `writeFile`, theorem `Props.C04.file_calls_concat`).

Old form (still accepted): `<writer> w=<workers> <order>:<nseq>:<hex text> …` — chunk texts as data.

Glue cases (`harness/c04_glue.go`, `Model/WriterPeek.lean`):
`glue <generator tokens…> | sh=<shift> se=<0|1> fo=<auto|fasta|fastq|json|a+b…> to=<sink|stdout|file> p=<0|1> C <batch>… [P <batch>…]`:
the batches in the order the iterator handed to `WriteSequence` / `CLIWriteBioSequences` delivers them (`P`: the batches
of the mates in the order the second writer's iterator delivers them); the model runs `WriterPeek.cliWrite` (peek +
`PushBack`, format choice, one formatting worker, re-sequencing writer) and prints `closes=<0|1> out=<hex>[ out2=<hex>]`
(`closes`, for `to=sink` only: whether a writer was started at all) or `fatal`. -/
set_option Elab.async false
namespace ObiVerif.Driver.C04
open ObiVerif.Writer ObiVerif.Driver ObiVerif.WriterFmt ObiVerif.WriterWfile

def parseChunk (s : String) : Option (Nat × Bytes) :=
  match s.splitOn ":" with
  | [o, _, h] => do
    let k ← o.toNat?
    let b ← unhex h
    pure (k, b)
  | _ => none

def runOld (w : String) (rest : List String) : String :=
  match rest.mapM parseChunk with
  | none => "bad-op"
  | some arr =>
    if w = "fasta" || w = "fastq" || w = "csv" then s!"closes=1 out={hex (writeRaw arr)}"
    else if w = "json" then s!"closes=1 out={hex (writeJson arr)}"
    else "bad-op"

/-- split at the first `.` -/
def upToDot (cs : List Char) : Option (List Char × List Char) :=
  let a := cs.takeWhile (· ≠ '.')
  match cs.dropWhile (· ≠ '.') with
  | _ :: t => some (a, t)
  | [] => none

def hexOf (cs : List Char) : Option B := if cs.isEmpty then some [] else unhexAux cs []

mutual
def parseVal : Nat → List Char → Option (Val × List Char)
  | 0, _ => none
  | fuel + 1, c :: cs =>
    if c = 's' then do
      let (a, t) ← upToDot cs
      let b ← hexOf a
      pure (.str b, t)
    else if c = 'i' then do
      let (a, t) ← upToDot cs
      match a with
      | 'n' :: ds => do let n ← (String.ofList ds).toNat?; pure (.int (-(n : Int)), t)
      | ds => do let n ← (String.ofList ds).toNat?; pure (.int n, t)
    else if c = 't' then some (.bool true, cs)
    else if c = 'f' then some (.bool false, cs)
    else if c = 'l' then do
      let (a, t) ← upToDot cs
      let n ← (String.ofList a).toNat?
      let (vs, t) ← parseVals fuel n t
      pure (.list vs, t)
    else if c = 'm' then do
      let (a, t) ← upToDot cs
      let n ← (String.ofList a).toNat?
      let (es, t) ← parseEntries fuel n t
      pure (.map es, t)
    else none
  | _ + 1, [] => none
def parseVals : Nat → Nat → List Char → Option (List Val × List Char)
  | 0, _, _ => none
  | _ + 1, 0, cs => some ([], cs)
  | fuel + 1, n + 1, cs => do
    let (v, t) ← parseVal fuel cs
    let (vs, t) ← parseVals fuel n t
    pure (v :: vs, t)
def parseEntries : Nat → Nat → List Char → Option (List (B × Val) × List Char)
  | 0, _, _ => none
  | _ + 1, 0, cs => some ([], cs)
  | fuel + 1, n + 1, cs => do
    let (a, t) ← upToDot cs
    let k ← hexOf a
    let (v, t) ← parseVal fuel t
    let (es, t) ← parseEntries fuel n t
    pure ((k, v) :: es, t)
end

def parseAnn (s : String) : Option (List (B × Val)) :=
  let cs := s.toList
  match parseVal (cs.length + 2) cs with
  | some (.map es, []) => some es
  | _ => none

def parseRec (s : String) : Option Rec :=
  match s.splitOn "," with
  | [i, sq, q, inf, a] => do
    let id ← unhex i
    let seq ← unhex sq
    let qual ← if q = "~" then some none else (unhex q).map some
    let info ← unhex inf
    let ann ← parseAnn a
    pure ⟨id, seq, qual, info, ann⟩
  | _ => none

def parseBatch (s : String) : Option (Nat × List Rec) :=
  match s.splitOn ":" with
  | [o, r] => do
    let k ← o.toNat?
    let rs ← if r = "" then some [] else (r.splitOn ";").mapM parseRec
    pure (k, rs)
  | _ => none

def kv (ws : List String) (k : String) : Option String :=
  (ws.find? (·.startsWith (k ++ "="))).map (fun s => (s.drop (k.length + 1)).toString)

def bit (s : String) (i : Nat) : Bool := (s.toList.getD i '0') = '1'

def parseCfg (w : String) (opts : List String) : Option Cfg := do
  let kind ← if w = "fasta" then some Kind.fasta else if w = "fastq" then some Kind.fastq
    else if w = "json" then some Kind.json else if w = "csv" then some Kind.csv else none
  let sh ← (← kv opts "sh").toNat?
  let se ← kv opts "se"
  let cb ← kv opts "csv"
  let na ← unhex (← kv opts "na")
  let ks ← kv opts "keys"
  let keys ← if ks = "~" then some [] else (ks.splitOn "/").mapM unhex
  pure { kind := kind, shift := UInt8.ofNat sh, skipEmpty := se = "1",
         csv := { id := bit cb 0, count := bit cb 1, taxon := bit cb 2, defn := bit cb 3, seq := bit cb 4,
                  qual := bit cb 5, na := na, keys := keys } }

def showRows (rows : List (List B)) : String :=
  if rows.isEmpty then "~" else "/".intercalate (rows.map fun r => ",".intercalate (r.map hex))

def runNew (w : String) (gen : List String) (model : List String) : String :=
  let flag := fun (k : String) => gen.contains (k ++ "=1")
  let noWr := flag "z" || flag "p" || flag "cmd" || gen.any (fun t => t.startsWith "ap=" && t != "ap=0")
  let opts := model.takeWhile (· ≠ "C")
  let afterC := (model.dropWhile (· ≠ "C")).drop 1
  let chunks := afterC.takeWhile (· ≠ "P")
  let paired := afterC.contains "P"
  let mates := (afterC.dropWhile (· ≠ "P")).drop 1
  match parseCfg w opts, chunks.mapM parseBatch, mates.mapM parseBatch with
  | some cfg0, some arr, some arr2 =>
    -- `obicsv --auto`: columns detected on the first batch delivered; command level: `--skip-empty` and paired output
    let cfg1 := if flag "au" && cfg0.kind = Kind.csv then (match arr with | a :: _ => autoCfg cfg0 a.2 | [] => cfg0) else cfg0
    let cfg := if flag "cmd" then { cfg1 with skipEmpty := cliSkipEmpty paired cfg1.skipEmpty } else cfg1
    -- plain unpaired output: the model is run at the level of `Wfile` and prints the `Write` calls the output receives
    let file : Option (B × String) :=
      if noWr then (writeFile cfg arr).map (fun o => (o, ""))
      else (fileCalls cfg bufSize arr).map (fun calls =>
        (calls.flatten, " wr=" ++ (if calls.isEmpty then "~" else ",".intercalate (calls.map fun c => toString c.length))))
    match file, (if paired then writeFile cfg arr2 else some []) with
    | some (out, wr), some out2 =>
      let tail := (if paired then s!" out2={hex out2}" else "") ++ wr
      if cfg.kind = Kind.csv then
        -- the reader model on the writer's output (compared with encoding/csv's Reader by the harness)
        let rd := match CsvRead.parse out with
          | some rows => showRows rows
          | none => "error"
        s!"closes=1 out={hex out} rows={rd}{tail}"
      else if cfg.kind = Kind.json then
        -- the JSON reader model (white-space stripper + decoder of C02) on the whole file
        let dc := match JsonRead.decodeText out with
          | some v => hex (JsonRead.showJ v)
          | none => "error"
        s!"closes=1 out={hex out} dec={dc}{tail}"
      else s!"closes=1 out={hex out}{tail}"
    | _, _ => "fatal"
  | _, _, _ => "bad-op"

/-- the glue cases: `WriteSequence` / `CLIWriteBioSequences` on the batch model -/
def runGlue (model : List String) : String :=
  let opts := model.takeWhile (· ≠ "C")
  let afterC := (model.dropWhile (· ≠ "C")).drop 1
  let chunks := afterC.takeWhile (· ≠ "P")
  let mates := (afterC.dropWhile (· ≠ "P")).drop 1
  -- `fo=auto` or the format options given on the command line, joined by `+` (`CLIOutputFormat` decides)
  let fmt : Option (Option Kind) := match kv opts "fo" with
    | some "auto" => some none
    | some f =>
      let fl := f.splitOn "+"
      if fl.all (fun x => x = "fasta" || x = "fastq" || x = "json") then
        some (WriterPeek.outputFormat (fl.contains "fastq") (fl.contains "fasta") (fl.contains "json"))
      else none
    | none => none
  match (kv opts "sh").bind String.toNat?, kv opts "se", fmt, kv opts "to", kv opts "p", chunks.mapM parseBatch,
      mates.mapM parseBatch with
  | some sh, some se, some format, some to, some p, some arr, some arr2 =>
    let c : WriterPeek.Cli := { format := format, toFile := to = "file", paired := p = "1", skipEmpty := se = "1",
                                shift := UInt8.ofNat sh }
    let r := WriterPeek.cliWrite c (arr.map fun a => (a.1, a.2.map fun r => (r, r)))
      (arr2.map fun a => (a.1, a.2.map fun r => (r, r)))
      (WriterPeek.soloSched (arr.length + 1)) (WriterPeek.soloSched (arr2.length + 1))
    let closes := if to != "sink" then "" else if format.isNone && arr.isEmpty then "closes=0 " else "closes=1 "
    match r with
    | (some out, none) => s!"{closes}out={hex out}"
    | (some out, some (some out2)) => s!"{closes}out={hex out} out2={hex out2}"
    | _ => "fatal"
  | _, _, _, _, _, _, _ => "bad-op"

def run (line : String) : String :=
  match words line with
  | "glue" :: rest =>
    if rest.contains "|" then runGlue ((rest.dropWhile (· ≠ "|")).drop 1) else "bad-op"
  | w :: rest =>
    if rest.contains "|" then runNew w (rest.takeWhile (· ≠ "|")) ((rest.dropWhile (· ≠ "|")).drop 1)
    else match rest with
      | _ :: chunks => runOld w chunks
      | [] => "bad-op"
  | _ => "bad-op"

end ObiVerif.Driver.C04
