import ObiVerif.Model.Writer
import ObiVerif.Driver.Util
/-! line protocol for C04: `<writer> w=<workers> <order>:<nseq>:<hex text> …` (arrival order) -/
namespace ObiVerif.Driver.C04
open ObiVerif.Writer ObiVerif.Driver

def parseChunk (s : String) : Option (Nat × Bytes) :=
  match s.splitOn ":" with
  | [o, _, h] => do
    let k ← o.toNat?
    let b ← unhex h
    pure (k, b)
  | _ => none

def run (line : String) : String :=
  match words line with
  | w :: _ :: rest =>
    match rest.mapM parseChunk with
    | none => "bad-op"
    | some arr =>
      -- with several formatting workers the arrival order is not controlled by the harness: the
      -- theorems say the output does not depend on it, so the model answers for the listed order
      if w = "fasta" || w = "fastq" || w = "csv" then s!"closes=1 out={hex (writeRaw arr)}"
      else if w = "json" then s!"closes=1 out={hex (writeJson arr)}"
      else "bad-op"
  | _ => "bad-op"

end ObiVerif.Driver.C04
