import ObiVerif.Model.Demux
import ObiVerif.Model.NgsFilter
import ObiVerif.Model.NgsFilterBytes
import ObiVerif.Model.DemuxState
import ObiVerif.Driver.Util
/-! line protocol for C12

```
ham <a> <b>                                   Hamming
lev <a> <b>                                   Levenshtein
look <seq> <delim>                            lookForTag
rescue <seq> <delim> <taglen> <border> <indel>  lookForRescueTag
demux <fmt> <style> <e> <indel> <K>
      K × [ <fp> <rp> <fsp> <rsp> <fdl> <rdl> <fin> <rin> <mode> <ferr> <rerr> <fpi> <rpi> <ns>
            ns × [ <ftag> <rtag> <sample> <experiment> <extra> ] ]
      <id> <seq>
      cls <class> exp <n> n × [ 10 tokens ]    (generator's intent: ignored by the model)
      hits K × [ 4 × ( <n> n × [ <begin> <end> <mismatches> ] ) ]
```
multi <keep> <unid> <fmt> <style> <e> <indel> <K> K × [ marker ] <N> N × [ <id> <seq> ] hits N × K × [ 4 hit lists ]
      a history of N reads on one library and the obimultiplex stage (--keep-errors, -u); result
      `H <res 1> @@ … || out <rec> ## … || unid <id>|<seq>|<error> ## …`
sheet c <style> <nrec> nrec × [ <nf> nf × <field> ]   ReadNGSFilter on the CSV records (fields in hex)
sheet o <nlines> nlines × <line>                     ReadNGSFilter on the lines of an old-format sheet
sheetb <text>                                        ReadNGSFilter on the BYTES of a sheet (either format; `unmodelled`
                                                     = a CSV field starting with a double quote)
wk <K> K × [ marker ] W <n> n × [ <e> <indel> ]      n workers built one after the other on ONE library object:
                                                     `<fp> <rp> ferr rerr fpi rpi` of every marker after each (` >> `)
```
[race] conc <g> <r> <entry w|d> <bs> <fmt> <style> <e> <indel> <K> K × [ marker ] <N> N × [ <id> <seq> ] hits N × K × [ 4 hit lists ]
                                                     the N reads demultiplexed ALONE, in order, on one library object:
                                                     `H <res 1> @@ … @@ <res N>`; the harness then sends the same reads
                                                     through a second library from g goroutines (r rounds; entry w = the
                                                     slice worker on batches of bs reads, d = ExtractMultiBarcode) and
                                                     demands these answers from every call (`race`: under the race detector)
byte strings in hex (`-` = empty).  Result: `sheet-error`, `panic`, `fatal` or
`ok <n> ## <id>|<seq>|k=v;k=v… ## …` with the annotations sorted by key; for `sheet`:
`ok <K> ## <fp> <rp> fsp rsp fdl rdl fin rin fmode rmode ferr rerr fpi rpi ftl rtl <ns> <ftag>:<rtag>=<sample>/<exp>[k=v,…] … ## …`
(markers sorted by primers, samples by tags, annotation keys sorted, every text in hex). -/
namespace ObiVerif.Driver.C12
open ObiVerif.Demux ObiVerif.Driver

abbrev P := StateT (List String) Option

def tok : P String := fun s => match s with | [] => none | t :: r => some (t, r)
def pNat : P Nat := do let t ← tok; (t.toNat? : Option Nat)
def pInt : P Int := do let t ← tok; (t.toInt? : Option Int)
def pHex : P (List UInt8) := do let t ← tok; (unhex t : Option _)
def pStr : P String := do let b ← pHex; pure (str b)
def pLit (w : String) : P Unit := do let t ← tok; if t = w then pure () else failure

def rep {α} (p : P α) : Nat → P (List α)
  | 0 => pure []
  | n + 1 => do let a ← p; let r ← rep p n; pure (a :: r)

def pMode : P Mode := do
  let t ← tok
  match t with
  | "s" => pure .strict | "h" => pure .hamming | "i" => pure .indel | _ => failure

def pSample : P Sample := do
  let f ← pHex; let r ← pHex; let n ← pStr; let e ← pStr; let x ← pHex
  pure ⟨f, r, n, e, if x.isEmpty then [] else [("note", str x)]⟩

/-- a marker as declared; the tag lengths are filled by `checkTagLength` (none = sheet rejected) -/
def pMarker : P ((String × String) × Option Marker) := do
  let fp ← pStr; let rp ← pStr
  let fsp ← pInt; let rsp ← pInt
  let fdl ← pNat; let rdl ← pNat
  let fin ← pInt; let rin ← pInt
  let mode ← pMode
  let _ ← pInt; let _ ← pInt; let _ ← pNat; let _ ← pNat
  let ns ← pNat
  let samples ← rep pSample ns
  match checkTagLength samples, noDupPairs samples with
  | some (fl, rl), true =>
    pure ((fp, rp), some ⟨fp, rp, fl, rl, fsp, rsp, UInt8.ofNat fdl, UInt8.ofNat rdl, fin, rin, mode, mode, samples⟩)
  | _, _ => pure ((fp, rp), none)

def pTriple : P (Int × Int × Int) := do
  let b ← pInt; let e ← pInt; let k ← pInt; pure (b, e, k)

def pHitList : P (List (Int × Int × Int)) := do let n ← pNat; rep pTriple n

def pHits : P Hits := do
  let f ← pHitList; let cr ← pHitList; let r ← pHitList; let cf ← pHitList
  pure ⟨f, cr, r, cf⟩

def insSorted (p : String × String) : List (String × String) → List (String × String)
  | [] => [p]
  | x :: xs => if p.1 ≤ x.1 then p :: x :: xs else x :: insSorted p xs

def showRecord (r : Record) : String :=
  let an := r.annots.foldr insSorted []
  r.id ++ "|" ++ hex r.seq ++ "|" ++ ";".intercalate (an.map (fun p => p.1 ++ "=" ++ p.2))

def showResult : R (List Record) → String
  | .error .panic => "panic"
  | .error .fatal => "fatal"
  | .ok rs => "ok " ++ toString rs.length ++ " ## " ++ " ## ".intercalate (rs.map showRecord)

def pDemux : P String := do
  let _ ← tok; let _ ← pNat; let _ ← pInt; let _ ← pNat
  let k ← pNat
  let markers ← rep pMarker k
  let id ← pStr
  let seq ← pHex
  pLit "cls"
  let _ ← tok
  pLit "exp"
  let n ← pNat
  let _ ← rep tok (10 * n)
  pLit "hits"
  let hits ← rep pHits k
  let rest ← get
  if !rest.isEmpty then failure
  if !primerUnicity (markers.map (·.1)) then pure "sheet-error" else
  match markers.mapM (·.2) with
  | none => pure "sheet-error"
  | some ms => pure (showResult (extractMultiBarcode ms id seq hits))

/-! ## histories of reads on one library + the obimultiplex stage -/

def showUnid (r : Record) : String :=
  r.id ++ "|" ++ hex r.seq ++ "|" ++ (r.annots.get? "obimultiplex_error").getD ""

def pRead : P (String × List UInt8) := do let id ← pStr; let s ← pHex; pure (id, s)

def pMulti : P String := do
  let keep ← pNat; let unid ← pNat
  let _ ← tok; let _ ← pNat; let _ ← pInt; let _ ← pNat
  let k ← pNat
  let markers ← rep pMarker k
  let n ← pNat
  let reads ← rep pRead n
  pLit "hits"
  let hits ← rep (rep pHits k) n
  let rest ← get
  if !rest.isEmpty then failure
  if !primerUnicity (markers.map (·.1)) then pure "sheet-error" else
  match markers.mapM (·.2) with
  | none => pure "sheet-error"
  | some ms =>
    let rds := (reads.zip hits).map (fun (r, h) => (r.1, r.2, h))
    -- the history goes through the state-passing model of the library object (Model/DemuxState.lean): one object, the
    -- reads in order; the matcher is the parameter `scan` = the hit lists of the real calls, found by (read, marker)
    let lms : List NgsFilter.LMarker := ms.map (fun m =>
      { fp := m.fprimer, rp := m.rprimer, fsp := m.fspacer, rsp := m.rspacer, fdl := m.fdelim, rdl := m.rdelim,
        fin := m.findels, rin := m.rindels, fmode := m.fmode, rmode := m.rmode, samples := m.samples })
    let st := DemuxState.mkWorker 0 false (DemuxState.fresh lms)
    let noHits : Hits := ⟨[], [], [], []⟩
    let scan : DemuxState.Scan := fun fp rp _ seq =>
      match rds.find? (fun rd => rd.2.1 == seq) with
      | none => noHits
      | some rd =>
        match (ms.zip rd.2.2).find? (fun p => p.1.fprimer == fp && p.1.rprimer == rp) with
        | some p => p.2
        | none => noHits
    let each := (DemuxState.runHistory scan st (rds.map (fun rd => (rd.1, rd.2.1)))).1
    let h := "H " ++ " @@ ".intercalate (each.map showResult)
    match obimultiplex ms (keep == 1) (unid == 1) rds with
    | .error _ => pure (h ++ " || abort")
    | .ok rt =>
      let u := match rt.unidentified with
        | none => "-"
        | some us => " ## ".intercalate (us.map showUnid)
      pure (h ++ " || out " ++ " ## ".intercalate (rt.out.map showRecord) ++ " || unid " ++ u)

/-! ## the reads of a `conc` case, each alone (what every concurrent call must answer) -/

def pConc : P String := do
  let g ← pNat; let r ← pNat
  let entry ← tok
  let bs ← pNat
  if g == 0 || r == 0 || bs == 0 || !(entry == "w" || entry == "d") then failure
  let _ ← tok; let _ ← pNat; let _ ← pInt; let _ ← pNat
  let k ← pNat
  let markers ← rep pMarker k
  let n ← pNat
  if n == 0 then failure
  let reads ← rep pRead n
  pLit "hits"
  let hits ← rep (rep pHits k) n
  let rest ← get
  if !rest.isEmpty then failure
  if !primerUnicity (markers.map (·.1)) then pure "sheet-error" else
  match markers.mapM (·.2) with
  | none => pure "sheet-error"
  | some ms =>
    let rds := (reads.zip hits).map (fun (r, h) => (r.1, r.2, h))
    -- the same state-passing model of the library object as the `multi` histories (Model/DemuxState.lean): by
    -- Props/C12S.lean read_independence the answer of each read is its answer alone on the initial state, which is what
    -- the harness demands from every concurrent call
    let lms : List NgsFilter.LMarker := ms.map (fun m =>
      { fp := m.fprimer, rp := m.rprimer, fsp := m.fspacer, rsp := m.rspacer, fdl := m.fdelim, rdl := m.rdelim,
        fin := m.findels, rin := m.rindels, fmode := m.fmode, rmode := m.rmode, samples := m.samples })
    let st := DemuxState.mkWorker 0 false (DemuxState.fresh lms)
    let noHits : Hits := ⟨[], [], [], []⟩
    let scan : DemuxState.Scan := fun fp rp _ seq =>
      match rds.find? (fun rd => rd.2.1 == seq) with
      | none => noHits
      | some rd =>
        match (ms.zip rd.2.2).find? (fun p => p.1.fprimer == fp && p.1.rprimer == rp) with
        | some p => p.2
        | none => noHits
    let each := (DemuxState.runHistory scan st (rds.map (fun rd => (rd.1, rd.2.1)))).1
    pure ("H " ++ " @@ ".intercalate (each.map showResult))

/-! ## the sample sheet as read -/

def insBy {α} (le : α → α → Bool) (x : α) : List α → List α
  | [] => [x]
  | y :: ys => if le x y then x :: y :: ys else y :: insBy le x ys

def sortBy {α} (le : α → α → Bool) (l : List α) : List α := l.foldr (insBy le) []

def hexS (s : String) : String := hex s.toUTF8.toList

def showSample (s : Sample) : String :=
  let an := sortBy (fun a b => decide (a ≤ b)) (s.annots.map (fun p => hexS p.1 ++ "=" ++ hexS p.2))
  hex s.ftag ++ ":" ++ hex s.rtag ++ "=" ++ hexS s.name ++ "/" ++ hexS s.experiment ++
    "[" ++ ",".intercalate an ++ "]"

def b01 (b : Bool) : String := if b then "1" else "0"

def showLMarker (m : NgsFilter.LMarker) : String :=
  let (fl, rl) := match checkTagLength m.samples with | some p => p | none => (0, 0)
  let smp := sortBy (fun a b => decide (a ≤ b)) (m.samples.map showSample)
  joinSp ([hexS m.fp, hexS m.rp, toString m.fsp, toString m.rsp, toString m.fdl.toNat, toString m.rdl.toNat,
    toString m.fin, toString m.rin, modeName m.fmode, modeName m.rmode, toString m.ferr, toString m.rerr,
    b01 m.fpi, b01 m.rpi, toString fl, toString rl, toString m.samples.length] ++ smp)

def showLib : NgsFilter.M NgsFilter.Lib → String
  | .error .sheetError => "sheet-error"
  | .error .fatal => "fatal"
  | .error .panic => "panic"
  | .ok lib =>
    let ms := sortBy (fun a b => decide (a ≤ b)) (lib.map showLMarker)
    "ok " ++ toString lib.length ++ (ms.foldl (fun acc x => acc ++ " ## " ++ x) "")

def pText : P String := do let b ← pHex; pure (String.ofList (b.map (fun c => Char.ofNat c.toNat)))

def pRecord : P (List String) := do let n ← pNat; rep pText n

def pSheet : P String := do
  let f ← tok
  match f with
  | "c" =>
    let _ ← pNat
    let n ← pNat
    let recs ← rep pRecord n
    let rest ← get
    if !rest.isEmpty then failure
    pure (showLib (NgsFilter.readSheetCsv recs))
  | "o" =>
    let n ← pNat
    let lines ← rep pText n
    let rest ← get
    if !rest.isEmpty then failure
    pure (showLib (NgsFilter.readSheetOld lines))
  | _ => failure

/-! ## the sheet from its bytes; worker constructions on one library object -/

def pSheetB : P String := do
  let text ← pHex
  let rest ← get
  if !rest.isEmpty then failure
  match NgsFilterBytes.readSheetBytes text with
  | none => pure "unmodelled"
  | some r => pure (showLib r)

/-- a marker with the parameters the worker options write -/
def pMarkerW : P NgsFilter.LMarker := do
  let fp ← pStr; let rp ← pStr
  let _ ← pInt; let _ ← pInt; let _ ← pNat; let _ ← pNat; let _ ← pInt; let _ ← pInt
  let _ ← pMode
  let ferr ← pInt; let rerr ← pInt; let fpi ← pNat; let rpi ← pNat
  let ns ← pNat
  let _ ← rep pSample ns
  pure { fp := fp, rp := rp, ferr := ferr, rerr := rerr, fpi := fpi == 1, rpi := rpi == 1 }

def pWk : P String := do
  let k ← pNat
  let ms ← rep pMarkerW k
  pLit "W"
  let n ← pNat
  let ws ← rep (do let e ← pInt; let i ← pNat; pure (e, i == 1)) n
  let rest ← get
  if !rest.isEmpty then failure
  let showM (m : NgsFilter.LMarker) : String :=
    joinSp [hexS m.fp, hexS m.rp, toString m.ferr, toString m.rerr, b01 m.fpi, b01 m.rpi]
  let showL (l : NgsFilter.Lib) : String := " ## ".intercalate (sortBy (fun a b => decide (a ≤ b)) (l.map showM))
  pure (" >> ".intercalate ((DemuxState.runWorkers (DemuxState.fresh ms) ws).map showL))

def run (line : String) : String :=
  match words line with
  | ["ham", a, b] =>
    match unhex a, unhex b with
    | some a, some b => toString (hamming a b)
    | _, _ => "bad-op"
  | ["lev", a, b] =>
    match unhex a, unhex b with
    | some a, some b => toString (levenshtein a b)
    | _, _ => "bad-op"
  | ["look", s, d] =>
    match unhex s, d.toNat? with
    | some s, some d => hex (lookForTag s (UInt8.ofNat d))
    | _, _ => "bad-op"
  | ["rescue", s, d, t, b, i] =>
    match unhex s, d.toNat?, t.toInt?, b.toInt?, i.toInt? with
    | some s, some d, some t, some b, some i =>
      match lookForRescueTag s (UInt8.ofNat d) t b i with
      | .ok x => "ok " ++ hex x
      | .error .panic => "panic"
      | .error .fatal => "fatal"
    | _, _, _, _, _ => "bad-op"
  | "demux" :: rest =>
    match pDemux.run rest with
    | some (r, _) => r
    | none => "bad-op"
  | "multi" :: rest =>
    match pMulti.run rest with
    | some (r, _) => r
    | none => "bad-op"
  | "sheet" :: rest =>
    match pSheet.run rest with
    | some (r, _) => r
    | none => "bad-op"
  | "sheetb" :: rest =>
    match pSheetB.run rest with
    | some (r, _) => r
    | none => "bad-op"
  | "wk" :: rest =>
    match pWk.run rest with
    | some (r, _) => r
    | none => "bad-op"
  | "conc" :: rest =>
    match pConc.run rest with
    | some (r, _) => r
    | none => "bad-op"
  | "race" :: "conc" :: rest =>
    match pConc.run rest with
    | some (r, _) => r
    | none => "bad-op"
  | _ => "bad-op"

end ObiVerif.Driver.C12
