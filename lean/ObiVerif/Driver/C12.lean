/-! line protocol for C12 (stub: no model yet) -/
namespace ObiVerif.Driver.C12

def run (_line : String) : String := "bad-op"

end ObiVerif.Driver.C12
