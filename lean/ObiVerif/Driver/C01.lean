import ObiVerif.Model.Chunk
import ObiVerif.Model.Fasta
import ObiVerif.Model.Fastq
import ObiVerif.Model.FlatFile
import ObiVerif.Model.Sniff
import ObiVerif.Model.ReadGlueCli
import ObiVerif.Driver.Util
/-! line protocol for C01 (see harness/c01.go for the ops) -/
namespace ObiVerif.Driver.C01
open ObiVerif.Chunk ObiVerif.Parse ObiVerif.Driver

def splitterOf (n : String) : Option (Seq → Int) :=
  match n with
  | "fa" => some splitFasta
  | "fq" => some splitFastq
  | "ff" => some splitFlat
  | _ => none

/-- (splitter, chunk parser) of a format name -/
def formatOf (n : String) : Option ((Seq → Int) × (Seq → Except Fatal (List Rec))) :=
  match n with
  | "fa" => some (splitFasta, parseFasta)
  | "fq1" => some (splitFastq, parseFastq 33 true)
  | "fq0" => some (splitFastq, parseFastq 33 false)
  | "gb0" => some (splitFlat, parseGenbank false)
  | "gb1" => some (splitFlat, parseGenbank true)
  | "em0" => some (splitFlat, parseEmbl false)
  | "em1" => some (splitFlat, parseEmbl true)
  | _ => none

def showRec (r : Rec) : String :=
  let q := match r.qual with
    | some q => if q.isEmpty then "-" else hex q
    | none => "-"
  let base := s!"{hex r.id}:{hex r.defn}:{hex r.seq}:{q}"
  let nd := if r.defn.isEmpty then 0 else 1
  match r.flat with
  | some (t, sci, feat) => s!"{base}:{t}:{hex sci}:{hex feat}#{nd + 2}"
  | none => s!"{base}#{nd}"

def showRecs (rs : List Rec) : String := if rs.isEmpty then "none" else joinSp (rs.map showRec)

def showOutcome : Except Fatal (List Rec) → String
  | .ok rs => showRecs rs
  | .error .fatal => "fatal"
  | .error .panic => "panic"

/-- every chunk through the parser, in chunk order; a panic in any chunk wins over a fatal -/
def pipeResult (parse : Seq → Except Fatal (List Rec)) (cs : List Seq) : String :=
  let rs := cs.map parse
  if rs.any (fun r => match r with | .error .panic => true | _ => false) then "panic"
  else if rs.any (fun r => match r with | .error _ => true | _ => false) then "fatal"
  else showRecs (rs.flatMap fun r => match r with | .ok l => l | .error _ => [])

/-! ### glue pass: several input files (`mread`, `cli`, `cmd` of harness/c01_glue.go) -/

/-- `key=<nat>` -/
def kvNat? (key tok : String) : Option Nat :=
  match tok.splitOn "=" with
  | [k, v] => if k == key then v.toNat? else none
  | _ => none

def kvStr? (key tok : String) : Option String :=
  match tok.splitOn "=" with
  | [k, v] => if k == key then some v else none
  | _ => none

/-- number of records of an input token `<kind>:<nrec>:…` (`empty`: none) -/
def glueNrec (tok : String) : Option Nat :=
  if tok == "empty" then some 0 else
  match tok.splitOn ":" with
  | _ :: n :: _ => n.toNat?
  | _ => none

/-- (inputs, `k=` batches of each file, `t=` file of the batch numbered 0, 1, 2, … with the unattributed empty batches
removed, number of batches) -/
def glueObs (rest : List String) : Option (List Nat × List Nat × List Nat × Nat) := do
  let specs := rest.filter fun t => !(t.startsWith "k=" || t.startsWith "t=")
  let nrecs ← specs.mapM glueNrec
  let kTok ← rest.find? (·.startsWith "k=")
  let tTok ← rest.find? (·.startsWith "t=")
  let kS ← kvStr? "k" kTok
  let tS ← kvStr? "t" tTok
  let ks ← (kS.splitOn ",").mapM String.toNat?
  let toks := if tS == "-" then [] else tS.splitOn ","
  let tr ← (toks.filter (· != "e")).mapM String.toNat?
  if ks.length != nrecs.length then none else
  some (nrecs, ks, tr, toks.length)

/-- the observation replayed on the transition system of `ReadSequencesBatchFromFiles` with `nreader` readers -/
def glueVerdict (nreader : Nat) (obs : List Nat × List Nat × List Nat × Nat) : String :=
  let (nrecs, ks, tr, nb) := obs
  -- a file without record delivers no batch
  if (nrecs.zip ks).any (fun p => p.1 == 0 && p.2 != 0) then "illegal-trace" else
  match ObiVerif.ReadGlueCli.replay ks nreader tr with
  | some _ => s!"ok {nb} {nrecs.sum}"
  | none => "illegal-trace"

def run (line : String) : String :=
  match words line with
  | ["split", f, h] =>
    match splitterOf f, unhex h with
    | some sp, some d => toString (sp d)
    | _, _ => "bad-op"
  | ["chunks", f, b, h] =>
    match splitterOf f, b.toNat?, unhex h with
    | some sp, some b, some d =>
      if b < 2 then "bad-op" else
      match chunks sp b d with
      | none => "hang"
      | some cs => if cs.isEmpty then "none" else joinSp (cs.map hex)
    | _, _, _ => "bad-op"
  | ["parse", f, h] =>
    match formatOf f, unhex h with
    | some (_, p), some d => showOutcome (p d)
    | _, _ => "bad-op"
  | ["pipe", f, b, w, tr, h] =>
    match formatOf f, b.toNat?, w.toNat?, unhex h with
    | some (sp, p), some b, some w, some d =>
      if b < 2 || w < 1 || w > 8 || !(["bytes", "pipe", "one", "gz"].contains tr) then "bad-op" else
      match chunks sp b d with
      | none => "hang"
      | some cs => pipeResult p cs
    | _, _, _, _ => "bad-op"
  | ["big", f, w, tr, n, s] =>
    -- oracle-only case (real Read* entry points on a generated multi-chunk file): the expected outcome
    match formatOf f, w.toNat?, n.toNat?, s.toNat? with
    | some _, some w, some n, some _ =>
      if w < 1 || n < 1 || !(["bytes", "pipe", "one", "gz"].contains tr) then "bad-op"
      else s!"ok {n}"
    | _, _, _, _ => "bad-op"
  | ["file", f, tr, h] =>
    -- oracle-only case (the universal entry point ReadSequencesFromFile on a real file)
    match unhex h with
    | some _ =>
      if (f == "fa" || f == "fq1" || f == "gb0" || f == "em0") && (tr == "plain" || tr == "gz") then "same"
      else "bad-op"
    | none => "bad-op"
  | ["sniff", tr, h, mime] =>
    -- Ropen + OBIMimeTypeGuesser on a real file; `mime` = what the real code guessed (appended by the harness)
    match unhex h with
    | some d =>
      if !(tr == "plain" || tr == "gz") then "bad-op" else
      -- gz: the harness compresses `d`; the opener decompresses (gzip layer trusted): the payload is `d`
      let compressed := tr == "plain" && ObiVerif.Sniff.magic d != .plain
      let g := if compressed then ObiVerif.Sniff.Mime.other else ObiVerif.Sniff.guess (ObiVerif.Sniff.stripBOM d)
      if ["text/fasta", "text/fastq", "text/ecopcr2", "text/genbank", "text/embl"].contains mime then
        if g.name == mime then s!"ok {mime}" else s!"MISMATCH model={g.name}"
      -- anything else (text/csv, text/plain, application/octet-stream, empty file, a built-in detector of the
      -- library, an error of the opener): csv and the built-in detectors are asked AFTER the five, none of the five
      -- may have fired
      else if g == .other then "ok other" else s!"MISMATCH model={g.name}"
    | none => "bad-op"
  | ["pair", hf, hr] =>
    -- paired reading (PairTo is modelled and proved by C03): as many pairs as records, both files well-formed
    match unhex hf, unhex hr with
    | some f, some r =>
      match parseFastq 33 true f, parseFastq 33 true r with
      | .ok a, .ok b => if a.length == b.length && a.length > 0 then s!"paired {a.length}" else "bad-op"
      | _, _ => "bad-op"
    | _, _ => "bad-op"
  | ["kseq", f, h] =>
    -- oracle-only case (two-parser agreement)
    match unhex h with
    | some _ => if f == "fa" || f == "fq" then "agree" else "bad-op"
    | none => "bad-op"
  | "mread" :: r :: sy :: rest =>
    match kvNat? "r" r, kvNat? "sync" sy, glueObs rest with
    | some nr, some _, some obs => if nr < 1 then "bad-op" else glueVerdict nr obs
    | _, _, _ => "bad-op"
  | "cli" :: rw :: pf :: cpu :: _m :: o :: _p :: rest =>
    match kvNat? "rw" rw, kvNat? "pf" pf, kvNat? "cpu" cpu, kvNat? "o" o, glueObs rest with
    | some rw, some pf, some cpu, some o, some obs =>
      let (nrecs, ks, tr, nb) := obs
      if nrecs.length == 1 then
        -- one file: the iterator of the reader itself (batches 0 … k-1 of that file; `--paired-with`: paired one to one)
        if tr.all (· == 0) && tr.length == ks.sum then s!"ok {nb} {nrecs.sum}" else "illegal-trace"
      else glueVerdict (ObiVerif.ReadGlueCli.nReader ⟨rw, pf, cpu, o == 1⟩) obs
    | _, _, _, _, _ => "bad-op"
  | "cmd" :: _tool :: _cpu :: _m :: _o :: rest =>
    match rest.mapM glueNrec with
    | some nrecs => s!"exit0 {nrecs.sum}"
    | none => "bad-op"
  | _ => "bad-op"

end ObiVerif.Driver.C01
