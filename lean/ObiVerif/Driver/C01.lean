/-! line protocol for C01 (stub: no model yet) -/
namespace ObiVerif.Driver.C01

def run (_line : String) : String := "bad-op"

end ObiVerif.Driver.C01
