import ObiVerif.Model.Tag
import ObiVerif.Model.TagSel
import ObiVerif.Model.TagV
import ObiVerif.Model.TagTV
import ObiVerif.Model.TagSetup
import ObiVerif.Model.TagStored
import ObiVerif.Driver.Util
/-!
line protocol for C15 (see `harness/c15.go`)

```
cw  A B                          -> n
fc1|fc2 Q R1,R2,… | o1,o2,… l1:a1,l2:a2,…                     -> maxe num/den bestmatch idx,idx,…  | panic
ix  s R1,… T1,… id:parent,… | o… l:a…                          -> d:taxid@name@rank …              | empty
id1|id2 Q R1,… T1,… id:parent,… | o… l:a… | o… l:a… | …        -> taxid bestmatch count
sl1|sl2 Q R1,… T1,… id:parent,… I1;I2;… | o… l:a…              -> taxid bestmatch count | panic | hang | fatal
id3 Q R1,… T1,… id:parent,… H C1,… | C i,i,… | row | row … | F f i,i,… | row | row … | …
                                                                -> taxid bestmatch weight exact|lcs
```
`id3` = `obitag2.CLIAssignTaxonomy` + `Identify` : `H` = one `0/1` per reference (`reffamidx_clusterhead`), `Ck` = `Count()`;
section `C` lists the cluster heads (indices of references), followed by the row of the query against them and one row
per cluster head against them; each section `F f members` is followed by the same rows for the family of taxid `f`.
```
```
`Ij` = the index given to reference j: `k=hex(text),k=hex(text),…`, `_` = empty map, `-` = nil (sl2: `log.Fatalf`).
The names and ranks of the taxa are those the harness gives: `nameOf`, `rankOf` below.  `id*` run the verbatim
selection loop on the TEXT of the indices built by the model of `IndexSequence` (`identifyText`).
```
qg A maxlen / qgn A k                                           -> count minslack sumslack
```
```
fv1|fv2 Q R1,… | o…                       -> as fc   (findClosestsV: every kernel call VERBATIM, nothing measured)
iv  s R1,… T1,… id:parent,… | o…          -> as ix   (indexSequenceV)
dv1|dv2 Q R1,… T1,… id:parent,… | o… | o… | …  -> as id   (identifyTextV: findClosestsV + indexSequenceV + text selection loop)
iv3 Q R1,… T1,… id:parent,… H C1,… | C i,… | o… | o… … | F f i,… | o… | …  -> as id3 (identify2V)
```
```
conc g r R1,… T1,… id:parent,… Q1,…,Qn j1,…,jk | o(Q1) | … | o(Qn) | o(R0) | … | o(Rm-1)
       -> fc1(Q1) ; fc2(Q1) ; id1(Q1) ; id2(Q1) ; … ; fc1(Qn) ; … ; id2(Qn) ; ix(j1) ; … ; ix(jk)
race conc …                        -> the same (the harness replays the case under the Go race detector)
```
`conc` = the answers of the searches / identifications / indexings run ONE AFTER THE OTHER on one data base (what the
harness then repeats from `g` goroutines sharing the data base, `r` rounds): `findClosestsV` (both variants),
`identifyText` on `findClosestsV` and on the text of the indices `indexSequenceV` builds (the unfolded body of
`identifyTextV`, the index of each reference being computed at most once), `indexSequenceV` — every kernel call
verbatim, only the candidate orders of the real sort are data.
the `*v` operations get NOTHING from the real kernels: only the candidate order(s) of the real (unstable) sort; the
model runs the verbatim `FastLCSEGFScoreByte` (shared scratch buffer), `D1Or0`, byte comparison of `Model/TagV.lean`
itself — ambiguity codes included (the verbatim kernels are transcriptions, not readings).
```
cl1 Q1,… R1,… T1,… id:parent,… old:new,…|_ | o(Q1) | … | o(Qn) | o(K0) | … | o(Km-1)
                                   -> taxid bestmatch count ; …  | panic         (obitag.CLIAssignTaxonomy, `cliAssign1`)
rx  R1,… T1,… id:parent,… old:new,…|_ | o(K0) | … | o(Km-1)   -> r<i> index ; …  | none   (obirefidx.IndexReferenceDB)
s2  R1,… T1,… id:parent,… old:new,…|_                          -> ok | panic     (set-up of obitag2.CLIAssignTaxonomy)
fw  R1,… T1,… id:parent,… old:new,…|_ i:j,i:-,… | o(member 0) | …   -> index ; … | err | panic
                                                               (obirefidx.MakeIndexingSliceWorker, `sliceWorkerSetup`)
```
glue pass (`Model/TagStored.lean`): `cl1 … ix=I1;I2;…` / `rx … ix=I1;I2;…` = the same commands on records that ALREADY
carry an `obitag_ref_index` attribute (`Ii` as in `sl1`: `k=hex(text),…`, `_` = empty map, `-` = no attribute), one per
record of the FILE: `refidxOutI` (never looks at it), `cliAssign1I` (a stored index is used as is).
round 4, the set-up code (`Model/TagSetup.lean`): `Ti` = the `taxid` attribute of record i (`0` = no attribute), it may be
absent from the taxonomy (record dropped by obitag / obirefidx) or an alias (`old:new`).  The model decides ITSELF which
records are kept (verbatim compaction loops) and builds the parallel arrays; the searches read the 4-mer tables from the
array built by the set-up (`findClosestsVC`, `indexSequenceVC`), the candidate orders (over the KEPT list, positions
in it) are the only data.  `bestmatch` / `r<i>` are positions in the FILE.  `fw`: member `i:j` = record i of the data
base carrying the id attribute j (`-` = none); the tables are those of the whole data base, fetched through j.
`-` = empty sequence, `_` = empty list.  After ` | ` : the candidate order of the code and the unbounded
`lcs:alilength` of each reference (one section for the query, then one per indexed reference for `id*`).
Lengths and shared 4-mer counts are recomputed here from the sequences.
-/
namespace ObiVerif.Driver.C15
open ObiVerif.Tag ObiVerif.Driver
open ObiVerif.Kmer (Bytes)
open ObiVerif.Lcs (Err)

def listOf {α : Type} (f : String → Option α) (s : String) : Option (List α) :=
  if s = "_" then some [] else (s.splitOn ",").mapM f

def pairOf (s : String) : Option (Nat × Nat) :=
  match s.splitOn ":" with
  | [a, b] => do
    let a ← a.toNat?
    let b ← b.toNat?
    pure (a, b)
  | _ => none

def getCand (l : List Cand) (i : Nat) : Cand := l.getD i ⟨0, 0, 0, 0⟩

/-- one scan: the candidates of `refs` seen from `q`, with the measured `lcs:ali` -/
def mkCands (q : Bytes) (refs : List Bytes) (la : List (Nat × Nat)) : List Cand :=
  let cq := Kmer.count4mer q
  (refs.zip la).map fun (r, p) => ⟨r.length, common4mer cq (Kmer.count4mer r), p.1, p.2⟩

/-- is `o` a permutation of `0..n-1` sorted by non-increasing shared count? (what the theorems assume) -/
def orderOk (cs : List Cand) (o : List Nat) : Bool :=
  o.length = cs.length && (List.range cs.length).all (fun i => o.contains i) &&
  (o.zip (o.drop 1)).all (fun p => (getCand cs p.2).cw ≤ (getCand cs p.1).cw)

/-- a section `o… l:a…` -/
def parseRow (q : Bytes) (refs : List Bytes) (sec : String) : Option (List Cand × List Nat) :=
  match words sec with
  | [o, la] => do
    let o ← listOf String.toNat? o
    let la ← listOf pairOf la
    if la.length ≠ refs.length then none else
    let cs := mkCands q refs la
    if orderOk cs o then pure (cs, o) else none
  | _ => none

def showFrac (p : Nat × Nat) : String :=
  if p.2 = 0 then "nan" else
  let g := Nat.gcd p.1 p.2
  s!"{p.1 / g}/{p.2 / g}"

def showNats (l : List Nat) : String := if l.isEmpty then "_" else ",".intercalate (l.map toString)

def showFC : FCOut → String
  | .panic => "panic"
  | .ok e b m idxs => s!"{e} {showFrac b} {m} {showNats idxs}"

def showBad : Tax.Bad → String
  | .err => "err" | .panic => "panic" | .hang => "hang" | .fatal => "fatal"

def mkTaxo (nodes : List (Nat × Nat)) : Tax.Taxo :=
  { ids := nodes.map (·.1), node := fun k => (nodes.lookup k).map (fun p => ⟨p, ""⟩), alias := fun _ => none }

/-- scientific name the harness gives to taxon `t` (some contain `@`) -/
def nameOf (t : Nat) : Text := (if t % 5 = 0 then s!"sp@{t}" else s!"taxon {t}").toList

/-- rank the harness gives to taxon `t` -/
def rankOf (t : Nat) : Text := (if t % 3 = 0 then "family" else "no rank").toList

def showIndex (idx : List (Nat × Nat)) : String :=
  if idx.isEmpty then "empty" else
  joinSp ((textIndex nameOf rankOf idx).reverse.map fun e => s!"{e.1}:{String.ofList e.2}")

def variantOf (op : String) : Variant :=
  if op = "fc2" ∨ op = "id2" ∨ op = "sl2" ∨ op = "fv2" ∨ op = "dv2" then .tag2 else .tag1

/-- a section holding only a candidate order; checked against the shared counts recomputed here -/
def orderOnly (q : Bytes) (refs : List Bytes) (sec : String) : Option (List Nat) :=
  match words sec with
  | [o] => do
    let o ← listOf String.toNat? o
    let cs := mkCands q refs (refs.map fun _ => (0, 0))
    if orderOk cs o then pure o else none
  | _ => none

def refFun (refs : List Bytes) : Nat → Bytes :=
  let ra := refs.toArray
  fun i => ra.getD i []

def runFV (op q rs sec : String) : String :=
  match unhex q, listOf unhex rs with
  | some q, some refs =>
    match orderOnly q refs sec with
    | some o =>
      match findClosestsV (variantOf op) q (refFun refs) o with
      | .error _ => "panic"
      | .ok fc => showFC fc
    | none => "bad-data"
  | _, _ => "bad-op"

def runFC (op q rs sec : String) : String :=
  match unhex q, listOf unhex rs with
  | some q, some refs =>
    match parseRow q refs sec with
    | some (cs, o) => showFC (findClosests (variantOf op) q.length (getCand cs) o)
    | none => "bad-data"
  | _, _ => "bad-op"

def runIX (s rs ts tx sec : String) : String :=
  match s.toNat?, listOf unhex rs, listOf String.toNat? ts, listOf pairOf tx with
  | some s, some refs, some taxids, some nodes =>
    if s ≥ refs.length ∨ taxids.length ≠ refs.length then "bad-op" else
    let seq := refs.getD s []
    match parseRow seq refs sec with
    | some (cs, o) =>
      match indexSequence (mkTaxo nodes) (nodes.length + 1) taxids s seq.length (getCand cs) o with
      | .ok idx => showIndex idx
      | .error e => showBad e
    | none => "bad-data"
  | _, _, _, _ => "bad-op"

def runIV (s rs ts tx sec : String) : String :=
  match s.toNat?, listOf unhex rs, listOf String.toNat? ts, listOf pairOf tx with
  | some s, some refs, some taxids, some nodes =>
    if s ≥ refs.length ∨ taxids.length ≠ refs.length then "bad-op" else
    match orderOnly (refs.getD s []) refs sec with
    | some o =>
      match indexSequenceV (mkTaxo nodes) (nodes.length + 1) taxids s (refFun refs) o with
      | .error _ => "panic"
      | .ok (.ok idx) => showIndex idx
      | .ok (.error e) => showBad e
    | none => "bad-data"
  | _, _, _, _ => "bad-op"

def runDV (op q rs ts tx : String) (secs : List String) : String :=
  match unhex q, listOf unhex rs, listOf String.toNat? ts, listOf pairOf tx with
  | some q, some refs, some taxids, some nodes =>
    if taxids.length ≠ refs.length ∨ secs.length ≠ refs.length + 1 then "bad-op" else
    match orderOnly q refs (secs.headD "") with
    | none => "bad-data"
    | some o =>
      let rows := ((List.range refs.length).zip (secs.drop 1)).mapM fun (j, sec) => orderOnly (refs.getD j []) refs sec
      match rows with
      | none => "bad-data"
      | some rows =>
        -- `identifyTextV` (Model/TagTV.lean): every kernel call verbatim + text indices + verbatim selection loop
        let ra := rows.toArray
        match identifyTextV (mkTaxo nodes) (nodes.length + 1) (variantOf op) nameOf rankOf q (refFun refs) taxids o
            (fun b => ra.getD b []) with
        | .bad e => showBad e
        | .ok z m n => s!"{z} {m} {n}"
  | _, _, _, _ => "bad-op"

def runID (op q rs ts tx : String) (secs : List String) : String :=
  match unhex q, listOf unhex rs, listOf String.toNat? ts, listOf pairOf tx with
  | some q, some refs, some taxids, some nodes =>
    if taxids.length ≠ refs.length ∨ secs.length ≠ refs.length + 1 then "bad-op" else
    match parseRow q refs (secs.headD "") with
    | none => "bad-data"
    | some (cs, o) =>
      let rows := ((List.range refs.length).zip (secs.drop 1)).mapM fun (j, sec) => parseRow (refs.getD j []) refs sec
      match rows with
      | none => "bad-data"
      | some rows =>
        let t := mkTaxo nodes
        let fuel := nodes.length + 1
        let index := fun b =>
          match rows[b]? with
          | some (csb, ob) => indexSequence t fuel taxids b (refs.getD b []).length (getCand csb) ob
          | none => .error .panic
        let indexT := fun b => (index b).map (textIndex nameOf rankOf)
        match identifyText t fuel (findClosests (variantOf op) q.length (getCand cs) o) indexT with
        | .bad e => showBad e
        | .ok z m n => s!"{z} {m} {n}"
  | _, _, _, _ => "bad-op"

/-- `k=hex,k=hex,…` | `_` | `-` -/
def parseGivenIndex (s : String) : Option (Tax.Res (List (Nat × Text))) :=
  if s = "-" then some (.error .fatal) else
  if s = "_" then some (.ok []) else
  ((s.splitOn ",").mapM fun (kv : String) =>
    match kv.splitOn "=" with
    | [k, v] => do
      let k ← String.toNat? k
      let v ← unhex v
      pure (k, v.map fun (b : UInt8) => Char.ofNat b.toNat)      -- ASCII text
    | _ => none).map Except.ok

def runSL (op q rs ts tx ixs sec : String) : String :=
  match unhex q, listOf unhex rs, listOf String.toNat? ts, listOf pairOf tx, (ixs.splitOn ";").mapM parseGivenIndex with
  | some q, some refs, some taxids, some nodes, some given =>
    if taxids.length ≠ refs.length ∨ given.length ≠ refs.length then "bad-op" else
    match parseRow q refs sec with
    | none => "bad-data"
    | some (cs, o) =>
      let t := mkTaxo nodes
      let fuel := nodes.length + 1
      let index := fun b => (given[b]?).getD (.error .panic)
      match identifyText t fuel (findClosests (variantOf op) q.length (getCand cs) o) index with
      | .bad e => showBad e
      | .ok z m n => s!"{z} {m} {n}"
  | _, _, _, _, _ => "bad-op"

/-! q-gram slack over whole neighbourhoods -/

def acgt : List UInt8 := [97, 99, 103, 116]

def isAcgt (s : Bytes) : Bool := s.all (fun b => acgt.contains b)

def wordsOfLen : Nat → List Bytes
  | 0 => [[]]
  | n + 1 => (wordsOfLen n).flatMap fun w => acgt.map fun b => b :: w

/-- every word obtained by one substitution (by another base), one insertion, one deletion — with repetitions -/
def edits1 (a : Bytes) : List Bytes :=
  let n := a.length
  let subs := (List.range n).flatMap fun i =>
    (acgt.filter (fun b => some b ≠ a[i]?)).map fun b => a.take i ++ b :: a.drop (i + 1)
  let ins := (List.range (n + 1)).flatMap fun i => acgt.map fun b => a.take i ++ b :: a.drop i
  let dels := (List.range n).map fun i => a.take i ++ a.drop (i + 1)
  subs ++ ins ++ dels

/-- `slack a b` with the 4-mer table of `a` computed once (`ca = count4mer a`) -/
def slackWith (ca : Array Nat) (a b : Bytes) : Int :=
  let p := lcsPair a b
  let cw := if b.length < 4 then 0 else common4mer ca (Kmer.count4mer b)
  (cw : Int) + 3 + 4 * ((p.2 - p.1 : Nat) : Int) - ((max a.length b.length : Nat) : Int)

def summarize (a : Bytes) (bs : List Bytes) : String :=
  let ca := Kmer.count4mer a
  let r := bs.foldl (fun (acc : Nat × Int × Int) b =>
    let s := slackWith ca a b
    (acc.1 + 1, min acc.2.1 s, acc.2.2 + s)) (0, (1073741824 : Int), 0)
  s!"{r.1} {r.2.1} {r.2.2}"

def mkTaxoR (nodes : List (Nat × Nat)) : Tax.Taxo :=
  { ids := nodes.map (·.1), node := fun k => (nodes.lookup k).map (fun p => ⟨p, String.ofList (rankOf k)⟩),
    alias := fun _ => none }

/-- a block `members | row(q) | row(member 0) | …` : the answer of `FindClosests` on the members and their indices -/
def parseBlock (q : Bytes) (refs : List Bytes) (taxids : List Nat) (t : Tax.Taxo) (fuel : Nat) (members : List Nat)
    (rows : List String) : Option (FCOut × (Nat → Tax.Res (List (Nat × Text)))) := do
  let mrefs := members.map fun i => refs.getD i []
  let mtax := members.map fun i => taxids.getD i 0
  if rows.length ≠ members.length + 1 then none else
  let (cs, o) ← parseRow q mrefs (rows.headD "")
  let idxRows ← ((List.range members.length).zip (rows.drop 1)).mapM fun (j, sec) => parseRow (mrefs.getD j []) mrefs sec
  let index := fun b =>
    match idxRows[b]? with
    | some (csb, ob) => (indexSequence t fuel mtax b (mrefs.getD b []).length (getCand csb) ob).map (textIndex nameOf rankOf)
    | none => .error .panic
  pure (findClosests .tag2 q.length (getCand cs) o, index)

/-- split the sections following the head into blocks introduced by `C …` / `F f …` -/
def splitBlocks : List String → List (List String × List String) → Option (List (List String × List String))
  | [], acc => some acc.reverse
  | sec :: rest, acc =>
    match words sec with
    | "C" :: hd => splitBlocks rest ((("C" :: hd), []) :: acc)
    | "F" :: hd => splitBlocks rest ((("F" :: hd), []) :: acc)
    | _ => match acc with
      | (hd, rows) :: acc' => splitBlocks rest ((hd, rows ++ [sec]) :: acc')
      | [] => none

def runID3 (q rs ts tx h cnt : String) (secs : List String) : String :=
  match unhex q, listOf unhex rs, listOf String.toNat? ts, listOf pairOf tx, listOf String.toNat? cnt, splitBlocks secs [] with
  | some q, some refs, some taxids, some nodes, some counts, some blocks =>
    if taxids.length ≠ refs.length ∨ counts.length ≠ refs.length ∨ h.length ≠ refs.length then "bad-op" else
    let t := mkTaxoR nodes
    let fuel := nodes.length + 1
    let same := fun j => decide (refs[j]? = some q)
    let exact := exactEntry t fuel same taxids counts
    let parsed := blocks.mapM fun (hd, rows) =>
      match hd with
      | ["C", ms] => do
        let ms ← listOf String.toNat? ms
        let b ← parseBlock q refs taxids t fuel ms rows
        pure ((none : Option Nat), ms, b)
      | ["F", f, ms] => do
        let f ← String.toNat? f
        let ms ← listOf String.toNat? ms
        let b ← parseBlock q refs taxids t fuel ms rows
        pure (some f, ms, b)
      | _ => none
    match parsed with
    | none => "bad-data"
    | some bl =>
      match bl.find? (fun x => x.1.isNone) with
      | none => "bad-data"
      | some (_, msC, (fcC, indexC)) =>
        let fam := fun f => (bl.find? (fun x => x.1 = some f)).map fun x => x.2.2
        let membersOf := fun f => ((bl.find? (fun x => x.1 = some f)).map fun x => x.2.1).getD []
        match identify2 (selectText t) t fuel exact fcC indexC fam with
        | .bad e => showBad e
        | .ok z bm w .exact => s!"{z} {bm} {w} exact"
        | .ok z bm w .clusters => s!"{z} {msC.getD bm 0} {w} lcs"
        | .ok z bm w (.family f) => s!"{z} {(membersOf f).getD bm 0} {w} lcs"
  | _, _, _, _, _, _ => "bad-op"

/-- a block `members | order(q) | order(member 0) | …` of an `iv3` line: only candidate orders -/
def parseBlockV (q : Bytes) (refs : List Bytes) (members : List Nat) (rows : List String) :
    Option (List Nat × Array (List Nat)) := do
  let mrefs := members.map fun i => refs.getD i []
  if rows.length ≠ members.length + 1 then none else
  let o ← orderOnly q mrefs (rows.headD "")
  let idxRows ← ((List.range members.length).zip (rows.drop 1)).mapM fun (j, sec) => orderOnly (mrefs.getD j []) mrefs sec
  pure (o, idxRows.toArray)

/-- `iv3` : as `id3`, run by `identify2V` (Model/TagTV.lean): every kernel call verbatim in the searches and in
`IndexSequence` of each list, text indices, verbatim selection loop; only the candidate orders are data -/
def runIV3 (q rs ts tx h cnt : String) (secs : List String) : String :=
  match unhex q, listOf unhex rs, listOf String.toNat? ts, listOf pairOf tx, listOf String.toNat? cnt, splitBlocks secs [] with
  | some q, some refs, some taxids, some nodes, some counts, some blocks =>
    if taxids.length ≠ refs.length ∨ counts.length ≠ refs.length ∨ h.length ≠ refs.length then "bad-op" else
    let t := mkTaxoR nodes
    let fuel := nodes.length + 1
    let same := fun j => decide (refs[j]? = some q)
    let exact := exactEntry t fuel same taxids counts
    let parsed := blocks.mapM fun (hd, rows) =>
      match hd with
      | ["C", ms] => do
        let ms ← listOf String.toNat? ms
        let b ← parseBlockV q refs ms rows
        pure ((none : Option Nat), ms, b)
      | ["F", f, ms] => do
        let f ← String.toNat? f
        let ms ← listOf String.toNat? ms
        let b ← parseBlockV q refs ms rows
        pure (some f, ms, b)
      | _ => none
    match parsed with
    | none => "bad-data"
    | some bl =>
      match bl.find? (fun x => x.1.isNone) with
      | none => "bad-data"
      | some (_, msC, (oC, owsC)) =>
        let famOf := fun f => bl.find? (fun x => x.1 = some f)
        let membersOf := fun f => ((famOf f).map fun x => x.2.1).getD []
        let subRefs := fun (ms : List Nat) => refFun (ms.map fun i => refs.getD i [])
        let subTax := fun (ms : List Nat) => ms.map fun i => taxids.getD i 0
        match identify2V t fuel nameOf rankOf exact q (subRefs msC) (subTax msC) oC (fun b => owsC.getD b [])
            (fun f => (famOf f).isSome) (fun f => subRefs (membersOf f)) (fun f => subTax (membersOf f))
            (fun f => ((famOf f).map fun x => x.2.2.1).getD [])
            (fun f b => (((famOf f).map fun x => x.2.2.2).getD #[]).getD b []) with
        | .bad e => showBad e
        | .ok z bm w .exact => s!"{z} {bm} {w} exact"
        | .ok z bm w .clusters => s!"{z} {msC.getD bm 0} {w} lcs"
        | .ok z bm w (.family f) => s!"{z} {(membersOf f).getD bm 0} {w} lcs"
  | _, _, _, _, _, _ => "bad-op"

/-- `conc`: the sub-cases run alone, one after the other (see the header); `identifyText … fc index` with
`index b = (indexSequenceV … b …).map textIndex` is the body of `identifyTextV` (Model/TagTV.lean) -/
def runConc (rs ts tx qs xs : String) (secs : List String) : String :=
  match listOf unhex rs, listOf String.toNat? ts, listOf pairOf tx, listOf unhex qs, listOf String.toNat? xs with
  | some refs, some taxids, some nodes, some queries, some ixs =>
    if taxids.length ≠ refs.length ∨ secs.length ≠ queries.length + refs.length ∨ ixs.any (fun j => j ≥ refs.length) then
      "bad-op" else
    let qo := (queries.zip secs).mapM fun (q, sec) => orderOnly q refs sec
    let ro := ((List.range refs.length).zip (secs.drop queries.length)).mapM fun (j, sec) =>
      orderOnly (refs.getD j []) refs sec
    match qo, ro with
    | some qo, some ro =>
      let t := mkTaxo nodes
      let fuel := nodes.length + 1
      let rf := refFun refs
      let roA := ro.toArray
      -- the index of each reference, computed when first needed, once
      let idxT : Array (Thunk (Except Err (Tax.Res (List (Nat × Nat))))) :=
        (List.range refs.length).toArray.map fun b =>
          Thunk.mk fun _ => indexSequenceV t fuel taxids b rf (roA.getD b [])
      let index : Nat → Except Err (Tax.Res (List (Nat × Nat))) := fun b =>
        match idxT[b]? with
        | some th => th.get
        | none => indexSequenceV t fuel taxids b rf []
      let indexText : Nat → Tax.Res (List (Nat × Text)) := fun b =>
        match index b with
        | .error _ => .error .panic
        | .ok r => r.map (textIndex nameOf rankOf)
      let showId : IdOut → String := fun
        | .bad e => showBad e
        | .ok z m n => s!"{z} {m} {n}"
      let perQuery := (queries.zip qo).flatMap fun (q, o) =>
        [Variant.tag1, Variant.tag2].map (fun v =>
          match findClosestsV v q rf o with
          | .error _ => "panic"
          | .ok fc => showFC fc) ++
        [Variant.tag1, Variant.tag2].map (fun v =>
          match findClosestsV v q rf o with
          | .error _ => showId (.bad .panic)
          | .ok fc => showId (identifyText t fuel fc indexText))
      let perRef := ixs.map fun j =>
        match index j with
        | .error _ => "panic"
        | .ok (.ok idx) => showIndex idx
        | .ok (.error e) => showBad e
      " ; ".intercalate (perQuery ++ perRef)
    | _, _ => "bad-data"
  | _, _, _, _, _ => "bad-op"

/-! ## round 4: the set-up code (`Model/TagSetup.lean`) -/

def mkTaxoA (nodes : List (Nat × Nat)) (al : List (Nat × Nat)) : Tax.Taxo :=
  { ids := nodes.map (·.1), node := fun k => (nodes.lookup k).map (fun p => ⟨p, ""⟩),
    alias := fun k => match al.lookup k with
      | some n => if (nodes.lookup n).isSome then some n else none
      | none => none }

def mkRecs (refs : List Bytes) (taxids : List Nat) : List RefRec :=
  (refs.zip taxids).map fun (r, x) => ⟨r, if x = 0 then none else some x⟩

/-- is `o` a permutation of `0..n-1` sorted by non-increasing `cw`? -/
def orderOkC (n : Nat) (cw : Nat → Nat) (o : List Nat) : Bool :=
  o.length = n && (List.range n).all (fun i => o.contains i) &&
  (o.zip (o.drop 1)).all (fun p => cw p.2 ≤ cw p.1)

/-- a section holding a candidate order, checked against the tables of the ARRAY `counts` -/
def orderOnlyC (n : Nat) (cq : Array Nat) (counts : Nat → Array Nat) (sec : String) : Option (List Nat) :=
  match words sec with
  | [o] => do
    let o ← listOf String.toNat? o
    if orderOkC n (fun i => common4mer cq (counts i)) o then pure o else none
  | _ => none

def showIdOut : IdOut → String
  | .bad e => showBad e
  | .ok z m n => s!"{z} {m} {n}"

/-- `ix=I1;I2;…` : the stored attribute of each record of the file -/
def parseStored (w : String) (n : Nat) : Option (List (Option TIndex)) :=
  if !w.startsWith "ix=" then none else
  match (((w.drop 3).toString).splitOn ";").mapM parseGivenIndex with
  | none => none
  | some g =>
    if g.length ≠ n then none else
    some (g.map fun
      | .ok ix => some ix
      | .error _ => none)

def mkRecsI (recs : List RefRec) (stored : List (Option TIndex)) : List RefRecI :=
  (recs.zip stored).map fun (r, s) => ⟨r, s⟩

def runCL1 (qs rs ts tx al : String) (ixw : Option String) (secs : List String) : String :=
  match listOf unhex qs, listOf unhex rs, listOf String.toNat? ts, listOf pairOf tx, listOf pairOf al with
  | some queries, some refs, some taxids, some nodes, some al =>
    if taxids.length ≠ refs.length then "bad-op" else
    let given := ixw.map fun w => parseStored w refs.length
    if given == some none then "bad-op" else
    let given := given.join
    let t := mkTaxoA nodes al
    let fuel := nodes.length + 1
    let recs := mkRecs refs taxids
    let s := tag1Setup t recs
    let m := s.refs.length
    if secs.length ≠ queries.length + m then "bad-data" else
    let cf := countFn s.counts
    let pos := keptPos t recs
    let qo := (queries.zip secs).mapM fun (q, sec) => orderOnlyC m (Kmer.count4mer q) cf sec
    let ro := ((List.range m).zip (secs.drop queries.length)).mapM fun (b, sec) => orderOnlyC m (cf b) cf sec
    match qo, ro with
    | some qo, some ro =>
      let roA := ro.toArray
      let outs := (queries.zip qo).map fun (q, o) =>
        match given with
        | none => cliAssign1 t fuel nameOf rankOf recs q o (fun b => roA.getD b [])
        | some g => cliAssign1I t fuel nameOf rankOf (mkRecsI recs g) q o (fun b => roA.getD b [])
      match outs.find? (fun x => match x with | .bad _ => true | _ => false) with
      | some b => showIdOut b
      | none =>
        " ; ".intercalate (outs.map fun
          | .bad e => showBad e
          | .ok z bm n => s!"{z} {pos.getD bm 0} {n}")
    | _, _ => "bad-data"
  | _, _, _, _, _ => "bad-op"

def runRX (rs ts tx al : String) (ixw : Option String) (secs : List String) : String :=
  match listOf unhex rs, listOf String.toNat? ts, listOf pairOf tx, listOf pairOf al with
  | some refs, some taxids, some nodes, some al =>
    if taxids.length ≠ refs.length then "bad-op" else
    let given := ixw.map fun w => parseStored w refs.length
    if given == some none then "bad-op" else
    let given := given.join
    let t := mkTaxoA nodes al
    let fuel := nodes.length + 1
    let recs := mkRecs refs taxids
    let s := refidxSetup t recs
    let m := s.refs.length
    if secs.length ≠ m then "bad-data" else
    let cf := countFn s.counts
    let pos := keptPos t recs
    match ((List.range m).zip secs).mapM fun (b, sec) => orderOnlyC m (cf b) cf sec with
    | none => "bad-data"
    | some ro =>
      if m = 0 then "none" else
      " ; ".intercalate (((List.range m).zip ro).map fun (b, ow) =>
        s!"r{pos.getD b 0} " ++
        match (match given with
          | none => refidxIndex t fuel recs b ow
          | some g => ((refidxOutI t fuel (mkRecsI recs g) b ow).map Prod.snd).getD (.error .panic)) with
        | .error _ => "panic"
        | .ok (.ok idx) => showIndex idx
        | .ok (.error e) => showBad e)
  | _, _, _, _ => "bad-op"

def runS2 (rs ts tx al : String) : String :=
  match listOf unhex rs, listOf String.toNat? ts, listOf pairOf tx, listOf pairOf al with
  | some refs, some taxids, some nodes, some al =>
    if taxids.length ≠ refs.length then "bad-op" else
    if tag2SetupOk (mkTaxoA nodes al) (nodes.length + 1) (mkRecs refs taxids) then "ok" else "panic"
  | _, _, _, _ => "bad-op"

def memberOf (s : String) : Option (Nat × Option Nat) :=
  match s.splitOn ":" with
  | [a, b] => do
    let a ← a.toNat?
    if b = "-" then pure (a, none) else do
      let b ← b.toNat?
      pure (a, some b)
  | _ => none

def runFW (rs ts tx al ms : String) (secs : List String) : String :=
  match listOf unhex rs, listOf String.toNat? ts, listOf pairOf tx, listOf pairOf al, listOf memberOf ms with
  | some refs, some taxids, some nodes, some al, some members =>
    if taxids.length ≠ refs.length ∨ members.any (fun p => p.1 ≥ refs.length) then "bad-op" else
    let t := mkTaxoA nodes al
    let fuel := nodes.length + 1
    let recs := mkRecs refs taxids
    let kmers := recs.map fun r => Kmer.count4mer r.seq
    let seqs := members.map fun p => recs.getD p.1 ⟨[], none⟩
    match sliceWorkerSetup t kmers seqs (members.map (·.2)) with
    | .error e => showBad e
    | .ok s =>
      let m := seqs.length
      if m = 0 then "none" else
      -- a nil taxon: `IndexSequence` of the first sequence ends in log.Panicf (inside a goroutine of the worker)
      if hasNil s.taxa then "panic" else
      if secs.length ≠ m then "bad-data" else
      let cf := countFn s.counts
      match ((List.range m).zip secs).mapM fun (b, sec) => orderOnlyC m (cf b) cf sec with
      | none => "bad-data"
      | some ro =>
        " ; ".intercalate (((List.range m).zip ro).map fun (b, ow) =>
          match indexSequenceVT t fuel s.taxa b (refFn s.refs) cf ow with
          | .error _ => "panic"
          | .ok (.ok idx) => showIndex idx
          | .ok (.error e) => showBad e)
  | _, _, _, _, _ => "bad-op"

def run (line : String) : String :=
  match line.splitOn " | " with
  | [] => "bad-op"
  | head :: secs =>
    match words head, secs with
    | ["conc", _g, _r, rs, ts, tx, qs, xs], secs => runConc rs ts tx qs xs secs
    | ["race", "conc", _g, _r, rs, ts, tx, qs, xs], secs => runConc rs ts tx qs xs secs
    | ["cl1", qs, rs, ts, tx, al], secs => runCL1 qs rs ts tx al none secs
    | ["cl1", qs, rs, ts, tx, al, ixw], secs => runCL1 qs rs ts tx al (some ixw) secs
    | ["rx", rs, ts, tx, al], secs => runRX rs ts tx al none secs
    | ["rx", rs, ts, tx, al, ixw], secs => runRX rs ts tx al (some ixw) secs
    | ["s2", rs, ts, tx, al], [] => runS2 rs ts tx al
    | ["fw", rs, ts, tx, al, ms], secs => runFW rs ts tx al ms secs
    | ["cw", a, b], [] =>
      match unhex a, unhex b with
      | some a, some b => toString (common4 a b)
      | _, _ => "bad-op"
    | ["fc1", q, rs], [sec] => runFC "fc1" q rs sec
    | ["fc2", q, rs], [sec] => runFC "fc2" q rs sec
    | ["ix", s, rs, ts, tx], [sec] => runIX s rs ts tx sec
    | ["fv1", q, rs], [sec] => runFV "fv1" q rs sec
    | ["fv2", q, rs], [sec] => runFV "fv2" q rs sec
    | ["iv", s, rs, ts, tx], [sec] => runIV s rs ts tx sec
    | ["dv1", q, rs, ts, tx], secs => runDV "dv1" q rs ts tx secs
    | ["dv2", q, rs, ts, tx], secs => runDV "dv2" q rs ts tx secs
    | ["id1", q, rs, ts, tx], secs => runID "id1" q rs ts tx secs
    | ["id2", q, rs, ts, tx], secs => runID "id2" q rs ts tx secs
    | ["sl1", q, rs, ts, tx, ixs], [sec] => runSL "sl1" q rs ts tx ixs sec
    | ["sl2", q, rs, ts, tx, ixs], [sec] => runSL "sl2" q rs ts tx ixs sec
    | ["id3", q, rs, ts, tx, h, cnt], secs => runID3 q rs ts tx h cnt secs
    | ["iv3", q, rs, ts, tx, h, cnt], secs => runIV3 q rs ts tx h cnt secs
    | ["qg", a, n], [] =>
      match unhex a, n.toNat? with
      | some a, some n =>
        if !isAcgt a ∨ n > 8 then "bad-op" else
        summarize a ((List.range (n + 1)).flatMap wordsOfLen)
      | _, _ => "bad-op"
    | ["qgn", a, k], [] =>
      match unhex a, k.toNat? with
      | some a, some 1 => if isAcgt a then summarize a (edits1 a) else "bad-op"
      | some a, some 2 => if isAcgt a then summarize a ((edits1 a).flatMap edits1) else "bad-op"
      | _, _ => "bad-op"
    | _, _ => "bad-op"

end ObiVerif.Driver.C15
