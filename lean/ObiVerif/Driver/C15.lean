import ObiVerif.Model.Tag
import ObiVerif.Driver.Util
/-!
line protocol for C15 (see `harness/c15.go`)

```
cw  A B                          -> n
fc1|fc2 Q R1,R2,… | o1,o2,… l1:a1,l2:a2,…                     -> maxe num/den bestmatch idx,idx,…  | panic
ix  s R1,… T1,… id:parent,… | o… l:a…                          -> d:taxid d:taxid …                 | empty
id1|id2 Q R1,… T1,… id:parent,… | o… l:a… | o… l:a… | …        -> taxid bestmatch count
qg A maxlen / qgn A k                                           -> count minslack sumslack
```
`-` = empty sequence, `_` = empty list.  After ` | ` : the candidate order of the code and the unbounded
`lcs:alilength` of each reference (one section for the query, then one per indexed reference for `id*`).
Lengths and shared 4-mer counts are recomputed here from the sequences.
-/
namespace ObiVerif.Driver.C15
open ObiVerif.Tag ObiVerif.Driver
open ObiVerif.Kmer (Bytes)

def listOf {α : Type} (f : String → Option α) (s : String) : Option (List α) :=
  if s = "_" then some [] else (s.splitOn ",").mapM f

def pairOf (s : String) : Option (Nat × Nat) :=
  match s.splitOn ":" with
  | [a, b] => do
    let a ← a.toNat?
    let b ← b.toNat?
    pure (a, b)
  | _ => none

def getCand (l : List Cand) (i : Nat) : Cand := l.getD i ⟨0, 0, 0, 0⟩

/-- one scan: the candidates of `refs` seen from `q`, with the measured `lcs:ali` -/
def mkCands (q : Bytes) (refs : List Bytes) (la : List (Nat × Nat)) : List Cand :=
  let cq := Kmer.count4mer q
  (refs.zip la).map fun (r, p) => ⟨r.length, common4mer cq (Kmer.count4mer r), p.1, p.2⟩

/-- is `o` a permutation of `0..n-1` sorted by non-increasing shared count? (what the theorems assume) -/
def orderOk (cs : List Cand) (o : List Nat) : Bool :=
  o.length = cs.length && (List.range cs.length).all (fun i => o.contains i) &&
  (o.zip (o.drop 1)).all (fun p => (getCand cs p.2).cw ≤ (getCand cs p.1).cw)

/-- a section `o… l:a…` -/
def parseRow (q : Bytes) (refs : List Bytes) (sec : String) : Option (List Cand × List Nat) :=
  match words sec with
  | [o, la] => do
    let o ← listOf String.toNat? o
    let la ← listOf pairOf la
    if la.length ≠ refs.length then none else
    let cs := mkCands q refs la
    if orderOk cs o then pure (cs, o) else none
  | _ => none

def showFrac (p : Nat × Nat) : String :=
  if p.2 = 0 then "nan" else
  let g := Nat.gcd p.1 p.2
  s!"{p.1 / g}/{p.2 / g}"

def showNats (l : List Nat) : String := if l.isEmpty then "_" else ",".intercalate (l.map toString)

def showFC : FCOut → String
  | .panic => "panic"
  | .ok e b m idxs => s!"{e} {showFrac b} {m} {showNats idxs}"

def showBad : Tax.Bad → String
  | .err => "err" | .panic => "panic" | .hang => "hang" | .fatal => "fatal"

def mkTaxo (nodes : List (Nat × Nat)) : Tax.Taxo :=
  { ids := nodes.map (·.1), node := fun k => (nodes.lookup k).map (fun p => ⟨p, ""⟩), alias := fun _ => none }

def showIndex (idx : List (Nat × Nat)) : String :=
  if idx.isEmpty then "empty" else joinSp (idx.reverse.map fun e => s!"{e.1}:{e.2}")

def variantOf (op : String) : Variant := if op = "fc2" ∨ op = "id2" then .tag2 else .tag1

def runFC (op q rs sec : String) : String :=
  match unhex q, listOf unhex rs with
  | some q, some refs =>
    match parseRow q refs sec with
    | some (cs, o) => showFC (findClosests (variantOf op) q.length (getCand cs) o)
    | none => "bad-data"
  | _, _ => "bad-op"

def runIX (s rs ts tx sec : String) : String :=
  match s.toNat?, listOf unhex rs, listOf String.toNat? ts, listOf pairOf tx with
  | some s, some refs, some taxids, some nodes =>
    if s ≥ refs.length ∨ taxids.length ≠ refs.length then "bad-op" else
    let seq := refs.getD s []
    match parseRow seq refs sec with
    | some (cs, o) =>
      match indexSequence (mkTaxo nodes) (nodes.length + 1) taxids s seq.length (getCand cs) o with
      | .ok idx => showIndex idx
      | .error e => showBad e
    | none => "bad-data"
  | _, _, _, _ => "bad-op"

def runID (op q rs ts tx : String) (secs : List String) : String :=
  match unhex q, listOf unhex rs, listOf String.toNat? ts, listOf pairOf tx with
  | some q, some refs, some taxids, some nodes =>
    if taxids.length ≠ refs.length ∨ secs.length ≠ refs.length + 1 then "bad-op" else
    match parseRow q refs (secs.headD "") with
    | none => "bad-data"
    | some (cs, o) =>
      let rows := ((List.range refs.length).zip (secs.drop 1)).mapM fun (j, sec) => parseRow (refs.getD j []) refs sec
      match rows with
      | none => "bad-data"
      | some rows =>
        let t := mkTaxo nodes
        let fuel := nodes.length + 1
        let index := fun b =>
          match rows[b]? with
          | some (csb, ob) => indexSequence t fuel taxids b (refs.getD b []).length (getCand csb) ob
          | none => .error .panic
        match identify t fuel (findClosests (variantOf op) q.length (getCand cs) o) index with
        | .bad e => showBad e
        | .ok z m n => s!"{z} {m} {n}"
  | _, _, _, _ => "bad-op"

/-! q-gram slack over whole neighbourhoods -/

def acgt : List UInt8 := [97, 99, 103, 116]

def isAcgt (s : Bytes) : Bool := s.all (fun b => acgt.contains b)

def wordsOfLen : Nat → List Bytes
  | 0 => [[]]
  | n + 1 => (wordsOfLen n).flatMap fun w => acgt.map fun b => b :: w

/-- every word obtained by one substitution (by another base), one insertion, one deletion — with repetitions -/
def edits1 (a : Bytes) : List Bytes :=
  let n := a.length
  let subs := (List.range n).flatMap fun i =>
    (acgt.filter (fun b => some b ≠ a[i]?)).map fun b => a.take i ++ b :: a.drop (i + 1)
  let ins := (List.range (n + 1)).flatMap fun i => acgt.map fun b => a.take i ++ b :: a.drop i
  let dels := (List.range n).map fun i => a.take i ++ a.drop (i + 1)
  subs ++ ins ++ dels

/-- `slack a b` with the 4-mer table of `a` computed once (`ca = count4mer a`) -/
def slackWith (ca : Array Nat) (a b : Bytes) : Int :=
  let p := lcsPair a b
  let cw := if b.length < 4 then 0 else common4mer ca (Kmer.count4mer b)
  (cw : Int) + 3 + 4 * ((p.2 - p.1 : Nat) : Int) - ((max a.length b.length : Nat) : Int)

def summarize (a : Bytes) (bs : List Bytes) : String :=
  let ca := Kmer.count4mer a
  let r := bs.foldl (fun (acc : Nat × Int × Int) b =>
    let s := slackWith ca a b
    (acc.1 + 1, min acc.2.1 s, acc.2.2 + s)) (0, (1073741824 : Int), 0)
  s!"{r.1} {r.2.1} {r.2.2}"

def run (line : String) : String :=
  match line.splitOn " | " with
  | [] => "bad-op"
  | head :: secs =>
    match words head, secs with
    | ["cw", a, b], [] =>
      match unhex a, unhex b with
      | some a, some b => toString (common4 a b)
      | _, _ => "bad-op"
    | ["fc1", q, rs], [sec] => runFC "fc1" q rs sec
    | ["fc2", q, rs], [sec] => runFC "fc2" q rs sec
    | ["ix", s, rs, ts, tx], [sec] => runIX s rs ts tx sec
    | ["id1", q, rs, ts, tx], secs => runID "id1" q rs ts tx secs
    | ["id2", q, rs, ts, tx], secs => runID "id2" q rs ts tx secs
    | ["qg", a, n], [] =>
      match unhex a, n.toNat? with
      | some a, some n =>
        if !isAcgt a ∨ n > 8 then "bad-op" else
        summarize a ((List.range (n + 1)).flatMap wordsOfLen)
      | _, _ => "bad-op"
    | ["qgn", a, k], [] =>
      match unhex a, k.toNat? with
      | some a, some 1 => if isAcgt a then summarize a (edits1 a) else "bad-op"
      | some a, some 2 => if isAcgt a then summarize a ((edits1 a).flatMap edits1) else "bad-op"
      | _, _ => "bad-op"
    | _, _ => "bad-op"

end ObiVerif.Driver.C15
