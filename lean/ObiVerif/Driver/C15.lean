/-! line protocol for C15 (stub: no model yet) -/
namespace ObiVerif.Driver.C15

def run (_line : String) : String := "bad-op"

end ObiVerif.Driver.C15
