/-! line protocol for C16 (stub: no model yet) -/
namespace ObiVerif.Driver.C16

def run (_line : String) : String := "bad-op"

end ObiVerif.Driver.C16
