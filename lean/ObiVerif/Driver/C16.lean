import ObiVerif.Model.Grep
import ObiVerif.Model.Annotate
import ObiVerif.Driver.Util
/-!
line protocol for C16

```
grep  <grep options> | <records> | <oracle table>      -> keep=<one of 1 0 F per record>
annot <grep options> <annot options> | <records> | <oracle table>
                                                        -> one of out:<record> absent panic fatal per record
class <hex key1> <hex key2> <hex na> | <records>        -> <hex v1>,<hex v2> per record
```
records: `<rec> ; <rec> ; …`, a record being `<hex id>,<hex seq>,<attrs>` optionally followed by
` + <rec>` (its mate); attrs: `-` or `<hex key>=<val>;…`, val: `s<hex>` `i<int>` `b0` `b1`
`f<trunc>~<hex shown>`.  The oracle table gives the verdicts of the real libraries (`regexp`, gval,
obitax, obiapat) as data; a verdict the model asks for and the table lacks makes the result
`oracle-miss` (the model is run with both defaults and the two results compared).
-/
namespace ObiVerif.Driver.C16
open ObiVerif.Grep ObiVerif.Annotate ObiVerif.Driver

def asciiStr (l : List UInt8) : Option String :=
  if l.all (· < 128) then some (String.ofList (l.map fun b => Char.ofNat b.toNat)) else none

def unhexS (s : String) : Option String := (unhex s).bind asciiStr

def hexS (s : String) : String := hex (bytes s)

def parseVal (s : String) : Option AVal :=
  match s.toList with
  | 's' :: t => (unhexS (String.ofList t)).map .str
  | 'i' :: t => (String.ofList t).toInt?.map .int
  | ['b', '0'] => some (.bool false)
  | ['b', '1'] => some (.bool true)
  | 'f' :: t =>
    match (String.ofList t).splitOn "~" with
    | [a, b] => do
      let n ← a.toInt?
      let sh ← unhexS b
      pure (.flt sh n)
    | _ => none
  | _ => none

def showVal : AVal → String
  | .str s => "s" ++ hexS s
  | .int n => "i" ++ toString n
  | .bool b => if b then "b1" else "b0"
  | .flt sh t => "f" ++ toString t ++ "~" ++ hexS sh

def parseAttrs (s : String) : Option (List (String × AVal)) :=
  if s = "-" then some [] else
  (s.splitOn ";").mapM fun kv =>
    match kv.splitOn "=" with
    | [k, v] => do
      let k ← unhexS k
      let v ← parseVal v
      pure (k, v)
    | _ => none

def parseRec (s : String) : Option Rec :=
  match s.splitOn "," with
  | [i, q, a] => do
    let id ← unhexS i
    let seq ← unhex q
    let attrs ← parseAttrs a
    pure { id := id, seq := seq, attrs := attrs }
  | _ => none

def insKV (kv : String × AVal) : List (String × AVal) → List (String × AVal)
  | [] => [kv]
  | x :: xs => if kv.1 ≤ x.1 then kv :: x :: xs else x :: insKV kv xs

def showAttrs (a : List (String × AVal)) : String :=
  if a.isEmpty then "-" else
  ";".intercalate ((a.foldr insKV []).map fun kv => hexS kv.1 ++ "=" ++ showVal kv.2)

def showRec (r : Rec) : String := hexS r.id ++ "," ++ hex r.seq ++ "," ++ showAttrs r.attrs

/-- a record and its optional mate -/
def parsePair (s : String) : Option (Rec × Option Rec) :=
  match s.splitOn " + " with
  | [a] => (parseRec a.trimAscii.toString).map fun r => (r, none)
  | [a, b] => do
    let r ← parseRec a.trimAscii.toString
    let m ← parseRec b.trimAscii.toString
    pure (r, some m)
  | _ => none

def parseRecs (s : String) : Option (List (Rec × Option Rec)) :=
  if s.trimAscii.toString = "" then some [] else (s.splitOn " ; ").mapM parsePair

/-- the oracle table: `key:verdict` tokens, key containing no space -/
def parseTable (s : String) : List (String × String) :=
  (words s).filterMap fun w =>
    match (w.splitOn ":").reverse with
    | v :: rest => some (":".intercalate rest.reverse, v)
    | [] => none

structure Tab where
  t : List (String × String)
  dflt : Bool

def Tab.bool (T : Tab) (k : String) : Bool :=
  match T.t.lookup k with
  | some "1" => true
  | some "0" => false
  | _ => T.dflt

def grepOracles (T : Tab) : Grep.Oracles where
  matchRe p s := T.bool ("re:" ++ hexS p ++ ":" ++ hex s)
  evalBool e r :=
    match T.t.lookup ("eb:" ++ hexS e ++ ":" ++ showRec r) with
    | some "1" => some true
    | some "0" => some false
    | some "E" => none
    | _ => if T.dflt then some true else none
  subCladeOf t r := T.bool ("txi:" ++ toString t ++ ":" ++ showRec r)
  subCladeOfSlot s r := T.bool ("txs:" ++ hexS s ++ ":" ++ showRec r)
  hasRank k r := T.bool ("txr:" ++ hexS k ++ ":" ++ showRec r)
  apat p e both indel r :=
    T.bool ("ap:" ++ hexS p ++ ":" ++ toString e ++ (if both then "b" else "f") ++ (if indel then "i" else "n") ++ ":" ++ showRec r)

def annotOracles (T : Tab) : Annotate.Oracles where
  evalExpr e r :=
    match T.t.lookup ("ev:" ++ hexS e ++ ":" ++ showRec r) with
    | some "E" => none
    | some v => (parseVal v).orElse fun _ => if T.dflt then some (.str "?") else none
    | none => if T.dflt then some (.str "?") else none

/-- Go map assignment on an ordered association list kept sorted by key -/
def mapPut (k v : String) : List (String × String) → List (String × String)
  | [] => [(k, v)]
  | x :: xs => if k = x.1 then (k, v) :: xs else if k < x.1 then (k, v) :: x :: xs else x :: mapPut k v xs

structure Opts where
  g : GrepOpts := {}
  a : AnnotOpts := {}
  paired : Bool := false
  mode : String := "forward"
  pmSet : Bool := false
  hasAnnot : Bool := false

/-- a string that can be one argv word after an option -/
def argOK (s : String) : Bool :=
  s ≠ "" && s.front ≠ '-' && !(s.contains '\n') && !(s.contains '\t')

def canonInt (x : String) : Option Int :=
  match x.toInt? with
  | some n => if toString n = x && n ≤ 2100000000 && n ≥ -2100000000 then some n else none
  | none => none

def argS (x : String) : Option String := (unhexS x).bind fun s => if argOK s then some s else none

def pair2 (s : String) : Option (String × String) :=
  match s.splitOn ":" with
  | [a, b] => do
    let a ← unhexS a
    let b ← unhexS b
    pure (a, b)
  | _ => none

def mapKV (x : String) : Option (String × String) :=
  (pair2 x).bind fun kv =>
    if argOK kv.1 && !(kv.1.contains '=') && kv.2 ≠ "" && !(kv.2.contains '=') then some kv else none

def markA (o : Opts) : Opts := { o with hasAnnot := true }

def parseOpt (o : Opts) (w : String) : Option Opts :=
  match w.splitOn "=" with
  | ["long"] => some o
  | ["bs", x] => (canonInt x).bind fun n => if 1 ≤ n && n ≤ 50 then some o else none
  | ["w", x] => (canonInt x).bind fun n => if 1 ≤ n && n ≤ 8 then some o else none
  | ["v"] => some { o with g := { o.g with invert := true } }
  | ["indel"] => some { o with g := { o.g with patternIndel := true } }
  | ["fwd"] => some { o with g := { o.g with patternOnlyForward := true } }
  | ["paired"] => some { o with paired := true }
  | ["clear"] => some (markA { o with a := { o.a with clearAll := true } })
  | ["len"] => some (markA { o with a := { o.a with setSeqLength := true } })
  | ["l", x] => (canonInt x).map fun n => { o with g := { o.g with minLength := n } }
  | ["L", x] => (canonInt x).map fun n => { o with g := { o.g with maxLength := n } }
  | ["c", x] => (canonInt x).map fun n => { o with g := { o.g with minCount := n } }
  | ["C", x] => (canonInt x).map fun n => { o with g := { o.g with maxCount := n } }
  | ["pe", x] => (canonInt x).bind fun n =>
      if 0 ≤ n && n ≤ 3 then some { o with g := { o.g with patternError := n } } else none
  | ["i", x] => (canonInt x).map fun n => { o with g := { o.g with notBelongTaxa := o.g.notBelongTaxa ++ [n] } }
  | ["s", x] => (argS x).map fun s => { o with g := { o.g with seqPatterns := o.g.seqPatterns ++ [s] } }
  | ["D", x] => (argS x).map fun s => { o with g := { o.g with defPatterns := o.g.defPatterns ++ [s] } }
  | ["I", x] => (argS x).map fun s => { o with g := { o.g with idPatterns := o.g.idPatterns ++ [s] } }
  | ["A", x] => (argS x).map fun s => { o with g := { o.g with requiredAttrs := o.g.requiredAttrs ++ [s] } }
  | ["p", x] => (argS x).map fun s => { o with g := { o.g with predicates := o.g.predicates ++ [s] } }
  | ["r", x] => (argS x).map fun s => { o with g := { o.g with belongTaxa := o.g.belongTaxa ++ [s] } }
  | ["rank", x] => (argS x).map fun s => { o with g := { o.g with requiredRanks := o.g.requiredRanks ++ [s] } }
  | ["ap", x] => (argS x).map fun s => { o with g := { o.g with approxPatterns := o.g.approxPatterns ++ [s] } }
  | ["a", x] => (mapKV x).map fun kv => { o with g := { o.g with attrPatterns := mapPut kv.1 kv.2 o.g.attrPatterns } }
  | ["idl", x] =>
      if x = "-" then some { o with g := { o.g with idList := some [] } }
      else ((x.splitOn ",").mapM fun h => (unhexS h).bind fun s =>
              if s ≠ "" && s.trimAscii.toString = s && !(s.contains '\n') && !(s.contains '\r') then some s else none).map
            fun ids => { o with g := { o.g with idList := some ids } }
  | ["pm", x] => (argS x).bind fun m =>
      if m.any (fun c => c = ':' || c = ',' || c = ';' || c = '|') then none else some { o with mode := m, pmSet := true }
  | ["setid", x] => (argS x).map fun s => markA { o with a := { o.a with setId := s } }
  | ["del", x] => (argS x).map fun s => markA { o with a := { o.a with toBeDeleted := o.a.toBeDeleted ++ [s] } }
  | ["keep", x] => (argS x).map fun s => markA { o with a := { o.a with keepOnly := o.a.keepOnly ++ [s] } }
  | ["ren", x] => (mapKV x).map fun kv => markA { o with a := { o.a with toBeRenamed := mapPut kv.1 kv.2 o.a.toBeRenamed } }
  | ["tag", x] => (mapKV x).map fun kv => markA { o with a := { o.a with evalAttribute := mapPut kv.1 kv.2 o.a.evalAttribute } }
  | ["cut", x] =>
      match x.splitOn ":" with
      | [a, b] => do
        let a ← canonInt a
        let b ← canonInt b
        if a > 1000000 || a < -1000000 || b > 1000000 || b < -1000000 then none
        else pure (markA { o with a := { o.a with cut := (a, b) } })
      | _ => none
  | _ => none

def parseOpts (ws : List String) : Option Opts := ws.foldlM parseOpt {}

def runGrep (o : Opts) (recs : List (Rec × Option Rec)) (T : Tab) : String :=
  let p := cliPredicate (grepOracles T) o.g
  if o.paired then
    match parseMode o.mode with
    | none => "fatal"
    | some m =>
      "keep=" ++ String.join (recs.map fun (r, mate) =>
        match pairedEval m p r mate with
        | some true => "1"
        | some false => "0"
        | none => "F")
  else
    "keep=" ++ String.join (recs.map fun (r, _) =>
      match p.eval r with
      | some true => "1"
      | some false => "0"
      | none => "F")

def runAnnot (o : Opts) (recs : List (Rec × Option Rec)) (T : Tab) : String :=
  joinSp (recs.map fun (r, _) =>
    match pipeline (grepOracles T) o.g (annotOracles T) o.a r with
    | .out r => "out:" ++ showRec r
    | .absent => "absent"
    | .panic => "panic"
    | .fatal => "fatal")

def showIds (l : List String) : String := if l.isEmpty then "-" else ",".intercalate l

def idOK (s : String) : Bool := s ≠ "" && s.all fun c => c.isAlphanum || c = '_'
def seqOK (q : List UInt8) : Bool := !q.isEmpty && q.all fun b => 97 ≤ b && b ≤ 122

/-- end to end (`CLIFilterSequence` + writers): the ids of the kept / discarded files, in order.
`DivideOn` and the writers are the business of C03/C04: here the stream is its list of records. -/
def runGrepIO (o : Opts) (recs : List (Rec × Option Rec)) (T : Tab) : String :=
  let O := grepOracles T
  let all := recs.flatMap fun (r, m) => r :: m.toList
  if !(all.all fun r => idOK r.id && seqOK r.seq) then "bad-op"
  else if all.any (fun r => o.g.predicates.any fun e => (O.evalBool e r).isNone) then "bad-op"
  else
    match parseMode o.mode with
    | none => "bad-op"
    | some m =>
      let p := cliPredicate O o.g
      let verdict := fun (rm : Rec × Option Rec) =>
        if o.paired then pairedEval m p rm.1 rm.2 else p.eval rm.1
      let kept := recs.filter fun rm => verdict rm == some true
      let disc := recs.filter fun rm => verdict rm == some false
      let mates := fun (l : List (Rec × Option Rec)) => l.filterMap fun rm => rm.2.map (·.id)
      if o.paired then
        s!"kept1={showIds (kept.map (·.1.id))} kept2={showIds (mates kept)} disc1={showIds (disc.map (·.1.id))} disc2={showIds (mates disc)}"
      else
        s!"kept={showIds (kept.map (·.1.id))} disc={showIds (disc.map (·.1.id))}"

def both (f : Tab → String) (t : List (String × String)) : String :=
  let a := f ⟨t, false⟩
  let b := f ⟨t, true⟩
  if a = b then a else "oracle-miss"

def run (line : String) : String :=
  match line.splitOn " | " with
  | [head, recs, tab] =>
    match words head, parseRecs recs with
    | "grep" :: ws, some rs =>
      match parseOpts ws with
      | some o =>
        if o.hasAnnot || rs.any (fun rm => rm.2.isSome != o.paired) then "bad-op"
        else both (runGrep o rs) (parseTable tab)
      | none => "bad-op"
    | "grepio" :: ws, some rs =>
      match parseOpts ws with
      | some o =>
        if o.hasAnnot || rs.any (fun rm => rm.2.isSome != o.paired) then "bad-op"
        else both (runGrepIO o rs) (parseTable tab)
      | none => "bad-op"
    | "annot" :: ws, some rs =>
      match parseOpts ws with
      | some o =>
        if o.paired || o.pmSet || rs.any (fun rm => rm.2.isSome) then "bad-op"
        else both (runAnnot o rs) (parseTable tab)
      | none => "bad-op"
    | _, _ => "bad-op"
  | [head, recs] =>
    match words head, parseRecs recs with
    | ["class", k1, k2, na], some rs =>
      match unhexS k1, unhexS k2, unhexS na with
      | some k1, some k2, some na =>
        joinSp (rs.map fun (r, _) =>
          let c := dualClass k1 k2 na r
          hexS c.1 ++ "," ++ hexS c.2)
      | _, _, _ => "bad-op"
    | _, _ => "bad-op"
  | _ => "bad-op"

end ObiVerif.Driver.C16
