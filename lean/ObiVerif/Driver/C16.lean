import ObiVerif.Model.Grep
import ObiVerif.Model.Annotate
import ObiVerif.Model.Distribute
import ObiVerif.Model.Getopt
import ObiVerif.Driver.Util
/-!
line protocol for C16

```
grep  <grep options> | <records> | <oracle table>      -> keep=<one of 1 0 F per record>
annot <grep options> <annot options> | <records> | <oracle table>
                                                        -> one of out:<record> absent panic fatal per record
class <hex key1> <hex key2> <hex na> | <records>        -> <hex v1>,<hex v2> per record
grepio  <grep options> bs= w= [nosd] [lay=] [perm=] | <records> | <table>   -> kept=… [disc=…]
annotio <options> bs= w= [lay=] [perm=] | <records> | <table>               -> the output records, in order
distio  <dist options> bs= w= [lay=] [perm=] | <records>                     -> <file>=<ids> … (sorted by file)
argv <command> <hex argv words> | -                                          -> error:<class> or the option state
[race] conc <g> <r> grep|annot|class …   (a grep / annot / class case)         -> the result of that case (wave 3,
      `harness/c16_conc.go`: the records alone, then from g goroutines sharing the closure built once, r rounds)
```
`lay` (sizes of the input batches) and `perm` (their arrival order) only have to be consistent with
the number of records: the result does not depend on them (C03 + `grep_filter`, `annotate_stream`,
`distribute_*`).
records: `<rec> ; <rec> ; …`, a record being `<hex id>,<hex seq>,<attrs>` optionally followed by
` + <rec>` (its mate); attrs: `-` or `<hex key>=<val>;…`, val: `s<hex>` `i<int>` `b0` `b1`
`f<trunc>~<hex shown>`.  The oracle table gives the verdicts of the real libraries (`regexp`, gval,
obitax, obiapat) as data; a verdict the model asks for and the table lacks makes the result
`oracle-miss` (the model is run with both defaults and the two results compared).
-/
namespace ObiVerif.Driver.C16
open ObiVerif.Grep ObiVerif.Annotate ObiVerif.Driver

def asciiStr (l : List UInt8) : Option String :=
  if l.all (· < 128) then some (String.ofList (l.map fun b => Char.ofNat b.toNat)) else none

def unhexS (s : String) : Option String := (unhex s).bind asciiStr

def hexS (s : String) : String := hex (bytes s)

def parseVal (s : String) : Option AVal :=
  match s.toList with
  | 's' :: t => (unhexS (String.ofList t)).map .str
  | 'i' :: t => (String.ofList t).toInt?.map .int
  | ['b', '0'] => some (.bool false)
  | ['b', '1'] => some (.bool true)
  | 'm' :: t => (unhexS (String.ofList t)).map .other
  | 'f' :: t =>
    match (String.ofList t).splitOn "~" with
    | [a, b] => do
      let n ← a.toInt?
      let sh ← unhexS b
      pure (.flt sh n)
    | _ => none
  | _ => none

def showVal : AVal → String
  | .str s => "s" ++ hexS s
  | .int n => "i" ++ toString n
  | .bool b => if b then "b1" else "b0"
  | .flt sh t => "f" ++ toString t ++ "~" ++ hexS sh
  | .other sh => "m" ++ hexS sh

def parseAttrs (s : String) : Option (List (String × AVal)) :=
  if s = "-" then some [] else
  (s.splitOn ";").mapM fun kv =>
    match kv.splitOn "=" with
    | [k, v] => do
      let k ← unhexS k
      let v ← parseVal v
      pure (k, v)
    | _ => none

def parseRec (s : String) : Option Rec :=
  match s.splitOn "," with
  | [i, q, a] => do
    let id ← unhexS i
    let seq ← unhex q
    let attrs ← parseAttrs a
    pure { id := id, seq := seq, attrs := attrs }
  | _ => none

def insKV (kv : String × AVal) : List (String × AVal) → List (String × AVal)
  | [] => [kv]
  | x :: xs => if kv.1 ≤ x.1 then kv :: x :: xs else x :: insKV kv xs

def showAttrs (a : List (String × AVal)) : String :=
  if a.isEmpty then "-" else
  ";".intercalate ((a.foldr insKV []).map fun kv => hexS kv.1 ++ "=" ++ showVal kv.2)

def showRec (r : Rec) : String := hexS r.id ++ "," ++ hex r.seq ++ "," ++ showAttrs r.attrs

/-- a record and its optional mate -/
def parsePair (s : String) : Option (Rec × Option Rec) :=
  match s.splitOn " + " with
  | [a] => (parseRec a.trimAscii.toString).map fun r => (r, none)
  | [a, b] => do
    let r ← parseRec a.trimAscii.toString
    let m ← parseRec b.trimAscii.toString
    pure (r, some m)
  | _ => none

def parseRecs (s : String) : Option (List (Rec × Option Rec)) :=
  if s.trimAscii.toString = "" then some [] else (s.splitOn " ; ").mapM parsePair

/-- the oracle table: `key:verdict` tokens, key containing no space -/
def parseTable (s : String) : List (String × String) :=
  (words s).filterMap fun w =>
    match (w.splitOn ":").reverse with
    | v :: rest => some (":".intercalate rest.reverse, v)
    | [] => none

structure Tab where
  t : List (String × String)
  dflt : Bool

def Tab.bool (T : Tab) (k : String) : Bool :=
  match T.t.lookup k with
  | some "1" => true
  | some "0" => false
  | _ => T.dflt

def grepOracles (T : Tab) : Grep.Oracles where
  matchRe p s := T.bool ("re:" ++ hexS p ++ ":" ++ hex s)
  evalBool e r :=
    match T.t.lookup ("eb:" ++ hexS e ++ ":" ++ showRec r) with
    | some "1" => some true
    | some "0" => some false
    | some "E" => none
    | _ => if T.dflt then some true else none
  subCladeOf t r := T.bool ("txi:" ++ toString t ++ ":" ++ showRec r)
  subCladeOfSlot s r := T.bool ("txs:" ++ hexS s ++ ":" ++ showRec r)
  hasRank k r := T.bool ("txr:" ++ hexS k ++ ":" ++ showRec r)
  apat p e both indel r :=
    T.bool ("ap:" ++ hexS p ++ ":" ++ toString e ++ (if both then "b" else "f") ++ (if indel then "i" else "n") ++ ":" ++ showRec r)

def nat2? (s : String) : Option (Nat × Nat) :=
  match s.splitOn "," with
  | [a, b] => do
    let a ← a.toNat?
    let b ← b.toNat?
    pure (a, b)
  | _ => none

def annotOracles (T : Tab) (ahoPats : List String := []) : Annotate.Oracles where
  evalExpr e r :=
    match T.t.lookup ("ev:" ++ hexS e ++ ":" ++ showRec r) with
    | some "E" => none
    | some v => (parseVal v).orElse fun _ => if T.dflt then some (.str "?") else none
    | none => if T.dflt then some (.str "?") else none
  taxonAtRank rank r :=
    match T.t.lookup ("tar:" ++ hexS rank ++ ":" ++ showRec r) with
    | some "N" => none
    | some "-" => some none
    | some v =>
      match v.splitOn "," with
      | [a, b] =>
        match a.toInt?, unhexS b with
        | some t, some name => some (some (t, name))
        | _, _ => if T.dflt then some none else none
      | _ => if T.dflt then some none else none
    | none => if T.dflt then some none else none
  taxPath r := (T.t.lookup ("tpa:" ++ showRec r)).bind fun v => if v = "F" then none else unhexS v
  taxRank r := (T.t.lookup ("trk:" ++ showRec r)).bind fun v => if v = "F" then none else unhexS v
  sciName r := (T.t.lookup ("tsc:" ++ showRec r)).bind fun v => if v = "F" then none else unhexS v
  aho r :=
    match (T.t.lookup ("aho:" ++ ",".intercalate (ahoPats.map hexS) ++ ":" ++ showRec r)).bind nat2? with
    | some x => x
    | none => if T.dflt then (1, 0) else (0, 0)
  bestMatch pat e indel direct r :=
    match T.t.lookup ("bm:" ++ hexS pat ++ ":" ++ toString e ++ (if indel then "i" else "n") ++
        (if direct then "d" else "c") ++ ":" ++ showRec r) with
    | some "-" => none
    | some v =>
      match v.splitOn "," with
      | [a, b, c] =>
        match a.toNat?, b.toNat?, c.toInt? with
        | some a, some b, some c => some ⟨a, b, c⟩
        | _, _, _ => none
      | _ => none
    | none => if T.dflt then some ⟨0, 1, 0⟩ else none
  lca err r :=
    match T.t.lookup ("lca:" ++ (if err = "" then "-" else err) ++ ":" ++ showRec r) with
    | some "P" => none
    | some v =>
      match v.splitOn "," with
      | [st, t, n, e] =>
        match (if st = "-" then some none else (parseVal st).map some), t.toInt?, unhexS n, parseVal e with
        | some st, some t, some n, some e => some ⟨st, t, n, e⟩
        | _, _, _, _ => if T.dflt then some ⟨none, 0, "?", .int 0⟩ else none
      | _ => if T.dflt then some ⟨none, 0, "?", .int 0⟩ else none
    | none => if T.dflt then some ⟨none, 0, "?", .int 0⟩ else none

/-- Go map assignment on an ordered association list kept sorted by key -/
def mapPut (k v : String) : List (String × String) → List (String × String)
  | [] => [(k, v)]
  | x :: xs => if k = x.1 then (k, v) :: xs else if k < x.1 then (k, v) :: x :: xs else x :: mapPut k v xs

structure Opts where
  g : GrepOpts := {}
  a : AnnotOpts := {}
  paired : Bool := false
  mode : String := "forward"
  pmSet : Bool := false
  hasAnnot : Bool := false
  hasPatName : Bool := false
  hasCut : Bool := false
  nosd : Bool := false
  ahoPats : List String := []
  bs : Nat := 3
  lay : Option (List Nat) := none
  perm : Option (List Nat) := none

/-- a string that can be one argv word after an option -/
def argOK (s : String) : Bool :=
  s ≠ "" && s.front ≠ '-' && !(s.contains '\n') && !(s.contains '\t')

def canonInt (x : String) : Option Int :=
  match x.toInt? with
  | some n => if toString n = x && n ≤ 2100000000 && n ≥ -2100000000 then some n else none
  | none => none

def argS (x : String) : Option String := (unhexS x).bind fun s => if argOK s then some s else none

def pair2 (s : String) : Option (String × String) :=
  match s.splitOn ":" with
  | [a, b] => do
    let a ← unhexS a
    let b ← unhexS b
    pure (a, b)
  | _ => none

def mapKV (x : String) : Option (String × String) :=
  (pair2 x).bind fun kv =>
    if argOK kv.1 && !(kv.1.contains '=') && kv.2 ≠ "" && !(kv.2.contains '=') then some kv else none

def markA (o : Opts) : Opts := { o with hasAnnot := true }

/-- the `--lca-error` values of the cases: `0` or `0.ddd` (1 to 3 decimals) -/
def lcaErrOK (x : String) : Bool :=
  match x.toList with
  | ['0'] => true
  | '0' :: '.' :: ds => 1 ≤ ds.length && ds.length ≤ 3 && ds.all Char.isDigit
  | _ => false

/-- `a.b.c`: canonical naturals ≤ 1000, 1 to 64 of them -/
def natList (x : String) : Option (List Nat) :=
  ((x.splitOn ".").mapM fun w => (canonInt w).bind fun n => if 0 ≤ n && n ≤ 1000 then some n.toNat else none).bind
    fun l => if 1 ≤ l.length && l.length ≤ 64 then some l else none

/-- number of input batches of a pipeline case -/
def nBatches (bs : Nat) (lay : Option (List Nat)) (n : Nat) : Nat :=
  match lay with
  | some l => l.length
  | none => (n + bs - 1) / bs

def layPermOK (bs : Nat) (lay perm : Option (List Nat)) (n : Nat) : Bool :=
  (match lay with
   | some l => l.sum == n
   | none => true) &&
  (match perm with
   | some p => let k := nBatches bs lay n
               p.length == k && (List.range k).all fun i => p.contains i
   | none => true)

def parseOpt (o : Opts) (w : String) : Option Opts :=
  match w.splitOn "=" with
  | ["long"] => some o
  | ["nosd"] => some { o with nosd := true }
  | ["lay", x] => if o.lay.isSome then none else (natList x).map fun l => { o with lay := some l }
  | ["perm", x] => if o.perm.isSome then none else (natList x).map fun l => { o with perm := some l }
  | ["bs", x] => (canonInt x).bind fun n => if 1 ≤ n && n ≤ 50 then some { o with bs := n.toNat } else none
  | ["w", x] => (canonInt x).bind fun n => if 1 ≤ n && n ≤ 8 then some o else none
  | ["v"] => some { o with g := { o.g with invert := true } }
  | ["indel"] => some { o with g := { o.g with patternIndel := true } }
  | ["fwd"] => some { o with g := { o.g with patternOnlyForward := true } }
  | ["paired"] => some { o with paired := true }
  | ["clear"] => some (markA { o with a := { o.a with clearAll := true } })
  | ["len"] => some (markA { o with a := { o.a with setSeqLength := true } })
  | ["l", x] => (canonInt x).map fun n => { o with g := { o.g with minLength := n } }
  | ["L", x] => (canonInt x).map fun n => { o with g := { o.g with maxLength := n } }
  | ["c", x] => (canonInt x).map fun n => { o with g := { o.g with minCount := n } }
  | ["C", x] => (canonInt x).map fun n => { o with g := { o.g with maxCount := n } }
  | ["pe", x] => (canonInt x).bind fun n =>
      if 0 ≤ n && n ≤ 3 then some { o with g := { o.g with patternError := n } } else none
  | ["i", x] => (canonInt x).map fun n => { o with g := { o.g with notBelongTaxa := o.g.notBelongTaxa ++ [n] } }
  | ["s", x] => (argS x).map fun s => { o with g := { o.g with seqPatterns := o.g.seqPatterns ++ [s] } }
  | ["D", x] => (argS x).map fun s => { o with g := { o.g with defPatterns := o.g.defPatterns ++ [s] } }
  | ["I", x] => (argS x).map fun s => { o with g := { o.g with idPatterns := o.g.idPatterns ++ [s] } }
  | ["A", x] => (argS x).map fun s => { o with g := { o.g with requiredAttrs := o.g.requiredAttrs ++ [s] } }
  | ["p", x] => (argS x).map fun s => { o with g := { o.g with predicates := o.g.predicates ++ [s] } }
  | ["r", x] => (argS x).map fun s => { o with g := { o.g with belongTaxa := o.g.belongTaxa ++ [s] } }
  | ["rank", x] => (argS x).map fun s => { o with g := { o.g with requiredRanks := o.g.requiredRanks ++ [s] } }
  | ["ap", x] => (argS x).map fun s => { o with g := { o.g with approxPatterns := o.g.approxPatterns ++ [s] } }
  | ["a", x] => (mapKV x).map fun kv => { o with g := { o.g with attrPatterns := mapPut kv.1 kv.2 o.g.attrPatterns } }
  | ["idl", x] =>
      if x = "-" then some { o with g := { o.g with idList := some [] } }
      else ((x.splitOn ",").mapM fun h => (unhexS h).bind fun s =>
              if s ≠ "" && s.trimAscii.toString = s && !(s.contains '\n') && !(s.contains '\r') then some s else none).map
            fun ids => { o with g := { o.g with idList := some ids } }
  | ["pm", x] => (argS x).bind fun m =>
      if m.any (fun c => c = ':' || c = ',' || c = ';' || c = '|') then none else some { o with mode := m, pmSet := true }
  | ["path"] => some (markA { o with a := { o.a with taxonomicPath := true } })
  | ["trank"] => some (markA { o with a := { o.a with withRank := true } })
  | ["sci"] => some (markA { o with a := { o.a with withScientificName := true } })
  | ["atrank", x] => (argS x).map fun s => markA { o with a := { o.a with taxonAtRank := o.a.taxonAtRank ++ [s] } }
  | ["pat", x] => (argS x).bind fun s =>
      if o.a.pattern = "" && s.length ≤ 20 && s.all (fun c => c.isLower || c = '_') then
        some (markA { o with a := { o.a with pattern := s } }) else none
  | ["patname", x] => (argS x).bind fun s =>
      if !o.hasPatName && s.all (fun c => c.isLower || c = '_') then
        some (markA { o with hasPatName := true, a := { o.a with patternName := s } }) else none
  | ["lca", x] => (argS x).bind fun s =>
      if o.a.lcaSlot = "" && s.all (fun c => c.isLower || c = '_') then
        some (markA { o with a := { o.a with lcaSlot := s } }) else none
  | ["lcaerr", x] =>
      if o.a.lcaError = "" && lcaErrOK x then some (markA { o with a := { o.a with lcaError := x } }) else none
  | ["aho", x] =>
      if o.a.ahoCorasick then none else
      ((x.splitOn ",").mapM fun h => (unhexS h).bind fun q =>
          if q ≠ "" && q.all Char.isLower then some q else none).map
        fun l => markA { o with ahoPats := l, a := { o.a with ahoCorasick := true } }
  | ["setid", x] => (argS x).map fun s => markA { o with a := { o.a with setId := s } }
  | ["del", x] => (argS x).map fun s => markA { o with a := { o.a with toBeDeleted := o.a.toBeDeleted ++ [s] } }
  | ["keep", x] => (argS x).map fun s => markA { o with a := { o.a with keepOnly := o.a.keepOnly ++ [s] } }
  | ["ren", x] => (mapKV x).map fun kv => markA { o with a := { o.a with toBeRenamed := mapPut kv.1 kv.2 o.a.toBeRenamed } }
  | ["tag", x] => (mapKV x).map fun kv => markA { o with a := { o.a with evalAttribute := mapPut kv.1 kv.2 o.a.evalAttribute } }
  | ["cut", x] =>
      match x.splitOn ":" with
      | [a, b] => do
        let a ← canonInt a
        let b ← canonInt b
        if a > 1000000 || a < -1000000 || b > 1000000 || b < -1000000 then none
        else pure (markA { o with hasCut := true, a := { o.a with cut := (a, b) } })
      | _ => none
  | _ => none

/-- `--pattern-error` / `--allows-indels` are options of obigrep that `MatchPatternWorker` reads too -/
def parseOpts (ws : List String) : Option Opts :=
  (ws.foldlM parseOpt {}).map fun o =>
    { o with a := { o.a with patternError := o.g.patternError, patternIndel := o.g.patternIndel,
                             patternBothStrand := !o.g.patternOnlyForward } }

/-- the `--pattern` cases run on non-empty `acgt` sequences -/
def patSeqOK (o : Opts) (recs : List (Rec × Option Rec)) : Bool :=
  o.a.pattern = "" || recs.all fun rm => !rm.1.seq.isEmpty && rm.1.seq.all fun b => b = 97 || b = 99 || b = 103 || b = 116

def runGrep (o : Opts) (recs : List (Rec × Option Rec)) (T : Tab) : String :=
  let p := cliPredicate (grepOracles T) o.g
  if o.paired then
    match parseMode o.mode with
    | none => "fatal"
    | some m =>
      "keep=" ++ String.join (recs.map fun (r, mate) =>
        match pairedEval m p r mate with
        | some true => "1"
        | some false => "0"
        | none => "F")
  else
    "keep=" ++ String.join (recs.map fun (r, _) =>
      match p.eval r with
      | some true => "1"
      | some false => "0"
      | none => "F")

def runAnnot (o : Opts) (recs : List (Rec × Option Rec)) (T : Tab) : String :=
  if !patSeqOK o recs then "bad-op" else
  joinSp (recs.map fun (r, _) =>
    match pipeline (grepOracles T) o.g (annotOracles T o.ahoPats) o.a r with
    | .out r => "out:" ++ showRec r
    | .absent => "absent"
    | .panic => "panic"
    | .fatal => "fatal")

def showIds (l : List String) : String := if l.isEmpty then "-" else ",".intercalate l

def idOK (s : String) : Bool := s ≠ "" && s.all fun c => c.isAlphanum || c = '_'
/-- a class value that is a plain file name part: `[A-Za-z0-9_][A-Za-z0-9_.]*` -/
def keyOK (s : String) : Bool :=
  match s.toList with
  | c :: t => (c.isAlphanum || c = '_') && t.all fun c => c.isAlphanum || c = '_' || c = '.' || c = ':'
  | [] => false
/-- a directory value: `[A-Za-z0-9_][A-Za-z0-9_:]*` -/
def dirOK (s : String) : Bool :=
  match s.toList with
  | c :: t => (c.isAlphanum || c = '_') && t.all fun c => c.isAlphanum || c = '_' || c = ':'
  | [] => false
def seqOK (q : List UInt8) : Bool := !q.isEmpty && q.all fun b => 97 ≤ b && b ≤ 122

/-- end to end (`CLIFilterSequence` + writers): the ids of the kept / discarded files, in order.
`DivideOn` and the writers are the business of C03/C04: here the stream is its list of records. -/
def runGrepIO (o : Opts) (recs : List (Rec × Option Rec)) (T : Tab) : String :=
  let O := grepOracles T
  let all := recs.flatMap fun (r, m) => r :: m.toList
  if !(all.all fun r => idOK r.id && seqOK r.seq) then "bad-op"
  else if !layPermOK o.bs o.lay o.perm recs.length then "bad-op"
  else if all.any (fun r => o.g.predicates.any fun e => (O.evalBool e r).isNone) then "bad-op"
  else
    match parseMode o.mode with
    | none => "bad-op"
    | some m =>
      let p := cliPredicate O o.g
      let verdict := fun (rm : Rec × Option Rec) =>
        if o.paired then pairedEval m p rm.1 rm.2 else p.eval rm.1
      let kept := recs.filter fun rm => verdict rm == some true
      let disc := recs.filter fun rm => verdict rm == some false
      let mates := fun (l : List (Rec × Option Rec)) => l.filterMap fun rm => rm.2.map (·.id)
      if o.paired then
        s!"kept1={showIds (kept.map (·.1.id))} kept2={showIds (mates kept)}" ++
          (if o.nosd then "" else s!" disc1={showIds (disc.map (·.1.id))} disc2={showIds (mates disc)}")
      else
        s!"kept={showIds (kept.map (·.1.id))}" ++ (if o.nosd then "" else s!" disc={showIds (disc.map (·.1.id))}")

/-- obiannotate end to end: the stream of output records, in input order -/
def runAnnotIO (o : Opts) (recs : List (Rec × Option Rec)) (T : Tab) : String :=
  if !(recs.all fun rm => idOK rm.1.id && seqOK rm.1.seq) then "bad-op"
  else if !layPermOK o.bs o.lay o.perm recs.length || !patSeqOK o recs then "bad-op"
  else
    let outs := recs.map fun rm => pipeline (grepOracles T) o.g (annotOracles T o.ahoPats) o.a rm.1
    if outs.any (fun x => x == .panic || x == .fatal) then "bad-op"
    else
      let l := outs.filterMap fun x => match x with
        | .out r => some ("out:" ++ showRec r)
        | _ => none
      if l.isEmpty then "-" else joinSp l

/-! ### obidistribute -/

structure DOpts where
  d : Distribute.DistOpts := {}
  hasPat : Bool := false
  /-- `rawpat=`: the pattern as it is typed; refused = `CLIFileNamePattern` stops the program -/
  hasRaw : Bool := false
  refused : Bool := false
  bs : Nat := 3
  lay : Option (List Nat) := none
  perm : Option (List Nat) := none
  seen : List String := []
  /-- files present before the run -/
  old : List (String × List String) := []

def patOK (s : String) : Bool := s.all fun c => c.isAlphanum || c = '_' || c = '.'

/-- a pattern as it is typed (`rawpat=`): `[A-Za-z0-9_][A-Za-z0-9_.%\[\]+-]*` -/
def rawPatOK (s : String) : Bool :=
  match s.toList with
  | c :: t => (c.isAlphanum || c = '_') &&
    t.all fun c => c.isAlphanum || c = '_' || c = '.' || c = '%' || c = '[' || c = ']' || c = '+' || c = '-'
  | [] => false

/-- `old<digits>` -/
def oldIdOK (s : String) : Bool :=
  match s.toList with
  | 'o' :: 'l' :: 'd' :: ds => !ds.isEmpty && ds.all Char.isDigit
  | _ => false

def plainName (l : List Char) : Bool := !l.isEmpty && l.all fun c => c.isAlphanum || c = '_'

/-- a file present before the run: `name` or `dir/name` (name: `[A-Za-z0-9_][A-Za-z0-9_.]*`) -/
def oldNameOK (s : String) : Bool :=
  let base := fun (l : List Char) =>
    match l with
    | c :: t => (c.isAlphanum || c = '_') && t.all fun c => c.isAlphanum || c = '_' || c = '.'
    | [] => false
  match s.splitOn "/" with
  | [n] => base n.toList
  | [d, n] => plainName d.toList && base n.toList
  | _ => false

def parseOldFile (f : String) : Option (String × List String) :=
  match f.splitOn ":" with
  | [n, ids] => do
    let name ← unhexS n
    if !oldNameOK name then none
    let l ← if ids = "-" then some [] else
      (ids.splitOn ".").mapM fun h => (unhexS h).bind fun i => if oldIdOK i then some i else none
    pure (name, l)
  | _ => none

def parseOld (x : String) : Option (List (String × List String)) :=
  ((x.splitOn ",").mapM parseOldFile).bind fun (l : List (String × List String)) =>
    if (l.map (·.1)).Nodup && (l.flatMap (·.2)).Nodup then some l else none

def parseDOpt (o : DOpts) (w : String) : Option DOpts :=
  let name := (w.splitOn "=").head!
  if o.seen.contains name then none else
  let o := { o with seen := name :: o.seen }
  match w.splitOn "=" with
  | ["z"] => some { o with d := { o.d with compressed := true } }
  | ["long"] => some o
  | ["A"] => some { o with d := { o.d with append := true } }
  | ["old", x] => (parseOld x).map fun l => { o with old := l }
  | ["cl", x] => (argS x).map fun s => { o with d := { o.d with classifierTag := s } }
  | ["dir", x] => (argS x).map fun s => { o with d := { o.d with directoryTag := s } }
  | ["na", x] => (argS x).map fun s => { o with d := { o.d with naValue := s } }
  | ["n", x] => (canonInt x).bind fun n => if 1 ≤ n && n ≤ 64 then some { o with d := { o.d with batchCount := n } } else none
  | ["H", x] => (canonInt x).bind fun n => if 1 ≤ n && n ≤ 64 then some { o with d := { o.d with hashSize := n } } else none
  | ["bs", x] => (canonInt x).bind fun n => if 1 ≤ n && n ≤ 50 then some { o with bs := n.toNat } else none
  | ["w", x] => (canonInt x).bind fun n => if 1 ≤ n && n ≤ 8 then some o else none
  | ["lay", x] => (natList x).map fun l => { o with lay := some l }
  | ["perm", x] => (natList x).map fun l => { o with perm := some l }
  | ["rawpat", x] => do
    let raw ← unhexS x
    if !rawPatOK raw then none
    match o.d.withPattern raw with
    | some d => pure { o with hasRaw := true, d := d }
    | none => pure { o with hasRaw := true, refused := true }
  | ["pat", x] =>
    match x.splitOn ":" with
    | [a, b] => do
      let a ← unhexS a
      let b ← unhexS b
      if patOK a && patOK b && a ≠ "" && a.front ≠ '.' then
        pure { o with hasPat := true, d := { o.d with patPre := a, patSuf := b } }
      else none
    | _ => none
  | _ => none

/-- sorted insertion by file name (presentation only) -/
def insFile (f : String × List String) : List (String × List String) → List (String × List String)
  | [] => [f]
  | x :: xs => if f.1 ≤ x.1 then f :: x :: xs else x :: insFile f xs

/-! ### option state after parsing (tie with the real parser: `argv` cases) -/

def b01 (b : Bool) : String := if b then "1" else "0"
def lsS (l : List String) : String := "[" ++ ",".intercalate (l.map hexS) ++ "]"
def mpS (m : List (String × String)) : String := "{" ++ ",".intercalate (m.map fun kv => hexS kv.1 ++ ":" ++ hexS kv.2) ++ "}"

def needsTax (o : Opts) : Bool :=
  !o.g.belongTaxa.isEmpty || !o.g.notBelongTaxa.isEmpty || !o.g.requiredRanks.isEmpty ||
  !o.a.taxonAtRank.isEmpty || o.a.taxonomicPath || o.a.withRank || o.a.withScientificName || o.a.lcaSlot ≠ ""

/-- the option globals of `obigrep/options.go`, as `obigrep.VerifOptionState` prints them -/
def grepState (o : Opts) : String :=
  let g := o.g
  joinSp [
    "restrict-to-taxon=" ++ lsS g.belongTaxa,
    "ignore-taxon=[" ++ ",".intercalate (g.notBelongTaxa.map toString) ++ "]",
    "require-rank=" ++ lsS g.requiredRanks,
    s!"min-length={g.minLength}", s!"max-length={g.maxLength}", s!"min-count={g.minCount}", s!"max-count={g.maxCount}",
    "sequence=" ++ lsS g.seqPatterns, "definition=" ++ lsS g.defPatterns, "identifier=" ++ lsS g.idPatterns,
    "predicate=" ++ lsS g.predicates,
    "id-list=" ++ (if g.idList.isSome then "set" else "-"),
    "taxdump=" ++ (if needsTax o then "set" else "-"),
    "has-attribute=" ++ lsS g.requiredAttrs,
    "attribute=" ++ mpS g.attrPatterns,
    "inverse-match=" ++ b01 g.invert,
    "save-discarded=-",
    "paired-mode=" ++ hexS o.mode,
    "approx-pattern=" ++ lsS g.approxPatterns,
    s!"pattern-error={g.patternError}",
    "allows-indels=" ++ b01 g.patternIndel,
    "only-forward=" ++ b01 g.patternOnlyForward]

def cutS (c : Int × Int) (given : Bool) : String := if given then hexS s!"{c.1}:{c.2}" else "-"

/-- the option globals of `obiannotate/options.go`, as `obiannotate.VerifOptionState` prints them -/
def annotState (o : Opts) : String :=
  let a := o.a
  joinSp [
    "clear=" ++ b01 a.clearAll, "length=" ++ b01 a.setSeqLength,
    "aho-corasick=" ++ (if a.ahoCorasick then "set" else "-"),
    "pattern=" ++ hexS a.pattern, "pattern-name=" ++ hexS a.patternName,
    "add-lca-in=" ++ hexS a.lcaSlot,
    "set-identifier=" ++ hexS a.setId,
    "cut=" ++ cutS a.cut o.hasCut,
    "set-tag=" ++ mpS a.evalAttribute, "rename-tag=" ++ mpS a.toBeRenamed,
    "delete-tag=" ++ lsS a.toBeDeleted, "with-taxon-at-rank=" ++ lsS a.taxonAtRank,
    "taxonomic-path=" ++ b01 a.taxonomicPath, "taxonomic-rank=" ++ b01 a.withRank,
    "scientific-name=" ++ b01 a.withScientificName,
    "keep=" ++ lsS a.keepOnly]

def distState (d : Distribute.DistOpts) (hasPat : Bool) : String :=
  joinSp [
    "pattern=" ++ (if hasPat then hexS (d.patPre ++ "%s" ++ d.patSuf) else "-"),
    "classifier=" ++ hexS d.classifierTag, "directory=" ++ hexS d.directoryTag, "na-value=" ++ hexS d.naValue,
    s!"batches={d.batchCount}", "append=" ++ b01 d.append, s!"hash={d.hashSize}"]

def pipeTok (w : String) : Bool :=
  w = "long" || w = "nosd" || w.startsWith "bs=" || w.startsWith "w=" || w.startsWith "lay=" || w.startsWith "perm="

/-- `argv grep|annot|dist <form> <tokens>`: the option globals after the real parser has read the
argv spelling `form` of the specification -/
def runArgv (ws : List String) : String :=
  match ws with
  | cmd :: form :: toks =>
    if !(form = "0" || form = "1" || form = "2") then "bad-op"
    else if cmd = "dist" then
      if toks.any (fun w => w = "long" || w.startsWith "lay=" || w.startsWith "perm=" || w.startsWith "old=" || w.startsWith "rawpat=") then "bad-op" else
      match toks.foldlM parseDOpt {} with
      | none => "bad-op"
      | some o =>
        let d := o.d
        if !o.hasPat || (d.classifierTag = "" && d.batchCount = 0 && d.hashSize = 0) ||
            (d.directoryTag ≠ "" && d.classifierTag = "") then "bad-op"
        else distState d o.hasPat
    else if cmd = "grep" || cmd = "annot" then
      if toks.any pipeTok then "bad-op" else
      match parseOpts toks with
      | none => "bad-op"
      | some o =>
        if cmd = "grep" then (if o.hasAnnot then "bad-op" else grepState o)
        else grepState o ++ " " ++ annotState o
    else "bad-op"
  | _ => "bad-op"

/-! ### the tokenizer (`argvx` cases: raw argv words through the real command-line parser in a child process) -/

open ObiVerif.Getopt in
def grepStateE (st : Getopt.St) : String :=
  joinSp [
    "restrict-to-taxon=" ++ lsS (allValues st "restrict-to-taxon"),
    "ignore-taxon=[" ++ ",".intercalate (allValues st "ignore-taxon") ++ "]",
    "require-rank=" ++ lsS (allValues st "require-rank"),
    "min-length=" ++ lastValue st "min-length" "0", "max-length=" ++ lastValue st "max-length" "2000000000",
    "min-count=" ++ lastValue st "min-count" "0", "max-count=" ++ lastValue st "max-count" "2000000000",
    "sequence=" ++ lsS (allValues st "sequence"), "definition=" ++ lsS (allValues st "definition"),
    "identifier=" ++ lsS (allValues st "identifier"), "predicate=" ++ lsS (allValues st "predicate"),
    "id-list=" ++ hexS (lastValue st "id-list" ""), "taxdump=" ++ hexS (lastValue st "taxdump" ""),
    "has-attribute=" ++ lsS (allValues st "has-attribute"),
    "attribute=" ++ mpS (mapValues st "attribute"),
    "inverse-match=" ++ lastValue st "inverse-match" "0",
    "save-discarded=" ++ hexS (lastValue st "save-discarded" ""),
    "paired-mode=" ++ hexS (lastValue st "paired-mode" "forward"),
    "approx-pattern=" ++ lsS (allValues st "approx-pattern"),
    "pattern-error=" ++ lastValue st "pattern-error" "0",
    "allows-indels=" ++ lastValue st "allows-indels" "0",
    "only-forward=" ++ lastValue st "only-forward" "0"]

open ObiVerif.Getopt in
def annotStateE (st : Getopt.St) : String :=
  joinSp [
    "clear=" ++ lastValue st "clear" "0", "length=" ++ lastValue st "length" "0",
    "aho-corasick=" ++ hexS (lastValue st "aho-corasick" ""),
    "pattern=" ++ hexS (lastValue st "pattern" ""), "pattern-name=" ++ hexS (lastValue st "pattern-name" "pattern"),
    "add-lca-in=" ++ hexS (lastValue st "add-lca-in" ""),
    "set-identifier=" ++ hexS (lastValue st "set-identifier" ""),
    "cut=" ++ hexS (lastValue st "cut" ""),
    "set-tag=" ++ mpS (mapValues st "set-tag"), "rename-tag=" ++ mpS (mapValues st "rename-tag"),
    "delete-tag=" ++ lsS (allValues st "delete-tag"), "with-taxon-at-rank=" ++ lsS (allValues st "with-taxon-at-rank"),
    "taxonomic-path=" ++ lastValue st "taxonomic-path" "0", "taxonomic-rank=" ++ lastValue st "taxonomic-rank" "0",
    "scientific-name=" ++ lastValue st "scientific-name" "0",
    "keep=" ++ lsS (allValues st "keep"),
    "lca-error=" ++ lastValue st "lca-error" "0"]

open ObiVerif.Getopt in
def distStateE (st : Getopt.St) : String :=
  joinSp [
    "pattern=" ++ hexS (lastValue st "pattern" ""), "classifier=" ++ hexS (lastValue st "classifier" ""),
    "directory=" ++ hexS (lastValue st "directory" ""), "na-value=" ++ hexS (lastValue st "na-value" "NA"),
    "batches=" ++ lastValue st "batches" "0", "append=" ++ lastValue st "append" "0",
    "hash=" ++ lastValue st "hash" "0"]

def showErr : Getopt.Err → String
  | .ambiguous w => "ambiguous " ++ hexS w
  | .missing a => "missing-arg " ++ hexS a
  | .dashArg a => "dash-arg " ++ hexS a
  | .badInt a v => "int " ++ hexS a ++ " " ++ hexS v
  | .badFloat a v => "float " ++ hexS a ++ " " ++ hexS v
  | .notKV a => "keyvalue " ++ hexS a
  | .unknown n => "unknown " ++ hexS n
  | .required _ => "required"

/-- `argvx <command> <expectation> <hex argv words…>`: exit status and message class, or the option
globals and the remaining words -/
def runArgvx (ws : List String) : String :=
  match ws with
  | cmd :: _expect :: hexWords =>
    match hexWords.mapM (fun h => if h = "-" then some "" else unhexS h) with
    | none => "bad-op"
    | some argv =>
      if argv.any (fun w => w.contains '\n') then "bad-op" else
      let go := fun (decls : List Getopt.Decl) (state : Getopt.St → String) =>
        match Getopt.outcome decls argv with
        | .ok st => "ok " ++ state st ++ " rest=[" ++ ",".intercalate (st.text.map hexS) ++ "]"
        | .help => "exit=1 help"
        | .version => "exit=0 version"
        | .error e => "exit=1 " ++ showErr e
      if cmd = "grep" then go Getopt.grepDecls grepStateE
      else if cmd = "annot" then go Getopt.annotDecls (fun st => grepStateE st ++ " " ++ annotStateE st)
      else if cmd = "dist" then go Getopt.distDecls distStateE
      else "bad-op"
  | _ => "bad-op"

def runDistIO (ws : List String) (recs : List (Rec × Option Rec)) : String :=
  match ws.foldlM parseDOpt {} with
  | none => "bad-op"
  | some o =>
    let d := o.d
    if o.hasPat == o.hasRaw || (d.classifierTag = "" && d.batchCount = 0 && d.hashSize = 0) ||
        (d.directoryTag ≠ "" && d.classifierTag = "") then "bad-op"
    else if o.refused && (d.append || !o.old.isEmpty) then "bad-op"
    else if !layPermOK o.bs o.lay o.perm recs.length then "bad-op"
    else if recs.any (fun rm => rm.2.isSome || !idOK rm.1.id || !seqOK rm.1.seq || rm.1.id.startsWith "old") then "bad-op"
    else if !(recs.map (·.1.id)).Nodup then "bad-op"
    else
      match Distribute.cliClassifier d with
      | none => "bad-op"
      | some c =>
        let rs := recs.map (·.1)
        -- class values that are not plain file names are not end-to-end cases
        if (rs.zipIdx).any (fun ri =>
            let kd := Distribute.classOf c ri.2 ri.1
            !keyOK kd.1 || (kd.2 ≠ "" && !dirOK kd.2)) then "bad-op"
        else if o.refused then "panic"
        else
          let files := (Distribute.distributeFilesOn d c o.old rs).foldr insFile []
          if files.isEmpty then "-"
          else joinSp (files.map fun f => f.1 ++ "=" ++ showIds f.2)

def both (f : Tab → String) (t : List (String × String)) : String :=
  let a := f ⟨t, false⟩
  let b := f ⟨t, true⟩
  if a = b then a else "oracle-miss"

/-- the record-level operations take no pipeline token -/
def plain (o : Opts) : Bool := o.nosd || o.lay.isSome || o.perm.isSome

/-- the sequential cases (every op but `conc`) -/
def runSeq (line : String) : String :=
  match line.splitOn " | " with
  | [head, recs, tab] =>
    match words head, parseRecs recs with
    | "grep" :: ws, some rs =>
      match parseOpts ws with
      | some o =>
        if o.hasAnnot || rs.any (fun rm => rm.2.isSome != o.paired) || plain o then "bad-op"
        else both (runGrep o rs) (parseTable tab)
      | none => "bad-op"
    | "grepio" :: ws, some rs =>
      match parseOpts ws with
      | some o =>
        if o.hasAnnot || rs.any (fun rm => rm.2.isSome != o.paired) then "bad-op"
        else both (runGrepIO o rs) (parseTable tab)
      | none => "bad-op"
    | "annot" :: ws, some rs =>
      match parseOpts ws with
      | some o =>
        if o.paired || o.pmSet || rs.any (fun rm => rm.2.isSome) || plain o then "bad-op"
        else both (runAnnot o rs) (parseTable tab)
      | none => "bad-op"
    | "annotio" :: ws, some rs =>
      match parseOpts ws with
      | some o =>
        if o.paired || o.pmSet || o.nosd || rs.any (fun rm => rm.2.isSome) then "bad-op"
        else both (runAnnotIO o rs) (parseTable tab)
      | none => "bad-op"
    | _, _ => "bad-op"
  | [head, recs] =>
    match words head, parseRecs recs with
    | "argv" :: ws, _ => if recs = "-" then runArgv ws else "bad-op"
    | "argvx" :: ws, _ => if recs = "-" then runArgvx ws else "bad-op"
    | "distio" :: ws, some rs => runDistIO ws rs
    | ["class", k1, k2, na], some rs =>
      match unhexS k1, unhexS k2, unhexS na with
      | some k1, some k2, some na =>
        joinSp (rs.map fun (r, _) =>
          let c := dualClass k1 k2 na r
          hexS c.1 ++ "," ++ hexS c.2)
      | _, _, _ => "bad-op"
    | _, _ => "bad-op"
  | _ => "bad-op"

/-! ### concurrent use (`harness/c16_conc.go`) -/

/-- `g` goroutines (1..64), `r` rounds (1..500), written canonically -/
def concCount (s : String) (hi : Nat) : Bool :=
  match s.toNat? with
  | some n => 1 ≤ n && n ≤ hi && toString n == s
  | none => false

/-- `conc <g> <r> grep|annot|class …`: the answers of the records run ALONE, one after the other, through the predicate /
annotation worker / classifier, i.e. the sequential case; the harness demands the same answers from every call made from
`g` goroutines sharing the closure built once by the real option-to-closure code (`r` rounds, fresh records per goroutine).
`race conc …`: the same cases through a `-race` build of the harness. -/
def runConc (ws : List String) : String :=
  match ws with
  | g :: r :: op :: rest =>
    if concCount g 64 && concCount r 500 && (op = "grep" || op = "annot" || op = "class") then
      runSeq (" ".intercalate (op :: rest))
    else "bad-op"
  | _ => "bad-op"

def run (line : String) : String :=
  match line.splitOn " " with
  | "conc" :: ws => runConc ws
  | "race" :: "conc" :: ws => runConc ws
  | _ => runSeq line

end ObiVerif.Driver.C16
