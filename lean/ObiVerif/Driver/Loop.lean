/-! stdin/stdout loop shared by the per-property model executables `vm_<id>` -/
namespace ObiVerif.Driver

partial def loop (h : IO.FS.Stream) (out : IO.FS.Stream) (f : String → String) : IO Unit := do
  let line ← h.getLine
  if line.isEmpty then return ()
  let l := if line.endsWith "\n" then (line.dropEnd 1).toString else line
  out.putStrLn (f l)
  loop h out f

def mainLoop (f : String → String) : IO UInt32 := do
  let out ← IO.getStdout
  loop (← IO.getStdin) out f
  out.flush
  return 0

end ObiVerif.Driver
