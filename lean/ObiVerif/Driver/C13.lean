import ObiVerif.Model.Clean
import ObiVerif.Model.CleanF
import ObiVerif.Model.Race
import ObiVerif.Driver.Util
/-! line protocol for C13 (see harness/c13.go):

    g <workers> <maxError> <p> <q> <count>:<hexseq> ...             one sample
    a <workers> <maxError> <p> <q> <hexseq>/<s>=<n>,<s>=<n> ...     several samples, annotations (hook that replays the steps)
    c <workers> <maxError> <p> <q> <head 0|1> <hexseq>/<s>=<n>,...   several samples through the REAL `CLIOBIClean` (options
                                                                     --distance, --ratio, --head, workers): the records written
    race <one of the above>                                          same result (the harness replays it under the race detector)
    fact soncount                                                    `synchronised` : the structural fact (every write of SonCount in the
                                                                     two pool functions is under Lock/Unlock or sync/atomic) the model assumes

Besides the sequential reference `cleanSample`, every `g`/`a` sample is also pushed through the worker-pool model
of `Model/Race.lean` (`workers` threads, rows dealt round-robin, a pseudo-random interleaving of ATOMIC increments)
and the answer is `schedule-mismatch` if that differs from the reference (a test of `graph_schedule_independent`
on concrete values); the verbatim index-loop layers of the two kernels (`d1or0`, `fastLCSScore`) are executed
side by side with the structural layers the model uses (`layer-mismatch` / `panic`); the closed form of the weights
(`specWeights`, Props/C13W.lean `weights_closed_form_list`) is recomputed next to the loop (`spec-mismatch`). -/
namespace ObiVerif.Driver.C13
open ObiVerif.Clean ObiVerif.Driver
open ObiVerif.Lcs (Seq d1or0 d1F fastLCSScore bandLCS)

def insStr (a : String) : List String → List String
  | [] => [a]
  | x :: xs => if a ≤ x then a :: x :: xs else x :: insStr a xs
def sortStr (l : List String) : List String := l.foldr insStr []

def showEdge (e : Edge) : String := s!"{e.father}.{e.dist}.{e.pos}.{e.frm.toNat}.{e.to.toNat}"

def showMuts (outs : List Out) (o : Out) : List String :=
  (mutations outs o).map (fun (k, v) => s!"s{k}={v}")

def showOut (outs : List Out) (o : Out) : String :=
  s!"{o.node.orig}/{o.node.count}/{o.weight}/{o.sons}/{(status o.edges o.sons).str}/" ++
  ",".intercalate (o.edges.map showEdge) ++ "/" ++ ",".intercalate (sortStr (showMuts outs o).eraseDups)

/-- the verbatim layers agree with the structural ones on every pair the graph construction looks at -/
def layersOK (cfg : Config) (ns : List Node) : Option String :=
  let arr := ns.toArray
  let n := arr.size
  (List.range n).foldl (fun acc i =>
    (List.range' (i + 1) (n - (i + 1))).foldl (fun acc j =>
      match acc with
      | some e => some e
      | none =>
        let a := (arr.getD i ⟨0, 0, []⟩).seq
        let b := (arr.getD j ⟨0, 0, []⟩).seq
        match d1or0 a b with
        | .error .panic => some "panic"
        | .error .fuel => some "layer-mismatch"
        | .ok d =>
          if d ≠ d1F a b then some "layer-mismatch" else
          if cfg.maxError > 1 ∧ d.verdict < 0 then
            match fastLCSScore a b cfg.maxError, bandLCS a b cfg.maxError with
            | .ok (s, l), some (s', l') => if s = s' ∧ l = l' then none else some "layer-mismatch"
            | .ok (s, l), none => if s = -1 ∧ l = -1 then none else some "layer-mismatch"
            | .error .panic, _ => some "panic"
            | .error .fuel, _ => some "layer-mismatch"
          else none) acc) none

/-- a deterministic pseudo-random complete schedule for `threads` : picks a non-finished thread by an LCG -/
def picksFor (lens : List Nat) (seed : Nat) : List Nat :=
  let total := lens.sum
  let w := lens.length
  if w = 0 then [] else
  ((List.range (2 * total + 4 * w)).foldl (fun (acc : List Nat × Nat) _ =>
    let x := (acc.2 * 1103515245 + 12345) % 2147483648
    ((x / 65536) % w :: acc.1, x)) ([], seed)).1 ++ (List.range w).flatMap (fun t => List.replicate (lens.getD t 0) t)

/-- the worker pool of `Model/Race.lean` on this sample: `workers` threads, rows dealt round-robin, atomic
increments, a pseudo-random complete interleaving: must give the sequential reference -/
def poolAgrees (K : Kernels) (cfg : Config) (workers : Nat) (sample : List Node) : Bool :=
  let ns := (sortByCount sample).toArray
  let n := ns.size
  let mk (rows : List Nat) (shift : Nat) : Race.Sched :=
    let assign := (List.range workers).map (fun t => rows.filter (fun i => (i + shift) % workers == t))
    let lens := assign.map (fun rows => rows.length * n)
    { assign := assign.map List.reverse, picks := picksFor lens (n + shift + workers) }
  let es1 := edges1 K ns
  let s1 := mk (List.range n) 0
  let s2 := mk ((List.range n).filter (fun i => (es1.getD i []).isEmpty)) 1
  let m1 := Race.parMachine (rowEdges1 K ns) true s1.assign s1.picks
  let m2 := Race.parMachine (fun i => if cfg.maxError > 1 then rowEdges2 K cfg.maxError ns (es1.getD i []) i else [])
    true s2.assign s2.picks
  m1.done && m2.done &&
  (match Race.cleanSamplePar K cfg sample true s1 s2, cleanSample K cfg sample with
   | .ok a, .ok b => a == b
   | .hang, .hang => true
   | _, _ => false)

def runSample (cfg : Config) (workers : Nat) (sample : List Node) : Except String (List Out) :=
  match layersOK cfg (sortByCount sample) with
  | some e => .error e
  | none =>
    if !poolAgrees realKernels cfg workers sample then .error "schedule-mismatch" else
    match cleanSample realKernels cfg sample with
    | .hang => .error "hang"
    | .ok outs =>
      -- the closed form of the weights (`weights_closed_form_list`), recomputed next to the loop
      let ns := (sortByCount sample).toArray
      let spec := specWeights (ns.toList.map (·.count)).toArray (edges1 realKernels ns).toArray
      if spec != outs.map (·.weight) then .error "spec-mismatch" else
      -- round 3: the answer is the run with the float64 arithmetic of the code (`Model/F64.lean`, `cleanSampleA floatArith`);
      -- where it equals the exact-rational run (`floatSafe`) every theorem of Props/C13 / C13W is about it
      if !rangeOK realKernels cfg sample then .error "fp-range" else
      match cleanSampleA floatArith realKernels cfg sample with
      | .hang => .error "hang"
      | .ok outsF => .ok outsF

def plain (s : Seq) : Bool := s.all (fun b => 97 ≤ b ∧ b ≤ 122)

def parseG (w : String) : Option (Nat × Seq) :=
  match w.splitOn ":" with
  | [c, h] => do
    let c ← c.toNat?
    let s ← unhex h
    if c > 1073741824 ∨ !plain s then none else pure (c, s)
  | _ => none

def parseKV (w : String) : Option (Char × Nat) :=
  match w.toList with
  | k :: '=' :: rest => do
    let n ← (String.ofList rest).toNat?
    if 'a' ≤ k ∧ k ≤ 'z' ∧ n ≤ 1073741824 then pure (k, n) else none
  | _ => none

def parseA (w : String) : Option (Seq × List (Char × Nat)) :=
  match w.splitOn "/" with
  | [h, m] => do
    let s ← unhex h
    let kv ← (m.splitOn ",").mapM parseKV
    if !plain s ∨ (kv.map (·.1)).eraseDups.length ≠ kv.length then none else pure (s, kv)
  | _ => none

def header (ws : List String) : Option (Nat × Config) :=
  match nats? ws with
  | some [w, d, p, q] => if w < 1 ∨ w > 64 ∨ q < 1 ∨ d > 8 then none else some (w, { maxError := d, p := p, q := q })
  | _ => none

def showAnnot (a : Annot) : String :=
  let nm (n : Nat) : String := if n == 78 then "NA" else String.singleton (Char.ofNat n)
  s!"{if a.head then 1 else 0}/{a.headCount}/{a.internalCount}/{a.singletonCount}/{a.sampleCount}/" ++
    ",".intercalate (a.status.map (fun (n, st) => s!"{nm n}={st.str}")) ++ "/" ++
    ",".intercalate (a.weight.map (fun (n, w) => s!"{nm n}={w}")) ++ "/" ++
    ",".intercalate (sortStr ((a.mutation.map (fun (k, v) => s!"s{k}={v}")).eraseDups))

def toDb (items : List (Seq × List (Char × Nat))) : List Rec :=
  items.map (fun it => { seq := it.1, counts := it.2.map (fun kv => (kv.1.toNat, kv.2)) })

/-- the data-set model `cleanDataset` (after the per-sample side checks of `runSample`) -/
def runDataset (workers : Nat) (cfg : Config) (db : List Rec) : Except String (List Annot) :=
  match (sampleNames db).mapM (fun name => runSample cfg workers (sampleOf db name)) with
  | .error e => .error e
  | .ok _ =>
    match cleanDatasetA floatArith realKernels cfg db with
    | none => .error "hang"
    | some as => .ok as

def runA (workers : Nat) (cfg : Config) (items : List (Seq × List (Char × Nat))) : String :=
  match runDataset workers cfg (toDb items) with
  | .error e => e
  | .ok as => if as.isEmpty then "-" else joinSp (as.map showAnnot)

/-- the real `CLIOBIClean` : the records written (all of them, or the heads with `--head`), in output order -/
def runC (workers : Nat) (cfg : Config) (onlyHead : Bool) (items : List (Seq × List (Char × Nat))) : String :=
  match runDataset workers cfg (toDb items) with
  | .error e => e
  | .ok as =>
    let out := cliOutput onlyHead as
    if out.isEmpty then "-" else joinSp (out.map (fun (i, a) => s!"{i}:{showAnnot a}"))

/-! ### round 3: `f` (a `g` sample + whether float64 and exact rationals differ on it), `x` (every option of the command,
the `--save-ratio` table and the `--save-graph` files) -/

def nmS (n : Nat) : String := if n == 78 then "NA" else String.singleton (Char.ofNat n)

/-- item of an `x` line: `hex/a=5,b=7` (a `merged_<attr>` map), `hex/a~7` (no map: attribute `<attr> = a`, count 7),
`hex/~7` (neither: the sample is "NA") -/
def parseX (w : String) : Option (Seq × List (Char × Nat)) :=
  match w.splitOn "/" with
  | [h, m] =>
    match m.splitOn "~" with
    | [k, c] => do
      let s ← unhex h
      let n ← c.toNat?
      if !plain s ∨ n = 0 ∨ n > 1073741824 then none else
      match k.toList with
      | [] => pure (s, [('N', n)])
      | [ch] => if 'a' ≤ ch ∧ ch ≤ 'z' then pure (s, [(ch, n)]) else none
      | _ => none
    | _ => parseA w
  | _ => none

def decodeNuc (c : Nat) : String := String.singleton ("-acgt".toList.getD c '-')

def showRatioRow (r : RatioRow) : String :=
  s!"{nmS r.sample},s{r.father},{r.fstatus.str},{decodeNuc (r.pair / 5)},{decodeNuc (r.pair % 5)},{r.wFrom},{r.wTo},{r.cFrom},{r.cTo},{r.pos},{r.length},{r.na},{r.nc},{r.ng},{r.nt}"

def showGml (minEval : Nat) (r : Nat × List Out) : String :=
  let g := gmlOf minEval r.2
  let b (x : Bool) : String := if x then "1" else "0"
  s!"{nmS r.1}:" ++ ",".intercalate (g.1.map (fun (i, c, h, sq, w) => s!"{i}.{b c}.{b h}.{sq}.{w}")) ++ "/" ++
    ",".intercalate (g.2.map (fun (i, f, d) => s!"{i}>{f}.{d}"))

def runX (workers : Nat) (cfg : Config) (onlyHead : Bool) (minEval : Nat) (items : List (Seq × List (Char × Nat))) : String :=
  let db := toDb items
  match runDataset workers cfg db with
  | .error e => e
  | .ok as =>
    match runSamples (fun _ s => cleanSampleA floatArith realKernels cfg s) db with
    | none => "hang"
    | some res =>
      let out := cliOutput onlyHead as
      let recs := if out.isEmpty then "-" else joinSp (out.map (fun (i, a) => s!"{i}:{showAnnot a}"))
      let rows := sortStr ((ratioRows minEval res).map showRatioRow)
      -- the file order: by pair code, then samples by increasing name (`ratioRows`)
      let ordered := (ratioRows minEval res).map showRatioRow
      recs ++ " | " ++ (if rows.isEmpty then "-" else ";".intercalate rows) ++
        " | " ++ (if ordered.isEmpty then "-" else ";".intercalate ordered) ++
        " | " ++ (if res.isEmpty then "-" else ";".intercalate (res.map (showGml minEval)))

def runWords : List String → String
  | ["fact", "soncount"] => "synchronised"   -- the hypothesis `atomic = true` of `graph_schedule_independent`
  | "race" :: rest => runWords rest
  | "g" :: w :: d :: p :: q :: items =>
    match header [w, d, p, q], items.mapM parseG with
    | some (workers, cfg), some items =>
      if items.any (fun it => it.1 == 0) then "bad-op" else
      let sample : List Node := items.zipIdx.map (fun (it, i) => { orig := i, count := it.1, seq := it.2 })
      match runSample cfg workers sample with
      | .error e => e
      | .ok outs => if outs.isEmpty then "-" else joinSp (outs.map (showOut outs))
    | _, _ => "bad-op"
  | "f" :: w :: d :: p :: q :: items =>
    match header [w, d, p, q], items.mapM parseG with
    | some (workers, cfg), some items =>
      if items.any (fun it => it.1 == 0) then "bad-op" else
      let sample : List Node := items.zipIdx.map (fun (it, i) => { orig := i, count := it.1, seq := it.2 })
      match runSample cfg workers sample with
      | .error e => e
      | .ok outs =>
        let fx := if floatSafe realKernels cfg sample then "0" else "1"
        (if outs.isEmpty then "-" else joinSp (outs.map (showOut outs))) ++ " fx=" ++ fx
    | _, _ => "bad-op"
  | "x" :: w :: d :: p :: q :: h :: me :: attr :: items =>
    match header [w, d, p, q], items.mapM parseX, me.toNat? with
    | some (workers, cfg), some items, some minEval =>
      if items.any (fun it => it.2.any (fun kv => kv.2 == 0)) ∨ (h ≠ "0" ∧ h ≠ "1") ∨ attr.isEmpty then "bad-op"
      else runX workers cfg (h == "1") minEval items
    | _, _, _ => "bad-op"
  | "a" :: w :: d :: p :: q :: items =>
    match header [w, d, p, q], items.mapM parseA with
    | some (workers, cfg), some items =>
      if items.any (fun it => it.2.any (fun kv => kv.2 == 0)) then "bad-op" else runA workers cfg items
    | _, _ => "bad-op"
  | "c" :: w :: d :: p :: q :: h :: items =>
    match header [w, d, p, q], items.mapM parseA with
    | some (workers, cfg), some items =>
      if items.any (fun it => it.2.any (fun kv => kv.2 == 0)) ∨ (h ≠ "0" ∧ h ≠ "1") then "bad-op"
      else runC workers cfg (h == "1") items
    | _, _ => "bad-op"
  | _ => "bad-op"

def run (line : String) : String := runWords (words line)

end ObiVerif.Driver.C13
