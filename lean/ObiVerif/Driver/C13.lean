import ObiVerif.Model.Clean
import ObiVerif.Model.Race
import ObiVerif.Driver.Util
/-! line protocol for C13 (see harness/c13.go):

    g <workers> <maxError> <p> <q> <count>:<hexseq> ...             one sample
    a <workers> <maxError> <p> <q> <hexseq>/<s>=<n>,<s>=<n> ...     several samples, annotations
    race <one of the above>                                          same result (the harness replays it under the race detector)
    fact soncount                                                    `synchronised` : the structural fact (every write of SonCount in the
                                                                     two pool functions is under Lock/Unlock or sync/atomic) the model assumes

Besides the sequential reference `cleanSample`, every `g`/`a` sample is also pushed through the worker-pool model
of `Model/Race.lean` (`workers` threads, rows dealt round-robin, a pseudo-random interleaving of ATOMIC increments)
and the answer is `schedule-mismatch` if that differs from the reference (a test of `graph_schedule_independent`
on concrete values); the verbatim index-loop layers of the two kernels (`d1or0`, `fastLCSScore`) are executed
side by side with the structural layers the model uses (`layer-mismatch` / `panic`). -/
namespace ObiVerif.Driver.C13
open ObiVerif.Clean ObiVerif.Driver
open ObiVerif.Lcs (Seq d1or0 d1F fastLCSScore bandLCS)

def insStr (a : String) : List String → List String
  | [] => [a]
  | x :: xs => if a ≤ x then a :: x :: xs else x :: insStr a xs
def sortStr (l : List String) : List String := l.foldr insStr []

def showEdge (e : Edge) : String := s!"{e.father}.{e.dist}.{e.pos}.{e.frm.toNat}.{e.to.toNat}"

def showMuts (outs : List Out) (o : Out) : List String :=
  (mutations outs o).map (fun (k, v) => s!"s{k}={v}")

def showOut (outs : List Out) (o : Out) : String :=
  s!"{o.node.orig}/{o.node.count}/{o.weight}/{o.sons}/{(status o.edges o.sons).str}/" ++
  ",".intercalate (o.edges.map showEdge) ++ "/" ++ ",".intercalate (sortStr (showMuts outs o).eraseDups)

/-- the verbatim layers agree with the structural ones on every pair the graph construction looks at -/
def layersOK (cfg : Config) (ns : List Node) : Option String :=
  let arr := ns.toArray
  let n := arr.size
  (List.range n).foldl (fun acc i =>
    (List.range' (i + 1) (n - (i + 1))).foldl (fun acc j =>
      match acc with
      | some e => some e
      | none =>
        let a := (arr.getD i ⟨0, 0, []⟩).seq
        let b := (arr.getD j ⟨0, 0, []⟩).seq
        match d1or0 a b with
        | .error .panic => some "panic"
        | .error .fuel => some "layer-mismatch"
        | .ok d =>
          if d ≠ d1F a b then some "layer-mismatch" else
          if cfg.maxError > 1 ∧ d.verdict < 0 then
            match fastLCSScore a b cfg.maxError, bandLCS a b cfg.maxError with
            | .ok (s, l), some (s', l') => if s = s' ∧ l = l' then none else some "layer-mismatch"
            | .ok (s, l), none => if s = -1 ∧ l = -1 then none else some "layer-mismatch"
            | .error .panic, _ => some "panic"
            | .error .fuel, _ => some "layer-mismatch"
          else none) acc) none

/-- a deterministic pseudo-random complete schedule for `threads` : picks a non-finished thread by an LCG -/
def picksFor (lens : List Nat) (seed : Nat) : List Nat :=
  let total := lens.sum
  let w := lens.length
  if w = 0 then [] else
  ((List.range (2 * total + 4 * w)).foldl (fun (acc : List Nat × Nat) _ =>
    let x := (acc.2 * 1103515245 + 12345) % 2147483648
    ((x / 65536) % w :: acc.1, x)) ([], seed)).1 ++ (List.range w).flatMap (fun t => List.replicate (lens.getD t 0) t)

/-- the worker pool of `Model/Race.lean` on this sample: `workers` threads, rows dealt round-robin, atomic
increments, a pseudo-random complete interleaving: must give the sequential reference -/
def poolAgrees (K : Kernels) (cfg : Config) (workers : Nat) (sample : List Node) : Bool :=
  let ns := (sortByCount sample).toArray
  let n := ns.size
  let mk (rows : List Nat) (shift : Nat) : Race.Sched :=
    let assign := (List.range workers).map (fun t => rows.filter (fun i => (i + shift) % workers == t))
    let lens := assign.map (fun rows => rows.length * n)
    { assign := assign.map List.reverse, picks := picksFor lens (n + shift + workers) }
  let es1 := edges1 K ns
  let s1 := mk (List.range n) 0
  let s2 := mk ((List.range n).filter (fun i => (es1.getD i []).isEmpty)) 1
  let m1 := Race.parMachine (rowEdges1 K ns) true s1.assign s1.picks
  let m2 := Race.parMachine (fun i => if cfg.maxError > 1 then rowEdges2 K cfg.maxError ns (es1.getD i []) i else [])
    true s2.assign s2.picks
  m1.done && m2.done &&
  (match Race.cleanSamplePar K cfg sample true s1 s2, cleanSample K cfg sample with
   | .ok a, .ok b => a == b
   | .hang, .hang => true
   | _, _ => false)

def runSample (cfg : Config) (workers : Nat) (sample : List Node) : Except String (List Out) :=
  match layersOK cfg (sortByCount sample) with
  | some e => .error e
  | none =>
    if !poolAgrees realKernels cfg workers sample then .error "schedule-mismatch" else
    match cleanSample realKernels cfg sample with
    | .hang => .error "hang"
    | .ok outs => .ok outs

def plain (s : Seq) : Bool := s.all (fun b => 97 ≤ b ∧ b ≤ 122)

def parseG (w : String) : Option (Nat × Seq) :=
  match w.splitOn ":" with
  | [c, h] => do
    let c ← c.toNat?
    let s ← unhex h
    if c > 1073741824 ∨ !plain s then none else pure (c, s)
  | _ => none

def parseKV (w : String) : Option (Char × Nat) :=
  match w.toList with
  | k :: '=' :: rest => do
    let n ← (String.ofList rest).toNat?
    if 'a' ≤ k ∧ k ≤ 'z' ∧ n ≤ 1073741824 then pure (k, n) else none
  | _ => none

def parseA (w : String) : Option (Seq × List (Char × Nat)) :=
  match w.splitOn "/" with
  | [h, m] => do
    let s ← unhex h
    let kv ← (m.splitOn ",").mapM parseKV
    if !plain s ∨ (kv.map (·.1)).eraseDups.length ≠ kv.length then none else pure (s, kv)
  | _ => none

def header (ws : List String) : Option (Nat × Config) :=
  match nats? ws with
  | some [w, d, p, q] => if w < 1 ∨ w > 64 ∨ q < 1 ∨ d > 8 then none else some (w, { maxError := d, p := p, q := q })
  | _ => none

def insChar (a : Char) : List Char → List Char
  | [] => [a]
  | x :: xs => if a ≤ x then a :: x :: xs else x :: insChar a xs

def runA (workers : Nat) (cfg : Config) (items : List (Seq × List (Char × Nat))) : String :=
  let names := ((items.flatMap (fun it => it.2.map (·.1))).eraseDups).foldr insChar []
  let idx := items.zipIdx
  let perSample : Except String (List (Char × List Out)) := names.mapM (fun name =>
    let sample : List Node := idx.filterMap (fun (it, i) =>
      (it.2.find? (fun kv => kv.1 == name)).map (fun kv => ({ orig := i, count := kv.2, seq := it.1 } : Node)))
    (runSample cfg workers sample).map (fun outs => (name, outs)))
  match perSample with
  | .error e => e
  | .ok samples =>
    if idx.isEmpty then "-" else
    joinSp (idx.map (fun (_, i) =>
      let mine : List (Char × List Out × Out) := samples.filterMap (fun (name, outs) =>
        (outs.find? (fun o => o.node.orig == i)).map (fun o => (name, outs, o)))
      let sts := mine.map (fun (_, _, o) => status o.edges o.sons)
      let h := (sts.filter (· == .head)).length
      let it := (sts.filter (· == .internal)).length
      let sg := (sts.filter (· == .singleton)).length
      let stS := mine.map (fun (name, _, o) => s!"{name}={(status o.edges o.sons).str}")
      let wS := mine.map (fun (name, _, o) => s!"{name}={o.weight}")
      let mS := sortStr ((mine.flatMap (fun (_, outs, o) => showMuts outs o)).eraseDups)
      s!"{if h + sg > 0 then 1 else 0}/{h}/{it}/{sg}/{h + it + sg}/" ++ ",".intercalate stS ++ "/" ++
        ",".intercalate wS ++ "/" ++ ",".intercalate mS))

def runWords : List String → String
  | ["fact", "soncount"] => "synchronised"   -- the hypothesis `atomic = true` of `graph_schedule_independent`
  | "race" :: rest => runWords rest
  | "g" :: w :: d :: p :: q :: items =>
    match header [w, d, p, q], items.mapM parseG with
    | some (workers, cfg), some items =>
      if items.any (fun it => it.1 == 0) then "bad-op" else
      let sample : List Node := items.zipIdx.map (fun (it, i) => { orig := i, count := it.1, seq := it.2 })
      match runSample cfg workers sample with
      | .error e => e
      | .ok outs => if outs.isEmpty then "-" else joinSp (outs.map (showOut outs))
    | _, _ => "bad-op"
  | "a" :: w :: d :: p :: q :: items =>
    match header [w, d, p, q], items.mapM parseA with
    | some (workers, cfg), some items =>
      if items.any (fun it => it.2.any (fun kv => kv.2 == 0)) then "bad-op" else runA workers cfg items
    | _, _ => "bad-op"
  | _ => "bad-op"

def run (line : String) : String := runWords (words line)

end ObiVerif.Driver.C13
