/-! line protocol for C13 (stub: no model yet) -/
namespace ObiVerif.Driver.C13

def run (_line : String) : String := "bad-op"

end ObiVerif.Driver.C13
