/-!
# Model of obiuniq dereplication (property C06) — core Lean only

Transcribed from `/repo`:

* `pkg/obiseq/merge.go`      `StatsOn`, `StatsPlusOne`, `StatsOnValues.Merge`, `BioSequence.Merge`,
                             `BioSequenceSlice.Merge`
* `pkg/obiseq/class.go`      `HashClassifier`, `SequenceClassifier`, `AnnotationClassifier`
* `pkg/obichunk/chunks.go`, `chunk_on_disk.go`  `ISequenceChunk`, `ISequenceChunkOnDisk`
* `pkg/obichunk/subchunks.go` `ISequenceSubChunk`
* `pkg/obichunk/unique.go`   `IUniqueSequence` (closure `ff`)
* `pkg/obiiter/merge.go`     `IMergeSequenceBatch`
* `pkg/obitools/obidemerge/demerge.go` `MakeDemergeWorker`

A Go `map[string]X` is an association list (first binding of a key wins on lookup; a `merged_<k>` map
is read through `weight`, the sum of the bindings of a value, so that theorems need no
"distinct keys" hypothesis on them).  Values of annotations are their `fmt.Sprint` rendering
(strings); `count` is kept apart from the other annotations (`BioSequence.Count` = attribute `count`,
1 when absent); `merged_<k>` annotations are kept apart too (`BioSequence.Merge` never compares them).

What is *not* in the functional model (see `lib/cfg/C06.py`): goroutines and channels, the order in
which classes leave the pipeline, the order of the members inside a class after the (unstable)
`sort.Sort` of `ISequenceSubChunk` — the theorems of `Props/C06.lean` quantify over every permutation
of the input instead — qualities (dropped by `Merge`), and the FASTA/FASTQ round trip of the on-disk
mode (property C02).
-/
namespace ObiVerif.Uniq

abbrev Seq := List UInt8

/-- a `merged_<k>` map (`obiseq.StatsOnValues`): value ↦ weight -/
abbrev Stats := List (String × Nat)

/-- one `obiseq.BioSequence` as far as dereplication looks at it -/
structure Rec where
  id     : String
  seq    : Seq
  /-- annotation `count` (`none`: absent) -/
  cnt    : Option Nat
  /-- the other annotations whose key does not start with `merged_` -/
  attrs  : List (String × String)
  /-- the annotations `merged_<k>`, indexed by `k` -/
  merged : List (String × Stats)
deriving DecidableEq, Repr, Inhabited

/-- `BioSequence.Count` -/
def Rec.count (r : Rec) : Nat := r.cnt.getD 1

/-- the value `BioSequence.SetCount` stores (`if count < 1 { count = 1 }`) -/
def setCount (n : Nat) : Nat := if n < 1 then 1 else n

/-! ## association lists -/

/-- `m[k] = x` -/
def setKey {β : Type} : List (String × β) → String → β → List (String × β)
  | [], k, x => [(k, x)]
  | (k', y) :: t, k, x => if k' = k then (k, x) :: t else (k', y) :: setKey t k x

/-- `stats[v] = stats[v] + w` (`old, ok := stats[sval]; if !ok {old = 0}; stats[sval] = old + w`) -/
def addW : Stats → String → Nat → Stats
  | [], v, w => [(v, w)]
  | (v', w') :: t, v, w => if v' = v then (v', w' + w) :: t else (v', w') :: addW t v w

/-- the weight a `merged_<k>` map gives to value `v` (0 when absent) -/
def weight : Stats → String → Nat
  | [], _ => 0
  | (v', w) :: t, v => if v' = v then w + weight t v else weight t v

/-- `StatsOnValues.Merge` -/
def mergeStats (m toMerged : Stats) : Stats := toMerged.foldl (fun acc e => addW acc e.1 e.2) m

/-! ## `merge.go` -/

/-- `HasStatsOn(key)` -/
def Rec.hasStats (r : Rec) (k : String) : Bool := (r.merged.lookup k).isSome

/-- the string `StatsPlusOne` / `AnnotationClassifier` read for attribute `k` of `r`: its value, or
`na` when the record has no such annotation -/
def Rec.value (r : Rec) (k na : String) : String := (r.attrs.lookup k).getD na

/-- `sequence.StatsOn(desc, na)`: the `merged_<k>` map of `r`; when `r` has none, a new map is stored
in `r` and `r`'s own value is counted in it with weight `r.Count()` (`StatsPlusOne(desc, sequence, na)`).
Returns the updated record and the map. -/
def statsOn (na k : String) (r : Rec) : Rec × Stats :=
  match r.merged.lookup k with
  | some m => (r, m)
  | none =>
    let m := addW [] (r.value k na) r.count
    ({ r with merged := setKey r.merged k m }, m)

/-- `sequence.StatsPlusOne(desc, toAdd, na)` -/
def statsPlusOne (na k : String) (r toAdd : Rec) : Rec :=
  let (r', m) := statsOn na k r
  { r' with merged := setKey r'.merged k (addW m (toAdd.value k na) toAdd.count) }

/-- body of `for key, desc := range statsOn` in `BioSequence.Merge` -/
def mergeKey (na : String) (tm r : Rec) (k : String) : Rec :=
  if tm.hasStats k then
    let (r', smk) := statsOn na k r
    let (_, mmk) := statsOn na k tm
    { r' with merged := setKey r'.merged k (mergeStats smk mmk) }
  else statsPlusOne na k r tm

/-- `sequence.Merge(tomerge, na, true, statsOn)`: counts added, every requested `merged_<k>` map
updated, every other annotation of the receiver kept iff `tomerge` carries the same value -/
def mergeInto (na : String) (stats : List String) (r tm : Rec) : Rec :=
  let count := r.count + tm.count
  let r1 := stats.foldl (mergeKey na tm) r
  { r1 with attrs := r1.attrs.filter (fun kv => tm.attrs.lookup kv.1 == some kv.2),
            cnt := some (setCount count) }

/-- `BioSequenceSlice.Merge(na, statsOn)`; `none` is the Go panic on an empty slice (`sequences[0]`) -/
def mergeClass (na : String) (stats : List String) : List Rec → Option Rec
  | [] => none
  | [r] =>
    let r0 := { r with cnt := some (setCount r.count) }
    some (stats.foldl (fun r k => (statsOn na k r).1) r0)
  | r :: rs => some (rs.foldl (mergeInto na stats) r)

/-! ## classification -/

/-- a class code with the value it stands for (`Classifier.Value(code)`): the Go classifiers hand out
small integers in order of first appearance, `ISequenceSubChunk` only compares them for equality and
order; the model keeps the value itself and the order of first appearance -/
inductive Code where
  | h (n : Nat)          -- HashClassifier: crc32(sequence) % size
  | s (s : Seq)          -- SequenceClassifier: the sequence string
  | v (s : String)       -- AnnotationClassifier: the value of the annotation, or NA
deriving DecidableEq, Repr

/-- the classes of batch `l` under classifier `f`, in order of first appearance (= increasing class
code), members in batch order: what `Distribute` (one output per code), respectively the
code / sort / cut loop of `ISequenceSubChunk`, produce.  `fuel` bounds the number of classes. -/
def groupF (f : Rec → Code) : Nat → List Rec → List (List Rec)
  | 0, _ => []
  | _, [] => []
  | n + 1, x :: t => (x :: t.filter (fun r => f r = f x)) :: groupF f n (t.filter (fun r => ¬ f r = f x))

def group (f : Rec → Code) (l : List Rec) : List (List Rec) := groupF f l.length l

/-- `ISequenceSubChunk` on one batch: `if batch.Len() > 1 {classify, sort, cut} else {push as is}` -/
def subChunk (f : Rec → Code) (b : List Rec) : List (List Rec) :=
  if b.length > 1 then group f b else [b]

/-- the closure `ff` of `IUniqueSequence` applied to one batch of its input: sub-chunk it with the
classifier `f` of this stage; a sub-batch is final when no category is left (`icat < 0`) or it holds a
single record, otherwise it goes to the next stage (classifier of the next category) -/
def ff : (Rec → Code) → List (Rec → Code) → List Rec → List (List Rec)
  | f, [], b => subChunk f b
  | f, f' :: fs, b => (subChunk f b).flatMap fun sb => if sb.length = 1 then [sb] else ff f' fs sb

structure Opts where
  /-- `OptionSubCategory` -/
  cats : List String
  /-- `OptionStatOn` (keys of the `StatsOnDescriptions` map) -/
  stats : List String
  /-- `OptionNAValue` -/
  na : String
  /-- `OptionsNoSingleton` -/
  noSingleton : Bool

def seqC (r : Rec) : Code := .s r.seq
def catC (na : String) (c : String) (r : Rec) : Code := .v (r.value c na)
def hashC (h : Seq → Nat) (r : Rec) : Code := .h (h r.seq)

/-- the classifiers of the successive stages after the sequence stage: `ff` is started with
`icat = len(cat)` and stage `icat` uses `cat[icat]`, i.e. the categories in reverse order -/
def catCs (o : Opts) : List (Rec → Code) := o.cats.reverse.map (catC o.na)

/-- the batches that reach `iUnique`: chunks by hash (`ISequenceChunk[OnDisk]`), each through `ff` -/
def terminals (h : Seq → Nat) (o : Opts) (input : List Rec) : List (List Rec) :=
  (group (hashC h) input).flatMap (ff seqC (catCs o))

/-- the `--no-singleton` test of `ff` -/
def dropped (o : Opts) (b : List Rec) : Bool :=
  o.noSingleton && b.length == 1 && (b.map Rec.count).head? == some 1

/-- `IUniqueSequence`: the merged record of every batch that reaches `iUnique`.  `h` is the chunk
function (`crc32 % BatchCount` in the code; the theorems hold for every `h`). -/
def uniq (h : Seq → Nat) (o : Opts) (input : List Rec) : List Rec :=
  ((terminals h o input).filter (fun b => !dropped o b)).filterMap (mergeClass o.na o.stats)

/-! ## CRC-32 (IEEE, `hash/crc32.ChecksumIEEE`) -/

def crcStep (c : UInt32) : UInt32 :=
  if c &&& 1 = 1 then (c >>> 1) ^^^ 0xEDB88320 else c >>> 1

def crcByte (c : UInt32) (b : UInt8) : UInt32 :=
  let c := c ^^^ b.toUInt32
  crcStep (crcStep (crcStep (crcStep (crcStep (crcStep (crcStep (crcStep c)))))))

def crc32 (s : Seq) : UInt32 := (s.foldl crcByte 0xFFFFFFFF) ^^^ 0xFFFFFFFF

/-- `HashClassifier(size).Code` -/
def hashCode (size : Nat) (s : Seq) : Nat := (crc32 s).toNat % size

/-- obiuniq with `BatchCount = chunks` -/
def uniqCRC (chunks : Nat) (o : Opts) (input : List Rec) : List Rec := uniq (hashCode chunks) o input

/-! ## obidemerge -/

/-- `MakeDemergeWorker(key)` on one record -/
def demerge1 (k : String) (r : Rec) : List Rec :=
  match r.merged.lookup k with
  | some stats =>
    let r' := { r with merged := r.merged.filter (fun e => e.1 ≠ k) }
    stats.map fun e => { r' with attrs := setKey r'.attrs k e.1, cnt := some (setCount e.2) }
  | none => [r]

def demerge (k : String) (l : List Rec) : List Rec := l.flatMap (demerge1 k)

end ObiVerif.Uniq
