import ObiVerif.Model.Apat
import ObiVerif.Model.SeqOps
/-!
# Model of the in-silico PCR (C11)

Transcription of
* `pkg/obiapat/pcr.go`         : `_Pcr` (both orientation blocks), `_PCRSlice` / `PCRSlice`, `MakeOptions` / `Option*`
* `pkg/obitools/obipcr/pcr.go` : the options and the fragmenting parameters of `CLIPCR`
* `pkg/obiiter/fragment.go`    : the cutting loop of `IFragments`

over the match lists of the C10 matcher model (`Apat.findAllIndex`, `Apat.compile`, `Apat.reverseComplement`) and C07's
`SeqOps.subsequence` / `SeqOps.revcompInPlace`.  Nothing of the matcher or of the sequence operations is re-modelled here.

The code is modelled **as repaired** by the four `fix:` patches `notes/patches/C11-*.diff` (each defect was first shown on
the real code by the harness oracle; the failing case lines are in the generator's corpus):
* reverse block, circular, amplicon across the origin: the skipped match has the length of the *reverse* primer
  (`wrapLen`; the unrepaired code used `forward.Len()` in both blocks);
* circular + flanking sequences: a window starting before the origin is taken modulo the length (was `log.Fatalf`);
* circular: a pair whose complemented-primer match runs across the origin onto the direct match is rejected like the
  other overlapping pairs;
* `CLIPCR`: consecutive fragments share max length + both primers + both flanks.
What is kept exactly as written although it looks odd: both blocks compute the search window of the second primer with
`reverse.Len()` (harmless: `FindAllIndex` adds `MAX_PAT_LEN` to every window length — see `Props/C11.lean`, `pcr_complete`).

A `log.Fatalf` or a Go panic is an explicit outcome (`Bad`).  The C sequence buffer recycled by `_PCRSlice` is rewritten
(`EncodeSequence`) and its hit stacks emptied for each template: the batch is modelled as a `map` over the templates, and
the harness checks on the real code that every template gives in a batch what it gives alone.
-/
namespace ObiVerif.Pcr
open ObiVerif ObiVerif.Apat

/-- the `_Options` fields `_Pcr` reads -/
structure Opts where
  minLength : Int
  maxLength : Int
  circular : Bool
  /-- `-1`: no extension (`HasExtension` is `extension > -1`) -/
  extension : Int
  fullExtension : Bool
  deriving Repr, DecidableEq

def Opts.hasExtension (o : Opts) : Bool := o.extension > -1

/-- the four compiled patterns stored by `OptionForwardPrimer` / `OptionReversePrimer` -/
structure Primers where
  forward : Pattern
  cfwd : Pattern
  reverse : Pattern
  crev : Pattern

/-- `OptionForwardPrimer(fwd, ef)` + `OptionReversePrimer(rev, er)`: an error is a `log.Fatalf` -/
def mkPrimers (fwd rev : Bytes) (ef er : Nat) : Option Primers :=
  match compile fwd ef false, compile rev er false with
  | .ok F, .ok R =>
    match reverseComplement F, reverseComplement R with
    | .ok CF, .ok CR => some ⟨F, CF, R, CR⟩
    | _, _ => none
  | _, _ => none

inductive Bad | fatal | panic
  deriving Repr, DecidableEq

/-- one reported amplicon: the annotations `direction`, `forward_match`, `forward_error`, `reverse_match`,
`reverse_error`, the nucleotides, the (normalised) coordinates `Subsequence` writes into the id, and — not observable,
kept for the proofs — the two hits the amplicon comes from -/
structure Amplicon where
  isForward : Bool
  idFrom : Int
  idTo : Int
  seq : Bytes
  fmatch : Bytes
  ferr : Int
  rmatch : Bytes
  rerr : Int
  /-- the match of the primer searched as written (forward primer in the first block, reverse primer in the second) -/
  hitD : Hit
  /-- the match of the complemented other primer -/
  hitC : Hit
  deriving Repr, DecidableEq

/-- the coordinates `from+1..to` of the id built by `Subsequence` (`%s_sub[%d..%d]`): a window across the origin is
built by the inner call `Subsequence(from, Len, false)`, which names it `from+1..Len` -/
def subId (L from_ to : Int) : Int × Int :=
  let f := Int.tmod from_ L
  let t := Int.tmod (to - 1) L + 1
  if f < t then (f + 1, t) else (f + 1, L)

/-- `Subsequence` as `_Pcr` uses it for the amplicon: an error is `log.Fatalf`, a Go run-time panic stays a panic -/
def cut (seq : Bytes) (from_ to : Int) (circular : Bool) : Except Bad Bytes :=
  match SeqOps.subsequence seq from_ to circular with
  | .ok (b, _) => .ok b
  | .error .panic => .error .panic
  | .error _ => .error .fatal

/-- `match, _ := Subsequence(...)` followed by `match.String()` / `match.ReverseComplement(true)`:
an error leaves `match` nil; `whenNil` is what the code then does -/
def cutMatch (seq : Bytes) (h : Hit) (circular : Bool) (whenNil : Bad) : Except Bad Bytes :=
  match SeqOps.subsequence seq h.1 h.2.1 circular with
  | .ok (b, _) => .ok b
  | .error .panic => .error .panic
  | .error _ => .error whenNil

/-- the `length` of a pair: `posi = fm[0]`, `posj = rm[1]`; `wrapLen` is the primer length subtracted for an amplicon
across the origin -/
def pairLength (o : Opts) (L : Int) (wrapLen : Int) (fm rm : Hit) : Int :=
  if rm.2.1 > fm.1 then
    if o.circular && rm.2.1 - fm.1 > L then 0 else rm.1 - fm.2.1
  else if o.circular then rm.1 + L - fm.1 - wrapLen
  else 0

def lengthOk (o : Opts) (length : Int) : Bool :=
  length > 0 && (o.minLength == 0 || length ≥ o.minLength) && (o.maxLength == 0 || length ≤ o.maxLength)

/-- `from`, `to` of the window that is cut -/
def bounds (o : Opts) (L : Int) (fm rm : Hit) : Int × Int :=
  let ft : Int × Int := if o.hasExtension then (fm.1 - o.extension, rm.2.1 + o.extension) else (fm.2.1, rm.1)
  let ft : Int × Int :=
    if o.hasExtension && !o.fullExtension && !o.circular then
      (if ft.1 < 0 then 0 else ft.1, if ft.2 > L then L else ft.2)
    else ft
  if o.hasExtension && o.circular && ft.1 < 0 then (Int.tmod (Int.tmod ft.1 L + L) L, ft.2) else ft

/-- `(HasExtension && ((from >= 0 && to <= Len) || Circular)) || !HasExtension` -/
def boundsOk (o : Opts) (L : Int) (ft : Int × Int) : Bool :=
  (o.hasExtension && ((ft.1 ≥ 0 && ft.2 ≤ L) || o.circular)) || !o.hasExtension

/-- body of the two nested loops for one pair of hits of the first block (`direction = forward`) -/
def emitForward (o : Opts) (seq : Bytes) (fm rm : Hit) (ft : Int × Int) : Except Bad Amplicon := do
  let L : Int := seq.length
  let amp ← cut seq ft.1 ft.2 o.circular
  let m1 ← cutMatch seq fm o.circular .panic
  let m2 ← cutMatch seq rm o.circular .fatal
  let id := subId L ft.1 ft.2
  pure ⟨true, id.1, id.2, amp, m1, fm.2.2, SeqOps.revcompInPlace m2, rm.2.2, fm, rm⟩

/-- … of the second block (`direction = reverse`): the amplicon is reverse-complemented, `forward_match` is the
reverse complement of the match of the complemented forward primer -/
def emitReverse (o : Opts) (seq : Bytes) (fm rm : Hit) (ft : Int × Int) : Except Bad Amplicon := do
  let L : Int := seq.length
  let amp ← cut seq ft.1 ft.2 o.circular
  let m1 ← cutMatch seq rm o.circular .panic
  let m2 ← cutMatch seq fm o.circular .panic
  let id := subId L ft.1 ft.2
  pure ⟨false, id.1, id.2, SeqOps.revcompInPlace amp, SeqOps.revcompInPlace m1, rm.2.2, m2, fm.2.2, fm, rm⟩

/-- one pair `(fm, rm)` with `rm[0] < Len`: nothing, an amplicon, or the end of the program -/
def pairStep (isFwd : Bool) (o : Opts) (seq : Bytes) (wrapLen : Int) (fm rm : Hit) : Option (Except Bad Amplicon) :=
  let L : Int := seq.length
  if lengthOk o (pairLength o L wrapLen fm rm) then
    let ft := bounds o L fm rm
    if boundsOk o L ft then
      some (if isFwd then emitForward o seq fm rm ft else emitReverse o seq fm rm ft)
    else none
  else none

/-- `begin`, `length` passed to the search of the second (complemented) primer; `fms` is not empty -/
def revWindow (o : Opts) (L : Int) (winLen : Int) (first last : Hit) : Int × Int :=
  let begin := first.1
  let length := L - begin
  let length := if o.maxLength > 0 then last.2.1 - begin + o.maxLength + winLen else length
  if o.circular then (0, L + Gen.apatMaxPatLen) else (begin, length)

/-- one orientation block of `_Pcr`: `D` is searched over the whole sequence, `C` in the window -/
def block (isFwd : Bool) (D C : Pattern) (wrapLen winLen : Int) (o : Opts) (seq : Bytes) : List (Except Bad Amplicon) :=
  let L : Int := seq.length
  let fms := findAllIndex D seq o.circular 0 (-1)
  match fms.head?, fms.getLast? with
  | some first, some last =>
    let w := revWindow o L winLen first last
    let rms := findAllIndex C seq o.circular w.1 w.2
    fms.flatMap fun fm =>
      if fm.1 < L then
        rms.filterMap fun rm => if rm.1 < L then pairStep isFwd o seq wrapLen fm rm else none
      else []
  | _, _ => []

/-- everything `_Pcr` would append, in order, each entry possibly being the end of the program -/
def pcrRaw (P : Primers) (o : Opts) (seq : Bytes) : List (Except Bad Amplicon) :=
  block true P.forward P.crev P.forward.patlen P.reverse.patlen o seq ++
  block false P.reverse P.cfwd P.reverse.patlen P.reverse.patlen o seq

/-- `_Pcr(seq, opt)` on the (lower-cased) content of one template -/
def pcr (P : Primers) (o : Opts) (seq : Bytes) : Except Bad (List Amplicon) := (pcrRaw P o seq).mapM id

/-- `_PCRSlice`: the templates one after the other -/
def pcrSlice (P : Primers) (o : Opts) (seqs : List Bytes) : Except Bad (List (List Amplicon)) :=
  seqs.mapM (pcr P o)

/-! ## fragments -/

/-- the `for i := 0; i < s.Len(); i += step` loop of `IFragments` on a sequence longer than `minsize`:
list of `(i, end)`; `none`: `step ≤ 0` with a sequence that is not exhausted (the loop does not advance) -/
def fragLoop (len length step : Nat) : Nat → Nat → Option (List (Nat × Nat))
  | 0, _ => none
  | fuel + 1, i =>
    if i < len then
      let e := min (i + length) len
      if len - e < step then some [(i, len)]
      else (fragLoop len length step fuel (i + step)).map fun r => (i, e) :: r
    else some []

/-- the pieces `IFragments(minsize, length, overlap, …)` makes of one sequence (`none` = kept whole) -/
def fragments (minsize length overlap : Int) (len : Nat) : Option (Option (List (Nat × Nat))) :=
  if (len : Int) ≤ minsize then some none
  else if length - overlap ≤ 0 then none
  else (fragLoop len length.toNat (length - overlap).toNat (len + 1) 0).map some

/-- the arguments `CLIPCR` gives to `IFragments` (`lf`, `lr`: lengths of the primer *strings*) -/
def cliFragParams (maxLength : Int) (lf lr : Nat) (delta : Int) : Int × Int × Int :=
  (maxLength * 1000, maxLength * 100, maxLength + lf + lr + (if delta ≥ 0 then 2 * delta else 0))

/-- the options `CLIPCR` hands to `PCRSliceWorker`: `--min-length` only when positive, `--delta` only when ≥ 0
(`CLIWithExtension`), `--max-length` always, `--circular` only when set (the defaults of `MakeOptions` otherwise) -/
def cliOpts (minLength maxLength delta : Int) (onlyFull circular : Bool) : Opts :=
  ⟨if minLength > 0 then minLength else 0, maxLength, circular, if delta ≥ 0 then delta else -1, onlyFull⟩

end ObiVerif.Pcr
