/-!
# Model of the input error handling of the chunked readers (C17)

`ReadSeqFileChunk` (seqfile_chunk_read.go) with its repaired local `readFull`, and the 1 MiB peek of
`OBIMimeTypeGuesser` (universal_read.go).  A stream is the bytes it can deliver followed by the
error its `Read` returns at the end: `eof` (clean end), `ueof` (`io.ErrUnexpectedEOF`, what the
decompressors return for a truncated stream) or `other`.  The size of the pieces in which the bytes
arrive does not appear: `readFull` loops until the buffer is full or an error is returned.
-/
namespace ObiVerif.ReadErr

abbrev Bytes := List UInt8

inductive Err | eof | ueof | other
  deriving DecidableEq, Repr

structure Stream where
  data : Bytes
  final : Err

/-- `readFull(reader, buff)` with `len(buff) = k` at offset `pos`: the bytes, the error (`none` = nil) -/
def readFull (s : Stream) (pos k : Nat) : Bytes × Option Err :=
  let avail := s.data.length - pos
  if k ≤ avail then ((s.data.drop pos).take k, none)
  else (s.data.drop pos, some s.final)

inductive Outcome | ok | fatal
  deriving DecidableEq, Repr

/-- strip trailing `\n` / `\r` -/
def stripEol (b : Bytes) : Bytes := (b.reverse.dropWhile (fun c => c == 10 || c == 13)).reverse

/-- inner loop `for end = splitter(buff); err == nil && end < 0; end = splitter(buff) { read more }`;
returns (buff, pos, err) -/
def growLoop (split : Bytes → Int) (bufsz : Nat) (s : Stream) : Nat → Bytes → Nat → Bytes × Nat × Option Err
  | 0, buff, pos => (buff, pos, none)
  | fuel+1, buff, pos =>
    if split buff < 0 then
      let (more, e) := readFull s pos (bufsz - 1)
      match e with
      | none => growLoop split bufsz s fuel (buff ++ more) (pos + more.length)
      | some e => (buff ++ more, pos + more.length, some e)
    else (buff, pos, none)

/-- outer loop `for err == nil { … }`; state: emitted chunks, current buffer, stream position -/
def chunkLoop (split : Bytes → Int) (bufsz : Nat) (s : Stream) :
    Nat → List Bytes → Bytes → Nat → List Bytes × Bytes × Option Err
  | 0, out, buff, _ => (out, buff, none)
  | fuel+1, out, buff, pos =>
    let (buff, pos, err) := growLoop split bufsz s (s.data.length + 2) buff pos
    let (out, buff) :=
      if buff.length > 0 then
        let e := split buff
        let endp : Nat := if e < 0 then buff.length else e.toNat
        let chunk := stripEol (buff.take endp)
        (if chunk.length > 0 then out ++ [chunk] else out, buff.drop endp)
      else (out, buff)
    match err with
    | none => chunkLoop split bufsz s fuel out buff pos
    | some e => (out, buff, some e)

/-- `ReadSeqFileChunk`: the chunks pushed on the channel and the outcome (`fatal` = `log.Fatalf`) -/
def readChunks (split : Bytes → Int) (bufsz : Nat) (s : Stream) : List Bytes × Outcome :=
  let (first, e0) := readFull s 0 bufsz
  -- `if err == io.EOF && l > 0 { err = nil }`
  let e0 := if e0 = some Err.eof && first.length > 0 then none else e0
  let (out, buff, err) :=
    match e0 with
    | none => chunkLoop split bufsz s (s.data.length + 2) [] first first.length
    | some e => ([], first, some e)
  match err with
  | some Err.eof | none => (if buff.length > 0 then out ++ [buff] else out, .ok)
  | some _ => (out, .fatal)

/-- the peek of `OBIMimeTypeGuesser`: `n, err := readFull(stream, 1 MiB)`;
`if err != nil && (err != io.EOF || n == 0) { return err }` -/
def guessPeek (peek : Nat) (s : Stream) : Outcome :=
  let (b, e) := readFull s 0 peek
  match e with
  | none => .ok
  | some Err.eof => if b.length = 0 then .fatal else .ok
  | some _ => .fatal

/-- `EndOfLastFastaEntry` (fastaseq_read.go), verbatim backward scan; fuel = length -/
def fastaScan (b : Array UInt8) : Nat → Nat → Nat → Nat → Int
  -- i1 = i + 1 (so that the loop index stays a natural number)
  | 0, _, state, last => if state != 2 then -1 else (last : Int)
  | fuel+1, i1, state, last =>
    if i1 ≥ 1 && state < 2 then
      let i := i1 - 1
      let c := b.getD i 0
      if c == 62 && state == 0 then fastaScan b fuel i 1 i
      else if state == 1 && (c == 10 || c == 13) then fastaScan b fuel i 2 last
      else fastaScan b fuel i 0 last
    else
      -- loop exit: Go's `i` is i1 - 1; `if i == 0 || state != 2 { return -1 }`
      if i1 = 1 || state != 2 then -1 else (last : Int)

def endOfLastFastaEntry (b : Bytes) : Int := fastaScan b.toArray (b.length + 1) b.length 0 0

/-- outcome of `ReadSequencesFromFile` as far as the input stream is concerned -/
inductive FileOutcome
  | empty                          -- `Ropen` answers ErrNoContent: read as an empty file (accepted)
  | fail                           -- an error is returned / `log.Fatalf` before any record is read
  | read (r : List Bytes × Outcome) -- the format reader was started on the stream
  deriving DecidableEq, Repr

/-- `ReadSequencesFromFile` (universal_read.go) over the decompressed stream `s`:
`Ropen`/`Buf` (xopen.go) reads the first rune — a clean EOF there is ErrNoContent (the file is taken as
empty), any other error is returned and fatal; then `OBIMimeTypeGuesser` peeks `peek` bytes; then the format
reader runs `ReadSeqFileChunk` on `io.MultiReader(peeked bytes, stream)` when the peek was full and on the
peeked bytes alone (`bytes.NewReader(buf[:n])`, which ends with a clean EOF) when the stream ended in the peek -/
def readFile (split : Bytes → Int) (peek bufsz : Nat) (s : Stream) : FileOutcome :=
  if s.data.length = 0 then (if s.final = .eof then .empty else .fail)
  else match guessPeek peek s with
    | .fatal => .fail
    | .ok =>
      let s' : Stream := if peek ≤ s.data.length then s else ⟨s.data, .eof⟩
      .read (readChunks split bufsz s')

/-- the run ends normally: exit status 0 -/
def FileOutcome.accepted : FileOutcome → Bool
  | .empty => true
  | .fail => false
  | .read r => r.2 == .ok

end ObiVerif.ReadErr
