/-!
# The exit status of a command whose writers may fail (C18, process level)

Every writer goroutine (`WriteSeqFileChunk`, the writer goroutines of `WriteJSON` / `WriteCSV`) is registered
with the process-wide pipe registry (`obiiter.RegisterAPipe`, a `sync.WaitGroup`) **before** the function that
starts it returns; `main()` ends with `obiiter.WaitForLastPipe()` and then returns (exit status 0).  A writer
whose output failed calls `log.Fatalf` — which formats and prints the message, runs the logrus hooks and only
then calls `os.Exit(1)` — and it does so **before** `obiiter.UnregisterPipe()`; a writer whose output is complete
unregisters.  The Go runtime ends the process with status 0 as soon as `main` returns, whatever the other
goroutines are doing.

The process is a set of threads stepped by an arbitrary scheduler (`List Tid`, any interleaving, fair or not):

* writer `i`: `busy` → (`fails i`) `reporting` → `os.Exit(1)`;  `busy` → (not `fails i`) `done`, registry − 1;
* main: `waiting` → (registry = 0) `returned` → exit 0.

`early = true` is **not** the code: it is the order of the seeded regression C18-m2 (the pipe is released before
the failure is reported), kept to show that the interleaving quantifier of the theorems is not vacuous.
-/
namespace ObiVerif.WriteProc

inductive WSt | busy | reporting | done
  deriving DecidableEq, Repr

inductive MSt | waiting | returned
  deriving DecidableEq, Repr

/-- a writer: its state, and whether its output fails (the verdict of the `Wfile` model) -/
abbrev W := WSt × Bool

inductive Act | nop | unreg | exit1
  deriving DecidableEq, Repr

/-- one step of writer `i` -/
def wstep (early : Bool) : List W → Nat → List W × Act
  | [], _ => ([], .nop)
  | x :: t, 0 =>
    match x with
    | (.busy, true) => ((.reporting, true) :: t, if early then .unreg else .nop)
    | (.busy, false) => ((.done, false) :: t, .unreg)
    | (.reporting, _) => (x :: t, .exit1)
    | (.done, _) => (x :: t, .nop)
  | x :: t, i+1 => ((x :: (wstep early t i).1), (wstep early t i).2)

structure Proc where
  reg : Nat
  ws : List W
  main : MSt
  exit : Option Nat

inductive Tid | main | writer (i : Nat)
  deriving DecidableEq, Repr

def step (early : Bool) (p : Proc) (t : Tid) : Proc :=
  if p.exit.isSome then p
  else match t with
    | .main =>
      match p.main with
      | .waiting => if p.reg = 0 then { p with main := .returned } else p
      | .returned => { p with exit := some 0 }
    | .writer i =>
      let r := wstep early p.ws i
      match r.2 with
      | .nop => { p with ws := r.1 }
      | .unreg => { p with ws := r.1, reg := p.reg - 1 }
      | .exit1 => { p with ws := r.1, exit := some 1 }

/-- every writer is registered before `main` reaches `WaitForLastPipe` -/
def init (fails : List Bool) : Proc := ⟨fails.length, fails.map fun f => (.busy, f), .waiting, none⟩

def runSched (early : Bool) (fails : List Bool) (sched : List Tid) : Proc := sched.foldl (step early) (init fails)

/-- the code: failure reported before the pipe is released -/
def exitOf (fails : List Bool) (sched : List Tid) : Option Nat := (runSched false fails sched).exit

/-- a fair schedule used by the executable model: every writer twice, then main twice -/
def canon (n : Nat) : List Tid :=
  ((List.range n).map fun i => [Tid.writer i, Tid.writer i]).flatten ++ [.main, .main]

end ObiVerif.WriteProc
