import ObiVerif.Model.PEArena
import ObiVerif.Model.PEAnnot
/-!
# C08: the `obipairing` command line (third round)

`pkg/obitools/obipairing/options.go` (`PairingOptionSet`, the `CLI…` getters) and the call of
`IAssemblePESequencesBatch` in `cmd/obitools/obipairing/main.go`: which option sets which parameter of
`AssemblePESequences`, the defaults, and the annotations written with and without `--without-stat`.
The two float options `--gap-penality` / `--penality-scale` only enter through the integer gap penalty and the
column scores (data, DESIGN §3.4): the model keeps their tokens.  `--min-identity` is a decimal literal, read
as an exact fraction.
-/
namespace ObiVerif.PEAlign

structure CliOpts where
  delta : Nat := 5            -- --delta / -D
  minOverlap : Nat := 20      -- --min-overlap
  idn : Nat := 9              -- --min-identity / -X  (0.9)
  idd : Nat := 10
  gapTok : String := "2.0"    -- --gap-penality / -G
  scaleTok : String := "1.0"  -- --penality-scale
  stats : Bool := true        -- not --without-stat / -S
  fast : Bool := true         -- not --exact-mode
  rel : Bool := true          -- not --fast-absolute
  deriving Repr, DecidableEq

/-- a decimal literal `d…[.d…]` as a fraction -/
def parseDecimal (t : String) : Option (Nat × Nat) :=
  match t.splitOn "." with
  | [i] => i.toNat?.map fun n => (n, 1)
  | [i, f] =>
    match i.toNat?, f.toNat? with
    | some n, some m => if f.isEmpty then none else some (n * 10 ^ f.length + m, 10 ^ f.length)
    | _, _ => none
  | _ => none

/-- the pairing options of one command line (`none`: not a command line the harness generates) -/
def cliParse : List String → CliOpts → Option CliOpts
  | [], o => some o
  | "--delta" :: v :: t, o => v.toNat?.bind fun n => cliParse t { o with delta := n }
  | "-D" :: v :: t, o => v.toNat?.bind fun n => cliParse t { o with delta := n }
  | "--min-overlap" :: v :: t, o => v.toNat?.bind fun n => cliParse t { o with minOverlap := n }
  | "--min-identity" :: v :: t, o => (parseDecimal v).bind fun q => cliParse t { o with idn := q.1, idd := q.2 }
  | "-X" :: v :: t, o => (parseDecimal v).bind fun q => cliParse t { o with idn := q.1, idd := q.2 }
  | "--gap-penality" :: v :: t, o => cliParse t { o with gapTok := v }
  | "-G" :: v :: t, o => cliParse t { o with gapTok := v }
  | "--penality-scale" :: v :: t, o => cliParse t { o with scaleTok := v }
  | "--without-stat" :: t, o => cliParse t { o with stats := false }
  | "-S" :: t, o => cliParse t { o with stats := false }
  | "--exact-mode" :: t, o => cliParse t { o with fast := false }
  | "--fast-absolute" :: t, o => cliParse t { o with rel := false }
  | _, _ => none

/-- the annotations of the record, `withStats` as a parameter (`annotEntries` is the `true` case): without
statistics only `mode` and what `PEAlign` / `BuildQualityConsensus` wrote on the consensus record remain -/
def annotEntriesS (stats fast : Bool) (v : Vote) (ovr : Int) (asm : Assembled) (mm : List (String × Nat)) :
    List (String × String) :=
  if stats then annotEntries fast v ovr asm mm
  else
    let fs := if v.num < 0 then "-1000" else thStr (thousandths v.num v.den)
    let mmS := "{" ++ ",".intercalate (mm.map fun e => e.1 ++ ":" ++ toString e.2) ++ "}"
    [("mode", if asm.alignment then "alignment" else "join")] ++
    (if asm.alignment ∧ ¬ mm.isEmpty then [("pairing_mismatches", mmS)] else []) ++
    (if asm.alignment ∧ fast then
      [("paring_fast_count", toString v.count), ("paring_fast_overlap", toString ovr), ("paring_fast_score", fs)]
     else [])

/-- one pair through the command: `PEAlign` in the mode the options select, consensus, thresholds, record -/
def cliAssemble (o : CliOpts) (s : Nat → Nat → Int) (g : Int) (adj : UInt8 → UInt8) (a qa b qb : Bytes) (ar : Arena) :
    Option (Assembled × List (String × String)) :=
  let v : Vote := if o.fast then fastShift o.rel a b else ⟨0, 0, -1, 1⟩
  let r := if o.fast then (peAlignFastFromB s g a.length b.length o.delta v.shift v.count ar).map (·.1)
           else (peAlignExactB s g a.length b.length ar).map (·.1)
  match r with
  | some r =>
    match consensus adj a qa b qb r.path with
    | some c =>
      let asm := assemble a qa b qb o.minOverlap o.idn o.idd r c
      some (asm, annotEntriesS o.stats o.fast v (over a.length b.length v.shift) asm (mismatchStats a qa b qb r.path))
    | none => none
  | none => none

end ObiVerif.PEAlign
