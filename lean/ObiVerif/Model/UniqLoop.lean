import ObiVerif.Model.Uniq
/-!
# Loop-level model of the classification stages of obiuniq (property C06) — core Lean only

`Model/Uniq.lean` describes `ISequenceSubChunk` by its result (`group`: the classes in order of first
appearance).  This file transcribes the code statement by statement:

* `pkg/obiseq/class.go`  `SequenceClassifier` / `AnnotationClassifier`: the captured variables `encode`,
  `decode`, `maxcode` (`ClsSt`), `Code` (`ClsSt.code`), `Value` (`ClsSt.value`), `Reset`
  (`ClsSt.reset`: `SequenceClassifier` sets `maxcode = 0`, `AnnotationClassifier` leaves `maxcode` as it is —
  its codes go on from where the previous batch stopped), `Clone` (= a new classifier: `ClsSt.init`);
  `HashClassifier` has no state (`hashCode` of `Model/Uniq.lean`).
* `pkg/obichunk/subchunks.go` `ISequenceSubChunk`, closure `ff`, with one worker (the only way
  `IUniqueSequence` calls it): `classifier.Reset()`, the coding loop (`codeAll`), `sort.Sort` on the codes
  (an *unstable* sort: the model takes the sort as a parameter `srt`, the theorems of `Lemmas/UniqLoop.lean`
  hold for every function that returns a permutation of its argument ordered by code), the cut loop
  (`cutLoop`), batches of length ≤ 1 pushed as they are; the classifier (its state) lives as long as the
  stage (`stageL`).
* `pkg/obichunk/unique.go` closure `ff` of `IUniqueSequence`: one `ISequenceSubChunk` stage per level, a new
  `AnnotationClassifier` per level, sub-batches of one record (and all of them at the last level) go to
  `iUnique`, the others, in the order they were produced, to the next level (`ffL`); one such chain per
  worker, each with its own `SequenceClassifier`, the hash chunks being shared out between the workers in a
  way that depends on the scheduling (`terminalsL` takes the share of every worker as a parameter).
-/
namespace ObiVerif.Uniq

/-- which table-based classifier -/
inductive Kind where
  | seq    -- SequenceClassifier
  | annot  -- AnnotationClassifier
deriving DecidableEq, Repr

/-- the variables captured by the closures of a table-based classifier; the classified value
(`sequence.String()`, resp. the annotation value or NA) is the `Code` of `Model/Uniq.lean` -/
structure ClsSt where
  /-- `encode` -/
  enc : List (Code × Nat)
  /-- `decode` -/
  dec : List Code
  /-- `maxcode` -/
  max : Nat

/-- a new classifier (`SequenceClassifier()`, `AnnotationClassifier(key, na)`, `Clone()`) -/
def ClsSt.init : ClsSt := ⟨[], [], 0⟩

/-- `Code(sequence)` once the value `v` has been read from the record:
`k, ok := encode[val]; if !ok { k = maxcode; maxcode++; encode[val] = k; decode = append(decode, val) }` -/
def ClsSt.code (st : ClsSt) (v : Code) : ClsSt × Nat :=
  match st.enc.lookup v with
  | some k => (st, k)
  | none => ({ enc := (v, st.max) :: st.enc, dec := st.dec ++ [v], max := st.max + 1 }, st.max)

/-- `Reset()`: both clear `encode` and truncate `decode`; only `SequenceClassifier` resets `maxcode` -/
def ClsSt.reset (k : Kind) (st : ClsSt) : ClsSt :=
  match k with
  | .seq => ⟨[], [], 0⟩
  | .annot => ⟨[], [], st.max⟩

/-- `Value(k)`: `if k >= maxcode { log.Fatalf }; return decode[k]` (`.error "panic"`: index out of range) -/
def ClsSt.value (st : ClsSt) (k : Nat) : Except String Code :=
  if k ≥ st.max then .error "fatal"
  else match st.dec[k]? with
    | some v => .ok v
    | none => .error "panic"

/-- `for i, s := range batch.Slice() { ordered[i].code = classifier.Code(s); ordered[i].seq = s }` -/
def codeAll (f : Rec → Code) : ClsSt → List Rec → ClsSt × List (Nat × Rec)
  | st, [] => (st, [])
  | st, r :: t =>
    let p := st.code (f r)
    let q := codeAll f p.1 t
    (q.1, (p.2, r) :: q.2)

/-- the cut loop: `for i, v := range ordered { if v.code != last { push(ss); ss = new; last = v.code };
ss = append(ss, v.seq) }; if len(ss) > 0 { push(ss) }` -/
def cutLoop : Nat → List Rec → List (Nat × Rec) → List (List Rec)
  | _, ss, [] => if ss.length > 0 then [ss] else []
  | last, ss, (c, r) :: t =>
    if c ≠ last then ss :: cutLoop c [r] t else cutLoop last (ss ++ [r]) t

/-- the result of `sort.Sort` on the (code, record) pairs -/
abbrev Sorter := List (Nat × Rec) → List (Nat × Rec)

/-- one batch through the closure `ff` of `ISequenceSubChunk`; returns the state of the classifier
afterwards and the batches pushed, in the order they are pushed.  (`ordered[0]` on an empty slice cannot
happen: `batch.Len() > 1` and a sort keeps the length; for a `srt` that loses everything the model
pushes nothing.) -/
def subChunkL (kind : Kind) (f : Rec → Code) (srt : Sorter) (st : ClsSt) (b : List Rec) :
    ClsSt × List (List Rec) :=
  if b.length > 1 then
    let c := codeAll f (st.reset kind) b
    match srt c.2 with
    | [] => (c.1, [])
    | (c0, r0) :: t => (c.1, cutLoop c0 [] ((c0, r0) :: t))
  else (st, [b])

/-- `ISequenceSubChunk(input, classifier, 1)` on the batches of `input` in the order they arrive -/
def stageL (kind : Kind) (f : Rec → Code) (srt : Sorter) : ClsSt → List (List Rec) → List (List Rec)
  | _, [] => []
  | st, b :: bs =>
    let p := subChunkL kind f srt st b
    p.2 ++ stageL kind f srt p.1 bs

/-- a classifier of the chain: its kind and the value it reads -/
abbrev Level := Kind × (Rec → Code)

/-- the closure `ff` of `IUniqueSequence` on the batches of its input iterator: the batches that reach
`iUnique` (those of this level that hold one record, then what the next level makes of the others) -/
def ffL (srt : Sorter) : Level → List Level → List (List Rec) → List (List Rec)
  | c, [], bs => stageL c.1 c.2 srt .init bs
  | c, c' :: cs, bs =>
    let out := stageL c.1 c.2 srt .init bs
    out.filter (fun sb => sb.length = 1) ++ ffL srt c' cs (out.filter (fun sb => ¬ sb.length = 1))

/-- the levels after the sequence level: categories in reverse order, a new `AnnotationClassifier` each -/
def catLs (o : Opts) : List Level := (catCs o).map fun f => (Kind.annot, f)

/-- the batches that reach `iUnique` when worker `i` receives the hash chunks `ws[i]` (in that order) -/
def terminalsL (srt : Sorter) (o : Opts) (ws : List (List (List Rec))) : List (List Rec) :=
  ws.flatMap (ffL srt (Kind.seq, seqC) (catLs o))

/-- `IUniqueSequence`, loop level -/
def uniqL (srt : Sorter) (o : Opts) (ws : List (List (List Rec))) : List Rec :=
  ((terminalsL srt o ws).filter (fun b => !dropped o b)).filterMap (mergeClass o.na o.stats)

/-! ## executable sorters and worker assignments used by the driver -/

def insertByCode (x : Nat × Rec) : List (Nat × Rec) → List (Nat × Rec)
  | [] => [x]
  | y :: t => if x.1 ≤ y.1 then x :: y :: t else y :: insertByCode x t

/-- insertion sort, stable -/
def sortStable (l : List (Nat × Rec)) : List (Nat × Rec) := l.foldr insertByCode []

/-- a sort that reverses the order of the records of equal code -/
def sortAnti (l : List (Nat × Rec)) : List (Nat × Rec) := sortStable l.reverse

/-- merge sort on the codes (stable), for large batches -/
def sortMerge (l : List (Nat × Rec)) : List (Nat × Rec) := l.mergeSort (fun p q => decide (p.1 ≤ q.1))

/-- merge sort that reverses the order of the records of equal code -/
def sortMergeAnti (l : List (Nat × Rec)) : List (Nat × Rec) := sortMerge l.reverse

/-- chunk `i` goes to worker `i % n` -/
def dealTo {α : Type} (n : Nat) (l : List α) : List (List α) :=
  (List.range n).map fun w => ((l.zipIdx).filter fun p => p.2 % n = w).map (·.1)

end ObiVerif.Uniq
