import ObiVerif.Model.Header
/-!
# The OBI-format branch of `ParseGuessedFastSeqHeader` (property C02) — core Lean only

Transcribed from `pkg/obiformats/fastseq_obi_header.go`: `__match__key__` (byte loop, verbatim) and the skeleton of
`ParseOBIFeatures` / `ParseFastSeqOBIHeader`: the loop starts only when a `key=` pattern is found at the beginning of
the definition; when none is found the function returns `bytes.TrimSpace(definition)` and touches no annotation.  What
happens once a key is found (regular expressions for numeric / quoted values, go-json on `{…}` values, booleans) is
**not** modelled: parameter `rest`.  This is enough to close the header-parser selection of the property: on everything
the JSON writer prints, the guessed parser either takes the JSON branch or (empty title annotations) takes the OBI
branch with no key, which does nothing.
-/
namespace ObiVerif.ObiHeader
open ObiVerif.Header

/-- `(r >= 'A' && r <= 'Z') || (r >= 'a' && r <= 'z')` -/
def isAlpha (c : UInt8) : Bool := (65 ≤ c && c ≤ 90) || (97 ≤ c && c ≤ 122)

/-- letters, digits, `_ - .` -/
def isKeyChar (c : UInt8) : Bool := isAlpha c || (48 ≤ c && c ≤ 57) || c == 95 || c == 45 || c == 46

def isBlank (c : UInt8) : Bool := c == 32 || c == 9

/-- `for i, r := range text { … }` of `__match__key__` with the variables `state`, `start`; `some (start, i+1)` =
    `[]int{start, i + 1}`, `none` = `[]int{}` -/
def matchKeyLoop : Nat → Nat → Nat → Bytes → Option (Nat × Nat)
  | _, _, _, [] => none
  | state, start, i, r :: t =>
    if state = 0 then
      if isAlpha r then matchKeyLoop 1 i (i + 1) t
      else if !isBlank r then none
      else matchKeyLoop 0 start (i + 1) t
    else if r = 61 then some (start, i + 1)
    else if state = 1 then
      if isBlank r then matchKeyLoop 2 start (i + 1) t
      else if isKeyChar r then matchKeyLoop 1 start (i + 1) t
      else none
    else if !isBlank r then none
    else matchKeyLoop state start (i + 1) t

/-- `__match__key__(text)` -/
def matchKey (text : Bytes) : Option (Nat × Nat) := matchKeyLoop 0 0 0 text

/-- `ParseFastSeqOBIHeader`: `SetDefinition("")`, `ParseOBIFeatures`, and the remainder (if any) becomes the
    definition.  `rest` = the `key=value;` machinery, entered only when `__match__key__` finds a key. -/
def parseFastSeqOBIHeader {α : Type} (empty : α) (rest : Bytes → Option (Parsed α)) (defn : Bytes) : Option (Parsed α) :=
  match matchKey defn with
  | none =>
    let d := trimSpace defn
    some ⟨empty, if d = [] then none else some d⟩
  | some _ => rest defn

end ObiVerif.ObiHeader
