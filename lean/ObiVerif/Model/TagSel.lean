import ObiVerif.Model.Tag
/-!
# The selection loop of `obitag.Identify` / `obitag2.Obitag2RefDB.BestConsensus`, verbatim, on the TEXT of the
index entries; the exact-match table and the two stages of `obitag2.Identify` (C15, deepening round)

```go
d := differences
identification, ok := idx[d]
found := false
var parts []string
for !found && d >= 0 {
    for !ok && d >= 0 { identification, ok = idx[d]; d-- }
    parts = strings.Split(identification, "@")
    found = parts[0] != ""
    if !found {
        for !ok && d <= 1000 { identification, ok = idx[d]; d++ }
    }
}
match_taxid, err := strconv.Atoi(parts[0])          // error: log.Panicln
match_taxon, err := taxo.Taxon(match_taxid)         // error: log.Panicln
```

An index is a `map[int]string`; here a list of `(key, text)` read with `find?` (first match; the lists built by
`IndexSequence` have pairwise distinct keys, `ixRecord_keys_decreasing`).  Keys are natural numbers
(`IndexSequence` records `alilength - lcs ≥ 0`; an index read from a file with a negative key is outside the
model).  The text of an entry is a `List Char`.
-/
namespace ObiVerif.Tag

abbrev Text := List Char

/-- `fmt.Sprintf("%d@%s@%s", taxid, scientific name, rank)` (`IndexSequence`) -/
def fmtEntry (taxid : Nat) (name rank : Text) : Text :=
  Nat.toDigits 10 taxid ++ '@' :: (name ++ '@' :: rank)

/-- `strings.Split(identification, "@")[0]` : what precedes the first `@` (everything if there is none) -/
def part0 (s : Text) : Text := s.takeWhile (· != '@')

inductive Parsed where
  | blank            -- `parts[0] == ""`
  | taxid (n : Nat)  -- `strconv.Atoi(parts[0])` succeeds with a value `≥ 0`
  | bad              -- `Atoi` fails, or a negative number (no such taxon): `log.Panicln`
deriving Repr, DecidableEq

/-- `strconv.Atoi` on `parts[0]` : an optional sign and at least one decimal digit (a leading `-` is read as
`bad`: a negative taxid is never a taxon; a number beyond `int` is a taxid that is not in the taxonomy) -/
def parseTaxid (p : Text) : Parsed :=
  if p = [] then .blank else
  let ds := if p.head? = some '+' then p.tail else p
  if ds ≠ [] ∧ ds.all Char.isDigit then .taxid (Nat.ofDigitChars 10 ds 0) else .bad

/-- `identification, ok = idx[d]` : a miss gives the zero value `""` and `false` -/
def txtGet (idx : List (Nat × Text)) (d : Int) : Text × Bool :=
  if d < 0 then ([], false) else
  match idx.find? (fun e => e.1 = d.toNat) with
  | some e => (e.2, true)
  | none => ([], false)

/-- the variables `d`, `ok`, `identification` of the loop (`found` is false while the loop runs, `parts` is
recomputed from `identification`) -/
structure SelState where
  d : Int
  ok : Bool
  ident : Text
deriving Repr, DecidableEq

/-- `for !ok && d >= 0 { identification, ok = idx[d]; d-- }` (fuel `d + 1` is enough) -/
def selDown (idx : List (Nat × Text)) : Nat → SelState → SelState
  | 0, s => s
  | f + 1, s =>
    if s.ok = false ∧ s.d ≥ 0 then
      let r := txtGet idx s.d
      selDown idx f { d := s.d - 1, ok := r.2, ident := r.1 }
    else s

/-- `for !ok && d <= 1000 { identification, ok = idx[d]; d++ }` (fuel `1001 - d` is enough) -/
def selUp (idx : List (Nat × Text)) : Nat → SelState → SelState
  | 0, s => s
  | f + 1, s =>
    if s.ok = false ∧ s.d ≤ 1000 then
      let r := txtGet idx s.d
      selUp idx f { d := s.d + 1, ok := r.2, ident := r.1 }
    else s

inductive SelOut where
  | found (ident : Text)  -- the loop is left with `found = true`
  | exit                  -- the loop is left by `d < 0` with `found = false` : `parts[0] == ""`, `Atoi("")` fails
  | spin                  -- an iteration of the outer loop that changes none of `d`, `ok`, `identification`
                          --   (and leaves `found = false`, `d >= 0`): the Go loop never ends
  | fuel                  -- not decided within the fuel (`selLoop_no_fuel`: never with fuel `≥ 4`)
deriving Repr, DecidableEq

/-- `for !found && d >= 0 { … }` ; one unit of fuel per iteration of the outer loop -/
def selLoop (idx : List (Nat × Text)) : Nat → SelState → SelOut
  | 0, _ => .fuel
  | f + 1, s =>
    if s.d < 0 then .exit else
    let s1 := selDown idx (s.d.toNat + 1) s
    if part0 s1.ident ≠ [] then .found s1.ident else
    let s2 := selUp idx (1001 - s1.d).toNat s1
    if s2 = s then .spin else selLoop idx f s2

/-- `d := differences; identification, ok := idx[d]` -/
def selInit (idx : List (Nat × Text)) (D : Nat) : SelState :=
  let r := txtGet idx (D : Int)
  { d := D, ok := r.2, ident := r.1 }

/-- the whole selection for one best reference: loop, `Atoi`, `taxo.Taxon` -/
def selectText (t : Tax.Taxo) (idx : List (Nat × Text)) (D : Nat) : Tax.Res Nat :=
  match selLoop idx 4 (selInit idx D) with
  | .found ident =>
    match parseTaxid (part0 ident) with
    | .taxid n =>
      match Tax.resolve t n with
      | some x => .ok x
      | none => .error .panic          -- "Cannot find taxon corresponding to taxid"
    | _ => .error .panic               -- "Cannot extract taxid from"
  | .exit => .error .panic             -- `Atoi("")`
  | .spin => .error .hang
  | .fuel => .error .err               -- never (`selLoop_no_fuel`)

/-! ## `Identify` over an arbitrary representation of the indices -/

/-- entries selected for each best reference, `sel` being the selection in one index -/
def selectAllG {ι : Type} (sel : ι → Nat → Tax.Res Nat) (index : Nat → Tax.Res ι) (d : Nat) :
    List Nat → Tax.Res (List Nat)
  | [] => .ok []
  | b :: bs =>
    match index b with
    | .error e => .error e
    | .ok idx => match sel idx d with
      | .error e => .error e
      | .ok m => match selectAllG sel index d bs with
        | .error e => .error e
        | .ok ms => .ok (m :: ms)

/-- `Identify` / `FindClosests + BestConsensus` (see `identify`) with the selection `sel` -/
def identifyG {ι : Type} (sel : ι → Nat → Tax.Res Nat) (t : Tax.Taxo) (fuel : Nat) (fc : FCOut)
    (index : Nat → Tax.Res ι) : IdOut :=
  match fc with
  | .panic => .bad .panic
  | .ok maxe bestId bestmatch idxs =>
    if bestId.2 ≠ 0 ∧ 2 * bestId.1 ≥ bestId.2 then
      match selectAllG sel index maxe idxs with
      | .error e => .bad e
      | .ok ms => match consensus t fuel none ms with
        | .error e => .bad e
        | .ok none => .bad .panic
        | .ok (some z) => .ok z bestmatch idxs.length
    else
      match t.node 1 with
      | some _ => .ok 1 bestmatch idxs.length
      | none => .bad .panic

/-- `Identify` on the text of the indices, with the verbatim selection loop -/
def identifyText (t : Tax.Taxo) (fuel : Nat) (fc : FCOut) (index : Nat → Tax.Res (List (Nat × Text))) : IdOut :=
  identifyG (selectText t) t fuel fc index

/-- the text of a numeric index: `name`, `rank` = scientific name and rank of each taxon -/
def textIndex (name rank : Nat → Text) (idx : List (Nat × Nat)) : List (Nat × Text) :=
  idx.map fun e => (e.1, fmtEntry e.2 (name e.2) (rank e.2))

/-! ## `obitag2` : the exact-match table (`CLIAssignTaxonomy`) and the two stages of `Identify` -/

/-- `t, err = t.LCA(t2)` over the references holding the same sequence, in data-base order; an error is
`log.Panic(err)` (the nil result of a failed `LCA` would be dereferenced anyway) -/
def lcaChain (t : Tax.Taxo) (fuel : Nat) : Nat → List Nat → Tax.Res Nat
  | x, [] => .ok x
  | x, y :: ys =>
    match Tax.lca t fuel x y with
    | .error _ => .error .panic
    | .ok z => lcaChain t fuel z ys

/-- the entry of `ExactTaxid` for the sequence of the query: `none` if no reference holds that sequence; else
`(taxon, index of the first such reference, sum of the counts)`.  `same i` : reference `i` has exactly the bytes
of the query; `taxids`, `counts` : taxid and `Count()` of each reference -/
def exactEntry (t : Tax.Taxo) (fuel : Nat) (same : Nat → Bool) (taxids counts : List Nat) :
    Option (Tax.Res (Nat × Nat × Nat)) :=
  match (List.range taxids.length).filter same with
  | [] => none
  | i :: is =>
    some (match lcaChain t fuel (taxids.getD i 0) (is.map fun j => taxids.getD j 0) with
      | .error e => .error e
      | .ok z => .ok (z, i, ((i :: is).map fun j => counts.getD j 0).sum))

/-- where the answer of `obitag2.Identify` comes from -/
inductive Id2Stage where
  | exact               -- the exact-match table (`obitag_similarity_method = "exact match"`)
  | clusters            -- the search among the cluster heads only (no family above the consensus, or identity < 0.5)
  | family (f : Nat)    -- the second search, in the family of taxid `f`
deriving Repr, DecidableEq

inductive Id2Out where
  | bad (b : Tax.Bad)
  /-- `bestmatch` : for `exact` the index of the reference, else the position in the list searched last -/
  | ok (taxid bestmatch weight : Nat) (stage : Id2Stage)
deriving Repr, DecidableEq

/-- `obitag2.Identify`.  `exact` : the entry of `ExactTaxid` for the query; `fcC` / `indexC` : answer of
`FindClosests` on the cluster heads and the `obitag_ref_index` of cluster head `i` (positions in `*db.Clusters`);
`fam f` : for the family taxid `f`, `none` when `(*db.Families)[f]` is absent (nil dereference), else the answer of
`FindClosests` on that family and its `reffamidx_in` indices (positions in the family slice).  The weight of the
non-exact branch is `bests.Len()` of the FIRST search. -/
def identify2 {ι : Type} (sel : ι → Nat → Tax.Res Nat) (t : Tax.Taxo) (fuel : Nat)
    (exact : Option (Tax.Res (Nat × Nat × Nat)))
    (fcC : FCOut) (indexC : Nat → Tax.Res ι)
    (fam : Nat → Option (FCOut × (Nat → Tax.Res ι))) : Id2Out :=
  match exact with
  | some (.error e) => .bad e
  | some (.ok (z, i, w)) => .ok z i w .exact
  | none =>
    match fcC with
    | .panic => .bad .panic
    | .ok maxe bestId bestmatch idxs =>
      if bestId.2 ≠ 0 ∧ 2 * bestId.1 ≥ bestId.2 then
        match selectAllG sel indexC maxe idxs with
        | .error e => .bad e
        | .ok ms => match consensus t fuel none ms with
          | .error e => .bad e
          | .ok none => .bad .panic
          | .ok (some f0) =>
            match Tax.taxonAtRank t "family" fuel f0 with
            | .error e => .bad e
            | .ok none => .ok f0 bestmatch idxs.length .clusters
            | .ok (some f) =>
              match fam f with
              | none => .bad .panic
              | some (.panic, _) => .bad .panic
              | some (.ok maxe2 _ bestmatch2 idxs2, indexF) =>
                match selectAllG sel indexF maxe2 idxs2 with
                | .error e => .bad e
                | .ok ms2 => match consensus t fuel none ms2 with
                  | .error e => .bad e
                  | .ok none => .bad .panic
                  | .ok (some z) => .ok z bestmatch2 idxs.length (.family f)
      else
        match t.node 1 with
        | some _ => .ok 1 bestmatch idxs.length .clusters
        | none => .bad .panic

/-! ## `FindClosests` with the answers of `D1Or0` as a parameter

`fcCompare` reads `D1Or0(seq, ref)` as "0 / 1 exactly when the unbounded LCS distance is 0 / 1", which the real
kernel satisfies on words over `a c g t` (harness: `hyp.d1or0`).  With IUPAC ambiguity codes it does not: `D1Or0`
compares bytes while `FastLCSScore` matches codes by set intersection.  `findClosestsK d1` is the same loop with the
answer `d1 c` of `D1Or0` on candidate `c` as a parameter (`findClosestsK d1or0 = findClosests`). -/

def fcCompareK (d1 : Cand → Option Nat) (v : Variant) (lq : Nat) (c : Cand) : Option Nat → Option (Nat × Nat × Nat)
  | none => some (c.dist, c.lcs, c.ali)
  | some e =>
    if e = 0 ∧ v = .tag2 then
      if c.dist = 0 then some (0, lq, lq) else none
    else if e ≤ 1 then
      match d1 c with
      | some d => some (d, max lq c.len - d, max lq c.len)
      | none => none
    else
      match boundedLCS c e with
      | some (l, a) => some (a - l, l, a)
      | none => none

def fcLoopK (d1 : Cand → Option Nat) (wm : Nat → Nat → Nat → Nat) (v : Variant) (lq : Nat) (c : Nat → Cand) :
    List Nat → FCState → FCState
  | [], st => st
  | i :: rest, st =>
    if (c i).cw < st.wordmin then st
    else
      match fcCompareK d1 v lq (c i) st.maxe with
      | none => fcLoopK d1 wm v lq c rest st
      | some (score, lcs, ali) => fcLoopK d1 wm v lq c rest (fcUpdate wm lq (c i) i st score lcs ali)

def findClosestsK (d1 : Cand → Option Nat) (v : Variant) (lq : Nat) (c : Nat → Cand) (o : List Nat) : FCOut :=
  match o with
  | [] => .panic
  | o0 :: _ =>
    let st := fcLoopK d1 wmNew v lq c o { maxe := none, wordmin := 0, bestidxs := [], bestId := (0, 1), bestmatch := o0 }
    match st.maxe, st.bestidxs with
    | some e, _ :: _ => .ok e st.bestId st.bestmatch st.bestidxs
    | _, _ => .panic

end ObiVerif.Tag
