import ObiVerif.Model.Tag
import ObiVerif.Model.LcsBuf
/-!
# The search loops of obitag / obitag2 / obirefidx on ACTUAL sequences, calling the VERBATIM kernels (C15, round 2)

`Model/Tag.lean` transcribes `FindClosests` and `IndexSequence` over abstract candidate data (`Cand`) and READS the
two kernels (`FastLCSScore(.., e)` = the unbounded answer when within `e`, `-1` otherwise; `D1Or0` = 0/1 exactly
when the unbounded distance is 0/1).  Here the same loops run on the byte strings of the query and of the
references and CALL the verbatim transcriptions of the kernels of `Model/Lcs.lean` / `Model/LcsBuf.lean` (C09):

* `Lcs.fastLCSBuf q r maxe false matrix` : `obialign.FastLCSScore(sequence, ref, maxe, &matrix)` — one call of
  `FastLCSEGFScoreByte` (endgapfree = false) on the CALLER's scratch buffer `matrix`, which both loops declare once
  (`var matrix []uint64`, nil) and hand to every call: the buffer is threaded through the loop here too;
* `Lcs.d1or0 q r` : `obialign.D1Or0(sequence, ref)` (the two index loops of is_d0_or_d1.go);
* obitag2's `case 0` : comparison of the two byte strings.

A panic inside a kernel (slice index out of range) is the outcome `.error`; `Lemmas/TagKernel.lean` proves that it
never happens and that, for sequences over `a c g t` with `|q| + |r| < 30000` (the range in which the packed 16-bit
fields of the LCS kernel mean anything, C09), these loops return exactly what the loops of `Model/Tag.lean` return
on `candOf q r` — so every theorem of C15 is a theorem about the loops that call the verbatim kernels.

What the loops do with the answers is shared with `Model/Tag.lean` (`fcUpdate`, `ixMin`, `ixRecord`): `score`,
`lcs`, `alilength` are kept as naturals — a kernel answer with `lcs >= 0` is a pair of fields of `decodeValues`
(naturals) and `alilength - lcs` is not negative for `|q| + |r| < 30000` (`fastLCS_sound`: an actual alignment).
An answer of the banded kernel ABOVE its bound (`alilength - lcs > maxe`, possible because the band is wider than
the bound) is passed to `fcUpdate` / `ixMin` as it is: the Go tests `score < maxe`, `score == maxe`, `errs < mini`
are all false on it (`fcUpdate_far`).
-/
namespace ObiVerif.Tag

open ObiVerif.Kmer (Bytes)
open ObiVerif.Lcs (Err)

/-- the Go `int` held by `maxe` / `mini` (`-1` = nothing found yet) -/
def maxeInt : Option Nat → Int
  | none => -1
  | some e => (e : Int)

/-- `lcs, alilength = obialign.FastLCSScore(sequence, ref, maxe, &matrix); if lcs >= 0 { score = alilength - lcs }`
: `none` when `lcs < 0`, else `(score, lcs, alilength)`; the buffer as the call leaves it -/
def lcsCallV (q r : Bytes) (maxe : Option Nat) (matrix : Array UInt64) :
    Except Err (Option (Nat × Nat × Nat) × Array UInt64) :=
  match Lcs.fastLCSBuf q r (maxeInt maxe) false matrix with
  | .error x => .error x
  | .ok ((lcs, ali, _), matrix') =>
    if lcs ≥ 0 then .ok (some ((ali - lcs).toNat, lcs.toNat, ali.toNat), matrix') else .ok (none, matrix')

/-- `d, _, _, _ := obialign.D1Or0(sequence, ref); if d >= 0 { score = d; alilength = max(sequence.Len(), ref.Len());
lcs = alilength - score }` followed by the test `lcs >= 0` of the caller -/
def d1CallV (q r : Bytes) : Except Err (Option (Nat × Nat × Nat)) :=
  match Lcs.d1or0 q r with
  | .error x => .error x
  | .ok d =>
    let ali : Int := ((max q.length r.length : Nat) : Int)
    if d.verdict ≥ 0 ∧ ali - d.verdict ≥ 0 then
      .ok (some (d.verdict.toNat, (ali - d.verdict).toNat, ali.toNat))
    else .ok none

/-- the comparison of the query `q` with the reference `r` in `FindClosests` (obitag: `maxe == 0 || maxe == 1` →
`D1Or0`, else `FastLCSScore`; obitag2: `switch maxe { case 0: bytes equal; case 1: D1Or0; default: FastLCSScore }`) -/
def fcCompareV (v : Variant) (q r : Bytes) (maxe : Option Nat) (matrix : Array UInt64) :
    Except Err (Option (Nat × Nat × Nat) × Array UInt64) :=
  if maxe = some 0 ∧ v = .tag2 then
    .ok ((if q = r then some (0, q.length, q.length) else none), matrix)
  else if maxe = some 0 ∨ maxe = some 1 then
    match d1CallV q r with
    | .error x => .error x
    | .ok X => .ok (X, matrix)
  else lcsCallV q r maxe matrix

/-- `for _, order := range o { if cw[order] < wordmin { break }; … }` with the verbatim kernels; `cw i` =
`Common4Mer` of the query and reference `i` -/
def fcLoopV (wm : Nat → Nat → Nat → Nat) (v : Variant) (q : Bytes) (refs : Nat → Bytes) (cw : Nat → Nat) :
    List Nat → FCState → Array UInt64 → Except Err (FCState × Array UInt64)
  | [], st, matrix => .ok (st, matrix)
  | i :: rest, st, matrix =>
    if cw i < st.wordmin then .ok (st, matrix)
    else
      match fcCompareV v q (refs i) st.maxe matrix with
      | .error x => .error x
      | .ok (none, matrix') => fcLoopV wm v q refs cw rest st matrix'
      | .ok (some (score, lcs, ali), matrix') =>
        fcLoopV wm v q refs cw rest
          (fcUpdate wm q.length ⟨(refs i).length, cw i, lcs, ali⟩ i st score lcs ali) matrix'

/-- `FindClosests(sequence, references, refcounts, runExact)` of obitag (`.tag1`) / obitag2 (`.tag2`) on the byte
strings, with the verbatim kernels; `o` = the candidate order (`obiutils.Reverse(obiutils.IntOrder(cw), true)`, an
unstable sort: a parameter, as in `findClosests`); `.error` = panic inside a kernel, `.ok .panic` = the index out
of range of `findClosests` -/
def findClosestsV (v : Variant) (q : Bytes) (refs : Nat → Bytes) (o : List Nat) : Except Err FCOut :=
  match o with
  | [] => .ok .panic
  | o0 :: _ =>
    let cq := Kmer.count4mer q
    match fcLoopV wmNew v q refs (fun i => common4mer cq (Kmer.count4mer (refs i))) o
        { maxe := none, wordmin := 0, bestidxs := [], bestId := (0, 1), bestmatch := o0 } #[] with
    | .error x => .error x
    | .ok (st, _) =>
      .ok (match st.maxe, st.bestidxs with
        | some e, _ :: _ => .ok e st.bestId st.bestmatch st.bestidxs
        | _, _ => .panic)

/-! ## `IndexSequence` -/

/-- `errs` of `IndexSequence` (`none` = 1e9): `if mini != -1 && mini <= 1 { D1Or0 } else { FastLCSScore(…, mini, &matrix) }` -/
def ixErrsV (s r : Bytes) (mini : Option Nat) (matrix : Array UInt64) : Except Err (Option Nat × Array UInt64) :=
  if mini = some 0 ∨ mini = some 1 then
    match Lcs.d1or0 s r with
    | .error x => .error x
    | .ok d => .ok ((if d.verdict ≥ 0 then some d.verdict.toNat else none), matrix)
  else
    match lcsCallV s r mini matrix with            -- `errs = alilength - lcs` when `lcs >= 0`
    | .error x => .error x
    | .ok (X, matrix') => .ok (X.map (·.1), matrix')

/-- `ixInner` with the verbatim kernels (`s` = the indexed sequence, `cw j` = `Common4Mer(sw, kmers[j])`) -/
def ixInnerV (thr : Nat → Nat → Nat → Int) (s : Bytes) (refs : Nat → Bytes) (cw : Nat → Nat) (anc : Nat → Nat) (a : Nat) :
    List Nat → IxState → Array UInt64 → Except Err (IxState × Array UInt64)
  | [], st, matrix => .ok (st, matrix)
  | j :: rest, st, matrix =>
    if anc j = a then
      let wm := match st.mini with
        | some m => thr s.length (refs j).length m
        | none => st.wordmin
      if ((cw j : Nat) : Int) < wm then .ok ({ st with wordmin := wm }, matrix)
      else
        match ixErrsV s (refs j) st.mini matrix with
        | .error x => .error x
        | .ok (errs, matrix') =>
          ixInnerV thr s refs cw anc a rest { mini := ixMin errs st.mini, wordmin := wm } matrix'
    else ixInnerV thr s refs cw anc a rest st matrix

/-- `ixOuter` with the verbatim kernels -/
def ixOuterV (thr : Nat → Nat → Nat → Int) (s : Bytes) (refs : Nat → Bytes) (cw : Nat → Nat) (anc : Nat → Nat)
    (ow : List Nat) : List Nat → IxState → Array UInt64 → Except Err (List (Option Nat))
  | [], _, _ => .ok []
  | a :: as, st, matrix =>
    match ixInnerV thr s refs cw anc a ow st matrix with
    | .error x => .error x
    | .ok (st', matrix') =>
      match ixOuterV thr s refs cw anc ow as st' matrix' with
      | .error x => .error x
      | .ok ds => .ok (st'.mini :: ds)

/-- `IndexSequence(seqidx, references, kmers, taxa, taxo)` on the byte strings with the verbatim kernels: outer
`.error` = panic inside a kernel; inner result as `indexSequence` -/
def indexSequenceV (t : Tax.Taxo) (fuel : Nat) (taxids : List Nat) (seqidx : Nat) (refs : Nat → Bytes)
    (ow : List Nat) : Except Err (Tax.Res (List (Nat × Nat))) :=
  let tseq := taxids.getD seqidx 0
  match lcaAll t fuel tseq taxids with
  | .error e => .ok (.error e)
  | .ok lcas =>
    match Tax.path t fuel tseq with
    | .error e => .ok (.error e)
    | .ok p =>
      let s := refs seqidx
      let cs := Kmer.count4mer s
      match ixOuterV thrNew s refs (fun j => common4mer cs (Kmer.count4mer (refs j))) (fun j => lcas.getD j 0) ow
          p.reverse { mini := none, wordmin := 0 } #[] with
      | .error x => .error x
      | .ok ds => .ok (.ok (ixRecord p.reverse ds s.length))

/-! ## `Identify` / `FindClosests + BestConsensus` on the byte strings -/

/-- `Identify` of obitag / `FindClosests` + `BestConsensus` of obitag2 with every kernel call verbatim: the search
of the query among `refs` (order `o`) and the index of each best reference built by `IndexSequence` (order `ows b`
for reference `b`); a panic inside a kernel is the outcome `.bad .panic` -/
def identifyV (t : Tax.Taxo) (fuel : Nat) (v : Variant) (q : Bytes) (refs : Nat → Bytes) (taxids : List Nat)
    (o : List Nat) (ows : Nat → List Nat) : IdOut :=
  match findClosestsV v q refs o with
  | .error _ => .bad .panic
  | .ok fc =>
    identify t fuel fc (fun b =>
      match indexSequenceV t fuel taxids b refs (ows b) with
      | .error _ => .error .panic
      | .ok r => r)

end ObiVerif.Tag
