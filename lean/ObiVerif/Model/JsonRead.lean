import ObiVerif.Model.Json
import ObiVerif.Model.WriterFmt
/-!
# Reading a JSON file back (C04) — core Lean only

The decoder of property C02 (`Json.decVal`, `Model/Json.lean`, imported unchanged) is a strict RFC 8259 parser of
**compact** texts.  The file written by `WriteJSON` is indented, so the reader of a whole file is

    decodeText = decVal ∘ strip

where `strip` is the token-level scanner that removes the *insignificant white space* of RFC 8259 §2
(`ws = *( %x20 / %x09 / %x0A / %x0D )`, allowed before and after each of the six structural characters and
around a value).  `strip` copies string literals untouched (escape aware), drops white space between tokens and
**fails** when white space separates two bytes of number / literal-name tokens (`1 2`, `tr ue`, `- 1`: such a text
is not JSON; two of these tokens are never adjacent in the grammar, so white space between them can only be inside
a token or a syntax error).  Hence `decodeText t = some v` only if `t` is a JSON text denoting `v`.

`toJ` maps an annotation value tree of the writer model (`WriterFmt.Val`) to the value universe of the decoder:
the denotation the written text must have.
-/
namespace ObiVerif.JsonRead
open ObiVerif.Json (JVal JList JMems)
open ObiVerif.WriterFmt (Val Rec dec recordVal)

abbrev B := List UInt8

/-- RFC 8259 white space -/
def isWs (c : UInt8) : Bool := c == 32 || c == 10 || c == 13 || c == 9

/-- a byte of a number token or of a literal name (`true`, `false`, `null`) -/
def isWord (c : UInt8) : Bool := Json.numChar c || (97 ≤ c && c ≤ 122)

/-- scanner state: outside a string (`prevWord`: the last byte copied belongs to a number / literal name; `gap`: white
space was dropped since), inside a string literal, just after a backslash inside a string literal -/
inductive St
  | out (prevWord gap : Bool)
  | str
  | esc

/-- remove the insignificant white space of a JSON text (`none`: unterminated string, or white space inside a token) -/
def strip : St → B → Option B
  | .out _ _, [] => some []
  | .str, [] => none
  | .esc, [] => none
  | .out pw gap, c :: t =>
    if isWs c then strip (.out pw true) t
    else if c = 34 then (strip .str t).map (c :: ·)
    else if isWord c then (if pw && gap then none else (strip (.out true false) t).map (c :: ·))
    else (strip (.out false false) t).map (c :: ·)
  | .str, c :: t =>
    if c = 34 then (strip (.out false false) t).map (c :: ·)
    else if c = 92 then (strip .esc t).map (c :: ·)
    else (strip .str t).map (c :: ·)
  | .esc, c :: t => (strip .str t).map (c :: ·)

/-- a whole text holding exactly one JSON value (white space allowed between tokens) → the value -/
def decodeText (t : B) : Option JVal :=
  match strip (.out false false) t with
  | none => none
  | some u =>
    match Json.decVal (2 * u.length + 2) u with
    | some (v, []) => some v
    | _ => none

/-! ## the value a written text must denote -/

mutual
def toJ : Val → JVal
  | .str s => .str s
  | .int i => .num (dec i)
  | .bool b => .bool b
  | .list l => .arr (toJList l)
  | .map m => .obj (toJMems m)
def toJList : List Val → JList
  | [] => .nil
  | v :: vs => .cons (toJ v) (toJList vs)
def toJMems : List (B × Val) → JMems
  | [] => .nil
  | (k, v) :: es => .cons k (toJ v) (toJMems es)
end

/-- the JSON object of one record -/
def recJ (shift : UInt8) (r : Rec) : JVal := toJ (recordVal shift r)

/-- the JSON array of a list of records -/
def fileJ (shift : UInt8) (rs : List Rec) : JVal := .arr (toJList (rs.map (recordVal shift)))

/-! ## access paths into a decoded value (used to state what the i-th element holds) -/

def JList.get? : JList → Nat → Option JVal
  | .nil, _ => none
  | .cons v _, 0 => some v
  | .cons _ t, n + 1 => JList.get? t n

def JList.length : JList → Nat
  | .nil => 0
  | .cons _ t => JList.length t + 1

/-- first member with key `k` -/
def JMems.find (k : B) : JMems → Option JVal
  | .nil => none
  | .cons k' v t => if k' = k then some v else JMems.find k t

/-- member `k` of an object -/
def field (k : B) : JVal → Option JVal
  | .obj m => JMems.find k m
  | _ => none

/-! ## canonical compact text of a decoded value (for the correspondence check: the harness prints the same text from
what `encoding/json` decodes) -/

def showJ (v : JVal) : B := Json.encVal v

end ObiVerif.JsonRead
