import ObiVerif.Model.Tax
import ObiVerif.Model.TaxLoad
/-!
# Model of the taxonomy based sequence predicates, methods and workers of `pkg/obitax` (C14, second pass)

`sequence_predicate.go` (`IsAValidTaxon`, `IsSubCladeOf(taxid)`, `IsSubCladeOfSlot`, `HasRequiredRank`),
`sequence_methods.go` (`SetTaxonAtRank`, `SetSpecies`, `SetGenus`, `SetFamily`, `SetPath`,
`SetScientificName`, `SetTaxonomicRank`) and `sequence_workers.go` (`MakeSet…Worker`) as functions of the
taxid attribute of the sequence.  Every one of them starts with `taxonomy.Taxon(sequence.Taxid())`, i.e.
`Tax.resolve` : the `nodes` map first, then the alias table of the merged taxids.  The closures already
modelled in `Model/Tax.lean` (`inClade`, `hasRank`, `inCladeSlot`, `setTaxonAtRank`) and
`Model/TaxLoad.lean` (`setPath`, `inCladeSlotStr`) are reused; this file adds the constructors around them
(the `log.Fatalf` raised while the predicate / worker is built) and the methods that were not modelled.

Scientific names and rank labels are byte strings given by the functions `name rank : Nat → Bytes`
(`TaxNode.ScientificName()` is `""` for a node without name).
-/
namespace ObiVerif.TaxSeq
open ObiVerif.Tax ObiVerif.TaxLoad

/-- `BioSequence.SetTaxid(taxid)` : `if taxid < 1 { taxid = 1 }` -/
def setTaxid (x : Nat) : Nat := if x < 1 then 1 else x

/-- the closure of `Taxonomy.IsAValidTaxon(withAutoCorrection)` : the answer and, when the sequence is
rewritten (`err == nil && taxon.taxid != taxid && autocorrection`), its new `taxid` attribute -/
def isValidTaxonFix (t : Taxo) (auto : Bool) (tid : Nat) : Bool × Option Nat :=
  match resolve t tid with
  | none => (false, none)
  | some x => (true, if x ≠ tid ∧ auto = true then some (setTaxid x) else none)

/-- `Taxonomy.IsSubCladeOf(clade)(sequence)` : `log.Fatalf` for an unknown clade when the predicate is
built, then `taxon, err := taxonomy.Taxon(sequence.Taxid()); err == nil && taxon.IsSubCladeOf(parent)` -/
def isSubCladeOfPred (t : Taxo) (fuel clade tid : Nat) : Res Bool :=
  match resolve t clade with
  | none => .error .fatal
  | some c => inClade t fuel c tid

/-- `Taxonomy.HasRequiredRank(rank)(sequence)` : `log.Fatalf` when no node carries the rank -/
def hasRequiredRankPred (t : Taxo) (fuel : Nat) (rank : String) (tid : Nat) : Res Bool :=
  if (rankList t).contains rank then hasRank t fuel rank tid else .error .fatal

/-- what `SetTaxonAtRank` writes: `none` = nothing (unknown taxid); `some (none, "NA")` = `rank_taxid: -1`,
`rank_name: "NA"`; `some (some z, name z)` -/
def setTaxonAtRankAnn (t : Taxo) (fuel : Nat) (name : Nat → Bytes) (rank : String) (tid : Nat) :
    Res (Option (Option Nat × Bytes)) :=
  match setTaxonAtRank t fuel rank tid with
  | .error e => .error e
  | .ok none => .ok none
  | .ok (some none) => .ok (some (none, [78, 65]))
  | .ok (some (some z)) => .ok (some (some z, name z))

/-- `Taxonomy.MakeSetTaxonAtRankWorker(rank)(sequence)` : `log.Fatalf` when no node carries the rank -/
def setTaxonAtRankWorker (t : Taxo) (fuel : Nat) (name : Nat → Bytes) (rank : String) (tid : Nat) :
    Res (Option (Option Nat × Bytes)) :=
  if (rankList t).contains rank then setTaxonAtRankAnn t fuel name rank tid else .error .fatal

/-- `SetSpecies` / `MakeSetSpeciesWorker` (no check of the rank list) -/
def setSpecies (t : Taxo) (fuel : Nat) (name : Nat → Bytes) (tid : Nat) := setTaxonAtRankAnn t fuel name "species" tid
/-- `SetGenus` / `MakeSetGenusWorker` -/
def setGenus (t : Taxo) (fuel : Nat) (name : Nat → Bytes) (tid : Nat) := setTaxonAtRankAnn t fuel name "genus" tid
/-- `SetFamily` / `MakeSetFamilyWorker` -/
def setFamily (t : Taxo) (fuel : Nat) (name : Nat → Bytes) (tid : Nat) := setTaxonAtRankAnn t fuel name "family" tid

/-- `Taxonomy.SetScientificName(sequence)` : `log.Fatalf` for an unknown taxid -/
def setScientificName (t : Taxo) (name : Nat → Bytes) (tid : Nat) : Res Bytes :=
  match resolve t tid with
  | none => .error .fatal
  | some x => .ok (name x)

/-- `Taxonomy.SetTaxonomicRank(sequence)` : `log.Fatalf` for an unknown taxid -/
def setTaxonomicRank (t : Taxo) (rank : Nat → Bytes) (tid : Nat) : Res Bytes :=
  match resolve t tid with
  | none => .error .fatal
  | some x => .ok (rank x)

/-- the keys of a `merged_taxid` map replaced by the taxids they resolve to (an unknown key is left as it is) -/
def resolveKeys (t : Taxo) (kws : List (Nat × Nat)) : List (Nat × Nat) :=
  kws.map fun kw => ((resolve t kw.1).getD kw.1, kw.2)

end ObiVerif.TaxSeq
