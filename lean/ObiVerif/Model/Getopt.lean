/-!
# Model of the command-line tokenizer (C16): go-getoptions v0.28 as `obioptions.GenerateOptionParser` uses it

Anchors: `pkg/obioptions/options.go` (`GenerateOptionParser`: `SetMode(Bundling)`,
`SetUnknownMode(Fail)`, the common options, `help` / `version` / error → `os.Exit`), the option
declarations of `obiconvert/options.go`, `obigrep/options.go`, `obiannotate/options.go`,
`obidistribute/options.go`, and, in the module cache, `go-getoptions@v0.28.0` `isoption.go`
(`isOption`), `api.go` (`parseCLIArgs`, `getAliasNameFromPartialEntry`), `user.go` (`Parse`),
`internal/option/option.go` (`Save`, `CheckRequired`).

The declarations (`Decl`) are a parameter of the tokenizer: the theorems hold for every table; the
three tables of this file are the ones of obigrep / obiannotate / obidistribute.

Outside the model: words holding a line feed (the regular expression of `isOption` does not match
them), the exotic spellings `strconv.ParseFloat` accepts (`inf`, hexadecimal floats, `_`), environment
variables (`OBIMAXCPU`, …), shell completion (`COMP_LINE`).
-/
namespace ObiVerif.Getopt

inductive Kind where
  | flag | int | float | str | strs | ints | map
  deriving DecidableEq, Repr, Inhabited

structure Decl where
  name : String
  aliases : List String := []
  kind : Kind
  /-- `options.Required(msg)` -/
  required : Option String := none
  deriving Repr, Inhabited

def Decl.keys (d : Decl) : List String := d.name :: d.aliases

/-- what `isOption(word, Bundling, false)` sees in one word -/
inductive Word where
  /-- `--`: end of the options -/
  | term
  /-- a lonesome `-`: an option called `-` -/
  | dash
  /-- `--name` / `--name=arg` (an empty `arg` is no argument) -/
  | long (name : String) (arg : Option String)
  /-- `-abc` / `-abc=arg`: one option per letter, the argument goes to the last one -/
  | short (letters : List Char) (arg : Option String)
  | text
  deriving DecidableEq, Repr, Inhabited

/-- the part after the option name: `=arg` gives `arg`, an empty one counts for nothing -/
def argOf (after : List Char) : Option String :=
  match after with
  | '=' :: a => if a.isEmpty then none else some (String.ofList a)
  | _ => none

/-- `isOptionRegex = ^(--?)([^=]+)(.*?)$` on a word without line feed -/
def classify (w : String) : Word :=
  if w = "--" then .term
  else if w = "-" then .dash
  else
    match w.toList with
    | '-' :: '-' :: c :: rest =>
      if c ≠ '=' then
        let body := c :: rest
        .long (String.ofList (body.takeWhile (· ≠ '='))) (argOf (body.dropWhile (· ≠ '=')))
      else
        -- `--=x`: the regular expression backtracks to the short option `-`
        .short ['-'] (argOf (c :: rest))
    | '-' :: c :: rest =>
      if c ≠ '=' then
        let body := c :: rest
        .short (body.takeWhile (· ≠ '=')) (argOf (body.dropWhile (· ≠ '=')))
      else .text
    | _ => .text

/-- `isOption(word)` as a Boolean: does the word look like an option (`--` does not) -/
def looksLikeOption (w : String) : Bool :=
  match classify w with
  | .term => false
  | .text => false
  | _ => true

/-- `getAliasNameFromPartialEntry`: the entry itself when it is a declared name or alias, else every
declared name or alias it is a prefix of -/
def matchesOf (decls : List Decl) (entry : String) : List String :=
  let keys := decls.flatMap Decl.keys
  if keys.contains entry then [entry] else keys.filter fun k => entry.toList.isPrefixOf k.toList

def declOf (decls : List Decl) (key : String) : Option Decl := decls.find? fun d => d.keys.contains key

inductive Err where
  | ambiguous (word : String)
  | missing (alias : String)
  | dashArg (alias : String)
  | badInt (alias val : String)
  | badFloat (alias val : String)
  | notKV (alias : String)
  | unknown (name : String)
  | required (msg : String)
  deriving DecidableEq, Repr, Inhabited

/-- one assignment: the option (by its declared name), and the value saved (`"1"` / `"0"` for a flag) -/
structure Event where
  name : String
  value : String
  deriving DecidableEq, Repr, Inhabited

structure St where
  events : List Event := []
  unknown : List String := []
  text : List String := []
  deriving Repr, Inhabited

/-- `strconv.Atoi`: an optional sign, decimal digits, the value fitting an `int` (64 bits) -/
def atoi? (s : String) : Option Int :=
  let digs : List Char → Option Nat := fun l =>
    if l.isEmpty || !l.all Char.isDigit then none
    else some (l.foldl (fun (n : Nat) c => n * 10 + (c.toNat - 48)) (0 : Nat))
  match s.toList with
  | '-' :: l => (digs l).bind fun n => if n ≤ 9223372036854775808 then some (-(n : Int)) else none
  | '+' :: l => (digs l).bind fun n => if n ≤ 9223372036854775807 then some (n : Int) else none
  | l => (digs l).bind fun n => if n ≤ 9223372036854775807 then some (n : Int) else none

/-- the plain decimal spellings `strconv.ParseFloat` accepts: `[+-]d*[.d*][e[+-]d+]` with a digit -/
def floatOK (s : String) : Bool :=
  let l := match s.toList with
    | '-' :: t => t
    | '+' :: t => t
    | t => t
  let ip := l.takeWhile Char.isDigit
  let r := l.dropWhile Char.isDigit
  let (fp, r, dot) := match r with
    | '.' :: t => (t.takeWhile Char.isDigit, t.dropWhile Char.isDigit, true)
    | t => ([], t, false)
  let _ := dot
  (!ip.isEmpty || !fp.isEmpty) &&
  (match r with
   | [] => true
   | e :: t =>
     (e = 'e' || e = 'E') &&
     (let t := match t with
        | '-' :: u => u
        | '+' :: u => u
        | u => u
      !t.isEmpty && t.all Char.isDigit))

/-- first `..` of a word: what is before, what is after -/
def splitDots : List Char → Option (List Char × List Char)
  | [] => none
  | '.' :: '.' :: t => some ([], t)
  | c :: t => (splitDots t).map fun p => (c :: p.1, p.2)

/-- `Option.Save(value)` -/
def save (d : Decl) (alias val : String) : Except Err (List Event) :=
  match d.kind with
  | .flag => .ok [⟨d.name, if val = "false" then "0" else "1"⟩]
  | .str | .strs => .ok [⟨d.name, val⟩]
  | .int =>
    match atoi? val with
    | some n => .ok [⟨d.name, toString n⟩]
    | none => .error (.badInt alias val)
  | .ints =>
    match splitDots val.toList with
    | some (a, b) =>
      match atoi? (String.ofList a), atoi? (String.ofList b) with
      | some x, some y =>
        if x < y then .ok ((List.range (y - x + 1).toNat).map fun (i : Nat) => ⟨d.name, toString (x + (i : Int))⟩)
        else .error (.badInt alias val)
      | _, _ => .error (.badInt alias val)
    | none =>
      match atoi? val with
      | some n => .ok [⟨d.name, toString n⟩]
      | none => .error (.badInt alias val)
  | .float => if floatOK val then .ok [⟨d.name, val⟩] else .error (.badFloat alias val)
  | .map =>
    match val.splitOn "=" with
    | k :: v :: _ => .ok [⟨d.name, k ++ "=" ++ v⟩]
    | _ => .error (.notKV alias)

/-- `Option.Save()` without argument -/
def saveNone (d : Decl) : List Event :=
  match d.kind with
  | .flag => [⟨d.name, "1"⟩]
  | _ => []

def St.add (st : St) (es : List Event) : St := { st with events := st.events ++ es }

/-- one option of a word (`p.Option`, `p.Args`) handled by the `for _, p := range optPair` loop; `rest`
= the words that follow; returns the words left -/
def handlePair (decls : List Decl) (word entry : String) (arg : Option String) (rest : List String) (st : St) :
    Except (Err × St) (St × List String) :=
  match matchesOf decls entry with
  | [] => .ok ({ st with unknown := st.unknown ++ [entry] }, rest)
  | [key] =>
    match declOf decls key with
    | none => .ok (st, rest)  -- cannot happen: `key` is a declared key
    | some d =>
      match arg with
      | some a =>
        match save d key a with
        | .ok es => .ok (st.add es, rest)
        | .error e => .error (e, st)
      | none =>
        let st := st.add (saveNone d)
        if d.kind = .flag then .ok (st, rest)
        else
          match rest with
          | [] => .error (.missing key, st)
          | v :: rest' =>
            if looksLikeOption v then .error (.dashArg key, st)
            else
              match save d key v with
              | .ok es => .ok (st.add es, rest')
              | .error e => .error (e, st)
  | _ => .error (.ambiguous word, st)

def handlePairs (decls : List Decl) (word : String) : List (String × Option String) → List String → St →
    Except (Err × St) (St × List String)
  | [], rest, st => .ok (st, rest)
  | (entry, arg) :: ps, rest, st =>
    match handlePair decls word entry arg rest st with
    | .ok (st', rest') => handlePairs decls word ps rest' st'
    | .error e => .error e

/-- the `(option, args)` pairs of a word -/
def pairsOf (w : Word) : List (String × Option String) :=
  match w with
  | .dash => [("-", none)]
  | .long n a => [(n, a)]
  | .short ls a =>
    match ls.reverse with
    | [] => []
    | last :: revInit => (revInit.reverse.map fun c => (String.singleton c, none)) ++ [(String.singleton last, a)]
  | _ => []

/-- `parseCLIArgs` (normal parsing): `fuel` ≥ number of words -/
def loop (decls : List Decl) : Nat → List String → St → Except (Err × St) St
  | 0, _, st => .ok st
  | _, [], st => .ok st
  | fuel + 1, w :: rest, st =>
    match classify w with
    | .term => .ok { st with text := st.text ++ rest }
    | .text => loop decls fuel rest { st with text := st.text ++ [w] }
    | cw =>
      match handlePairs decls w (pairsOf cw) rest st with
      | .ok (st', rest') => loop decls fuel rest' st'
      | .error e => .error e

def parse (decls : List Decl) (argv : List String) : Except (Err × St) St :=
  loop decls (argv.length + 1) argv {}

def called (st : St) (name : String) : Bool := st.events.any fun e => e.name = name

/-- how the process ends (`GenerateOptionParser`): `help` → usage and exit 1, `version` → exit 0, an
error → message and exit 1 -/
inductive Outcome where
  | ok (st : St)
  | help
  | version
  | error (e : Err)
  deriving Repr, Inhabited

def outcome (decls : List Decl) (argv : List String) : Outcome :=
  match parse decls argv with
  | .error (e, st) =>
    if called st "help" then .help else if called st "version" then .version else .error e
  | .ok st =>
    if called st "help" then .help
    else if called st "version" then .version
    else
      match decls.find? fun d => d.required.isSome && !called st d.name with
      | some d => .error (.required (d.required.getD ""))
      | none =>
        match st.unknown with
        | u :: _ => .error (.unknown u)
        | [] => .ok st

/-- exit status of the command -/
def Outcome.exit : Outcome → Nat
  | .ok _ => 0
  | .version => 0
  | _ => 1

/-! ## the declarations -/

def commonDecls : List Decl := [
  { name := "help", aliases := ["h", "?"], kind := .flag },
  { name := "version", kind := .flag }, { name := "debug", kind := .flag }, { name := "pprof", kind := .flag },
  { name := "max-cpu", kind := .int }, { name := "force-one-cpu", kind := .flag },
  { name := "pprof-mutex", kind := .int }, { name := "pprof-goroutine", kind := .int },
  { name := "batch-size", kind := .int }, { name := "solexa", kind := .flag }]

def inputDecls : List Decl := [
  { name := "input-json-header", kind := .flag }, { name := "input-OBI-header", kind := .flag },
  { name := "ecopcr", kind := .flag }, { name := "embl", kind := .flag }, { name := "genbank", kind := .flag },
  { name := "fastq", kind := .flag }, { name := "fasta", kind := .flag }, { name := "no-order", kind := .flag }]

def outputDecls : List Decl := [
  { name := "fasta-output", kind := .flag }, { name := "fastq-output", kind := .flag },
  { name := "json-output", kind := .flag }, { name := "output-json-header", kind := .flag },
  { name := "output-OBI-header", aliases := ["O"], kind := .flag },
  { name := "no-progressbar", kind := .flag }, { name := "compress", aliases := ["Z"], kind := .flag },
  { name := "skip-empty", kind := .flag }, { name := "out", aliases := ["o"], kind := .str }]

def pairedDecls : List Decl := [{ name := "paired-with", kind := .str }]

def selectionDecls : List Decl := [
  { name := "taxdump", aliases := ["t"], kind := .str },
  { name := "restrict-to-taxon", aliases := ["r"], kind := .strs },
  { name := "ignore-taxon", aliases := ["i"], kind := .ints },
  { name := "require-rank", kind := .strs },
  { name := "save-discarded", kind := .str }, { name := "id-list", kind := .str },
  { name := "inverse-match", aliases := ["v"], kind := .flag },
  { name := "min-length", aliases := ["l"], kind := .int }, { name := "max-length", aliases := ["L"], kind := .int },
  { name := "min-count", aliases := ["c"], kind := .int }, { name := "max-count", aliases := ["C"], kind := .int },
  { name := "predicate", aliases := ["p"], kind := .strs }, { name := "sequence", aliases := ["s"], kind := .strs },
  { name := "definition", aliases := ["D"], kind := .strs }, { name := "identifier", aliases := ["I"], kind := .strs },
  { name := "has-attribute", aliases := ["A"], kind := .strs }, { name := "attribute", aliases := ["a"], kind := .map },
  { name := "paired-mode", kind := .str }, { name := "approx-pattern", kind := .strs },
  { name := "pattern-error", kind := .int }, { name := "allows-indels", kind := .flag },
  { name := "only-forward", kind := .flag }]

def annotationDecls : List Decl := [
  { name := "clear", kind := .flag }, { name := "length", kind := .flag }, { name := "aho-corasick", kind := .str },
  { name := "pattern", kind := .str }, { name := "pattern-name", kind := .str }, { name := "add-lca-in", kind := .str },
  { name := "set-identifier", kind := .str }, { name := "lca-error", kind := .float }, { name := "cut", kind := .str },
  { name := "set-tag", aliases := ["S"], kind := .map }, { name := "rename-tag", aliases := ["R"], kind := .map },
  { name := "delete-tag", kind := .strs }, { name := "with-taxon-at-rank", kind := .strs },
  { name := "taxonomic-path", kind := .flag }, { name := "taxonomic-rank", kind := .flag },
  { name := "scientific-name", kind := .flag }, { name := "keep", aliases := ["k"], kind := .strs }]

def distributeDecls : List Decl := [
  { name := "pattern", aliases := ["p"], kind := .str, required := some "You must provide at pattern for the file names " },
  { name := "classifier", aliases := ["c"], kind := .str }, { name := "directory", aliases := ["d"], kind := .str },
  { name := "na-value", kind := .str }, { name := "batches", aliases := ["n"], kind := .int },
  { name := "append", aliases := ["A"], kind := .flag }, { name := "hash", aliases := ["H"], kind := .int }]

def grepDecls : List Decl := commonDecls ++ inputDecls ++ outputDecls ++ pairedDecls ++ selectionDecls
def annotDecls : List Decl := grepDecls ++ annotationDecls
def distDecls : List Decl := commonDecls ++ inputDecls ++ outputDecls ++ distributeDecls

/-! ## the option globals after a successful parse -/

def lastValue (st : St) (name dflt : String) : String :=
  match (st.events.filter fun e => e.name = name).getLast? with
  | some e => e.value
  | none => dflt

def allValues (st : St) (name : String) : List String := (st.events.filter fun e => e.name = name).map (·.value)

/-- Go map assignment, the association list kept sorted by key -/
def mapPut (k v : String) : List (String × String) → List (String × String)
  | [] => [(k, v)]
  | x :: xs => if k = x.1 then (k, v) :: xs else if k < x.1 then (k, v) :: x :: xs else x :: mapPut k v xs

def mapValues (st : St) (name : String) : List (String × String) :=
  (allValues st name).foldl (fun m kv =>
    match kv.splitOn "=" with
    | k :: v :: _ => mapPut k v m
    | _ => m) []

end ObiVerif.Getopt
