/-! placeholder kept for the import graph: the option-state printer lives in `Driver/C16.lean` -/
namespace ObiVerif.Getopt
end ObiVerif.Getopt
