import ObiVerif.Model.WriteDev
import ObiVerif.Model.WritePgzip
import ObiVerif.Model.WriterFmt
/-!
# C04: the whole writers at the level of `obiutils.Wfile` — formatters → re-sequencing goroutine → `bufio.Writer` (→ pgzip) → file

`WriteFasta` / `WriteFastq` / `WriteJSON` / `WriteCSV` wrap the output in `obiutils.CompressStream` (`gzipfile.go`):
`bufio.NewWriter(out)` (4096 bytes) or `bufio.NewWriter(pgzip.NewWriter(out))`; every released chunk is ONE call of
`Wfile.Write` = `bufio.Writer.Write`; `Wfile.Close` flushes.  The transcriptions of `bufio.Writer` (`GW`), of the
scripted file `Dev` and of pgzip (`PZ`) are those of property C18 (imported unchanged).

`RecDev` is a file that accepts everything and records every `Write` call it receives (what the in-memory sink of the
harness records on the real writers): the sizes of the calls are an observable of `bufio.Writer`'s buffering decisions
(copy into the buffer / flush / direct write of a large chunk when the buffer is empty).
-/
namespace ObiVerif.WriterWfile
open ObiVerif.Reseq ObiVerif.WriteErr ObiVerif.WriterFmt

/-- the `Write` calls received so far, last one first -/
structure RecDev where
  calls : List Bytes

def RecDev.got (d : RecDev) : Bytes := d.calls.reverse.flatten

def RecDev.write : WFn RecDev := fun d p => (⟨p :: d.calls⟩, p.length, false)

/-- `bufio.NewWriter`: `defaultBufSize` -/
def bufSize : Nat := 4096

/-- `Wfile.Close` (plain) over the recording file: `Flush` -/
def closeRec (b : GW RecDev) : List Bytes := (b.flush RecDev.write).dev.calls.reverse

/-- FASTA / FASTQ / CSV: the `Write` calls that reach the file -/
def callsRaw (size : Nat) (arr : List (Nat × Bytes)) : List Bytes :=
  closeRec (run (emitRawG RecDev.write) (emitRawG RecDev.write) ⟨size, [], false, ⟨[]⟩⟩ arr).acc

/-- JSON: `[\n` first, the chunks with their separators, `\n]\n` -/
def callsJson (size : Nat) (arr : List (Nat × Bytes)) : List Bytes :=
  let b0 : GW RecDev := (⟨size, [], false, ⟨[]⟩⟩ : GW RecDev).write RecDev.write openJson
  closeRec ((run (emitJsonG RecDev.write) (emitJsonG RecDev.write) ⟨b0, false⟩ arr).acc.bw.write RecDev.write closeJson)

/-- the formatted chunks of an arrival history (`none`: a formatter died) -/
def fmtChunks (c : Cfg) (arr : List (Nat × List Rec)) : Option (List (Nat × B)) :=
  arr.mapM (fun a => (fmtBatch c a.1 a.2).map (fun t => (a.1, t)))

/-- the whole writer down to the file: the `Write` calls the file receives -/
def fileCalls (c : Cfg) (size : Nat) (arr : List (Nat × List Rec)) : Option (List Bytes) :=
  (fmtChunks c arr).map fun chunks =>
    match c.kind with
    | .json => callsJson size chunks
    | _ => callsRaw size chunks

/-- the whole writer down to a plain file that accepts everything: (outcome, content of the file) -/
def fileDev (c : Cfg) (size : Nat) (beh : Nat → Nat → Nat → Nat × Bool) (cf own : Bool)
    (arr : List (Nat × List Rec)) : Option (Outcome × Bytes) :=
  (fmtChunks c arr).map fun chunks =>
    match c.kind with
    | .json => writeJsonDev size beh cf own chunks
    | _ => writeRawDev size beh cf own chunks

/-- the whole writer down to the file of the compressed `Wfile` -/
def fileGz (c : Cfg) (z : PCodec) (s : Sched) (size limit : Nat) (cf own : Bool)
    (arr : List (Nat × List Rec)) : Option (Outcome × Bytes) :=
  (fmtChunks c arr).map fun chunks =>
    match c.kind with
    | .json => writeJsonP z s size limit cf own chunks
    | _ => writeRawP z s size limit cf own chunks

end ObiVerif.WriterWfile

namespace ObiVerif.WriterWfile

/-- `obiconvert.CLIWriteBioSequences` (`pkg/obitools/obiconvert/sequence_writer.go`): the value of `--skip-empty` is
handed to the writers (`OptionsSkipEmptySequence(CLISkipEmpty())`) only when the output is NOT paired
(`if iterator.IsPaired() { … WritePairedReadsTo(reverse) } else { … OptionsSkipEmptySequence … }`); a paired output
keeps the default `skip_empty: false` of `MakeOptions`.  No other caller in `/repo` builds a paired writer. -/
def cliSkipEmpty (paired flag : Bool) : Bool := if paired then false else flag

end ObiVerif.WriterWfile

/-! ## `obicsv --auto`: column detection (`WriteCSV`, `opt.pointer.csv_auto`)

```go
if opt.pointer.csv_auto { if iterator.Next() { batch := iterator.Get()
    auto_slot = batch.Slice().AttributeKeys(true)      // union over the records of the keys whose value is not a map
    auto_keys := auto_slot.Members(); sort.Strings(auto_keys)
    CSVKeys(auto_keys)(opt)                            // APPENDS to the keys given explicitly
    iterator.PushBack() } }
```
The batch looked at is the FIRST ONE DELIVERED by the input iterator — batch 0 only when the input is in order. -/
namespace ObiVerif.WriterWfile
open ObiVerif.WriterFmt

/-- insertion in a list sorted by `ltB` (Go string `<`), without duplicates -/
def insertU (k : B) : List B → List B
  | [] => [k]
  | x :: xs => if ltB k x then k :: x :: xs else if k = x then x :: xs else x :: insertU k xs

def isMap : Val → Bool
  | .map _ => true
  | _ => false

/-- `BioSequence.AttributeKeys(true)` in the order of the annotation list -/
def attrKeys (r : Rec) : List B := (r.ann.filter (fun e => !isMap e.2)).map Prod.fst

/-- `sort.Strings(batch.Slice().AttributeKeys(true).Members())` -/
def autoKeys (first : List Rec) : List B := (first.flatMap attrKeys).foldr insertU []

/-- the option set after the detection: the detected keys are appended to the explicit ones -/
def autoCfg (c : Cfg) (first : List Rec) : Cfg := { c with csv := { c.csv with keys := c.csv.keys ++ autoKeys first } }

/-- `WriteCSV` with `CSVAutoColumn(true)`: `src` is the order in which the input iterator delivers the batches (the
detection looks at the first one), `arr` the order in which the formatted chunks reach the writer goroutine -/
def writeCsvAuto (c : Cfg) (src arr : List (Nat × List Rec)) : Option B :=
  match src with
  | [] => writeFile c arr
  | a :: _ => writeFile (autoCfg c a.2) arr

end ObiVerif.WriterWfile
