import ObiVerif.Model.PEFillV
import ObiVerif.Model.PEBackV
/-!
# `PEAlign` on the whole arena (C08): flat matrices **and** the path buffer written from its end

`fillLeftA` / `fillRightA` / `peAlignExactA` / `peAlignFastFromA` (Model/PEFillV.lean) run the verbatim fills
over the flat matrices but still build the path as a list.  Here `_Backtracking` is `backtrackBuf`
(Model/PEBackV.lean): it writes into the arena's `path` slice, whatever the previous pair left there.
`Lemmas/PEArena.lean` proves every function equal to its `…A` counterpart, hence (by
`fills_verbatim_refine`, `peAlignFastFromA_eq`) to the recurrence level on which the theorems are stated.
-/
namespace ObiVerif.PEAlign

/-- `_PeAlignArena`: `scoreMatrix`, `pathMatrix`, `path` -/
structure Arena where
  m : Mats
  path : Array Int

def fillLeftB (s : Nat → Nat → Int) (g : Int) (la lb : Nat) (ar : Arena) : Option (FillRes × Arena) :=
  match fillLeftV s g la lb ar.m with
  | some (sc, m) =>
    match backtrackBuf (pathAt m.pm la) la lb ar.path with
    | some (p, b) => some (⟨sc, p⟩, ⟨m, b⟩)
    | none => none
  | none => none

def fillRightB (s : Nat → Nat → Int) (g : Int) (la lb : Nat) (ar : Arena) : Option (FillRes × Arena) :=
  match fillRightV s g la lb ar.m with
  | some (sc, m) =>
    match backtrackBuf (pathAt m.pm la) la lb ar.path with
    | some (p, b) => some (⟨sc, p⟩, ⟨m, b⟩)
    | none => none
  | none => none

/-- `PEAlign`, exact mode: right fill + backtracking, left fill over the same matrices, second
backtracking (over the path buffer that still holds the right path) only when strictly better -/
def peAlignExactB (s : Nat → Nat → Int) (g : Int) (la lb : Nat) (ar : Arena) : Option (PERes × Arena) :=
  match fillRightB s g la lb ar with
  | none => none
  | some (r, ar1) =>
    match fillLeftV s g la lb ar1.m with
    | none => none
    | some (scoreL, m2) =>
      if scoreL > r.score then
        match backtrackBuf (pathAt m2.pm la) la lb ar1.path with
        | some (p, b) => some (⟨true, scoreL, p⟩, ⟨m2, b⟩)
        | none => none
      else some (⟨false, r.score, r.path⟩, ⟨m2, ar1.path⟩)

/-- `PEAlign`, fast mode.  (In the "identical overlap" branch the Go code builds the two-entry path with
`append(arena.path[:0], 0, partLen)`: the arena buffer is not modelled there, only the returned path.) -/
def peAlignFastFromB (s : Nat → Nat → Int) (g : Int) (la lb : Nat) (delta : Nat) (shift count : Int) (ar : Arena) :
    Option (PERes × Arena) :=
  let ov := over la lb shift
  let local_ : Option ((Bool × Int × Path × Int × Int) × Arena) :=
    if count < 1 ∨ count + 3 < ov then
      if shift > 0 then
        let startA := (shift - delta).toNat
        if startA > la then none
        else
          let lra := la - startA
          let partLen := min lra lb
          match fillLeftB (fun i j => s (startA + i) j) g lra partLen ar with
          | some (r, m) => some ((true, r.score, r.path, -(startA : Int), (lb : Int) - partLen), m)
          | none => none
      else
        let startB := (-shift - delta).toNat
        if startB > lb then none
        else
          let lrb := lb - startB
          let partLen := min lrb la
          match fillRightB (fun i j => s i (startB + j)) g partLen lrb ar with
          | some (r, m) => some ((false, r.score, r.path, (startB : Int), (partLen : Int) - la), m)
          | none => none
    else
      if shift > 0 then
        let startA := shift.toNat
        if startA > la then none
        else
          let partLen := la - startA
          if partLen > lb then none
          else some ((true, diagScore s partLen startA 0, [0, (partLen : Int)], -(startA : Int), (lb : Int) - partLen), ar)
      else
        let startB := (-shift).toNat
        if startB > lb then none
        else
          let partLen := lb - startB
          if partLen > la then none
          else some ((false, diagScore s partLen 0 startB, [0, (partLen : Int)], (startB : Int), (partLen : Int) - la), ar)
  match local_ with
  | some ((isLeft, score, path, extra5, extra3), m) => some (⟨isLeft, score, extend3 extra3 (extend5 extra5 path)⟩, m)
  | none => none

end ObiVerif.PEAlign
