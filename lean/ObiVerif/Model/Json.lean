import ObiVerif.Model.Header
/-!
# Model of JSON serialisation and parsing as the title line uses it (property C02) — core Lean only

What `obiutils.JsonMarshalByteBuffer` (goccy/go-json `Encoder` with `SetEscapeHTML(false)`, hence the function
`appendNormalizedString` of `internal/encoder/string.go`, `AppendFloat64`/`AppendInt`, `Mapslice` key ordering) prints
for an annotation map, and what `json.Unmarshal(…, &annotations)` (into `map[string]interface{}`) reads back, on the
value universe of the property:

* strings (any bytes; the model is go-json's on valid UTF-8: `"` `\` escaped, `\n \r \t`, `\u00XX` for the other
  control characters, `\u2028`/`\u2029` for U+2028/U+2029, everything else raw — go-json prints `\ufffd` for an
  invalid encoding, which is outside the universe);
* numbers **as their decimal literal** (`num lit`): an `int` is its decimal digits, a `float64` is the literal
  `strconv.AppendFloat(…, 'f' | 'e', -1, 64)` prints — the conversion float64 ↔ shortest decimal is Go's `strconv`
  and is *not* modelled (the literal of every float is data for the driver); the value of a number is the rational
  its literal denotes, so "same literal" is "same value"; the int/float64 dynamic type of Go is not part of a value
  (the reader gives `float64` to every number, `_parse_json_header_`'s narrowing loop leaves them so);
* booleans, `null`, lists and maps nested without bound.

A Go map is represented by its members **in the order the encoder prints them** (`sortMems`: go-json orders the
members by their *encoded* key bytes, `bytes.Compare` in `Mapslice.Less`).

The decoder is a strict RFC 8259 parser of compact texts (no white space between tokens, `\uXXXX` of the basic plane
without surrogates): whenever it accepts, go-json accepts and decodes the same value (correspondence check); texts
it rejects are outside the model (the driver falls back to go-json's answer as data).
-/
namespace ObiVerif.Json
open ObiVerif.Header (Bytes)

mutual
  inductive JVal
    | null
    | bool (b : Bool)
    | num (lit : Bytes)
    | str (s : Bytes)
    | arr (l : JList)
    | obj (m : JMems)
  inductive JList
    | nil
    | cons (v : JVal) (t : JList)
  inductive JMems
    | nil
    | cons (k : Bytes) (v : JVal) (t : JMems)
end

deriving instance DecidableEq for JVal, JList, JMems

/-! ## number literals -/

def isDigit (c : UInt8) : Bool := 48 ≤ c && c ≤ 57

/-- bytes a number literal is made of: digits `+ - . e E` -/
def numChar (c : UInt8) : Bool := isDigit c || c == 43 || c == 45 || c == 46 || c == 101 || c == 69

/-- `[eE][+-]?[0-9]+` or nothing -/
def expOK : Bytes → Bool
  | [] => true
  | c :: t =>
    (c == 101 || c == 69) &&
      (match t with
       | [] => false
       | s :: t' => if s == 43 || s == 45 then (!t'.isEmpty && t'.all isDigit) else (s :: t').all isDigit)

/-- `(\.[0-9]+)?` then the exponent -/
def fracOK : Bytes → Bool
  | 46 :: t => !(t.takeWhile isDigit).isEmpty && expOK (t.dropWhile isDigit)
  | s => expOK s

/-- `0|[1-9][0-9]*` then fraction and exponent -/
def intOK : Bytes → Bool
  | [] => false
  | c :: t => if c == 48 then fracOK t else if 49 ≤ c && c ≤ 57 then fracOK (t.dropWhile isDigit) else false

/-- RFC 8259 number: `-?(0|[1-9][0-9]*)(\.[0-9]+)?([eE][+-]?[0-9]+)?` -/
def isNumLit : Bytes → Bool
  | 45 :: t => intOK t
  | s => intOK s

def numLitOK (lit : Bytes) : Bool := lit.all numChar && isNumLit lit

/-! ## strings -/

/-- `hex[c]`, `hex = "0123456789abcdef"` -/
def hexDigit (n : UInt8) : UInt8 := if n < 10 then 48 + n else 87 + n

/-- one byte of a string as `appendNormalizedString` prints it (bytes of multi-byte runes are copied) -/
def escByte (c : UInt8) : Bytes :=
  if c = 34 then [92, 34]
  else if c = 92 then [92, 92]
  else if c = 10 then [92, 110]
  else if c = 13 then [92, 114]
  else if c = 9 then [92, 116]
  else if c < 32 then [92, 117, 48, 48, hexDigit (c >>> 4), hexDigit (c &&& 15)]
  else [c]

/-- the body of a string literal; `E2 80 A8` / `E2 80 A9` (U+2028 / U+2029) are printed `\u2028` / `\u2029` -/
def encStrBody : Bytes → Bytes
  | [] => []
  | c :: d :: e :: t' =>
    if c = 0xE2 ∧ d = 0x80 ∧ (e = 0xA8 ∨ e = 0xA9) then
      [92, 117, 50, 48, 50, (if e = 0xA8 then 56 else 57)] ++ encStrBody t'
    else escByte c ++ encStrBody (d :: e :: t')
  | c :: t => escByte c ++ encStrBody t

def hexVal (c : UInt8) : Option Nat :=
  if 48 ≤ c ∧ c ≤ 57 then some (c.toNat - 48)
  else if 97 ≤ c ∧ c ≤ 102 then some (c.toNat - 87)
  else if 65 ≤ c ∧ c ≤ 70 then some (c.toNat - 55)
  else none

/-- UTF-8 encoding of a code point of the basic plane that is not a surrogate -/
def utf8 (cp : Nat) : Bytes :=
  if cp < 0x80 then [UInt8.ofNat cp]
  else if cp < 0x800 then [UInt8.ofNat (0xC0 + cp / 64), UInt8.ofNat (0x80 + cp % 64)]
  else [UInt8.ofNat (0xE0 + cp / 4096), UInt8.ofNat (0x80 + cp / 64 % 64), UInt8.ofNat (0x80 + cp % 64)]

/-- `\uXXXX` → the UTF-8 bytes (`none`: not four hex digits, or a surrogate — outside the model) -/
def decU (a b c d : UInt8) : Option Bytes :=
  match hexVal a, hexVal b, hexVal c, hexVal d with
  | some w, some x, some y, some z =>
    let cp := ((w * 16 + x) * 16 + y) * 16 + z
    if 0xD800 ≤ cp ∧ cp < 0xE000 then none else some (utf8 cp)
  | _, _, _, _ => none

/-- the byte denoted by a one-letter escape: `\" \\ \/ \b \f \n \r \t` -/
def unesc (e : UInt8) : Option UInt8 :=
  if e = 34 then some 34 else if e = 92 then some 92 else if e = 47 then some 47
  else if e = 98 then some 8 else if e = 102 then some 12 else if e = 110 then some 10
  else if e = 114 then some 13 else if e = 116 then some 9 else none

def prep (u : Bytes) (p : Option (Bytes × Bytes)) : Option (Bytes × Bytes) := p.map (fun q => (u ++ q.1, q.2))

/-- the body of a string literal up to its closing quote → (decoded bytes, text after the quote);
    a raw control character is an error -/
def decStrBody : Bytes → Option (Bytes × Bytes)
  | [] => none
  | c :: t =>
    if c = 34 then some ([], t)
    else if c = 92 then
      match t with
      | [] => none
      | e :: t' =>
        if e = 117 then
          match t' with
          | h1 :: h2 :: h3 :: h4 :: t'' =>
            match decU h1 h2 h3 h4 with
            | some u => prep u (decStrBody t'')
            | none => none
          | _ => none
        else match unesc e with
          | some b => prep [b] (decStrBody t')
          | none => none
    else if c < 32 then none
    else prep [c] (decStrBody t)

/-! ## encoder -/

mutual
  def encVal : JVal → Bytes
    | .null => [110, 117, 108, 108]
    | .bool true => [116, 114, 117, 101]
    | .bool false => [102, 97, 108, 115, 101]
    | .num lit => lit
    | .str s => 34 :: (encStrBody s ++ [34])
    | .arr l => 91 :: (encElems l ++ [93])
    | .obj m => 123 :: (encMems m ++ [125])
  /-- elements separated by `,` -/
  def encElems : JList → Bytes
    | .nil => []
    | .cons v .nil => encVal v
    | .cons v t => encVal v ++ 44 :: encElems t
  /-- `"key":value` separated by `,` -/
  def encMems : JMems → Bytes
    | .nil => []
    | .cons k v .nil => 34 :: (encStrBody k ++ 34 :: 58 :: encVal v)
    | .cons k v t => 34 :: (encStrBody k ++ 34 :: 58 :: (encVal v ++ 44 :: encMems t))
end

/-! ## decoder (fuel = bound on the nesting of calls; `2 * length + 2` is always enough) -/

def lit4 (a b c : UInt8) (v : JVal) (t : Bytes) : Option (JVal × Bytes) :=
  match t with
  | x :: y :: z :: r => if x = a ∧ y = b ∧ z = c then some (v, r) else none
  | _ => none

mutual
  def decVal : Nat → Bytes → Option (JVal × Bytes)
    | 0, _ => none
    | _ + 1, [] => none
    | n + 1, c :: t =>
      if c = 34 then (decStrBody t).map (fun p => (.str p.1, p.2))
      else if c = 123 then
        match t with
        | [] => none
        | d :: r => if d = 125 then some (.obj .nil, r) else (decMems n t).map (fun p => (.obj p.1, p.2))
      else if c = 91 then
        match t with
        | [] => none
        | d :: r => if d = 93 then some (.arr .nil, r) else (decElems n t).map (fun p => (.arr p.1, p.2))
      else if c = 116 then lit4 114 117 101 (.bool true) t
      else if c = 110 then lit4 117 108 108 .null t
      else if c = 102 then
        match t with
        | a :: r => if a = 97 then lit4 108 115 101 (.bool false) r else none
        | [] => none
      else if numChar c then
        let lit := (c :: t).takeWhile numChar
        if isNumLit lit then some (.num lit, (c :: t).dropWhile numChar) else none
      else none
  /-- `value (, value)* ]` -/
  def decElems : Nat → Bytes → Option (JList × Bytes)
    | 0, _ => none
    | n + 1, s =>
      match decVal n s with
      | none => none
      | some (v, r) =>
        match r with
        | [] => none
        | d :: r' =>
          if d = 44 then (decElems n r').map (fun p => (.cons v p.1, p.2))
          else if d = 93 then some (.cons v .nil, r')
          else none
  /-- `"key":value (, "key":value)* }` -/
  def decMems : Nat → Bytes → Option (JMems × Bytes)
    | 0, _ => none
    | _ + 1, [] => none
    | n + 1, q :: s =>
      if q ≠ 34 then none else
      match decStrBody s with
      | none => none
      | some (k, r) =>
        match r with
        | [] => none
        | col :: r1 =>
          if col ≠ 58 then none else
          match decVal n r1 with
          | none => none
          | some (v, r2) =>
            match r2 with
            | [] => none
            | d :: r3 =>
              if d = 44 then (decMems n r3).map (fun p => (.cons k v p.1, p.2))
              else if d = 125 then some (.cons k v .nil, r3)
              else none
end

/-- a whole text holding exactly one JSON object → its members -/
def decodeObj (s : Bytes) : Option JMems :=
  match decVal (2 * s.length + 2) s with
  | some (.obj m, []) => some m
  | _ => none

/-- the text of an object -/
def encodeObj (m : JMems) : Bytes := encVal (.obj m)

/-! ## well-formed values: every number literal obeys the grammar -/

mutual
  def JVal.WF : JVal → Bool
    | .num lit => numLitOK lit
    | .arr l => l.WF
    | .obj m => m.WF
    | _ => true
  def JList.WF : JList → Bool
    | .nil => true
    | .cons v t => v.WF && t.WF
  def JMems.WF : JMems → Bool
    | .nil => true
    | .cons _ v t => v.WF && t.WF
end

mutual
  def JVal.size : JVal → Nat
    | .arr l => 1 + l.size
    | .obj m => 1 + m.size
    | _ => 1
  def JList.size : JList → Nat
    | .nil => 0
    | .cons v t => 1 + v.size + t.size
  def JMems.size : JMems → Nat
    | .nil => 0
    | .cons _ v t => 1 + v.size + t.size
end

/-! ## the annotation map of a record: members + the `definition` entry kept apart (as `Header.JsonLib` wants) -/

/-- `"definition"` -/
def defKey : Bytes := [100, 101, 102, 105, 110, 105, 116, 105, 111, 110]

def JMems.hasKey (k : Bytes) : JMems → Bool
  | .nil => false
  | .cons k' _ t => k' == k || t.hasKey k

/-- `bytes.Compare(a, b) < 0` -/
def bytesLt : Bytes → Bytes → Bool
  | [], [] => false
  | [], _ :: _ => true
  | _ :: _, [] => false
  | a :: s, b :: t => a < b || (a == b && bytesLt s t)

/-- the encoded key `"…"`, which is what go-json's `Mapslice` compares -/
def encKey (k : Bytes) : Bytes := 34 :: (encStrBody k ++ [34])

/-- insert a member at its place in a list ordered by encoded key -/
def JMems.insert (k : Bytes) (v : JVal) : JMems → JMems
  | .nil => .cons k v .nil
  | .cons k' v' t => if bytesLt (encKey k) (encKey k') then .cons k v (.cons k' v' t) else .cons k' v' (t.insert k v)

/-- insertion sort by encoded key (stable) — the order in which the encoder prints the members of a Go map -/
def sortMems : JMems → JMems
  | .nil => .nil
  | .cons k v t => (sortMems t).insert k v

/-- remove the members `definition` -/
def JMems.dropDef : JMems → JMems
  | .nil => .nil
  | .cons k v t => if k = defKey then t.dropDef else .cons k v t.dropDef

/-- the value of the (last) member `definition` when it is a string -/
def JMems.getDef : JMems → Option Bytes
  | .nil => none
  | .cons k v t =>
    match t.getDef with
    | some d => some d
    | none => if k = defKey then (match v with | .str s => some s | _ => none) else none

def withDef (a : JMems) : Option Bytes → JMems
  | none => a
  | some d => a.insert defKey (.str d)

instance : Inhabited JVal := ⟨.null⟩

/-- goccy/go-json as `FormatFastSeqJsonHeader` / `_parse_json_header_` use it -/
def goJson : ObiVerif.Header.JsonLib JMems where
  empty := .nil
  marshal := fun p => encodeObj (withDef p.1 p.2)
  unmarshal := fun b => (decodeObj b).map (fun m => (m.dropDef, m.getDef))

/-! ## number literals of Go values (`AppendInt`, `AppendFloat64`) and the value of a literal -/

/-- `strconv.AppendInt(b, i, 10)` -/
def intLit (i : Int) : Bytes :=
  if i < 0 then 45 :: (toString i.natAbs).toUTF8.toList else (toString i.natAbs).toUTF8.toList

/-- sign, significant digits (no leading / trailing zero; empty = zero) and position of the decimal point of a
    literal: its value is `± 0.D × 10^P` -/
def decomp (lit : Bytes) : Bool × Bytes × Int :=
  let (neg, s) := match lit with
    | 45 :: t => (true, t)
    | _ => (false, lit)
  let ip := s.takeWhile isDigit
  let s1 := s.dropWhile isDigit
  let (fp, s2) := match s1 with
    | 46 :: t => (t.takeWhile isDigit, t.dropWhile isDigit)
    | _ => (([] : Bytes), s1)
  let digitsVal (l : Bytes) : Nat := l.foldl (fun a c => a * 10 + (c.toNat - 48)) 0
  let e : Int := match s2 with
    | _ :: 45 :: t => - (digitsVal t : Int)
    | _ :: 43 :: t => (digitsVal t : Int)
    | _ :: t => (digitsVal t : Int)
    | [] => 0
  let D := ip ++ fp
  let lead := (D.takeWhile (· == 48)).length
  let D1 := D.drop lead
  let D2 := (D1.reverse.dropWhile (· == 48)).reverse
  (neg, D2, (ip.length : Int) + e - (lead : Int))

/-- `0.D × 10^P` in positional notation (what `strconv.FormatFloat(x, 'f', -1, 64)` prints from the shortest digits) -/
def positional (D : Bytes) (P : Int) : Bytes :=
  if D = [] then [48]
  else if P ≤ 0 then 48 :: 46 :: (List.replicate (-P).toNat 48 ++ D)
  else if P.toNat ≥ D.length then D ++ List.replicate (P.toNat - D.length) 48
  else D.take P.toNat ++ 46 :: D.drop P.toNat

/-- the value of a number literal as a canonical decimal string (two literals have the same value iff they have the
    same canonical string) -/
def canonNum (lit : Bytes) : Bytes :=
  let (neg, D, P) := decomp lit
  if D = [] then [48] else if neg then 45 :: positional D P else positional D P

/-- `AppendFloat64` of go-json (encoder.go): `fmt = 'e'` when `abs < 1e-6 || abs >= 1e21` (and `abs != 0`), else `'f'`;
    `strconv.AppendFloat(b, v, fmt, -1, 64)`.  The shortest digits come from `strconv` (argument `elit` =
    `FormatFloat(v, 'e', -1, 64)`, data); the choice of the format and the positional layout are modelled. -/
def floatLit (elit : Bytes) : Bytes :=
  let (neg, D, P) := decomp elit
  if D = [] then (if neg then [45, 48] else [48])
  else if P ≤ -6 ∨ P ≥ 22 then elit
  else if neg then 45 :: positional D P else positional D P

end ObiVerif.Json
