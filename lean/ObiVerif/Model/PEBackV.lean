import ObiVerif.Model.PEAlign
/-!
# `_Backtracking` with its real path buffer (C08)

`ObiVerif.Model.PEAlign` models the path of `pkg/obialign/backtracking.go` as a list to which every flush
*prepends* a pair.  The Go code has no list: it has a slice `*path` taken from an arena that is reused from
one alignment to the next, regrown by `slices.Grow` to at least `(lseqA + lseqB) * 2` cells, written from
its **end** with a decreasing index `p` (`p--; (*path)[p] = x`), the result being `(*path)[p:cap]`.

This file transcribes that: the buffer is an `Array Int` (whatever it contained before), every write is
bounds checked (`none` = Go's index-out-of-range panic), the loop is `btLoop` statement by statement with
the same fuel and the same out-of-matrix checks.  `ObiVerif.Lemmas.PEBackV` proves it equal to the list
model for every path matrix and every previous content / capacity of the buffer.
-/
namespace ObiVerif.PEAlign

/-- `p--; (*path)[p] = x`.  `none` = index out of range (`p = 0`, i.e. `p-1 = -1`, or `p-1 ≥ len`) -/
def pushBack (buf : Array Int) (p : Nat) (x : Int) : Option (Array Int × Nat) :=
  if h : 0 < p ∧ p - 1 < buf.size then some (buf.set (p - 1) x h.2, p - 1) else none

/-- one flush: `p--; path[p] = d; p--; path[p] = ind` -/
def flushPair (buf : Array Int) (p : Nat) (ind d : Int) : Option (Array Int × Nat) :=
  match pushBack buf p d with
  | some (b, q) => pushBack b q ind
  | none => none

/-- `if x != 0 { p--; path[p] = ldiag; p--; path[p] = x; x = 0; ldiag = 0 }`:
returns the new `(ldiag, x, path, p)` -/
def flushIf (x ldiag : Int) (buf : Array Int) (p : Nat) : Option (Int × Int × Array Int × Nat) :=
  if x ≠ 0 then
    match flushPair buf p x ldiag with
    | some (b, q) => some (0, 0, b, q)
    | none => none
  else some (ldiag, x, buf, p)

/-- the three flushes after the loop -/
def finishBuf (ldiag lup lleft : Int) (buf : Array Int) (p : Nat) : Option (Array Int × Nat) :=
  match flushIf lleft ldiag buf p with
  | none => none
  | some (d1, _, b1, p1) =>
    match flushIf lup d1 b1 p1 with
    | none => none
    | some (d2, _, b2, p2) =>
      if d2 ≠ 0 then flushPair b2 p2 0 d2 else some (b2, p2)

/-- the `for i > -1 || j > -1` loop, writing into `buf` below `p`.  Same fuel and same `none` cases as
`btLoop`, plus `none` when a write is out of range. -/
def btLoopBuf (P : Nat → Nat → Int) :
    Nat → Nat → Nat → Int → Int → Int → Array Int → Nat → Option (Array Int × Nat)
  | 0, _, _, _, _, _, _, _ => none
  | fuel + 1, i, j, ldiag, lup, lleft, buf, p =>
    if i = 0 ∧ j = 0 then finishBuf ldiag lup lleft buf p
    else
      let step := P i j
      if step = 0 then
        if i = 0 ∨ j = 0 then none
        else
          match flushIf lleft ldiag buf p with
          | none => none
          | some (d1, l1, b1, p1) =>
            match flushIf lup d1 b1 p1 with
            | none => none
            | some (d2, u2, b2, p2) => btLoopBuf P fuel (i - 1) (j - 1) (d2 + 1) u2 l1 b2 p2
      else if step > 0 then
        if j < step.toNat then none
        else
          match flushIf lup ldiag buf p with
          | none => none
          | some (d1, u1, b1, p1) => btLoopBuf P fuel i (j - step.toNat) d1 u1 (lleft + step) b1 p1
      else
        if i < (-step).toNat then none
        else
          match flushIf lleft ldiag buf p with
          | none => none
          | some (d1, l1, b1, p1) => btLoopBuf P fuel (i - (-step).toNat) j d1 (lup + step) l1 b1 p1

/-- `(*path)[:0]`, `slices.Grow(*path, needed)`, `(*path)[:cap]`: the backing array is kept when it is big
enough, else a fresh zeroed one is allocated.  (The real capacity after growth may be larger than
`needed`: the theorems hold for *every* buffer of size ≥ `needed`, see `btLoopBuf_eq`.) -/
def growPath (buf0 : Array Int) (needed : Nat) : Array Int :=
  if buf0.size < needed then Array.replicate needed 0 else buf0

/-- `_Backtracking`: the returned path `(*path)[p:cap]` and the buffer left in the arena -/
def backtrackBuf (P : Nat → Nat → Int) (la lb : Nat) (buf0 : Array Int) : Option (Path × Array Int) :=
  let buf := growPath buf0 ((la + lb) * 2)
  match btLoopBuf P (la + lb + 1) la lb 0 0 0 buf buf.size with
  | some (b, p) => some (b.toList.drop p, b)
  | none => none

end ObiVerif.PEAlign
