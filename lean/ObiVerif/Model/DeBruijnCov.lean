import ObiVerif.Model.DeBruijnHeap
/-!
# The other graph queries of `obiconsensus` (C19): `Len`, `MaxWeight`, `FilterMinWeight`, and the trimming
branch of `LongestConsensus(id, min_cov)` with `min_cov > 0`

```go
wp[i] = g.graph[path[i]]
mp := uint(float64(obistats.Mode(wp))*min_cov + 0.5)
from = number of leading nodes of weight < mp ; to = len(path) - number of trailing nodes of weight < mp
spath = path[from:to]            // runtime panic "slice bounds out of range" when from > to
```

**Floats.**  `min_cov` is a finite positive `float64`, i.e. exactly `m × 2^e` (`m < 2^53`).  The three float
operations (`float64(mode)`, `*`, `+ 0.5`) are modelled exactly: the exact rational result of each operation
is rounded to 53 significant bits, ties to even (`rnd`), the exponent being unbounded (no overflow: assumption
`mode × min_cov < 2^63`; a subnormal product is far below `2^-54` and `+ 0.5` absorbs it under either
rounding, so the unbounded exponent is exact there too).  `uint(f)` truncates.  The multiplication and the
addition are rounded separately (amd64 at `GOAMD64=v1`, the default; an architecture on which the Go compiler
fuses `x*y + z` would skip the first rounding — `covThreshold_exact` says when no rounding happens at all, and
then both agree).

**`obistats.Mode`** counts the values in a Go map and ranges over it keeping the first value with the strictly
largest number of occurrences: when several weights are the most frequent, *which one is returned depends on
the iteration order of the map* (random in Go).  The model takes the mode as a parameter; `modeCands` lists
the values `Mode` can return.
-/
namespace ObiVerif.DeBruijn
open ObiVerif.Kmer

/-- `Len` -/
def Graph.len (g : Graph) : Nat := g.nodes.length

/-- `MaxWeight` -/
def Graph.maxWeight (g : Graph) : Nat := g.nodes.foldl (fun m p => if p.2 > m then p.2 else m) 0

/-- `FilterMinWeight(min)`: `umin := uint(min)`; a negative `min` becomes `2^64 - |min|`, above every weight
(weights below `2^63`): every node is deleted. -/
def Graph.filterMinWeight (g : Graph) (min : Int) : Graph :=
  { g with nodes := if min < 0 then [] else g.nodes.filter fun p => !(p.2 < min.toNat) }

/-! ## float64 arithmetic on positive values `n × 2^e` -/

def bitLen (n : Nat) : Nat := if n = 0 then 0 else n.log2 + 1

/-- round `n × 2^e` to 53 significant bits, ties to even -/
def rnd (n : Nat) (e : Int) : Nat × Int :=
  if bitLen n ≤ 53 then (n, e) else
    let s := bitLen n - 53
    let q := n / 2 ^ s
    let r := n % 2 ^ s
    let half := 2 ^ (s - 1)
    let q := if r > half ∨ (r = half ∧ q % 2 = 1) then q + 1 else q
    (q, e + s)

/-- `uint(float64(mode)*min_cov + 0.5)` for `min_cov = m × 2^e` -/
def covThreshold (mode m : Nat) (e : Int) : Nat :=
  let x := rnd mode 0                                   -- float64(mode)
  let p := rnd (x.1 * m) (x.2 + e)                      -- * min_cov
  let e' := min p.2 (-1)
  let n := p.1 * 2 ^ (p.2 - e').toNat + 2 ^ (-1 - e').toNat    -- + 0.5, exactly, as n × 2^e'
  let q := rnd n e'
  if q.2 ≥ 0 then q.1 * 2 ^ q.2.toNat else q.1 / 2 ^ (-q.2).toNat    -- uint(·)

/-! ## `obistats.Mode` -/

/-- the values `obistats.Mode(wp)` can return: `0` on the empty slice, else the values whose number of
occurrences is the largest (ascending, without duplicates) -/
def modeCands (wp : List Nat) : List Nat :=
  if wp.isEmpty then [0] else sortDedup (wp.filter fun v => wp.all fun u => wp.count u ≤ wp.count v)

/-! ## trimming -/

/-- number of leading nodes of weight below `mp` (`from`) -/
def lowPrefix (w : Nat → Nat) (mp : Nat) : List Nat → Nat
  | [] => 0
  | n :: t => if w n < mp then lowPrefix w mp t + 1 else 0

inductive TrimOut where
  | panic                      -- `path[from:to]` with `from > to`
  | path (p : List Nat)
  deriving DecidableEq, Repr

/-- `spath = path[from:to]` -/
def trimPath (w : Nat → Nat) (mp : Nat) (path : List Nat) : TrimOut :=
  let from_ := lowPrefix w mp path
  let to := path.length - lowPrefix w mp path.reverse
  if from_ > to then .panic else .path ((path.drop from_).take (to - from_))

/-- `LongestConsensus(id, min_cov)`, `min_cov = m × 2^e > 0`, `pick` = the choice `obistats.Mode` makes among
the candidates (a function of the weights along the path; any member of `modeCands`) -/
def Graph.longestConsensusCov (g : Graph) (fuel : Nat) (m : Nat) (e : Int) (pick : List Nat → Nat) : ConsOut :=
  if g.nodes.isEmpty then .err else
    match g.heaviestPathH fuel with
    | .fuel => .fuel
    | .panic => .panic
    | hp =>
      let path := match hp with | .path p => p | _ => []        -- nil path: every loop is empty
      let wp := path.map g.weight
      let mp := covThreshold (pick wp) m e
      match trimPath g.weight mp path with
      | .panic => .panic
      | .path sp => let s := g.decodePath sp; if s.isEmpty then .err else .seq s

/-- the outcomes of `LongestConsensus(id, min_cov)` over all the choices `Mode` can make (without duplicates) -/
def Graph.consensusCovCands (g : Graph) (fuel : Nat) (m : Nat) (e : Int) : List ConsOut :=
  let path := match g.heaviestPathH fuel with | .path p => p | _ => []
  ((modeCands (path.map g.weight)).map fun md => g.longestConsensusCov fuel m e (fun _ => md)).eraseDups

end ObiVerif.DeBruijn
