/-!
# `ReadSeqFileChunk` and the three record splitters (property C01)

Transcription of `pkg/obiformats/seqfile_chunk_read.go` (`ReadSeqFileChunk`), `fastaseq_read.go`
(`EndOfLastFastaEntry`), `fastqseq_read.go` (`EndOfLastFastqEntry`) and `embl_read.go`
(`EndOfLastFlatFileEntry`).  Core Lean only (linked into `vm_C01`).

The reader is modelled as a function of the *file bytes*: `io.ReadFull(reader, buf)` returns
`min(len buf, remaining)` bytes and `nil` / `io.ErrUnexpectedEOF` / `io.EOF` according to how many
bytes were left, whatever the transport delivers per `Read` call (that is the documented contract of
`io.ReadFull`, exercised by the harness with a pipe, a one-byte-at-a-time reader and a gzip stream).
-/
namespace ObiVerif.Chunk

abbrev Seq := List UInt8

def isEol (c : UInt8) : Bool := c == 10 || c == 13
def isSpace (c : UInt8) : Bool := c == 32 || c == 9
def isSep (c : UInt8) : Bool := isSpace c || isEol c
/-- `(C >= 'a' && C <= 'z') || (C >= 'A' && C <= 'Z') || C == '-' || C == '.' || C == '[' || C == ']'` -/
def isSeqChar (c : UInt8) : Bool :=
  (97 ≤ c && c ≤ 122) || (65 ≤ c && c ≤ 90) || c == 45 || c == 46 || c == 91 || c == 93

/-! ## EndOfLastFastaEntry -/

/-- the `for i = imax-1; i >= 0 && state < 2; i--` loop.  The argument is `buffer[0..i]` reversed
(head = `buffer[i]`, so `i = tail.length`); result = (state, last, value of `i` after the loop). -/
def fastaLoop : List UInt8 → Nat → Nat → Nat × Nat × Int
  | [], st, last => (st, last, -1)
  | c :: rest, st, last =>
    if st < 2 then
      if c == 62 && st == 0 then fastaLoop rest 1 rest.length
      else if st == 1 && isEol c then fastaLoop rest 2 last
      else fastaLoop rest 0 last
    else (st, last, (rest.length : Int))

/-- `EndOfLastFastaEntry(buffer)` -/
def splitFasta (buf : Seq) : Int :=
  match fastaLoop buf.reverse 0 0 with
  | (st, last, i) => if i == 0 || st != 2 then -1 else (last : Int)

/-! ## EndOfLastFastqEntry

The Go loop walks backwards with `i`; in state 0 it looks for a `+` and remembers `restart = i`;
states 1–6 try to recognise, still backwards, "end of line, separators, a line over the sequence
alphabet, end of line(s), a line whose first byte is `@` preceded by an end of line"; every failed
attempt executes `state = 0; i = restart` and the loop's `i--` resumes the search just below that `+`.
`fqTry` is one attempt (states 1–6) and `fqScan` the state-0 search, so a restart is `fqScan` going on
with the bytes below the `+`.  Running off the buffer inside an attempt ends the Go loop with
`state != 7`, i.e. the result −1 (`exhausted`), not a restart. -/

inductive FqTry where
  | found (cut : Nat) (iAfter : Int)
  | restart
  | exhausted
  deriving Repr, DecidableEq

/-- states 1…6; argument = `buffer[0..i]` reversed -/
def fqTry : List UInt8 → Nat → Nat → FqTry
  | [], _, _ => .exhausted
  | c :: rest, st, cut =>
    match st with
    | 1 => if isEol c then fqTry rest 2 cut else .restart
    | 2 => if isSep c then fqTry rest 2 cut else if isSeqChar c then fqTry rest 3 cut else .restart
    | 3 => if isEol c then fqTry rest 4 cut else if isSeqChar c then fqTry rest 3 cut else .restart
    | 4 => if isEol c then fqTry rest 4 cut else fqTry rest 5 cut
    | 5 => if isEol c then .restart else if c == 64 then fqTry rest 6 rest.length else fqTry rest 5 cut
    | 6 => if isEol c then .found cut ((rest.length : Int) - 1) else fqTry rest 5 cut
    | _ => .exhausted

/-- state 0 -/
def fqScan : List UInt8 → Int
  | [] => -1
  | c :: rest =>
    if c == 43 then
      match fqTry rest 1 0 with
      | .found cut iAfter => if iAfter == 0 then -1 else (cut : Int)
      | .restart => fqScan rest
      | .exhausted => -1
    else fqScan rest

/-- `EndOfLastFastqEntry(buffer)` -/
def splitFastq (buf : Seq) : Int := fqScan buf.reverse

/-! ## EndOfLastFlatFileEntry -/

def flatNext (st : Nat) (c : UInt8) : Nat :=
  match st with
  | 0 => if c == 10 then 1 else 0
  | 1 => if c == 13 then 2 else if c == 47 then 3 else if c == 10 then 1 else 0
  | 2 => if c == 47 then 3 else if c == 10 then 1 else 0
  | 3 => if c == 47 then 4 else if c == 10 then 1 else 0
  | _ => if c == 10 then 5 else 0

/-- the `for i = len(buff)-1; i >= 0 && state < 5; i--` loop; result = (start, `i` after the loop) -/
def flatLoop : List UInt8 → Nat → Nat → Nat × Int
  | [], _, start => (start, -1)
  | c :: rest, st, start =>
    if st < 5 then
      flatLoop rest (flatNext st c) (if st == 1 then rest.length + 2 else start)
    else (start, (rest.length : Int))

/-- `EndOfLastFlatFileEntry(buff)` -/
def splitFlat (buf : Seq) : Int :=
  match flatLoop buf.reverse 0 0 with
  | (start, i) => if i > 0 then (start : Int) else -1

/-! ## ReadSeqFileChunk -/

inductive RErr where
  | none | eof | unexpected
  deriving Repr, DecidableEq

/-- `io.ReadFull(reader, buf)` with `len(buf) = n` on a reader holding `rest`:
(bytes read, what is left, error) -/
def readFull (n : Nat) (rest : Seq) : Seq × Seq × RErr :=
  let got := rest.take n
  (got, rest.drop n, if got.length = n then .none else if got.length = 0 then .eof else .unexpected)

/-- `for len(buff) > 0 && (buff[len(buff)-1] == '\n' || buff[len(buff)-1] == '\r') { buff = buff[:len(buff)-1] }` -/
def stripEol (b : Seq) : Seq := (b.reverse.dropWhile isEol).reverse

/-- the inner loop `for end = splitter(buff); err == nil && end < 0; end = splitter(buff) { … }`,
entered with `err == nil`.  Each turn appends `io.ReadFull` of `fileChunkSize-1` bytes.
`none` = fuel exhausted (the Go loop would not terminate). -/
def grow (split : Seq → Int) (bufsz : Nat) : Nat → Seq → Seq → Option (Seq × Seq × RErr × Int)
  | 0, _, _ => none
  | fuel + 1, buff, rest =>
    let e := split buff
    if e < 0 then
      match readFull (bufsz - 1) rest with
      | (got, rest', err) =>
        let buff' := buff ++ got
        if err = .none then grow split bufsz fuel buff' rest'
        else some (buff', rest', err, split buff')
    else some (buff, rest, .none, e)

/-- the outer loop `for err == nil { … }`; `buff` is the carried-over tail, `out` the chunks sent so
far (reversed).  After the loop the final `if len(buff) > 0 { send }`. -/
def outer (split : Seq → Int) (bufsz : Nat) : Nat → Seq → Seq → List Seq → Option (List Seq)
  | 0, _, _, _ => none
  | fuel + 1, buff, rest, out =>
    match grow split bufsz (rest.length + 2) buff rest with
    | none => none
    | some (buff, rest, err, e) =>
      -- if len(buff) > 0 { … }
      let (out, carry) :=
        if buff.length > 0 then
          let pnext := if e < 0 then buff.length else e.toNat
          let chunk := stripEol (buff.take pnext)
          (if chunk.length > 0 then chunk :: out else out, buff.drop pnext)
        else (out, buff)
      if err = .none then outer split bufsz fuel carry rest out
      else some ((if carry.length > 0 then carry :: out else out).reverse)

/-- `ReadSeqFileChunk(source, reader, make([]byte, bufsz), split)` on a reader delivering `file`:
the chunks sent on the channel, in order (chunk `i` carries `Order = i`).  `none` = the goroutine
never terminates.  `bufsz ≥ 2` is required by the code (`extbuff` has `bufsz-1` bytes). -/
def chunks (split : Seq → Int) (bufsz : Nat) (file : Seq) : Option (List Seq) :=
  match readFull bufsz file with
  | (buff, rest, err) =>
    -- `if err == io.ErrUnexpectedEOF { err = nil }`
    if err = .eof then some []          -- l = 0: loop not entered, nothing to flush
    else outer split bufsz (file.length + 2) buff rest []

end ObiVerif.Chunk
