import ObiVerif.Model.PEAlign
/-!
# Verbatim layer of the two paired-end fills (C08)

`_FillMatrixPeLeftAlign` / `_FillMatrixPeRightAlign` of `pkg/obialign/pairedendalign.go` transcribed
statement by statement over the **flat, column-major matrices of the arena**, with the helpers
`_SetMatrices`, `_GetMatrix`, `_GetMatrixFrom` and their index arithmetic (positions numbered from −1),
the special first row / first column and the special last line (left) / last column (right).

The matrices are `Array Int`; a Go index out of range is `none`.  The arena is **reused**: the fills
receive whatever the previous alignment left in the two slices (`(*scoreMatrix)[:needed]`), so every
function here takes the initial matrices as an argument; `Lemmas/PEFillV.lean` proves that the result
does not depend on them and equals the single recurrence of `Model/PEAlign.lean` (`fillLeft`,
`fillRight`) on which the optimality theorems are stated.

`s i j` is `_PairingScorePeAlign(seqA[i], qualA[i], seqB[j], qualB[j], scale)`, `g` is `gapPenalty`.
-/
namespace ObiVerif.PEAlign

/-- the score matrix and the path matrix of the arena -/
structure Mats where
  sm : Array Int
  pm : Array Int

/-- `(b+1)*(lenA+1) + a + 1` (positions numbered from −1, column-major) -/
def matIdx (lenA : Nat) (a b : Int) : Int := (b + 1) * ((lenA : Int) + 1) + a + 1

/-- `_SetMatrices(matrixA, matrixB, lenA, a, b, valueA, valueB)` -/
def setMatrices (m : Mats) (lenA : Nat) (a b : Int) (vA vB : Int) : Option Mats :=
  let i := matIdx lenA a b
  if 0 ≤ i ∧ i.toNat < m.sm.size ∧ i.toNat < m.pm.size then
    some ⟨m.sm.setIfInBounds i.toNat vA, m.pm.setIfInBounds i.toNat vB⟩
  else none

/-- `_GetMatrix(matrix, lenA, a, b)` -/
def getMatrix (mat : Array Int) (lenA : Nat) (a b : Int) : Option Int :=
  let i := matIdx lenA a b
  if 0 ≤ i then mat[i.toNat]? else none

/-- `_GetMatrixFrom`: `i_top := (b+1)*(lenA+1) + a; i_left := i_top - lenA; i_diag := i_left - 1`;
returns (left, diag, top) -/
def getMatrixFrom (mat : Array Int) (lenA : Nat) (a b : Int) : Option (Int × Int × Int) :=
  let iTop := (b + 1) * ((lenA : Int) + 1) + a
  let iLeft := iTop - (lenA : Int)
  let iDiag := iLeft - 1
  if 0 ≤ iDiag then
    match mat[iLeft.toNat]?, mat[iDiag.toNat]?, mat[iTop.toNat]? with
    | some l, some d, some t => some (l, d, t)
    | _, _, _ => none
  else none

/-- the `switch` of every inner loop -/
def setBest (m : Mats) (la : Nat) (a b : Int) (diag left top : Int) : Option Mats :=
  if diag ≥ left ∧ diag ≥ top then setMatrices m la a b diag 0
  else if left ≥ diag ∧ left ≥ top then setMatrices m la a b left 1
  else setMatrices m la a b top (-1)

/-- `for i := lo; i < lo + n; i++ { st = body(i, st) }` -/
def forLoop {σ : Type} (body : Nat → σ → Option σ) : Nat → Nat → σ → Option σ
  | 0, _, st => some st
  | n + 1, i, st =>
    match body i st with
    | some st' => forLoop body n (i + 1) st'
    | none => none

/-- one cell: `left, diag, top := _GetMatrixFrom(…, i, j); diag += score; left += gl; top += gt; switch …`
(`gl` / `gt` are `gapPenalty`, or 0 where the Go code has no `+=` statement: the free end gaps) -/
def cellStep (s : Nat → Nat → Int) (la : Nat) (gl gt : Int) (i j : Nat) (m : Mats) : Option Mats :=
  match getMatrixFrom m.sm la i j with
  | some (left, diag, top) => setBest m la i j (diag + s i j) (left + gl) (top + gt)
  | none => none

/-- `if needed > cap(*matrix) { *matrix = make([]int, needed) }; *matrix = (*matrix)[:needed]` -/
def prepare (arr : Array Int) (needed : Nat) : Array Int :=
  if needed > arr.size then Array.replicate needed 0 else arr.extract 0 needed

/-- body of `for j := 0; j < lb; j++` of `_FillMatrixPeLeftAlign` (`la1 = la - 1`) -/
def leftCol (s : Nat → Nat → Int) (g : Int) (la : Nat) (j : Nat) (m : Mats) : Option Mats :=
  -- Fill the first line with scores corresponding to a set of gaps
  match setMatrices m la (-1) j (((j : Int) + 1) * g) 1 with
  | none => none
  | some m =>
  -- for i := 0; i < la1; i++
  match forLoop (cellStep s la g g · j) (la - 1) 0 m with
  | none => none
  | some m =>
  -- Special case for the last line: left gaps are free
  cellStep s la 0 g (la - 1) j m

/-- body of `for j := 0; j < lb1; j++` of `_FillMatrixPeRightAlign` -/
def rightCol (s : Nat → Nat → Int) (g : Int) (la : Nat) (j : Nat) (m : Mats) : Option Mats :=
  -- Fill the first line with zero score
  match setMatrices m la (-1) j 0 1 with
  | none => none
  | some m => forLoop (cellStep s la g g · j) la 0 m

/-- `_FillMatrixPeLeftAlign`: returns the corner score and the matrices left in the arena -/
def fillLeftV (s : Nat → Nat → Int) (g : Int) (la lb : Nat) (m0 : Mats) : Option (Int × Mats) :=
  let needed := (la + 1) * (lb + 1)
  let m : Mats := ⟨prepare m0.sm needed, prepare m0.pm needed⟩
  -- Sets the first position of the matrix with 0 score
  match setMatrices m la (-1) (-1) 0 0 with
  | none => none
  | some m =>
  -- Fills the first column with score 0
  match forLoop (fun i m => setMatrices m la i (-1) 0 (-1)) la 0 m with
  | none => none
  | some m =>
  if la = 0 then none else       -- `seqA[la1]` with la1 = −1
  let la1 := la - 1
  match forLoop (leftCol s g la) lb 0 m with
  | none => none
  | some m =>
  match getMatrix m.sm la (la1 : Int) ((lb : Int) - 1) with
  | some r => some (r, m)
  | none => none

/-- `_FillMatrixPeRightAlign` -/
def fillRightV (s : Nat → Nat → Int) (g : Int) (la lb : Nat) (m0 : Mats) : Option (Int × Mats) :=
  let needed := (la + 1) * (lb + 1)
  let m : Mats := ⟨prepare m0.sm needed, prepare m0.pm needed⟩
  match setMatrices m la (-1) (-1) 0 0 with
  | none => none
  | some m =>
  -- Fills the first column with scores corresponding to a set of gaps
  match forLoop (fun i m => setMatrices m la i (-1) (((i : Int) + 1) * g) (-1)) la 0 m with
  | none => none
  | some m =>
  if lb = 0 then none else       -- `seqB[lb1]` with lb1 = −1
  let lb1 := lb - 1
  match forLoop (rightCol s g la) lb1 0 m with
  | none => none
  | some m =>
  -- Special case for the last column: up gaps are free
  match setMatrices m la (-1) lb1 0 1 with
  | none => none
  | some m =>
  match forLoop (cellStep s la g 0 · lb1) la 0 m with
  | none => none
  | some m =>
  match getMatrix m.sm la ((la : Int) - 1) (lb1 : Int) with
  | some r => some (r, m)
  | none => none

/-- the path matrix as `_Backtracking` reads it: `_GetMatrix(&pathMatrix, lseqA, i, j)` with positions
from −1 (`btLoop` itself refuses to leave `0..la × 0..lb`) -/
def pathAt (pm : Array Int) (la : Nat) (i j : Nat) : Int :=
  (getMatrix pm la ((i : Int) - 1) ((j : Int) - 1)).getD 0

/-- fill + `_Backtracking` on the arena -/
def fillLeftA (s : Nat → Nat → Int) (g : Int) (la lb : Nat) (m0 : Mats) : Option (FillRes × Mats) :=
  match fillLeftV s g la lb m0 with
  | some (sc, m) =>
    match backtrack (pathAt m.pm la) la lb with
    | some p => some (⟨sc, p⟩, m)
    | none => none
  | none => none

def fillRightA (s : Nat → Nat → Int) (g : Int) (la lb : Nat) (m0 : Mats) : Option (FillRes × Mats) :=
  match fillRightV s g la lb m0 with
  | some (sc, m) =>
    match backtrack (pathAt m.pm la) la lb with
    | some p => some (⟨sc, p⟩, m)
    | none => none
  | none => none

/-- `PEAlign`, exact mode, on the arena: the right fill and its backtracking, then the left fill **over
the matrices the right fill left behind**, backtracked only when strictly better -/
def peAlignExactA (s : Nat → Nat → Int) (g : Int) (la lb : Nat) (m0 : Mats) : Option (PERes × Mats) :=
  match fillRightA s g la lb m0 with
  | none => none
  | some (r, m1) =>
    match fillLeftV s g la lb m1 with
    | none => none
    | some (scoreL, m2) =>
      if scoreL > r.score then
        match backtrack (pathAt m2.pm la) la lb with
        | some p => some (⟨true, scoreL, p⟩, m2)
        | none => none
      else some (⟨false, r.score, r.path⟩, m2)

/-- `PEAlign`, fast mode, on the arena: the local fill is the **verbatim** loop nest over the flat matrices
(whatever the previous pair left there) followed by `_Backtracking` on the flat path matrix; the
"identical overlap" branch does not touch the matrices.  Same control structure as `peAlignFastFrom`. -/
def peAlignFastFromA (s : Nat → Nat → Int) (g : Int) (la lb : Nat) (delta : Nat) (shift count : Int) (m0 : Mats) :
    Option (PERes × Mats) :=
  let ov := over la lb shift
  let local_ : Option ((Bool × Int × Path × Int × Int) × Mats) :=
    if count < 1 ∨ count + 3 < ov then
      if shift > 0 then
        let startA := (shift - delta).toNat
        if startA > la then none
        else
          let lra := la - startA
          let partLen := min lra lb
          match fillLeftA (fun i j => s (startA + i) j) g lra partLen m0 with
          | some (r, m) => some ((true, r.score, r.path, -(startA : Int), (lb : Int) - partLen), m)
          | none => none
      else
        let startB := (-shift - delta).toNat
        if startB > lb then none
        else
          let lrb := lb - startB
          let partLen := min lrb la
          match fillRightA (fun i j => s i (startB + j)) g partLen lrb m0 with
          | some (r, m) => some ((false, r.score, r.path, (startB : Int), (partLen : Int) - la), m)
          | none => none
    else
      if shift > 0 then
        let startA := shift.toNat
        if startA > la then none
        else
          let partLen := la - startA
          if partLen > lb then none
          else some ((true, diagScore s partLen startA 0, [0, (partLen : Int)], -(startA : Int), (lb : Int) - partLen), m0)
      else
        let startB := (-shift).toNat
        if startB > lb then none
        else
          let partLen := lb - startB
          if partLen > la then none
          else some ((false, diagScore s partLen 0 startB, [0, (partLen : Int)], (startB : Int), (partLen : Int) - la), m0)
  match local_ with
  | some ((isLeft, score, path, extra5, extra3), m) => some (⟨isLeft, score, extend3 extra3 (extend5 extra5 path)⟩, m)
  | none => none

end ObiVerif.PEAlign
