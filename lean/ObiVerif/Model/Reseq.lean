/-!
# The re-sequencing buffer

`SortBatches` (obiiter/batchiterator.go), `WriteSeqFileChunk` (obiformats/seqfile_chunk_write.go) and
the writer goroutines of `WriteJSON` / `WriteCSV` all run the same machine: a counter `next`, a map of
early arrivals, and a drain loop.  `fT` is what the code does with an item that arrives in turn, `fD`
what it does with an item drained from the map (they differ in the code: error checking, separators).
The map is an association list; arrival histories with pairwise distinct order numbers are the only
ones the real channels can carry (each batch is sent once).
-/
namespace ObiVerif.Reseq

structure WS (σ α : Type) where
  next : Nat
  pending : List (Nat × α)
  acc : σ

def lookupK {α} (k : Nat) : List (Nat × α) → Option α
  | [] => none
  | (j, x) :: t => if j = k then some x else lookupK k t

def eraseK {α} (k : Nat) : List (Nat × α) → List (Nat × α)
  | [] => []
  | (j, x) :: t => if j = k then t else (j, x) :: eraseK k t

theorem eraseK_length_lt {α} (k : Nat) (l : List (Nat × α)) (x : α) (h : lookupK k l = some x) :
    (eraseK k l).length < l.length := by
  induction l with
  | nil => simp [lookupK] at h
  | cons p t ih =>
    obtain ⟨j, y⟩ := p
    simp only [lookupK, eraseK] at *
    split
    · simp
    · rename_i hne
      simp [hne] at h
      have := ih h
      simp; omega

/-- `chunk, ok := received[next]; for ok { emit; delete; next++; chunk, ok = received[next] }` -/
def drain {σ α} (fD : σ → α → σ) (s : WS σ α) : WS σ α :=
  match h : lookupK s.next s.pending with
  | none => s
  | some x => drain fD { next := s.next + 1, pending := eraseK s.next s.pending, acc := fD s.acc x }
termination_by s.pending.length
decreasing_by exact eraseK_length_lt _ _ _ h

/-- one arrival `(order, item)` -/
def step {σ α} (fT fD : σ → α → σ) (s : WS σ α) (a : Nat × α) : WS σ α :=
  if a.1 = s.next then drain fD { next := s.next + 1, pending := s.pending, acc := fT s.acc a.2 }
  else { s with pending := a :: s.pending }

def run {σ α} (fT fD : σ → α → σ) (init : σ) (arr : List (Nat × α)) : WS σ α :=
  arr.foldl (step fT fD) ⟨0, [], init⟩

/-- the released items, in release order -/
def reseq {α} (arr : List (Nat × α)) : List α :=
  (run (fun l x => l ++ [x]) (fun l x => l ++ [x]) [] arr).acc

end ObiVerif.Reseq
