import ObiVerif.Model.UniqChunk
/-!
# Small-step model of the goroutines of `IUniqueSequence` after the chunk stage (property C06) — core Lean only

`pkg/obichunk/unique.go`: the chunk iterator is shared by `nworkers` goroutines `ff(iterator.Split() | iterator,
SequenceClassifier(), len(cat))` (every chunk is received by exactly one of them — which one is a matter of
scheduling); each runs its chain of `ISequenceSubChunk` stages and pushes the batches that need no further
classification on the shared iterator `iUnique`, the pushes of the workers interleaving freely;
`IMergeSequenceBatch` takes the batches of `iUnique` one by one and delivers the merged record of each.

State: the channel of the chunk stage (`src`), per worker the chunks received so far, whether it has seen the
end of the channel, and the batches of its chain not yet pushed; the log of the pushes on `iUnique`; the number
of them already merged.  A worker's chain (`chain`: the stages `ffL` of `Model/UniqLoop.lean` and the
`--no-singleton` test) is a sequence of single-goroutine stages linked by FIFO channels: what it pushes is a
function of the sequence of chunks it received (property C03, `loop_stage_correct`: a single-loop stage delivers
its big-step result under every interleaving); the model therefore lets a worker compute its pushes when it
sees the end of the chunk channel and then push them one at a time — the interleaving *between* the workers,
the chunk stage and the merge stage is arbitrary (`Step`).
-/
namespace ObiVerif.Uniq.Pipe
open ObiVerif.Uniq

structure Worker where
  /-- the chunks received, in order -/
  got : List (List Rec)
  /-- `input.Next()` returned false: the chain has run to its end -/
  closed : Bool
  /-- batches of the chain not yet pushed on `iUnique` -/
  pend : List (List Rec)

structure State where
  /-- the channel of the chunk stage (head = next chunk to be received) -/
  src : List (List Rec)
  ws : List Worker
  /-- everything pushed on `iUnique` so far, in push order -/
  pushed : List (List Rec)
  /-- how many of them `IMergeSequenceBatch` has merged and delivered -/
  merged : Nat

def init (cs : List (List Rec)) (n : Nat) : State := ⟨cs, List.replicate n ⟨[], false, []⟩, [], 0⟩

/-- what the chain of a worker pushes on `iUnique` for the chunks `got`:
`if !(opts.NoSingleton() && len == 1 && Count() == 1) { iUnique.Push(...) }` on the terminal batches -/
def chain (srt : Sorter) (o : Opts) (got : List (List Rec)) : List (List Rec) :=
  (ffL srt (Kind.seq, seqC) (catLs o) got).filter fun b => !dropped o b

/-- the enabled move of worker `i`: receive a chunk / see the end of the channel / push a batch -/
def workerStep (srt : Sorter) (o : Opts) (i : Nat) (s : State) : Option State :=
  match s.ws[i]? with
  | none => none
  | some w =>
    if w.closed then
      match w.pend with
      | [] => none
      | b :: p => some { s with ws := s.ws.set i { w with pend := p }, pushed := s.pushed ++ [b] }
    else
      match s.src with
      | c :: t => some { s with src := t, ws := s.ws.set i { w with got := w.got ++ [c] } }
      | [] => some { s with ws := s.ws.set i { w with closed := true, pend := chain srt o w.got } }

/-- `IMergeSequenceBatch` takes the next batch of `iUnique` -/
def mergeStep (s : State) : Option State :=
  if s.merged < s.pushed.length then some { s with merged := s.merged + 1 } else none

def Step (srt : Sorter) (o : Opts) (s s' : State) : Prop :=
  (∃ i, workerStep srt o i s = some s') ∨ mergeStep s = some s'

inductive Reach (srt : Sorter) (o : Opts) : State → State → Prop where
  | refl (s : State) : Reach srt o s s
  | step {s t u : State} : Reach srt o s t → Step srt o t u → Reach srt o s u

/-- nothing is left anywhere -/
def final (s : State) : Bool :=
  s.src.isEmpty && s.ws.all (fun w => w.closed && w.pend.isEmpty) && s.merged == s.pushed.length

/-- the records delivered so far -/
def result (o : Opts) (s : State) : List Rec :=
  (s.pushed.take s.merged).filterMap (mergeClass o.na o.stats)

/-- an execution driven by a schedule: entry `k` lets worker `k % n` move, or the merge stage when `k % (n+1) = n`;
a disabled move is skipped; when the schedule is exhausted, round robin until nothing moves -/
def runSched (srt : Sorter) (o : Opts) : List Nat → Nat → State → State
  | _, 0, s => s
  | [], fuel + 1, s =>
    let n := s.ws.length
    let s' := (List.range (n + 1)).foldl (fun s k =>
      let r := if k = n then mergeStep s else workerStep srt o k s
      r.getD s) s
    if final s' then s' else runSched srt o [] fuel s'
  | k :: sch, fuel + 1, s =>
    let n := s.ws.length
    let j := k % (n + 1)
    let r := if j = n then mergeStep s else workerStep srt o j s
    runSched srt o sch fuel (r.getD s)

end ObiVerif.Uniq.Pipe
