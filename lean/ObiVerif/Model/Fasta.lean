import ObiVerif.Model.Chunk
/-!
# `FastaChunkParser` (pkg/obiformats/fastaseq_read.go) as a byte state machine

The Go parser keeps `identifier`, `definition`, `idBytes`, `defBytes`, `seqBytes`, `previous` in flat
variables.  Each of them is (re)assigned on every path before the state that reads it (`idBytes.Reset()`
on 1→2, `identifier` on leaving 2, `definition` on entering 5, `seqBytes.Reset()` on 5→6), so the value a
state can observe is exactly the payload carried by the constructors below.
A `log.Fatalf` is the outcome `.fatal`, an index-out-of-range panic (`start[0]`, `start[1]` on a
chunk shorter than two bytes) the outcome `.panic`.
-/
namespace ObiVerif.Parse
open ObiVerif.Chunk

inductive Fatal where
  | fatal | panic
  deriving Repr, DecidableEq

/-- what the harness observes of an `obiseq.BioSequence` built by a chunk parser -/
structure Rec where
  id : Seq
  defn : Seq
  seq : Seq
  qual : Option Seq := none
  /-- GenBank / EMBL only: `taxid`, `scientific_name`, feature table -/
  flat : Option (Int × Seq × Seq) := none
  deriving Repr, DecidableEq

/-- `if C >= 'A' && C <= 'Z' { C = C + 'a' - 'A' }` -/
def lower (c : UInt8) : UInt8 := if 65 ≤ c && c ≤ 90 then c + 32 else c

/-- `(C >= 'a' && C <= 'z') || C == '-' || C == '.' || C == '[' || C == ']'` (after lower-casing) -/
def seqOK (c : UInt8) : Bool := (97 ≤ c && c ≤ 122) || c == 45 || c == 46 || c == 91 || c == 93

inductive FaSt where
  | s0
  | s1
  | s2 (idB : Seq)
  | s3 (id : Seq)
  | s4 (id defB : Seq)
  | s5 (id defn : Seq)
  | s6 (id defn seqB : Seq) (prevEol : Bool)
  deriving Repr, DecidableEq

/-- `obiseq.NewBioSequence(identifier, rawseq, definition)` (`SetSequence` lower-cases a copy) -/
def mkRec (id defn sq : Seq) : Rec := { id := id, defn := defn, seq := sq.map lower }

/-- one turn of the `for C, err := scanner.ReadByte(); …` loop: new state and the record appended to
`sequences`, if any -/
def faStep (s : FaSt) (c : UInt8) : Except Fatal (FaSt × Option Rec) :=
  match s with
  | .s0 => if c == 62 then .ok (.s1, none) else .error .fatal
  | .s1 => if isSep c then .error .fatal else .ok (.s2 [c], none)
  | .s2 idB =>
    if isEol c then .ok (.s5 idB [], none)
    else if isSep c then .ok (.s3 idB, none)
    else .ok (.s2 (idB ++ [c]), none)
  | .s3 id =>
    if isEol c then .ok (.s5 id [], none)
    else if !isSpace c then .ok (.s4 id [c], none)
    else .ok (.s3 id, none)
  | .s4 id d => if isEol c then .ok (.s5 id d, none) else .ok (.s4 id (d ++ [c]), none)
  | .s5 id d =>
    if !isEol c then
      if seqOK (lower c) then .ok (.s6 id d [lower c] false, none) else .error .fatal
    else .ok (.s5 id d, none)
  | .s6 id d sq prevEol =>
    if c == 62 then
      if prevEol then
        if sq.isEmpty then .error .fatal else .ok (.s1, some (mkRec id d sq))
      else .error .fatal
    else if !isSep c then
      if seqOK (lower c) then .ok (.s6 id d (sq ++ [lower c]) false, none) else .error .fatal
    else .ok (.s6 id d sq (isEol c), none)

/-- the byte loop from a given state -/
def faRun : FaSt → Seq → Except Fatal (FaSt × List Rec)
  | s, [] => .ok (s, [])
  | s, c :: t =>
    match faStep s c with
    | .error e => .error e
    | .ok (s', r) =>
      match faRun s' t with
      | .error e => .error e
      | .ok (s'', rs) => .ok (s'', r.toList ++ rs)

/-- `if state == 6 { … append the last record }` -/
def faFinish : FaSt → Except Fatal (List Rec)
  | .s6 id d sq _ => if sq.isEmpty then .error .fatal else .ok [mkRec id d sq]
  | _ => .ok []

/-- `FastaChunkParser()(source, chunk)`: the `Peek(20)` checks on the first two bytes, the loop, the
final record -/
def parseFasta (chunk : Seq) : Except Fatal (List Rec) :=
  match chunk with
  | [] => .error .panic                       -- start[0]: index out of range
  | a :: t =>
    if a != 62 then .error .fatal
    else match t with
      | [] => .error .panic                   -- start[1]: index out of range
      | b :: _ =>
        if b == 32 then .error .fatal
        else match faRun .s0 chunk with
          | .error e => .error e
          | .ok (s, rs) =>
            match faFinish s with
            | .error e => .error e
            | .ok l => .ok (rs ++ l)

end ObiVerif.Parse
