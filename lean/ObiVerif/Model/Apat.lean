import ObiVerif.Gen.Tables
/-!
# Model of the `obiapat` pattern matcher (C10; the match-list API is reused by C11)

Transcription of
* `pkg/obiapat/apat_parse.c`  : `CheckPattern`, `splitPattern`, `valPattern`, `obliBitPattern`, `lenPattern`, `EncodePattern`
* `pkg/obiapat/apat_search.c` : `CreateS`, `ManberNoErr`, `ManberSub`, `ManberIndel`, `ManberAll`
* `pkg/obiapat/obiapat.c`     : `UpperSequence`, `EncodeSequence`, `new_apatseq` (circular extension), `buildPattern`,
                                `complementPattern` / `ecoComplementPattern` / `reverseSequence`
* `pkg/obiapat/pattern.go`    : `MakeApatPattern`, `ReverseComplement`, `FindAllIndex`, `IsMatching`, `FilterBestMatch`, `AllMatches`, `BestMatch`
* `pkg/obialign/locatepattern.go` : `LocatePattern` (with `_samenuc` of `fastlcsegf.go`)

The IUPAC code table `sDnaCode`, the complement alphabets, `_iupac`, `MAX_PAT_LEN`, `PATMASK`, `OBLIBIT` are
**generated** from the sources (`ObiVerif.Gen`).  State words are `BitVec 64` (`patword_t = uint64_t`).

Restrictions (recorded in lib/cfg/C10.py): pattern length 1..63 (`0x1L << patlen` is undefined behaviour in C for
patlen = 64: reported by the harness oracle, result lines `unmodelled`; `Lemmas/ApatLen64.lean` refutes exactness at 64 for
every value of the shift).  The error budget is ≤ 63 by the guard of `buildPattern` (`makeApatPattern`, end of this file);
a circular sequence is extended by its first `min(seqlen, MAX_PAT_LEN)` symbols (`seqData`: `take` does that).

## Match-list API (for C11)
`findAllIndex P seq circular begin length : List Hit` — the `[][3]int` of `ApatPattern.FindAllIndex`, in order;
`compile`, `reverseComplement` build patterns.
-/
namespace ObiVerif.Apat
open ObiVerif

abbrev Bytes := List UInt8
abbrev W := BitVec 64

/-! ## characters -/
def chLBr : UInt8 := 91   -- '['
def chRBr : UInt8 := 93   -- ']'
def chBang : UInt8 := 33  -- '!'
def chHash : UInt8 := 35  -- '#'

/-- C `isupper` in the "C" locale -/
def isUpper (c : UInt8) : Bool := c ≥ 65 && c ≤ 90
def isLower (c : UInt8) : Bool := c ≥ 97 && c ≤ 122

/-- `UpperSequence` (obiapat.c) -/
def upperSeq (s : Bytes) : Bytes := s.map fun c => if isLower c then c - 32 else c

/-- Go `strings.ToLower` on the ASCII pattern string -/
def lowerStr (s : Bytes) : Bytes := s.map fun c => if isUpper c then c + 32 else c

/-! ## `CheckPattern` -/

/-- the `for (lev = 0; *pat ; pat++) switch (*pat)` loop; `prev` is `*(pat-1)`, `next` is `*(pat+1)` (0 = NUL) -/
def checkLoop : UInt8 → Int → Bytes → Bool
  | _, lev, [] => lev == 0
  | prev, lev, c :: rest =>
    let next := rest.headD 0
    if c == chLBr then
      if lev != 0 then false else if next == chRBr then false else checkLoop c (lev + 1) rest
    else if c == chRBr then
      if lev - 1 != 0 then false else checkLoop c (lev - 1) rest
    else if c == chBang then
      if lev != 0 then false else if next == 0 then false else if next == chRBr then false else checkLoop c lev rest
    else if c == chHash then
      if lev != 0 then false else if prev == chLBr then false else checkLoop c lev rest
    else if isUpper c then checkLoop c lev rest
    else false

/-- `CheckPattern` -/
def checkPattern (cpat : Bytes) : Bool :=
  if cpat.headD 0 == chHash then false else checkLoop 0 0 cpat

/-! ## `splitPattern`, `valPattern`, `EncodePattern` -/

/-- `skipOblig`: 1 if the following character is `#` (the returned pointer is advanced by one) -/
def skipOblig (l : Bytes) : Nat := if (l.drop 1).headD 0 == chHash then 1 else 0

/-- index of the first `]` in `l` (the `for (; *pat; pat++) if (*pat == ']')` scan), with the rest from there -/
def findRBr : Bytes → Option (Nat × Bytes)
  | [] => none
  | c :: rest => if c == chRBr then some (0, c :: rest) else (findRBr rest).map fun (k, r) => (k + 1, r)

/-- `splitPattern`: offset (from the start of `l`) of the LAST character of the first token; `none` = NULL -/
def splitPattern : Bytes → Option Nat
  | [] => some 0
  | c :: rest =>
    if c == chLBr then
      match findRBr (c :: rest) with
      | some (k, r) => some (k + skipOblig r)
      | none => none
    else if c == chBang then (splitPattern rest).map (· + 1)
    else some (skipOblig (c :: rest))

/-- the `default:` branch of `valPattern`: OR of the codes of the leading run of upper-case letters -/
def valLetters (code : List Nat) : Bytes → Nat
  | [] => 0
  | c :: rest => if isUpper c then (code.getD (c.toNat - 65) 0) ||| valLetters code rest else 0

/-- `valPattern` (on one NUL-terminated token) -/
def valPattern (code : List Nat) : Bytes → Nat
  | [] => 0
  | c :: rest =>
    if c == chLBr then valPattern code rest
    else if c == chBang then (valPattern code rest) ^^^ Gen.apatPatMask   -- `~val & PATMASK` (val ⊆ PATMASK)
    else valLetters code (c :: rest)

/-- `obliBitPattern` -/
def obliBit (tok : Bytes) : Nat := if tok.getLast? == some chHash then Gen.apatObliBit else 0

/-- the token loop shared by `lenPattern` and `EncodePattern`: list of tokens; `none` when `splitPattern` is NULL -/
def tokens : Nat → Bytes → Option (List Bytes)
  | 0, _ => none
  | _, [] => some []
  | fuel + 1, l =>
    match splitPattern l with
    | none => none
    | some k => (tokens fuel (l.drop (k + 1))).map fun ts => l.take (k + 1) :: ts

/-- `EncodePattern(ppat, dna)`: the `patcode` array; `none` when `lenPattern <= 0` -/
def encodePattern (cpat : Bytes) : Option (List Nat) :=
  match tokens (cpat.length + 1) cpat with
  | none => none
  | some [] => none
  | some ts => some (ts.map fun t => valPattern Gen.apatDnaCode t ||| obliBit t)

/-! ## compiled pattern -/

structure Pattern where
  /-- `cpat`: upper-cased pattern string -/
  cpat : Bytes
  /-- `patcode[0..patlen)`: accepted-letter set (bits 0..25) | `OBLIBIT` -/
  codes : List Nat
  maxerr : Nat
  hasIndel : Bool
  deriving Repr, DecidableEq

def Pattern.patlen (P : Pattern) : Nat := P.codes.length

inductive PatErr | check | encode | ub | tooLong | budget
  deriving Repr, DecidableEq

/-- bytes of the C string: up to the first NUL (`C.CString`) -/
def cString (s : Bytes) : Bytes := s.takeWhile (· != 0)

/-- `MakeApatPattern` / `buildPattern` -/
def compile (pat : Bytes) (errormax : Nat) (allowsIndel : Bool) : Except PatErr Pattern :=
  let cpat := upperSeq (cString pat)
  if !checkPattern cpat then .error .check
  else match encodePattern cpat with
    | none => .error .encode
    | some codes => .ok ⟨cpat, codes, errormax, allowsIndel⟩

/-! ## `CreateS` -/

/-- one pass of the `for (i = patlen-1, amask = 1; i >= 0; i--, amask <<= 1)` loop restricted to one output word:
the codes are visited from the LAST pattern position (`revcodes`), `amask` doubling. -/
def maskOf (f : Nat → Bool) : List Nat → W → W
  | [], _ => 0
  | c :: rest, amask => (if f c then amask else 0) ||| maskOf f rest (amask <<< 1)

/-- `smat[j]` -/
def smatWord (codes : List Nat) (j : Nat) : W := maskOf (fun c => c.testBit j) codes.reverse 1
/-- `omask` -/
def omaskWord (codes : List Nat) : W := maskOf (fun c => c &&& Gen.apatObliBit != 0) codes.reverse 1
/-- the S matrix (`ALPHA_LEN` words) -/
def smat (codes : List Nat) : List W := (List.range Gen.apatAlphaLen).map (smatWord codes)

/-! ## sequences -/

/-- `EncodeSequence`: lower-case letters to 0..25, every other byte to `NOT_A_NUC = 'z' - 'a'` (no IUPAC class contains it) -/
def encodeByte (c : UInt8) : Nat := if isLower c then c.toNat - 97 else 25

/-- `SetSequence` lower-cases (A-Z only) -/
def lowerByte (c : UInt8) : UInt8 := if isUpper c then c ||| 0x20 else c

/-- the `data` buffer of `new_apatseq`: `seqlen` codes followed, for a circular sequence, by the codes of the first
`MAX_PAT_LEN` symbols (only meaningful when `seqlen ≥ MAX_PAT_LEN`) -/
def seqData (seq : Bytes) (circular : Bool) : List Nat :=
  let d := seq.map encodeByte
  if circular then d ++ d.take Gen.apatMaxPatLen else d

/-! ## the three automata -/

/-- a hit: (start position as pushed on `hitpos`, error level pushed on `hiterr`) -/
abbrev RawHit := Int × Nat

/-- `ManberNoErr` main loop over `data[begin..end)`; `r` carries `smask` already or-ed in -/
def noErrScan (m : Nat) (smask : W) (sm : List W) : Nat → W → List Nat → List RawHit
  | _, _, [] => []
  | pos, r, c :: cs =>
    let r1 := (r >>> 1) &&& sm.getD c 0
    let rest := noErrScan m smask sm (pos + 1) (r1 ||| smask) cs
    if r1.getLsbD 0 then ((pos : Int) - m + 1, 0) :: rest else rest

/-- inner loop over the error levels of `ManberSub` at one text position: `prev` is `pr[0]`
(the old word of the level below with `smask`, 0 for level 0); the list holds the old `pr[3]` words. -/
def subLevels (smask cmask sindx : W) : W → List W → List W
  | _, [] => []
  | prev, r :: rs =>
    let r2 := r ||| smask
    let r3 := ((prev >>> 1) &&& cmask) ||| ((r2 >>> 1) &&& sindx)
    r3 :: subLevels smask cmask sindx r2 rs

/-- inner loop of `ManberIndel`: `pr0` = old word of the level below (with smask), `pr1` = NEW word of the level below -/
def indelLevels (smask cmask sindx : W) : W → W → List W → List W
  | _, _, [] => []
  | pr0, pr1, r :: rs =>
    let r2 := r ||| smask
    let r3 := ((pr0 ||| (pr0 >>> 1) ||| (pr1 >>> 1)) &&& cmask) ||| ((r2 >>> 1) &&& sindx)
    r3 :: indelLevels smask cmask sindx r2 r3 rs

/-- first level whose word has bit 0 (`if (pr[3] & 0x1L) { if (!found) PUSH … }`) -/
def firstHit : List W → Nat → Option Nat
  | [], _ => none
  | r :: rs, e => if r.getLsbD 0 then some e else firstHit rs (e + 1)

/-- text loop of `ManberSub` / `ManberIndel` (`levels` = the inner loop) -/
def errScan (m : Nat) (levels : W → List W → List W) (sm : List W) : Nat → List W → List Nat → List RawHit
  | _, _, [] => []
  | pos, rs, c :: cs =>
    let rs' := levels (sm.getD c 0) rs
    let rest := errScan m levels sm (pos + 1) rs' cs
    match firstHit rs' 0 with
    | some e => ((pos : Int) - m + 1, e) :: rest
    | none => rest

/-- initial words of `ManberIndel`: `cmask` starts as `smask` and becomes `(cmask >> 1) | smask` after each level -/
def indelInit (smask : W) : Nat → W → List W
  | 0, _ => []
  | n + 1, c => c :: indelInit smask n ((c >>> 1) ||| smask)

/-- the scanned part of the buffer: `end = min(begin+length, seqlen+circular)`, positions `begin..end-1` -/
def window (data : List Nat) (begin length : Nat) : List Nat :=
  (data.drop begin).take (min (begin + length) data.length - begin)

def manberNoErr (P : Pattern) (data : List Nat) (begin length : Nat) : List RawHit :=
  let smask : W := 1#64 <<< P.patlen
  noErrScan P.patlen smask (smat P.codes) begin smask (window data begin length)

def manberSub (P : Pattern) (data : List Nat) (begin length : Nat) : List RawHit :=
  let smask : W := 1#64 <<< P.patlen
  let cmask : W := ~~~ (omaskWord P.codes)
  errScan P.patlen (fun sindx => subLevels smask cmask sindx 0) (smat P.codes) begin
    (List.replicate (P.maxerr + 1) smask) (window data begin length)

def manberIndel (P : Pattern) (data : List Nat) (begin length : Nat) : List RawHit :=
  let smask : W := 1#64 <<< P.patlen
  let cmask : W := ~~~ (omaskWord P.codes)
  errScan P.patlen (fun sindx => indelLevels smask cmask sindx 0 0) (smat P.codes) begin
    (indelInit smask (P.maxerr + 1) smask) (window data begin length)

/-- `ManberAll` -/
def manberAll (P : Pattern) (data : List Nat) (begin length : Nat) : List RawHit :=
  if P.maxerr == 0 then manberNoErr P data begin length
  else if P.hasIndel then manberIndel P data begin length
  else manberSub P data begin length

/-! ## Go layer -/

/-- `[3]int{start, end, err}` -/
abbrev Hit := Int × Int × Int

/-- `ApatPattern.FindAllIndex(sequence, begin, length)`; `seq` is the (lower-cased) content of the BioSequence -/
def findAllIndex (P : Pattern) (seq : Bytes) (circular : Bool) (begin length : Int) : List Hit :=
  let begin := if begin < 0 then 0 else begin
  let length := if length < 0 then (seq.length : Int) else length
  (manberAll P (seqData seq circular) begin.toNat (length.toNat + Gen.apatMaxPatLen)).map
    fun (start, err) => (start, start + P.patlen, (err : Int))

/-- `IsMatching` -/
def isMatching (P : Pattern) (seq : Bytes) (circular : Bool) (begin length : Int) : Bool :=
  !(findAllIndex P seq circular begin length).isEmpty

/-- loop body of `FilterBestMatch` : state = (filtered (reversed), best).  As repaired by
`notes/patches/C10-filterbest-first-hit-beyond-10000.diff`: the sentinel `best = {0, 0, 10000}` is recognised before the
overlap test (the unrepaired code compared the start of the first hit with `0 + 10000` and dropped every hit when the
first one started at `10000 + err` or later). -/
def filterStep (st : List Hit × Hit) (m : Hit) : List Hit × Hit :=
  let (filtered, best) := st
  if best.2.2 < 10000 && m.1 - m.2.2 < best.2.1 + best.2.2 then
    if m.2.2 < best.2.2 then (filtered, m) else (filtered, best)
  else if best.2.2 < 10000 then (best :: filtered, m)
  else (filtered, m)

/-- `FilterBestMatch` on the result of `FindAllIndex` -/
def filterBest (res : List Hit) : List Hit :=
  let (filtered, best) := res.foldl filterStep ([], (0, 0, 10000))
  (if best.2.2 < 10000 then best :: filtered else filtered).reverse

def filterBestMatch (P : Pattern) (seq : Bytes) (circular : Bool) (begin length : Int) : List Hit :=
  filterBest (findAllIndex P seq circular begin length)

/-! ## `obialign.LocatePattern` -/

/-- `_samenuc` -/
def samenuc (a b : UInt8) : Bool :=
  let a := if a ≥ 65 && a ≤ 90 then a ||| 32 else a
  let b := if b ≥ 65 && b ≤ 90 then b ||| 32 else b
  if a ≥ 97 && a ≤ 122 && b ≥ 97 && b ≤ 122 then
    (Gen.alignIupac.getD (a.toNat - 97) 0 &&& Gen.alignIupac.getD (b.toNat - 97) 0) > 0
  else a == b

/-- one matrix cell: (buffer, path) -/
abbrev Cell := Int × Int

/-- `switch { case score == left: -1; case score == diag: 0; case score == up: +1 }` -/
def pathOf (score left diag up : Int) : Int :=
  if score == left then -1 else if score == diag then 0 else if score == up then 1 else 0

/-- cells `j = 0 .. jmax` of row `i` given the previous row (`prev` = cells `j-1..` of row i-1 starting at column j-1)
and the cell to the left; `last` tells whether the cell is in the last column (free up gap). -/
def rowCells (c : UInt8) : (pat : Bytes) → (prevRow : List Cell) → (left : Cell) → List Cell
  | [], _, _ => []
  | p :: ps, prevRow, leftCell =>
    let isLast := ps.isEmpty
    let mt : Int := if samenuc p c then 0 else -1
    let diag := (prevRow.headD (0, 0)).1 + mt
    let left := leftCell.1 - 1
    let up := ((prevRow.drop 1).headD (0, 0)).1 - (if isLast then 0 else 1)
    let score := max (max diag up) left
    let cell : Cell := (score, pathOf score left diag up)
    cell :: rowCells c ps (prevRow.drop 1) cell

/-- row `-1`: column -1 is (0, path 0 after `path[0] = 0`), then `(-j-1, -1)` -/
def firstRow (m : Nat) : List Cell := (0, 0) :: (List.range m).map fun (j : Nat) => (-(j : Int) - 1, -1)

/-- all rows `-1 .. n-1`, each with columns `-1 .. m-1` -/
def fillRows (pat : Bytes) : List Cell → Bytes → List (List Cell)
  | prev, [] => [prev]
  | prev, c :: cs =>
    let row := (0, 1) :: rowCells c pat prev (0, 1)
    prev :: fillRows pat row cs

/-- `path[buffIndex(i, j, width)]` -/
def cellAt (rows : List (List Cell)) (i j : Int) : Cell :=
  (rows.getD (i + 1).toNat []).getD (j + 1).toNat (0, 0)

/-- the backtracking loop `for j >= 0` (first pattern column included) : returns (i, end) -/
def backtrack (rows : List (List Cell)) : Nat → Int → Int → Int → Int × Int
  | 0, i, _, e => (i, e)
  | fuel + 1, i, j, e =>
    if j ≥ 0 then
      let p := (cellAt rows i j).2
      if p == 0 then backtrack rows fuel (i - 1) (j - 1) (if e == -1 then i else e)
      else if p == 1 then backtrack rows fuel (i - 1) j e
      else if p == -1 then backtrack rows fuel i (j - 1) (if e == -1 then i else e)
      else backtrack rows fuel i j e
    else (i, e)

/-- `LocatePattern(id, pattern, sequence)`: `none` = `log.Panicf` (empty pattern) -/
def locatePattern (pat seq : Bytes) : Option (Int × Int × Int) :=
  if pat.length == 0 then none
  else
    let rows := fillRows pat (firstRow pat.length) seq
    let n : Int := seq.length
    let m : Int := pat.length
    let (i, e) := backtrack rows (seq.length + pat.length + 2) (n - 1) (m - 1) (-1)
    some (i + 1, e + 1, -(cellAt rows (n - 1) (m - 1)).1)

/-! ## `AllMatches`, `BestMatch` -/

inductive Outcome (α : Type) | ok (a : α) | panic
  deriving Repr, DecidableEq

/-- Go slice expression `s[a:b]` on a slice of length (= capacity bound used here) `n`: panics unless 0 ≤ a ≤ b ≤ n -/
def goSlice (s : Bytes) (a b : Int) : Option Bytes :=
  if 0 ≤ a && a ≤ b && b ≤ s.length then some ((s.drop a.toNat).take (b - a).toNat) else none

/-- loop body of `AllMatches` -/
def allMatchStep (P : Pattern) (seq : Bytes) (m : Hit) : Option Hit :=
  if m.2.2 > 0 && P.hasIndel then
    let start := max (m.1 - m.2.2 * 2) 0
    let end_ := min (start + P.patlen + 4 * m.2.2) seq.length
    match goSlice seq start end_ with
    | none => none
    | some frg =>
      match locatePattern (P.cpat.take P.patlen) frg with
      | none => none
      | some (pb, pe, score) => some (start + pb, start + pe, score)
  else some m

/-- `AllMatches` -/
def allMatches (P : Pattern) (seq : Bytes) (circular : Bool) (begin length : Int) : Outcome (List Hit) :=
  match (filterBestMatch P seq circular begin length).mapM (allMatchStep P seq) with
  | none => .panic
  | some l => .ok (l.filter fun m => (P.maxerr : Int) ≥ m.2.2)

/-- `best` selection loop of `BestMatch` -/
def bestOf (res : List Hit) : Hit :=
  res.foldl (fun best m => if m.2.2 < best.2.2 then m else best) (0, 0, 10000)

/-- `BestMatch`: (start, end, nerr, matched) -/
def bestMatch (P : Pattern) (seq : Bytes) (circular : Bool) (begin length : Int) : Outcome (Int × Int × Int × Bool) :=
  let res := findAllIndex P seq circular begin length
  if res.isEmpty then .ok (0, 0, 0, false)
  else
    let best := bestOf res
    let nerr := best.2.2
    let end_ := best.2.1
    -- as repaired by `notes/patches/C10-bestmatch-shifted-start.diff`: a hit that is re-aligned may have a negative
    -- ("shifted") start; the unrepaired code answered `matched = false` for every best hit with `best[0] < 0`
    if (best.1 < 0 && (nerr == 0 || !P.hasIndel)) || best.2.1 > seq.length then .ok (0, end_, nerr, false)
    else if nerr == 0 || !P.hasIndel then .ok (best.1, end_, nerr, true)
    else
      let start := max (best.1 - nerr) 0
      let end_ := min (best.1 + P.patlen + nerr) seq.length
      match goSlice seq start end_ with
      | none => .panic
      | some frg =>
        match locatePattern (P.cpat.take P.patlen) frg with
        | none => .panic
        | some (from_, to, score) =>
          .ok (start + from_, start + to, score, true)

/-! ## `complementPattern` -/

/-- `LXBioBaseComplement`: `strchr(sNuc, c)` then `sAnuc[idx]` -/
def baseComplement (c : UInt8) : UInt8 :=
  match Gen.apatDnaAlpha.idxOf? c.toNat with
  | some i => UInt8.ofNat (Gen.apatCdnaAlpha.getD i c.toNat)
  | none => c

def rd (a : Array UInt8) (i : Nat) : UInt8 := a.getD i 0

/-- write inside the string only (`none`: the C code would write on or past the terminating NUL) -/
def wr (a : Array UInt8) (i : Nat) (v : UInt8) : Option (Array UInt8) :=
  if i < a.size then some (a.setIfInBounds i v) else none

/-- the `while (*sb != ']') { *sb = *(sb+1); sb++; }` loop; returns the array and the final `sb` -/
def shiftBracket : Nat → Array UInt8 → Nat → Option (Array UInt8 × Nat)
  | 0, _, _ => none
  | fuel + 1, a, sb =>
    if sb ≥ a.size then none
    else if rd a sb != chRBr then
      match wr a sb (rd a (sb + 1)) with
      | none => none
      | some a' => shiftBracket fuel a' (sb + 1)
    else some (a, sb)

/-- `while (st > str && *st != '[') st--` -/
def backToLBr (a : Array UInt8) : Nat → Nat → Nat
  | 0, st => st
  | fuel + 1, st => if st > 0 && rd a st != chLBr then backToLBr a fuel (st - 1) else st

/-- the modifier fix-up loop of `reverseSequence(str, isPattern = 1)`: `for (; sb <= se; sb++)`, `se = len-1` -/
def fixLoop : Nat → Array UInt8 → Nat → Option (Array UInt8)
  | 0, _, _ => none
  | fuel + 1, a, sb =>
    if sb + 1 > a.size then some a          -- sb > se
    else
      let se := a.size - 1
      let c := rd a sb
      if c == chHash then
        if rd a (sb + 1) == chLBr then
          match shiftBracket (a.size + 1) a sb with
          | none => none
          | some (a1, sb1) =>
            match wr a1 sb1 chHash with
            | none => none
            | some a2 => fixLoop fuel a2 (sb1 + 1)
        else if se - sb ≥ 2 && rd a (sb + 2) == chBang then
          match wr a sb chBang with
          | none => none
          | some a1 =>
            match wr a1 (sb + 2) chHash with
            | none => none
            | some a2 => fixLoop fuel a2 (sb + 3)
        else
          match wr a sb (rd a (sb + 1)) with
          | none => none
          | some a1 =>
            match wr a1 (sb + 1) chHash with
            | none => none
            | some a2 => fixLoop fuel a2 (sb + 2)
      else if c == chBang then
        -- `st = sb-1; if (*st=='#' && st > str) st--; if (*st==']') while (st > str && *st!='[') st--;
        --  memmove(st+1, st, sb-st); *st = '!'`
        if sb == 0 then none
        else
          let st := sb - 1
          let st := if rd a st == chHash && st > 0 then st - 1 else st
          let st := if rd a st == chRBr then backToLBr a st st else st
          let l := a.toList
          fixLoop fuel (l.take st ++ chBang :: ((l.drop st).take (sb - st) ++ l.drop (sb + 1))).toArray (sb + 1)
      else fixLoop fuel a (sb + 1)

/-- `ecoComplementPattern`: complement each character, reverse, re-attach the modifiers; `none` = the C code
leaves the string (undefined behaviour) -/
def complementString (cpat : Bytes) : Option Bytes :=
  let s := (cpat.map baseComplement).reverse
  (fixLoop (s.length + 2) s.toArray 0).map Array.toList

/-- `ApatPattern.ReverseComplement` / `complementPattern`. `.ub`: the fix-up loop runs out of the string;
`.tooLong`: the re-encoded pattern has more positions than `pat->patlen`, for which `patcode` was allocated
(heap write past the array) -/
def reverseComplement (P : Pattern) : Except PatErr Pattern :=
  match complementString P.cpat with
  | none => .error .ub
  | some cpat' =>
    if !checkPattern cpat' then .error .check
    else match encodePattern cpat' with
      | none => .error .encode
      | some codes =>
        if codes.length > P.patlen then .error .tooLong
        else .ok ⟨cpat', codes, P.maxerr, P.hasIndel⟩

/-! ## the budget guard of `buildPattern` (second deepening round)

`ManberSub` / `ManberIndel` declare `patword_t r[2 * MAX_PAT_ERR + 2]` and run `for (e = 0, pr = r; e <= emax; e++, pr += 2)`
reading / writing `pr[0..3]`: the highest index touched is `2 * emax + 3`.  As repaired by
`notes/patches/C10-budget-overrun.diff`, `buildPattern` rejects `error_max >= MAX_PAT_ERR` first (the unrepaired code accepted
any budget: with 64 the search died with SIGSEGV — witness in the harness corpus, op `budget`). -/

/-- highest index of `r[]` touched by `ManberSub` / `ManberIndel` with `emax = ppat->maxerr` -/
def rMaxIndex (emax : Nat) : Nat := 2 * emax + 3

/-- number of words of `patword_t r[2 * MAX_PAT_ERR + 2]` -/
def rSize : Nat := 2 * Gen.apatMaxPatErr + 2

/-- `MakeApatPattern` / `buildPattern` as repaired: the budget test comes before the pattern is looked at -/
def makeApatPattern (pat : Bytes) (errormax : Nat) (allowsIndel : Bool) : Except PatErr Pattern :=
  if errormax ≥ Gen.apatMaxPatErr then .error .budget else compile pat errormax allowsIndel

end ObiVerif.Apat
