import ObiVerif.Model.SeqOps
/-!
# Heap model of the byte-slice pool of `pkg/obiseq` (C07)

`pkg/obiseq/pool.go` keeps a `sync.Pool` of **pointers to slice variables** (`*[]byte`).  The model keeps
exactly that: a heap of backing arrays (`bufs`), of slice *variables* (`cells`: a Go slice header or
`nil`; the three slice fields `sequence`, `qualities`, `feature` of a `BioSequence` are three
consecutive cells) and the pool as a list of cell addresses.  `sync.Pool.Get` may return any item of the
pool or none at all (then `New` runs); the model takes that decision from an oracle `ch`, and every
theorem of `Lemmas/SeqHeap*.lean` is proved for **all** oracles.

Transcribed: `RecycleSlice`, `GetSlice`, `CopySlice` (pool.go, with the `poisonSlice` of the verif
build: the model poisons too, i.e. the adversary is the strongest one), `NewBioSequence`, `SetSequence`,
`SetQualities`, `SetFeatures`, `Copy`, `Recycle`, `Write`/`WriteQualities` (biosequence.go),
`ReverseComplement` (revcomp.go), `Subsequence` (subseq.go).

Histories are *well behaved*: a name is bound once, and a recycled object is never used again
(`Recycle` unbinds the name; any later operation naming it is the error `badOp`).
-/
namespace ObiVerif.SeqHeap
open ObiVerif.SeqOps

/-- pointwise update of a total map -/
def upd {β : Type} (f : Nat → β) (i : Nat) (v : β) : Nat → β := fun j => if j = i then v else f j

/-- a non-nil Go slice header: backing array and length (the offset is always 0 here; the capacity is
the length of the backing array) -/
structure Slice where
  buf : Nat
  len : Nat

/-- a `BioSequence`: its slice fields are the cells `base` (sequence), `base+1` (qualities),
`base+2` (feature); annotations are values (deep-copied by `GetAnnotation`) -/
structure HObj where
  base : Nat
  ann : Ann

structure Heap where
  bufs : Nat → Bytes
  nbuf : Nat
  cells : Nat → Option Slice
  ncell : Nat
  /-- `_BioSequenceByteSlicePool`: addresses of slice variables -/
  pool : List Nat
  objs : String → Option HObj

def Heap.empty : Heap := ⟨fun _ => [], 0, fun _ => none, 0, [], fun _ => none⟩

/-- the bytes a slice variable shows -/
def Heap.content (h : Heap) (c : Nat) : Bytes :=
  match h.cells c with
  | some s => (h.bufs s.buf).take s.len
  | none => []

/-- `make([]byte, 0, capacity)` -/
def Heap.make (h : Heap) (capacity : Nat) : Heap × Slice :=
  ({ h with bufs := upd h.bufs h.nbuf (List.replicate capacity 0), nbuf := h.nbuf + 1 }, ⟨h.nbuf, 0⟩)

/-- `GetSlice(capacity)`; `k` is the pool's decision: item `k` of the pool, or `New()` when there is
no such item (`New` makes a slice of capacity 300) -/
def Heap.getSlice (h : Heap) (capacity k : Nat) : Heap × Slice :=
  if capacity ≤ 1024 then
    match h.pool[k]? with
    | some p =>
      let h1 := { h with pool := h.pool.erase p }
      match h.cells p with
      | some s => if (h.bufs s.buf).length < capacity then h1.make capacity else (h1, s)
      | none => h1.make capacity                              -- `*p == nil`
    | none => h.make (if capacity ≤ 300 then 300 else capacity)
  else h.make capacity

/-- `copy(l[off:], src)` for `off + len(src) ≤ len(l)` -/
def writeAt (l : Bytes) (off : Nat) (src : Bytes) : Bytes := l.take off ++ src ++ l.drop (off + src.length)

/-- `CopySlice(src)` -/
def Heap.copySlice (h : Heap) (src : Bytes) (k : Nat) : Heap × Slice :=
  let r := h.getSlice src.length k
  ({ r.1 with bufs := upd r.1.bufs r.2.buf (writeAt (r.1.bufs r.2.buf) 0 src) }, ⟨r.2.buf, src.length⟩)

/-- `RecycleSlice(&cell c)`: poison, truncate, and put the **address** `c` into the pool when the
capacity is in `1..1024` -/
def Heap.recycleSlice (h : Heap) (c : Nat) : Heap :=
  match h.cells c with
  | some s =>
    let cap := (h.bufs s.buf).length
    if cap > 0 then
      let h1 := { h with bufs := upd h.bufs s.buf (List.replicate cap 0xDB),
                         cells := upd h.cells c (some ⟨s.buf, 0⟩) }
      if cap ≤ 1024 then { h1 with pool := c :: h1.pool } else h1
    else h
  | none => h

/-- `cell c = CopySlice(src)` -/
def Heap.storeCopy (h : Heap) (c : Nat) (src : Bytes) (k : Nat) : Heap :=
  let r := h.copySlice src k
  { r.1 with cells := upd r.1.cells c (some r.2) }

/-- in-place rewriting of the bytes a slice variable shows (`f` keeps the length) -/
def Heap.mapContent (h : Heap) (c : Nat) (f : Bytes → Bytes) : Heap :=
  match h.cells c with
  | some s => { h with bufs := upd h.bufs s.buf (f ((h.bufs s.buf).take s.len) ++ (h.bufs s.buf).drop s.len) }
  | none => h

/-- `old := cell c; cell c = nil; RecycleSlice(&old)` — the slice leaves the object before its
address-taken copy `old` (a fresh variable) goes to the pool -/
def Heap.detachRecycle (h : Heap) (c : Nat) : Heap :=
  let h1 := { h with cells := upd (upd h.cells h.ncell (h.cells c)) c none, ncell := h.ncell + 1 }
  h1.recycleSlice h.ncell

/-- `cell c = append(cell c, data...)`; when the capacity does not suffice the Go runtime allocates a
new array whose spare capacity `g` it chooses -/
def Heap.appendCell (h : Heap) (c : Nat) (data : Bytes) (g : Nat) : Heap :=
  match h.cells c with
  | some s =>
    if s.len + data.length ≤ (h.bufs s.buf).length then
      { h with bufs := upd h.bufs s.buf (writeAt (h.bufs s.buf) s.len data),
               cells := upd h.cells c (some ⟨s.buf, s.len + data.length⟩) }
    else
      { h with bufs := upd h.bufs h.nbuf ((h.bufs s.buf).take s.len ++ data ++ List.replicate g 0),
               nbuf := h.nbuf + 1,
               cells := upd h.cells c (some ⟨h.nbuf, s.len + data.length⟩) }
  | none =>
    if data.isEmpty then h else
      { h with bufs := upd h.bufs h.nbuf (data ++ List.replicate g 0), nbuf := h.nbuf + 1,
               cells := upd h.cells c (some ⟨h.nbuf, data.length⟩) }

/-- `cell c = s` where `s` is a slice the caller made (`SetFeatures(feature)`): a new array holding
`data`, spare capacity `g` -/
def Heap.assignFresh (h : Heap) (c : Nat) (data : Bytes) (g : Nat) : Heap :=
  { h with bufs := upd h.bufs h.nbuf (data ++ List.replicate g 0), nbuf := h.nbuf + 1,
           cells := upd h.cells c (some ⟨h.nbuf, data.length⟩) }

/-- `NewEmptyBioSequence(0)` bound to the (fresh) name `b`: three nil slice fields -/
def Heap.newObj (h : Heap) (b : String) (ann : Ann) : Heap :=
  { h with objs := fun n => if n = b then some ⟨h.ncell, ann⟩ else h.objs n, ncell := h.ncell + 3 }

/-- `b := oa.Copy()` -/
def Heap.copyObj (h : Heap) (oa : HObj) (b : String) (ch : Nat → Nat) : Heap :=
  let nb := h.ncell
  let h0 := h.newObj b oa.ann
  let h1 := h0.storeCopy nb (h0.content oa.base) (ch 0)
  let h2 := h1.storeCopy (nb + 1) (h1.content (oa.base + 1)) (ch 1)
  h2.storeCopy (nb + 2) (h2.content (oa.base + 2)) (ch 2)

/-- the two in-place loops of `ReverseComplement` on the object at `base` (`HasQualities` = the
qualities are not empty) -/
def Heap.rcInPlace (h : Heap) (base : Nat) : Heap :=
  let h1 := h.mapContent base revcompInPlace
  if h1.content (base + 1) ≠ [] then h1.mapContent (base + 1) reverseInPlace else h1

/-- the checks and the normalisation of `from`, `to` of `Subsequence` (same `if` chain as
`SeqOps.subsequence`, see `Lemmas/SeqHeap.lean: subsequence_eq_window`) -/
def subWindow (n : Nat) (from_ to : Int) (circular : Bool) : Except SubErr (Nat × Nat) :=
  let len : Int := n
  if from_ ≥ to && !circular then .error .fromGeTo
  else if from_ < 0 then .error .fromNeg
  else if from_ ≥ len && !circular then .error .fromOut
  else if len = 0 then .error .panic
  else
    let from_ := Int.tmod from_ len
    if to > len && !circular then .error .toOut
    else
      let to := Int.tmod (to - 1) len + 1
      if to < 0 then .error .panic
      else .ok (from_.toNat, to.toNat)

/-- `SetQualities(q)` on the object at `base` (as repaired: the old slice is detached before it is recycled) -/
def Heap.setQualities (h : Heap) (base : Nat) (q : Bytes) (k : Nat) : Heap :=
  let h1 := if (h.cells (base + 1)).isSome then h.detachRecycle (base + 1) else h
  h1.storeCopy (base + 1) q k

/-- `SetFeatures(f)` (as repaired); `g` = spare capacity of the caller's slice -/
def Heap.setFeatures (h : Heap) (base : Nat) (f : Bytes) (g : Nat) : Heap :=
  let big := match h.cells (base + 2) with
    | some s => decide ((h.bufs s.buf).length ≥ 300)
    | none => false
  let h1 := if big then h.detachRecycle (base + 2) else h
  h1.assignFresh (base + 2) f g

/-- `SetFeatures(f)` **as it was** before the repair (`RecycleSlice(&s.feature); s.feature = feature`):
the pool keeps the address of the live field.  Kept to state the counterexample
`Lemmas/SeqHeap.lean: setFeaturesOld_breaks`. -/
def Heap.setFeaturesOld (h : Heap) (base : Nat) (f : Bytes) (g : Nat) : Heap :=
  let big := match h.cells (base + 2) with
    | some s => decide ((h.bufs s.buf).length ≥ 300)
    | none => false
  let h1 := if big then h.recycleSlice (base + 2) else h
  h1.assignFresh (base + 2) f g

/-- `RecycleSlice(&cell x); cell x = nil` -/
def Heap.rstep (h : Heap) (x : Nat) : Heap :=
  let h1 := h.recycleSlice x
  { h1 with cells := upd h1.cells x none }

/-- `Recycle()` **as it was** (`RecycleSlice(&sequence.sequence); sequence.sequence = nil`, …): each
field's own address went to the pool and the field was set to nil afterwards, so the pooled variable
showed nil and its array was never handed out again.  Kept for reference
(`Lemmas/SeqHeapOps.lean: rstep_loose`). -/
def Heap.recycleObjOld (h : Heap) (a : String) (base : Nat) : Heap :=
  let h0 : Heap := { h with objs := fun n => if n = a then none else h.objs n }
  ((h0.rstep base).rstep (base + 2)).rstep (base + 1)

/-- the name `a` is unbound (no use after `Recycle`) -/
def Heap.unbind (h : Heap) (a : String) : Heap :=
  { h with objs := fun n => if n = a then none else h.objs n }

/-- `Recycle()` as it is now (biosequence.go: `seq, feature, qualities := s.sequence, s.feature,
s.qualities; s.sequence, s.feature, s.qualities = nil, nil, nil; RecycleSlice(&seq);
RecycleSlice(&feature); RecycleSlice(&qualities)`): every slice moves to a local variable whose address
goes to the pool — the pooled variable shows the truncated slice, so a later `GetSlice` **does** hand the
array of the recycled object out again (order: sequence, feature, qualities).  The name is unbound. -/
def Heap.recycleObj (h : Heap) (a : String) (base : Nat) : Heap :=
  (((h.detachRecycle base).detachRecycle (base + 2)).detachRecycle (base + 1)).unbind a

/-- `buf := GetSlice(n); …fill…; RecycleSlice(&buf)` as `obialign` does with its scratch buffers -/
def Heap.scratch (h : Heap) (n : Nat) (fill : UInt8) (k : Nat) : Heap :=
  let r := h.getSlice n k
  let h1 := { r.1 with bufs := upd r.1.bufs r.2.buf (writeAt (r.1.bufs r.2.buf) 0 (List.replicate n fill)),
                       cells := upd r.1.cells r.1.ncell (some ⟨r.2.buf, n⟩), ncell := r.1.ncell + 1 }
  h1.recycleSlice r.1.ncell

inductive HOp
  | new (a : String) (s : Bytes) (q : Option Bytes)
  | copy (a b : String)
  | rc (a b : String)
  | rci (a : String)
  | sub (a b : String) (f t : Int) (circ : Bool)
  | set (a : String) (p : Nat) (v : UInt8)
  | recycle (a : String)
  | mapset (a key k : String) (v : Int)
  | setqual (a : String) (q : Bytes)
  | setfeat (a : String) (f : Bytes) (g : Nat)
  | scratch (n : Nat) (fill : UInt8)

/-- the only object an operation may change, create or destroy (`scratch` has none) -/
def HOp.target : HOp → Option String
  | .new a _ _ => some a | .copy _ b => some b | .rc _ b => some b | .rci a => some a
  | .sub _ b _ _ _ => some b | .set a _ _ => some a | .recycle a => some a | .mapset a _ _ _ => some a
  | .setqual a _ => some a | .setfeat a _ _ => some a | .scratch _ _ => none

/-- a window of the bytes of a slice variable, `[fr, to)` -/
def win (l : Bytes) (fr to : Nat) : Bytes := (l.drop fr).take (to - fr)

/-- qualities given to `new` must be non-empty and as long as the sequence -/
def badQual (q : Option Bytes) (n : Nat) : Bool :=
  match q with
  | some qb => qb.isEmpty || qb.length != n
  | none => false

/-- one operation on the heap; `ch i` is the pool's `i`-th decision during the operation
(`ch 8`, `ch 9`: spare capacities chosen by `append`) -/
def step (h : Heap) (ch : Nat → Nat) : HOp → Except HErr Heap
  | .new a s q =>
    match h.objs a with
    | some _ => .error .badOp
    | none =>
      if badQual q s.length then .error .badOp else
      let nb := h.ncell
      let h1 := (h.newObj a []).storeCopy nb (s.map lower) (ch 0)
      match q with
      | some qb => .ok (h1.setQualities nb qb (ch 1))
      | none => .ok h1
  | .copy a b =>
    match h.objs a, h.objs b with
    | some oa, none => .ok (h.copyObj oa b ch)
    | _, _ => .error .badOp
  | .rc a b =>
    match h.objs a, h.objs b with
    | some oa, none => .ok ((h.copyObj oa b ch).rcInPlace h.ncell)
    | _, _ => .error .badOp
  | .rci a =>
    match h.objs a with
    | some oa => .ok (h.rcInPlace oa.base)
    | none => .error .badOp
  | .sub a b f t c =>
    match h.objs a, h.objs b with
    | some oa, none =>
      match subWindow (h.content oa.base).length f t c with
      | .error .panic => .error .panic
      | .error _ => .ok h
      | .ok (fr, to) =>
        let nb := h.ncell
        let h0 := h.newObj b oa.ann
        -- `from < to`: one window; otherwise `Subsequence(from, len, false)` followed by `Write(seq[0:to])`
        let e := if fr < to then to else (h.content oa.base).length
        let h1 := h0.storeCopy nb (win (h0.content oa.base) fr e) (ch 0)
        let h2 := if h1.content (oa.base + 1) ≠ [] then
            h1.storeCopy (nb + 1) (win (h1.content (oa.base + 1)) fr e) (ch 1) else h1
        if fr < to then .ok h2
        else
          let h3 := h2.appendCell nb ((h2.content oa.base).take to) (ch 8)
          .ok (if h3.content (oa.base + 1) ≠ [] then
            h3.appendCell (nb + 1) ((h3.content (oa.base + 1)).take to) (ch 9) else h3)
    | _, _ => .error .badOp
  | .set a p v =>
    match h.objs a with
    | some oa => .ok (h.mapContent oa.base (fun l => if p < l.length then l.set p v else l))
    | none => .error .badOp
  | .recycle a =>
    match h.objs a with
    | some oa => .ok (h.recycleObj a oa.base)
    | none => .error .badOp
  | .mapset a key k v =>
    match h.objs a with
    | some oa => .ok { h with objs := fun n => if n = a then some ⟨oa.base, annSet oa.ann key k v⟩ else h.objs n }
    | none => .error .badOp
  | .setqual a q =>
    match h.objs a with
    | some oa =>
      if q = [] ∨ q.length ≠ (h.content oa.base).length then .error .badOp
      else .ok (h.setQualities oa.base q (ch 0))
    | none => .error .badOp
  | .setfeat a f g =>
    match h.objs a with
    | some oa => .ok (h.setFeatures oa.base f g)
    | none => .error .badOp
  | .scratch n fill => .ok (h.scratch n fill (ch 0))

/-- a whole history; the oracle of step `i` is `ch i` -/
def run (h : Heap) (ch : Nat → Nat → Nat) : Nat → List HOp → Except HErr Heap
  | _, [] => .ok h
  | i, op :: ops => match step h (ch i) op with
    | .ok h1 => run h1 ch (i + 1) ops
    | .error e => .error e

/-! ## What can be observed of an object, and the value semantics the heap is proved to implement -/

structure OV where
  seq : Bytes
  qual : Bytes
  feat : Bytes
  ann : Ann

def Heap.view (h : Heap) (n : String) : Option OV :=
  (h.objs n).map fun o => ⟨h.content o.base, h.content (o.base + 1), h.content (o.base + 2), o.ann⟩

abbrev VStore := String → Option OV

def vput (v : VStore) (a : String) (o : Option OV) : VStore := fun n => if n = a then o else v n

/-- value semantics: objects are values, an operation is a function of the values -/
def vstep (v : VStore) : HOp → Except HErr VStore
  | .new a s q =>
    match v a with
    | some _ => .error .badOp
    | none =>
      if badQual q s.length then .error .badOp else
      .ok (vput v a (some ⟨s.map lower, q.getD [], [], []⟩))
  | .copy a b =>
    match v a, v b with
    | some oa, none => .ok (vput v b (some oa))
    | _, _ => .error .badOp
  | .rc a b =>
    match v a, v b with
    | some oa, none => .ok (vput v b (some ⟨revcompInPlace oa.seq, reverseInPlace oa.qual, oa.feat, oa.ann⟩))
    | _, _ => .error .badOp
  | .rci a =>
    match v a with
    | some oa => .ok (vput v a (some ⟨revcompInPlace oa.seq, reverseInPlace oa.qual, oa.feat, oa.ann⟩))
    | none => .error .badOp
  | .sub a b f t c =>
    match v a, v b with
    | some oa, none =>
      match subWindow oa.seq.length f t c with
      | .error .panic => .error .panic
      | .error _ => .ok v
      | .ok (fr, to) =>
        let cut := fun (l : Bytes) => if fr < to then win l fr to else win l fr oa.seq.length ++ l.take to
        .ok (vput v b (some ⟨cut oa.seq, cut oa.qual, [], oa.ann⟩))
    | _, _ => .error .badOp
  | .set a p v' =>
    match v a with
    | some oa => .ok (vput v a (some ⟨if p < oa.seq.length then oa.seq.set p v' else oa.seq, oa.qual, oa.feat, oa.ann⟩))
    | none => .error .badOp
  | .recycle a =>
    match v a with
    | some _ => .ok (vput v a none)
    | none => .error .badOp
  | .mapset a key k x =>
    match v a with
    | some oa => .ok (vput v a (some ⟨oa.seq, oa.qual, oa.feat, annSet oa.ann key k x⟩))
    | none => .error .badOp
  | .setqual a q =>
    match v a with
    | some oa =>
      if q = [] ∨ q.length ≠ oa.seq.length then .error .badOp
      else .ok (vput v a (some ⟨oa.seq, q, oa.feat, oa.ann⟩))
    | none => .error .badOp
  | .setfeat a f _ =>
    match v a with
    | some oa => .ok (vput v a (some ⟨oa.seq, oa.qual, f, oa.ann⟩))
    | none => .error .badOp
  | .scratch _ _ => .ok v

def vrun (v : VStore) : List HOp → Except HErr VStore
  | [] => .ok v
  | op :: ops => match vstep v op with
    | .ok v1 => vrun v1 ops
    | .error e => .error e

end ObiVerif.SeqHeap
