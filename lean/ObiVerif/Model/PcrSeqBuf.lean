import ObiVerif.Model.Apat
/-!
# C11 model, third part: the C sequence buffer `_PCRSlice` recycles from one template to the next

`_PCRSlice` (`pkg/obiapat/pcr.go`) builds one `ApatSequence` for the first template and hands it back to
`MakeApatSequence(sequence, circular, seq)` for each following one: `new_apatseq` (`pkg/obiapat/obiapat.c`) keeps the C
structure, reallocates the data buffer only when the new sequence does not fit (`(seqlen + circular) >= datsiz`), and
`EncodeSequence` overwrites the first `seqlen + circular` codes and empties the hit stacks.  What lies behind is left over
from earlier templates.  The three automata scan `data[begin .. min(begin + length, seqlen + circular))` (`windowC`) and
empty the hit stack of the pattern slot before they start, so nothing of an earlier template can be seen: `Lemmas/PcrMore.lean`
(`windowC_newApatSeq`) — this is why the batch is a `map` over the templates in `Model/Pcr.lean`.
-/
namespace ObiVerif.Pcr
open ObiVerif ObiVerif.Apat

/-- the part of the C `Seq` that is recycled: the data buffer (`datsiz` codes), `seqlen`, `circular` -/
structure CSeq where
  data : List Nat
  seqlen : Nat
  circular : Nat
  deriving Repr, DecidableEq

/-- `new_apatseq(in, circular, seqlen, out)` + `EncodeSequence`: `out = none` is a fresh structure -/
def newApatSeq (out : Option CSeq) (seq : Bytes) (circ : Bool) : CSeq :=
  let c := if circ then min seq.length Gen.apatMaxPatLen else 0
  let d := seq.map encodeByte
  let written := d ++ d.take c
  let data :=
    match out with
    | none => written                      -- malloc of seqlen + circular codes, all written
    | some o =>
      if written.length ≥ o.data.length then written     -- (seqlen + circular) >= datsiz: realloc, all written
      else written ++ o.data.drop written.length       -- the buffer is kept: what lies behind is left over
  ⟨data, seq.length, c⟩

/-- what the automata scan: `data[begin .. min(begin + length, seqlen + circular))` -/
def windowC (s : CSeq) (begin length : Nat) : List Nat :=
  (s.data.drop begin).take (min (begin + length) (s.seqlen + s.circular) - begin)

/-- the chain of `_PCRSlice`: the structure after each template of the batch -/
def recycleChain (circ : Bool) : Option CSeq → List Bytes → List CSeq
  | _, [] => []
  | out, t :: ts => let s := newApatSeq out t circ; s :: recycleChain circ (some s) ts

end ObiVerif.Pcr
