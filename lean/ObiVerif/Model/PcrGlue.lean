import ObiVerif.Model.PcrAnnot
/-!
# C11 model, glue: `obipcr` from its command line down to `_PCRSlice`

Transcription of what lies between the user and the kernel (`pkg/obitools/obipcr/options.go`, `pkg/obitools/obipcr/pcr.go`,
`MakeOptions` and the `Option*` setters of `pkg/obiapat/pcr.go`):

1. `readArgv` / `parse` — the words of the command line (`--name value`, `--name=value`, `-x value`, flags) fill the nine
   package variables `_Circular … _OnlyFull` (`Vars`), whose built-in values are `Vars.default` (`-l 0`, `-L -1`, `-D -1`);
   `--forward`, `--reverse`, `-L` are `Required`: the parser refuses a command line without them.
2. the getters: `CLIWithExtension = _Delta >= 0`; `CLIForwardPrimer` / `CLIReversePrimer` compile the string with the budget
   `-e` (`log.Fatalf` when it does not compile) and return the STRING.
3. `cliSetters` — the list of `WithOption` `CLIPCR` builds, in its order; `makeOptions` — `MakeOptions`: the built-in
   `_Options` (`minLength 0`, `maxLength 0`, `extension -1`, …) then every setter in turn.
4. NO pre-filter: `cliCommand` hands EVERY template to the worker (`ts.map`), whatever its length.
5. the fragmenting decision (`cliPieces` of `Model/PcrAnnot.lean`: parameters from `-L`, `-D` and the lengths of the primer
   STRINGS) and `_PCRSlice` over the pieces (`cliRun`).
-/
namespace ObiVerif.Pcr
open ObiVerif ObiVerif.Apat

/-- the package variables of `options.go` -/
structure Vars where
  circular : Bool
  forward : Bytes
  reverse : Bytes
  mismatch : Int
  minLength : Int
  maxLength : Int
  fragmented : Bool
  delta : Int
  onlyFull : Bool
  deriving Repr, DecidableEq

/-- their initial values (`var _MaximumLength = -1`, `var _Delta = -1`, …) -/
def Vars.default : Vars := ⟨false, [], [], 0, 0, -1, false, -1, false⟩

/-- one option of the command line with its value -/
inductive Arg
  | forward (s : Bytes) | reverse (s : Bytes) | mismatch (n : Int) | minLength (n : Int) | maxLength (n : Int) | delta (n : Int)
  | onlyFull | circular | fragmented
  deriving Repr, DecidableEq

/-- what the parser does with one option (`StringVar` / `IntVar`: the value; `BoolVar` declared `false`: set) -/
def Vars.set (v : Vars) : Arg → Vars
  | .forward s => { v with forward := s }
  | .reverse s => { v with reverse := s }
  | .mismatch n => { v with mismatch := n }
  | .minLength n => { v with minLength := n }
  | .maxLength n => { v with maxLength := n }
  | .delta n => { v with delta := n }
  | .onlyFull => { v with onlyFull := true }
  | .circular => { v with circular := true }
  | .fragmented => { v with fragmented := true }

def Arg.isForward : Arg → Bool | .forward _ => true | _ => false
def Arg.isReverse : Arg → Bool | .reverse _ => true | _ => false
def Arg.isMaxLength : Arg → Bool | .maxLength _ => true | _ => false

/-- the parser on the options of a command line: `none` = refused (`Required` option missing) -/
def parse (args : List Arg) : Option Vars :=
  if args.any Arg.isForward && args.any Arg.isReverse && args.any Arg.isMaxLength then some (args.foldl Vars.set Vars.default)
  else none

/-! ### the words of the command line -/

inductive Words
  | ok (args : List Arg)
  /-- a value is missing or is not an integer -/
  | refused
  /-- a word the generator never writes (unknown option, option given twice, a value that looks like an option) -/
  | unsupported
  deriving Repr, DecidableEq

/-- the option a word names, with the value written after `=` -/
def optOf (w : String) : Option (String × Option String) :=
  if w.startsWith "--" then
    match (w.drop 2).toString.splitOn "=" with
    | [name] => some (name, none)
    | name :: rest => some (name, some ("=".intercalate rest))
    | [] => none
  else if w.length == 2 && w.startsWith "-" then
    match (w.drop 1).toString with
    | "e" => some ("allowed-mismatches", none)
    | "l" => some ("min-length", none)
    | "L" => some ("max-length", none)
    | "D" => some ("delta", none)
    | "c" => some ("circular", none)
    | _ => none
  else none

def strBytes (s : String) : Bytes := s.toUTF8.toList

/-- the option `name` with the value `val` -/
def argOf (name val : String) : Option (Option Arg) :=
  let int (f : Int → Arg) : Option (Option Arg) := some ((val.toInt?).map f)
  match name with
  | "forward" => some (some (.forward (strBytes val)))
  | "reverse" => some (some (.reverse (strBytes val)))
  | "allowed-mismatches" => int .mismatch
  | "min-length" => int .minLength
  | "max-length" => int .maxLength
  | "delta" => int .delta
  | _ => none

def flagOf (name : String) : Option Arg :=
  match name with
  | "only-complete-flanking" => some .onlyFull
  | "circular" => some .circular
  | "fragmented" => some .fragmented
  | _ => none

/-- the words one after the other; `seen`: the options met so far (an option is written once) -/
def readWords : Nat → List String → List String → List Arg → Words
  | 0, _, _, _ => .unsupported
  | _ + 1, [], _, acc => .ok acc.reverse
  | fuel + 1, w :: rest, seen, acc =>
    match optOf w with
    | none => .unsupported
    | some (name, inline) =>
      if seen.contains name then .unsupported
      else
        match flagOf name with
        | some a => if inline.isSome then .unsupported else readWords fuel rest (name :: seen) (a :: acc)
        | none =>
          if (argOf name "0").isNone then .unsupported
          else
            let next (val : String) (rest : List String) : Words :=
              if val.isEmpty then .unsupported
              else
                match argOf name val with
                | some (some a) => readWords fuel rest (name :: seen) (a :: acc)
                | some none => .refused
                | none => .unsupported
            match inline with
            | some val => next val rest
            | none =>
              match rest with
              | [] => .refused
              | val :: rest' => if val.startsWith "-" then .unsupported else next val rest'

def readArgv (argv : List String) : Words := readWords (argv.length + 1) argv [] []

/-! ### the getters and the option list of `CLIPCR` -/

/-- `CLIWithExtension` -/
def Vars.withExtension (v : Vars) : Bool := v.delta ≥ 0

/-- the `_Options` fields `MakeOptions` initialises and `_Pcr` reads; `forward` / `reverse`: the string and the budget given
to `MakeApatPattern` (`none`: `NilApatPattern`) -/
structure ApatOptions where
  minLength : Int
  maxLength : Int
  forwardError : Int
  reverseError : Int
  extension : Int
  fullExtension : Bool
  circular : Bool
  forward : Option Bytes
  reverse : Option Bytes
  deriving Repr, DecidableEq

/-- the literal of `MakeOptions` -/
def ApatOptions.default : ApatOptions := ⟨0, 0, 0, 0, -1, false, false, none, none⟩

/-- the `Option*` functions of `pkg/obiapat/pcr.go` -/
inductive Setter
  | forwardPrimer (s : Bytes) (e : Int) | reversePrimer (s : Bytes) (e : Int) | onlyFullExtension (b : Bool)
  | minLength (n : Int) | withExtension (n : Int) | maxLength (n : Int) | circular (b : Bool)
  deriving Repr, DecidableEq

def Setter.apply (o : ApatOptions) : Setter → ApatOptions
  | .forwardPrimer s e => { o with forward := some s, forwardError := e }
  | .reversePrimer s e => { o with reverse := some s, reverseError := e }
  | .onlyFullExtension b => { o with fullExtension := b }
  | .minLength n => { o with minLength := n }
  | .withExtension n => { o with extension := n }
  | .maxLength n => { o with maxLength := n }
  | .circular b => { o with circular := b }

/-- `MakeOptions(setters)` -/
def makeOptions (l : List Setter) : ApatOptions := l.foldl Setter.apply ApatOptions.default

/-- the `opts` slice of `CLIPCR`, in its order -/
def cliSetters (v : Vars) : List Setter :=
  [.forwardPrimer v.forward v.mismatch, .reversePrimer v.reverse v.mismatch, .onlyFullExtension v.onlyFull] ++
  (if v.minLength > 0 then [.minLength v.minLength] else []) ++
  (if v.withExtension then [.withExtension v.delta] else []) ++
  [.maxLength v.maxLength] ++
  (if v.circular then [.circular v.circular] else [])

/-- what `_Pcr` reads of them -/
def ApatOptions.opts (o : ApatOptions) : Opts := ⟨o.minLength, o.maxLength, o.circular, o.extension, o.fullExtension⟩

/-- `CLIPCR` on one (lower-cased) template with the options of `cliSetters`: the fragmenting decision (`cliPieces`: `-L`, `-D`
and the lengths of the primer STRINGS), then `_PCRSlice` over the cuts -/
def cliRunV (P : Primers) (v : Vars) (t : Bytes) : Option (Except Bad (List ((Nat × Nat) × List Amplicon))) :=
  match cliPieces v.maxLength v.forward.length v.reverse.length v.delta v.circular v.fragmented t.length with
  | none => none
  | some frs => some (pcrCuts P (makeOptions (cliSetters v)).opts t (cutsOf t.length frs))

/-- **the command** on the templates `ts`: `none` = a primer string does not compile (`log.Fatalf` in `CLIForwardPrimer` /
`OptionForwardPrimer`); otherwise one entry per template, in order — there is NO pre-filter: every template, whatever its
length, goes to the worker. -/
def cliCommand (v : Vars) (ts : List Bytes) : Option (List (Option (Except Bad (List ((Nat × Nat) × List Amplicon))))) :=
  let o := makeOptions (cliSetters v)
  match o.forward, o.reverse with
  | some f, some r =>
    match mkPrimers f r o.forwardError.toNat o.reverseError.toNat with
    | none => none
    | some P => some (ts.map (cliRunV P v))
  | _, _ => none

end ObiVerif.Pcr
