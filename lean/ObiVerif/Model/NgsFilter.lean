import ObiVerif.Model.Demux
/-!
# Model of the sample-sheet reader (C12)

Transcription of the *semantic* part of `pkg/obiformats/ngsfilter_read.go`
(`ReadNGSFilter`, `ReadCSVNGSFilter`, `ReadOldNGSFilter`, `_parseMainNGSFilter(Tags)`, the table
`library_parameter` of the `@param` lines, `NGSFilterCsvDetector`) and of the setters of
`pkg/obingslibrary/ngslibrary.go` / `marker.go` (`GetMarker`, `GetPCR`, `Set…`, `Set…For`,
`normalizeTagDelimiter`, `CheckPrimerUnicity`, `CheckTagLength`).

Input of the model: for the CSV format the **records** as `encoding/csv` delivers them (list of
fields; quoting, comments, blank lines and `TrimLeadingSpace` are the CSV reader's business and are
exercised, not modelled); for the old format the **lines** of the file.  `log.Fatal…` is the outcome
`fatal`, an index out of range the outcome `panic`, a returned error the outcome `sheetError`.
Go maps are lists in insertion order (the dump sorts them; no result depends on the order).
Text is ASCII (Go's `strings.ToLower` / `strings.Fields` are Unicode aware, the model is not).
-/
namespace ObiVerif.NgsFilter

open ObiVerif.Demux (Mode Sample Annots checkTagLength primerUnicity)
open ObiVerif.SeqOps (Bytes)

inductive Out | sheetError | fatal | panic
  deriving DecidableEq, Repr

abbrev M (α : Type) := Except Out α

/-- a marker of the library (`obingslibrary.Marker` without the compiled patterns) -/
structure LMarker where
  fp : String
  rp : String
  fsp : Int := 0
  rsp : Int := 0
  fdl : UInt8 := 0
  rdl : UInt8 := 0
  fin : Int := 0
  rin : Int := 0
  fmode : Mode := .strict
  rmode : Mode := .strict
  ferr : Int := 2
  rerr : Int := 2
  fpi : Bool := false
  rpi : Bool := false
  samples : List Sample := []
  deriving Repr

abbrev Lib := List LMarker

def lower (s : String) : String := s.map Char.toLower

def bytesOf (s : String) : Bytes := s.toList.map (fun c => UInt8.ofNat c.toNat)

/-- `strconv.Atoi`: optional sign, at least one decimal digit, nothing else, fits in 64 bits -/
def goAtoi (s : String) : Option Int :=
  let cs := s.toList
  let (neg, ds) := match cs with
    | '-' :: r => (true, r)
    | '+' :: r => (false, r)
    | r => (false, r)
  if ds.isEmpty ∨ !ds.all Char.isDigit then none
  else
    let v : Nat := ds.foldl (fun acc c => acc * 10 + (c.toNat - 48)) 0
    if neg then (if v ≤ 9223372036854775808 then some (-(v : Int)) else none)
    else (if v ≤ 9223372036854775807 then some (v : Int) else none)

/-- `_parseMainNGSFilterTags` -/
def parseTags (t : String) : String × String :=
  match t.splitOn ":" with
  | a :: b :: _ => (lower (if a = "-" then "" else a), lower (if b = "-" then "" else b))
  | [x] => (lower x, lower x)
  | [] => ("", "")

/-- `GetMarker` + `GetPCR` + filling the PCR: `none` = "tag pair used more than once" -/
def addRow (lib : Lib) (fp rp : String) (tags : String × String) (exp smp : String)
    (ann : Annots) : Option Lib :=
  let fp := lower fp
  let rp := lower rp
  let s : Sample := ⟨bytesOf tags.1, bytesOf tags.2, smp, exp, ann⟩
  let dup (m : LMarker) : Bool := m.samples.any (fun x => x.ftag = s.ftag && x.rtag = s.rtag)
  if lib.any (fun m => m.fp = fp && m.rp = rp) then
    if lib.any (fun m => m.fp = fp && m.rp = rp && dup m) then none
    else some (lib.map (fun m => if m.fp = fp && m.rp = rp then { m with samples := m.samples ++ [s] } else m))
  else some (lib ++ [{ fp := fp, rp := rp, samples := [s] }])

/-- `normalizeTagDelimiter`: `none` = `log.Fatalf` -/
def normDelim (d : UInt8) : Option UInt8 :=
  if d = 48 ∨ d = 0 then some 0
  else
    let d := if 65 ≤ d ∧ d ≤ 90 then d - 65 + 97 else d
    if d = 97 ∨ d = 99 ∨ d = 103 ∨ d = 116 then some d else none

/-- which parameter of a marker a setter writes -/
inductive Field | spacer | delim | tagIndels | mismatches | indels
  deriving DecidableEq, Repr

/-- a typed parameter value -/
inductive Val | int (v : Int) | byte (b : UInt8) | bool (b : Bool)
  deriving DecidableEq, Repr

/-- `marker.SetForward…` / `SetReverse…` (`fwd` = forward side); the delimiter is normalised
(`none` = fatal) -/
def setSide (m : LMarker) (fld : Field) (fwd : Bool) (v : Val) : Option LMarker :=
  match fld, v with
  | .spacer, .int x => some (if fwd then { m with fsp := x } else { m with rsp := x })
  | .tagIndels, .int x => some (if fwd then { m with fin := x } else { m with rin := x })
  | .mismatches, .int x => some (if fwd then { m with ferr := x } else { m with rerr := x })
  | .indels, .bool x => some (if fwd then { m with fpi := x } else { m with rpi := x })
  | .delim, .byte b =>
    match normDelim b with
    | some d => some (if fwd then { m with fdl := d } else { m with rdl := d })
    | none => none
  | _, _ => some m

/-- `library.SetForward…` / `SetReverse…`: every marker -/
def setAll (lib : Lib) (fld : Field) (fwd : Bool) (v : Val) : M Lib :=
  match lib.mapM (fun m => setSide m fld fwd v) with
  | some l => .ok l
  | none => .error .fatal

/-- `library.Set…For(primer, …)`: `Primers[lower primer]` gives the pair of the marker using that
primer (after `CheckPrimerUnicity`: exactly one marker, as forward or as reverse primer); the side
is the forward one iff the primer is the forward primer of that pair -/
def setFor (lib : Lib) (fld : Field) (primer : String) (v : Val) : M Lib :=
  let p := lower primer
  match lib.find? (fun m => m.fp = p || m.rp = p) with
  | none => .ok lib
  | some owner =>
    let fwd := p = owner.fp
    match lib.mapM (fun m => if m.fp = owner.fp && m.rp = owner.rp then setSide m fld fwd v else some m) with
    | some l => .ok l
    | none => .error .fatal

def parseMode : String → Option Mode
  | "strict" => some .strict | "hamming" => some .hamming | "indel" => some .indel | _ => none

/-- `[]byte(v)[0]` -/
def firstByte (v : String) : M Val :=
  match (v.toUTF8.toList : List UInt8) with
  | b :: _ => .ok (.byte b)
  | [] => .error .panic

def atoiOrFatal (v : String) : M Val :=
  match goAtoi v with
  | some x => .ok (.int x)
  | none => .error .fatal

/-- the three shapes of the entries of `library_parameter`: `both` = `name` (1 value: every marker,
both sides; 2 values: the side of one primer), `fwd` / `rev` = `forward_name` / `reverse_name`
(exactly 1 value) -/
inductive Scope | both | fwd | rev
  deriving DecidableEq, Repr

structure PSpec where
  fld : Field
  scope : Scope
  /-- more than two values are `log.Fatalln` (`tag_indels` has no `default:` branch) -/
  strict : Bool := true

/-- the table `library_parameter` (except `matching`) -/
def paramSpec : String → Option PSpec
  | "spacer" => some ⟨.spacer, .both, true⟩
  | "forward_spacer" => some ⟨.spacer, .fwd, true⟩
  | "reverse_spacer" => some ⟨.spacer, .rev, true⟩
  | "tag_delimiter" => some ⟨.delim, .both, true⟩
  | "forward_tag_delimiter" => some ⟨.delim, .fwd, true⟩
  | "reverse_tag_delimiter" => some ⟨.delim, .rev, true⟩
  | "primer_mismatches" => some ⟨.mismatches, .both, true⟩
  | "forward_mismatches" => some ⟨.mismatches, .fwd, true⟩
  | "reverse_mismatches" => some ⟨.mismatches, .rev, true⟩
  | "tag_indels" => some ⟨.tagIndels, .both, false⟩
  | "forward_tag_indels" => some ⟨.tagIndels, .fwd, true⟩
  | "reverse_tag_indels" => some ⟨.tagIndels, .rev, true⟩
  | "indels" => some ⟨.indels, .both, true⟩
  | "forward_indels" => some ⟨.indels, .fwd, true⟩
  | "reverse_indels" => some ⟨.indels, .rev, true⟩
  | _ => none

/-- how the text of a value is read for each kind of parameter -/
def conv (fld : Field) (v : String) : M Val :=
  match fld with
  | .spacer | .tagIndels | .mismatches => atoiOrFatal v
  | .delim => firstByte v
  | .indels => .ok (.bool (v = "true"))

def applySpec (lib : Lib) (sp : PSpec) (vals : List String) : M Lib :=
  match sp.scope, vals with
  | .both, [v] => do
    let x ← conv sp.fld v
    let l ← setAll lib sp.fld true x
    setAll l sp.fld false x
  | .both, [p, v] => do
    let x ← conv sp.fld v
    setFor lib sp.fld p x
  | .both, _ => if sp.strict then .error .fatal else .ok lib
  | .fwd, [v] => do let x ← conv sp.fld v; setAll lib sp.fld true x
  | .rev, [v] => do let x ← conv sp.fld v; setAll lib sp.fld false x
  | _, _ => .error .fatal

/-- `matching`: `SetMatching` checks the value in the setter of each marker (no marker, no check) -/
def applyMatching (lib : Lib) (vals : List String) : M Lib :=
  match vals with
  | [v] =>
    match parseMode v with
    | some md => .ok (lib.map (fun m => { m with fmode := md, rmode := md }))
    | none => if lib.isEmpty then .ok lib else .error .fatal
  | _ => .error .fatal

/-- one `@param` line (at least one value); unknown names are skipped with a warning -/
def applyParam (lib : Lib) (name : String) (vals : List String) : M Lib :=
  if name = "matching" then applyMatching lib vals
  else match paramSpec name with
    | some sp => applySpec lib sp vals
    | none => .ok lib

/-- the loop over the `@param` records of `ReadCSVNGSFilter` -/
def applyParams : Lib → List (List String) → M Lib
  | lib, [] => .ok lib
  | lib, rec :: rest =>
    match rec with
    | _ :: name :: v :: vs => do
      let l ← applyParam lib name (v :: vs)
      applyParams l rest
    | [_, _] => .error .fatal           -- "Missing value for parameter"
    | _ => .error .panic                -- `params[i][1]` out of range

/-- the index of the last column called `name` (the `switch` in the loop over the header) -/
def colIndex (header : List String) (name : String) : Option Nat :=
  (header.zipIdx.filter (fun p => p.1 = name)).getLast?.map (·.2)

def isParam (r : List String) : Bool := r.head? = some "@param"

def mainCols : List String := ["experiment", "sample", "sample_tag", "forward_primer", "reverse_primer"]

def unicity (lib : Lib) : Bool := primerUnicity (lib.map (fun m => (m.fp, m.rp)))

/-- `ReadCSVNGSFilter` on the records of the file -/
def readCsv (records : List (List String)) : M Lib := do
  if records.any List.isEmpty then .error .panic      -- (`encoding/csv` never yields an empty record)
  let params := records.takeWhile isParam
  match records.dropWhile isParam with
  | [] => .error .panic                                -- `records[0]`
  | header :: data =>
    match colIndex header "experiment", colIndex header "sample", colIndex header "sample_tag",
        colIndex header "forward_primer", colIndex header "reverse_primer" with
    | some ce, some cs, some ct, some cf, some cr =>
      let extra := header.zipIdx.filter (fun p => !mainCols.contains p.1)
      let step (acc : M Lib) (fields : List String) : M Lib := do
        let lib ← acc
        if fields.length ≠ header.length then .error .sheetError
        let ann : Annots := extra.foldl (fun a p => a.set p.1 (fields.getD p.2 "")) []
        match addRow lib (fields.getD cf "") (fields.getD cr "") (parseTags (fields.getD ct ""))
            (fields.getD ce "") (fields.getD cs "") ann with
        | some l => .ok l
        | none => .error .sheetError
      let lib ← data.foldl step (.ok [])
      if !unicity lib then .error .sheetError
      applyParams lib params
    | _, _, _, _, _ => .error .sheetError

/-- `mimetype.Detect` as far as it decides between the two readers: the generic `text/csv`
detector of the library (every record, `@param` lines included, has the same number > 1 of fields,
at least two records) or `NGSFilterCsvDetector` (the same over the records that are not `@param`
lines) -/
def detectCsv (records : List (List String)) : Bool :=
  let ok (rs : List (List String)) : Bool :=
    match rs with
    | [] => false
    | r :: _ => decide (r.length > 1) && decide (rs.length > 1) && rs.all (fun x => x.length = r.length)
  ok records || ok (records.filter (fun r => !isParam r))

/-- `CheckTagLength` of every marker -/
def tagLengthsOk (lib : Lib) : Bool := lib.all (fun m => (checkTagLength m.samples).isSome)

/-- `ReadNGSFilter` on a CSV sheet.  A text that is not recognised as CSV goes to the old reader,
which rejects it (assumption on the rendering: no line of a CSV sheet is made of six blank-separated
fields) -/
def readSheetCsv (records : List (List String)) : M Lib := do
  if !detectCsv records then .error .sheetError
  let lib ← readCsv records
  if !tagLengthsOk lib then .error .sheetError
  return lib

/-! ## the old format -/

def isBlank (c : Char) : Bool := c = ' ' || c = '\t' || c = '\n' || c = '\r' || c = '\x0b' || c = '\x0c'

/-- `strings.Fields` (ASCII) -/
def fields (s : String) : List String :=
  ((s.toList.splitBy (fun a b => !isBlank a && !isBlank b)).filter
    (fun g => g.all (fun c => !isBlank c) && !g.isEmpty)).map String.ofList

/-- `strings.TrimSpace` (ASCII) -/
def trim (s : String) : String :=
  String.ofList ((s.toList.dropWhile isBlank).reverse.dropWhile isBlank).reverse

/-- the annotation part after `@` for the sub-grammar `key=word; key=word;` (the general grammar is
`ParseOBIFeatures`, property C02) -/
def simpleFeatures (s : String) : Annots :=
  (s.splitOn ";").foldl (fun a part =>
    match (trim part).splitOn "=" with
    | [k, v] => if k = "" then a else a.set (trim k) (trim v)
    | _ => a) []

/-- `ReadOldNGSFilter` on the lines of the file (+ `CheckTagLength`) -/
def readSheetOld (lines : List String) : M Lib := do
  -- an empty file: `OBIMimeNGSFilterTypeGuesser` returns the read error (EOF, nothing read)
  if lines.isEmpty then .error .sheetError
  let step (acc : M Lib) (line : String) : M Lib := do
    let lib ← acc
    let line := trim line
    if line.startsWith "#" ∨ line.isEmpty then return lib
    let (main, ann) := match line.splitOn "@" with
      | [m] => (m, none)
      | m :: rest => (m, some ("@".intercalate rest))
      | [] => ("", none)
    match fields main with
    | [exp, smp, tags, fp, rp, _] =>
      let an : Annots := match ann with
        | some a => if a.isEmpty then [] else simpleFeatures a
        | none => []
      match addRow lib fp rp (parseTags tags) exp smp an with
      | some l => .ok l
      | none => .error .sheetError
    | _ => .error .sheetError
  let lib ← lines.foldl step (.ok [])
  if !unicity lib then .error .sheetError
  if !tagLengthsOk lib then .error .sheetError
  return lib

end ObiVerif.NgsFilter
