/-!
# IEEE-754 binary64 arithmetic on non-negative finite values (property C13, deepening round 3)

`reweightSequences` computes `int(math.Round(float64(w) * float64(c) / swf))` and `FilterGraphOnRatio` tests
`float64(w1) / float64(wf) <= math.Pow(ratio, float64(dist))` (pkg/obitools/obiclean/graph.go). This file is an
executable model of the float64 operations involved, on NON-NEGATIVE FINITE values with an UNBOUNDED exponent:

* a value is `m * 2^e` (`F`), `m < 2^53`; `rnd n d` rounds the rational `n / d` to the nearest such value with a
  53-bit significand, ties to even (the IEEE default rounding, the only one Go uses);
* `ofNat` (`float64(int)`), `mul`, `div`, `add` are "exact result, then `rnd`" (IEEE-754 §4.3: every basic operation is
  correctly rounded); `le` / `lt` compare values; `roundInt` is `int(math.Round(x))` (round half away from zero);
* `pow` transcribes the pure-Go `math.pow` (go1.23 src/math/pow.go, the path taken on amd64 where `haveArchPow` is
  false) for a non-negative base and an exponent that is a positive integer: the special cases `y == 1`, `x == 0`,
  `x == 1`, then `Frexp`, the square-and-multiply loop on the bits of `yi` with its renormalisation
  `if x1 < .5 { x1 += x1; xe-- }`, and `Ldexp`.

Not modelled: subnormals, overflow, NaN, negative values. `inRange` says that a value is zero or a normal double; the
driver answers `fp-range` when an intermediate value leaves that range (it cannot for counts < 2^62 and the ratios
and distances the harness uses: `Lemmas/F64.lean` proves the arithmetic facts, the range is checked at run time).
-/
namespace ObiVerif.F64

/-- the value `m * 2^e`; zero is `m = 0` -/
structure F where
  m : Nat
  e : Int
  deriving Repr, DecidableEq

def zero : F := ⟨0, 0⟩
def one : F := ⟨2 ^ 52, -52⟩
/-- `.5` -/
def half : F := ⟨2 ^ 52, -53⟩

/-- the rational `n * 2^e / d` as a fraction of naturals -/
def scale (n d : Nat) (e : Int) : Nat × Nat :=
  if e ≥ 0 then (n * 2 ^ e.toNat, d) else (n, d * 2 ^ (-e).toNat)

/-- quotient rounded to nearest, ties to even -/
def rneQuot (N D : Nat) : Nat :=
  if 2 * (N % D) < D then N / D
  else if D < 2 * (N % D) then N / D + 1
  else if (N / D) % 2 = 0 then N / D else N / D + 1

/-- the shift `s` with `2^52 ≤ n * 2^s / d < 2^53` (`n, d > 0`) -/
def shiftOf (n d : Nat) : Int :=
  let s0 : Int := 52 - ((n.log2 : Int) - (d.log2 : Int))
  if (scale n d s0).1 < 2 ^ 52 * (scale n d s0).2 then s0 + 1 else s0

/-- `m = 2^53` (a carry out of the rounding) is renormalised -/
def norm (m : Nat) (e : Int) : F := if m = 2 ^ 53 then ⟨2 ^ 52, e + 1⟩ else ⟨m, e⟩

/-- the double nearest to `n / d` (ties to even) -/
def rnd (n d : Nat) : F :=
  if n = 0 ∨ d = 0 then zero else
  let s := shiftOf n d
  norm (rneQuot (scale n d s).1 (scale n d s).2) (-s)

/-- the double nearest to `n / d * 2^e` -/
def rndE (n d : Nat) (e : Int) : F := rnd (scale n d e).1 (scale n d e).2

/-- `float64(n)` for a non-negative Go `int` -/
def ofNat (n : Nat) : F := rnd n 1

/-- `a * b` -/
def mul (a b : F) : F := rndE (a.m * b.m) 1 (a.e + b.e)

/-- `a / b` (`b ≠ 0`) -/
def div (a b : F) : F := rndE a.m b.m (a.e - b.e)

/-- `a + b` -/
def add (a b : F) : F :=
  let e := min a.e b.e
  rndE (a.m * 2 ^ (a.e - e).toNat + b.m * 2 ^ (b.e - e).toNat) 1 e

/-- `a <= b` -/
def le (a b : F) : Bool :=
  let e := min a.e b.e
  decide (a.m * 2 ^ (a.e - e).toNat ≤ b.m * 2 ^ (b.e - e).toNat)

/-- `a < b` -/
def lt (a b : F) : Bool := !le b a

/-- `a == b` (as values) -/
def eqv (a b : F) : Bool := le a b && le b a

/-- `int(math.Round(a))` : nearest integer, halves away from zero -/
def roundInt (a : F) : Nat := (2 * (scale a.m 1 a.e).1 + (scale a.m 1 a.e).2) / (2 * (scale a.m 1 a.e).2)

/-- zero or a normal double (`2^-1022 ≤ x < 2^1024`) -/
def inRange (a : F) : Bool := a.m = 0 ∨ (2 ^ 52 ≤ a.m ∧ a.m < 2 ^ 53 ∧ -1074 ≤ a.e ∧ a.e ≤ 971)

/-! ## math.Pow(x, float64(y)) for `x ≥ 0`, `y` a positive integer -/

/-- the loop `for i := int64(yi); i != 0; i >>= 1 {…}` of `pow`; `none` : the guard `xe < -1<<12 || 1<<12 < xe` fired -/
def powLoop : Nat → Nat → F → Int → F → Int → Option (F × Int)
  | 0, _, a1, ae, _, _ => some (a1, ae)
  | fuel + 1, i, a1, ae, x1, xe =>
    if i = 0 then some (a1, ae) else
    if xe < -4096 ∨ 4096 < xe then none else
    let a1' := if i % 2 = 1 then mul a1 x1 else a1
    let ae' := if i % 2 = 1 then ae + xe else ae
    let x1' := mul x1 x1
    let xe' := 2 * xe
    if lt x1' half then powLoop fuel (i / 2) a1' ae' (add x1' x1') (xe' - 1)
    else powLoop fuel (i / 2) a1' ae' x1' xe'

/-- `math.Pow(x, float64(y))`, `y ≥ 1`; `none` = outside the modelled range -/
def pow (x : F) (y : Nat) : Option F :=
  if y = 0 ∨ eqv x one then some one
  else if y = 1 then some x
  else if x.m = 0 then some zero
  else
    -- `x1, xe := Frexp(x)` : `x = x1 * 2^xe`, `.5 ≤ x1 < 1`
    match powLoop 64 y one 0 ⟨x.m, -53⟩ (x.e + 53) with
    | none => none
    | some (a1, ae) => some ⟨a1.m, a1.e + ae⟩   -- `Ldexp(a1, ae)`

/-! ## the two expressions of graph.go -/

/-- `swf := 0.0; for … { swf += float64(count) }` -/
def sumF (cs : List Nat) : F := cs.foldl (fun s c => add s (ofNat c)) zero

/-- `int(math.Round(float64(w) * float64(c) / swf))`; `fcounts` = the counts of the fathers in edge order -/
def share (w c : Nat) (fcounts : List Nat) : Nat :=
  roundInt (div (mul (ofNat w) (ofNat c)) (sumF fcounts))

/-- `(float64(w1) / float64(wf)) <= math.Pow(ratio, float64(dist))`, `ratio = float64(p) / float64(q)`;
`none` = outside the modelled range -/
def keeps (p q w1 wf : Nat) (dist : Nat) : Option Bool :=
  match pow (div (ofNat p) (ofNat q)) dist with
  | none => none
  | some pw => if inRange pw then some (le (div (ofNat w1) (ofNat wf)) pw) else none

end ObiVerif.F64
