import ObiVerif.Model.TagSel
import ObiVerif.Model.TagV
/-!
# `Identify` with EVERYTHING verbatim (C15, round 3)

`identifyTextV` = `Identify` of obitag / `FindClosests` + `BestConsensus` of obitag2 on the byte strings with

* every kernel call verbatim (`Model/TagV.lean`: `FastLCSEGFScoreByte` on the shared scratch buffer, `D1Or0`, byte
  comparison) in the search of the query AND in `IndexSequence` of every best reference,
* the indices held as TEXT (`taxid@name@rank`, `fmt.Sprintf` of `IndexSequence`) and read back by the verbatim
  selection loop (`Model/TagSel.lean`: `strings.Split`, `strconv.Atoi`, the "horrible hack" loop).

This is the function the `dv1` / `dv2` operations of the driver run (nothing measured on the real kernels, only the
candidate orders of the real unstable sort are data).  `Props/C15V.lean` (`identifyTextV_refines`) proves it equal to
`identifyV`, hence to `identify` on `candOf`.
-/
namespace ObiVerif.Tag

open ObiVerif.Kmer (Bytes)

/-- `name`, `rank` : scientific name and rank of each taxon (what `IndexSequence` prints in the entries); a panic
inside a kernel is the outcome `.bad .panic` (search) resp. the index `.error .panic` (indexing) -/
def identifyTextV (t : Tax.Taxo) (fuel : Nat) (v : Variant) (name rank : Nat → Text) (q : Bytes) (refs : Nat → Bytes)
    (taxids : List Nat) (o : List Nat) (ows : Nat → List Nat) : IdOut :=
  match findClosestsV v q refs o with
  | .error _ => .bad .panic
  | .ok fc =>
    identifyText t fuel fc (fun b =>
      match indexSequenceV t fuel taxids b refs (ows b) with
      | .error _ => .error .panic
      | .ok r => r.map (textIndex name rank))

/-! ## the two stages of `obitag2.Identify` with everything verbatim -/

/-- one list searched by `obitag2.Identify` (the cluster heads, or the members of one family): the answer of
`FindClosests` on it and the text of the indices `IndexSequence` builds for its members (`obitag_ref_index` of the
cluster heads, `reffamidx_in` of the members of a family — `IndexSequence` run on that list alone, as
`obireffamidx` does), every kernel call verbatim; a panic inside a kernel is `.panic` / `.error .panic` -/
def stageV (t : Tax.Taxo) (fuel : Nat) (name rank : Nat → Text) (q : Bytes) (refs : Nat → Bytes) (taxids : List Nat)
    (o : List Nat) (ows : Nat → List Nat) : FCOut × (Nat → Tax.Res (List (Nat × Text))) :=
  ((match findClosestsV .tag2 q refs o with
    | .error _ => .panic
    | .ok fc => fc),
   fun b =>
    match indexSequenceV t fuel taxids b refs (ows b) with
    | .error _ => .error .panic
    | .ok r => r.map (textIndex name rank))

/-- `obitag2.Identify` (`identify2`) on the byte strings: `refsC`, `taxC`, `oC`, `owsC` = the cluster heads, their
taxa, the candidate order of the query among them and of each head among them; `present f` = the family `f` has an
entry in `*db.Families`; `refsF f`, … = the same data for the members of family `f`.  This is what the `iv3`
operation of the driver runs. -/
def identify2V (t : Tax.Taxo) (fuel : Nat) (name rank : Nat → Text) (exact : Option (Tax.Res (Nat × Nat × Nat)))
    (q : Bytes) (refsC : Nat → Bytes) (taxC : List Nat) (oC : List Nat) (owsC : Nat → List Nat)
    (present : Nat → Bool) (refsF : Nat → Nat → Bytes) (taxF : Nat → List Nat) (oF : Nat → List Nat)
    (owsF : Nat → Nat → List Nat) : Id2Out :=
  identify2 (selectText t) t fuel exact
    (stageV t fuel name rank q refsC taxC oC owsC).1 (stageV t fuel name rank q refsC taxC oC owsC).2
    (fun f => if present f then some (stageV t fuel name rank q (refsF f) (taxF f) (oF f) (owsF f)) else none)

end ObiVerif.Tag
