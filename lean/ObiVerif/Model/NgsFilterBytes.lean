import ObiVerif.Model.NgsFilter
import ObiVerif.Model.TaxLoad
/-!
# The sample-sheet reader from the BYTES of the file (C12)

`ReadNGSFilter` = `OBIMimeNGSFilterTypeGuesser` (which of the two readers) + `ReadCSVNGSFilter` /
`ReadOldNGSFilter` + `CheckTagLength`.  `Model/NgsFilter.lean` starts at the CSV records / at the lines;
this file adds the byte-level layers, reusing the model of `encoding/csv`'s line layer and of `bufio` written
for C14 (`Model/TaxLoad.lean`: `rawLines` = successive `ReadSlice('\n')`, `csvLine` = `csv.Reader.readLine`,
`splitOn`, `trimLeft`):

* `encoding/csv` as configured by `ReadCSVNGSFilter` (`Comma=','`, `Comment='#'`, `LazyQuotes`,
  `FieldsPerRecord=-1`, `TrimLeadingSpace`) and by the two detectors (the same WITHOUT `TrimLeadingSpace`;
  the generic one with `FieldsPerRecord=0`), for records in which no field STARTS with a double quote (a
  quoted field is the explicit outcome `unmodelled`; with `LazyQuotes` a quote inside a bare field is an
  ordinary byte);
* `mimetype.Detect` on the first 3072 bytes, the last incomplete line dropped (`dropLastLine`), as far as it
  chooses the reader, in the state of the mimetype tree of the running command (`whichReader`).  A "binary data byte" (e.g. a vertical tab) in the window makes the input
  `application/octet-stream`: old reader.  The other children (html, xml, php, js, lua, perl, python, json,
  ndjson, rtf, srt, tcl, vcard, icalendar, warc, vtt) and the formats recognised by magic numbers are not
  modelled: the text is assumed to be ASCII that none of them recognises;
* `_readLines` (`bufio.Reader.ReadLine` + `strings.TrimSpace`, blank lines dropped).
-/
namespace ObiVerif.NgsFilterBytes

open ObiVerif.NgsFilter
open ObiVerif.TaxLoad (rawLines csvLine splitOn trimLeft isSpace)

abbrev Bytes := List UInt8

inductive Out' | unmodelled
  deriving DecidableEq, Repr

/-- the line without its terminator -/
def stripNL (l : Bytes) : Bytes := if l.getLast? = some 10 then l.dropLast else l

/-- the `parseField` loop on a line that is neither empty nor a comment.  `trim` = `TrimLeadingSpace`:
the blanks before every field are dropped (a field made of blanks becomes empty; the blanks AFTER a field
stay).  `none` = a field starting with `"` (quoted field: not modelled). -/
def lineRec (trim : Bool) (comma : UInt8) (l : Bytes) : Option (List Bytes) :=
  let fs := (splitOn comma (stripNL l)).map (fun f => if trim then trimLeft f else f)
  if fs.any (fun f => f.head? = some 34) then none else some fs

/-- successive `Read()` over the normalised lines (`FieldsPerRecord = -1`): comment lines (first byte `#`,
BEFORE any trimming) and empty lines are skipped -/
def recsOf (trim : Bool) (comma : UInt8) : List Bytes → Option (List (List Bytes))
  | [] => some []
  | l :: ls =>
    if l.head? = some 35 then recsOf trim comma ls
    else if l = [10] ∨ l = [] then recsOf trim comma ls
    else match lineRec trim comma l, recsOf trim comma ls with
      | some r, some rs => some (r :: rs)
      | _, _ => none

/-- `csv.Reader.ReadAll()` -/
def csvAll (trim : Bool) (comma : UInt8) (text : Bytes) : Option (List (List Bytes)) :=
  recsOf trim comma ((rawLines text).map csvLine)

/-! ## which reader -/

def readLimit : Nat := 3072

/-- index of the last `\n` at an index `> 0` -/
def lastNL (b : Bytes) : Option Nat :=
  ((b.zipIdx.filter (fun p => p.1 = 10 ∧ p.2 > 0)).getLast?).map (·.2)

/-- what the detectors see: the first `readLimit` bytes; if the input fills them, the last (incomplete) line
is dropped — also when the file has exactly `readLimit` bytes -/
def detectorInput (text : Bytes) : Bytes :=
  let pre := text.take readLimit
  if pre.length < readLimit then pre
  else match lastNL pre with
    | some i => pre.take i
    | none => pre

/-- `magic.Csv` / `magic.Tsv` (`sv`): every record has the number of fields of the first one, more than one
field, more than one record -/
def svDetect (comma : UInt8) (pre : Bytes) : Option Bool :=
  (csvAll false comma pre).map fun rs =>
    match rs with
    | [] => false
    | r :: _ => decide (r.length > 1) && decide (rs.length > 1) && rs.all (fun x => x.length = r.length)

def paramHead : Bytes := [64, 112, 97, 114, 97, 109]   -- "@param"

/-- `NGSFilterCsvDetector`: the same over the records whose first field is not `@param` -/
def ngsDetect (pre : Bytes) : Option Bool :=
  (csvAll false 44 pre).map fun rs =>
    match rs.filter (fun r => r.head? ≠ some paramHead) with
    | [] => false
    | r :: rest => decide (r.length > 1) && decide (rest.length + 1 > 1) && rest.all (fun x => x.length = r.length)

inductive Kind | csv | old
  deriving DecidableEq, Repr

/-- `magic.Text`: a "binary data byte" of the mimesniff standard (NUL..BS, VT, SO..SUB, FS..US) in the window
makes the input `application/octet-stream`, not `text/plain`: the children of `text/plain` are not asked -/
def isBinaryByte (b : UInt8) : Bool :=
  decide (b ≤ 8) || b == 11 || (decide (14 ≤ b) && decide (b ≤ 26)) || (decide (28 ≤ b) && decide (b ≤ 31))

def startsWith (p : Bytes) (b : Bytes) : Bool := b.take p.length == p

/-- the FASTQ detector of `OBIMimeTypeGuesser`: regexp `^@[^ ](.*\n([^ ]+\n\+|[^ \n]*\n?$)|[^\n\x00]*$)` on the window.
`rest` is what follows the first line feed at an index ≥ 2. -/
def fastqTail (rest : Bytes) : Bool :=
  -- `[^ \n]*\n?$`
  (let w := if rest.getLast? = some 10 then rest.dropLast else rest
   !w.contains 32 && !w.contains 10) ||
  -- `[^ ]+\n\+`: a line feed followed by `+`, at least one byte and no blank before it
  ((List.range rest.length).any fun k =>
    decide (k ≥ 1) && rest[k]? == some 10 && rest[k + 1]? == some 43 && !(rest.take k).contains 32)

def fastqDetect (raw : Bytes) : Bool :=
  match raw with
  | 64 :: c :: t =>
    if c = 32 then false
    else match t.idxOf? 10 with
      | some p => fastqTail (t.drop (p + 1))
      | none => !t.contains 0      -- third alternative `[^\n\x00]*$` (patch `C02-fastq-sniff-long-title`): no line feed, no NUL in the window
  | _ => false

/-- the detectors that `OBIMimeTypeGuesser` (called for the first sequence file, BEFORE the sample sheet is
read by the command) attaches in front of the ROOT of the mimetype tree — EMBL, GenBank, ecoPCR, FASTQ, FASTA:
a sheet that looks like one of them goes to the old reader.  (GenBank: the prefix `LOCUS`; its second form,
a first line `… Genetic Sequence Data Bank`, is not modelled.) -/
def seqFormatDetect (raw : Bytes) : Bool :=
  startsWith [73, 68, 32, 32, 32] raw ||                                        -- "ID   "
  startsWith [76, 79, 67, 85, 83, 32, 32, 32, 32, 32, 32, 32] raw ||            -- "LOCUS       "
  startsWith [35, 64, 101, 99, 111, 112, 99, 114, 45, 118, 50] raw ||           -- "#@ecopcr-v2"
  fastqDetect raw ||
  (match raw with | 62 :: c :: _ => c != 32 | _ => false)                       -- `^>[^ ]`

/-- the branch taken by `ReadNGSFilter` IN THE STATE OF THE RUNNING COMMAND (the mimetype tree is process-global
and both guessers extend it at every call, in front: `OBIMimeTypeGuesser` has been called for the input file
when obimultiplex reads its sample sheet).  In order: the sequence formats at the root (→ old reader); the csv
detector attached at the root (→ `text/csv`, asked even for "binary" data); then, only for text,
`NGSFilterCsvDetector` in front of the children of `text/plain` (→ `text/ngsfilter-csv`); the generic `text/csv`
detector decides like the one at the root; every other outcome (tab-separated values, plain text, octet-stream)
goes to the old reader.  `none` = a quoted field met by a detector. -/
def whichReader (text : Bytes) : Option Kind := do
  let raw := text.take readLimit
  let pre := detectorInput text
  if seqFormatDetect raw then return .old
  if (← svDetect 44 pre) then return .csv
  if raw.any isBinaryByte then return .old
  if (← ngsDetect pre) then return .csv
  return .old

/-! ## the two readers from the bytes -/

def toStr (b : Bytes) : String := String.ofList (b.map (fun c => Char.ofNat c.toNat))

/-- `_readLines`: `ReadLine` pieces joined, `TrimSpace`, empty lines dropped.  (A blank line leaves its blanks
in the accumulator: they are prepended to the next line and trimmed with it; a file ENDING with blank
lines gives a last line of blanks, which `ReadOldNGSFilter` trims and skips: both are invisible.) -/
def readLines (text : Bytes) : List String :=
  ((rawLines text).map (fun l => trim (toStr l))).filter (fun s => !s.isEmpty)

/-- `ReadNGSFilter` on the bytes of a sample sheet; `none` = not modelled (quoted CSV field) -/
def readSheetBytes (text : Bytes) : Option (M Lib) :=
  if text.isEmpty then some (.error .sheetError)        -- the guesser returns the read error (EOF)
  else do
    match (← whichReader text) with
    | .csv =>
      let recs ← csvAll true 44 text
      some (do
        let lib ← readCsv (recs.map (fun r => r.map toStr))
        if !tagLengthsOk lib then .error .sheetError
        return lib)
    | .old =>
      -- `readSheetOld` treats "no line" as the empty FILE: a non-empty file of blank lines is an empty library
      let ls := readLines text
      some (readSheetOld (if ls.isEmpty then [""] else ls))

end ObiVerif.NgsFilterBytes
