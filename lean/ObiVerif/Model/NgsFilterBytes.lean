import ObiVerif.Model.NgsFilter
import ObiVerif.Model.TaxLoad
/-!
# The sample-sheet reader from the BYTES of the file (C12)

`ReadNGSFilter` = `OBIMimeNGSFilterTypeGuesser` (which of the two readers) + `ReadCSVNGSFilter` /
`ReadOldNGSFilter` + `CheckTagLength`.  `Model/NgsFilter.lean` starts at the CSV records / at the lines;
this file adds the byte-level layers, reusing the model of `encoding/csv`'s line layer and of `bufio` written
for C14 (`Model/TaxLoad.lean`: `rawLines` = successive `ReadSlice('\n')`, `csvLine` = `csv.Reader.readLine`,
`splitOn`, `trimLeft`):

* `encoding/csv` as configured by `ReadCSVNGSFilter` (`Comma=','`, `Comment='#'`, `LazyQuotes`,
  `FieldsPerRecord=-1`, `TrimLeadingSpace`) and by the two detectors (the same WITHOUT `TrimLeadingSpace`;
  the generic one with `FieldsPerRecord=0`), for records in which no field STARTS with a double quote (a
  quoted field is the explicit outcome `unmodelled`; with `LazyQuotes` a quote inside a bare field is an
  ordinary byte);
* `mimetype.Detect` on the first 3072 bytes, the last incomplete line dropped (`dropLastLine`), as far as it
  chooses the reader: children of `text/plain` in their order — `text/csv` (generic detector), then
  `text/tab-separated-values` (the same detector with a tab: such a text goes to the OLD reader), …, then the
  extension `text/ngsfilter-csv` (`NGSFilterCsvDetector`).  A "binary data byte" (e.g. a vertical tab) in the window makes the input
  `application/octet-stream`: old reader.  The other children (html, xml, php, js, lua, perl, python, json,
  ndjson, rtf, srt, tcl, vcard, icalendar, warc, vtt) and the formats recognised by magic numbers are not
  modelled: the text is assumed to be ASCII that none of them recognises;
* `_readLines` (`bufio.Reader.ReadLine` + `strings.TrimSpace`, blank lines dropped).
-/
namespace ObiVerif.NgsFilterBytes

open ObiVerif.NgsFilter
open ObiVerif.TaxLoad (rawLines csvLine splitOn trimLeft isSpace)

abbrev Bytes := List UInt8

inductive Out' | unmodelled
  deriving DecidableEq, Repr

/-- the line without its terminator -/
def stripNL (l : Bytes) : Bytes := if l.getLast? = some 10 then l.dropLast else l

/-- the `parseField` loop on a line that is neither empty nor a comment.  `trim` = `TrimLeadingSpace`:
the blanks before every field are dropped (a field made of blanks becomes empty; the blanks AFTER a field
stay).  `none` = a field starting with `"` (quoted field: not modelled). -/
def lineRec (trim : Bool) (comma : UInt8) (l : Bytes) : Option (List Bytes) :=
  let fs := (splitOn comma (stripNL l)).map (fun f => if trim then trimLeft f else f)
  if fs.any (fun f => f.head? = some 34) then none else some fs

/-- successive `Read()` over the normalised lines (`FieldsPerRecord = -1`): comment lines (first byte `#`,
BEFORE any trimming) and empty lines are skipped -/
def recsOf (trim : Bool) (comma : UInt8) : List Bytes → Option (List (List Bytes))
  | [] => some []
  | l :: ls =>
    if l.head? = some 35 then recsOf trim comma ls
    else if l = [10] ∨ l = [] then recsOf trim comma ls
    else match lineRec trim comma l, recsOf trim comma ls with
      | some r, some rs => some (r :: rs)
      | _, _ => none

/-- `csv.Reader.ReadAll()` -/
def csvAll (trim : Bool) (comma : UInt8) (text : Bytes) : Option (List (List Bytes)) :=
  recsOf trim comma ((rawLines text).map csvLine)

/-! ## which reader -/

def readLimit : Nat := 3072

/-- index of the last `\n` at an index `> 0` -/
def lastNL (b : Bytes) : Option Nat :=
  ((b.zipIdx.filter (fun p => p.1 = 10 ∧ p.2 > 0)).getLast?).map (·.2)

/-- what the detectors see: the first `readLimit` bytes; if the input fills them, the last (incomplete) line
is dropped — also when the file has exactly `readLimit` bytes -/
def detectorInput (text : Bytes) : Bytes :=
  let pre := text.take readLimit
  if pre.length < readLimit then pre
  else match lastNL pre with
    | some i => pre.take i
    | none => pre

/-- `magic.Csv` / `magic.Tsv` (`sv`): every record has the number of fields of the first one, more than one
field, more than one record -/
def svDetect (comma : UInt8) (pre : Bytes) : Option Bool :=
  (csvAll false comma pre).map fun rs =>
    match rs with
    | [] => false
    | r :: _ => decide (r.length > 1) && decide (rs.length > 1) && rs.all (fun x => x.length = r.length)

def paramHead : Bytes := [64, 112, 97, 114, 97, 109]   -- "@param"

/-- `NGSFilterCsvDetector`: the same over the records whose first field is not `@param` -/
def ngsDetect (pre : Bytes) : Option Bool :=
  (csvAll false 44 pre).map fun rs =>
    match rs.filter (fun r => r.head? ≠ some paramHead) with
    | [] => false
    | r :: rest => decide (r.length > 1) && decide (rest.length + 1 > 1) && rest.all (fun x => x.length = r.length)

inductive Kind | csv | old
  deriving DecidableEq, Repr

/-- `magic.Text`: a "binary data byte" of the mimesniff standard (NUL..BS, VT, SO..SUB, FS..US) in the window
makes the input `application/octet-stream`, not `text/plain`: none of the CSV detectors is even asked -/
def isBinaryByte (b : UInt8) : Bool :=
  decide (b ≤ 8) || b == 11 || (decide (14 ≤ b) && decide (b ≤ 26)) || (decide (28 ≤ b) && decide (b ≤ 31))

/-- the choice among the children of `text/plain` (`none` = a quoted field met by a detector) -/
def whichText (text : Bytes) : Option Kind := do
  let pre := detectorInput text
  if (← svDetect 44 pre) then return .csv          -- text/csv
  if (← svDetect 9 pre) then return .old           -- text/tab-separated-values
  if (← ngsDetect pre) then return .csv            -- text/ngsfilter-csv
  return .old                                      -- text/plain

/-- the branch taken by `ReadNGSFilter` -/
def whichReader (text : Bytes) : Option Kind :=
  if (text.take readLimit).any isBinaryByte then some .old      -- application/octet-stream
  else whichText text

/-! ## the two readers from the bytes -/

def toStr (b : Bytes) : String := String.ofList (b.map (fun c => Char.ofNat c.toNat))

/-- `_readLines`: `ReadLine` pieces joined, `TrimSpace`, empty lines dropped.  (A blank line leaves its blanks
in the accumulator: they are prepended to the next line and trimmed with it; a file ENDING with blank
lines gives a last line of blanks, which `ReadOldNGSFilter` trims and skips: both are invisible.) -/
def readLines (text : Bytes) : List String :=
  ((rawLines text).map (fun l => trim (toStr l))).filter (fun s => !s.isEmpty)

/-- `ReadNGSFilter` on the bytes of a sample sheet; `none` = not modelled (quoted CSV field) -/
def readSheetBytes (text : Bytes) : Option (M Lib) :=
  if text.isEmpty then some (.error .sheetError)        -- the guesser returns the read error (EOF)
  else do
    match (← whichReader text) with
    | .csv =>
      let recs ← csvAll true 44 text
      some (do
        let lib ← readCsv (recs.map (fun r => r.map toStr))
        if !tagLengthsOk lib then .error .sheetError
        return lib)
    | .old =>
      -- `readSheetOld` treats "no line" as the empty FILE: a non-empty file of blank lines is an empty library
      let ls := readLines text
      some (readSheetOld (if ls.isEmpty then [""] else ls))

end ObiVerif.NgsFilterBytes
