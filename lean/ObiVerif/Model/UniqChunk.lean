import ObiVerif.Model.UniqLoop
/-!
# The chunk stage of obiuniq, loop by loop (property C06) — core Lean only

`Model/Uniq.lean` describes `ISequenceChunk[OnDisk]` by its result (`group (hashC h) input`).  This file
transcribes the code:

* `pkg/obiiter/distribute.go` `Distribute(class)`: the per-record loop over the sorted input batches with the
  maps `slices`, `outputs` (one output iterator per class code, announced on `news` when the first record of the
  class arrives), a batch pushed on `outputs[key]` each time `len(*slice) == batchsize`, the remaining slices
  flushed at the end (`distLoop`, `distFlush`, `distribute`);
* `pkg/obichunk/chunks.go` `ISequenceChunk`: one collector per announced code appends the batches of its output
  to `chunks[code]`; at the end `for i, chunk := range chunks { if len(*chunk) > 0 { Push } }` — the order of a
  Go map range is not determined: the theorems quantify over every permutation (`chunkMem`);
* `pkg/obichunk/chunk_on_disk.go` `ISequenceChunkOnDisk`: `tempDir()` (an error is returned to the caller),
  `WriterDispatcher(dir/chunk_%s.fastx, Distribute(classifier), WriteSequencesToFile)`: one file per announced
  code holding the formatted batches of its output in push order; `find(dir, ".fastx")` (`filepath.WalkDir`:
  lexical order of the names `chunk_<code>.fastx`), every file read back with `ReadSequencesFromFile` +
  `Load()` (`panic(err)` when the file cannot be opened) and pushed as one batch, **without** length test
  (`chunkDisk`).  `Load()` appends the batches of the reader in the order they *arrive*: the reader cuts the file
  before its last record and parses the pieces with parallel workers, so the records of a chunk come back in an
  order that depends on the scheduling (observed: the last record first) — the parameter `ld`, any function
  returning a permutation of its argument.  The file layer (formatting a batch, parsing a file) is a parameter (`FileLayer`);
  `Lemmas/UniqDisk.lean` instantiates it with the FASTA / JSON-header writer and reader of property C02.
-/
namespace ObiVerif.Uniq

/-- one class of `Distribute`: its code, the batches already pushed on `outputs[key]` (in push order) and
`*slices[key]` -/
structure DEnt where
  key : Nat
  pushed : List (List Rec)
  slice : List Rec

/-- `*slice = append(*slice, s); if len(*slice) == batchsize { outputs[key].Push(batch); slices[key] = &new }` -/
def distAppend (size : Nat) (e : DEnt) (r : Rec) : DEnt :=
  let sl := e.slice ++ [r]
  if sl.length = size then { e with pushed := e.pushed ++ [sl], slice := [] } else { e with slice := sl }

/-- body of `for _, s := range seqs.Slice()` for a record of code `k`: `slice, ok := slices[key]; if !ok { new
slice, new output, news <- key }` then the append.  The classes are kept in the order they were announced. -/
def distAdd (size k : Nat) (r : Rec) : List DEnt → List DEnt
  | [] => [distAppend size ⟨k, [], []⟩ r]
  | e :: t => if e.key = k then distAppend size e r :: t else e :: distAdd size k r t

/-- the loop of `Distribute` over the records of the sorted input (`iterator.SortBatches()`) -/
def distLoop (code : Rec → Nat) (size : Nat) (recs : List Rec) : List DEnt :=
  recs.foldl (fun st r => distAdd size (code r) r st) []

/-- `for key, slice := range slices { if len(*slice) > 0 { outputs[key].Push(...) } }` -/
def distFlush (e : DEnt) : Nat × List (List Rec) :=
  (e.key, if e.slice.length > 0 then e.pushed ++ [e.slice] else e.pushed)

/-- `Distribute`: per announced code (in announcement order) the batches its output iterator delivers -/
def distribute (code : Rec → Nat) (size : Nat) (batches : List (List Rec)) : List (Nat × List (List Rec)) :=
  (distLoop code size batches.flatten).map distFlush

/-- `ISequenceChunk`: `chunks[code]` = the batches of output `code` appended; the chunks that are pushed
(`len(*chunk) > 0`), here in announcement order — the code pushes them in the order of a map range -/
def chunkMem (code : Rec → Nat) (size : Nat) (batches : List (List Rec)) : List (Nat × List Rec) :=
  ((distribute code size batches).map fun e => (e.1, e.2.flatten)).filter fun e => e.2.length > 0

/-- the file layer of the on-disk mode: a batch as the writer formats it, a whole file as the reader parses it
(`none`: the reader fails) -/
structure FileLayer (β : Type) where
  write : List Rec → List β
  read : List β → Option (List Rec)

/-- the name of a chunk file after the directory: `chunk_<code>.fastx` -/
def chunkName (k : Nat) : String := "chunk_" ++ toString k ++ ".fastx"

/-- `find(dir, ".fastx")`: `filepath.WalkDir` visits a directory in lexical order of the names -/
def lexFiles {γ : Type} (files : List (Nat × γ)) : List (Nat × γ) :=
  files.mergeSort fun a b => decide (chunkName a.1 ≤ chunkName b.1)

/-- `for order, file := range fileNames { iseq, err := ReadSequencesFromFile(file); if err != nil { panic(err) };
source, chunk := iseq.Load(); newIter.Push(...) }` -/
def readFiles {β : Type} (fl : FileLayer β) (ld : List Rec → List Rec) :
    List (Nat × List β) → Except String (List (Nat × List Rec))
  | [] => .ok []
  | f :: t =>
    match fl.read f.2 with
    | none => .error "panic"
    | some l =>
      match readFiles fl ld t with
      | .ok cs => .ok ((f.1, ld l) :: cs)
      | .error e => .error e

/-- `ISequenceChunkOnDisk`.  `mkdirOK = false`: `os.MkdirTemp` fails (temp directory missing or not writable) —
the error is returned (`IUniqueSequence` returns it: outcome `err`, nothing is dereplicated). -/
def chunkDisk {β : Type} (fl : FileLayer β) (ld : List Rec → List Rec) (mkdirOK : Bool) (code : Rec → Nat)
    (size : Nat) (batches : List (List Rec)) : Except String (List (Nat × List Rec)) :=
  if mkdirOK then
    readFiles fl ld (lexFiles ((distribute code size batches).map fun e => (e.1, (e.2.map fl.write).flatten)))
  else .error "err"

/-- the file layer the driver executes: a file is the list of its records -/
def idLayer : FileLayer Rec := ⟨id, some⟩

/-- `HashClassifier(chunks).Code` on a record -/
def hashRec (chunks : Nat) (r : Rec) : Nat := hashCode chunks r.seq

end ObiVerif.Uniq
