import ObiVerif.Gen.Tables
/-!
# Model of reverse complement, subsequence and their position transforms (C07)

Transcription of `pkg/obiseq/revcomp.go` and `subseq.go`.  The complement table is **generated** from
the source (`Gen.revcmpDNA`).  Stored sequences are lower-case (`SetSequence` lower-cases).
-/
namespace ObiVerif.SeqOps

abbrev Bytes := List UInt8

/-- `nucComplement` -/
def nucComplement (n : UInt8) : UInt8 :=
  if n = 46 || n = 45 then n            -- '.' '-'
  else if n = 91 then 93                -- '[' -> ']'
  else if n = 93 then 91                -- ']' -> '['
  else if n ≥ 65 && n ≤ 122 then        -- 'A'..'z'
    UInt8.ofNat (Gen.revcmpDNA.getD (n.toNat % 32) 0) ||| 0x20
  else 110                              -- 'n'

/-- the two-index in-place loop of `ReverseComplement`:
`for i, j := len-1, 0; i >= j; i-- { s[j], s[i] = comp(s[i]), comp(s[j]); j++ }`
(`i` is kept as `i+1` so that it stays a natural number; fuel = length) -/
def rcLoop : Nat → Array UInt8 → Nat → Nat → Array UInt8
  | 0, s, _, _ => s
  | fuel+1, s, i1, j =>
    if i1 ≥ j + 1 then
      let i := i1 - 1
      let a := nucComplement (s.getD i 0)
      let b := nucComplement (s.getD j 0)
      rcLoop fuel ((s.setIfInBounds j a).setIfInBounds i b) i (j + 1)
    else s

def revcompInPlace (s : Bytes) : Bytes := (rcLoop (s.length + 1) s.toArray s.length 0).toList

/-- the same loop without complementing (qualities) -/
def revLoop : Nat → Array UInt8 → Nat → Nat → Array UInt8
  | 0, s, _, _ => s
  | fuel+1, s, i1, j =>
    if i1 ≥ j + 1 then
      let i := i1 - 1
      let a := s.getD i 0
      let b := s.getD j 0
      revLoop fuel ((s.setIfInBounds j a).setIfInBounds i b) i (j + 1)
    else s

def reverseInPlace (s : Bytes) : Bytes := (revLoop (s.length + 1) s.toArray s.length 0).toList

/-- specification-level reverse complement -/
def rc (s : Bytes) : Bytes := (s.map nucComplement).reverse

inductive SubErr | fromGeTo | fromNeg | fromOut | toOut | panic
  deriving Repr, DecidableEq

/-- `Subsequence(from, to, circular)` on the byte content; `Int` arguments as in Go; Go's `%` is
truncated division (`Int.tmod`).  Returns the bytes and the normalised `from` used for the
position shift. -/
def subsequence (s : Bytes) (from_ to : Int) (circular : Bool) : Except SubErr (Bytes × Nat) :=
  let len : Int := s.length
  if from_ ≥ to && !circular then .error .fromGeTo
  else if from_ < 0 then .error .fromNeg
  else if from_ ≥ len && !circular then .error .fromOut
  else if len = 0 then .error .panic                       -- integer divide by zero
  else
    let from_ := Int.tmod from_ len
    if to > len && !circular then .error .toOut
    else
      let to := Int.tmod (to - 1) len + 1
      if to < 0 then .error .panic                         -- slice bounds out of range
      else if from_ < to then
        .ok ((s.drop from_.toNat).take (to.toNat - from_.toNat), from_.toNat)
      else
        .ok (s.drop from_.toNat ++ s.take to.toNat, from_.toNat)

/-- position transform of `_revcmpMutation`: `p ↦ lseq - p + 1` -/
def revcmpPos (lseq p : Int) : Int := lseq - p + 1

/-- mutation key transform of `_revcmpMutation` on a key like `(a:30)->(c:12)`:
`b[1], b[9] = comp b[9], comp b[1]` and `b[3],b[4],b[11],b[12] = b[11],b[12],b[3],b[4]`;
a key shorter than 13 bytes makes the Go code panic -/
def revcmpKey (m : Bytes) : Option Bytes :=
  if m.length < 13 then none else
  let a := m.toArray
  let g (i : Nat) := a.getD i 0
  some ((((((a.set! 1 (nucComplement (g 9))).set! 9 (nucComplement (g 1))).set! 3 (g 11)).set! 4 (g 12)).set! 11 (g 3)).set! 12 (g 4)).toList

/-- position transform of `_subseqMutation(from, origLen)` on one position (1-based):
the position moves by `from`, wraps around the origin for a circular window, and is kept only
inside the new sequence -/
def subseqPos (shift origLen lseq p : Int) : Option Int :=
  let np := p - shift
  let np := if np < 1 then np + origLen else np
  if np ≥ 1 && np ≤ lseq then some np else none

/-! ## Object histories (ownership): copies, subsequences and reverse complements are values -/

/-- `SetSequence` lower-cases -/
def lower (b : UInt8) : UInt8 := if b ≥ 65 && b ≤ 90 then b ||| 0x20 else b

/-- map-valued annotations (`map[string]int` attributes such as `merged_sample`), sorted by the driver -/
abbrev Ann := List (String × List (String × Int))

structure Obj where
  seq : Bytes
  qual : Option Bytes
  ann : Ann := []

/-- `m[k] = v` on an association list -/
def assocSet {β} (l : List (String × β)) (k : String) (v : β) : List (String × β) :=
  if l.any (·.1 == k) then l.map (fun p => if p.1 == k then (k, v) else p) else l ++ [(k, v)]

/-- in-place edit of the map stored under `key` (created when absent) -/
def annSet (a : Ann) (key k : String) (v : Int) : Ann :=
  assocSet a key (assocSet ((a.find? (·.1 == key)).map (·.2) |>.getD []) k v)

abbrev Store := List (String × Obj)

def Store.get (st : Store) (n : String) : Option Obj := (st.find? (·.1 == n)).map (·.2)
def Store.put (st : Store) (n : String) (o : Obj) : Store :=
  if st.any (·.1 == n) then st.map (fun p => if p.1 == n then (n, o) else p) else st ++ [(n, o)]

inductive Op
  | new (a : String) (s : Bytes) (q : Option Bytes)
  | copy (a b : String)
  | rc (a b : String)          -- b := a.ReverseComplement(false)
  | rci (a : String)           -- a.ReverseComplement(true)
  | sub (a b : String) (f t : Int) (circ : Bool)
  | set (a : String) (p : Nat) (v : UInt8)   -- a.Sequence()[p] = v
  | recycle (a : String)
  | mapset (a key k : String) (v : Int)   -- a.Annotations()[key][k] = v (in place)

/-- the only object an operation may change or create -/
def Op.target : Op → String
  | .new a _ _ => a | .copy _ b => b | .rc _ b => b | .rci a => a
  | .sub _ b _ _ _ => b | .set a _ _ => a | .recycle a => a | .mapset a _ _ _ => a

inductive HErr | badOp | panic
  deriving DecidableEq

def optE {α} (o : Option α) : Except HErr α := match o with | some a => .ok a | none => .error .badOp

def applyOp (st : Store) : Op → Except HErr Store
  | .new a s q => .ok (st.put a ⟨s.map lower, q, []⟩)
  | .copy a b => do let o ← optE (st.get a); pure (st.put b o)
  | .rc a b => do
    let o ← optE (st.get a)
    pure (st.put b ⟨revcompInPlace o.seq, o.qual.map reverseInPlace, o.ann⟩)
  | .rci a => do
    let o ← optE (st.get a)
    pure (st.put a ⟨revcompInPlace o.seq, o.qual.map reverseInPlace, o.ann⟩)
  | .sub a b f t c => do
    let o ← optE (st.get a)
    match subsequence o.seq f t c with
    | .ok (s, _) =>
      let q := match o.qual, subsequence (o.qual.getD []) f t c with
        | some _, .ok (q, _) => some q
        | _, _ => none
      pure (st.put b ⟨s, q, o.ann⟩)
    | .error .panic => .error .panic
    | .error _ => pure st
  | .set a p v => do
    let o ← optE (st.get a)
    pure (st.put a ⟨if p < o.seq.length then o.seq.set p v else o.seq, o.qual, o.ann⟩)
  | .recycle a => do
    let _ ← optE (st.get a)
    pure (st.put a ⟨[], none, []⟩)
  | .mapset a key k v => do
    let o ← optE (st.get a)
    pure (st.put a ⟨o.seq, o.qual, annSet o.ann key k v⟩)

end ObiVerif.SeqOps
