import ObiVerif.Gen.Tables
/-!
# Model of the paired-end aligner (C08)

Transcription of `pkg/obialign/pairedendalign.go` (`_FillMatrixPeLeftAlign`, `_FillMatrixPeRightAlign`,
`PEAlign`), `backtracking.go` (`_Backtracking`), `alignment.go` (`_BuildAlignment`,
`BuildQualityConsensus`), `pkg/obikmer/encodefourmer.go` (`Encode4mer`, `Index4mer`,
`FastShiftFourMer`) and `pkg/obitools/obipairing/pairing.go` (`AssemblePESequences`,
`JoinPairedSequence`), in the working tree of /repo (i.e. with the `fix:` patches of
`/verif/notes/patches/C08-*.diff` and `C19-encode4mer-short.diff`).

**Floats are never modelled** (DESIGN §3.4).  Everything the Go code derives from `math.Log` is a
parameter here: `s i j` is the integer `_PairingScorePeAlign(seqA[i], qualA[i], seqB[j], qualB[j], scale)`,
`g` the integer `gapPenalty`, `adj qm` the byte `byte(math.Log10(1-math.Pow(10,-qm/30))*10+0.5)`.
The theorems hold for every `s`, `g`, `adj`.

Matrix positions are *prefix lengths* `(i, j)`, `0 ≤ i ≤ la`, `0 ≤ j ≤ lb`: the Go code numbers the same
cells from −1.  Go `int` is modelled by `Int` (the tables are bounded by a few hundred, sums never get
near 2^63; see the non-finite-table finding fixed by `C08-logaddexp-nan`).
-/
namespace ObiVerif.PEAlign

abbrev Bytes := List UInt8
abbrev Path := List Int
/-- (score, direction): 0 diagonal, +1 left (a base of B alone), −1 top (a base of A alone) -/
abbrev Cell := Int × Int

/-! ## the fills -/

/-- the `switch` shared by all inner loops: diagonal first, then left, then top -/
def best (d l t : Int) : Cell :=
  if d ≥ l ∧ d ≥ t then (d, 0) else if l ≥ d ∧ l ≥ t then (l, 1) else (t, -1)

/-- rows 1..la of column 0: every cell comes from the top -/
def firstColAux (c0 : Int) : Nat → Int → List Cell
  | 0, _ => []
  | n + 1, v => (v + c0, -1) :: firstColAux c0 n (v + c0)

/-- column 0 (`_SetMatrices(…, -1, -1, 0, 0)` then the `for i` loop) -/
def firstCol (cA : Nat → Int) (la : Nat) : List Cell := (0, 0) :: firstColAux (cA 0) la 0

/-- rows `i+1 …` of column `j+1`; the list argument is column `j` from row `i` on, `top` the score just
computed in row `i` of column `j+1` (`_GetMatrixFrom` + the `switch`) -/
def scanCol (s : Nat → Nat → Int) (cB : Nat → Int) (cAj : Int) (j : Nat) : Nat → Int → List Cell → List Cell
  | i, top, d :: l :: rest =>
    let c := best (d.1 + s i j) (l.1 + cB (i + 1)) (top + cAj)
    c :: scanCol s cB cAj j (i + 1) c.1 (l :: rest)
  | _, _, _ => []

/-- column `j+1` from column `j` -/
def nextCol (s : Nat → Nat → Int) (cA cB : Nat → Int) (j : Nat) (prev : List Cell) : List Cell :=
  let first : Cell := ((prev.headD (0, 0)).1 + cB 0, 1)
  first :: scanCol s cB (cA (j + 1)) j 0 first.1 prev

/-- column `j` of the matrices (specification view used by the theorems) -/
def colAt (s : Nat → Nat → Int) (cA cB : Nat → Int) (la : Nat) : Nat → List Cell
  | 0 => firstCol cA la
  | j + 1 => nextCol s cA cB j (colAt s cA cB la j)

def cellAt (s : Nat → Nat → Int) (cA cB : Nat → Int) (la i j : Nat) : Cell :=
  (colAt s cA cB la j).getD i (0, 0)

/-- columns 0..n, each computed once from its predecessor (what is executed) -/
def table (s : Nat → Nat → Int) (cA cB : Nat → Int) (la : Nat) : Nat → List (List Cell)
  | 0 => [firstCol cA la]
  | n + 1 =>
    let t := table s cA cB la n
    t ++ [nextCol s cA cB n (t.getLastD [])]

/-! ## `_Backtracking` -/

/-- the flushes after the loop -/
def finish (ldiag lup lleft : Int) (acc : Path) : Path :=
  let r1 : Int × Path := if lleft ≠ 0 then (0, lleft :: ldiag :: acc) else (ldiag, acc)
  let r2 : Int × Path := if lup ≠ 0 then (0, lup :: r1.1 :: r1.2) else r1
  if r2.1 ≠ 0 then 0 :: r2.1 :: r2.2 else r2.2

/-- the `for i > -1 || j > -1` loop.  `P i j` is the path matrix; the path is written from its end, so
every flush *prepends* a pair.  `none` = the loop would read outside the matrix (or never end). -/
def btLoop (P : Nat → Nat → Int) : Nat → Nat → Nat → Int → Int → Int → Path → Option Path
  | 0, _, _, _, _, _, _ => none
  | fuel + 1, i, j, ldiag, lup, lleft, acc =>
    if i = 0 ∧ j = 0 then some (finish ldiag lup lleft acc)
    else
      let step := P i j
      if step = 0 then
        if i = 0 ∨ j = 0 then none
        else
          let r1 : Int × Int × Path := if lleft ≠ 0 then (0, 0, lleft :: ldiag :: acc) else (ldiag, lleft, acc)
          let r2 : Int × Int × Path := if lup ≠ 0 then (0, 0, lup :: r1.1 :: r1.2.2) else (r1.1, lup, r1.2.2)
          btLoop P fuel (i - 1) (j - 1) (r2.1 + 1) r2.2.1 r1.2.1 r2.2.2
      else if step > 0 then
        if j < step.toNat then none
        else
          let r : Int × Int × Path := if lup ≠ 0 then (0, 0, lup :: ldiag :: acc) else (ldiag, lup, acc)
          btLoop P fuel i (j - step.toNat) r.1 r.2.1 (lleft + step) r.2.2
      else
        if i < (-step).toNat then none
        else
          let r : Int × Int × Path := if lleft ≠ 0 then (0, 0, lleft :: ldiag :: acc) else (ldiag, lleft, acc)
          btLoop P fuel (i - (-step).toNat) j r.1 (lup + step) r.2.1 r.2.2

def backtrack (P : Nat → Nat → Int) (la lb : Nat) : Option Path :=
  btLoop P (la + lb + 1) la lb 0 0 0 []

structure FillRes where
  score : Int
  path : Path
  deriving Repr, DecidableEq

/-- one fill + its backtracking.  The Go fills index `seqA[la-1]` / `seqB[lb-1]`: an empty read is a
panic (`none`). -/
def fill (s : Nat → Nat → Int) (cA cB : Nat → Int) (la lb : Nat) : Option FillRes :=
  if la = 0 ∨ lb = 0 then none
  else
    let t := table s cA cB la lb
    let get := fun i j => (t.getD j []).getD i ((0, 0) : Cell)
    match backtrack (fun i j => (get i j).2) la lb with
    | some p => some ⟨(get la lb).1, p⟩
    | none => none

/-! ### the two end-gap-free schemes -/

/-- left: gaps at the beginning of B (column 0) and at the end of A (last line) are free -/
def cALeft (g : Int) (j : Nat) : Int := if j = 0 then 0 else g
def cBLeft (g : Int) (la i : Nat) : Int := if i = la then 0 else g
/-- right: gaps at the beginning of A (first line) and at the end of B (last column) are free -/
def cARight (g : Int) (lb j : Nat) : Int := if j = lb then 0 else g
def cBRight (g : Int) (i : Nat) : Int := if i = 0 then 0 else g

def fillLeft (s : Nat → Nat → Int) (g : Int) (la lb : Nat) : Option FillRes :=
  fill s (cALeft g) (cBLeft g la) la lb

def fillRight (s : Nat → Nat → Int) (g : Int) (la lb : Nat) : Option FillRes :=
  fill s (cARight g lb) (cBRight g) la lb

/-! ## the 4-mer diagonal vote (`Encode4mer`, `Index4mer`, `FastShiftFourMer`) -/

def baseCode (b : UInt8) : UInt8 := UInt8.ofNat (Gen.singleBaseCode.getD (b &&& 31).toNat 0)

def encodeRest : UInt8 → Bytes → List UInt8
  | _, [] => []
  | code, b :: t =>
    let c := (code <<< 2) ||| baseCode b
    c :: encodeRest c t

/-- `Encode4mer`: nothing for fewer than 4 bases -/
def encode4mer : Bytes → List UInt8
  | a :: b :: c :: d :: rest =>
    let f := fun (code x : UInt8) => (code <<< 2) + baseCode x      -- `code <<= 2; code += …`
    let c0 : UInt8 := f (f (f (f 0 a) b) c) d
    c0 :: encodeRest c0 rest
  | _ => []

/-- occurrences counted per shift, in first-seen order (the Go map has no order; the selection below
does not depend on it) -/
def bump (sh : Int) : List (Int × Nat) → List (Int × Nat)
  | [] => [(sh, 1)]
  | (k, c) :: t => if k = sh then (k, c + 1) :: t else (k, c) :: bump sh t

def enumFrom {α} : Nat → List α → List (Nat × α)
  | _, [] => []
  | n, x :: xs => (n, x) :: enumFrom (n + 1) xs

def shiftCounts (ka kb : List UInt8) : List (Int × Nat) :=
  (enumFrom 0 kb).foldl (fun acc (pb : Nat × UInt8) =>
    (enumFrom 0 ka).foldl (fun acc (pa : Nat × UInt8) =>
      if pa.2 = pb.2 then bump ((pa.1 : Int) - (pb.1 : Int)) acc else acc) acc) []

structure Vote where
  shift : Int
  count : Int
  num : Int      -- score = num / den ; (−1, 1) when nothing was seen
  den : Int
  deriving Repr, DecidableEq

/-- the normalisation of `FastShiftFourMer` in relative mode -/
def voteDen (rel : Bool) (la lb : Nat) (sh : Int) : Int :=
  if rel then
    (if sh > 0 then (la : Int) - sh else if sh < 0 then (lb : Int) + sh else ((min la lb : Nat) : Int)) - 3
  else 1

/-- `if score > maxscore {…} else if score == maxscore && shift < maxshift {…}`; the float scores are
ratios of small integers, compared exactly by cross-multiplication -/
def voteStep (rel : Bool) (la lb : Nat) (cur : Vote) (e : Int × Nat) : Vote :=
  let den := voteDen rel la lb e.1
  let c : Int := e.2
  if c * cur.den > cur.num * den then ⟨e.1, c, c, den⟩
  else if c * cur.den = cur.num * den ∧ e.1 < cur.shift then ⟨e.1, c, c, den⟩
  else cur

def fastShift (rel : Bool) (a b : Bytes) : Vote :=
  (shiftCounts (encode4mer a) (encode4mer b)).foldl (voteStep rel a.length b.length) ⟨0, 0, -1, 1⟩

/-! ## `PEAlign` -/

structure PERes where
  isLeft : Bool
  score : Int
  path : Path
  deriving Repr, DecidableEq

/-- exact mode: both fills, the left one only when strictly better -/
def peAlignExact (s : Nat → Nat → Int) (g : Int) (la lb : Nat) : Option PERes :=
  match fillRight s g la lb, fillLeft s g la lb with
  | some r, some l => if l.score > r.score then some ⟨true, l.score, l.path⟩ else some ⟨false, r.score, r.path⟩
  | _, _ => none

/-- `path[0] += extra5` / `path[len-2] += extra3` with the sign test of `C08-fast-path-extension` -/
def extend5 (extra5 : Int) : Path → Path
  | [] => []            -- unreachable: a local path has at least one pair
  | p0 :: rest => if p0 * extra5 < 0 then extra5 :: 0 :: p0 :: rest else (p0 + extra5) :: rest

def extend3 (extra3 : Int) (p : Path) : Path :=
  match p.reverse with
  | last :: prev :: revInit =>
    if last = 0 ∧ prev * extra3 ≥ 0 then (((prev + extra3) :: revInit).reverse) ++ [last]
    else p ++ [extra3, 0]
  | _ => p ++ [extra3, 0]

def over (la lb : Nat) (shift : Int) : Int := if shift > 0 then (la : Int) - shift else (lb : Int) + shift

/-- sum of the column scores along the ungapped diagonal -/
def diagScore (s : Nat → Nat → Int) : Nat → Nat → Nat → Int
  | 0, _, _ => 0
  | n + 1, i, j => s i j + diagScore s n (i + 1) (j + 1)

/-- fast mode after the vote returned `(shift, count)`.  `none` = a Go slice expression out of range. -/
def peAlignFastFrom (s : Nat → Nat → Int) (g : Int) (la lb : Nat) (delta : Nat) (shift count : Int) : Option PERes :=
  let ov := over la lb shift
  let local_ : Option (Bool × Int × Path × Int × Int) :=
    if count < 1 ∨ count + 3 < ov then
      if shift > 0 then
        let startA := (shift - delta).toNat
        if startA > la then none
        else
          let lra := la - startA
          let partLen := min lra lb
          match fillLeft (fun i j => s (startA + i) j) g lra partLen with
          | some r => some (true, r.score, r.path, -(startA : Int), (lb : Int) - partLen)
          | none => none
      else
        let startB := (-shift - delta).toNat
        if startB > lb then none
        else
          let lrb := lb - startB
          let partLen := min lrb la
          match fillRight (fun i j => s i (startB + j)) g partLen lrb with
          | some r => some (false, r.score, r.path, (startB : Int), (partLen : Int) - la)
          | none => none
    else
      if shift > 0 then
        let startA := shift.toNat
        if startA > la then none
        else
          let partLen := la - startA
          if partLen > lb then none
          else some (true, diagScore s partLen startA 0, [0, (partLen : Int)], -(startA : Int), (lb : Int) - partLen)
      else
        let startB := (-shift).toNat
        if startB > lb then none
        else
          let partLen := lb - startB
          if partLen > la then none
          else some (false, diagScore s partLen 0 startB, [0, (partLen : Int)], (startB : Int), (partLen : Int) - la)
  match local_ with
  | some (isLeft, score, path, extra5, extra3) => some ⟨isLeft, score, extend3 extra3 (extend5 extra5 path)⟩
  | none => none

/-! ## consensus -/

/-- Go `s[a:a+n]`, out of range = `none` -/
def slice (x : Bytes) (a n : Nat) : Option Bytes :=
  if a + n ≤ x.length then some ((x.drop a).take n) else none

/-- `_BuildAlignment`: the two gapped rows -/
def buildAlignment (seqA seqB : Bytes) (gap : UInt8) : Path → Nat → Nat → Option (Bytes × Bytes)
  | [], _, _ => some ([], [])
  | [_], _, _ => none
  | ind :: d :: rest, posA, posB =>
    let n := (-ind).toNat
    let m := ind.toNat
    let k := d.toNat
    match slice seqA posA n, slice seqB posB m, slice seqA (posA + n) k, slice seqB (posB + m) k,
          buildAlignment seqA seqB gap rest (posA + n + k) (posB + m + k) with
    | some a1, some b1, some a2, some b2, some (ra, rb) =>
      some (a1 ++ List.replicate m gap ++ a2 ++ ra, List.replicate n gap ++ b1 ++ b2 ++ rb)
    | _, _, _, _, _ => none

def fourCode (b : UInt8) : Nat := Gen.fourBitsBaseCode.getD (b &&& 31).toNat 0

/-- the base kept for a column of `BuildQualityConsensus` -/
def consBase (nA qA nB qB : UInt8) : UInt8 :=
  if qB > qA then nB
  else if qB = qA ∧ nA ≠ nB then UInt8.ofNat (Gen.fourBitsBaseDecode.getD (fourCode nA ||| fourCode nB) 0)
  else nA

/-- the column loop; `qM`, `qm` are declared outside the Go loop (they are parameters here) and, with
`C08-consensus-quality-column`, assigned in every column: `qM = qA; qm = qB; if qB > qA { qM = qB; qm = qA }`
(the unpatched code kept the values of an EARLIER column when the two qualities were equal).
Returns bases, qualities, number of matches. -/
def consLoop (adj : UInt8 → UInt8) : UInt8 → UInt8 → Bytes → Bytes → Bytes → Bytes → Bytes × Bytes × Nat
  | _, _, nA :: sA, nB :: sB, qA :: qsA, qB :: qsB =>
    let qM1 := if qB > qA then qB else qA
    let qm1 := if qB > qA then qA else qB
    let both := qA > 0 ∧ qB > 0
    let q0 : UInt8 := if both ∧ nA ≠ nB then qM1 - adj qm1 else qA + qB
    let q : UInt8 := if q0 > 90 then 90 else q0
    let r := consLoop adj qM1 qm1 sA sB qsA qsB
    (consBase nA qA nB qB :: r.1, q :: r.2.1, (if both ∧ nA = nB then 1 else 0) + r.2.2)
  | _, _, _, _, _, _ => ([], [], 0)

structure Cons where
  seq : Bytes
  qual : Bytes
  nmatch : Nat
  deriving Repr, DecidableEq

/-- `BuildQualityConsensus` (gap symbol ' ' for bases, 0 for qualities) -/
def consensus (adj : UInt8 → UInt8) (seqA qualA seqB qualB : Bytes) (p : Path) : Option Cons :=
  match buildAlignment seqA seqB 32 p 0 0, buildAlignment qualA qualB 0 p 0 0 with
  | some (sA, sB), some (qA, qB) =>
    let r := consLoop adj 0 0 sA sB qA qB
    some ⟨r.1, r.2.1, r.2.2⟩
  | _, _ => none

/-! ## `AssemblePESequences` -/

structure Assembled where
  alignment : Bool            -- mode: alignment / join
  seq : Bytes
  qual : Bytes
  dirLeft : Option Bool       -- ali_dir
  aSingle : Option Int
  bSingle : Option Int
  aliLength : Int
  nmatch : Nat
  score : Int
  deriving Repr, DecidableEq

def endRuns (p : Path) : Int × Int :=
  let left := p.headD 0
  let right := match p.reverse with
    | last :: prev :: _ => if last = 0 then prev else 0
    | _ => 0
  (left, right)

/-- `identity >= minIdentity` for identity = match/aliLength (0 when aliLength = 0), minIdentity = idn/idd -/
def identityOK (nmatch : Nat) (ali : Int) (idn idd : Nat) : Bool :=
  if ali = 0 then idn = 0
  else if ali > 0 then decide ((idn : Int) * ali ≤ (nmatch : Int) * idd)
  else decide ((nmatch : Int) * idd ≤ (idn : Int) * ali)

def assemble (seqA qualA seqB qualB : Bytes) (minOverlap idn idd : Nat) (r : PERes) (c : Cons) : Assembled :=
  let (left, right) := endRuns r.path
  let lcons : Int := c.seq.length
  let ali := lcons - left.natAbs - right.natAbs
  if ali ≥ minOverlap ∧ identityOK c.nmatch ali idn idd then
    let aS : Int := (if left < 0 then (left.natAbs : Int) else 0) + (if right < 0 then (right.natAbs : Int) else 0)
    let bS : Int := (if left < 0 then 0 else left) + (if right < 0 then 0 else right)
    ⟨true, c.seq, c.qual, some r.isLeft, some aS, some bS, ali, c.nmatch, r.score⟩
  else
    ⟨false, seqA ++ List.replicate 10 46 ++ seqB, qualA ++ List.replicate 10 0 ++ qualB,
      none, none, none, ali, c.nmatch, r.score⟩

end ObiVerif.PEAlign
