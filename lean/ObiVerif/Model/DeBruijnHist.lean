import ObiVerif.Model.DeBruijnCov
import ObiVerif.Model.KmerIndex
/-!
# Histories on ONE object (C19, fourth pass)

A `DeBruijnGraph` is a mutable object: `Push` and `FilterMinWeight` change it, `HasCycle`, `Len`, `MaxWeight`,
`HaviestPath`, `LongestConsensus` ask it.  The real struct (`pkg/obikmer/debruijn.go`) holds `kmersize`,
`kmermask`, `prevc`, `prevg`, `prevt` (fixed by `MakeDeBruijnGraph`) and the map `graph`: **no cached answer**.
The functional model is therefore the state machine whose state is the `Graph` value (the association list
after each mutator) and whose queries are functions of the state.  `Graph.trace` lists what a history observes;
the harness (`gh` operation) compares every observation of the real object with it, and `fresh` is the graph the
harness rebuilds from the real object's own weight table (every k-mer pushed as a read of exactly `k` bases, its
weight as count) to check on the real code that the answers depend on the table only.

The same for the k-mer index: `KmerMap.Push` mutates the index, `Query` returns a `KmerMatch` (a map owned by the
caller) that `FilterMinCount` mutates; the index is not touched by either.
-/
namespace ObiVerif.DeBruijn
open ObiVerif.Kmer

/-- one step of a history on a graph object -/
inductive Step where
  | push (s : Bytes) (w : Nat)          -- `Push` of a read of count `w`
  | filter (min : Int)                  -- `FilterMinWeight(min)`
  | query                               -- `HasCycle`, `Len`, `MaxWeight`, the table, `HaviestPath`, `LongestConsensus(id, 0)`
  | cov (m : Nat) (e : Int)             -- `LongestConsensus(id, m × 2^e)`
  deriving DecidableEq

/-- the state after one step: the queries do not change it -/
def Graph.apply (g : Graph) : Step → Graph
  | .push s w => g.push s w
  | .filter min => g.filterMinWeight min
  | .query => g
  | .cov _ _ => g

/-- the state after a history -/
def Graph.after (g : Graph) (h : List Step) : Graph := h.foldl Graph.apply g

/-- the answers of the `query` step (the weight table is the state itself) -/
structure Answer where
  cyc : Option Bool
  len : Nat
  maxW : Nat
  path : HPOut
  cons : ConsOut
  deriving DecidableEq

def Graph.answer (g : Graph) (fuel : Nat) : Answer :=
  ⟨g.hasCycle, g.len, g.maxWeight, g.heaviestPathH fuel, g.longestConsensusH fuel⟩

/-- what a step shows -/
inductive Obs where
  | ans (a : Answer) (table : List (Nat × Nat))
  | cov (cands : List ConsOut)
  deriving DecidableEq

/-- the observations of a history, in order -/
def Graph.trace (fuel : Nat) : Graph → List Step → List Obs
  | _, [] => []
  | g, .query :: t => .ans (g.answer fuel) g.nodes :: Graph.trace fuel g t
  | g, .cov m e :: t => .cov (g.consensusCovCands fuel m e) :: Graph.trace fuel g t
  | g, .push s w :: t => Graph.trace fuel (g.push s w) t
  | g, .filter min :: t => Graph.trace fuel (g.filterMinWeight min) t

/-- the read of exactly `k` bases that spells the k-mer word `x` -/
def kmerRead (k x : Nat) : Bytes := decodeNode k x []

/-- the graph rebuilt from a weight table: a new `MakeDeBruijnGraph(k)`, every entry pushed as a read of `k` bases
with its weight as count (what the harness does with the table of the real object) -/
def fresh (k : Nat) (table : List (Nat × Nat)) : Graph :=
  table.foldl (fun g p => g.push (kmerRead k p.1) p.2) (makeGraph k)

/-- `FilterMinWeight(a)` then `FilterMinWeight(b)` is one `FilterMinWeight`: the larger of the two as `uint`
(a negative value converts to more than every weight) -/
def fmax (a b : Int) : Int := if a < 0 then a else if b < 0 then b else if a ≤ b then b else a

end ObiVerif.DeBruijn

namespace ObiVerif.Kmer

/-- one step of a history on a `KmerMap` object -/
inductive IStep where
  | push (s : Bytes) (maxocc : Int)                 -- `Push(sequence, maxocc)`: the sequence gets the next identifier
  | query (qid : Nat) (q : Bytes) (mincount : Int)  -- `Query(sequence)` then `FilterMinCount(mincount)` on the answer
  deriving DecidableEq

/-- state: the index and the identifier of the next pushed sequence -/
structure IState where
  idx : Index
  next : Nat

def IState.apply (m : KmerMap) (st : IState) : IStep → IState
  | .push s maxocc => ⟨kmPush m maxocc st.idx st.next s, st.next + 1⟩
  | .query _ _ _ => st

/-- what a step shows: `Len` after a push; the match and the filtered match of a query -/
inductive IObs where
  | len (n : Nat)
  | matched (len : Nat) (m f : List (Nat × Nat))
  deriving DecidableEq

def itrace (m : KmerMap) (rank : Nat → Nat) : IState → List IStep → List IObs
  | _, [] => []
  | st, .push s maxocc :: t =>
    let st' := st.apply m (.push s maxocc)
    .len st'.idx.len :: itrace m rank st' t
  | st, .query qid q mincount :: t =>
    let rep := kmQuery m st.idx rank qid q
    .matched st.idx.len rep (filterMinCount rep mincount) :: itrace m rank st t

end ObiVerif.Kmer
