import ObiVerif.Model.WriteDev
/-!
# Opening the output file: truncate / append, missing or non-writable directory (C18)

`obiformats/universal_write.go` `WriteSequencesToFile` (and `WriteFastaToFile`, `WriteFastqToFile`, `WriteJSONToFile`,
`WriteCSVToFile`): `flags := O_WRONLY|O_CREATE`, `|= O_APPEND` if `opt.AppendFile()` (`obidistribute --append`) else
`|= O_TRUNC`; `os.OpenFile(filename, flags, 0660)`; an error is `log.Fatalf("open file error: %v", err)` **before** any
writer goroutine exists; otherwise the writer runs over the file with `OptionCloseFile`.

The part of the file system one output path depends on is abstracted by `Slot`: can the file be opened for writing
(`openable`: the directory exists, every component of the path is a directory, the permissions allow it, the path does
not name a directory), the content of the regular file that exists already (`old`), how many more bytes the device
accepts (`room`), whether `Close` fails.  `O_APPEND` makes every write land after the bytes present, `O_TRUNC` empties
the file at `open`.
-/
namespace ObiVerif.WriteErr

structure Slot where
  openable : Bool
  old : Option Bytes        -- `none`: no file of that name
  room : Nat
  closeFails : Bool

/-- `(outcome, content of the file after the run)`; `run room closeFails` is the writer over the opened file -/
def withOpen (append : Bool) (s : Slot) (run : Nat → Bool → Outcome × Bytes) : Outcome × Option Bytes :=
  if !s.openable then (.fatal, s.old)      -- `log.Fatalf("open file error: …")`: nothing is created, nothing is lost
  else
    let start := if append then s.old.getD [] else []
    let r := run s.room s.closeFails
    (r.1, some (start ++ r.2))

def fileRaw (append : Bool) (s : Slot) (size : Nat) (arr : List (Nat × Bytes)) : Outcome × Option Bytes :=
  withOpen append s fun room cf => writeRawO size room cf true arr

def fileJson (append : Bool) (s : Slot) (size : Nat) (arr : List (Nat × Bytes)) : Outcome × Option Bytes :=
  withOpen append s fun room cf => writeJsonO size room cf true arr

end ObiVerif.WriteErr
